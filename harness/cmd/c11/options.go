// Round-5 strengthening: the OPTION dimension of "for every interceptor", and the clause "Close returns only
// after every goroutine the interceptor started has finished" observed on the GOROUTINE SET of the process.
//
// variants.go builds one fixed option set per interceptor. An option that replaces a component which owns a
// goroutine (packetdump.PacketLog(custom): the default packet logger and its loop are not needed) selects other
// constructor code: a constructor that still starts the replaced component leaves a goroutine nobody references,
// nobody signals and no Close waits for. Here every interceptor is built with EVERY exported option of its package
// (function- and interface-valued ones included, in several sets where options exclude each other), driven by a
// small family of lifecycle scripts, ALONE in the process (census phase, before the worker pools start), and the
// set of goroutines is recorded before the constructor runs, after every call and after the final Close returned:
//
//	gs[0]       goroutines that did not exist before the constructor ran and run / were created by library code
//	gs[i+1]     the same after step i (settled: two equal counts in a row)
//	gs[last]    after the final Close returned (counted again for up to censusGrace while not zero)
//
// Set c11o, Check/C11eCheck.v: the counts are compared with the goroutine ledger of Model/Ownership.v (which
// component starts how many goroutines at which call, which of them the interceptor keeps a handle of), the
// specification oracle asks: nothing left after Close, every call returned.
package main

import (
	"io"
	"regexp"
	"runtime"
	"strconv"
	"strings"
	"time"

	"github.com/pion/interceptor"
	"github.com/pion/interceptor/pkg/cc"
	"github.com/pion/interceptor/pkg/flexfec"
	"github.com/pion/interceptor/pkg/gcc"
	"github.com/pion/interceptor/pkg/intervalpli"
	"github.com/pion/interceptor/pkg/jitterbuffer"
	"github.com/pion/interceptor/pkg/nack"
	"github.com/pion/interceptor/pkg/pacing"
	"github.com/pion/interceptor/pkg/packetdump"
	"github.com/pion/interceptor/pkg/report"
	"github.com/pion/interceptor/pkg/rfc8888"
	"github.com/pion/interceptor/pkg/stats"
	"github.com/pion/interceptor/pkg/twcc"
	"github.com/pion/rtcp"
	"github.com/pion/rtp"

	"verifharness/internal/cq"
)

const (
	optionBase  = 10 // option sets are variants with vid >= optionBase (vid - optionBase = option set id)
	censusGrace = 500 * time.Millisecond
)

// customPacketLogger is a caller-supplied packetdump.PacketLogger: it owns no goroutine.
type customPacketLogger struct{}

func (customPacketLogger) LogRTPPacket(*rtp.Header, []byte, interceptor.Attributes) {}
func (customPacketLogger) LogRTCPPackets([]rtcp.Packet, interceptor.Attributes)     {}

// customEncoderFactory is a caller-supplied flexfec.EncoderFactory.
type customEncoderFactory struct{}

func (customEncoderFactory) NewEncoder(payloadType uint8, ssrc uint32) flexfec.FlexEncoder {
	return flexfec.NewFlexEncoder03(payloadType, ssrc)
}

func rtpText(*rtp.Packet, interceptor.Attributes) string          { return "rtp\n" }
func rtcpText([]rtcp.Packet, interceptor.Attributes) string       { return "rtcp\n" }
func rtpBin(*rtp.Packet, interceptor.Attributes) ([]byte, error)  { return []byte{1}, nil }
func rtcpBin(rtcp.Packet, interceptor.Attributes) ([]byte, error) { return []byte{2}, nil }
func rtpAll(*rtp.Packet) bool                                     { return true }
func rtcpAll([]rtcp.Packet) bool                                  { return true }
func rtcpEach(rtcp.Packet) bool                                   { return true }

// optionOf: a copy of a default kind built with another option set
func optionOf(base, oid int, suffix string, remote bool, mk func() (interceptor.Interceptor, error)) *kind {
	b := *kinds[base]
	b.vid = optionBase + oid
	b.name = kinds[base].name + "/opt-" + suffix
	b.mk = mk
	b.remote = remote

	return &b
}

// buildOptionKinds: every exported option of every package at least once. Not constructible from outside the
// package: rfc8888.SenderTicker (its factory returns an unexported interface type).
func buildOptionKinds() []*kind {
	q := quietFactory{}
	dumpAll := func(more ...packetdump.PacketDumperOption) []packetdump.PacketDumperOption {
		return append([]packetdump.PacketDumperOption{packetdump.RTPWriter(io.Discard), packetdump.RTCPWriter(io.Discard),
			packetdump.WithLoggerFactory(q), packetdump.Log(quiet{})}, more...)
	}
	text := []packetdump.PacketDumperOption{packetdump.RTPFormatter(rtpText), packetdump.RTCPFormatter(rtcpText),
		packetdump.RTPFilter(rtpAll), packetdump.RTCPFilter(rtcpAll)}
	bin := []packetdump.PacketDumperOption{packetdump.RTPBinaryFormatter(rtpBin), packetdump.RTCPBinaryFormatter(rtcpBin),
		packetdump.RTCPPerPacketFilter(rtcpEach)}

	return []*kind{
		optionOf(0, 0, "log+all", true, func() (interceptor.Interceptor, error) {
			return fromFactory(nack.NewGeneratorInterceptor(nack.GeneratorInterval(tick), nack.WithGeneratorLoggerFactory(q),
				nack.GeneratorLog(quiet{}), nack.GeneratorStreamsFilter(allStreams), nack.GeneratorSize(128),
				nack.GeneratorSkipLastN(2), nack.GeneratorMaxNacksPerPacket(2)))
		}),
		optionOf(1, 0, "log+all", false, func() (interceptor.Interceptor, error) {
			return fromFactory(nack.NewResponderInterceptor(nack.WithResponderLoggerFactory(q), nack.ResponderLog(quiet{}),
				nack.DisableCopy(), nack.ResponderSize(128), nack.ResponderStreamsFilter(allStreams)))
		}),
		optionOf(2, 0, "log+now", true, func() (interceptor.Interceptor, error) {
			return fromFactory(report.NewReceiverInterceptor(report.ReceiverInterval(tick), report.WithReceiverLoggerFactory(q),
				report.ReceiverLog(quiet{}), report.ReceiverNow(time.Now)))
		}),
		optionOf(3, 0, "log+now+ticker", false, func() (interceptor.Interceptor, error) {
			return fromFactory(report.NewSenderInterceptor(report.SenderInterval(tick), report.WithSenderLoggerFactory(q),
				report.SenderLog(quiet{}), report.SenderNow(time.Now),
				report.SenderTicker(func(d time.Duration) report.Ticker { return harnessTicker{time.NewTicker(d)} }),
				report.SenderUseLatestPacket()))
		}),
		optionOf(3, 1, "log+now", false, func() (interceptor.Interceptor, error) {
			return fromFactory(report.NewSenderInterceptor(report.SenderInterval(tick), report.WithSenderLoggerFactory(q),
				report.SenderLog(quiet{}), report.SenderNow(time.Now)))
		}),
		optionOf(4, 0, "interval", true, func() (interceptor.Interceptor, error) {
			return fromFactory(twcc.NewSenderInterceptor(twcc.SendInterval(3*tick), twcc.WithLoggerFactory(q)))
		}),
		optionOf(5, 0, "now", true, func() (interceptor.Interceptor, error) {
			return fromFactory(rfc8888.NewSenderInterceptor(rfc8888.SendInterval(tick), rfc8888.WithLoggerFactory(q),
				rfc8888.SenderNow(time.Now)))
		}),
		optionOf(6, 0, "log", true, func() (interceptor.Interceptor, error) {
			return fromFactory(intervalpli.NewReceiverInterceptor(intervalpli.GeneratorInterval(tick), intervalpli.WithLoggerFactory(q),
				intervalpli.GeneratorLog(quiet{})))
		}),
		optionOf(7, 0, "recorder-factory+now", true, func() (interceptor.Interceptor, error) {
			// the caller-supplied factory does what the default one does (the default recorder is not exported)
			inner, err := fromFactory(stats.NewInterceptor(stats.WithLoggerFactory(q)))
			if err != nil {
				return nil, err
			}
			si, _ := inner.(*stats.Interceptor)
			dflt := si.RecorderFactory

			return fromFactory(stats.NewInterceptor(stats.WithLoggerFactory(q), stats.SetNowFunc(time.Now),
				stats.SetRecorderFactory(func(ssrc uint32, clockRate float64) stats.Recorder { return dflt(ssrc, clockRate) })))
		}),
		// packetdump: Receiver and Sender, text / binary formatters with every filter, and the caller-supplied
		// packet logger (alone, and together with every option of the default logger)
		optionOf(8, 0, "receiver+packetlog", true, func() (interceptor.Interceptor, error) {
			return fromFactory(packetdump.NewReceiverInterceptor(packetdump.PacketLog(customPacketLogger{}),
				packetdump.WithLoggerFactory(q)))
		}),
		optionOf(8, 1, "sender+packetlog", false, func() (interceptor.Interceptor, error) {
			return fromFactory(packetdump.NewSenderInterceptor(packetdump.PacketLog(customPacketLogger{}),
				packetdump.WithLoggerFactory(q)))
		}),
		optionOf(8, 2, "receiver+packetlog+all", true, func() (interceptor.Interceptor, error) {
			return fromFactory(packetdump.NewReceiverInterceptor(dumpAll(append(append([]packetdump.PacketDumperOption{
				packetdump.PacketLog(customPacketLogger{})}, text...), bin...)...)...))
		}),
		optionOf(8, 3, "receiver+text", true, func() (interceptor.Interceptor, error) {
			return fromFactory(packetdump.NewReceiverInterceptor(dumpAll(text...)...))
		}),
		optionOf(8, 4, "receiver+binary", true, func() (interceptor.Interceptor, error) {
			return fromFactory(packetdump.NewReceiverInterceptor(dumpAll(bin...)...))
		}),
		optionOf(8, 5, "sender+text", false, func() (interceptor.Interceptor, error) {
			return fromFactory(packetdump.NewSenderInterceptor(dumpAll(text...)...))
		}),
		optionOf(8, 6, "sender+binary", false, func() (interceptor.Interceptor, error) {
			return fromFactory(packetdump.NewSenderInterceptor(dumpAll(bin...)...))
		}),
		optionOf(9, 0, "rate+interval", false, func() (interceptor.Interceptor, error) {
			return pacing.NewInterceptor(pacing.InitialRate(500_000), pacing.Interval(2*tick), pacing.WithLoggerFactory(q)).NewInterceptor("c11")
		}),
		optionOf(10, 0, "bwe-options", false, func() (interceptor.Interceptor, error) {
			return fromFactory(cc.NewInterceptor(func() (cc.BandwidthEstimator, error) {
				return gcc.NewSendSideBWE(gcc.SendSideBWEInitialBitrate(300_000), gcc.SendSideBWEMinBitrate(50_000),
					gcc.SendSideBWEMaxBitrate(3_000_000), gcc.WithLoggerFactory(q))
			}))
		}),
		// a pacer built by the caller and handed over: the estimator closes it
		optionOf(10, 1, "own-leaky-bucket", false, func() (interceptor.Interceptor, error) {
			return fromFactory(cc.NewInterceptor(func() (cc.BandwidthEstimator, error) {
				return gcc.NewSendSideBWE(gcc.SendSideBWEPacer(gcc.NewLeakyBucketPacer(300_000)), gcc.WithLoggerFactory(q))
			}))
		}),
		optionOf(10, 2, "noop-pacer", false, func() (interceptor.Interceptor, error) {
			return fromFactory(cc.NewInterceptor(func() (cc.BandwidthEstimator, error) {
				return gcc.NewSendSideBWE(gcc.SendSideBWEPacer(gcc.NewNoOpPacer()), gcc.WithLoggerFactory(q))
			}))
		}),
		optionOf(11, 0, "log", true, func() (interceptor.Interceptor, error) {
			return fromFactory(jitterbuffer.NewInterceptor(jitterbuffer.WithLoggerFactory(q), jitterbuffer.Log(quiet{})))
		}),
		optionOf(12, 0, "encoder-factory", false, func() (interceptor.Interceptor, error) {
			return fromFactory(flexfec.NewFecInterceptor(flexfec.FECEncoderFactory(customEncoderFactory{}),
				flexfec.NumMediaPackets(3), flexfec.NumFECPackets(1)))
		}),
	}
}

var optionKinds []*kind

// censusScripts: the lifecycle histories of a census run (the final Close is appended by runScript)
func censusScripts() [][]op {
	return [][]op{
		{},
		{{K: "bindw"}, {K: "bindr"}},
		{{K: "bindw"}, {K: "bindr"}, {K: "bind", X: 1}, {K: "bind", X: 2}, {K: "traffic", X: 1}, {K: "traffic", X: 2}, {K: "rtcp", X: 1}},
		{{K: "bind", X: 1}, {K: "bindw"}, {K: "traffic", X: 1}, {K: "bindw"}},
		{{K: "bindw"}, {K: "bind", X: 1}, {K: "close"}, {K: "bindw"}, {K: "bind", X: 2}, {K: "traffic", X: 2}, {K: "close"}},
	}
}

// ---- the goroutine set ----

var goroutineHead = regexp.MustCompile(`^goroutine (\d+) \[`)

// goroutineBlocks: id -> stack text of every goroutine of the process
func goroutineBlocks() map[int]string {
	buf := make([]byte, 1<<20)
	for {
		n := runtime.Stack(buf, true)
		if n < len(buf) {
			buf = buf[:n]

			break
		}
		buf = make([]byte, 2*len(buf))
	}
	out := map[int]string{}
	for _, block := range strings.Split(string(buf), "\n\n") {
		if m := goroutineHead.FindStringSubmatch(block); m != nil {
			id, _ := strconv.Atoi(m[1])
			out[id] = block
		}
	}

	return out
}

// harness goroutines (the call goroutine of a step, the probe, the run itself) are not goroutines of the interceptor
var censusHarnessRe = regexp.MustCompile(`\smain\.`)

// newLibraryGoroutines: goroutines that did not exist at the baseline and that run, or were created by, library
// code; a call of the harness that is parked inside the library is reported through its outcome, not here.
func newLibraryGoroutines(base map[int]string) (int, string) {
	n, where := 0, ""
	for id, block := range goroutineBlocks() {
		if _, old := base[id]; old {
			continue
		}
		if !strings.Contains(block, "github.com/pion/") || censusHarnessRe.MatchString(block) {
			continue
		}
		n++
		lines := strings.Split(block, "\n")
		where = strings.TrimSpace(lines[len(lines)-2]) + " " + strings.TrimSpace(lines[len(lines)-1])
	}

	return n, where
}

// settledCount: the count once it is the same twice in a row (goroutines told to stop wind down asynchronously)
func settledCount(base map[int]string) int {
	last, _ := newLibraryGoroutines(base)
	for try := 0; try < 12; try++ {
		time.Sleep(time.Millisecond)
		n, _ := newLibraryGoroutines(base)
		if n == last {
			return n
		}
		last = n
	}

	return last
}

type censusRun struct {
	Special string   `json:"special"` // "census"
	Iid     int      `json:"iid"`
	Vid     int      `json:"vid"`
	Name    string   `json:"name"`
	COps    []op     `json:"cops"`
	Mask    int      `json:"mask"`
	Obs     [][2]int `json:"obs,omitempty"`
	Gs      []int    `json:"gs"`   // see the head of this file
	Left    int      `json:"left"` // = the last entry of Gs
	Where   string   `json:"where,omitempty"`
	Notes   []string `json:"notes,omitempty"`
}

// runCensus must run while no other part of the harness creates goroutines.
func runCensus(k *kind, ops []op) *censusRun {
	res := &censusRun{Special: "census", Iid: k.id, Vid: k.vid, Name: k.name, COps: ops}
	base := goroutineBlocks()
	sc := &script{Iid: k.id, Vid: k.vid, Name: k.name, Ops: ops}
	gs := make([]int, len(ops)+2)
	sc.afterNew = func() { gs[0] = settledCount(base) }
	sc.afterStep = func(i int) {
		if i >= len(ops) {
			return
		}
		gs[i+1] = settledCount(base)
		if ops[i].K == "close" && sc.Obs == nil {
			// a Close inside the script: what it leaves is counted like what the final Close leaves
			for deadline := time.Now().Add(censusGrace); gs[i+1] > 0 && time.Now().Before(deadline); {
				time.Sleep(5 * time.Millisecond)
				gs[i+1] = settledCount(base)
			}
		}
	}
	runScript(sc)
	left, where := newLibraryGoroutines(base)
	for deadline := time.Now().Add(censusGrace); left > 0 && time.Now().Before(deadline); {
		time.Sleep(5 * time.Millisecond)
		left, where = newLibraryGoroutines(base)
	}
	gs[len(ops)+1] = left
	res.Mask, res.Obs, res.Gs, res.Left, res.Notes = sc.Mask, sc.Obs, gs, left, sc.Notes
	if left > 0 {
		res.Where = where
	}

	return res
}

func (c *censusRun) toCase() cq.Case {
	ops := make([]string, len(c.COps))
	for i, o := range c.COps {
		ops[i] = o.coq()
	}
	obs := make([]string, len(c.Obs))
	for i, o := range c.Obs {
		obs[i] = cq.T(cq.Z(int64(o[0])), cq.Z(int64(o[1])))
	}
	b := []string{"census", c.Name}
	if c.Vid >= optionBase {
		b = append(b, "census-option-set")
	} else if c.Vid != 0 {
		b = append(b, "census-variant")
	} else {
		b = append(b, "census-default")
	}
	started := false
	for _, g := range c.Gs {
		started = started || g > 0
	}
	if started {
		b = append(b, "census-goroutines-started")
	}

	return cq.Case{
		Coq:  cq.T(cq.Z(int64(c.Iid)), cq.Z(int64(c.Vid)), cq.L(ops), cq.L(obs), cq.LZ(ints64(c.Gs))),
		JSON: c, Buckets: b, Trivial: false,
	}
}

func censusSet(runs []*censusRun) *cq.Set {
	set := &cq.Set{
		Name: "c11o", Import: "IV.Check.C11eCheck", CaseType: "c11o_case",
		Checks: []string{"c11o_mismatches", "c11o_spec_failures"},
	}
	for _, r := range runs {
		set.Cases = append(set.Cases, r.toCase())
	}

	return set
}

// censusKinds: every default kind and every option set (the variants of variants.go are option sets 3/0, 8/5,
// 10/2 ... again, or differ in the streams only)
func censusKinds() []*kind {
	return append(append([]*kind{}, kinds[:13]...), optionKinds...)
}
