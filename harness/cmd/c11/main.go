// Generator for C11 (lifecycle): sequential API scripts against the real
// interceptors, every call under a watchdog, recording writers, goroutine
// accounting through pprof labels.
package main

import (
	"bytes"
	"context"
	"errors"
	"fmt"
	"io"
	"os"
	"regexp"
	"runtime/debug"
	"runtime/pprof"
	"sort"
	"strconv"
	"strings"
	"sync"
	"sync/atomic"
	"time"

	"github.com/pion/interceptor"
	"github.com/pion/interceptor/pkg/cc"
	"github.com/pion/interceptor/pkg/flexfec"
	"github.com/pion/interceptor/pkg/intervalpli"
	"github.com/pion/interceptor/pkg/jitterbuffer"
	"github.com/pion/interceptor/pkg/mock"
	"github.com/pion/interceptor/pkg/nack"
	"github.com/pion/interceptor/pkg/pacing"
	"github.com/pion/interceptor/pkg/packetdump"
	"github.com/pion/interceptor/pkg/report"
	"github.com/pion/interceptor/pkg/rfc8888"
	"github.com/pion/interceptor/pkg/stats"
	"github.com/pion/interceptor/pkg/twcc"
	"github.com/pion/logging"
	"github.com/pion/rtcp"
	"github.com/pion/rtp"

	"verifharness/internal/cq"
)

const (
	tick       = 2 * time.Millisecond
	watchdog   = 2500 * time.Millisecond
	unbindWin  = 120 * time.Millisecond
	closeWin   = 12 * time.Millisecond
	twccURI    = "http://www.ietf.org/id/draft-holmer-rmcat-transport-wide-cc-extensions-01"
	workers    = 40
	finalGrace = 400 * time.Millisecond
)

// ---- scripts ----

type op struct {
	K string `json:"k"` // bindw bindr bind unbind traffic rtcp close
	X uint32 `json:"x,omitempty"`
}

func (o op) coq() string {
	switch o.K {
	case "bindw":
		return "OBindW"
	case "bindr":
		return "OBindR"
	case "bind":
		return cq.C("OBind", cq.ZU(uint64(o.X)))
	case "unbind":
		return cq.C("OUnbind", cq.ZU(uint64(o.X)))
	case "traffic":
		return cq.C("OTraffic", cq.ZU(uint64(o.X)))
	case "rtcp":
		return cq.C("ORtcp", cq.ZU(uint64(o.X)))
	}

	return "OClose"
}

type script struct {
	Iid   int      `json:"iid"`
	Vid   int      `json:"vid,omitempty"` // 0 default configuration, else variants.go
	Name  string   `json:"name"`
	Ops   []op     `json:"ops"`
	FailW int      `json:"failw"` // 0 never, k>0: every k-th RTCP/RTP write to the next writer fails
	Mask  int      `json:"mask"`
	Obs   [][2]int `json:"obs,omitempty"`
	Leak  int      `json:"leak"`
	Notes []string `json:"notes,omitempty"`
	// a chain built for this run (iid >= 14): ids of its members, in order (100 = mock member whose Close fails)
	Members []int `json:"members,omitempty"`
	// chains: [Chain.Close calls that returned; fewest / most Close calls a member received; 1 iff the errors are right]
	ChainObs []int `json:"chain_obs,omitempty"`

	nSync, nAsync int
	// census runs (options.go): called right after the constructor returned / after step i was observed
	afterNew  func()
	afterStep func(i int)
}

// ---- interceptor kinds ----

type kind struct {
	id      int
	name    string
	remote  bool // traffic = Read through BindRemoteStream (else Write through BindLocalStream)
	perSSRC bool // writes can be attributed to an SSRC
	mk      func() (interceptor.Interceptor, error)
	probe   func(ic interceptor.Interceptor, ssrc uint32, seq uint16) (exists, fresh bool)
	members []int // chain kinds: ids of the members
	// the probe is a build-tag hook that may be missing in the tree under test: without it the state bits
	// are not observable (mask 0)
	hookOnly bool
	// non-default configuration of interceptor `id` (variants.go); bare: streams that advertise no capability
	vid  int
	bare bool
}

func (k *kind) canProbe(ic interceptor.Interceptor) bool {
	if k.probe == nil {
		return false
	}
	if k.hookOnly {
		_, ok := ic.(streamProber)

		return ok
	}

	return true
}

type quietFactory struct{}

func (quietFactory) NewLogger(string) logging.LeveledLogger { return quiet{} }

type quiet struct{}

func (quiet) Trace(string)          {}
func (quiet) Tracef(string, ...any) {}
func (quiet) Debug(string)          {}
func (quiet) Debugf(string, ...any) {}
func (quiet) Info(string)           {}
func (quiet) Infof(string, ...any)  {}
func (quiet) Warn(string)           {}
func (quiet) Warnf(string, ...any)  {}
func (quiet) Error(string)          {}
func (quiet) Errorf(string, ...any) {}

func fromFactory(f interceptor.Factory, err error) (interceptor.Interceptor, error) {
	if err != nil {
		return nil, err
	}

	return f.NewInterceptor("c11")
}

type streamProber interface {
	VerifC11Stream(ssrc uint32) (bool, bool)
}

func hookProbe(ic interceptor.Interceptor, ssrc uint32, _ uint16) (bool, bool) {
	if p, ok := ic.(streamProber); ok {
		return p.VerifC11Stream(ssrc)
	}

	return false, true
}

var kinds = []*kind{
	{id: 0, name: "nack-generator", remote: true, perSSRC: true, probe: hookProbe, mk: func() (interceptor.Interceptor, error) {
		return fromFactory(nack.NewGeneratorInterceptor(nack.GeneratorInterval(tick), nack.WithGeneratorLoggerFactory(quietFactory{})))
	}},
	{id: 1, name: "nack-responder", remote: false, perSSRC: true, mk: func() (interceptor.Interceptor, error) {
		return fromFactory(nack.NewResponderInterceptor(nack.WithResponderLoggerFactory(quietFactory{})))
	}, probe: func(ic interceptor.Interceptor, ssrc uint32, seq uint16) (bool, bool) {
		r, ok := ic.(*nack.ResponderInterceptor)
		if !ok {
			return false, true
		}

		return r.VerifC11Stream(ssrc, seq)
	}},
	{id: 2, name: "report-receiver", remote: true, perSSRC: true, probe: hookProbe, mk: func() (interceptor.Interceptor, error) {
		return fromFactory(report.NewReceiverInterceptor(report.ReceiverInterval(tick), report.WithReceiverLoggerFactory(quietFactory{})))
	}},
	{id: 3, name: "report-sender", remote: false, perSSRC: true, probe: hookProbe, mk: func() (interceptor.Interceptor, error) {
		return fromFactory(report.NewSenderInterceptor(report.SenderInterval(tick), report.WithSenderLoggerFactory(quietFactory{})))
	}},
	{id: 4, name: "twcc-sender", remote: true, perSSRC: false, mk: func() (interceptor.Interceptor, error) {
		return fromFactory(twcc.NewSenderInterceptor(twcc.SendInterval(tick), twcc.WithLoggerFactory(quietFactory{})))
	}},
	{id: 5, name: "rfc8888", remote: true, perSSRC: true, mk: func() (interceptor.Interceptor, error) {
		return fromFactory(rfc8888.NewSenderInterceptor(rfc8888.SendInterval(tick), rfc8888.WithLoggerFactory(quietFactory{})))
	}},
	{id: 6, name: "intervalpli", remote: true, perSSRC: true, probe: hookProbe, mk: func() (interceptor.Interceptor, error) {
		return fromFactory(intervalpli.NewReceiverInterceptor(intervalpli.GeneratorInterval(tick), intervalpli.WithLoggerFactory(quietFactory{})))
	}},
	{id: 7, name: "stats", remote: true, perSSRC: true, mk: func() (interceptor.Interceptor, error) {
		return fromFactory(stats.NewInterceptor(stats.WithLoggerFactory(quietFactory{})))
	}, probe: func(ic interceptor.Interceptor, ssrc uint32, _ uint16) (bool, bool) {
		s, ok := ic.(*stats.Interceptor)
		if !ok {
			return false, true
		}
		// the recorder goroutine applies queued packets asynchronously
		var st *stats.Stats
		for i := 0; i < 20; i++ {
			st = s.Get(ssrc)
			if st == nil {
				return false, true
			}
			if st.InboundRTPStreamStats.PacketsReceived != 0 {
				return true, false
			}
			time.Sleep(500 * time.Microsecond)
		}

		return true, true
	}},
	{id: 8, name: "packetdump", remote: true, perSSRC: false, mk: func() (interceptor.Interceptor, error) {
		return fromFactory(packetdump.NewReceiverInterceptor(packetdump.RTPWriter(io.Discard), packetdump.RTCPWriter(io.Discard),
			packetdump.WithLoggerFactory(quietFactory{})))
	}},
	{id: 9, name: "pacing", remote: false, perSSRC: false, mk: func() (interceptor.Interceptor, error) {
		return pacing.NewInterceptor(pacing.Interval(tick), pacing.WithLoggerFactory(quietFactory{})).NewInterceptor("c11")
	}},
	// the probe (the pacer's writer of the stream) exists only once the hook pkg/cc/export_c11_verif.go is in the tree
	{id: 10, name: "gcc", remote: false, perSSRC: false, probe: hookProbe, hookOnly: true, mk: func() (interceptor.Interceptor, error) {
		return fromFactory(cc.NewInterceptor(nil))
	}},
	{id: 11, name: "jitterbuffer", remote: true, perSSRC: true, probe: hookProbe, mk: func() (interceptor.Interceptor, error) {
		return fromFactory(jitterbuffer.NewInterceptor(jitterbuffer.WithLoggerFactory(quietFactory{})))
	}},
	{id: 12, name: "flexfec", remote: false, perSSRC: true, probe: hookProbe, mk: func() (interceptor.Interceptor, error) {
		return fromFactory(flexfec.NewFecInterceptor())
	}},
}

// mockCloseFails is the member id of an instrumented member (pkg/mock Interceptor) whose Close returns
// errMockClose and that does nothing else: no built-in interceptor's Close ever fails, so only such a member
// shows whether Chain.Close goes on after an error.
const mockCloseFails = 100

var errMockClose = errors.New("mock member: Close failed")

// countIC counts the Close calls a chain member receives.
type countIC struct {
	interceptor.Interceptor
	closes atomic.Int32
}

func (c *countIC) Close() error {
	c.closes.Add(1)

	return c.Interceptor.Close()
}

// chainIC is a Chain that remembers its members, so that the per-stream state of every member can be probed
// and the Close calls every member receives can be counted.
type chainIC struct {
	interceptor.Interceptor
	members  []interceptor.Interceptor // the members themselves (for the probes)
	counters []*countIC                // what the Chain was built from
	kinds    []*kind                   // nil for the mock member
	failing  bool                      // a member's Close fails

	mu         sync.Mutex
	closeCalls int  // Chain.Close calls that returned
	errLost    bool // a Chain.Close did not return the failing member's error (or returned one although nobody failed)
}

func (c *chainIC) Close() error {
	err := c.Interceptor.Close()
	c.mu.Lock()
	c.closeCalls++
	if c.failing != errors.Is(err, errMockClose) || (!c.failing && err != nil) {
		c.errLost = true
	}
	c.mu.Unlock()

	return err
}

// summary: [Chain.Close calls that returned; fewest / most Close calls a member received; 1 iff every
// Chain.Close returned exactly the members' errors]
func (c *chainIC) summary() []int {
	c.mu.Lock()
	defer c.mu.Unlock()
	lo, hi := -1, 0
	for _, m := range c.counters {
		n := int(m.closes.Load())
		if lo < 0 || n < lo {
			lo = n
		}
		if n > hi {
			hi = n
		}
	}
	ok := 1
	if c.errLost {
		ok = 0
	}

	return []int{c.closeCalls, lo, hi, ok}
}

// chainKind builds the kind of Chain[members...]; all members act on the same direction (remote / local).
func chainKind(id int, members []int) *kind {
	name := "chain"
	first := -1
	for _, m := range members {
		if m == mockCloseFails {
			if id != 13 {
				name += "+closefails"
			}

			continue
		}
		if first < 0 {
			first = m
		}
		if id != 13 {
			name += "+" + kinds[m].name
		}
	}
	ms := append([]int{}, members...)

	return &kind{
		id: id, name: name, remote: kinds[first].remote, perSSRC: true, members: ms,
		mk: func() (interceptor.Interceptor, error) {
			c := &chainIC{}
			var wrapped []interceptor.Interceptor
			for _, m := range ms {
				var ic interceptor.Interceptor
				var k *kind
				if m == mockCloseFails {
					ic = &mock.Interceptor{CloseFn: func() error { return errMockClose }}
					c.failing = true
				} else {
					var err error
					if ic, err = kinds[m].mk(); err != nil {
						return nil, err
					}
					k = kinds[m]
				}
				cnt := &countIC{Interceptor: ic}
				c.members = append(c.members, ic)
				c.counters = append(c.counters, cnt)
				c.kinds = append(c.kinds, k)
				wrapped = append(wrapped, cnt)
			}
			c.Interceptor = interceptor.NewChain(wrapped)

			return c, nil
		},
		// an entry exists if any member has one; the state is fresh if every member's is
		probe: func(ic interceptor.Interceptor, ssrc uint32, seq uint16) (bool, bool) {
			c, ok := ic.(*chainIC)
			if !ok {
				return false, true
			}
			exists, fresh := false, true
			for i, m := range c.members {
				if c.kinds[i] == nil || c.kinds[i].probe == nil {
					continue
				}
				e, f := c.kinds[i].probe(m, ssrc, seq)
				exists = exists || e
				if e && !f {
					fresh = false
				}
			}

			return exists, fresh
		},
	}
}

// chains with the failing mock member placed before (or between) lifecycle-bearing members, ids 17..19
var mockChains = [][]int{{mockCloseFails, 0, 2}, {mockCloseFails, 3, 1}, {2, mockCloseFails, 6}}

func init() {
	// the chain instance of the feature record chain_cfg: Chain[nack generator; report receiver]
	kinds = append(kinds, chainKind(13, []int{0, 2}))
}

// members a random chain is built from: lifecycle-bearing interceptors none of whose calls can park
// (no hand-off channel), all with a state probe; one pool per direction
var chainPools = [][]int{{0, 2, 6, 7}, {1, 3, 12}}

// members14: the member list of a chain built for this run (the fixed instance 13 belongs to set c11)
func (k *kind) members14() []int {
	if k.id >= 14 {
		return k.members
	}

	return nil
}

// ensureChain makes kinds[id] the chain of the given members (replay / corpus of a chain case)
func ensureChain(id int, members []int) {
	for len(kinds) <= id {
		kinds = append(kinds, chainKind(len(kinds), members))
	}
	kinds[id] = chainKind(id, members)
}

func streamInfo(ssrc uint32) *interceptor.StreamInfo {
	return &interceptor.StreamInfo{
		SSRC: ssrc, ClockRate: 90000, PayloadType: 96, MimeType: "video/VP8",
		RTCPFeedback:                      []interceptor.RTCPFeedback{{Type: "nack"}, {Type: "nack", Parameter: "pli"}},
		RTPHeaderExtensions:               []interceptor.RTPHeaderExtension{{URI: twccURI, ID: 5}},
		PayloadTypeForwardErrorCorrection: 118, SSRCForwardErrorCorrection: ssrc + 1000,
	}
}

// ---- one run ----

type wr struct {
	t     time.Time
	ssrcs []uint32
	sync  bool // written inside a traffic call of the script (pass-through), not by a goroutine of the interceptor
}

var errInjected = errors.New("injected writer failure")

type parkedCall struct {
	step int
	done chan int // 0 returned, 3 panicked
}

type runner struct {
	k  *kind
	ic interceptor.Interceptor
	sc *script

	mu      sync.Mutex
	writes  []wr
	nWrites int
	inSync  atomic.Int32

	readers map[uint32]interceptor.RTPReader
	writers map[uint32]interceptor.RTPWriter
	seq     map[uint32]uint16
	next    []byte

	retAt map[int]time.Time // step -> time the call returned

	gate    atomic.Pointer[chan struct{}]
	entered chan struct{}
	rtcpRd  interceptor.RTCPReader
	rtcpIn  []byte
}

func (r *runner) record(ssrcs []uint32) error {
	if g := r.gate.Load(); g != nil && r.inSync.Load() == 0 {
		// gated run: a write made by a goroutine of the interceptor waits here until the gate opens
		select {
		case r.entered <- struct{}{}:
		default:
		}
		<-*g
	}
	r.mu.Lock()
	defer r.mu.Unlock()
	r.nWrites++
	r.writes = append(r.writes, wr{t: time.Now(), ssrcs: ssrcs, sync: r.inSync.Load() > 0})
	if r.sc.FailW > 0 && r.nWrites%r.sc.FailW == 0 {
		return errInjected
	}

	return nil
}

func (r *runner) rtcpWriter() interceptor.RTCPWriter {
	return interceptor.RTCPWriterFunc(func(pkts []rtcp.Packet, _ interceptor.Attributes) (int, error) {
		var ss []uint32
		for _, p := range pkts {
			ss = append(ss, p.DestinationSSRC()...)
		}
		if err := r.record(ss); err != nil {
			return 0, err
		}

		return 1, nil
	})
}

func (r *runner) rtpWriter() interceptor.RTPWriter {
	return interceptor.RTPWriterFunc(func(h *rtp.Header, payload []byte, _ interceptor.Attributes) (int, error) {
		if err := r.record([]uint32{h.SSRC}); err != nil {
			return 0, err
		}

		return h.MarshalSize() + len(payload), nil
	})
}

func (r *runner) rtpReader() interceptor.RTPReader {
	return interceptor.RTPReaderFunc(func(b []byte, a interceptor.Attributes) (int, interceptor.Attributes, error) {
		n := copy(b, r.next)

		return n, a, nil
	})
}

func (r *runner) info(ssrc uint32) *interceptor.StreamInfo {
	if r.k.bare {
		return bareStreamInfo(ssrc)
	}

	return streamInfo(ssrc)
}

func (r *runner) packet(ssrc uint32) *rtp.Packet {
	s := r.seq[ssrc]
	r.seq[ssrc] = s + 2 // leave a gap so that the NACK generator has something to ask for
	p := &rtp.Packet{Header: rtp.Header{Version: 2, PayloadType: 96, SequenceNumber: s, Timestamp: uint32(s) * 3000, SSRC: ssrc},
		Payload: []byte{1, 2, 3, 4}}
	ext, _ := (&rtp.TransportCCExtension{TransportSequence: s}).Marshal()
	_ = p.Header.SetExtension(5, ext)

	return p
}

func rtcpAbout(ssrc uint32, seq uint16) []byte {
	pkts := []rtcp.Packet{
		&rtcp.SenderReport{SSRC: ssrc, NTPTime: 1 << 40, RTPTime: 1000, PacketCount: 1, OctetCount: 4},
		&rtcp.TransportLayerNack{SenderSSRC: 9, MediaSSRC: ssrc, Nacks: rtcp.NackPairsFromSequenceNumbers([]uint16{seq})},
		&rtcp.TransportLayerCC{
			Header:     rtcp.Header{Padding: true, Count: rtcp.FormatTCC, Type: rtcp.TypeTransportSpecificFeedback, Length: 5},
			SenderSSRC: 9, MediaSSRC: ssrc, BaseSequenceNumber: seq, PacketStatusCount: 1, ReferenceTime: 1, FbPktCount: 0,
			PacketChunks: []rtcp.PacketStatusChunk{&rtcp.RunLengthChunk{
				Type: rtcp.TypeTCCRunLengthChunk, PacketStatusSymbol: rtcp.TypeTCCPacketReceivedSmallDelta, RunLength: 1,
			}},
			RecvDeltas: []*rtcp.RecvDelta{{Type: rtcp.TypeTCCPacketReceivedSmallDelta, Delta: 250}},
		},
	}
	raw, err := rtcp.Marshal(pkts)
	if err != nil {
		raw, _ = rtcp.Marshal(pkts[:2])
	}

	return raw
}

// do runs the API call of one step; it is called on its own goroutine.
func (r *runner) do(o op) {
	switch o.K {
	case "bindw":
		r.ic.BindRTCPWriter(r.rtcpWriter())
	case "bindr":
		rd := r.ic.BindRTCPReader(interceptor.RTCPReaderFunc(func(b []byte, a interceptor.Attributes) (int, interceptor.Attributes, error) {
			r.mu.Lock()
			n := copy(b, r.rtcpIn)
			r.mu.Unlock()

			return n, a, nil
		}))
		r.mu.Lock()
		r.rtcpRd = rd
		r.mu.Unlock()
	case "bind":
		if r.k.remote {
			rd := r.ic.BindRemoteStream(r.info(o.X), r.rtpReader())
			r.mu.Lock()
			r.readers[o.X] = rd
			r.mu.Unlock()
		} else {
			w := r.ic.BindLocalStream(r.info(o.X), r.rtpWriter())
			r.mu.Lock()
			r.writers[o.X] = w
			r.mu.Unlock()
		}
	case "unbind":
		if r.k.remote {
			r.ic.UnbindRemoteStream(r.info(o.X))
		} else {
			r.ic.UnbindLocalStream(r.info(o.X))
		}
	case "traffic":
		r.mu.Lock()
		rd, w := r.readers[o.X], r.writers[o.X]
		p := r.packet(o.X)
		if rd != nil {
			r.next, _ = p.Marshal()
		}
		r.mu.Unlock()
		if rd != nil {
			buf := make([]byte, 1500)
			_, _, _ = rd.Read(buf, interceptor.Attributes{})
		}
		if w != nil {
			r.inSync.Add(1)
			_, _ = w.Write(&p.Header, p.Payload, interceptor.Attributes{})
			r.inSync.Add(-1)
		}
	case "rtcp":
		// incoming RTCP about the stream through the reader returned by BindRTCPReader (if bound):
		// a sender report, a NACK for the packet sent last (nack responder: resend goroutine) and a
		// transport-wide feedback (gcc: hand-off to the delay controller goroutines)
		r.mu.Lock()
		rrd := r.rtcpRd
		if rrd != nil {
			r.rtcpIn = rtcpAbout(o.X, r.seq[o.X]-2)
		}
		r.mu.Unlock()
		if rrd != nil {
			_, _, _ = rrd.Read(make([]byte, 1500), interceptor.Attributes{})
		}
	case "close":
		_ = r.ic.Close()
	}
}

func (r *runner) about(x uint32, from, to time.Time) int {
	r.mu.Lock()
	defer r.mu.Unlock()
	n := 0
	for _, w := range r.writes {
		if w.sync || !w.t.After(from) || w.t.After(to) {
			continue
		}
		for _, s := range w.ssrcs {
			if s == x {
				n++

				break
			}
		}
	}

	return n
}

func (r *runner) asyncAfter(from time.Time) int {
	r.mu.Lock()
	defer r.mu.Unlock()
	n := 0
	for _, w := range r.writes {
		if !w.sync && w.t.After(from) {
			n++
		}
	}

	return n
}

// awaitEmissions waits until more writes about x than can be in flight have been seen since `from`, at most
// one window; when the window ends with some writes but not more than the allowance (ambiguous: in flight,
// or a generator that is still running on a starved machine) it waits up to two more windows.
func (r *runner) awaitEmissions(x uint32, from time.Time, allowed int) {
	for w := 0; w < 3; w++ {
		deadline := time.Now().Add(unbindWin)
		for time.Now().Before(deadline) && r.about(x, from, deadline) <= allowed {
			time.Sleep(time.Millisecond)
		}
		if n := r.about(x, from, time.Now()); n == 0 || n > allowed {
			return
		}
	}
}

type unbindMark struct {
	step    int
	x       uint32
	ret     time.Time
	allowed int
	end     time.Time
	open    bool
}

// runScript drives one script against a fresh interceptor and fills Obs.
func runScript(sc *script) {
	k := kindFor(sc.Iid, sc.Vid)
	ic, err := k.mk()
	if err != nil {
		panic(err)
	}
	if sc.afterNew != nil {
		sc.afterNew()
	}
	r := &runner{k: k, ic: ic, sc: sc, readers: map[uint32]interceptor.RTPReader{}, writers: map[uint32]interceptor.RTPWriter{},
		seq: map[uint32]uint16{}, retAt: map[int]time.Time{}}
	sc.Mask = 0
	if k.canProbe(ic) {
		sc.Mask = 1
	}
	probe := k.probe
	if sc.Mask == 0 {
		probe = nil
	}
	if rawProbe := probe; rawProbe != nil {
		// the probe takes the interceptor's own lock: when an earlier call left that lock held it never returns.
		// Run it under the watchdog; once it is stuck the state bits are no longer observed (the calls that
		// follow park on the same lock and are reported as parked)
		stuck := false
		probe = func(ic interceptor.Interceptor, ssrc uint32, seq uint16) (bool, bool) {
			if stuck {
				return false, true
			}
			type pr struct{ exists, fresh bool }
			ch := make(chan pr, 1)
			go func() { // main.runScript.funcN: not counted as a goroutine of the interceptor
				e, f := rawProbe(ic, ssrc, seq)
				ch <- pr{e, f}
			}()
			select {
			case r := <-ch:
				return r.exists, r.fresh
			case <-time.After(watchdog):
				stuck = true
				sc.noteLocked(&r.mu, "state probe blocked: a lock of the interceptor is held although no call is in progress")

				return false, true
			}
		}
	}
	ops := append(append([]op{}, sc.Ops...), op{K: "close"})
	obs := make([][2]int, len(ops))
	var parked []parkedCall
	var unbinds []*unbindMark
	closeRet := map[int]time.Time{}
	nBindW := 0
	for i, o := range ops {
		if o.K == "bindw" {
			nBindW++
		}
		if o.K == "bind" {
			now := time.Now()
			for _, u := range unbinds {
				if u.open && u.x == o.X {
					u.open, u.end = false, now
				}
			}
		}
		done := make(chan int, 1)
		var ret time.Time
		var retMu sync.Mutex
		go func(o op) {
			defer func() {
				if e := recover(); e != nil {
					sc.noteLocked(&r.mu, fmt.Sprintf("step %d (%s) panicked: %v", i, o.K, e))
					done <- 3
				}
			}()
			r.do(o)
			retMu.Lock()
			ret = time.Now()
			retMu.Unlock()
			done <- 0
		}(o)
		select {
		case oc := <-done:
			obs[i][0] = oc
		case <-time.After(watchdog):
			obs[i][0] = 1
			parked = append(parked, parkedCall{step: i, done: done})
		}
		if obs[i][0] != 0 {
			if sc.afterStep != nil {
				sc.afterStep(i)
			}

			continue
		}
		retMu.Lock()
		tRet := ret
		retMu.Unlock()
		switch o.K {
		case "bind":
			if probe != nil {
				if exists, fresh := probe(ic, o.X, r.seq[o.X]-2); exists && !fresh {
					obs[i][1] |= 1
				}
			}
		case "unbind":
			if probe != nil {
				if exists, _ := probe(ic, o.X, r.seq[o.X]-2); exists {
					obs[i][1] |= 2
				}
			}
			if k.perSSRC {
				u := &unbindMark{step: i, x: o.X, ret: tRet, allowed: nBindW + 2, open: true}
				unbinds = append(unbinds, u)
				r.awaitEmissions(o.X, tRet, u.allowed)
			}
		case "close":
			closeRet[i] = tRet
			time.Sleep(closeWin)
		case "traffic", "bindw", "rtcp":
			time.Sleep(tick)
			// a later call can (re)start emissions about a stream that is unbound: give them the same
			// window as right after the Unbind
			for _, u := range unbinds {
				if !u.open || (o.K != "bindw" && u.x != o.X) {
					continue
				}
				r.awaitEmissions(u.x, u.ret, u.allowed)
			}
		}
		if sc.afterStep != nil {
			sc.afterStep(i)
		}
	}
	// parked calls: released by a later step (1) or never (2)
	deadline := time.Now().Add(finalGrace)
	for _, p := range parked {
		select {
		case oc := <-p.done:
			if oc == 3 {
				obs[p.step][0] = 3
			}
		case <-time.After(time.Until(deadline)):
			obs[p.step][0] = 2
		}
	}
	end := time.Now()
	for _, u := range unbinds {
		if u.open {
			u.end = end
		}
		if r.about(u.x, u.ret, u.end) > u.allowed {
			obs[u.step][1] |= 1
		}
	}
	for i, t := range closeRet {
		if r.asyncAfter(t) > 0 {
			obs[i][1] |= 1
		}
	}
	sc.Obs = obs
	if c, ok := ic.(*chainIC); ok {
		sc.ChainObs = c.summary()
	}
	r.mu.Lock()
	for _, w := range r.writes {
		if w.sync {
			sc.nSync++
		} else {
			sc.nAsync++
		}
	}
	r.mu.Unlock()
}

func (sc *script) noteLocked(mu *sync.Mutex, s string) {
	mu.Lock()
	sc.Notes = append(sc.Notes, s)
	mu.Unlock()
}

// ---- gated run: Close while a goroutine of the interceptor is inside a write ----

// gate modes: what happens between "a write of a goroutine of the interceptor is held by the next
// writer" and "the writer lets it go"
const (
	gateClose        = 0 // Close
	gateUnbindClose  = 1 // Unbind every bound stream, then Close
	gateDoubleClose  = 2 // Close, and a second Close while the first is still waiting
	gateUnbindDouble = 3 // Unbind every bound stream, then the two Closes
	nGateModes       = 4
)

var gateModeName = []string{"close", "unbind-all-close", "double-close", "unbind-all-double-close"}

type gateResult struct {
	Special       string `json:"special"`
	Iid           int    `json:"iid"`
	Vid           int    `json:"vid,omitempty"`
	Name          string `json:"name"`
	Mode          int    `json:"mode"`
	Members       []int  `json:"members,omitempty"` // chain kinds built for the run (iid >= 14)
	Entered       bool   `json:"entered"`           // a goroutine of the interceptor was caught inside a write
	ClosedEarly   bool   `json:"closed_early"`      // Close returned while that write was still in progress
	Close2Early   bool   `json:"close2_early"`      // the second Close returned while that write was still in progress
	LateWrites    int    `json:"late_writes"`       // writes of goroutines of the interceptor that completed after a Close had returned
	AliveAtReturn int    `json:"alive_at_return"`   // goroutines started by the interceptor that were alive when the first Close returned
	CloseHang     bool   `json:"close_hang"`        // a Close did not return after the write completed
	UnbindSlow    bool   `json:"unbind_slow"`       // an Unbind returned only after the writer let the held write go
	UnbindHang    bool   `json:"unbind_hang"`       // an Unbind never returned
	NotClosed     bool   `json:"member_not_closed"` // chains: a member received fewer (or more) Close calls than Chain.Close was called
	ErrLost       bool   `json:"close_error_lost"`  // chains: Chain.Close did not return the failing member's error
	Panic         string `json:"panic,omitempty"`
}

func (g *gateResult) obs() []int64 {
	b := func(x bool) int64 {
		if x {
			return 1
		}

		return 0
	}
	late := int64(0)
	if g.LateWrites > 0 {
		late = 1
	}

	return []int64{b(g.Entered), b(g.ClosedEarly), b(g.Close2Early), late, b(g.CloseHang), b(g.UnbindHang), b(g.Panic != ""),
		b(g.AliveAtReturn > 0), b(g.NotClosed), b(g.ErrLost)}
}

var gateLabelRe = regexp.MustCompile(`"c11g":"([0-9-]+)"`)

// a frame of the harness' own goroutines (the gated run itself, its helper goroutines, an API call of a
// script step); closures of the recording writers are named main.(*runner).do.(*runner).rtpWriter.funcN
// and must not match
var harnessFrameRe = regexp.MustCompile(`\smain\.(runGate|within|aliveWithLabel|\(\*runner\)\.do\+)`)

// aliveWithLabel counts the goroutines that carry the gated run's pprof label (inherited by every
// goroutine the interceptor starts) and are not goroutines of the harness itself.
func aliveWithLabel(label string) int {
	var buf bytes.Buffer
	_ = pprof.Lookup("goroutine").WriteTo(&buf, 1)
	n := 0
	for _, block := range strings.Split(buf.String(), "\n\n") {
		m := gateLabelRe.FindStringSubmatch(block)
		if m == nil || m[1] != label {
			continue
		}
		if os.Getenv("C11_DEBUG_ALIVE") != "" {
			fmt.Fprintln(os.Stderr, "ALIVE?", block)
		}
		if harnessFrameRe.MatchString(block) {
			continue
		}
		c := 1
		if f := strings.Fields(block); len(f) > 0 {
			if v, err := strconv.Atoi(f[0]); err == nil {
				c = v
			}
		}
		n += c
	}

	return n
}

// within runs f on its own goroutine and reports whether it returned within d; the channel is closed
// when f has returned.
func within(d time.Duration, f func()) (bool, chan struct{}) {
	done := make(chan struct{})
	go func() {
		defer close(done)
		f()
	}()
	select {
	case <-done:
		return true, done
	case <-time.After(d):
		return false, done
	}
}

// runGate: bind, make the interceptor want to write, hold its write in the next writer, then (mode)
// unbind every stream / Close / Close twice, and see whether every Close waits for the goroutine that
// is writing.
func runGate(k *kind, mode int) *gateResult {
	res := &gateResult{Special: "gate", Iid: k.id, Vid: k.vid, Name: k.name, Mode: mode, Members: k.members14()}
	label := fmt.Sprintf("%d-%d-%d", k.id, k.vid, mode)
	pprof.Do(context.Background(), pprof.Labels("c11g", label), func(context.Context) { runGateLabelled(k, mode, label, res) })

	return res
}

func runGateLabelled(k *kind, mode int, label string, res *gateResult) {
	ic, err := k.mk()
	if err != nil {
		panic(err)
	}
	sc := &script{Iid: k.id}
	r := &runner{k: k, ic: ic, sc: sc, readers: map[uint32]interceptor.RTPReader{}, writers: map[uint32]interceptor.RTPWriter{},
		seq: map[uint32]uint16{}, retAt: map[int]time.Time{}, entered: make(chan struct{}, 1)}
	var pmu sync.Mutex
	note := func(e any) {
		pmu.Lock()
		res.Panic = fmt.Sprint(e)
		pmu.Unlock()
	}
	guarded := func(f func()) func() {
		return func() {
			defer func() {
				if e := recover(); e != nil {
					note(e)
				}
			}()
			f()
		}
	}
	g := make(chan struct{})
	r.gate.Store(&g)
	var pending []chan struct{}
	call := func(o op) {
		// a traffic call may park behind the held write (hand-off to a loop that is writing): do not wait for it
		if ok, done := within(50*time.Millisecond, guarded(func() { r.do(o) })); !ok {
			pending = append(pending, done)
		}
	}
	call(op{K: "bindw"})
	call(op{K: "bindr"})
	call(op{K: "bind", X: 1})
	call(op{K: "bind", X: 2})
	for i := 0; i < 3; i++ {
		call(op{K: "traffic", X: 1})
	}
	call(op{K: "traffic", X: 2})
	// a NACK for the last packet written (nack responder: starts a resend goroutine)
	nackPkt := &rtcp.TransportLayerNack{SenderSSRC: 9, MediaSSRC: 1, Nacks: rtcp.NackPairsFromSequenceNumbers([]uint16{r.seq[1] - 2})}
	raw, _ := nackPkt.Marshal()
	r.mu.Lock()
	r.rtcpIn = raw
	rd := r.rtcpRd
	r.mu.Unlock()
	if rd != nil {
		if ok, done := within(50*time.Millisecond, guarded(func() { _, _, _ = rd.Read(make([]byte, 1500), interceptor.Attributes{}) })); !ok {
			pending = append(pending, done)
		}
	}
	select {
	case <-r.entered:
		res.Entered = true
	case <-time.After(150 * time.Millisecond):
	}
	var unbinds []chan struct{}
	if mode == gateUnbindClose || mode == gateUnbindDouble {
		for x := uint32(1); x <= 2; x++ {
			ok, done := within(40*time.Millisecond, guarded(func() { r.do(op{K: "unbind", X: x}) }))
			if !ok {
				res.UnbindSlow = true
			}
			unbinds = append(unbinds, done)
		}
	}
	nClose := 1
	if mode == gateDoubleClose || mode == gateUnbindDouble {
		nClose = 2
	}
	closed := make([]chan struct{}, nClose)
	var retMu sync.Mutex
	var firstRet time.Time
	alive := -1
	for c := 0; c < nClose; c++ {
		closed[c] = make(chan struct{})
		go func(c int) {
			defer close(closed[c])
			guarded(func() { _ = ic.Close() })()
			now := time.Now()
			retMu.Lock()
			first := firstRet.IsZero()
			if first {
				firstRet = now
			}
			retMu.Unlock()
			if first {
				n := aliveWithLabel(label)
				retMu.Lock()
				alive = n
				retMu.Unlock()
			}
		}(c)
		if c+1 < nClose {
			time.Sleep(5 * time.Millisecond) // the first Close is inside its wait (or has returned) when the second starts
		}
	}
	if res.Entered {
		for c := 0; c < nClose; c++ {
			select {
			case <-closed[c]:
				if c == 0 {
					res.ClosedEarly = true
				} else {
					res.Close2Early = true
				}
			case <-time.After(40 * time.Millisecond):
			}
		}
	}
	close(g)
	// a closed channel, not time.After: more than one of the calls below may hang, and each must see the deadline
	deadline := make(chan struct{})
	time.AfterFunc(watchdog, func() { close(deadline) })
	for c := 0; c < nClose; c++ {
		select {
		case <-closed[c]:
		case <-deadline:
			res.CloseHang = true
		}
	}
	for _, u := range unbinds {
		select {
		case <-u:
		case <-deadline:
			res.UnbindHang = true
		}
	}
	for _, p := range pending {
		select {
		case <-p:
		case <-deadline:
			res.CloseHang = true // a call parked behind the held write was not released by Close
		}
	}
	time.Sleep(closeWin)
	if c, ok := ic.(*chainIC); ok && !res.CloseHang {
		// every member was closed once per Chain.Close call, and the failing member's error came back
		sum := c.summary()
		res.NotClosed = sum[1] != sum[0] || sum[2] != sum[0] || sum[0] != nClose
		res.ErrLost = sum[3] != 1
	}
	retMu.Lock()
	fr := firstRet
	if alive > 0 {
		res.AliveAtReturn = alive
	}
	retMu.Unlock()
	if !fr.IsZero() {
		r.mu.Lock()
		for _, w := range r.writes {
			if !w.sync && w.t.After(fr) {
				res.LateWrites++
			}
		}
		r.mu.Unlock()
	}
}

// ---- Close from a second goroutine while two goroutines keep reading/writing ----

type concResult struct {
	Special     string `json:"special"`
	Iid         int    `json:"iid"`
	Vid         int    `json:"vid,omitempty"`
	Name        string `json:"name"`
	DelayUs     int    `json:"delay_us"`
	TrafficHang bool   `json:"traffic_hang"`
	CloseHang   bool   `json:"close_hang"`
	SetupHang   string `json:"setup_hang,omitempty"` // a Bind call of the preparation never returned
	LateWrites  int    `json:"late_writes"`
	Panic       string `json:"panic,omitempty"`
}

func runConcurrent(k *kind, delayUs int) *concResult {
	res := &concResult{Special: "concurrent-close", Iid: k.id, Vid: k.vid, Name: k.name, DelayUs: delayUs}
	ic, err := k.mk()
	if err != nil {
		panic(err)
	}
	r := &runner{k: k, ic: ic, sc: &script{Iid: k.id}, readers: map[uint32]interceptor.RTPReader{}, writers: map[uint32]interceptor.RTPWriter{},
		seq: map[uint32]uint16{}, retAt: map[int]time.Time{}}
	var pmu sync.Mutex
	note := func(e any) {
		pmu.Lock()
		res.Panic = fmt.Sprint(e)
		pmu.Unlock()
	}
	// under the watchdog: a lock left held by one Bind parks the next one for ever (and a harness in which every
	// goroutine is asleep is killed by the runtime instead of reporting)
	for _, o := range []op{{K: "bindw"}, {K: "bindr"}, {K: "bind", X: 1}, {K: "bind", X: 2}} {
		if ok, _ := within(watchdog, func() {
			defer func() {
				if e := recover(); e != nil {
					note(e)
				}
			}()
			r.do(o)
		}); !ok {
			res.SetupHang = fmt.Sprintf("%s %d", o.K, o.X)

			return res
		}
	}
	var stop atomic.Bool
	var tw sync.WaitGroup
	for x := uint32(1); x <= 2; x++ {
		tw.Add(1)
		go func(x uint32) {
			defer tw.Done()
			defer func() {
				if e := recover(); e != nil {
					note(e)
				}
			}()
			for !stop.Load() {
				r.do(op{K: "traffic", X: x})
				r.do(op{K: "rtcp", X: x})
			}
		}(x)
	}
	time.Sleep(time.Duration(delayUs) * time.Microsecond)
	closed := make(chan time.Time, 1)
	go func() {
		defer func() {
			if e := recover(); e != nil {
				note(e)
				closed <- time.Now()
			}
		}()
		_ = ic.Close()
		closed <- time.Now()
	}()
	var closeRet time.Time
	select {
	case closeRet = <-closed:
	case <-time.After(watchdog):
		res.CloseHang = true
	}
	time.Sleep(3 * time.Millisecond)
	stop.Store(true)
	done := make(chan struct{})
	go func() { tw.Wait(); close(done) }()
	select {
	case <-done:
	case <-time.After(watchdog):
		res.TrafficHang = true
	}
	quiet := time.Now()
	time.Sleep(closeWin)
	if !res.CloseHang && !res.TrafficHang {
		// writes made after the traffic goroutines stopped and after Close returned can only come from
		// goroutines of the interceptor
		from := quiet
		if closeRet.After(from) {
			from = closeRet
		}
		r.mu.Lock()
		for _, w := range r.writes {
			if w.t.After(from) {
				res.LateWrites++
			}
		}
		r.mu.Unlock()
	}

	return res
}

// ---- goroutine accounting ----

var labelRe = regexp.MustCompile(`"c11":"(\d+)"`)

// leaked returns, per script index, the goroutines that carry its label, are
// not one of the harness' own call goroutines and are still alive.
func leaked() (map[int]int, map[int]string) {
	var buf bytes.Buffer
	_ = pprof.Lookup("goroutine").WriteTo(&buf, 1)
	counts, where := map[int]int{}, map[int]string{}
	for _, block := range strings.Split(buf.String(), "\n\n") {
		m := labelRe.FindStringSubmatch(block)
		if m == nil {
			continue
		}
		if strings.Contains(block, "main.runScript") || strings.Contains(block, "main.(*runner).do") ||
			strings.Contains(block, "main.worker") {
			continue
		}
		idx, _ := strconv.Atoi(m[1])
		n := 1
		if f := strings.Fields(block); len(f) > 0 {
			if v, err := strconv.Atoi(f[0]); err == nil {
				n = v
			}
		}
		counts[idx] += n
		lines := strings.Split(block, "\n")
		if len(lines) > 2 {
			where[idx] = strings.TrimSpace(lines[len(lines)-1])
		}
	}

	return counts, where
}

func runAll(scs []*script) {
	var wg sync.WaitGroup
	ch := make(chan int)
	for w := 0; w < workers; w++ {
		wg.Add(1)
		go worker(&wg, ch, scs)
	}
	for i := range scs {
		ch <- i
	}
	close(ch)
	wg.Wait()
	// let goroutines that were told to stop wind down, then look for survivors
	var counts map[int]int
	var where map[int]string
	for try := 0; try < 10; try++ {
		time.Sleep(60 * time.Millisecond)
		counts, where = leaked()
		if len(counts) == 0 {
			break
		}
	}
	for i, n := range counts {
		if scs[i].Obs != nil {
			// goroutines of calls that stay parked for ever are reported as outcome 2, not as leaks
			scs[i].Leak = n
			scs[i].Notes = append(scs[i].Notes, "goroutine still alive after Close: "+where[i])
		}
	}
}

// pacing.NewInterceptor allocates a queue of 1 000 000 packet slots (56 MB) per interceptor: with 40 workers
// on pacing scripts at once the harness needed 10 GB; at most heavyMax such interceptors are alive at a time
const heavyMax = 5

var heavySem = make(chan struct{}, heavyMax)

func worker(wg *sync.WaitGroup, ch chan int, scs []*script) {
	defer wg.Done()
	for i := range ch {
		if scs[i].Iid == 9 {
			heavySem <- struct{}{}
			pprof.Do(context.Background(), pprof.Labels("c11", strconv.Itoa(i)), func(context.Context) {
				runScript(scs[i])
			})
			<-heavySem

			continue
		}
		pprof.Do(context.Background(), pprof.Labels("c11", strconv.Itoa(i)), func(context.Context) {
			runScript(scs[i])
		})
	}
}

// ---- generation ----

var failingWriterScripts = [][]op{
	{{K: "bindw"}, {K: "bindr"}, {K: "bind", X: 1}, {K: "traffic", X: 1}, {K: "traffic", X: 1}, {K: "traffic", X: 1},
		{K: "traffic", X: 1}, {K: "traffic", X: 1}, {K: "traffic", X: 1}},
	{{K: "bind", X: 1}, {K: "bind", X: 2}, {K: "bindw"}, {K: "bindr"}, {K: "traffic", X: 1}, {K: "traffic", X: 2},
		{K: "rtcp", X: 1}, {K: "traffic", X: 1}, {K: "unbind", X: 1}, {K: "traffic", X: 2}, {K: "traffic", X: 2}},
	{{K: "bindw"}, {K: "bind", X: 1}, {K: "traffic", X: 1}, {K: "traffic", X: 1}, {K: "unbind", X: 1}, {K: "bind", X: 1},
		{K: "traffic", X: 1}, {K: "traffic", X: 1}, {K: "traffic", X: 1}},
}

// longWarmScripts: a stream that has seen enough traffic for state that only builds up over many packets (the
// jitter buffer starts playing out after 50) is unbound and bound again at once
func longWarmScripts() [][]op {
	rep := func(x uint32, n int) []op {
		out := make([]op, n)
		for i := range out {
			out[i] = op{K: "traffic", X: x}
		}

		return out
	}
	cat := func(parts ...[]op) []op {
		var out []op
		for _, p := range parts {
			out = append(out, p...)
		}

		return out
	}
	ub := func(x uint32) []op { return []op{{K: "unbind", X: x}, {K: "bind", X: x}} }

	return [][]op{
		cat([]op{{K: "bindw"}, {K: "bindr"}, {K: "bind", X: 1}}, rep(1, 52), ub(1), rep(1, 1)),
		// (BindRTCPWriter first: without a loop every packet call of twcc / rfc8888 parks until the watchdog)
		cat([]op{{K: "bindw"}, {K: "bind", X: 1}}, rep(1, 52), ub(1), rep(1, 3), ub(1)),
		cat([]op{{K: "bind", X: 1}, {K: "bindw"}, {K: "bind", X: 2}}, rep(1, 30), rep(2, 25), ub(2), ub(1)),
	}
}

func alphabet(nSSRC int) []op {
	a := []op{{K: "bindw"}, {K: "bindr"}, {K: "close"}}
	for x := 1; x <= nSSRC; x++ {
		a = append(a, op{K: "bind", X: uint32(x)}, op{K: "unbind", X: uint32(x)}, op{K: "traffic", X: uint32(x)},
			op{K: "rtcp", X: uint32(x)})
	}

	return a
}

func allSeqs(a []op, maxLen int) [][]op {
	out := [][]op{{}}
	level := [][]op{{}}
	for l := 0; l < maxLen; l++ {
		var nxt [][]op
		for _, p := range level {
			for _, o := range a {
				q := append(append([]op{}, p...), o)
				nxt = append(nxt, q)
			}
		}
		out = append(out, nxt...)
		level = nxt
	}

	return out[1:]
}

// valid: traffic on an SSRC needs a reader/writer, i.e. an earlier Bind of that SSRC
// (traffic through the handle of a stream that was unbound meanwhile is kept); incoming
// RTCP needs the reader returned by an earlier BindRTCPReader.
func valid(ops []op) bool {
	bound := map[uint32]bool{}
	reader := false
	for _, o := range ops {
		if o.K == "bind" {
			bound[o.X] = true
		}
		if o.K == "bindr" {
			reader = true
		}
		if o.K == "traffic" && !bound[o.X] {
			return false
		}
		if o.K == "rtcp" && !reader {
			return false
		}
	}

	return true
}

func (sc *script) toCase(buckets ...string) cq.Case {
	ops := make([]string, len(sc.Ops))
	for i, o := range sc.Ops {
		ops[i] = o.coq()
	}
	obs := make([]string, len(sc.Obs))
	for i, o := range sc.Obs {
		obs[i] = cq.T(cq.Z(int64(o[0])), cq.Z(int64(o[1])))
	}
	b := append([]string{kindFor(sc.Iid, sc.Vid).name}, buckets...)
	hasClose, hasUnbind, parked := false, false, false
	for _, o := range sc.Ops {
		hasClose = hasClose || o.K == "close"
		hasUnbind = hasUnbind || o.K == "unbind"
	}
	for _, o := range sc.Obs {
		parked = parked || o[0] == 1 || o[0] == 2
	}
	if hasClose {
		b = append(b, "close-inside")
	}
	if hasUnbind {
		b = append(b, "unbind")
	}
	if parked {
		b = append(b, "parked-call")
	}
	if sc.FailW > 0 {
		b = append(b, "failing-writer")
	}

	if len(sc.Members) > 0 {
		ms := make([]int64, len(sc.Members))
		tagChain := "random-chain"
		for i, m := range sc.Members {
			ms[i] = int64(m)
			if m == mockCloseFails {
				tagChain = "chain-with-failing-close"
			}
		}
		co := make([]int64, len(sc.ChainObs))
		for i, v := range sc.ChainObs {
			co[i] = int64(v)
		}

		return cq.Case{
			Coq:  cq.T(cq.Z(int64(sc.Iid)), cq.LZ(ms), cq.Z(int64(sc.Mask)), cq.L(ops), cq.L(obs), cq.Z(int64(sc.Leak)), cq.LZ(co)),
			JSON: sc, Buckets: append(b, tagChain), Trivial: len(sc.Ops) < 2,
		}
	}

	return cq.Case{
		Coq:     cq.T(cq.Z(int64(sc.Iid)), cq.Z(int64(sc.Mask)), cq.L(ops), cq.L(obs), cq.Z(int64(sc.Leak))),
		JSON:    sc,
		Buckets: b, Trivial: len(sc.Ops) < 2,
	}
}

func implFailures(scs []*script) []cq.ImplFailure {
	var fails []cq.ImplFailure
	seen := map[string]bool{}
	add := func(kind, detail string, sc *script) {
		if seen[kind] {
			return
		}
		seen[kind] = true
		fails = append(fails, cq.ImplFailure{Kind: kind, Detail: detail, Case: sc})
	}
	for _, sc := range scs {
		name := kindFor(sc.Iid, sc.Vid).name
		ops := append(append([]op{}, sc.Ops...), op{K: "close"})
		for i, o := range sc.Obs {
			switch o[0] {
			case 2:
				add(name+"-"+ops[i].K+"-hang", fmt.Sprintf("step %d (%s %d) never returned, not even after Close", i, ops[i].K, ops[i].X), sc)
			case 3:
				add(name+"-"+ops[i].K+"-panic", fmt.Sprintf("step %d (%s) panicked: %v", i, ops[i].K, sc.Notes), sc)
			case 1:
				if ops[i].K != "traffic" && ops[i].K != "rtcp" {
					add(name+"-"+ops[i].K+"-blocks", fmt.Sprintf("step %d (%s %d) returned only after a later call", i, ops[i].K, ops[i].X), sc)
				}
			}
		}
		if sc.Leak > 0 {
			add(name+"-goroutine-leak", fmt.Sprintf("%d goroutine(s) alive after Close: %v", sc.Leak, sc.Notes), sc)
		}
	}

	return fails
}

func main() {
	debug.SetMemoryLimit(2 << 30) // soft limit: collect early instead of letting garbage double the heap
	o := cq.ParseFlags()
	rng := o.Rand()
	set := &cq.Set{
		Name: "c11", Import: "IV.Check.C11cCheck", CaseType: "c11_case",
		Checks: []string{"c11_mismatches", "c11_spec_failures", "c11_open_strand_failures", "c11_release_failures"},
	}
	var scs []*script
	var tags [][]string
	addK := func(k *kind, ops []op, failw int, tag ...string) {
		if !valid(ops) {
			return
		}
		scs = append(scs, &script{Iid: k.id, Vid: k.vid, Name: k.name, Ops: ops, FailW: failw, Members: k.members14()})
		tags = append(tags, tag)
	}
	add := func(iid int, ops []op, failw int, tag ...string) { addK(kinds[iid], ops, failw, tag...) }
	variants = buildVariants()
	optionKinds = buildOptionKinds()
	var censusReplay *censusRun
	replayGate, replayConc, replayGateMode, replayVid := -1, -1, 0, 0
	var heldReplay, heldCorpus []heldJob
	if o.Replay != "" {
		var g gateResult
		cq.LoadReplay(o.Replay, &g)
		switch g.Special {
		case "census":
			censusReplay = &censusRun{}
			cq.LoadReplay(o.Replay, censusReplay)
			add(censusReplay.Iid, []op{{K: "bindw"}}, 0, "replay")
		case "gate":
			if len(g.Members) > 0 {
				ensureChain(g.Iid, g.Members)
			}
			replayGate, replayGateMode, replayVid = g.Iid, g.Mode, g.Vid
			add(g.Iid, []op{{K: "bindw"}}, 0, "replay") // keeps the case set non-empty
		case "concurrent-close":
			replayConc, replayVid = g.Iid, g.Vid
			add(g.Iid, []op{{K: "bindw"}}, 0, "replay")
		case "held":
			var h heldResult
			cq.LoadReplay(o.Replay, &h)
			// which select case the loop takes after the release is random: replay the run several times
			for i := 0; i < 8; i++ {
				heldReplay = append(heldReplay, heldJob{k: heldKinds[h.Hid], mode: h.Mode, p0: h.P0, ps: h.Ps, qs: h.Qs})
			}
			add(8, []op{{K: "bindw"}}, 0, "replay")
		default:
			var sc script
			cq.LoadReplay(o.Replay, &sc)
			if len(sc.Members) > 0 {
				ensureChain(sc.Iid, sc.Members)
			}
			// schedule-dependent failures do not show on every run: replay the script several times
			for i := 0; i < 12; i++ {
				addK(kindFor(sc.Iid, sc.Vid), sc.Ops, sc.FailW, "replay")
			}
		}
	} else if os.Getenv("C11_ONLY") != "" {
		// debugging aid: only the gated / concurrent runs (one script keeps the case set non-empty)
		add(0, []op{{K: "bindw"}, {K: "bind", X: 1}}, 0, "debug")
	} else {
		for _, f := range o.CorpusFiles() {
			var sc script
			cq.LoadReplay(f, &sc)
			if sc.Name != "" && len(sc.Ops) > 0 && len(sc.Members) == 0 {
				addK(kindFor(sc.Iid, sc.Vid), sc.Ops, sc.FailW, "corpus")
			}
			var h heldResult
			cq.LoadReplay(f, &h)
			if h.Special == "held" && h.Hid >= 0 && h.Hid < len(heldKinds) {
				heldCorpus = append(heldCorpus, heldJob{k: heldKinds[h.Hid], mode: h.Mode, p0: h.P0, ps: h.Ps, qs: h.Qs})
			}
		}
		// 3 random chains of lifecycle-bearing members (at least one per direction), ids 14..16
		for c := 0; c < 3; c++ {
			pool := chainPools[c%2]
			if c == 2 {
				pool = chainPools[rng.Intn(2)]
			}
			n := 2 + rng.Intn(2)
			if n > len(pool) {
				n = len(pool)
			}
			perm := rng.Perm(len(pool))
			ms := make([]int, n)
			for i := range ms {
				ms[i] = pool[perm[i]]
			}
			kinds = append(kinds, chainKind(14+c, ms))
		}
		for c, ms := range mockChains {
			kinds = append(kinds, chainKind(17+c, ms))
		}
		depth := 2
		if o.Tier == "thorough" {
			depth = 3
		}
		short := append(allSeqs(alphabet(2), depth), allSeqs(alphabet(1), depth+1)...)
		suffix := allSeqs(alphabet(2), 2)
		warm := []op{{K: "bindw"}, {K: "bindr"}, {K: "bind", X: 1}, {K: "traffic", X: 1}}
		reopened := append(append([]op{}, warm...), op{K: "close"}, op{K: "bind", X: 1}, op{K: "traffic", X: 1})
		full := alphabet(3)
		nRand := o.Scale(120, 1500)
		for _, k := range kinds {
			for _, s := range short {
				if k.id >= 14 {
					break // the random chains get the warm / reopened / failing-writer / random scripts only
				}
				add(k.id, s, 0, "exhaustive")
			}
			for _, s := range suffix {
				add(k.id, append(append([]op{}, warm...), s...), 0, "warm+exhaustive")
				// the same after a Close: what the interceptor still does once closed
				add(k.id, append(append(append([]op{}, warm...), op{K: "close"}), s...), 0, "closed+exhaustive")
			}
			// use after Close: bind and send again, then one more call
			for _, o1 := range alphabet(2) {
				add(k.id, append(append([]op{}, reopened...), o1), 0, "reopened")
			}
			// every write to the next writer fails / every 2nd / every 3rd: a loop that gives up after a write
			// error stops consuming its hand-off channel and strands the next Read/Write
			for failw := 1; failw <= 3; failw++ {
				for _, s := range failingWriterScripts {
					add(k.id, s, failw, "failing-writer-fixed")
				}
			}
			for _, s := range longWarmScripts() {
				add(k.id, s, 0, "long-warm-rebind")
			}
			// Unbind x, a packet through the stale handle of x, then every call
			for _, s := range staleHandleScripts(1) {
				add(k.id, s, 0, "stale-handle")
			}
			for i := 0; i < nRand; i++ {
				n := 4 + rng.Intn(4)
				s := make([]op, n)
				for j := range s {
					s[j] = full[rng.Intn(len(full))]
					if s[j].K == "traffic" && rng.Intn(2) == 0 { // make traffic land on bound streams more often
						for q := j - 1; q >= 0; q-- {
							if s[q].K == "bind" {
								s[j].X = s[q].X

								break
							}
						}
					}
				}
				if !valid(s) {
					i--

					continue
				}
				failw := 0
				if rng.Intn(3) == 0 {
					failw = 1 + rng.Intn(3)
				}
				add(k.id, s, failw, "random")
			}
		}
		// the same interceptors in a non-default configuration (variants.go): set c11v
		nVRand := o.Scale(40, 600)
		for _, v := range variants {
			for _, s := range staleHandleScripts(2) {
				addK(v, s, 0, "stale-handle")
			}
			for _, s := range suffix {
				addK(v, append(append([]op{}, warm...), s...), 0, "warm+exhaustive")
			}
			for _, o1 := range alphabet(2) {
				addK(v, append(append([]op{}, reopened...), o1), 0, "reopened")
			}
			for failw := 1; failw <= 3; failw++ {
				for _, s := range failingWriterScripts {
					addK(v, s, failw, "failing-writer-fixed")
				}
			}
			for i := 0; i < nVRand; i++ {
				n := 4 + rng.Intn(5)
				s := make([]op, n)
				for j := range s {
					s[j] = full[rng.Intn(len(full))]
				}
				if !valid(s) {
					i--

					continue
				}
				failw := 0
				if rng.Intn(4) == 0 {
					failw = 1 + rng.Intn(3)
				}
				addK(v, s, failw, "random")
			}
		}
	}
	t0 := time.Now()
	// census runs (options.go): alone in the process, before the worker pools exist
	var census []*censusRun
	switch {
	case censusReplay != nil:
		for i := 0; i < 3; i++ {
			census = append(census, runCensus(kindFor(censusReplay.Iid, censusReplay.Vid), censusReplay.COps))
		}
	case o.Replay == "" && (os.Getenv("C11_ONLY") == "" || os.Getenv("C11_ONLY") == "census"):
		for _, k := range censusKinds() {
			for _, s := range censusScripts() {
				census = append(census, runCensus(k, s))
			}
		}
	}
	censusWall := time.Since(t0).Seconds()
	if os.Getenv("C11_CENSUS_DUMP") != "" { // debugging aid
		for _, c := range census {
			fmt.Fprintln(os.Stderr, "CENSUS", c.Name, c.Iid, c.Vid, c.COps, c.Gs, c.Obs, c.Where)
		}
		if os.Getenv("C11_ONLY") == "census" {
			fmt.Fprintln(os.Stderr, "census wall", censusWall)
			os.Exit(0)
		}
	}
	runAll(scs)
	if f := os.Getenv("C11_HEAPPROF"); f != "" { // debugging aid
		if w, err := os.Create(f); err == nil {
			_ = pprof.Lookup("allocs").WriteTo(w, 0)
			_ = w.Close()
		}
	}
	cset := &cq.Set{
		Name: "c11c", Import: "IV.Check.C11bCheck", CaseType: "c11c_case",
		Checks: []string{"c11c_mismatches", "c11c_spec_failures"},
	}
	vset := &cq.Set{
		Name: "c11v", Import: "IV.Check.C11dCheck", CaseType: "c11v_case",
		Checks: []string{"c11v_mismatches", "c11v_spec_failures"},
	}
	for i, sc := range scs {
		if sc.Vid != 0 {
			vset.Cases = append(vset.Cases, sc.toVariantCase(tags[i]...))
		} else if len(sc.Members) > 0 {
			cset.Cases = append(cset.Cases, sc.toCase(tags[i]...))
		} else {
			set.Cases = append(set.Cases, sc.toCase(tags[i]...))
		}
	}
	extra := map[string]interface{}{
		"scripts": len(scs), "harness_wall_s": time.Since(t0).Seconds(),
		"partial": "feature records are hand-assigned; blocking is observed through a watchdog timeout; the scheduler is not controlled",
	}
	wk := map[string][2]int{}
	for _, sc := range scs {
		v := wk[sc.Name]
		v[0] += sc.nSync
		v[1] += sc.nAsync
		wk[sc.Name] = v
	}
	extra["writes_seen_by_kind_passthrough_and_own"] = wk
	fails := implFailures(scs)
	var gates []*gateResult
	if o.Replay == "" || replayGate >= 0 {
		var gw sync.WaitGroup
		var gmu sync.Mutex
		for _, k := range append(append([]*kind{}, kinds...), variants...) {
			if replayGate >= 0 && (k.id != replayGate || k.vid != replayVid) {
				continue
			}
			for mode := 0; mode < nGateModes; mode++ {
				if replayGate >= 0 && mode != replayGateMode {
					continue
				}
				gw.Add(1)
				go func(k *kind, mode int) {
					defer gw.Done()
					g := runGate(k, mode)
					gmu.Lock()
					gates = append(gates, g)
					gmu.Unlock()
				}(k, mode)
			}
		}
		gw.Wait()
		sort.Slice(gates, func(i, j int) bool {
			if gates[i].Vid != gates[j].Vid {
				return gates[i].Vid < gates[j].Vid
			}
			if gates[i].Iid != gates[j].Iid {
				return gates[i].Iid < gates[j].Iid
			}

			return gates[i].Mode < gates[j].Mode
		})
	}
	nEntered := 0
	aliveAtReturn := map[string]int{}
	unbindSlow := map[string]bool{}
	for _, g := range gates {
		if g.Entered {
			nEntered++
		}
		if g.AliveAtReturn > 0 {
			aliveAtReturn[g.Name+"/"+gateModeName[g.Mode]] = g.AliveAtReturn
		}
		if g.UnbindSlow {
			unbindSlow[g.Name] = true
		}
		what := "-" + gateModeName[g.Mode]
		if g.Mode == gateClose {
			what = "-close"
		}
		switch {
		case g.Panic != "":
			fails = append(fails, cq.ImplFailure{Kind: g.Name + "-gated" + what + "-panic", Detail: g.Panic, Case: g})
		case g.ClosedEarly:
			fails = append(fails, cq.ImplFailure{Kind: g.Name + what + "-returns-while-writing",
				Detail: "Close returned while a goroutine started by the interceptor was still inside a write to the next writer (" +
					gateModeName[g.Mode] + "); that write completed after Close had returned", Case: g})
		case g.Close2Early:
			fails = append(fails, cq.ImplFailure{Kind: g.Name + what + "-second-close-returns-while-writing",
				Detail: "a second Close, called while the first was still waiting, returned while a goroutine started by the interceptor was inside a write", Case: g})
		case g.CloseHang:
			fails = append(fails, cq.ImplFailure{Kind: g.Name + "-gated" + what + "-hang", Detail: "Close (or a call parked behind the held write) did not return after the held write completed", Case: g})
		case g.UnbindHang:
			fails = append(fails, cq.ImplFailure{Kind: g.Name + "-gated-unbind-hang", Detail: "Unbind did not return after the held write completed", Case: g})
		case g.NotClosed:
			fails = append(fails, cq.ImplFailure{Kind: g.Name + "-gated" + what + "-member-not-closed",
				Detail: "a member of the chain did not receive exactly one Close per Chain.Close call", Case: g})
		case g.ErrLost:
			fails = append(fails, cq.ImplFailure{Kind: g.Name + "-gated" + what + "-close-error-lost",
				Detail: "Chain.Close did not return the error of the member whose Close failed", Case: g})
		case g.LateWrites > 0:
			fails = append(fails, cq.ImplFailure{Kind: g.Name + "-gated" + what + "-write-after-close",
				Detail: fmt.Sprintf("%d write(s) of goroutines of the interceptor completed after a Close had returned", g.LateWrites), Case: g})
		}
	}
	nConc := 0
	if (o.Replay == "" && os.Getenv("C11_ONLY") != "gates") || replayConc >= 0 {
		per := o.Scale(10, 150) // schedule-dependent failures (a race with Close) show in a fraction of the runs only
		var cw sync.WaitGroup
		var cmu sync.Mutex
		sem := make(chan struct{}, 16)
		for _, k := range append(append([]*kind{}, kinds...), variants...) {
			if replayConc >= 0 && (k.id != replayConc || k.vid != replayVid) {
				continue
			}
			for it := 0; it < per; it++ {
				delay := rng.Intn(4000)
				cw.Add(1)
				nConc++
				go func(k *kind, delay int) {
					defer cw.Done()
					sem <- struct{}{}
					c := runConcurrent(k, delay)
					<-sem
					cmu.Lock()
					defer cmu.Unlock()
					switch {
					case c.SetupHang != "":
						fails = append(fails, cq.ImplFailure{Kind: c.Name + "-bind-hang",
							Detail: "BindRTCPWriter, BindRTCPReader, Bind 1, Bind 2 on a fresh interceptor: " + c.SetupHang + " never returned", Case: c})
					case c.Panic != "":
						fails = append(fails, cq.ImplFailure{Kind: c.Name + "-concurrent-close-panic", Detail: c.Panic, Case: c})
					case c.TrafficHang:
						fails = append(fails, cq.ImplFailure{Kind: c.Name + "-concurrent-close-traffic-hang",
							Detail: "a Read/Write running concurrently with Close never returned", Case: c})
					case c.CloseHang:
						fails = append(fails, cq.ImplFailure{Kind: c.Name + "-concurrent-close-hang", Detail: "Close concurrent with traffic never returned", Case: c})
					case c.LateWrites > 0:
						fails = append(fails, cq.ImplFailure{Kind: c.Name + "-concurrent-close-late-write",
							Detail: fmt.Sprintf("%d write(s) to the next writer after Close returned and traffic stopped", c.LateWrites), Case: c})
					}
				}(k, delay)
			}
		}
		cw.Wait()
	}
	// held-loop runs: the loop goroutine is held inside its own write, packet calls park at the hand-off, Close
	// is called from another goroutine (set c11h)
	var held []*heldResult
	switch {
	case len(heldReplay) > 0:
		held = runHeldJobs(heldReplay)
	case o.Replay == "" && os.Getenv("C11_ONLY") != "gates":
		held = runHeldJobs(append(heldCorpus, heldJobs(rng, o.Scale(4, 60))...))
	}
	nHeldCaught := 0
	for _, h := range held {
		if h.Entered {
			nHeldCaught++
		}
	}
	extra["held_loop_runs"] = len(held)
	extra["held_loop_runs_with_the_loop_caught_in_its_write"] = nHeldCaught
	extra["concurrent_close_runs"] = nConc
	extra["gated_close_runs"] = len(gates)
	extra["gated_close_runs_with_a_write_in_progress"] = nEntered
	extra["gated_goroutines_alive_when_close_returned"] = aliveAtReturn
	extra["gated_unbind_waits_for_the_held_write"] = unbindSlow
	sets := []*cq.Set{set}
	if len(cset.Cases) > 0 {
		sets = append(sets, cset)
	}
	if len(vset.Cases) > 0 {
		sets = append(sets, vset)
	}
	chains := map[string][]int{}
	for _, k := range kinds {
		if k.id >= 14 {
			chains[k.name] = k.members
		}
	}
	extra["random_chains"] = chains
	if len(gates) > 0 {
		gset := &cq.Set{
			Name: "c11g", Import: "IV.Check.C11bCheck", CaseType: "c11g_case",
			Checks: []string{"c11g_mismatches", "c11g_spec_failures"},
		}
		for _, g := range gates {
			if g.Vid != 0 {
				// variants: the gated runs report through the implementation failures only (the model of the
				// held schedule is instantiated for the default configurations)
				continue
			}
			b := []string{"gated", "gated-" + gateModeName[g.Mode], g.Name}
			if g.Entered {
				b = append(b, "gated-write-in-progress")
			}
			gset.Cases = append(gset.Cases, cq.Case{
				Coq:  cq.T(cq.Z(int64(g.Iid)), cq.Z(int64(g.Mode)), cq.LZ(g.obs())),
				JSON: g, Buckets: b, Trivial: !g.Entered,
			})
		}
		sets = append(sets, gset)
	}
	if len(held) > 0 {
		sets = append(sets, heldSet(held))
	}
	if len(census) > 0 {
		sets = append(sets, censusSet(census))
		extra["census_runs"] = len(census)
		extra["census_wall_s"] = censusWall
	}
	cq.Write(o, "a script of at least two calls (a final Close is always appended); a gated run with a write in progress", sets, extra, fails)
}
