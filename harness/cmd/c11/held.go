// Held-loop runs for C11 (set c11h): the loop goroutine of an interceptor with an unbuffered hand-off channel
// is HELD inside its own blocking work (packetdump: the Write on the dump stream; twcc / rfc8888: the feedback
// write to the next RTCP writer), packet calls are started and park at the channel send, and then Close is
// called from another goroutine while the loop is still held (mode 0) or the stream lets go while the
// interceptor is open (mode 1).  The race "a packet call is at its send when Close runs" is decided by the
// harness instead of being left to the scheduler.  Model: coq/Model/HandOff.v, checkers coq/Check/C11cCheck.v.
package main

import (
	"bytes"
	"context"
	"fmt"
	"math/rand"
	"os"
	"regexp"
	"runtime/pprof"
	"strconv"
	"strings"
	"sync"
	"sync/atomic"
	"time"

	"github.com/pion/interceptor"
	"github.com/pion/interceptor/pkg/packetdump"
	"github.com/pion/rtcp"
	"github.com/pion/rtp"

	"verifharness/internal/cq"
)

const (
	heldClose   = 0 // Close while the loop is held
	heldRelease = 1 // the stream lets go while the interceptor is open, Close afterwards
	pathRTP     = 0
	pathRTCP    = 1

	heldEnterWait = 3 * time.Second        // the loop reaches its blocking work
	heldParkWait  = 15 * time.Millisecond  // the started calls reach their send
	heldPromptWin = 1 * time.Second        // "returns promptly": generous, a starved machine must not raise an alarm
	heldGrace     = 400 * time.Millisecond // calls still parked this long after Close returned are stranded
)

var heldModeName = []string{"close-while-held", "release-while-open"}

type heldKind struct {
	hid   int
	iid   int // interceptor id of the feature records (failure code = 100 * iid + shape)
	name  string
	paths []int
}

var heldKinds = []heldKind{
	{hid: 0, iid: 4, name: "twcc-sender", paths: []int{pathRTP}},
	{hid: 1, iid: 5, name: "rfc8888", paths: []int{pathRTP}},
	{hid: 2, iid: 8, name: "packetdump", paths: []int{pathRTP, pathRTCP}},
	{hid: 3, iid: 8, name: "packetdump-sender", paths: []int{pathRTP, pathRTCP}},
}

type heldResult struct {
	Special    string `json:"special"` // "held"
	Hid        int    `json:"hid"`
	Name       string `json:"name"`
	Mode       int    `json:"mode"`
	P0         int    `json:"p0"`           // path of the first packet: 0 RTP, 1 RTCP
	Ps         []int  `json:"ps"`           // paths of the calls parked behind the held loop
	Qs         []int  `json:"qs,omitempty"` // mode 0: paths of the calls made after Close was called, loop still held
	Entered    bool   `json:"entered"`      // the loop goroutine was caught inside its blocking work
	Early      int    `json:"early"`        // calls of Ps that returned while the loop was held, before Close / release
	Woken      int    `json:"woken"`        // mode 0: calls of Ps that had returned before the stream let go
	LateRet    int    `json:"late_ret"`     // mode 0: calls of Qs that had returned before the stream let go
	OpenServed int    `json:"open_served"`  // mode 1: calls of Ps that had returned after the stream let go, before Close
	CloseEarly bool   `json:"close_early"`  // mode 0: Close returned while the loop was held
	CloseHang  bool   `json:"close_hang"`
	Stranded   int    `json:"stranded"` // calls that never returned
	Alive      int    `json:"alive"`    // goroutines started by the interceptor alive after Close returned
	Panic      string `json:"panic,omitempty"`
	FirstHang  bool   `json:"first_hang,omitempty"` // the first packet call itself did not return
}

func (h *heldResult) obs() []int64 {
	b := func(x bool) int64 {
		if x {
			return 1
		}

		return 0
	}

	return []int64{b(h.Entered), int64(h.Early), int64(h.Woken), int64(h.LateRet), int64(h.OpenServed), b(h.CloseEarly),
		b(h.CloseHang), int64(h.Stranded), b(h.Panic != ""), b(h.Alive > 0)}
}

func ints64(xs []int) []int64 {
	out := make([]int64, len(xs))
	for i, x := range xs {
		out[i] = int64(x)
	}

	return out
}

func (h *heldResult) toCase() cq.Case {
	b := []string{"held", "held-" + heldModeName[h.Mode], "held-" + h.Name}
	if h.Entered {
		b = append(b, "held-loop-caught")
	}
	for _, p := range h.Ps {
		if p == pathRTCP {
			b = append(b, "held-rtcp-call-parked")

			break
		}
	}
	if len(h.Qs) > 0 {
		b = append(b, "held-calls-after-close-called")
	}

	return cq.Case{
		Coq: cq.T(cq.Z(int64(h.Hid)), cq.Z(int64(h.Mode)), cq.Z(int64(h.P0)), cq.LZ(ints64(h.Ps)), cq.LZ(ints64(h.Qs)),
			cq.LZ(h.obs())),
		JSON: h, Buckets: b, Trivial: !h.Entered,
	}
}

// hold blocks whoever passes through it until it is released; the first one to arrive is announced.
type hold struct {
	once    sync.Once
	entered chan struct{}
	release chan struct{}
}

func newHold() *hold { return &hold{entered: make(chan struct{}), release: make(chan struct{})} }

func (h *hold) wait() {
	h.once.Do(func() { close(h.entered) })
	<-h.release
}

// Write makes the hold a (slow) dump stream.
func (h *hold) Write(p []byte) (int, error) {
	h.wait()

	return len(p), nil
}

// heldEndpoint: one interceptor with its packet paths; call(path) performs one packet call.
type heldEndpoint struct {
	ic   interceptor.Interceptor
	call func(path int)
}

var heldSeq atomic.Uint32

func heldPacket(ssrc uint32) *rtp.Packet {
	s := uint16(heldSeq.Add(1)) //nolint:gosec
	p := &rtp.Packet{Header: rtp.Header{Version: 2, PayloadType: 96, SequenceNumber: s, Timestamp: uint32(s) * 3000, SSRC: ssrc},
		Payload: []byte{1, 2, 3, 4}}
	ext, _ := (&rtp.TransportCCExtension{TransportSequence: s}).Marshal()
	_ = p.Header.SetExtension(5, ext)

	return p
}

func heldRTCP() []rtcp.Packet {
	return []rtcp.Packet{&rtcp.PictureLossIndication{SenderSSRC: 9, MediaSSRC: 1}}
}

func buildHeld(k heldKind, h *hold) (*heldEndpoint, error) {
	// inner readers: every Read delivers a fresh packet (they are called from several goroutines at once)
	rtpIn := interceptor.RTPReaderFunc(func(b []byte, a interceptor.Attributes) (int, interceptor.Attributes, error) {
		raw, err := heldPacket(1).Marshal()
		if err != nil {
			return 0, nil, err
		}

		return copy(b, raw), a, nil
	})
	rtcpIn := interceptor.RTCPReaderFunc(func(b []byte, a interceptor.Attributes) (int, interceptor.Attributes, error) {
		raw, err := rtcp.Marshal(heldRTCP())
		if err != nil {
			return 0, nil, err
		}

		return copy(b, raw), a, nil
	})
	switch k.hid {
	case 0, 1:
		ic, err := kinds[k.iid].mk()
		if err != nil {
			return nil, err
		}
		// the next RTCP writer holds the loop's feedback write
		ic.BindRTCPWriter(interceptor.RTCPWriterFunc(func([]rtcp.Packet, interceptor.Attributes) (int, error) {
			h.wait()

			return 1, nil
		}))
		rd := ic.BindRemoteStream(streamInfo(1), rtpIn)

		return &heldEndpoint{ic: ic, call: func(int) {
			_, _, _ = rd.Read(make([]byte, 1500), interceptor.Attributes{})
		}}, nil
	case 2:
		f, err := packetdump.NewReceiverInterceptor(packetdump.RTPWriter(h), packetdump.RTCPWriter(h),
			packetdump.WithLoggerFactory(quietFactory{}))
		if err != nil {
			return nil, err
		}
		ic, err := f.NewInterceptor("c11h")
		if err != nil {
			return nil, err
		}
		rd := ic.BindRemoteStream(streamInfo(1), rtpIn)
		rrd := ic.BindRTCPReader(rtcpIn)

		return &heldEndpoint{ic: ic, call: func(path int) {
			if path == pathRTP {
				_, _, _ = rd.Read(make([]byte, 1500), interceptor.Attributes{})
			} else {
				_, _, _ = rrd.Read(make([]byte, 1500), interceptor.Attributes{})
			}
		}}, nil
	default:
		f, err := packetdump.NewSenderInterceptor(packetdump.RTPWriter(h), packetdump.RTCPWriter(h),
			packetdump.WithLoggerFactory(quietFactory{}))
		if err != nil {
			return nil, err
		}
		ic, err := f.NewInterceptor("c11h")
		if err != nil {
			return nil, err
		}
		w := ic.BindLocalStream(streamInfo(1), interceptor.RTPWriterFunc(
			func(hd *rtp.Header, payload []byte, _ interceptor.Attributes) (int, error) {
				return hd.MarshalSize() + len(payload), nil
			}))
		rw := ic.BindRTCPWriter(interceptor.RTCPWriterFunc(func([]rtcp.Packet, interceptor.Attributes) (int, error) { return 1, nil }))

		return &heldEndpoint{ic: ic, call: func(path int) {
			if path == pathRTP {
				p := heldPacket(1)
				_, _ = w.Write(&p.Header, p.Payload, interceptor.Attributes{})
			} else {
				_, _ = rw.Write(heldRTCP(), interceptor.Attributes{})
			}
		}}, nil
	}
}

var (
	heldLabelRe = regexp.MustCompile(`"c11h":"([0-9]+)"`)
	// goroutines of the harness itself: the run, its callers, its Close goroutine
	heldFrameRe = regexp.MustCompile(`\smain\.(runHeld|heldAlive)`)
)

// heldAlive counts the goroutines that carry the run's pprof label (inherited by every goroutine the
// interceptor starts) and are not goroutines of the harness.
func heldAlive(label string) int {
	var buf bytes.Buffer
	_ = pprof.Lookup("goroutine").WriteTo(&buf, 1)
	n := 0
	for _, block := range strings.Split(buf.String(), "\n\n") {
		m := heldLabelRe.FindStringSubmatch(block)
		if m == nil || m[1] != label {
			continue
		}
		if heldFrameRe.MatchString(block) {
			continue
		}
		if os.Getenv("C11_DEBUG_ALIVE") != "" {
			fmt.Fprintln(os.Stderr, "HELD ALIVE?", block)
		}
		c := 1
		if f := strings.Fields(block); len(f) > 0 {
			if v, err := strconv.Atoi(f[0]); err == nil {
				c = v
			}
		}
		n += c
	}

	return n
}

var heldRunNo atomic.Int32

func runHeld(k heldKind, mode, p0 int, ps, qs []int) *heldResult {
	res := &heldResult{Special: "held", Hid: k.hid, Name: k.name, Mode: mode, P0: p0, Ps: ps, Qs: qs}
	if mode != heldClose {
		res.Qs = nil
	}
	label := strconv.Itoa(int(heldRunNo.Add(1)))
	pprof.Do(context.Background(), pprof.Labels("c11h", label), func(context.Context) { runHeldLabelled(k, label, res) })

	return res
}

func runHeldLabelled(k heldKind, label string, res *heldResult) {
	h := newHold()
	released := false
	release := func() {
		if !released {
			released = true
			close(h.release)
		}
	}
	defer release()
	ep, err := buildHeld(k, h)
	if err != nil {
		panic(err)
	}
	var pmu sync.Mutex
	guarded := func(f func()) {
		defer func() {
			if e := recover(); e != nil {
				pmu.Lock()
				res.Panic = fmt.Sprint(e)
				pmu.Unlock()
			}
		}()
		f()
	}
	// the first packet: handed to the loop, which then enters its blocking work and is held there
	first := make(chan struct{})
	go func() { // main.runHeldLabelled.funcN
		defer close(first)
		guarded(func() { ep.call(res.P0) })
	}()
	select {
	case <-first:
	case <-time.After(watchdog):
		res.FirstHang = true
	}
	select {
	case <-h.entered:
		res.Entered = true
	case <-time.After(heldEnterWait):
	}
	n := len(res.Ps) + len(res.Qs)
	done := make([]atomic.Bool, n)
	start := func(i, path int) {
		go func() { // main.runHeldLabelled.funcN.M
			guarded(func() { ep.call(path) })
			done[i].Store(true)
		}()
	}
	count := func(lo, hi int) int {
		c := 0
		for i := lo; i < hi; i++ {
			if done[i].Load() {
				c++
			}
		}

		return c
	}
	awaitAll := func(lo, hi int, d time.Duration) int {
		deadline := time.Now().Add(d)
		for count(lo, hi) < hi-lo && time.Now().Before(deadline) {
			time.Sleep(200 * time.Microsecond)
		}

		return count(lo, hi)
	}
	kp := len(res.Ps)
	for i, p := range res.Ps {
		start(i, p)
	}
	time.Sleep(heldParkWait)
	res.Early = count(0, kp)
	closeRet := make(chan struct{})
	doClose := func() {
		go func() { // main.runHeldLabelled.funcN.M
			defer close(closeRet)
			guarded(func() { _ = ep.ic.Close() })
		}()
	}
	closedNow := func() bool {
		select {
		case <-closeRet:
			return true
		default:
			return false
		}
	}
	if res.Mode == heldClose {
		doClose()
		// the calls parked at the send when Close runs: woken by the close channel, whatever the loop is doing
		res.Woken = awaitAll(0, kp, heldPromptWin)
		for i, p := range res.Qs {
			start(kp+i, p)
		}
		res.LateRet = awaitAll(kp, n, heldPromptWin)
		res.CloseEarly = res.Entered && closedNow()
		release()
	} else {
		release()
		res.OpenServed = awaitAll(0, kp, heldPromptWin)
		doClose()
	}
	select {
	case <-closeRet:
	case <-time.After(watchdog):
		res.CloseHang = true
	}
	res.Stranded = n - awaitAll(0, n, heldGrace)
	if res.FirstHang {
		select {
		case <-first:
		default:
			res.Stranded++
		}
	}
	if !res.CloseHang {
		// wg.Done runs just before the goroutine is gone: give it a moment
		for try := 0; try < 40; try++ {
			if res.Alive = heldAlive(label); res.Alive == 0 {
				break
			}
			time.Sleep(5 * time.Millisecond)
		}
	}
}

// heldPatterns: the lists of parked calls / late calls for a kind
func heldPatterns(k heldKind, rng *rand.Rand, nRand int) (pss, qss [][]int) {
	if len(k.paths) == 1 {
		pss = [][]int{{0}, {0, 0}, {0, 0, 0}, {0, 0, 0, 0}}
		qss = [][]int{nil, {0}, {0, 0}}
	} else {
		pss = [][]int{{1}, {0}, {1, 1}, {0, 1}, {1, 1, 0}, {1, 0, 1, 1}}
		qss = [][]int{nil, {1}, {0, 1}}
	}
	for i := 0; i < nRand; i++ {
		ps := make([]int, 1+rng.Intn(4))
		for j := range ps {
			ps[j] = k.paths[rng.Intn(len(k.paths))]
		}
		pss = append(pss, ps)
	}

	return pss, qss
}

type heldJob struct {
	k      heldKind
	mode   int
	p0     int
	ps, qs []int
}

func runHeldJobs(jobs []heldJob) []*heldResult {
	out := make([]*heldResult, len(jobs))
	var wg sync.WaitGroup
	sem := make(chan struct{}, 16)
	for i, j := range jobs {
		wg.Add(1)
		go func(i int, j heldJob) {
			defer wg.Done()
			sem <- struct{}{}
			out[i] = runHeld(j.k, j.mode, j.p0, j.ps, j.qs)
			<-sem
		}(i, j)
	}
	wg.Wait()

	return out
}

func heldJobs(rng *rand.Rand, nRand int) []heldJob {
	var jobs []heldJob
	for _, k := range heldKinds {
		pss, qss := heldPatterns(k, rng, nRand)
		for mode := 0; mode < 2; mode++ {
			for _, p0 := range k.paths {
				for i, ps := range pss {
					var qs []int
					if mode == heldClose {
						qs = qss[(i+p0)%len(qss)]
					}
					jobs = append(jobs, heldJob{k: k, mode: mode, p0: p0, ps: ps, qs: qs})
				}
			}
		}
	}

	return jobs
}

func heldSet(results []*heldResult) *cq.Set {
	set := &cq.Set{
		Name: "c11h", Import: "IV.Check.C11cCheck", CaseType: "c11h_case",
		Checks: []string{"c11h_mismatches", "c11h_spec_failures"},
	}
	for _, r := range results {
		set.Cases = append(set.Cases, r.toCase())
	}

	return set
}
