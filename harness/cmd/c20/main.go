// Generator for C20: sequence-number unwrapper and NTP conversions.
package main

import (
	"math/rand"
	"time"

	"github.com/pion/interceptor/pkg/verifhooks"

	"verifharness/internal/cq"
)

type unwrapCase struct {
	In  []int64 `json:"in"`
	Out []int64 `json:"out"`
}

func runUnwrap(in []int64) unwrapCase {
	u := verifhooks.Unwrapper{}
	out := make([]int64, len(in))
	for i, x := range in {
		out[i] = u.Unwrap(uint16(x)) //nolint:gosec
	}

	return unwrapCase{In: in, Out: out}
}

func (c unwrapCase) toCase(buckets ...string) cq.Case {
	triv := len(c.In) < 2

	return cq.Case{Coq: cq.T(cq.LZ(c.In), cq.LZ(c.Out)), JSON: c, Buckets: buckets, Trivial: triv}
}

type ntpCase struct {
	T1     int64  `json:"t1"`
	T2     int64  `json:"t2"`
	Ref    int64  `json:"ref"`
	N1     uint64 `json:"ntp1"`
	N2     uint64 `json:"ntp2"`
	N32    uint32 `json:"ntp32"`
	Back   int64  `json:"back"`
	Back32 int64  `json:"back32"`
}

func runNTP(t1, t2, ref int64) ntpCase {
	c := ntpCase{T1: t1, T2: t2, Ref: ref}
	c.N1 = verifhooks.ToNTP(time.Unix(0, t1))
	c.N2 = verifhooks.ToNTP(time.Unix(0, t2))
	c.N32 = verifhooks.ToNTP32(time.Unix(0, t1))
	c.Back = verifhooks.ToTime(c.N1).UnixNano()
	c.Back32 = verifhooks.ToTime32(c.N32, time.Unix(0, ref)).UnixNano()

	return c
}

func (c ntpCase) toCase(buckets ...string) cq.Case {
	return cq.Case{
		Coq: cq.T(cq.Z(c.T1), cq.Z(c.T2), cq.Z(c.Ref), cq.ZU(c.N1), cq.ZU(c.N2), cq.ZU(uint64(c.N32)),
			cq.Z(c.Back), cq.Z(c.Back32)),
		JSON: c, Buckets: buckets,
	}
}

var boundary = []int64{0, 1, 2, 100, 32766, 32767, 32768, 32769, 65534, 65535}

func genSeq(r *rand.Rand) ([]int64, string) {
	n := 2 + r.Intn(60)
	out := make([]int64, 0, n)
	mode := r.Intn(5)
	cur := int64(r.Intn(65536))
	if r.Intn(3) == 0 {
		cur = boundary[r.Intn(len(boundary))]
	}
	name := ""
	for i := 0; i < n; i++ {
		out = append(out, cur&0xFFFF)
		switch mode {
		case 0: // mostly in-order with loss and small reordering
			name = "inorder"
			cur += int64(r.Intn(5)) - 1
		case 1: // big forward jumps near half range
			name = "halfjumps"
			cur += 32768 + int64(r.Intn(5)) - 2
		case 2: // backward jumps near half range (floor at zero exercised early)
			name = "backhalf"
			cur -= 32768 + int64(r.Intn(5)) - 2
		case 3: // uniformly random
			name = "random"
			cur = int64(r.Intn(65536))
		default: // boundary values
			name = "boundary"
			cur = boundary[r.Intn(len(boundary))] + int64(r.Intn(3)) - 1
		}
	}

	return out, name
}

const (
	ns2036 = int64(2085978496) * 1000000000 // NTP era end, 2036-02-07
)

func main() {
	o := cq.ParseFlags()
	r := o.Rand()
	uw := &cq.Set{
		Name: "c20unwrap", Import: "IV.Check.C20Check", CaseType: "list Z * list Z",
		Checks: []string{"unwrap_mismatches", "unwrap_spec_failures"},
	}
	nt := &cq.Set{
		Name: "c20ntp", Import: "IV.Check.C20Check", CaseType: "Z * Z * Z * Z * Z * Z * Z * Z",
		Checks: []string{"ntp_mismatches", "ntp_spec_failures"},
	}
	if o.Replay != "" {
		var raw map[string]interface{}
		set := cq.LoadReplay(o.Replay, &raw)
		if set == "c20unwrap" {
			var c unwrapCase
			cq.LoadReplay(o.Replay, &c)
			uw.Cases = append(uw.Cases, runUnwrap(c.In).toCase("replay"))
		} else {
			var c ntpCase
			cq.LoadReplay(o.Replay, &c)
			nt.Cases = append(nt.Cases, runNTP(c.T1, c.T2, c.Ref).toCase("replay"))
		}
		cq.Write(o, "replay", []*cq.Set{uw, nt}, nil, nil)

		return
	}
	// boundary pairs: every previous state in a boundary set x every next value
	// is too many for in-Coq evaluation; take prev in boundary set (several
	// cycles) x next in boundary neighbourhoods, as 3-element sequences
	// (first, prev-setting, next).
	for _, cyc := range []int64{0, 1, 2} {
		for _, p := range boundary {
			seq := []int64{}
			// climb to cycle cyc in steps < 2^15
			for k := int64(0); k < cyc*4; k++ {
				seq = append(seq, (k*16384)&0xFFFF)
			}
			seq = append(seq, p)
			for _, d := range []int64{0, 1, 32767, 32768, 32769, 65535} {
				s2 := append(append([]int64{}, seq...), (p+d)&0xFFFF)
				uw.Cases = append(uw.Cases, runUnwrap(s2).toCase("boundary-pair"))
			}
		}
	}
	nseq := o.Scale(1500, 60000)
	for i := 0; i < nseq; i++ {
		s, name := genSeq(r)
		uw.Cases = append(uw.Cases, runUnwrap(s).toCase(name))
	}
	nntp := o.Scale(3000, 100000)
	for i := 0; i < nntp; i++ {
		var t1 int64
		b := "uniform"
		switch r.Intn(4) {
		case 0:
			t1 = r.Int63n(ns2036)
		case 1: // near whole seconds
			b = "near-second"
			t1 = r.Int63n(ns2036/1000000000)*1000000000 + int64(r.Intn(2001)) - 1000
			if t1 < 0 {
				t1 = 0
			}
		case 2: // near 2^16 s window edges of the NTP clock
			b = "near-window"
			k := r.Int63n(60000)
			t1 = (k*65536-2208988800%65536)*1000000000 + int64(r.Intn(2000001)) - 1000000
			if t1 < 0 || t1 >= ns2036 {
				t1 = r.Int63n(ns2036)
			}
		default:
			b = "recent"
			t1 = 1600000000000000000 + r.Int63n(200000000000000000)
		}
		if i%50 == 7 { // the last microseconds of NTP era 0
			b = "era-end"
			t1 = ns2036 - 1 - int64(r.Intn(3000))
		}
		t2 := t1 + int64(r.Intn(1000000))
		if r.Intn(4) == 0 {
			t2 = t1 + int64(r.Intn(3))
		}
		if t2 >= ns2036 {
			t2 = ns2036 - 1
		}
		ref := t1 + (r.Int63n(40*3600) - 20*3600)*1000000000
		if r.Intn(2) == 0 {
			ref = t1 + (r.Int63n(600)-300)*1000000000
		}
		if ref < 0 {
			ref = 0
		}
		nt.Cases = append(nt.Cases, runNTP(t1, t2, ref).toCase(b))
	}
	cq.Write(o, "unwrap: random/boundary uint16 sequences of 2..61 inputs, distinct by content, non-trivial = at least 2 inputs; "+
		"ntp: instants 1970..2036 (uniform, near whole seconds, near 2^16 s window edges, recent) with a second instant <1ms later and a reference within 20h",
		[]*cq.Set{uw, nt}, nil, nil)
}
