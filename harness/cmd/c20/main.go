// Generator for C20: sequence-number unwrapper and NTP conversions.
package main

import (
	"math/rand"
	"strconv"
	"strings"
	"time"
	_ "time/tzdata" // embedded zone database: the zone: Locations do not depend on the machine

	"github.com/pion/interceptor/pkg/verifhooks"

	"verifharness/internal/cq"
)

type unwrapCase struct {
	In  []int64 `json:"in"`
	Out []int64 `json:"out"`
}

func runUnwrap(in []int64) unwrapCase {
	u := verifhooks.Unwrapper{}
	out := make([]int64, len(in))
	for i, x := range in {
		out[i] = u.Unwrap(uint16(x)) //nolint:gosec
	}

	return unwrapCase{In: in, Out: out}
}

func (c unwrapCase) toCase(buckets ...string) cq.Case {
	triv := len(c.In) < 2

	return cq.Case{Coq: cq.T(cq.LZ(c.In), cq.LZ(c.Out)), JSON: c, Buckets: buckets, Trivial: triv}
}

// ---- Locations: the time.Time arguments carry a *Location; the conversions must depend on the instant only ----

// locNames is the Location dimension. "Local" = the value exactly as time.Unix(0, ns) returns it
// (carries time.Local, which is the host zone or the case's Host override); "UTC" = .UTC();
// "fixed:<seconds east>" = time.FixedZone; "zone:<IANA name>" = time.LoadLocation (embedded tzdata:
// real zones with DST, half/quarter-hour offsets, and local-mean-time offsets in 1900).
var locNames = []string{
	"Local", "UTC",
	"fixed:3600", "fixed:-18000", "fixed:19800", "fixed:-12600", "fixed:20700", "fixed:45900",
	"fixed:-43200", "fixed:50400", "fixed:1172", "fixed:-1", "fixed:1", "fixed:0", "fixed:32768", "fixed:-65536",
	"zone:Europe/Amsterdam", "zone:America/New_York", "zone:Asia/Kolkata", "zone:Australia/Lord_Howe",
	"zone:America/St_Johns", "zone:Pacific/Apia", "zone:Asia/Kathmandu", "zone:Africa/Monrovia",
}

// hostNames: values time.Local is set to for the duration of one case ("" = leave the host's zone).
var hostNames = []string{"", "", "fixed:7200", "fixed:-34200", "zone:America/Los_Angeles", "zone:Asia/Tokyo", "UTC"}

var locCache = map[string]*time.Location{}

// location resolves a name of locNames/hostNames ("" and "Local" give nil = keep the value's own Location).
func location(name string) *time.Location {
	if name == "" || name == "Local" {
		return nil
	}
	if l, ok := locCache[name]; ok {
		return l
	}
	var l *time.Location
	switch {
	case name == "UTC":
		l = time.UTC
	case strings.HasPrefix(name, "fixed:"):
		off, err := strconv.Atoi(name[len("fixed:"):])
		if err != nil {
			panic("bad location " + name)
		}
		l = time.FixedZone(name, off)
	case strings.HasPrefix(name, "zone:"):
		var err error
		if l, err = time.LoadLocation(name[len("zone:"):]); err != nil {
			panic("cannot load " + name + ": " + err.Error())
		}
	default:
		panic("bad location " + name)
	}
	locCache[name] = l

	return l
}

// at builds the time.Time for instant ns carrying the named Location.
func at(ns int64, name string) time.Time {
	t := time.Unix(0, ns)
	if l := location(name); l != nil {
		t = t.In(l)
	}

	return t
}

// offsetOf is the UTC offset in seconds of the Location attached to t at t.
func offsetOf(t time.Time) int64 {
	_, off := t.Zone()

	return int64(off)
}

type ntpCase struct {
	T1   int64  `json:"t1"`
	T2   int64  `json:"t2"`
	Ref  int64  `json:"ref"`
	L1   string `json:"loc1,omitempty"`   // Location of the time.Time passed for t1 ("" = Local)
	L2   string `json:"loc2,omitempty"`   // ... for t2
	LRef string `json:"locref,omitempty"` // ... for the ToTime32 reference
	LAlt string `json:"localt,omitempty"` // second Location in which t1 and ref are passed once more
	Host string `json:"host,omitempty"`   // time.Local during the case ("" = the host's)
	O1   int64  `json:"off1"`
	O2   int64  `json:"off2"`
	ORef int64  `json:"offref"`
	OAlt int64  `json:"offalt"`

	N1        uint64 `json:"ntp1"`
	N2        uint64 `json:"ntp2"`
	N32       uint32 `json:"ntp32"`
	Back      int64  `json:"back"`
	Back32    int64  `json:"back32"`
	NAlt      uint64 `json:"ntpalt"`
	N32Alt    uint32 `json:"ntp32alt"`
	Back32Alt int64  `json:"back32alt"`
}

// locs is the Location assignment of one case.
type locs struct{ L1, L2, LRef, LAlt, Host string }

func runNTP(t1, t2, ref int64, l locs) ntpCase {
	c := ntpCase{T1: t1, T2: t2, Ref: ref, L1: l.L1, L2: l.L2, LRef: l.LRef, LAlt: l.LAlt, Host: l.Host}
	if h := location(l.Host); h != nil {
		saved := time.Local
		time.Local = h
		defer func() { time.Local = saved }()
	}
	a1, a2, r := at(t1, l.L1), at(t2, l.L2), at(ref, l.LRef)
	aalt, ralt := at(t1, l.LAlt), at(ref, l.LAlt)
	c.O1, c.O2, c.ORef, c.OAlt = offsetOf(a1), offsetOf(a2), offsetOf(r), offsetOf(aalt)
	c.N1 = verifhooks.ToNTP(a1)
	c.N2 = verifhooks.ToNTP(a2)
	c.N32 = verifhooks.ToNTP32(a1)
	c.Back = verifhooks.ToTime(c.N1).UnixNano()
	c.Back32 = verifhooks.ToTime32(c.N32, r).UnixNano()
	c.NAlt = verifhooks.ToNTP(aalt)
	c.N32Alt = verifhooks.ToNTP32(aalt)
	c.Back32Alt = verifhooks.ToTime32(c.N32, ralt).UnixNano()

	return c
}

func (c ntpCase) locs() locs { return locs{c.L1, c.L2, c.LRef, c.LAlt, c.Host} }

func (c ntpCase) toCase(buckets ...string) cq.Case {
	return cq.Case{
		Coq: cq.T(cq.Z(c.T1), cq.Z(c.T2), cq.Z(c.Ref), cq.ZU(c.N1), cq.ZU(c.N2), cq.ZU(uint64(c.N32)),
			cq.Z(c.Back), cq.Z(c.Back32),
			cq.T(cq.Z(c.O1), cq.Z(c.O2), cq.Z(c.ORef), cq.Z(c.OAlt)),
			cq.T(cq.ZU(c.NAlt), cq.ZU(uint64(c.N32Alt)), cq.Z(c.Back32Alt))),
		JSON: c, Buckets: buckets,
	}
}

// genLocs draws the Location assignment of a case (own PRNG: the instants of a seed do not change).
func genLocs(r *rand.Rand) (locs, string) {
	pick := func() string { return locNames[r.Intn(len(locNames))] }
	var l locs
	b := "loc-mixed"
	switch r.Intn(8) {
	case 0: // everything as time.Unix returns it; alt = UTC
		b = "loc-local"
		l = locs{L1: "Local", L2: "Local", LRef: "Local", LAlt: "UTC"}
	case 1, 2: // one Location for the whole case (a host in that zone), alt differs
		b = "loc-same"
		z := pick()
		l = locs{L1: z, L2: z, LRef: z}
	case 3: // only the reference is elsewhere
		b = "loc-ref"
		l = locs{L1: "UTC", L2: "UTC", LRef: pick()}
	default:
		l = locs{L1: pick(), L2: pick(), LRef: pick()}
	}
	for l.LAlt == "" || l.LAlt == l.L1 {
		l.LAlt = pick()
	}
	l.Host = hostNames[r.Intn(len(hostNames))]

	return l, b
}

var boundary = []int64{0, 1, 2, 100, 32766, 32767, 32768, 32769, 65534, 65535}

func genSeq(r *rand.Rand) ([]int64, string) {
	n := 2 + r.Intn(60)
	out := make([]int64, 0, n)
	mode := r.Intn(5)
	cur := int64(r.Intn(65536))
	if r.Intn(3) == 0 {
		cur = boundary[r.Intn(len(boundary))]
	}
	name := ""
	for i := 0; i < n; i++ {
		out = append(out, cur&0xFFFF)
		switch mode {
		case 0: // mostly in-order with loss and small reordering
			name = "inorder"
			cur += int64(r.Intn(5)) - 1
		case 1: // big forward jumps near half range
			name = "halfjumps"
			cur += 32768 + int64(r.Intn(5)) - 2
		case 2: // backward jumps near half range (floor at zero exercised early)
			name = "backhalf"
			cur -= 32768 + int64(r.Intn(5)) - 2
		case 3: // uniformly random
			name = "random"
			cur = int64(r.Intn(65536))
		default: // boundary values
			name = "boundary"
			cur = boundary[r.Intn(len(boundary))] + int64(r.Intn(3)) - 1
		}
	}

	return out, name
}

const (
	ns2036 = int64(2085978496) * 1000000000 // NTP era end, 2036-02-07
)

func main() {
	o := cq.ParseFlags()
	r := o.Rand()
	uw := &cq.Set{
		Name: "c20unwrap", Import: "IV.Check.C20Check", CaseType: "list Z * list Z",
		Checks: []string{"unwrap_mismatches", "unwrap_spec_failures"},
	}
	nt := &cq.Set{
		Name: "c20ntp", Import: "IV.Check.C20Check", CaseType: "Z * Z * Z * Z * Z * Z * Z * Z * (Z * Z * Z * Z) * (Z * Z * Z)",
		Checks: []string{"ntp_mismatches", "ntp_spec_failures"},
	}
	if o.Replay != "" {
		var raw map[string]interface{}
		set := cq.LoadReplay(o.Replay, &raw)
		if set == "c20unwrap" {
			var c unwrapCase
			cq.LoadReplay(o.Replay, &c)
			uw.Cases = append(uw.Cases, runUnwrap(c.In).toCase("replay"))
		} else {
			var c ntpCase
			cq.LoadReplay(o.Replay, &c)
			nt.Cases = append(nt.Cases, runNTP(c.T1, c.T2, c.Ref, c.locs()).toCase("replay"))
		}
		cq.Write(o, "replay", []*cq.Set{uw, nt}, nil, nil)

		return
	}
	// boundary pairs: every previous state in a boundary set x every next value
	// is too many for in-Coq evaluation; take prev in boundary set (several
	// cycles) x next in boundary neighbourhoods, as 3-element sequences
	// (first, prev-setting, next).
	for _, cyc := range []int64{0, 1, 2} {
		for _, p := range boundary {
			seq := []int64{}
			// climb to cycle cyc in steps < 2^15
			for k := int64(0); k < cyc*4; k++ {
				seq = append(seq, (k*16384)&0xFFFF)
			}
			seq = append(seq, p)
			for _, d := range []int64{0, 1, 32767, 32768, 32769, 65535} {
				s2 := append(append([]int64{}, seq...), (p+d)&0xFFFF)
				uw.Cases = append(uw.Cases, runUnwrap(s2).toCase("boundary-pair"))
			}
		}
	}
	nseq := o.Scale(1500, 60000)
	for i := 0; i < nseq; i++ {
		s, name := genSeq(r)
		uw.Cases = append(uw.Cases, runUnwrap(s).toCase(name))
	}
	// regression corpus (findings/C20/*.json) first
	for _, f := range o.CorpusFiles() {
		var raw map[string]interface{}
		if cq.LoadReplay(f, &raw) == "c20unwrap" {
			var c unwrapCase
			cq.LoadReplay(f, &c)
			uw.Cases = append(uw.Cases, runUnwrap(c.In).toCase("corpus"))
		} else {
			var c ntpCase
			cq.LoadReplay(f, &c)
			nt.Cases = append(nt.Cases, runNTP(c.T1, c.T2, c.Ref, c.locs()).toCase("corpus"))
		}
	}
	// fixed instants x every Location (t1, t2 and the reference in that Location; alt = UTC or Local),
	// under every host zone: the Location dimension is covered exhaustively, not only by sampling
	for i, name := range locNames {
		for j, host := range hostNames[1:] {
			t1 := []int64{1710074096789012345, 0, 951782400000000000, 2085978495000000000 - 1, 1e18 + 1}[(i+j)%5]
			alt := "UTC"
			if name == "UTC" {
				alt = "Local"
			}
			l := locs{L1: name, L2: name, LRef: name, LAlt: alt, Host: host}
			ref := t1 + int64(j)*1000000000
			if t1 > 10000000000 {
				ref = t1 - int64(j)*1000000000
			}
			nt.Cases = append(nt.Cases, runNTP(t1, t1+int64(1+37*i), ref, l).toCase("loc-table"))
		}
	}
	rl := rand.New(rand.NewSource(o.Seed ^ 0x4c6f63)) //nolint:gosec // Location PRNG
	nntp := o.Scale(3000, 100000)
	for i := 0; i < nntp; i++ {
		var t1 int64
		b := "uniform"
		switch r.Intn(4) {
		case 0:
			t1 = r.Int63n(ns2036)
		case 1: // near whole seconds
			b = "near-second"
			t1 = r.Int63n(ns2036/1000000000)*1000000000 + int64(r.Intn(2001)) - 1000
			if t1 < 0 {
				t1 = 0
			}
		case 2: // near 2^16 s window edges of the NTP clock
			b = "near-window"
			k := r.Int63n(60000)
			t1 = (k*65536-2208988800%65536)*1000000000 + int64(r.Intn(2000001)) - 1000000
			if t1 < 0 || t1 >= ns2036 {
				t1 = r.Int63n(ns2036)
			}
		default:
			b = "recent"
			t1 = 1600000000000000000 + r.Int63n(200000000000000000)
		}
		if i%50 == 7 { // the last microseconds of NTP era 0
			b = "era-end"
			t1 = ns2036 - 1 - int64(r.Intn(3000))
		}
		t2 := t1 + int64(r.Intn(1000000))
		if r.Intn(4) == 0 {
			t2 = t1 + int64(r.Intn(3))
		}
		if t2 >= ns2036 {
			t2 = ns2036 - 1
		}
		ref := t1 + (r.Int63n(40*3600) - 20*3600)*1000000000
		if r.Intn(2) == 0 {
			ref = t1 + (r.Int63n(600)-300)*1000000000
		}
		if ref < 0 {
			ref = 0
		}
		l, lb := genLocs(rl)
		nt.Cases = append(nt.Cases, runNTP(t1, t2, ref, l).toCase(b, lb))
	}
	cq.Write(o, "unwrap: random/boundary uint16 sequences of 2..61 inputs, distinct by content, non-trivial = at least 2 inputs; "+
		"ntp: instants 1970..2036 (uniform, near whole seconds, near 2^16 s window edges, recent) with a second instant <1ms later and a reference within 20h; "+
		"every time.Time argument carries a Location (Local, UTC, fixed offsets incl. negative/half-hour/quarter-hour/seconds, IANA zones; t1, t2, reference independently), "+
		"t1 and the reference are converted a second time in a different Location, and time.Local is varied per case",
		[]*cq.Set{uw, nt}, nil, nil)
}
