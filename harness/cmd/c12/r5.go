package main

// Round-5 strengthening.
//
// Component 17 once more (set c12lbs, cfg = [1; via; initial bitrate]): the
// leaky-bucket pacer at target bitrates so low that one 5 ms tick alone has no
// budget (targetBitrate * 5 / 8000 < 1, i.e. below 1600 bit/s) and around that
// threshold. The unchanged code drains there because the budget of a tick
// covers the time since the last WRITTEN packet: it accumulates over idle
// ticks. Arrivals are slow: a handful of packets, then the driver lets the
// pacer settle (see lbsDrv.settleTimed for the time it gives it).
//
// Component 19 (set c12rr): the real report.ReceiverInterceptor with
// BindRemoteStream / UnbindRemoteStream and incoming RTCP sender reports that
// name SSRCs which were never bound or are no longer bound. Observable: the
// number of per-stream states (existing probe VerifC11Stream counted over
// every SSRC the history names: the keys of the map can only be such SSRCs).

import (
	"math/rand"
	"time"

	"github.com/pion/interceptor"
	"github.com/pion/interceptor/pkg/report"
	"github.com/pion/rtcp"
	"github.com/pion/rtp"
)

var lbtVariants = []string{"low-set", "low-initial", "threshold", "low-mixed", "rate-switch", "very-low"}

var (
	lowRates  = []int64{60, 80, 100, 150, 250, 400, 533, 700, 900, 1066}
	edgeRates = []int64{1000, 1066, 1067, 1100, 1600, 2000, 5000}
)

// lbtCase: stream 1 is added in the first phase; every phase writes a few
// rounds of one to three packets and lets the pacer settle after each round.
func lbtCase(r *rand.Rand, via int64, variant string) c12Case {
	initial := int64(0)
	low := lowRates[r.Intn(len(lowRates))]
	switch variant {
	case "low-initial": // NewLeakyBucketPacer(initial): the stored bitrate is the argument itself
		initial = []int64{81, 90, 150, 400, 799, 1599, 1600}[r.Intn(7)]
	case "threshold":
		low = edgeRates[r.Intn(len(edgeRates))]
	case "very-low":
		low = []int64{54, 60, 70}[r.Intn(3)]
	}
	rounds := 2 + r.Intn(2)
	ops := phased(r, 4, func(p int, pr *rand.Rand) []opx {
		var o []opx
		a := int64(2000 + p)
		if p == 0 {
			o = append(o, opx{Op: 4, Args: []int64{1}})
			if variant != "low-initial" && variant != "rate-switch" {
				o = append(o, opx{Op: 8, Args: []int64{low}})
			}
		}
		if variant == "low-mixed" {
			o = append(o, opx{Op: 7, Args: []int64{a}}) // a stream whose writer fails
		}
		if variant == "rate-switch" { // a burst at a high rate, then back to the low one
			o = append(o, opx{Op: 8, Args: []int64{1000000000}})
			o = burstOf(o, 1, int64(50+pr.Intn(1300)), 10+pr.Intn(30))
			o = append(o, opx{Op: opSettle, Args: []int64{}, Sample: true})
			o = append(o, opx{Op: 8, Args: []int64{low}})
		}
		for i := 0; i < rounds; i++ {
			if variant == "low-mixed" {
				switch pr.Intn(3) {
				case 0:
					o = burstOf(o, a+100, 200, 1) // no writer for this SSRC: dropped when its turn comes
				case 1:
					o = burstOf(o, a, 300, 1+pr.Intn(2))
				}
			}
			o = burstOf(o, 1, int64(50+pr.Intn(1300)), 1+pr.Intn(3))
			o = append(o, opx{Op: opSettle, Args: []int64{}, Sample: true})
		}

		return o
	})

	return c12Case{Comp: compLBS, Cfg: []int64{1, via, initial}, Name: "lowrate-" + variant, Ops: ops}
}

// ---- component 19: receiver-report interceptor ----
type rrDrv struct {
	base
	i       interceptor.Interceptor
	rtcpIn  interceptor.RTCPReader
	pending []byte
	readers map[int64]interceptor.RTPReader
	rtpIn   []byte
	seen    map[int64]bool
	seq     uint16
}

func newRrDrv() *rrDrv {
	f, err := report.NewReceiverInterceptor(report.WithReceiverLoggerFactory(quietLogs()),
		report.ReceiverInterval(50*time.Millisecond))
	if err != nil {
		panic(err)
	}
	i, err := f.NewInterceptor("c12")
	if err != nil {
		panic(err)
	}
	if _, ok := i.(gwProbe); !ok {
		panic("report receiver interceptor: probe VerifC11Stream missing")
	}
	d := &rrDrv{i: i, readers: map[int64]interceptor.RTPReader{}, seen: map[int64]bool{}}
	// the report loop runs as in a PeerConnection (it ranges over the same map)
	i.BindRTCPWriter(interceptor.RTCPWriterFunc(func([]rtcp.Packet, interceptor.Attributes) (int, error) { return 0, nil }))
	d.rtcpIn = i.BindRTCPReader(interceptor.RTCPReaderFunc(
		func(b []byte, a interceptor.Attributes) (int, interceptor.Attributes, error) {
			return copy(b, d.pending), a, nil
		}))

	return d
}

func (d *rrDrv) apply(o opx) []entry {
	ssrc := o.Args[0]
	info := &interceptor.StreamInfo{SSRC: uint32(ssrc), ClockRate: 90000} //nolint:gosec
	switch o.Op {
	case 1:
		d.seen[ssrc] = true
		d.readers[ssrc] = d.i.BindRemoteStream(info, interceptor.RTPReaderFunc(
			func(b []byte, a interceptor.Attributes) (int, interceptor.Attributes, error) {
				return copy(b, d.rtpIn), a, nil
			}))
	case 2:
		d.i.UnbindRemoteStream(info)
	case 3: // a compound RTCP packet with the sender report of ssrc (alone, or with other packets around it)
		d.seen[ssrc] = true
		sr := &rtcp.SenderReport{SSRC: uint32(ssrc), NTPTime: uint64(ssrc) << 20, RTPTime: uint32(ssrc), PacketCount: 7, OctetCount: 700} //nolint:gosec
		pkts := []rtcp.Packet{sr}
		switch ssrc % 3 {
		case 1:
			pkts = append(pkts, &rtcp.SourceDescription{Chunks: []rtcp.SourceDescriptionChunk{{
				Source: uint32(ssrc), Items: []rtcp.SourceDescriptionItem{{Type: rtcp.SDESCNAME, Text: "c12"}}, //nolint:gosec
			}}})
		case 2:
			pkts = append([]rtcp.Packet{&rtcp.ReceiverReport{SSRC: uint32(ssrc) + 1}}, pkts...) //nolint:gosec
		}
		raw, err := rtcp.Marshal(pkts)
		if err != nil {
			panic(err)
		}
		d.pending = raw
		if _, _, err := d.rtcpIn.Read(make([]byte, 1500), interceptor.Attributes{}); err != nil {
			panic(err)
		}
	case 4: // an RTP packet through the reader of the stream (kept after Unbind: a late packet)
		rd, ok := d.readers[ssrc]
		if !ok {
			break
		}
		d.seq++
		raw, err := (&rtp.Packet{Header: rtp.Header{Version: 2, SSRC: uint32(ssrc), SequenceNumber: d.seq}, Payload: []byte{1, 2, 3}}).Marshal() //nolint:gosec
		if err != nil {
			panic(err)
		}
		d.rtpIn = raw
		if _, _, err := rd.Read(make([]byte, 1500), interceptor.Attributes{}); err != nil {
			panic(err)
		}
	}

	return one(o)
}

func (d *rrDrv) sizes() []int64 {
	p, _ := d.i.(gwProbe)
	n := int64(0)
	for s := range d.seen {
		if ok, _ := p.VerifC11Stream(uint32(s)); ok { //nolint:gosec
			n++
		}
	}

	return []int64{n}
}
func (d *rrDrv) close() { _ = d.i.Close() }

var rrVariants = []string{"foreign-ssrc", "late-report", "nothing-bound", "random"}

func rrCase(r *rand.Rand, variant string) c12Case {
	keep := 1 + r.Intn(4)
	n := 40 + r.Intn(80)
	ops := phased(r, 4, func(p int, pr *rand.Rand) []opx {
		var o []opx
		fresh := int64(100000 + 10000*p) // SSRCs nobody binds, new ones in every phase
		switch variant {
		case "foreign-ssrc": // some streams stay bound; sender reports of SSRCs that were never bound
			if p == 0 {
				for s := 1; s <= keep; s++ {
					o = append(o, opx{Op: 1, Args: []int64{int64(s)}, Sample: true})
				}
			}
			for i := 0; i < n; i++ {
				switch pr.Intn(4) {
				case 0:
					s := int64(1 + pr.Intn(keep))
					o = append(o, opx{Op: 4, Args: []int64{s}}, opx{Op: 3, Args: []int64{s}, Sample: true})
				case 1: // one of them again
					o = append(o, opx{Op: 3, Args: []int64{fresh + int64(pr.Intn(i+1))}, Sample: i%4 == 0})
				default:
					o = append(o, opx{Op: 3, Args: []int64{fresh + int64(i)}, Sample: i%4 == 0})
				}
			}
		case "late-report": // the sender report that was in flight when its stream was unbound
			for i := 0; i < n/4; i++ {
				a := int64(1000*(p+1) + i)
				o = append(o, opx{Op: 1, Args: []int64{a}, Sample: true}, opx{Op: 4, Args: []int64{a}})
				if pr.Intn(2) == 0 {
					o = append(o, opx{Op: 3, Args: []int64{a}, Sample: true})
				}
				o = append(o, opx{Op: 2, Args: []int64{a}, Sample: true})
				for k := pr.Intn(3); k >= 0; k-- {
					o = append(o, opx{Op: 3, Args: []int64{a}, Sample: true})
				}
				if pr.Intn(4) == 0 {
					o = append(o, opx{Op: 4, Args: []int64{a}, Sample: true})
				}
			}
		case "nothing-bound": // sender reports cycling through SSRCs while no stream is bound at all
			for i := 0; i < n; i++ {
				o = append(o, opx{Op: 3, Args: []int64{fresh + int64(i%(n/2+1))}, Sample: i%5 == 0})
			}
		default: // random bind / unbind / re-bind / report / packet over a small set, plus foreign reports
			ns := 2 + pr.Intn(6)
			for i := 0; i < n; i++ {
				s := int64(1 + pr.Intn(ns))
				switch pr.Intn(7) {
				case 0, 1:
					o = append(o, opx{Op: 1, Args: []int64{s}, Sample: true})
				case 2:
					o = append(o, opx{Op: 2, Args: []int64{s}, Sample: true})
				case 3, 4:
					o = append(o, opx{Op: 3, Args: []int64{s}, Sample: true})
				case 5:
					o = append(o, opx{Op: 3, Args: []int64{fresh + int64(i)}, Sample: true})
				default:
					o = append(o, opx{Op: 4, Args: []int64{s}, Sample: true})
				}
			}
			for s := 1; s <= ns; s++ { // every phase ends with nothing bound
				o = append(o, opx{Op: 2, Args: []int64{int64(s)}, Sample: true})
			}
		}

		return o
	})

	return c12Case{Comp: compRR, Cfg: []int64{}, Name: "reports-" + variant, Ops: ops}
}
