package main

// Round-4 strengthening: the two pacers in the regime where the code must
// drain (cfg[0] = 1).
//
// Component 17 (c12lbs): gcc.LeakyBucketPacer with SEVERAL streams, driven
// directly (cfg[1] = 0) or through the real cc.Interceptor + gcc.SendSideBWE
// (cfg[1] = 1: BindLocalStream / UnbindLocalStream, writes through the writer
// BindLocalStream returned - also after the stream was unbound). The pacing
// rate is far above the load. Streams are removed while their packets are
// queued, packets of SSRCs without writer and of streams whose writer fails
// are written: nothing of that may keep the queue from draining.
//
// Component 18 (c12pr): pacing.Interceptor with the REAL rate limiter
// (recorded through the existing hook pacing.VerifRecordingLimiter), default /
// small / large InitialRate, InterceptorFactory.SetRate; the load is far below
// the configured rate. Observables: packets held, and the rate and bucket
// depth the limiter was given.
//
// Sizes are sampled only where the driver let the pacer settle (operation 6
// and phase ends): what is queued in between depends on when the ticker fires.

import (
	"errors"
	"fmt"
	"math/rand"
	"os"
	"sync"
	"sync/atomic"
	"time"

	"github.com/pion/interceptor"
	"github.com/pion/interceptor/pkg/cc"
	"github.com/pion/interceptor/pkg/gcc"
	"github.com/pion/interceptor/pkg/pacing"
	"github.com/pion/rtp"
)

const (
	opSettle   = 6
	bigBudget  = 1000000000000
	settleStep = 5 * time.Millisecond
	settleMax  = 400 // x settleStep = 2 s, as for components 13 / 14
)

var errC12WriterFails = errors.New("c12: this writer always fails")

var quietOnce sync.Once

// ---- component 17: leaky-bucket pacer with streams ----
type lbsDrv struct {
	base
	p      *gcc.LeakyBucketPacer
	i      interceptor.Interceptor // non-nil: through the cc interceptor
	w      map[int64]interceptor.RTPWriter
	last   interceptor.RTPWriter
	mu     sync.Mutex
	calls  map[int64]int64
	dirty  map[int64]bool
	bound  map[int64]bool
	closed bool
	// round 5: timed = the case has a third cfg entry (initial bitrate; 0 = the high default): settles
	// are recorded as ticks (opcode 9), eff = p.targetBitrate as stored, stuck = a settle timed out
	timed bool
	eff   int64
	stuck bool
}

func newLbsDrv(mode, via int64, timed bool, initial int64) *lbsDrv {
	// the pacer logs every failed write at error level through the default logger factory (scope "pacer")
	quietOnce.Do(func() { _ = os.Setenv("PION_LOG_DISABLE", "pacer") })
	rate := 0
	if mode == 1 {
		rate = 2000000000
	}
	if timed && initial != 0 {
		rate = int(initial)
	}
	d := &lbsDrv{
		w: map[int64]interceptor.RTPWriter{}, calls: map[int64]int64{}, dirty: map[int64]bool{}, bound: map[int64]bool{},
		timed: timed, eff: int64(rate),
	}
	d.p = gcc.NewLeakyBucketPacer(rate)
	if via == 1 {
		f, err := cc.NewInterceptor(func() (cc.BandwidthEstimator, error) {
			return gcc.NewSendSideBWE(gcc.SendSideBWEPacer(d.p), gcc.WithLoggerFactory(quietLogs()))
		})
		if err != nil {
			panic(err)
		}
		i, err := f.NewInterceptor("c12")
		if err != nil {
			panic(err)
		}
		d.i = i
	}

	return d
}

func (d *lbsDrv) writer(ssrc int64, fails bool) interceptor.RTPWriter {
	return interceptor.RTPWriterFunc(func(h *rtp.Header, p []byte, _ interceptor.Attributes) (int, error) {
		d.mu.Lock()
		d.calls[ssrc]++
		d.mu.Unlock()
		if fails {
			return 0, errC12WriterFails
		}

		return h.MarshalSize() + len(p), nil
	})
}

func (d *lbsDrv) settle() []entry {
	if d.timed {
		return d.settleTimed()
	}
	for i := 0; i < settleMax && gcc.C12QueueLen(d.p) > 0; i++ {
		time.Sleep(settleStep)
	}
	time.Sleep(settleStep) // Run pops a packet before it calls the writer: let that call finish

	return []entry{{Op: 2, Args: []int64{bigBudget}}}
}

// settleTimed: the budget of a tick is (ms since the last written packet) * targetBitrate / 8000
// bytes, so a queued packet leaves at the latest ceil(8000/targetBitrate) ms (+ one tick) after the
// previous one, whatever its size. The trace records that time for the k packets queued now, in
// ticks of 5 ms (opcode 9); the driver waits until the queue is empty - at least 2 s and at least
// four times the recorded time, so that a loaded machine cannot raise a false alarm. Once a settle
// of this history has timed out (already a violation) the later ones only wait the recorded time.
func (d *lbsDrv) settleTimed() []entry {
	k := int64(gcc.C12QueueLen(d.p))
	eff := d.eff
	if eff < 1 {
		eff = 1
	}
	perTicks := (8000+eff-1)/eff/5 + 2 // ticks per packet, rounded up, one tick of slack
	ticks := k*perTicks + 2
	limit := 4*ticks + 100
	if limit < settleMax {
		limit = settleMax
	}
	if d.stuck {
		limit = ticks
	}
	for i := int64(0); i < limit && gcc.C12QueueLen(d.p) > 0; i++ {
		time.Sleep(settleStep)
	}
	if gcc.C12QueueLen(d.p) > 0 {
		d.stuck = true
	}
	time.Sleep(settleStep) // Run pops a packet before it calls the writer: let that call finish

	return []entry{{Op: 9, Args: []int64{ticks}}}
}

func (d *lbsDrv) apply(o opx) []entry {
	switch o.Op {
	case 1: // Write ssrc size
		ssrc, size := o.Args[0], o.Args[1]
		var w interceptor.RTPWriter = d.p
		if d.i != nil {
			if bw, ok := d.w[ssrc]; ok {
				w = bw // the writer BindLocalStream returned for this stream (kept after Unbind: late writes)
			} else if d.last != nil {
				w = d.last
			}
		}
		_, err := w.Write(&rtp.Header{Version: 2, SSRC: uint32(ssrc)}, make([]byte, size), nil) //nolint:gosec
		if err == nil && !d.bound[ssrc] {
			d.dirty[ssrc] = true
		}
	case 3:
		if d.i != nil {
			_ = d.i.Close()
		} else {
			_ = d.p.Close()
		}
		d.closed = true
	case 4, 7: // AddStream (7: with a writer that always fails)
		ssrc := o.Args[0]
		if d.i != nil {
			d.w[ssrc] = d.i.BindLocalStream(&interceptor.StreamInfo{SSRC: uint32(ssrc)}, d.writer(ssrc, o.Op == 7)) //nolint:gosec
			d.last = d.w[ssrc]
		} else {
			d.p.AddStream(uint32(ssrc), d.writer(ssrc, o.Op == 7)) //nolint:gosec
		}
		d.bound[ssrc] = true
	case 5: // RemoveStream
		ssrc := o.Args[0]
		if d.i != nil {
			d.i.UnbindLocalStream(&interceptor.StreamInfo{SSRC: uint32(ssrc)}) //nolint:gosec
		} else {
			d.p.RemoveStream(uint32(ssrc)) //nolint:gosec
		}
		d.bound[ssrc] = false
		d.dirty[ssrc] = true
	case 8: // SetTargetBitrate r: targetBitrate = int(1.5 * float64(r))
		d.p.SetTargetBitrate(int(o.Args[0]))
		d.eff = int64(1.5 * float64(o.Args[0]))
	case opSettle:
		if d.closed {
			return nil
		}

		return d.settle()
	}

	return one(o)
}

// sizes: queue length; writer invocations of the streams that were bound
// whenever one of their packets was written and never removed (for the others
// it depends on the ticker whether a queued packet is written or dropped).
func (d *lbsDrv) sizes() []int64 {
	d.mu.Lock()
	defer d.mu.Unlock()
	n := int64(0)
	for s, c := range d.calls {
		if !d.dirty[s] {
			n += c
		}
	}

	return []int64{int64(gcc.C12QueueLen(d.p)), n}
}

func (d *lbsDrv) phaseEnd() []entry {
	if d.closed {
		return nil
	}

	return d.settle()
}

func (d *lbsDrv) close() {
	if d.i != nil {
		_ = d.i.Close()
	}
	_ = d.p.Close()
}

var lbsVariants = []string{"late-write", "removed-while-queued", "unknown-ssrc", "failing-writer", "random"}

// burstOf appends k writes of (ssrc, size).
func burstOf(o []opx, ssrc, size int64, k int) []opx {
	for i := 0; i < k; i++ {
		o = append(o, opx{Op: 1, Args: []int64{ssrc, size}})
	}

	return o
}

// lbsCase: stream 1 is bound in the first phase and stays; every phase works
// with a fresh second SSRC (1000 + phase) that is removed / never added /
// failing, and ends with the pacer settled.
func lbsCase(r *rand.Rand, via int64, variant string) c12Case {
	sizeA := int64(50 + r.Intn(1300))
	sizeB := int64(50 + r.Intn(1300))
	rounds := 3 + r.Intn(5)
	ops := phased(r, 4, func(p int, pr *rand.Rand) []opx {
		var o []opx
		a := int64(1000 + p)
		if p == 0 {
			o = append(o, opx{Op: 4, Args: []int64{1}})
		}
		switch variant {
		case "late-write": // both flow, the pacer settles, the stream goes, ONE more packet of it arrives
			o = append(o, opx{Op: 4, Args: []int64{a}})
			for i := 0; i < rounds; i++ {
				o = burstOf(o, a, sizeA, 3+pr.Intn(12))
				o = burstOf(o, 1, sizeB, 3+pr.Intn(12))
			}
			o = append(o, opx{Op: opSettle, Args: []int64{}, Sample: true})
			o = append(o, opx{Op: 5, Args: []int64{a}, Sample: true})
			o = burstOf(o, a, sizeA, 1+pr.Intn(2)*3)
			for i := 0; i < rounds; i++ {
				o = burstOf(o, 1, sizeB, 5+pr.Intn(30))
			}
		case "removed-while-queued": // the stream goes while its packets are queued, in front of the other stream's
			o = append(o, opx{Op: 4, Args: []int64{a}})
			for i := 0; i < rounds; i++ {
				o = burstOf(o, a, sizeA, 3+pr.Intn(12))
				o = burstOf(o, 1, sizeB, 3+pr.Intn(12))
			}
			o = append(o, opx{Op: 5, Args: []int64{a}})
			for i := 0; i < rounds; i++ {
				o = burstOf(o, 1, sizeB, 5+pr.Intn(30))
				if pr.Intn(3) == 0 {
					o = burstOf(o, a, sizeA, 1)
				}
			}
		case "unknown-ssrc": // packets of an SSRC that was never added: first in the queue and in between
			o = burstOf(o, a, sizeA, 1+pr.Intn(4))
			for i := 0; i < rounds; i++ {
				o = burstOf(o, 1, sizeB, 5+pr.Intn(30))
				o = burstOf(o, a, sizeA, pr.Intn(4))
			}
		case "failing-writer": // the writer of the second stream returns an error for every packet
			o = append(o, opx{Op: 7, Args: []int64{a}})
			for i := 0; i < rounds; i++ {
				o = burstOf(o, a, sizeA, 1+pr.Intn(4))
				o = burstOf(o, 1, sizeB, 5+pr.Intn(30))
			}
			if pr.Intn(2) == 0 {
				o = append(o, opx{Op: 5, Args: []int64{a}})
			}
		default: // random: add / remove / re-add / write / oversize write over three more SSRCs
			for i := 0; i < 12*rounds; i++ {
				s := a*10 + int64(pr.Intn(3))
				switch pr.Intn(9) {
				case 0:
					o = append(o, opx{Op: 4, Args: []int64{s}})
				case 1:
					o = append(o, opx{Op: 5, Args: []int64{s}})
				case 2:
					o = append(o, opx{Op: 7, Args: []int64{s}})
				case 3:
					o = append(o, opx{Op: opSettle, Args: []int64{}, Sample: true})
				case 4:
					o = burstOf(o, s, 1461+int64(pr.Intn(40)), 1) // refused: larger than the pooled buffers
				case 5, 6:
					o = burstOf(o, s, sizeA, 1+pr.Intn(6))
				default:
					o = burstOf(o, 1, sizeB, 1+pr.Intn(10))
				}
			}
		}

		return o
	})

	return c12Case{Comp: compLBS, Cfg: []int64{1, via}, Name: "streams-" + variant, Ops: ops}
}

// ---- component 18: pacing interceptor, real limiter, SetRate ----
type pcrDrv struct {
	base
	f        *pacing.InterceptorFactory
	i        interceptor.Interceptor
	w        interceptor.RTPWriter
	accepted int64
	written  int64
	mu       sync.Mutex
	rate     int64
	depth    int64
}

func newPcrDrv(ivMs, initialRate int64) *pcrDrv {
	d := &pcrDrv{}
	opts := []pacing.Option{
		pacing.WithLoggerFactory(quietLogs()),
		pacing.VerifRecordingLimiter(func(e pacing.VerifEvent) {
			if e.Kind == "init" || e.Kind == "set" {
				d.mu.Lock()
				d.rate, d.depth = int64(e.Rate), int64(e.Burst)
				d.mu.Unlock()
			}
		}),
	}
	if ivMs != 0 {
		opts = append(opts, pacing.Interval(time.Duration(ivMs)*time.Millisecond))
	}
	if initialRate != 0 {
		opts = append(opts, pacing.InitialRate(int(initialRate)))
	}
	d.f = pacing.NewInterceptor(opts...)
	i, err := d.f.NewInterceptor("c12")
	if err != nil {
		panic(err)
	}
	d.i = i
	d.w = i.BindLocalStream(&interceptor.StreamInfo{SSRC: 1}, interceptor.RTPWriterFunc(
		func(*rtp.Header, []byte, interceptor.Attributes) (int, error) {
			atomic.AddInt64(&d.written, 1)

			return 0, nil
		}))

	return d
}

func (d *pcrDrv) held() int64 { return d.accepted - atomic.LoadInt64(&d.written) }

func (d *pcrDrv) settle() []entry {
	for i := 0; i < settleMax && d.held() > 0; i++ {
		time.Sleep(settleStep)
	}

	return []entry{{Op: 2, Args: []int64{bigBudget}}}
}

func (d *pcrDrv) apply(o opx) []entry {
	switch o.Op {
	case 1: // Write a packet of Args[0] bytes (header included)
		hdr := &rtp.Header{Version: 2, SSRC: 1}
		n := int(o.Args[0]) - hdr.MarshalSize()
		if n < 0 {
			n = 0
		}
		if _, err := d.w.Write(hdr, make([]byte, n), nil); err == nil {
			d.accepted++
		}
	case 4:
		d.f.SetRate("c12", int(o.Args[0]))
	case opSettle:
		return d.settle()
	}

	return one(o)
}

func (d *pcrDrv) sizes() []int64 {
	d.mu.Lock()
	defer d.mu.Unlock()

	return []int64{d.held(), d.rate, d.depth}
}
func (d *pcrDrv) phaseEnd() []entry { return d.settle() }
func (d *pcrDrv) close()            { _ = d.i.Close() }

var pcrSeq int

var pcrVariants = []string{"setrate-up", "setrate-every-phase", "setrate-twice", "initial-high", "default-light"}

// pcrCase: the configured rate (after the SetRate calls at the start of a
// phase) is 500 Mbit/s .. 2 Gbit/s, a phase writes 600 .. 900 packets of
// 1000 .. 1400 bytes (at most 10 Mbit: 20 ms at the lowest rate) and the driver
// waits up to 2 s for them: a load below 1/100 of the configured rate.
// default-light: no SetRate, 1 Mbit/s, a handful of packets per phase.
func pcrCase(r *rand.Rand, variant string) c12Case {
	// interval and initial rate cycle over the cases of a run (periods 4 and 5), so that every
	// SetRate variant meets default and non-default intervals and small and large initial buckets
	iv := []int64{0, 10, 20, 2}[pcrSeq%4]
	initial := []int64{0, 100000, 30000000, 2000000, 0}[pcrSeq%5]
	pcrSeq++
	high := []int64{500000000, 1000000000, 2000000000}
	r0 := high[r.Intn(3)]
	n := 600 + r.Intn(300)
	switch variant {
	case "initial-high":
		initial = r0
	case "default-light":
		initial = 0
		n = 3 + r.Intn(3)
	}
	ops := phased(r, 4, func(p int, pr *rand.Rand) []opx {
		var o []opx
		switch variant {
		case "setrate-up":
			if p == 0 {
				o = append(o, opx{Op: 4, Args: []int64{r0}, Sample: true})
			}
		case "setrate-every-phase":
			o = append(o, opx{Op: 4, Args: []int64{high[(p+int(r0/500000000))%3]}, Sample: true})
		case "setrate-twice": // down to a low rate and up again before anything is written
			if p == 0 || p == 2 {
				o = append(o, opx{Op: 4, Args: []int64{int64(200000 + pr.Intn(3000000))}, Sample: true})
				o = append(o, opx{Op: 4, Args: []int64{r0}, Sample: true})
			}
		}
		left := n
		for left > 0 {
			k := 1 + pr.Intn(left)
			if left > 6 && k < left/4 {
				k = left / 4
			}
			size := int64(1000 + pr.Intn(401))
			for i := 0; i < k; i++ {
				o = append(o, opx{Op: 1, Args: []int64{size}})
			}
			left -= k
		}

		return o
	})

	return c12Case{Comp: compPCR, Cfg: []int64{1, iv, initial}, Name: "rate-" + variant, Ops: ops}
}

var _ = fmt.Sprintf
