package main

import (
	"fmt"
	"math/rand"
	"sync"
	"sync/atomic"
	"time"

	"github.com/pion/interceptor"
	"github.com/pion/interceptor/pkg/cc"
	"github.com/pion/interceptor/pkg/flexfec"
	"github.com/pion/interceptor/pkg/gcc"
	"github.com/pion/interceptor/pkg/jitterbuffer"
	"github.com/pion/interceptor/pkg/nack"
	"github.com/pion/interceptor/pkg/pacing"
	"github.com/pion/interceptor/pkg/report"
	"github.com/pion/interceptor/pkg/rfc8888"
	"github.com/pion/interceptor/pkg/rtpfb"
	"github.com/pion/interceptor/pkg/stats"
	"github.com/pion/interceptor/pkg/twcc"
	"github.com/pion/interceptor/pkg/verifhooks"
	"github.com/pion/logging"
	"github.com/pion/rtcp"
	"github.com/pion/rtp"
)

func one(o opx) []entry { return []entry{{Op: o.Op, Args: append([]int64{}, o.Args...)}} }

type base struct{}

func (base) phaseEnd() []entry { return nil }
func (base) close()            {}

func quietLogs() logging.LoggerFactory {
	f := logging.NewDefaultLoggerFactory()
	f.DefaultLogLevel = logging.LogLevelDisabled

	return f
}

func newDriver(comp int64, cfg []int64) driver {
	arg := func(i int) int64 {
		if i < len(cfg) {
			return cfg[i]
		}

		return 0
	}
	switch comp {
	case compRL:
		l, err := nack.C12NewReceiveLog(uint16(arg(0))) //nolint:gosec
		if err != nil {
			panic(err)
		}

		return &rlDrv{l: l}
	case compRS:
		return &rsDrv{s: report.C12NewReceiverStream(1, 90000)}
	case compRB:
		b, err := verifhooks.C12NewRTPBuffer(uint16(arg(0))) //nolint:gosec
		if err != nil {
			panic(err)
		}

		return &rbDrv{b: b}
	case compNG:
		return newNgDrv(uint16(arg(0)), uint16(arg(1))) //nolint:gosec
	case compAM:
		return &amDrv{m: &twcc.C12ArrivalMap{}}
	case compLRU:
		return &lruDrv{f: verifhooks.C12NewFeedbackAdapter()}
	case compSL:
		return &slDrv{l: rfc8888.C12NewStreamLog(1)}
	case compSR:
		return &srDrv{r: stats.C12NewRecorder(1, 90000)}
	case compSI:
		return newSiDrv()
	case compJB:
		return newJbDrv()
	case compFF:
		return newFfDrv(uint32(arg(0)), arg(1)) //nolint:gosec
	case compRC:
		return &rcDrv{window: arg(0)}
	case compLB:
		return newLbDrv(arg(0))
	case compPC:
		return newPcDrv(arg(0))
	case compHIST:
		return &histDrv{h: rtpfb.C12NewHistory()}
	case compGW:
		return newGwDrv(arg(0))
	case compLBS:
		return newLbsDrv(arg(0), arg(1), len(cfg) >= 3, arg(2))
	case compPCR:
		return newPcrDrv(arg(1), arg(2))
	case compRR:
		return newRrDrv()
	}

	return nil
}

// ---- fixed bitmaps ----
type rlDrv struct {
	base
	l *nack.C12ReceiveLog
}

func (d *rlDrv) apply(o opx) []entry { d.l.Add(uint16(o.Args[0])); return one(o) } //nolint:gosec
func (d *rlDrv) sizes() []int64      { return []int64{int64(d.l.Words())} }

type rsDrv struct {
	base
	s *report.C12ReceiverStream
	n int64
}

func (d *rsDrv) apply(o opx) []entry {
	d.n++
	now := time.Unix(1000, 0).Add(time.Duration(d.n) * time.Millisecond)
	if o.Op == 1 {
		d.s.ProcessRTP(now, uint16(o.Args[0]), uint32(d.n*90)) //nolint:gosec
	} else {
		d.s.Report(now)
	}

	return one(o)
}
func (d *rsDrv) sizes() []int64 { return []int64{int64(d.s.Words())} }

// ---- rtp buffer ----
type rbDrv struct {
	base
	b *verifhooks.C12RTPBuffer
}

func (d *rbDrv) apply(o opx) []entry {
	if err := d.b.Add(uint16(o.Args[0])); err != nil { //nolint:gosec
		panic(err)
	}

	return one(o)
}

func (d *rbDrv) sizes() []int64 {
	a, b := d.b.Sizes()

	return []int64{int64(a), int64(b)}
}

func rbJumps(r *rand.Rand) c12Case {
	size := int64(1 << uint(r.Intn(11)))
	cur := int64(r.Intn(65536))
	ops := phased(r, 1, func(_ int, _ *rand.Rand) []opx {
		var o []opx
		for i := 0; i < 150; i++ {
			switch r.Intn(8) {
			case 0:
				cur += size - 1 + int64(r.Intn(3))
			case 1:
				cur += int64(r.Intn(3000))
			case 2:
				o = append(o, opx{Op: 1, Args: []int64{(cur - size + 1 - int64(r.Intn(3)) + 1 + 65536) % 65536}, Sample: true})
			case 3:
				o = append(o, opx{Op: 1, Args: []int64{(cur - int64(r.Intn(int(size)+2)) + 65536) % 65536}, Sample: true})
			case 4:
				o = append(o, opx{Op: 1, Args: []int64{(cur + 32767 + int64(r.Intn(3))) % 65536}, Sample: true})
			default:
				cur++
			}
			o = append(o, opx{Op: 1, Args: []int64{cur % 65536}, Sample: true})
		}

		return o
	})

	return c12Case{Comp: compRB, Cfg: []int64{size}, Name: "jumps", Ops: ops}
}

// ---- arrival-time map ----
type amDrv struct {
	base
	m *twcc.C12ArrivalMap
}

func (d *amDrv) apply(o opx) []entry {
	switch o.Op {
	case 1:
		d.m.AddPacket(o.Args[0], o.Args[1])
	case 2:
		d.m.EraseTo(o.Args[0])
	default:
		d.m.RemoveOldPackets(o.Args[0], o.Args[1])
	}

	return one(o)
}

func (d *amDrv) sizes() []int64 {
	c, b, e := d.m.Sizes()

	return []int64{int64(c), b, e}
}

func amCase(r *rand.Rand, kind string, n, fbEvery int) c12Case {
	pat := pattern(r, kind, n)
	base := int64(r.Intn(100000))
	t := int64(600000)
	span := int64(n)
	for _, off := range pat {
		if off >= span {
			span = off + 1
		}
	}
	step := int64(100 + r.Intn(3000))
	ops := phased(r, 4, func(p int, r *rand.Rand) []opx {
		var o []opx
		cnt := 0
		for _, off := range pat {
			s := base + int64(p)*span + off
			t += step
			o = append(o, opx{Op: 1, Args: []int64{s, t}})
			cnt++
			if r.Intn(300) == 0 { // far jump or very old packet
				j := s + int64(r.Intn(70000)) - 35000
				o = append(o, opx{Op: 1, Args: []int64{j, t}, Sample: true})
			}
			if fbEvery > 0 && cnt%fbEvery == 0 {
				switch r.Intn(3) {
				case 0:
					o = append(o, opx{Op: 2, Args: []int64{s - int64(r.Intn(fbEvery+1))}, Sample: true})
				default:
					o = append(o, opx{Op: 3, Args: []int64{s + 1 - int64(r.Intn(10)), t - 500000}, Sample: true})
				}
			}
		}

		return o
	})
	sampleEvery(ops, len(ops)/30)

	return c12Case{Comp: compAM, Cfg: []int64{}, Name: kind, Ops: ops}
}

// ---- feedback adapter LRU ----
type lruDrv struct {
	base
	f *verifhooks.C12FeedbackAdapter
}

func (d *lruDrv) apply(o opx) []entry {
	k := o.Args[0]
	hdr := &rtp.Header{Version: 2, SSRC: uint32(k >> 16), SequenceNumber: uint16(k & 0xFFFF)} //nolint:gosec
	if err := d.f.OnSent(time.Unix(1, 0), hdr, 100, nil); err != nil {
		panic(err)
	}

	return one(o)
}

func (d *lruDrv) sizes() []int64 {
	a, b := d.f.C12Sizes()

	return []int64{int64(a), int64(b)}
}

func lruCase(r *rand.Rand, kind string, n int) c12Case {
	c := seqCase(r, compLRU, []int64{}, kind, n, 4, 65536, 0, nil)
	ns := int64(1 + r.Intn(3))
	for i := range c.Ops {
		if c.Ops[i].Op == 1 {
			ssrc := (int64(i) / 40) % ns
			c.Ops[i].Args[0] += ssrc << 16
			if r.Intn(20) == 0 && i > 300 { // touch an old key again (MoveToFront)
				if j := i - 1 - r.Intn(300); c.Ops[j].Op == 1 {
					c.Ops[i].Args[0] = c.Ops[j].Args[0]
				}
			}
		}
	}

	return c
}

// ---- rfc8888 stream log ----
type slDrv struct {
	base
	l *rfc8888.C12StreamLog
	n int64
}

func (d *slDrv) apply(o opx) []entry {
	d.n++
	now := time.Unix(1000, 0).Add(time.Duration(d.n) * time.Millisecond)
	if o.Op == 1 {
		d.l.Add(now, uint16(o.Args[0])) //nolint:gosec
	} else {
		d.l.Report(now, o.Args[0])
	}

	return one(o)
}
func (d *slDrv) sizes() []int64 { return []int64{int64(d.l.Size())} }

// ---- stats recorder lists ----
type srDrv struct {
	base
	r *stats.C12Recorder
}

func (d *srDrv) apply(o opx) []entry {
	now := time.Unix(1000, 0)
	if o.Op == 1 {
		d.r.OutgoingRTCP(now, []rtcp.Packet{&rtcp.SenderReport{SSRC: 1, NTPTime: uint64(o.Args[0])}}) //nolint:gosec
	} else {
		xr := &rtcp.ExtendedReport{SenderSSRC: 1}
		for i := int64(0); i < o.Args[0]; i++ {
			xr.Reports = append(xr.Reports, &rtcp.ReceiverReferenceTimeReportBlock{NTPTimestamp: uint64(i)}) //nolint:gosec
		}
		d.r.OutgoingRTCP(now, []rtcp.Packet{xr})
	}

	return one(o)
}

func (d *srDrv) sizes() []int64 {
	a, _, b, _ := d.r.Sizes()

	return []int64{int64(a), int64(b)}
}

func srCase(r *rand.Rand) c12Case {
	ops := phased(r, 4, func(_ int, r *rand.Rand) []opx {
		var o []opx
		for i := 0; i < 40; i++ {
			if r.Intn(2) == 0 {
				o = append(o, opx{Op: 1, Args: []int64{int64(i)}, Sample: true})
			} else {
				o = append(o, opx{Op: 2, Args: []int64{int64(r.Intn(8))}, Sample: true})
			}
		}

		return o
	})

	return c12Case{Comp: compSR, Cfg: []int64{}, Name: "reports", Ops: ops}
}

// ---- stats interceptor ----
type siDrv struct {
	base
	i *stats.Interceptor
}

func newSiDrv() *siDrv {
	f, err := stats.NewInterceptor(stats.WithLoggerFactory(quietLogs()))
	if err != nil {
		panic(err)
	}
	i, err := f.NewInterceptor("")
	if err != nil {
		panic(err)
	}
	si, ok := i.(*stats.Interceptor)
	if !ok {
		panic("stats interceptor type")
	}

	return &siDrv{i: si}
}

func (d *siDrv) apply(o opx) []entry {
	ssrc := int64(0)
	if len(o.Args) > 0 {
		ssrc = o.Args[0]
	}
	info := &interceptor.StreamInfo{SSRC: uint32(ssrc), ClockRate: 90000} //nolint:gosec
	if o.Op == 1 {
		if ssrc%2 == 0 {
			d.i.BindLocalStream(info, interceptor.RTPWriterFunc(
				func(*rtp.Header, []byte, interceptor.Attributes) (int, error) { return 0, nil }))
		} else {
			d.i.BindRemoteStream(info, interceptor.RTPReaderFunc(
				func([]byte, interceptor.Attributes) (int, interceptor.Attributes, error) { return 0, nil, nil }))
		}
	} else if o.Op == 3 { // Close: recorders are stopped and stay; later binds register nothing
		_ = d.i.Close()
	} else {
		if ssrc%2 == 0 {
			d.i.UnbindLocalStream(info)
		} else {
			d.i.UnbindRemoteStream(info)
		}
	}

	return one(o)
}
func (d *siDrv) sizes() []int64 { return []int64{int64(stats.C12Recorders(d.i))} }
func (d *siDrv) close()         { _ = d.i.Close() }

func siCase(r *rand.Rand, unbind bool) c12Case {
	next := int64(1)
	ops := phased(r, 4, func(_ int, r *rand.Rand) []opx {
		var o []opx
		k := 3 + r.Intn(4)
		var mine []int64
		for i := 0; i < k; i++ {
			s := next
			if !unbind {
				s = int64(1 + i) // the same streams are bound again
			}
			next++
			mine = append(mine, s)
			o = append(o, opx{Op: 1, Args: []int64{s}, Sample: true})
		}
		if unbind {
			for _, s := range mine {
				o = append(o, opx{Op: 2, Args: []int64{s}, Sample: true})
			}
		}

		return o
	})
	name := "bind-only"
	if unbind {
		name = "bind-unbind"
	}

	return c12Case{Comp: compSI, Cfg: []int64{}, Name: name, Ops: ops}
}

// siRandCase interleaves Bind and Unbind of a small set of SSRCs at random:
// re-binding a bound stream, unbinding twice, unbinding a stream that was never
// bound, and binding again after Unbind (a fresh recorder must appear).
func siRandCase(r *rand.Rand) c12Case {
	ops := phased(r, 4, func(_ int, r *rand.Rand) []opx {
		var o []opx
		ns := 2 + r.Intn(6)
		for i := 0; i < 60; i++ {
			s := int64(1 + r.Intn(ns))
			if r.Intn(5) < 3 {
				o = append(o, opx{Op: 1, Args: []int64{s}, Sample: true})
			} else {
				o = append(o, opx{Op: 2, Args: []int64{s}, Sample: true})
			}
		}
		for s := 1; s <= ns; s++ { // every phase ends with nothing bound
			o = append(o, opx{Op: 2, Args: []int64{int64(s)}, Sample: true})
		}

		return o
	})

	return c12Case{Comp: compSI, Cfg: []int64{}, Name: "bind-unbind-random", Ops: ops}
}

// siCloseCase: the interceptor is closed in the middle of the third phase;
// streams bound afterwards get no recorder, Unbind still releases.
func siCloseCase(r *rand.Rand) c12Case {
	ops := phased(r, 4, func(p int, r *rand.Rand) []opx {
		var o []opx
		ns := 3 + r.Intn(5)
		for i := 0; i < 40; i++ {
			s := int64(1 + r.Intn(ns))
			if p == 2 && i == 20 {
				o = append(o, opx{Op: 3, Args: []int64{}, Sample: true})
			}
			if r.Intn(5) < 3 {
				o = append(o, opx{Op: 1, Args: []int64{s}, Sample: true})
			} else {
				o = append(o, opx{Op: 2, Args: []int64{s}, Sample: true})
			}
		}

		return o
	})

	return c12Case{Comp: compSI, Cfg: []int64{}, Name: "bind-unbind-close", Ops: ops}
}

// ---- jitter buffer interceptor ----
type jbDrv struct {
	base
	i    *jitterbuffer.ReceiverInterceptor
	rd   interceptor.RTPReader
	next []byte
}

func newJbDrv() *jbDrv {
	f, err := jitterbuffer.NewInterceptor(jitterbuffer.WithLoggerFactory(quietLogs()))
	if err != nil {
		panic(err)
	}
	i, err := f.NewInterceptor("")
	if err != nil {
		panic(err)
	}
	ri, ok := i.(*jitterbuffer.ReceiverInterceptor)
	if !ok {
		panic("jitterbuffer interceptor type")
	}
	d := &jbDrv{i: ri}
	d.bind()

	return d
}

func (d *jbDrv) bind() {
	d.rd = d.i.BindRemoteStream(&interceptor.StreamInfo{SSRC: 1}, interceptor.RTPReaderFunc(
		func(b []byte, a interceptor.Attributes) (int, interceptor.Attributes, error) {
			return copy(b, d.next), a, nil
		}))
}

func (d *jbDrv) apply(o opx) []entry {
	if o.Op == 1 {
		p := rtp.Packet{Header: rtp.Header{Version: 2, SSRC: 1, SequenceNumber: uint16(o.Args[0])}, Payload: []byte{1, 2, 3}} //nolint:gosec
		raw, err := p.Marshal()
		if err != nil {
			panic(err)
		}
		d.next = raw
		buf := make([]byte, 1500)
		_, _, _ = d.rd.Read(buf, interceptor.Attributes{})
	} else if o.Op == 3 { // Close: Clear(true); the reader bound before keeps working
		_ = d.i.Close()
	} else {
		d.i.UnbindRemoteStream(&interceptor.StreamInfo{SSRC: 1})
		d.bind()
	}

	return one(o)
}

func (d *jbDrv) sizes() []int64 {
	n, _, _, _ := jitterbuffer.C12Nodes(d.i)

	return []int64{int64(n)}
}
func (d *jbDrv) close() { _ = d.i.Close() }

func jbCase(r *rand.Rand, kind string, n int) c12Case {
	c := seqCase(r, compJB, []int64{}, kind, n, 4, 65536, 0, nil)
	if k := r.Intn(3); k < 2 { // unbind / Close at the end of every phase: per-stream memory released
		var ops []opx
		for _, o := range c.Ops {
			if o.Op == opMark {
				ops = append(ops, opx{Op: int64(2 + k), Args: []int64{}, Sample: true})
			}
			ops = append(ops, o)
		}
		c.Ops = ops
		c.Name += []string{"+unbind", "+close"}[k]
	}

	return c
}

// ---- flexfec encoder interceptor ----
type ffDrv struct {
	base
	i  *flexfec.FecInterceptor
	w  map[int64]interceptor.RTPWriter
	sn map[int64]uint16
}

// fecPlus (cfg[1]): 0 or absent = NumFECPackets(1); v > 0 = NumFECPackets(v-1), so 1 asks for no repair packets.
func newFfDrv(numMedia uint32, fecPlus int64) *ffDrv {
	numFec := uint32(1)
	if fecPlus > 0 {
		numFec = uint32(fecPlus - 1) //nolint:gosec
	}
	f, err := flexfec.NewFecInterceptor(flexfec.NumMediaPackets(numMedia), flexfec.NumFECPackets(numFec))
	if err != nil {
		panic(err)
	}
	i, err := f.NewInterceptor("")
	if err != nil {
		panic(err)
	}
	fi, ok := i.(*flexfec.FecInterceptor)
	if !ok {
		panic("flexfec interceptor type")
	}

	return &ffDrv{i: fi, w: map[int64]interceptor.RTPWriter{}, sn: map[int64]uint16{}}
}

func (d *ffDrv) apply(o opx) []entry {
	s := o.Args[0]
	info := &interceptor.StreamInfo{
		SSRC: uint32(s), PayloadTypeForwardErrorCorrection: 118, SSRCForwardErrorCorrection: uint32(s) + 1000, //nolint:gosec
	}
	switch o.Op {
	case 1:
		d.w[s] = d.i.BindLocalStream(info, interceptor.RTPWriterFunc(
			func(*rtp.Header, []byte, interceptor.Attributes) (int, error) { return 0, nil }))
	case 2:
		d.i.UnbindLocalStream(info)
		delete(d.w, s)
	default:
		if w, ok := d.w[s]; ok {
			d.sn[s]++
			if len(o.Args) > 1 { // explicit RTP sequence number (gaps, duplicates, reordering inside a batch)
				d.sn[s] = uint16(o.Args[1]) //nolint:gosec
			}
			hdr := &rtp.Header{Version: 2, SSRC: uint32(s), SequenceNumber: d.sn[s], PayloadType: 96} //nolint:gosec
			_, _ = w.Write(hdr, []byte{1, 2, 3, 4, 5, 6, 7, 8}, nil)
		}
	}

	return one(o)
}

func (d *ffDrv) sizes() []int64 {
	a, b := flexfec.C12Sizes(d.i)

	return []int64{int64(a), int64(b)}
}

func ffCase(r *rand.Rand, numMedia int64) c12Case {
	ops := phased(r, 4, func(_ int, r *rand.Rand) []opx {
		var o []opx
		ns := 1 + r.Intn(3)
		for s := 1; s <= ns; s++ {
			o = append(o, opx{Op: 1, Args: []int64{int64(s)}, Sample: true})
		}
		for i := 0; i < 120; i++ {
			o = append(o, opx{Op: 3, Args: []int64{int64(1 + r.Intn(ns+1))}, Sample: i%3 == 0})
		}
		if r.Intn(2) == 0 {
			for s := 1; s <= ns; s++ {
				o = append(o, opx{Op: 2, Args: []int64{int64(s)}, Sample: true})
			}
		}

		return o
	})

	return c12Case{Comp: compFF, Cfg: []int64{numMedia}, Name: "fec", Ops: ops}
}

// ffSeqCase writes packets whose RTP sequence numbers follow a lossy /
// duplicated / reordered pattern (the encoder returns no repair packets for a
// batch that is not consecutive) and optionally asks for zero repair packets:
// the batch buffer must be reset all the same.
func ffSeqCase(r *rand.Rand, kind string, numMedia, fecPlus int64) c12Case {
	pat := pattern(r, kind, 150)
	base := int64(r.Intn(65536))
	if r.Intn(2) == 0 {
		base = 65536 - int64(r.Intn(100))
	}
	ops := phased(r, 4, func(p int, _ *rand.Rand) []opx {
		var o []opx
		if p == 0 {
			o = append(o, opx{Op: 1, Args: []int64{1}, Sample: true})
		}
		for i, off := range pat {
			o = append(o, opx{Op: 3, Args: []int64{1, (base + int64(p)*200 + off) % 65536}, Sample: i%3 == 0})
		}

		return o
	})

	return c12Case{Comp: compFF, Cfg: []int64{numMedia, fecPlus}, Name: "fec-" + kind, Ops: ops}
}

// ---- queues without admission limit ----
// mode 0: the budget never releases a packet; mode 1: generous budget, the
// queue drains before a phase ends.
type lbDrv struct {
	base
	p       *gcc.LeakyBucketPacer
	mode    int64
	written int64
	closed  bool
}

func newLbDrv(mode int64) *lbDrv {
	rate := 0
	if mode == 1 {
		rate = 2000000000
	}
	d := &lbDrv{mode: mode}
	d.p = gcc.NewLeakyBucketPacer(rate)
	d.p.AddStream(1, interceptor.RTPWriterFunc(func(h *rtp.Header, p []byte, _ interceptor.Attributes) (int, error) {
		atomic.AddInt64(&d.written, 1)

		return h.MarshalSize() + len(p), nil
	}))

	return d
}

func (d *lbDrv) apply(o opx) []entry {
	if o.Op == 1 {
		_, _ = d.p.Write(&rtp.Header{Version: 2, SSRC: 1}, make([]byte, 1000), nil)
	}
	if o.Op == 3 { // Close: the pacing goroutine has returned, Write rejects packets afterwards
		_ = d.p.Close()
		d.closed = true
	}

	return one(o)
}
func (d *lbDrv) sizes() []int64 { return []int64{int64(gcc.C12QueueLen(d.p))} }
func (d *lbDrv) phaseEnd() []entry {
	if d.mode != 1 || d.closed {
		return nil
	}
	for i := 0; i < 400 && gcc.C12QueueLen(d.p) > 0; i++ {
		time.Sleep(5 * time.Millisecond)
	}

	return []entry{{Op: 2, Args: []int64{1000000}}}
}
func (d *lbDrv) close() { _ = d.p.Close() }

type pcDrv struct {
	base
	f        *pacing.InterceptorFactory
	i        interceptor.Interceptor
	w        interceptor.RTPWriter
	mode     int64
	accepted int64
	written  int64
}

func newPcDrv(mode int64) *pcDrv {
	budget := 0.0
	if mode == 1 {
		budget = 1e18
	}
	d := &pcDrv{mode: mode}
	d.f = pacing.NewInterceptor(pacing.Interval(time.Millisecond), pacing.C12FixedBudget(budget),
		pacing.WithLoggerFactory(quietLogs()))
	i, err := d.f.NewInterceptor("c12")
	if err != nil {
		panic(err)
	}
	d.i = i
	d.w = i.BindLocalStream(&interceptor.StreamInfo{SSRC: 1}, interceptor.RTPWriterFunc(
		func(*rtp.Header, []byte, interceptor.Attributes) (int, error) {
			atomic.AddInt64(&d.written, 1)

			return 0, nil
		}))

	return d
}

func (d *pcDrv) apply(o opx) []entry {
	if o.Op == 1 {
		if _, err := d.w.Write(&rtp.Header{Version: 2, SSRC: 1}, make([]byte, 100), nil); err == nil {
			d.accepted++
		}
	}

	return one(o)
}

// packets held = accepted by Write and not yet handed to the next writer
// (hand-off channel + the loop-local slice).
func (d *pcDrv) sizes() []int64 { return []int64{d.accepted - atomic.LoadInt64(&d.written)} }
func (d *pcDrv) phaseEnd() []entry {
	if d.mode != 1 {
		return nil
	}
	for i := 0; i < 400 && d.accepted-atomic.LoadInt64(&d.written) > 0; i++ {
		time.Sleep(5 * time.Millisecond)
	}

	return []entry{{Op: 2, Args: []int64{1000000}}}
}
func (d *pcDrv) close() { _ = d.i.Close() }

func fqCase(r *rand.Rand, comp, mode int64) c12Case {
	n := 100 + r.Intn(200)
	ops := phased(r, 4, func(int, *rand.Rand) []opx {
		o := make([]opx, n)
		for i := range o {
			o[i] = opx{Op: 1, Args: []int64{}, Sample: mode == 0 && i%10 == 0}
		}

		return o
	})

	return c12Case{Comp: comp, Cfg: []int64{mode}, Name: fmt.Sprintf("queue-mode%d", mode), Ops: ops}
}

// fqCloseCase: leaky-bucket pacer with a generous budget; the pacer is closed
// at the start of the third phase (the queue is drained at every phase end
// before): packets written afterwards must not be retained.
func fqCloseCase(r *rand.Rand) c12Case {
	n := 50 + r.Intn(100)
	ops := phased(r, 4, func(p int, _ *rand.Rand) []opx {
		var o []opx
		if p == 2 {
			o = append(o, opx{Op: 3, Args: []int64{}, Sample: true})
		}
		for i := 0; i < n; i++ {
			o = append(o, opx{Op: 1, Args: []int64{}, Sample: p >= 2 && i%10 == 0})
		}

		return o
	})

	return c12Case{Comp: compLB, Cfg: []int64{1}, Name: "queue-mode1+close", Ops: ops}
}

// ---- cc interceptor + gcc send-side BWE + pacer: per-stream writers ----
// The real cc interceptor is driven through BindLocalStream /
// UnbindLocalStream with the leaky-bucket pacer (cfg 0) or gcc.NewNoOpPacer
// (cfg 1). The size of the pacer's ssrcToWriter map is read through the
// existing probe VerifC11Stream: the map's keys are SSRCs that were bound, so
// counting the probe over every SSRC ever bound is len(ssrcToWriter).
type gwDrv struct {
	base
	i    interceptor.Interceptor
	seen map[int64]bool
}

type gwProbe interface {
	VerifC11Stream(ssrc uint32) (bool, bool)
}

func newGwDrv(pacer int64) *gwDrv {
	f, err := cc.NewInterceptor(func() (cc.BandwidthEstimator, error) {
		if pacer == 1 {
			return gcc.NewSendSideBWE(gcc.SendSideBWEPacer(gcc.NewNoOpPacer()))
		}

		return gcc.NewSendSideBWE()
	})
	if err != nil {
		panic(err)
	}
	i, err := f.NewInterceptor("c12")
	if err != nil {
		panic(err)
	}
	if _, ok := i.(gwProbe); !ok {
		panic("cc interceptor: probe VerifC11Stream missing")
	}

	return &gwDrv{i: i, seen: map[int64]bool{}}
}

func (d *gwDrv) apply(o opx) []entry {
	info := &interceptor.StreamInfo{SSRC: uint32(o.Args[0])} //nolint:gosec
	if o.Op == 1 {
		d.seen[o.Args[0]] = true
		d.i.BindLocalStream(info, interceptor.RTPWriterFunc(
			func(*rtp.Header, []byte, interceptor.Attributes) (int, error) { return 0, nil }))
	} else {
		d.i.UnbindLocalStream(info)
	}

	return one(o)
}

func (d *gwDrv) sizes() []int64 {
	p, _ := d.i.(gwProbe)
	n := int64(0)
	for s := range d.seen {
		if ok, _ := p.VerifC11Stream(uint32(s)); ok { //nolint:gosec
			n++
		}
	}

	return []int64{n}
}
func (d *gwDrv) close() { _ = d.i.Close() }

// gwCase: churn = every phase binds fresh SSRCs and unbinds them again;
// otherwise random bind / unbind / re-bind / double unbind over a small set.
func gwCase(r *rand.Rand, pacer int64, churn bool) c12Case {
	next := int64(1)
	ops := phased(r, 4, func(_ int, r *rand.Rand) []opx {
		var o []opx
		if churn {
			k := 20 + r.Intn(30)
			var mine []int64
			for i := 0; i < k; i++ {
				mine = append(mine, next)
				o = append(o, opx{Op: 1, Args: []int64{next}, Sample: i%5 == 0})
				next++
			}
			for i, s := range mine {
				o = append(o, opx{Op: 2, Args: []int64{s}, Sample: i%5 == 0 || i == len(mine)-1})
			}

			return o
		}
		ns := 2 + r.Intn(6)
		for i := 0; i < 60; i++ {
			s := int64(1 + r.Intn(ns))
			if r.Intn(5) < 3 {
				o = append(o, opx{Op: 1, Args: []int64{s}, Sample: true})
			} else {
				o = append(o, opx{Op: 2, Args: []int64{s}, Sample: true})
			}
		}
		for s := 1; s <= ns; s++ {
			o = append(o, opx{Op: 2, Args: []int64{int64(s)}, Sample: true})
		}

		return o
	})
	name := "bind-unbind-random"
	if churn {
		name = "bind-unbind-churn"
	}

	return c12Case{Comp: compGW, Cfg: []int64{pacer}, Name: name, Ops: ops}
}

// ---- rtpfb history ----
type histDrv struct {
	base
	h *rtpfb.C12History
}

func (d *histDrv) apply(o opx) []entry {
	e := one(o)
	switch o.Op {
	case 1:
		d.h.Add(uint32(o.Args[0]), uint16(o.Args[1]), o.Args[2] != 0, uint16(o.Args[3])) //nolint:gosec
	case 2:
		d.h.AckTWCC(uint16(o.Args[0]), o.Args[1] != 0) //nolint:gosec
	case 3:
		d.h.AckCCFB(uint32(o.Args[0]), uint16(o.Args[1]), o.Args[2] != 0) //nolint:gosec
	default:
		e[0].Args = []int64{int64(d.h.Report())} // output: number of packet reports returned
	}

	return e
}

func (d *histDrv) sizes() []int64 {
	a, b, c := d.h.Sizes()

	return []int64{int64(a), int64(b), int64(c)}
}

func histCase(r *rand.Rand, kind string, n, fbEvery int, isTw bool) c12Case {
	pat := pattern(r, kind, n) // here: which packets arrive and in which order they are acknowledged
	base := int64(r.Intn(65536))
	twBase := int64(r.Intn(65536))
	ns := int64(1 + r.Intn(2))
	tw := int64(0)
	if isTw {
		tw = 1
	}
	// half of the histories acknowledge the very first packet as arrived; in the others the first
	// reports may come while nothing was acknowledged as arrived yet (history.acked still false)
	first := r.Intn(2) == 0
	ops := phased(r, 4, func(p int, r *rand.Rand) []opx {
		var o []opx
		arrived := map[int64]bool{}
		for _, off := range pat {
			arrived[off] = true
		}
		var pending [][]int64
		for i := 0; i < n; i++ {
			k := int64(p)*int64(n) + int64(i)
			ssrc := 1 + k%ns
			seq := (base + k) % 65536
			tws := (twBase + k) % 65536
			o = append(o, opx{Op: 1, Args: []int64{ssrc, seq, tw, tws}})
			ok := int64(0)
			if arrived[int64(i)] || (first && fbEvery > 0) {
				ok = 1
			}
			first = false
			pending = append(pending, []int64{ssrc, seq, tws, ok})
			if fbEvery > 0 && (i+1)%fbEvery == 0 {
				if r.Intn(4) == 0 { // acknowledgements arrive out of order
					r.Shuffle(len(pending), func(a, b int) { pending[a], pending[b] = pending[b], pending[a] })
				}
				for _, q := range pending {
					if isTw {
						o = append(o, opx{Op: 2, Args: []int64{q[2], q[3]}})
					} else {
						o = append(o, opx{Op: 3, Args: []int64{q[0], q[1], q[3]}})
					}
					if r.Intn(10) == 0 { // duplicate and unknown acknowledgements
						o = append(o, opx{Op: 2, Args: []int64{(q[2] + 30000) % 65536, 1}})
						o = append(o, opx{Op: 3, Args: []int64{q[0], (q[1] + 30000) % 65536, 1}})
					}
				}
				pending = nil
				o = append(o, opx{Op: 4, Args: []int64{0}, Sample: true})
			}
		}

		return o
	})
	sampleEvery(ops, len(ops)/30)

	return c12Case{Comp: compHIST, Cfg: []int64{}, Name: kind, Ops: ops}
}

// histRtxCase: histories with retransmissions. A packet still waiting for
// feedback is sent again with the same SSRC and RTP sequence number (and, for
// TWCC, sometimes with the same transport-wide number): the index entry then
// belongs to the later packet while the earlier one is reported and released.
// With lag the feedback acknowledges only the older part of what is pending,
// so that an original is reported before its retransmission is acknowledged.
func histRtxCase(r *rand.Rand, kind string, n, fbEvery int, isTw, lag bool) c12Case {
	pat := pattern(r, kind, n)
	base := int64(r.Intn(65536))
	twBase := int64(r.Intn(65536))
	ns := int64(1 + r.Intn(2))
	tw := int64(0)
	if isTw {
		tw = 1
	}
	ops := phased(r, 4, func(p int, r *rand.Rand) []opx {
		var o []opx
		arrived := map[int64]bool{}
		for _, off := range pat {
			arrived[off] = true
		}
		var pending [][]int64 // ssrc, seq, tws, arrived
		sends := int64(p) * int64(3*n)
		for i := 0; i < n; i++ {
			k := int64(p)*int64(n) + int64(i)
			ssrc := 1 + k%ns
			seq := (base + k) % 65536
			tws := (twBase + sends) % 65536
			sends++
			o = append(o, opx{Op: 1, Args: []int64{ssrc, seq, tw, tws}})
			ok := int64(0)
			if arrived[int64(i)] || i == 0 {
				ok = 1
			}
			pending = append(pending, []int64{ssrc, seq, tws, ok})
			if r.Intn(5) == 0 { // retransmission of a packet that still waits for feedback
				q := pending[len(pending)-1-r.Intn(min(len(pending), 10))]
				var lost [][]int64 // preferably a packet that will be reported as not arrived
				for _, c := range pending[max(0, len(pending)-12):] {
					if c[3] == 0 {
						lost = append(lost, c)
					}
				}
				if len(lost) > 0 && r.Intn(4) != 0 {
					q = lost[r.Intn(len(lost))]
				}
				ntw := (twBase + sends) % 65536
				if isTw && r.Intn(2) == 0 {
					ntw = q[2] // the transport-wide number is used again
				} else {
					sends++
				}
				o = append(o, opx{Op: 1, Args: []int64{q[0], q[1], tw, ntw}})
				pending = append(pending, []int64{q[0], q[1], ntw, int64(r.Intn(2))})
			}
			if (i+1)%fbEvery == 0 || i == n-1 {
				cut := len(pending)
				if lag && i != n-1 {
					cut -= r.Intn(min(len(pending), 12))
				}
				for _, q := range pending[:cut] {
					if isTw {
						o = append(o, opx{Op: 2, Args: []int64{q[2], q[3]}})
					} else {
						o = append(o, opx{Op: 3, Args: []int64{q[0], q[1], q[3]}})
					}
				}
				pending = append([][]int64{}, pending[cut:]...)
				o = append(o, opx{Op: 4, Args: []int64{0}, Sample: true})
			}
		}

		return o
	})
	sampleEvery(ops, len(ops)/30)

	return c12Case{Comp: compHIST, Cfg: []int64{}, Name: kind + "+rtx", Ops: ops}
}

// ---- NACK generator (real interceptor; the ticker loop is run one whole
// tick at a time by BindRTCPWriter / Close / C12GenReopen, a sentinel stream
// whose NACK is written at every tick tells when a tick has completed) ----
const sentinel = 4000000000

type ngDrv struct {
	base
	i       *nack.GeneratorInterceptor
	readers map[int64]interceptor.RTPReader
	next    []byte
	sentSeq uint16
	mu      sync.Mutex
	seen    chan struct{}
	bound   []int64
}

func newNgDrv(size, maxNacks uint16) *ngDrv {
	f, err := nack.NewGeneratorInterceptor(nack.GeneratorSize(size), nack.GeneratorMaxNacksPerPacket(maxNacks),
		nack.GeneratorInterval(200*time.Microsecond), nack.WithGeneratorLoggerFactory(quietLogs()))
	if err != nil {
		panic(err)
	}
	i, err := f.NewInterceptor("")
	if err != nil {
		panic(err)
	}
	gi, ok := i.(*nack.GeneratorInterceptor)
	if !ok {
		panic("nack generator type")
	}

	return &ngDrv{i: gi, readers: map[int64]interceptor.RTPReader{}}
}

func (d *ngDrv) info(s int64) *interceptor.StreamInfo {
	return &interceptor.StreamInfo{SSRC: uint32(s), RTCPFeedback: []interceptor.RTCPFeedback{{Type: "nack"}}} //nolint:gosec
}

func (d *ngDrv) bind(s int64) {
	d.readers[s] = d.i.BindRemoteStream(d.info(s), interceptor.RTPReaderFunc(
		func(b []byte, a interceptor.Attributes) (int, interceptor.Attributes, error) {
			return copy(b, d.next), a, nil
		}))
	for _, x := range d.bound {
		if x == s {
			return
		}
	}
	d.bound = append(d.bound, s)
}

func (d *ngDrv) recv(s int64, seq uint16) {
	rd, ok := d.readers[s]
	if !ok {
		return
	}
	p := rtp.Packet{Header: rtp.Header{Version: 2, SSRC: uint32(s), SequenceNumber: seq}, Payload: []byte{1}} //nolint:gosec
	raw, err := p.Marshal()
	if err != nil {
		panic(err)
	}
	d.next = raw
	_, _, _ = rd.Read(make([]byte, 1500), interceptor.Attributes{})
}

func (d *ngDrv) apply(o opx) []entry {
	switch o.Op {
	case 1:
		d.bind(o.Args[0])

		return one(o)
	case 2:
		d.i.UnbindRemoteStream(d.info(o.Args[0]))
		delete(d.readers, o.Args[0])
		for k, x := range d.bound {
			if x == o.Args[0] {
				d.bound = append(d.bound[:k], d.bound[k+1:]...)

				break
			}
		}

		return one(o)
	case 4:
		d.recv(o.Args[0], uint16(o.Args[1])) //nolint:gosec

		return one(o)
	}
	// tick: the sentinel stream gets a fresh missing number so that every tick writes its NACK
	var es []entry
	if _, ok := d.readers[sentinel]; !ok {
		d.bind(sentinel)
		es = append(es, entry{Op: 1, Args: []int64{sentinel}})
		d.recv(sentinel, d.sentSeq)
	}
	if d.sentSeq > 0 {
		d.recv(sentinel, d.sentSeq-1) // the number missing at the previous tick arrives late
	}
	d.sentSeq += 2
	d.recv(sentinel, d.sentSeq)
	for _, s := range d.bound {
		args := []int64{s}
		for _, m := range nack.C12GenMissing(d.i, uint32(s)) { //nolint:gosec
			args = append(args, int64(m))
		}
		es = append(es, entry{Op: 3, Args: args})
	}
	seen := make(chan struct{}, 1)
	nack.C12GenReopen(d.i)
	d.i.BindRTCPWriter(interceptor.RTCPWriterFunc(func(pkts []rtcp.Packet, _ interceptor.Attributes) (int, error) {
		for _, p := range pkts {
			if n, ok := p.(*rtcp.TransportLayerNack); ok && n.MediaSSRC == sentinel {
				select {
				case seen <- struct{}{}:
				default:
				}
			}
		}

		return 0, nil
	}))
	select {
	case <-seen:
	case <-time.After(5 * time.Second):
		implFail("hang", "nack generator: no tick within 5 s", nil)
	}
	_ = d.i.Close()

	return es
}

func (d *ngDrv) sizes() []int64 {
	a, b, c := nack.C12GenSizes(d.i)

	return []int64{int64(a), int64(b), int64(c)}
}
func (d *ngDrv) close() { _ = d.i.Close() }

func ngCase(r *rand.Rand, kind string, maxNacks int64) c12Case {
	size := int64(64 << uint(r.Intn(3)))
	n := 120
	pat := pattern(r, kind, n)
	base := int64(r.Intn(65536))
	ns := 1 + r.Intn(2)
	every := 8 + r.Intn(20)
	rebind := r.Intn(2) == 0
	span := int64(n)
	for _, off := range pat {
		if off >= span {
			span = off + 1
		}
	}
	ops := phased(r, 4, func(p int, _ *rand.Rand) []opx {
		var o []opx
		cnt := 0
		for s := 1; s <= ns; s++ {
			if p == 0 || (rebind && s == 1) {
				o = append(o, opx{Op: 1, Args: []int64{int64(s)}})
			}
		}
		for _, off := range pat {
			seq := (base + int64(p)*span + off) % 65536
			o = append(o, opx{Op: 4, Args: []int64{int64(1 + cnt%ns), seq}})
			cnt++
			if cnt%every == 0 {
				o = append(o, opx{Op: 3, Args: []int64{}, Sample: true})
			}
		}
		if rebind { // per-stream state is dropped at Unbind
			o = append(o, opx{Op: 2, Args: []int64{1}, Sample: true})
		}

		return o
	})

	return c12Case{Comp: compNG, Cfg: []int64{size, maxNacks}, Name: kind, Ops: ops}
}

// ---- gcc rate calculator (its history is a loop-local slice: the only
// observable is the published rate; with unit sizes bits = 8 * len(history)) ----
type rcDrv struct {
	base
	window int64
	arr    []int64
}

func (d *rcDrv) apply(o opx) []entry {
	d.arr = append(d.arr, o.Args[0])

	return one(o)
}

// sizes re-runs the real calculator on the whole history (it has no other
// state) and returns the last published rate.
func (d *rcDrv) sizes() []int64 {
	b := make([][]gcc.C12Ack, len(d.arr))
	for i, a := range d.arr {
		b[i] = []gcc.C12Ack{{Size: 1, Arrival: time.Unix(0, 0).Add(time.Duration(a) * time.Microsecond)}}
	}
	rates := gcc.C12RunRateCalculator(time.Duration(d.window)*time.Microsecond, b)
	if len(rates) == 0 {
		return []int64{0}
	}

	return []int64{int64(rates[len(rates)-1])}
}

func rcCase(r *rand.Rand, monotone bool) c12Case {
	window := int64(100000 + r.Intn(900000))
	t := int64(1000000)
	ops := phased(r, 4, func(int, *rand.Rand) []opx {
		var o []opx
		for i := 0; i < 80; i++ {
			if monotone {
				t += int64(1000 + r.Intn(20000))
			}
			o = append(o, opx{Op: 1, Args: []int64{t}, Sample: i%4 == 0})
		}

		return o
	})
	name := "monotone"
	if !monotone {
		name = "constant-arrival"
	}

	return c12Case{Comp: compRC, Cfg: []int64{window}, Name: name, Ops: ops}
}
