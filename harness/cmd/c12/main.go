// Generator for C12: memory held per interceptor is bounded regardless of
// stream length. Every component is driven with long seeded phases of the same
// workload (in-order, steady loss, duplicates, reordering; with periodic
// feedback and without); the container sizes returned by the verif hooks are
// recorded after sampled operations and at every phase end.
package main

import (
	"fmt"
	"math/rand"
	"os"
	"runtime"
	"sort"
	"sync"
	"time"

	"verifharness/internal/cq"
)

// opx is one operation of a history: opcode, arguments, and whether the
// container sizes are sampled after it. Opcode 99 marks the end of a phase.
type opx struct {
	Op     int64   `json:"op"`
	Args   []int64 `json:"args"`
	Sample bool    `json:"sample,omitempty"`
}

// entry is one trace entry as evaluated in Coq.
type entry struct {
	Op   int64   `json:"op"`
	Args []int64 `json:"args"`
	Obs  []int64 `json:"obs,omitempty"`
}

type c12Case struct {
	Comp  int64   `json:"comp"`
	Cfg   []int64 `json:"cfg"`
	Name  string  `json:"name"`
	Ops   []opx   `json:"ops"`
	Trace []entry `json:"trace,omitempty"`
}

// driver runs the real component. apply performs one operation and returns
// the trace entries it stands for (usually one); sizes reads the hooks.
type driver interface {
	apply(o opx) []entry
	sizes() []int64
	phaseEnd() []entry
	close()
}

const (
	compRL   = 1
	compRS   = 2
	compRB   = 3
	compNG   = 4
	compAM   = 5
	compLRU  = 6
	compSL   = 7
	compSR   = 8
	compSI   = 9
	compJB   = 10
	compFF   = 11
	compRC   = 12
	compLB   = 13
	compPC   = 14
	compHIST = 15
	compGW   = 16
	compLBS  = 17
	compPCR  = 18
	compRR   = 19
	compLast = compRR
	opMark   = 99
	opRun    = 90
)

// runArgs returns the arguments of the i-th operation of a run
// (args = count, m, a0, d0, a1, d1, ...).
func runArgs(args []int64, i int64) []int64 {
	m := args[1]
	out := make([]int64, 0, (len(args)-2)/2)
	for j := 2; j+1 < len(args); j += 2 {
		v := args[j] + i*args[j+1]
		if m > 0 && args[j+1] != 0 {
			v = ((v % m) + m) % m
		}
		out = append(out, v)
	}

	return out
}

// compress replaces maximal arithmetic runs of opcode-1 operations (only the
// last one sampled) by one run operation.
func compress(ops []opx, m int64) []opx {
	var out []opx
	for i := 0; i < len(ops); {
		if ops[i].Op != 1 || ops[i].Sample || i+1 >= len(ops) || ops[i+1].Op != 1 ||
			len(ops[i+1].Args) != len(ops[i].Args) {
			out = append(out, ops[i])
			i++

			continue
		}
		na := len(ops[i].Args)
		run := []int64{0, m}
		for j := 0; j < na; j++ {
			d := ops[i+1].Args[j] - ops[i].Args[j]
			if m > 0 && d != 0 {
				d = ((d % m) + m) % m
				if d > m/2 {
					d -= m
				}
			}
			run = append(run, ops[i].Args[j], d)
		}
		k := i
		for k < len(ops) && ops[k].Op == 1 && len(ops[k].Args) == na {
			want := runArgs(run, int64(k-i))
			same := true
			for j := range want {
				if want[j] != ops[k].Args[j] {
					same = false
				}
			}
			if !same {
				break
			}
			k++
			if ops[k-1].Sample {
				break
			}
		}
		if k-i < 3 {
			out = append(out, ops[i])
			i++

			continue
		}
		run[0] = int64(k - i)
		out = append(out, opx{Op: opRun, Args: run, Sample: ops[k-1].Sample})
		i = k
	}

	return out
}

var compNames = map[int64]string{
	compRL: "nack-receivelog", compRS: "report-receiverstream", compRB: "rtpbuffer", compNG: "nack-generator",
	compAM: "twcc-arrivalmap", compLRU: "cc-feedback-lru", compSL: "rfc8888-streamlog", compSR: "stats-recorder",
	compSI: "stats-interceptor", compJB: "jitterbuffer-interceptor", compFF: "flexfec-encoder", compRC: "gcc-ratecalc",
	compLB: "gcc-leakybucket", compPC: "pacing", compHIST: "rtpfb-history", compGW: "cc-gcc-writers",
	compLBS: "gcc-leakybucket-streams", compPCR: "pacing-rate", compRR: "report-receiver-interceptor",
}

var setNames = map[int64]string{
	compRL: "c12rl", compRS: "c12rs", compRB: "c12rb", compNG: "c12ng", compAM: "c12am", compLRU: "c12lru",
	compSL: "c12sl", compSR: "c12sr", compSI: "c12si", compJB: "c12jb", compFF: "c12ff", compRC: "c12rc",
	compLB: "c12lb", compPC: "c12pc", compHIST: "c12hist", compGW: "c12gw",
	compLBS: "c12lbs", compPCR: "c12pr", compRR: "c12rr",
}

var (
	failMu sync.Mutex
	fails  []cq.ImplFailure
)

func implFail(kind, detail string, c interface{}) {
	failMu.Lock()
	defer failMu.Unlock()
	if len(fails) < 5 {
		fails = append(fails, cq.ImplFailure{Kind: kind, Detail: detail, Case: c})
	}
}

// run drives the real component with the operations of the case.
func run(c c12Case) (out c12Case) {
	out = c
	out.Trace = nil
	defer func() {
		if r := recover(); r != nil {
			implFail("panic", fmt.Sprintf("%s: %v", compNames[c.Comp], r), c)
		}
	}()
	d := newDriver(c.Comp, c.Cfg)
	if d == nil {
		return out
	}
	defer d.close()
	for _, o := range c.Ops {
		var es []entry
		if o.Op == opMark {
			es = d.phaseEnd()
			es = append(es, entry{Op: opMark, Args: []int64{}, Obs: d.sizes()})
		} else if o.Op == opRun {
			for i := int64(0); i < o.Args[0]; i++ {
				d.apply(opx{Op: 1, Args: runArgs(o.Args, i)})
			}
			es = []entry{{Op: opRun, Args: append([]int64{}, o.Args...)}}
			if o.Sample {
				es[0].Obs = d.sizes()
			}
		} else {
			es = d.apply(o)
			if o.Sample && len(es) > 0 {
				es[len(es)-1].Obs = d.sizes()
			}
		}
		out.Trace = append(out.Trace, es...)
	}

	return out
}

func (c c12Case) coq() string {
	var flat []int64
	for _, e := range c.Trace {
		flat = append(flat, e.Op, int64(len(e.Args)))
		flat = append(flat, e.Args...)
		flat = append(flat, int64(len(e.Obs)))
		flat = append(flat, e.Obs...)
	}

	return cq.T(cq.Z(c.Comp), cq.LZ(c.Cfg), cq.LZ(flat))
}

func (c c12Case) toCase(buckets ...string) cq.Case {
	b := append([]string{compNames[c.Comp]}, buckets...)
	js := c
	js.Trace = nil // replay re-runs the implementation on Ops

	return cq.Case{Coq: c.coq(), JSON: js, Buckets: b, Trivial: len(c.Ops) < 10}
}

// ---- workloads ----

// pattern returns the sequence-number offsets of one phase of n packets.
func pattern(r *rand.Rand, kind string, n int) []int64 {
	out := make([]int64, 0, n+n/4)
	switch kind {
	case "inorder":
		for i := 0; i < n; i++ {
			out = append(out, int64(i))
		}
	case "loss":
		p := 0.02 + r.Float64()*0.3
		for i := 0; i < n; i++ {
			if r.Float64() >= p {
				out = append(out, int64(i))
			}
		}
	case "dup":
		for i := 0; i < n; i++ {
			out = append(out, int64(i))
			for r.Intn(4) == 0 {
				out = append(out, int64(i-r.Intn(3)))
			}
		}
	case "reorder":
		for i := 0; i < n; i++ {
			out = append(out, int64(i))
		}
		d := 1 + r.Intn(12)
		for i := 0; i+d < len(out); i += 1 + r.Intn(6) {
			j := i + 1 + r.Intn(d)
			out[i], out[j] = out[j], out[i]
		}
	case "burst":
		for i := 0; i < n; i++ {
			if r.Intn(60) == 0 {
				i += r.Intn(n/4 + 1)
			}
			out = append(out, int64(i))
		}
	default: // mixed
		for i := 0; i < n; i++ {
			switch r.Intn(12) {
			case 0:
			case 1:
				out = append(out, int64(i), int64(i))
			case 2:
				out = append(out, int64(i+2), int64(i))
			default:
				out = append(out, int64(i))
			}
		}
	}
	for i := range out {
		if out[i] < 0 {
			out[i] = 0
		}
	}

	return out
}

var kinds = []string{"inorder", "loss", "dup", "reorder", "burst", "mixed"}

// phased repeats build(phase, pr) `phases` times, each followed by a phase
// mark. pr is re-seeded identically for every phase, so that every phase is
// the same workload (shifted in sequence-number space by the builder).
func phased(r *rand.Rand, phases int, build func(phase int, pr *rand.Rand) []opx) []opx {
	seed := r.Int63()
	var ops []opx
	for p := 0; p < phases; p++ {
		ops = append(ops, build(p, rand.New(rand.NewSource(seed)))...) //nolint:gosec
		ops = append(ops, opx{Op: opMark, Args: []int64{}})
	}

	return ops
}

func sampleEvery(ops []opx, k int) {
	if k < 1 {
		k = 1
	}
	for i := range ops {
		if i%k == k-1 {
			ops[i].Sample = true
		}
	}
}

// seqCase builds a phased case whose packets are opcode 1 with one argument
// (the sequence number) and whose periodic feedback is produced by fb.
func seqCase(r *rand.Rand, comp int64, cfg []int64, kind string, n, phases int, mod int64, fbEvery int,
	fb func(hi int64, i int) []opx,
) c12Case {
	pat := pattern(r, kind, n)
	base := int64(r.Intn(65536))
	if r.Intn(3) == 0 {
		base = 65536 - int64(r.Intn(n+1))
	}
	span := int64(n)
	for _, off := range pat {
		if off >= span {
			span = off + 1
		}
	}
	ops := phased(r, phases, func(p int, _ *rand.Rand) []opx {
		var o []opx
		hi := int64(0)
		cnt := 0
		for _, off := range pat {
			s := base + int64(p)*span + off
			if s > hi {
				hi = s
			}
			if mod > 0 {
				s %= mod
			}
			o = append(o, opx{Op: 1, Args: []int64{s}})
			cnt++
			if fbEvery > 0 && cnt%fbEvery == 0 && fb != nil {
				o = append(o, fb(hi, cnt)...)
			}
		}
		if fbEvery > 0 && fb != nil && cnt%fbEvery != 0 { // the periodic report also runs before the phase ends
			o = append(o, fb(hi, cnt)...)
		}

		return o
	})
	sampleEvery(ops, len(ops)/30)

	return c12Case{Comp: comp, Cfg: cfg, Name: kind, Ops: ops}
}

func main() {
	o := cq.ParseFlags()
	r := o.Rand()
	// one case set (one Coq shard family) per component, all with the same checkers
	sets := map[int64]*cq.Set{}
	var order []*cq.Set
	for comp := int64(1); comp <= compLast; comp++ {
		sets[comp] = &cq.Set{
			Name: setNames[comp], Import: "IV.Check.C12Check", CaseType: "Z * list Z * list Z",
			Checks: []string{"c12_mismatches", "c12_spec_failures"},
		}
		order = append(order, sets[comp])
	}
	if o.Replay != "" {
		var c c12Case
		cq.LoadReplay(o.Replay, &c)
		if st, ok := sets[c.Comp]; ok {
			st.Cases = append(st.Cases, run(c).toCase("replay"))
		}
		cq.Write(o, "replay", order, nil, fails)

		return
	}
	var cases []c12Case
	var buckets [][]string
	add := func(c c12Case, b ...string) {
		m := int64(65536)
		if c.Comp == compAM || c.Comp == compLRU {
			m = 0
		}
		c.Ops = compress(c.Ops, m)
		cases = append(cases, c)
		buckets = append(buckets, append([]string{c.Name}, b...))
	}
	for _, f := range o.CorpusFiles() {
		var c c12Case
		cq.LoadReplay(f, &c)
		add(c, "corpus")
	}
	generate(o, r, add)

	// run the implementation (components are independent: in parallel)
	results := make([]c12Case, len(cases))
	var wg sync.WaitGroup
	sem := make(chan struct{}, 8)
	for i := range cases {
		wg.Add(1)
		sem <- struct{}{}
		go func(i int) {
			defer wg.Done()
			defer func() { <-sem }()
			results[i] = run(cases[i])
		}(i)
	}
	wg.Wait()
	for i, c := range results {
		if st, ok := sets[c.Comp]; ok {
			st.Cases = append(st.Cases, c.toCase(buckets[i]...))
		}
	}
	extra := map[string]interface{}{
		"claim": "entry counts of the retained containers (not heap bytes); collectability after Unbind/Close not modelled",
	}
	if o.Tier == "thorough" {
		extra["long_runs"] = longRuns(o, r)
	}
	cq.Write(o, "history of >= 10 operations over >= 2 phases", order, extra, fails)
}

func generate(o *cq.Opts, r *rand.Rand, add func(c12Case, ...string)) {
	rep := 2 // about 140 histories per round
	if o.Tier == "thorough" {
		rep = 8
	}
	if o.N > 0 {
		rep = 1 + o.N/150
	}
	for k := 0; k < rep; k++ {
		for _, kind := range kinds {
			n := 150 + r.Intn(250)
			// fixed bitmaps
			size := int64(64 << uint(r.Intn(10)))
			add(seqCase(r, compRL, []int64{size}, kind, n, 4, 65536, 0, nil))
			add(seqCase(r, compRS, []int64{}, kind, n, 4, 65536, 50, func(int64, int) []opx {
				return []opx{{Op: 2, Args: []int64{0}}}
			}))
			// rtp buffer (phases longer than the ring, so that the first phase fills it)
			for _, sz := range []int64{1, 8, 64} {
				add(seqCase(r, compRB, []int64{sz}, kind, n, 4, 65536, 0, nil), fmt.Sprintf("size%d", sz))
			}
			add(seqCase(r, compRB, []int64{1024}, kind, n, 2, 65536, 0, nil), "size1024", "filling")
			add(rbJumps(r), "jumps")
			// arrival map
			add(amCase(r, kind, n, 0), "nofeedback")
			add(amCase(r, kind, n, 20+r.Intn(100)), "feedback")
			// LRU (phases longer than its 250 entries)
			add(lruCase(r, kind, 300+n))
			// stream log: budgets that a phase exceeds, so that the first phase reaches the steady state
			for _, mx := range []int64{0, 7, 100} {
				add(seqCase(r, compSL, []int64{}, kind, n, 4, 65536, 10+r.Intn(120), func(int64, int) []opx {
					return []opx{{Op: 2, Args: []int64{mx}, Sample: true}}
				}), fmt.Sprintf("budget%d", mx))
			}
			for _, mx := range []int64{594, 16384} { // still filling: bound and correspondence only (2 phases)
				add(seqCase(r, compSL, []int64{}, kind, n, 2, 65536, 10+r.Intn(120), func(int64, int) []opx {
					return []opx{{Op: 2, Args: []int64{mx}, Sample: true}}
				}), fmt.Sprintf("budget%d", mx), "filling")
			}
			// jitter buffer
			add(jbCase(r, kind, n))
			// rtpfb history
			add(histCase(r, kind, n, 20+r.Intn(80), true), "twcc", "feedback")
			add(histCase(r, kind, n, 20+r.Intn(80), false), "ccfb", "feedback")
			add(histRtxCase(r, kind, n, 10+r.Intn(40), false, true), "ccfb", "feedback", "retransmission", "lag")
			add(histRtxCase(r, kind, n, 10+r.Intn(40), k%2 == 1, k%2 == 1), "feedback", "retransmission")
			// flexfec batches that are not consecutive / no repair packets asked for
			add(ffSeqCase(r, kind, int64(2+r.Intn(9)), int64(r.Intn(3))), "sequence")
		}
		add(seqCase(r, compRB, []int64{1024}, "inorder", 1500, 4, 65536, 0, nil), "size1024", "long")
		add(amCase(r, "inorder", 2500, 1000), "large")
		add(amCase(r, "burst", 2500, 1000), "large")
		add(histCase(r, "inorder", 300, 0, true), "twcc", "nofeedback")
		add(histCase(r, "inorder", 300, 0, false), "ccfb", "nofeedback")
		add(srCase(r))
		add(siCase(r, true), "unbind")
		add(siCase(r, false), "bindonly")
		add(siRandCase(r), "unbind", "random")
		add(siCloseCase(r), "unbind", "close")
		for _, nm := range []int64{1, 2, 5, 10} {
			add(ffCase(r, nm), fmt.Sprintf("media%d", nm))
		}
		for _, pacer := range []int64{0, 1} { // leaky bucket, NoOp pacer
			add(gwCase(r, pacer, true), fmt.Sprintf("pacer%d", pacer), "churn")
			add(gwCase(r, pacer, false), fmt.Sprintf("pacer%d", pacer), "random")
		}
		add(fqCloseCase(r), "mode1", "close")
		for _, mode := range []int64{0, 1} {
			add(fqCase(r, compLB, mode), fmt.Sprintf("mode%d", mode))
			add(fqCase(r, compPC, mode), fmt.Sprintf("mode%d", mode))
		}
		// the pacers in the regime where they must drain: leaky bucket with several streams (streams
		// removed / never added / failing while their packets are queued), directly and through the
		// cc interceptor; pacing interceptor with the real limiter and SetRate
		for _, via := range []int64{0, 1} {
			for _, variant := range lbsVariants {
				add(lbsCase(r, via, variant), fmt.Sprintf("via%d", via), "mode1")
			}
		}
		for _, variant := range pcrVariants {
			add(pcrCase(r, variant), "mode1")
		}
		// round 5: the leaky bucket at target bitrates where one 5 ms tick alone has no budget (below
		// 1600 bit/s) and around that threshold, with arrivals slower than the pacer drains; the
		// receiver-report interceptor with sender reports of SSRCs that are not (or no longer) bound
		for i, variant := range lbtVariants {
			add(lbtCase(r, int64((i+k)%2), variant), fmt.Sprintf("via%d", (i+k)%2), "mode1", "lowrate")
		}
		for _, variant := range rrVariants {
			add(rrCase(r, variant), "senderreports")
		}
		for _, mx := range []int64{0, 1, 65535} {
			for _, kind := range []string{"loss", "mixed", "burst"} {
				add(ngCase(r, kind, mx), fmt.Sprintf("max%d", mx))
			}
		}
		add(rcCase(r, true), "monotone")
	}
}

// ---- thorough tier: 10^6-packet phases on the implementation only ----

type longResult struct {
	Component string    `json:"component"`
	Workload  string    `json:"workload"`
	Sizes     [][]int64 `json:"sizes_at_phase_ends"`
	HeapAlloc []uint64  `json:"heap_alloc_after_gc"`
	Verdict   string    `json:"verdict"`
}

func heap() uint64 {
	runtime.GC()
	runtime.GC()
	var m runtime.MemStats
	runtime.ReadMemStats(&m)

	return m.HeapAlloc
}

// longRuns drives each component that is claimed bounded with four phases of
// 10^6 packets and checks, on the implementation, that the sizes at the phase
// ends do not grow; HeapAlloc after forced GC is supporting evidence only.
func longRuns(o *cq.Opts, r *rand.Rand) []longResult {
	n := 1000000
	if v := os.Getenv("C12_LONG_N"); v != "" {
		fmt.Sscan(v, &n) //nolint:errcheck
	}
	var res []longResult
	type job struct {
		comp int64
		cfg  []int64
		kind string
		fb   func(hi int64, i int) []opx
		mod  int64
	}
	jobs := []job{
		{compRL, []int64{512}, "mixed", nil, 65536},
		{compRS, nil, "mixed", nil, 65536},
		{compRB, []int64{1024}, "mixed", nil, 65536},
		{compLRU, nil, "mixed", nil, 65536},
		{compSL, nil, "mixed", func(int64, int) []opx { return []opx{{Op: 2, Args: []int64{594}}} }, 65536},
		{compJB, nil, "inorder", nil, 65536},
		{compAM, nil, "loss", nil, 0},
	}
	for _, j := range jobs {
		d := newDriver(j.comp, j.cfg)
		lr := longResult{Component: compNames[j.comp], Workload: j.kind}
		pat := pattern(r, j.kind, 10000)
		base := int64(r.Intn(65536))
		cnt := 0
		for p := 0; p < 4; p++ {
			for q := 0; q < n/10000; q++ {
				for _, off := range pat {
					s := base + off
					if j.mod > 0 {
						s %= j.mod
					}
					if j.comp == compAM {
						d.apply(opx{Op: 1, Args: []int64{s, int64(cnt) * 1000}})
						if cnt%100 == 99 {
							d.apply(opx{Op: 3, Args: []int64{s, int64(cnt)*1000 - 500000}})
						}
					} else {
						d.apply(opx{Op: 1, Args: []int64{s}})
					}
					cnt++
					if j.fb != nil && cnt%100 == 0 {
						for _, f := range j.fb(s, cnt) {
							d.apply(f)
						}
					}
				}
				base += 10000
			}
			lr.Sizes = append(lr.Sizes, d.sizes())
			lr.HeapAlloc = append(lr.HeapAlloc, heap())
		}
		lr.Verdict = "no growth"
		for i := range lr.Sizes[1] {
			if j.comp == compAM && i > 0 {
				continue // begin/end are positions, not sizes
			}
			if lr.Sizes[1][i] < lr.Sizes[2][i] && lr.Sizes[2][i] < lr.Sizes[3][i] {
				lr.Verdict = "GROWTH"
				implFail("growth-"+compNames[j.comp], fmt.Sprintf("sizes at phase ends %v", lr.Sizes), lr)
			}
		}
		d.close()
		res = append(res, lr)
	}
	// rtpfb history with periodic feedback
	{
		d := newDriver(compHIST, nil)
		lr := longResult{Component: compNames[compHIST], Workload: "twcc, feedback every 100 packets"}
		cnt := int64(0)
		for p := 0; p < 4; p++ {
			for i := 0; i < n; i++ {
				d.apply(opx{Op: 1, Args: []int64{7, cnt % 65536, 1, cnt % 65536}})
				cnt++
				if cnt%100 == 0 {
					for k := cnt - 100; k < cnt; k++ {
						d.apply(opx{Op: 2, Args: []int64{k % 65536, 1}})
					}
					d.apply(opx{Op: 4, Args: []int64{0}})
				}
			}
			lr.Sizes = append(lr.Sizes, d.sizes())
			lr.HeapAlloc = append(lr.HeapAlloc, heap())
		}
		lr.Verdict = "no growth"
		for i := range lr.Sizes[1] {
			if lr.Sizes[1][i] < lr.Sizes[2][i] && lr.Sizes[2][i] < lr.Sizes[3][i] {
				lr.Verdict = "GROWTH"
				implFail("growth-"+compNames[compHIST], fmt.Sprintf("sizes at phase ends %v", lr.Sizes), lr)
			}
		}
		d.close()
		res = append(res, lr)
	}
	sort.Slice(res, func(i, j int) bool { return res[i].Component < res[j].Component })
	if os.Getenv("C12_VERBOSE") != "" {
		for _, l := range res {
			fmt.Fprintf(os.Stderr, "%+v\n", l)
		}
	}

	return res
}

var _ = time.Now
