// Generator for C04: NACK responder (RTPBuffer, PacketFactoryCopy, ResponderInterceptor).
//
// Three case sets, all produced by running the real implementation:
//
//	c04buf  - RTPBuffer.Add/Get/Clear through its own API
//	c04pf   - PacketFactoryCopy.NewPacket (RTX rewriting, padding, errors)
//	c04resp - the responder interceptor through its public API
//
// plus a short concurrent stress (Write || NACK || Unbind/rebind) whose
// content oracle is evaluated here in Go and reported as impl_failures.
package main

import (
	"errors"
	"fmt"
	"io"
	"math/rand"
	"runtime"
	"strings"
	"sync"
	"time"

	"github.com/pion/interceptor"
	"github.com/pion/interceptor/pkg/nack"
	"github.com/pion/interceptor/pkg/verifhooks"
	"github.com/pion/rtcp"
	"github.com/pion/rtp"

	"verifharness/internal/cq"
)

// ---------- shared projections ----------

type extJ struct {
	ID int   `json:"id"`
	P  []int `json:"p"`
}

type hdrJ struct {
	Pad     bool    `json:"pad"`
	PadSize int     `json:"padsize"`
	Marker  bool    `json:"m"`
	PT      int     `json:"pt"`
	Seq     int     `json:"seq"`
	TS      int64   `json:"ts"`
	SSRC    int64   `json:"ssrc"`
	CSRC    []int64 `json:"csrc"`
	Ext     bool    `json:"ext"`  // Header.Extension
	Prof    int     `json:"prof"` // Header.ExtensionProfile
	Xs      []extJ  `json:"xs"`   // Header.Extensions in slice order (distinct ids)
}

func (h hdrJ) rtp() *rtp.Header {
	out := &rtp.Header{
		Version: 2, Padding: h.Pad, Marker: h.Marker, PayloadType: uint8(h.PT), //nolint:gosec
		SequenceNumber: uint16(h.Seq), Timestamp: uint32(h.TS), SSRC: uint32(h.SSRC), //nolint:gosec
		PaddingSize: byte(h.PadSize), //nolint:gosec
	}
	for _, c := range h.CSRC {
		out.CSRC = append(out.CSRC, uint32(c)) //nolint:gosec
	}
	if h.Ext {
		out.Extension = true
		out.ExtensionProfile = uint16(h.Prof) //nolint:gosec
		for _, x := range h.Xs {
			if err := out.SetExtension(uint8(x.ID), bytesOf(x.P, false)); err != nil { //nolint:gosec
				panic("generator produced an invalid header extension: " + err.Error())
			}
		}
	}

	return out
}

// scribble is the caller re-using its header object and payload buffer right
// after Write/NewPacket returned: every scalar field, the CSRC entries and the
// extension payload bytes are rewritten IN PLACE, then an extension is
// replaced and one removed through the API on the same header object (both
// write into the caller's Extensions array), and CSRC[0] is overwritten
// through a re-slice.  A stored packet that shares any of this with the
// caller's header retransmits the rewritten values.
func scribble(h *rtp.Header, p []byte) {
	for k := range p {
		p[k] ^= 0xA5
	}
	h.SequenceNumber ^= 0x5A5A
	h.Timestamp = ^h.Timestamp
	h.SSRC ^= 0x00F0F0F0
	h.PayloadType ^= 0x2A
	h.Marker = !h.Marker
	h.Padding = !h.Padding
	h.PaddingSize ^= 0x3C
	for k := range h.CSRC {
		h.CSRC[k] = ^h.CSRC[k]
	}
	ids := h.GetExtensionIDs()
	for _, id := range ids {
		ext := h.GetExtension(id)
		for k := range ext {
			ext[k] ^= 0xFF
		}
	}
	if len(ids) > 0 {
		_ = h.SetExtension(ids[0], []byte{0xEE, 0xEE})
	}
	if len(ids) > 1 {
		_ = h.DelExtension(ids[0])
	}
	if cap(h.CSRC) > 0 {
		h.CSRC = append(h.CSRC[:0], 0xEEEEEEEE)
	}
	h.ExtensionProfile ^= 0x0101
	h.Extension = !h.Extension
}

func projHdr(h *rtp.Header) hdrJ {
	out := hdrJ{
		Pad: h.Padding, PadSize: int(h.PaddingSize), Marker: h.Marker, PT: int(h.PayloadType),
		Seq: int(h.SequenceNumber), TS: int64(h.Timestamp), SSRC: int64(h.SSRC), CSRC: []int64{},
		Ext: h.Extension, Prof: int(h.ExtensionProfile), Xs: []extJ{},
	}
	for _, c := range h.CSRC {
		out.CSRC = append(out.CSRC, int64(c))
	}
	for _, id := range h.GetExtensionIDs() {
		out.Xs = append(out.Xs, extJ{ID: int(id), P: ints(h.GetExtension(id))})
	}

	return out
}

func (h hdrJ) coq() string {
	xs := make([]string, len(h.Xs))
	for i, x := range h.Xs {
		xs[i] = cq.T(cq.Z(int64(x.ID)), coqInts(x.P))
	}

	return cq.C("mkH", cq.B(h.Pad), cq.Z(int64(h.PadSize)), cq.B(h.Marker), cq.Z(int64(h.PT)), cq.Z(int64(h.Seq)),
		cq.Z(h.TS), cq.Z(h.SSRC), cq.LZ(h.CSRC), cq.T(cq.B(h.Ext), cq.Z(int64(h.Prof)), cq.L(xs)))
}

func ints(b []byte) []int {
	out := make([]int, len(b))
	for i, x := range b {
		out[i] = int(x)
	}

	return out
}

func bytesOf(p []int, isNil bool) []byte {
	if isNil {
		return nil
	}
	out := make([]byte, len(p))
	for i, x := range p {
		out[i] = byte(x) //nolint:gosec
	}

	return out
}

func coqInts(p []int) string {
	s := make([]string, len(p))
	for i, x := range p {
		s[i] = fmt.Sprintf("%d", x)
	}

	return cq.L(s)
}

func errCode(err error) int {
	switch {
	case err == nil:
		return 0
	case errors.Is(err, io.ErrShortBuffer):
		return 1
	case strings.Contains(err.Error(), "padding size exceeds payload size"):
		return 2
	default:
		return 9
	}
}

// ---------- c04buf ----------

type bufOp struct {
	K   string `json:"k"` // add | get | clear
	Seq int    `json:"seq"`
	ID  int64  `json:"id"`
}

type bufCase struct {
	Size    int        `json:"size"`
	Created bool       `json:"created"`
	Ops     []bufOp    `json:"ops"`
	Outs    [][2]int64 `json:"outs"`  // per op; Found says whether meaningful
	Found   []bool     `json:"found"` // per op: Get returned a packet
}

func runBuf(size int, ops []bufOp) bufCase {
	c := bufCase{Size: size, Ops: ops}
	if size < 0 || size > 65535 {
		return c
	}
	b, err := verifhooks.NewRTPBuffer(uint16(size)) //nolint:gosec
	c.Created = err == nil
	if err != nil {
		c.Ops = nil

		return c
	}
	f := &verifhooks.PacketFactoryNoOp{}
	for _, o := range ops {
		var out [2]int64
		found := false
		switch o.K {
		case "add":
			p, _ := f.NewPacket(&rtp.Header{SequenceNumber: uint16(o.Seq), Timestamp: uint32(o.ID)}, nil, 0, 0) //nolint:gosec
			b.Add(p)
		case "get":
			if p := b.Get(uint16(o.Seq)); p != nil { //nolint:gosec
				found = true
				out = [2]int64{int64(p.Header().SequenceNumber), int64(p.Header().Timestamp)}
				p.Release()
			}
		default:
			b.Clear()
		}
		c.Outs = append(c.Outs, out)
		c.Found = append(c.Found, found)
	}

	return c
}

func (c bufCase) toCase(buckets ...string) cq.Case {
	steps := make([]string, len(c.Ops))
	gets, hits := 0, 0
	for i, o := range c.Ops {
		out := cq.None
		if c.Found[i] {
			out = cq.Some(cq.T(cq.Z(c.Outs[i][0]), cq.Z(c.Outs[i][1])))
			hits++
		}
		switch o.K {
		case "add":
			steps[i] = cq.T(cq.C("BAdd", cq.Z(int64(o.Seq)), cq.Z(o.ID)), out)
		case "get":
			gets++
			steps[i] = cq.T(cq.C("BGet", cq.Z(int64(o.Seq))), out)
		default:
			steps[i] = cq.T("BClear", out)
		}
	}
	if hits > 0 {
		buckets = append(buckets, "get-hit")
	}
	if gets > hits {
		buckets = append(buckets, "get-miss")
	}

	return cq.Case{
		Coq:  cq.T(cq.Z(int64(c.Size)), cq.B(c.Created), cq.L(steps)),
		JSON: c, Buckets: buckets, Trivial: c.Created && (hits == 0 || len(c.Ops) < 3),
	}
}

var validSizes = []int{1, 2, 4, 8, 16, 32, 64, 128, 256, 512, 1024, 2048, 4096, 8192, 16384, 32768}

func pickSize(r *rand.Rand) int {
	switch r.Intn(10) {
	case 0, 1, 2:
		return []int{1, 2, 4}[r.Intn(3)]
	case 3, 4, 5:
		return []int{8, 16, 32, 64}[r.Intn(4)]
	case 6:
		return []int{16384, 32768}[r.Intn(2)]
	default:
		return validSizes[r.Intn(len(validSizes))]
	}
}

// seqWalk produces send orders: in-order, gaps, late, beyond the window,
// duplicates, jumps around size and 2^15, wrap-around.
type seqWalk struct {
	hi   int // highest sent (16 bit)
	size int
	any  bool
}

func newWalk(r *rand.Rand, size int) *seqWalk {
	w := &seqWalk{size: size}
	switch r.Intn(4) {
	case 0:
		w.hi = 65536 - 1 - r.Intn(12)
	case 1:
		w.hi = r.Intn(12)
	case 2:
		w.hi = 32768 - 6 + r.Intn(12)
	default:
		w.hi = r.Intn(65536)
	}

	return w
}

func (w *seqWalk) next(r *rand.Rand) (int, string) {
	if !w.any {
		w.any = true

		return w.hi, "first"
	}
	var s int
	b := ""
	adv := true
	switch k := r.Intn(100); {
	case k < 45:
		s, b = w.hi+1, "inorder"
	case k < 58:
		s, b = w.hi+2+r.Intn(4), "gap"
	case k < 70: // late, inside the window
		d := 1 + r.Intn(w.size+1)
		if d >= w.size {
			d = w.size - 1
		}
		s, b, adv = w.hi-d, "late-in-window", false
	case k < 80: // late, at or beyond the window edge
		s, b, adv = w.hi-w.size-r.Intn(3)*w.size-r.Intn(3), "late-beyond-window", false
	case k < 85:
		s, b, adv = w.hi, "dup-highest", false
	case k < 91: // jump about one window
		s, b = w.hi+w.size-1+r.Intn(3), "jump-size"
	case k < 95: // jump near half range
		s, b = w.hi+32766+r.Intn(4), "jump-half"
	case k < 97:
		s, b, adv = w.hi-32766-r.Intn(4), "back-half", false
	default:
		s, b = r.Intn(65536), "random"
		adv = (s-w.hi)&0xFFFF < 32768
	}
	s &= 0xFFFF
	if adv && (s-w.hi)&0xFFFF < 32768 {
		if s < w.hi {
			b += "+wrap"
		}
		w.hi = s
	}

	return s, b
}

func (w *seqWalk) request(r *rand.Rand) int {
	var s int
	switch k := r.Intn(100); {
	case k < 35:
		s = w.hi - r.Intn(w.size+2)
	case k < 50:
		s = w.hi - w.size + 1 - r.Intn(3) + r.Intn(3)
	case k < 60:
		s = w.hi + r.Intn(3)
	case k < 70:
		s = w.hi - r.Intn(8)
	case k < 80:
		s = w.hi - 32768 + r.Intn(5) - 2
	case k < 90:
		s = w.hi - r.Intn(3)*w.size - r.Intn(4)
	default:
		s = r.Intn(65536)
	}

	return s & 0xFFFF
}

func genBuf(r *rand.Rand) cq.Case {
	size := pickSize(r)
	w := newWalk(r, size)
	n := 5 + r.Intn(70)
	ops := make([]bufOp, 0, n)
	bk := map[string]bool{fmt.Sprintf("size=%d", size): true}
	id := int64(1)
	for i := 0; i < n; i++ {
		switch k := r.Intn(100); {
		case k < 55:
			s, b := w.next(r)
			ops = append(ops, bufOp{K: "add", Seq: s, ID: id})
			bk[b] = true
			id++
		case k < 97:
			ops = append(ops, bufOp{K: "get", Seq: w.request(r)})
		default:
			ops = append(ops, bufOp{K: "clear"})
			bk["clear"] = true
			w.any = false
		}
	}
	bs := []string{}
	for k := range bk {
		bs = append(bs, k)
	}

	return runBuf(size, ops).toCase(bs...)
}

// ---------- c04pf ----------

type pfCall struct {
	H   hdrJ  `json:"h"`
	P   []int `json:"p"`
	Nil bool  `json:"nil"`
	RS  int64 `json:"rtxssrc"`
	RPT int   `json:"rtxpt"`
}

type pfOut struct {
	Code int   `json:"code"`
	Seq  int   `json:"seq"`
	H    hdrJ  `json:"h"`
	P    []int `json:"p"`
}

type pfCase struct {
	Start int      `json:"start"`
	Calls []pfCall `json:"calls"`
	Outs  []pfOut  `json:"outs"`
}

func runPF(start int, calls []pfCall) pfCase {
	c := pfCase{Start: start, Calls: calls}
	f := verifhooks.NewPacketFactoryCopyFixedRTX(uint16(start)) //nolint:gosec
	for _, cl := range calls {
		hdr, pay := cl.H.rtp(), bytesOf(cl.P, cl.Nil)
		p, err := f.NewPacket(hdr, pay, uint32(cl.RS), uint8(cl.RPT)) //nolint:gosec
		scribble(hdr, pay) // the stored packet is observed after the caller has re-used its header and buffer
		o := pfOut{Code: errCode(err), H: hdrJ{CSRC: []int64{}, Xs: []extJ{}}, P: []int{}}
		if err == nil {
			o.Seq = int(p.VerifSequenceNumber())
			o.H = projHdr(p.Header())
			o.P = ints(p.Payload())
			if rand.Intn(2) == 0 { //nolint:gosec // recycle some buffers through the pool
				p.Release()
			}
		}
		c.Outs = append(c.Outs, o)
	}

	return c
}

func (c pfCase) toCase(buckets ...string) cq.Case {
	steps := make([]string, len(c.Calls))
	for i, cl := range c.Calls {
		o := c.Outs[i]
		steps[i] = cq.T(cq.T(cl.H.coq(), coqInts(cl.P), cq.Z(cl.RS), cq.Z(int64(cl.RPT))),
			cq.T(cq.Z(int64(o.Code)), cq.Z(int64(o.Seq)), o.H.coq(), coqInts(o.P)))
		if o.Code != 0 {
			buckets = append(buckets, fmt.Sprintf("err=%d", o.Code))
		}
	}

	return cq.Case{Coq: cq.T(cq.Z(int64(c.Start)), cq.L(steps)), JSON: c, Buckets: buckets}
}

// genPacket draws a header + payload: lengths {0,1,..,1458..1461}, both padding conventions.
func genPacket(r *rand.Rand, ssrc int64, seq int, bk map[string]bool, allowLong bool) (hdrJ, []int, bool) {
	h := hdrJ{PT: 96 + r.Intn(3), Seq: seq, TS: int64(r.Uint32()), SSRC: ssrc, Marker: r.Intn(4) == 0, CSRC: []int64{}}
	if r.Intn(3) == 0 {
		h.CSRC = []int64{int64(r.Uint32()), 7, int64(r.Uint32()), 0xFFFFFFFF}[:1+r.Intn(4)]
		bk["csrc"] = true
	}
	genExt(r, &h, bk)
	var n int
	switch k := r.Intn(100); {
	case k < 12:
		n = 0
	case k < 22:
		n = 1
	case k < 30:
		n = 2
	case k < 97 || !allowLong:
		n = 3 + r.Intn(9)
	default:
		n = 1458 + r.Intn(4)
		bk[fmt.Sprintf("len=%d", n)] = true
	}
	if n <= 2 {
		bk[fmt.Sprintf("len=%d", n)] = true
	}
	p := make([]int, n)
	for i := range p {
		p[i] = r.Intn(256)
	}
	isNil := n == 0 && r.Intn(2) == 0
	if isNil {
		bk["payload-nil"] = true
	}
	switch k := r.Intn(100); {
	case k < 52:
	case k < 55: // inconsistent header: PaddingSize without the Padding flag
		h.PadSize = 1 + r.Intn(255)
		bk["padsize-without-flag"] = true
	case k < 85: // old convention: count in the last payload byte
		h.Pad = true
		bk["pad-old"] = true
		if n > 0 {
			cands := []int{0, 1, 2, n - 1, n, n + 1, n + 2, n + 3, 255, r.Intn(n + 1)}
			v := cands[r.Intn(len(cands))]
			if v < 0 {
				v = 0
			}
			if v > 255 {
				v = 255
			}
			p[n-1] = v
			switch {
			case v > n:
				bk["pad-old-overflow"] = true
			case v == n:
				bk["pad-old-whole-payload"] = true
			}
		} else {
			bk["pad-old-empty-payload"] = true
		}
	default: // new convention: Header.PaddingSize
		h.Pad = true
		h.PadSize = 1 + r.Intn(255)
		bk["pad-new"] = true
	}

	return h, p, isNil
}

// genExt draws header extensions: RFC 8285 one-byte (ids 1..14, 0..16 bytes), two-byte (ids 1..255, 0..255
// bytes), RFC 3550 (id 0, any profile), or the flag with an empty list.
func genExt(r *rand.Rand, h *hdrJ, bk map[string]bool) {
	h.Xs = []extJ{}
	rb := func(n int) []int {
		p := make([]int, n)
		for i := range p {
			p[i] = r.Intn(256)
		}

		return p
	}
	distinct := func(n, lo, hi int) []int {
		seen := map[int]bool{}
		var ids []int
		for len(ids) < n {
			id := lo + r.Intn(hi-lo+1)
			if !seen[id] {
				seen[id] = true
				ids = append(ids, id)
			}
		}

		return ids
	}
	switch k := r.Intn(100); {
	case k < 55:
	case k < 75:
		h.Ext, h.Prof = true, 0xBEDE
		for _, id := range distinct(1+r.Intn(3), 1, 14) {
			h.Xs = append(h.Xs, extJ{ID: id, P: rb([]int{0, 1, 2, 3, 8, 16, 1 + r.Intn(16)}[r.Intn(7)])})
		}
		bk["ext-one-byte"] = true
	case k < 90:
		h.Ext, h.Prof = true, 0x1000
		for _, id := range distinct(1+r.Intn(3), 1, 255) {
			h.Xs = append(h.Xs, extJ{ID: id, P: rb([]int{0, 1, 17, 40, 255, r.Intn(60)}[r.Intn(6)])})
		}
		bk["ext-two-byte"] = true
	case k < 96:
		h.Ext, h.Prof = true, []int{0x1234, 0, 0xFFFF}[r.Intn(3)]
		h.Xs = append(h.Xs, extJ{ID: 0, P: rb(4 * r.Intn(4))})
		bk["ext-rfc3550"] = true
	default:
		h.Ext, h.Prof = true, 0xBEDE
		bk["ext-flag-only"] = true
	}
}

func genPF(r *rand.Rand) cq.Case {
	n := 1 + r.Intn(6)
	bk := map[string]bool{}
	calls := make([]pfCall, 0, n)
	start := r.Intn(65536)
	if r.Intn(4) == 0 {
		start = 65535 - r.Intn(3)
	}
	for i := 0; i < n; i++ {
		seq := r.Intn(65536)
		if r.Intn(3) == 0 {
			seq = []int{0, 1, 2, 3, 255, 256, 257, 258, 65535}[r.Intn(9)]
		}
		h, p, isNil := genPacket(r, 1000, seq, bk, true)
		cl := pfCall{H: h, P: p, Nil: isNil}
		switch r.Intn(6) {
		case 0:
			bk["rtx-off"] = true
		case 1:
			cl.RS = 2000
			bk["rtx-half"] = true
		case 2:
			cl.RPT = 97
			bk["rtx-half"] = true
		default:
			cl.RS, cl.RPT = 2000+int64(r.Intn(3)), 97+r.Intn(3)
			bk["rtx-on"] = true
		}
		calls = append(calls, cl)
	}
	bs := []string{}
	for k := range bk {
		bs = append(bs, k)
	}

	return runPF(start, calls).toCase(bs...)
}

// ---------- c04resp ----------

type infoJ struct {
	SSRC    int64 `json:"ssrc"`
	RTXSSRC int64 `json:"rtxssrc"`
	RTXPT   int   `json:"rtxpt"`
	// Nack: the generator's intention (generic NACK is somewhere in the feedback list). Replay files written
	// before round 5 have only this flag; they get the two feedback lists used then (feedback()).
	Nack bool `json:"nack"`
	// FB is the RTCPFeedback list handed to the interceptor, (Type, Parameter) per entry, when FBSet.
	FB    [][2]string `json:"fb,omitempty"`
	FBSet bool        `json:"fbset,omitempty"`
	// Misc != 0: the StreamInfo fields the responder has no business reading are filled in (derived from Misc).
	Misc int64 `json:"misc,omitempty"`
}

// feedback is the RTCPFeedback list of the stream as (Type, Parameter) pairs.
func (i infoJ) feedback() [][2]string {
	switch {
	case i.FBSet:
		return i.FB
	case i.Nack:
		return [][2]string{{"goog-remb", ""}, {"nack", ""}}
	default:
		return [][2]string{{"nack", "pli"}}
	}
}

// fbFillers: feedback entries that are NOT generic NACK (RFC 4585 "nack" without parameter): the parameterised
// nack forms, other feedback types, and strings that merely resemble "nack".
var fbFillers = [][2]string{ //nolint:gochecknoglobals
	{"nack", "pli"}, {"nack", "sli"}, {"nack", "rpsi"}, {"nack", "app"}, {"nack", " "}, {"nack", "nack"},
	{"ccm", "fir"}, {"ccm", "tmmbr"}, {"goog-remb", ""}, {"transport-cc", ""}, {"ack", ""}, {"ack", "rpsi"},
	{"", ""}, {"", "nack"}, {"nac", ""}, {"nackk", ""}, {"nack ", ""}, {" nack", ""}, {"pli", "nack"}, {"trr-int", "100"},
}

// genFeedback draws a feedback list. want: generic NACK is negotiated - the entry {nack, ""} is put at a random
// position of the list (alone, first, in the middle, last; now and then twice), whatever else the list holds.
func genFeedback(r *rand.Rand, want bool, bk map[string]bool) [][2]string {
	nf := 0
	switch r.Intn(6) {
	case 0:
	case 1, 2:
		nf = 1
	case 3:
		nf = 2
	default:
		nf = 2 + r.Intn(4)
	}
	fbs := make([][2]string, 0, nf+2)
	for k := 0; k < nf; k++ {
		if r.Intn(2) == 0 {
			fbs = append(fbs, fbFillers[r.Intn(6)]) // a parameterised nack
		} else {
			fbs = append(fbs, fbFillers[r.Intn(len(fbFillers))])
		}
	}
	if !want {
		switch {
		case len(fbs) == 0 && r.Intn(2) == 0:
			bk["fb-nil"] = true

			return nil
		case len(fbs) == 0:
			bk["fb-empty"] = true
		default:
			bk["fb-without-generic-nack"] = true
		}

		return fbs
	}
	ins := func() {
		at := r.Intn(len(fbs) + 1)
		switch r.Intn(3) {
		case 0:
			at = 0
		case 1:
			at = len(fbs)
		}
		fbs = append(fbs, [2]string{})
		copy(fbs[at+1:], fbs[at:])
		fbs[at] = [2]string{"nack", ""}
	}
	ins()
	if r.Intn(8) == 0 {
		ins()
		bk["fb-generic-nack-twice"] = true
	}
	first := -1
	for k, f := range fbs {
		if f == [2]string{"nack", ""} {
			first = k

			break
		}
	}
	switch {
	case len(fbs) == 1:
		bk["fb-generic-nack-alone"] = true
	case first == 0:
		bk["fb-generic-nack-first"] = true
	default:
		bk["fb-generic-nack-after-others"] = true
	}
	for _, f := range fbs[:first] {
		if f[0] == "nack" {
			bk["fb-generic-nack-after-parameterised-nack"] = true
		}
	}

	return fbs
}

type respOp struct {
	K     string   `json:"k"` // bind | write | nack | unbind | close
	Info  infoJ    `json:"info"`
	W     int      `json:"w"`
	Hid   int      `json:"hid"`
	H     hdrJ     `json:"h"`
	P     []int    `json:"p"`
	Nil   bool     `json:"nil"`
	SSRC  int64    `json:"media"`
	Pairs [][2]int `json:"pairs"`
	Extra bool     `json:"extra"` // a receiver report precedes the NACK in the compound
	// further TransportLayerNack packets in the same compound (one resend goroutine each, running concurrently)
	More []nackJ `json:"more,omitempty"`
	// the downstream writers return an error for every packet while this NACK is being answered
	FailW bool `json:"failw,omitempty"`
}

type nackJ struct {
	SSRC  int64    `json:"media"`
	Pairs [][2]int `json:"pairs"`
}

type emitJ struct {
	W   int    `json:"w"`
	H   hdrJ   `json:"h"`
	P   []int  `json:"p"`
	gid uint64 // goroutine that called the downstream writer
}

type respOut struct {
	Code  int     `json:"code"`
	Emits []emitJ `json:"emits"`
	// compound with several NACKs: the downstream writes grouped by calling goroutine (order of first write)
	Groups [][]emitJ `json:"groups,omitempty"`
}

type respCase struct {
	Size  int  `json:"size"`
	Copy  bool `json:"copy"`
	Start int  `json:"start"`
	// Flt: 0 no ResponderStreamsFilter option (default filter streamSupportNack), 1 a filter accepting every
	// stream, 2 a filter rejecting every stream
	Flt   int       `json:"flt,omitempty"`
	Ops   []respOp  `json:"ops"`
	Outs  []respOut `json:"outs"`
}

type recorder struct {
	mu      sync.Mutex
	emits   []emitJ
	failing bool // the downstream transport is failing: every Write returns an error (after being recorded)
}

var errDownstream = errors.New("downstream writer failed")

// goid is the id of the calling goroutine ("goroutine 123 [running]:...").
func goid() uint64 {
	var buf [64]byte
	n := runtime.Stack(buf[:], false)
	var id uint64
	for _, c := range buf[len("goroutine "):n] {
		if c < '0' || c > '9' {
			break
		}
		id = id*10 + uint64(c-'0')
	}

	return id
}

func (rc *recorder) writer(wid int) interceptor.RTPWriter {
	return interceptor.RTPWriterFunc(func(h *rtp.Header, p []byte, _ interceptor.Attributes) (int, error) {
		g := goid()
		rc.mu.Lock()
		rc.emits = append(rc.emits, emitJ{W: wid, H: projHdr(h), P: ints(p), gid: g})
		failing := rc.failing
		rc.mu.Unlock()
		if failing {
			return 0, errDownstream
		}

		return len(p), nil
	})
}

func (rc *recorder) setFailing(b bool) {
	rc.mu.Lock()
	rc.failing = b
	rc.mu.Unlock()
}

func groupByGoroutine(es []emitJ) [][]emitJ {
	idx := map[uint64]int{}
	out := [][]emitJ{}
	for _, e := range es {
		k, ok := idx[e.gid]
		if !ok {
			k = len(out)
			idx[e.gid] = k
			out = append(out, nil)
		}
		out[k] = append(out[k], e)
	}

	return out
}

func (rc *recorder) take() []emitJ {
	rc.mu.Lock()
	defer rc.mu.Unlock()
	out := rc.emits
	rc.emits = nil
	if out == nil {
		out = []emitJ{}
	}

	return out
}

func (i infoJ) info() *interceptor.StreamInfo {
	si := &interceptor.StreamInfo{
		SSRC: uint32(i.SSRC), SSRCRetransmission: uint32(i.RTXSSRC), PayloadTypeRetransmission: uint8(i.RTXPT), //nolint:gosec
	}
	if fbs := i.feedback(); fbs != nil {
		si.RTCPFeedback = make([]interceptor.RTCPFeedback, len(fbs))
		for k, f := range fbs {
			si.RTCPFeedback[k] = interceptor.RTCPFeedback{Type: f[0], Parameter: f[1]}
		}
	}
	if m := i.Misc; m != 0 { // none of these decides whether the stream is served or what is retransmitted
		si.ID = fmt.Sprintf("stream-%d", m)
		si.MimeType = []string{"video/VP8", "audio/opus", "video/H264", "video/rtx", "", "application/x-unknown"}[m%6]
		si.PayloadType = uint8(m % 128)  //nolint:gosec
		si.ClockRate = uint32(m%5) * 8000 //nolint:gosec
		si.Channels = uint16(m % 3)       //nolint:gosec
		si.SDPFmtpLine = []string{"", "apt=96", "minptime=10;useinbandfec=1"}[m%3]
		si.PayloadTypeForwardErrorCorrection = uint8(m % 2 * 49) //nolint:gosec
		si.SSRCForwardErrorCorrection = uint32(m % 4 * 3000)     //nolint:gosec
		if m%2 == 0 {
			si.Attributes = interceptor.Attributes{"k": m}
			si.RTPHeaderExtensions = []interceptor.RTPHeaderExtension{{URI: "urn:ietf:params:rtp-hdrext:sdes:mid", ID: int(m%14) + 1}}
		}
	}

	return si
}

// quiesce waits until the resend goroutines spawned by a Read have finished.
func quiesce(base int) bool {
	deadline := time.Now().Add(10 * time.Second)
	for n := 0; runtime.NumGoroutine() > base; n++ {
		if n < 200 {
			runtime.Gosched()
		} else {
			time.Sleep(50 * time.Microsecond)
		}
		if n%1000 == 999 && time.Now().After(deadline) {
			return false
		}
	}

	return true
}

func runResp(size int, copyPkts bool, start, flt int, ops []respOp) (respCase, string) {
	c := respCase{Size: size, Copy: copyPkts, Start: start, Flt: flt, Ops: ops}
	opts := []nack.ResponderOption{nack.ResponderSize(uint16(size))} //nolint:gosec
	switch flt {
	case 1:
		opts = append(opts, nack.ResponderStreamsFilter(func(*interceptor.StreamInfo) bool { return true }))
	case 2:
		opts = append(opts, nack.ResponderStreamsFilter(func(*interceptor.StreamInfo) bool { return false }))
	}
	if copyPkts {
		opts = append(opts, nack.VerifResponderPacketFactory(verifhooks.NewPacketFactoryCopyFixedRTX(uint16(start)))) //nolint:gosec
	} else {
		opts = append(opts, nack.DisableCopy())
	}
	f, err := nack.NewResponderInterceptor(opts...)
	if err != nil {
		return c, "factory: " + err.Error()
	}
	icpt, err := f.NewInterceptor("")
	if err != nil {
		return c, "NewInterceptor: " + err.Error()
	}
	rec := &recorder{}
	var pending []byte
	reader := icpt.BindRTCPReader(interceptor.RTCPReaderFunc(
		func(b []byte, a interceptor.Attributes) (int, interceptor.Attributes, error) {
			return copy(b, pending), a, nil
		}))
	var handles []interceptor.RTPWriter
	fail := ""
	for _, o := range ops {
		out := respOut{}
		switch o.K {
		case "bind":
			handles = append(handles, icpt.BindLocalStream(o.Info.info(), rec.writer(o.W)))
		case "write":
			hdr, pay := o.H.rtp(), bytesOf(o.P, o.Nil)
			_, err := handles[o.Hid].Write(hdr, pay, interceptor.Attributes{})
			out.Code = errCode(err)
			if copyPkts { // with DisableCopy the caller's header and buffer ARE the stored packet, by contract
				scribble(hdr, pay)
			}
		case "nack":
			var pkts []rtcp.Packet
			if o.Extra {
				pkts = append(pkts, &rtcp.ReceiverReport{SSRC: 77})
			}
			for _, nj := range append([]nackJ{{SSRC: o.SSRC, Pairs: o.Pairs}}, o.More...) {
				n := &rtcp.TransportLayerNack{SenderSSRC: 77, MediaSSRC: uint32(nj.SSRC)} //nolint:gosec
				for _, p := range nj.Pairs {
					n.Nacks = append(n.Nacks, rtcp.NackPair{PacketID: uint16(p[0]), LostPackets: rtcp.PacketBitmap(p[1])}) //nolint:gosec
				}
				pkts = append(pkts, n)
			}
			rec.setFailing(o.FailW)
			raw, err := rtcp.Marshal(pkts)
			if err != nil {
				return c, "rtcp marshal: " + err.Error()
			}
			pending = raw
			base := runtime.NumGoroutine()
			buf := make([]byte, 1500)
			if _, _, err := reader.Read(buf, interceptor.Attributes{}); err != nil {
				out.Code = 9
			}
			if !quiesce(base) {
				fail = "resend goroutine did not finish within 10 s"
			}
			rec.setFailing(false)
		case "unbind":
			icpt.UnbindLocalStream(o.Info.info())
		default:
			if err := icpt.Close(); err != nil {
				out.Code = 9
			}
		}
		out.Emits = rec.take()
		if o.K == "nack" && len(o.More) > 0 {
			out.Groups = groupByGoroutine(out.Emits)
		}
		c.Outs = append(c.Outs, out)
		if fail != "" {
			break
		}
	}

	return c, fail
}

func (i infoJ) coq() string {
	fbs := i.feedback()
	fs := make([]string, len(fbs))
	for k, f := range fbs {
		fs[k] = cq.T(cq.Bytes([]byte(f[0])), cq.Bytes([]byte(f[1])))
	}

	return cq.C("mkFI", cq.Z(i.SSRC), cq.Z(i.RTXSSRC), cq.Z(int64(i.RTXPT)), cq.L(fs))
}

// stepTerms prints every executed operation and its observed output as Coq terms.
func (c respCase) stepTerms(buckets []string) (opsT, outsT []string, bs []string, resends, writes int) {
	for i, o := range c.Ops {
		if i >= len(c.Outs) {
			break
		}
		var op string
		switch o.K {
		case "bind":
			op = cq.C("FBind", o.Info.coq(), cq.Z(int64(o.W)))
		case "write":
			writes++
			op = cq.C("FWrite", fmt.Sprintf("%d%%nat", o.Hid), o.H.coq(), coqInts(o.P))
		case "nack":
			ps := make([]string, len(o.Pairs))
			for k, p := range o.Pairs {
				ps[k] = cq.T(cq.Z(int64(p[0])), cq.Z(int64(p[1])))
			}
			op = cq.C("FNack", cq.Z(o.SSRC), cq.L(ps))
			resends += len(c.Outs[i].Emits)
			if len(c.Outs[i].Emits) > 0 {
				buckets = append(buckets, "nack-with-resend")
				if o.FailW {
					buckets = append(buckets, "resend-into-failing-writer")
				}
			} else {
				buckets = append(buckets, "nack-without-resend")
			}
		case "unbind":
			op = cq.C("FUnbind", cq.Z(o.Info.SSRC))
		default:
			op = "FClose"
		}
		es := make([]string, len(c.Outs[i].Emits))
		for k, e := range c.Outs[i].Emits {
			es[k] = cq.T(cq.Z(int64(e.W)), e.H.coq(), coqInts(e.P))
		}
		if c.Outs[i].Code != 0 {
			buckets = append(buckets, fmt.Sprintf("write-err=%d", c.Outs[i].Code))
		}
		opsT = append(opsT, op)
		outsT = append(outsT, cq.T(cq.Z(int64(c.Outs[i].Code)), cq.L(es)))
	}
	seen := map[string]bool{}
	for _, b := range buckets {
		if !seen[b] {
			seen[b] = true
			bs = append(bs, b)
		}
	}

	return opsT, outsT, bs, resends, writes
}

func (c respCase) toCase(buckets ...string) cq.Case {
	opsT, outsT, bs, resends, writes := c.stepTerms(buckets)
	steps := make([]string, len(opsT))
	for i := range opsT {
		steps[i] = cq.T(opsT[i], outsT[i])
	}

	return cq.Case{
		Coq:  cq.T(cq.Z(int64(c.Size)), cq.B(c.Copy), cq.Z(int64(c.Start)), cq.Z(int64(c.Flt)), cq.L(steps)),
		JSON: c, Buckets: bs, Trivial: resends == 0 || writes < 2,
	}
}

// toMultiCase prints the case for the set c04multi (Check/C04bCheck.v): steps are MS op out, or MN nacks groups
// for a compound with several NACK packets.
func (c respCase) toMultiCase(buckets ...string) cq.Case {
	opsT, outsT, bs, resends, writes := c.stepTerms(buckets)
	steps := make([]string, len(opsT))
	conc := false
	for i := range opsT {
		o := c.Ops[i]
		if o.K != "nack" || len(o.More) == 0 {
			steps[i] = cq.C("FMS", opsT[i], outsT[i])

			continue
		}
		ns := []string{}
		for _, nj := range append([]nackJ{{SSRC: o.SSRC, Pairs: o.Pairs}}, o.More...) {
			ps := make([]string, len(nj.Pairs))
			for k, p := range nj.Pairs {
				ps[k] = cq.T(cq.Z(int64(p[0])), cq.Z(int64(p[1])))
			}
			ns = append(ns, cq.T(cq.Z(nj.SSRC), cq.L(ps)))
		}
		gs := make([]string, len(c.Outs[i].Groups))
		for k, g := range c.Outs[i].Groups {
			es := make([]string, len(g))
			for j, e := range g {
				es[j] = cq.T(cq.Z(int64(e.W)), e.H.coq(), coqInts(e.P))
			}
			gs[k] = cq.L(es)
		}
		if len(c.Outs[i].Groups) > 1 {
			conc = true
		}
		steps[i] = cq.C("FMN", cq.L(ns), cq.L(gs))
	}
	if conc {
		bs = append(bs, "compound-several-goroutines-resent")
	}

	return cq.Case{
		Coq:  cq.T(cq.Z(int64(c.Size)), cq.B(c.Copy), cq.Z(int64(c.Start)), cq.Z(int64(c.Flt)), cq.L(steps)),
		JSON: c, Buckets: bs, Trivial: resends == 0 || writes < 2,
	}
}

type genStream struct {
	info infoJ
	hid  int
	walk *seqWalk
	live bool
}

func genResp(r *rand.Rand, multi bool) ([]respOp, int, bool, int, int, []string) {
	size := pickSize(r)
	copyPkts := r.Intn(7) != 0
	start := r.Intn(65536)
	bk := map[string]bool{fmt.Sprintf("size=%d", size): true}
	flt := 0
	switch r.Intn(40) {
	case 0, 1:
		flt = 1
		bk["streams-filter=accept-all"] = true
	case 2:
		flt = 2
		bk["streams-filter=reject-all"] = true
	}
	if !copyPkts {
		bk["nocopy"] = true
	}
	var ops []respOp
	var streams []*genStream
	nh := 0
	bind := func(info infoJ) *genStream {
		ops = append(ops, respOp{K: "bind", Info: info, W: nh})
		st := &genStream{info: info, hid: nh, walk: newWalk(r, size), live: info.Nack}
		nh++

		return st
	}
	ns := 1 + r.Intn(3)
	for k := 0; k < ns; k++ {
		info := infoJ{SSRC: 1000 + int64(k), Nack: r.Intn(10) != 0, FBSet: true}
		info.FB = genFeedback(r, info.Nack, bk)
		if r.Intn(2) == 0 {
			info.Misc = 1 + int64(r.Intn(1000))
		}
		switch r.Intn(5) {
		case 0:
		case 1:
			if r.Intn(2) == 0 {
				info.RTXSSRC = 2000 + int64(k)
			} else {
				info.RTXPT = 97
			}
			bk["rtx-half"] = true
		default:
			info.RTXSSRC, info.RTXPT = 2000+int64(k), 97+k
			bk["rtx-on"] = true
		}
		if !info.Nack {
			bk["stream-without-nack"] = true
		}
		if info.Nack && flt == 2 {
			bk["nack-negotiated-but-filtered-out"] = true
		}
		if !info.Nack && flt == 1 {
			bk["no-nack-but-accepted-by-filter"] = true
		}
		streams = append(streams, bind(info))
	}
	n := 8 + r.Intn(45)
	long := 1
	if r.Intn(30) == 0 {
		long = 0
	}
	for i := 0; i < n; i++ {
		st := streams[r.Intn(len(streams))]
		switch k := r.Intn(100); {
		case k < 62:
			seq, b := st.walk.next(r)
			bk[b] = true
			ssrc := st.info.SSRC
			if r.Intn(25) == 0 {
				ssrc += 500
				bk["write-other-ssrc"] = true
			}
			h, p, isNil := genPacket(r, ssrc, seq, bk, long < 1)
			if len(p) > 100 {
				long++
			}
			ops = append(ops, respOp{K: "write", Hid: st.hid, H: h, P: p, Nil: isNil})
		case k < 93:
			media := st.info.SSRC
			if r.Intn(12) == 0 {
				media = []int64{0, 999, 2000, 1000 + int64(ns)}[r.Intn(4)]
				bk["nack-unknown-ssrc"] = true
			}
			np := 1 + r.Intn(3)
			pairs := make([][2]int, np)
			for j := range pairs {
				blp := 0
				switch r.Intn(5) {
				case 0:
				case 1:
					blp = 0xFFFF
				case 2:
					blp = 1 << r.Intn(16)
				case 3:
					blp = r.Intn(16)
				default:
					blp = r.Intn(65536)
				}
				pairs[j] = [2]int{st.walk.request(r), blp}
			}
			op := respOp{K: "nack", SSRC: media, Pairs: pairs, Extra: r.Intn(6) == 0}
			if r.Intn(6) == 0 {
				op.FailW = true
				bk["downstream-error-during-resend"] = true
			}
			if multi && r.Intn(2) == 0 { // several NACK packets in one compound: concurrent resend goroutines
				for j, nm := 0, 1+r.Intn(2); j < nm; j++ {
					ost := st
					switch r.Intn(4) {
					case 0:
						ost = streams[r.Intn(len(streams))]
						bk["compound-other-stream"] = true
					case 1:
						bk["compound-same-stream"] = true
					default:
						bk["compound-same-stream"] = true
					}
					m := ost.info.SSRC
					if r.Intn(10) == 0 {
						m = 999
						bk["compound-unknown-ssrc"] = true
					}
					blp := []int{0, 1, 3, 0xFFFF, r.Intn(65536)}[r.Intn(5)]
					req := ost.walk.request(r)
					if r.Intn(2) == 0 && ost.walk.any { // a number that is certainly retransmittable if the stream is still bound
						req = ost.walk.hi
					}
					op.More = append(op.More, nackJ{SSRC: m, Pairs: [][2]int{{req, blp}}})
				}
				bk[fmt.Sprintf("compound-nacks=%d", 1+len(op.More))] = true
			}
			ops = append(ops, op)
		case k < 96:
			ops = append(ops, respOp{K: "unbind", Info: st.info})
			bk["unbind"] = true
			st.walk.any = false
			st.live = false
		case k < 99: // bind the same SSRC again (new buffer, new handle); keep or drop the old handle
			ninfo := st.info
			if r.Intn(3) == 0 { // the same stream comes back with another feedback list (other order, other companions)
				ninfo.Nack = r.Intn(6) != 0
				ninfo.FB, ninfo.FBSet = genFeedback(r, ninfo.Nack, bk), true
				bk["rebind-other-feedback"] = true
				if st.info.Nack && !ninfo.Nack {
					bk["rebind-without-nack-keeps-old-binding"] = true
				}
			}
			nst := bind(ninfo)
			bk["rebind"] = true
			if r.Intn(3) == 0 || (st.info.Nack && !ninfo.Nack) {
				streams = append(streams, nst)
			} else {
				*st = *nst
			}
		default:
			ops = append(ops, respOp{K: "close"})
			bk["close"] = true
			for _, s := range streams {
				s.walk.any = false
			}
		}
	}
	bs := []string{}
	for k := range bk {
		bs = append(bs, k)
	}

	return ops, size, copyPkts, start, flt, bs
}

// fbFamily: a fixed family around the feedback list: generic NACK alone / before / after / between parameterised
// nack forms and other feedback types, twice, absent; RTX off and on; five packets across the wrap-around, a NACK
// for three of them, the stream bound again with the list reversed, two more packets, another NACK.
func fbFamily() [][]respOp {
	g, pli, sli, fir, remb := [2]string{"nack", ""}, [2]string{"nack", "pli"}, [2]string{"nack", "sli"}, [2]string{"ccm", "fir"}, [2]string{"goog-remb", ""}
	lists := [][][2]string{
		{g}, {pli, g}, {g, pli}, {fir, pli, g}, {pli, sli, g, remb}, {remb, fir, g}, {pli, g, g}, {pli, sli, fir, remb, g},
		{pli}, {pli, sli}, {fir, remb}, {}, nil,
	}
	var out [][]respOp
	for _, l := range lists {
		for _, rtx := range []bool{false, true} {
			info := infoJ{SSRC: 1000, FB: l, FBSet: true}
			for _, f := range l {
				info.Nack = info.Nack || f == g
			}
			if rtx {
				info.RTXSSRC, info.RTXPT = 2000, 97
			}
			ops := []respOp{{K: "bind", Info: info, W: 0}}
			wr := func(hid, seq int) {
				ops = append(ops, respOp{K: "write", Hid: hid, P: []int{seq & 255, seq >> 8, 7},
					H: hdrJ{PT: 96, Seq: seq, TS: int64(seq) * 3000, SSRC: 1000}})
			}
			for _, seq := range []int{65533, 65534, 65535, 0, 1} {
				wr(0, seq)
			}
			ops = append(ops, respOp{K: "nack", SSRC: 1000, Pairs: [][2]int{{65534, 0b101}}})
			rev := info
			rev.FB = nil
			for k := len(l) - 1; k >= 0; k-- {
				rev.FB = append(rev.FB, l[k])
			}
			ops = append(ops, respOp{K: "bind", Info: rev, W: 1})
			wr(1, 2)
			wr(1, 3)
			ops = append(ops, respOp{K: "nack", SSRC: 1000, Pairs: [][2]int{{1, 0b11}}})
			out = append(out, ops)
		}
	}

	return out
}

// ---------- concurrent stress with a content oracle evaluated in Go ----------

// Every packet's payload is a function of (ssrc, seq, timestamp); a resend
// whose bytes do not satisfy that function was read from a recycled buffer.
func stressPayload(ssrc uint32, seq uint16, ts uint32, n int) []byte {
	p := make([]byte, n)
	x := ssrc*2654435761 + uint32(seq)*40503 + ts*97
	for i := range p {
		x = x*1664525 + 1013904223
		p[i] = byte(x >> 24)
	}

	return p
}

func stress(r *rand.Rand, rounds int) (int, []cq.ImplFailure) {
	var fails []cq.ImplFailure
	checked := 0
	for round := 0; round < rounds; round++ {
		size := []int{1, 2, 8, 64}[round%4]
		f, _ := nack.NewResponderInterceptor(nack.ResponderSize(uint16(size))) //nolint:gosec
		icpt, _ := f.NewInterceptor("")
		var mu sync.Mutex
		var bad []string
		n := 0
		down := interceptor.RTPWriterFunc(func(h *rtp.Header, p []byte, a interceptor.Attributes) (int, error) {
			if a.Get("orig") != nil {
				return len(p), nil
			}
			want := stressPayload(h.SSRC, h.SequenceNumber, h.Timestamp, len(p))
			ok := true
			for i := range p {
				if p[i] != want[i] {
					ok = false
				}
			}
			mu.Lock()
			n++
			if !ok && len(bad) < 3 {
				bad = append(bad, fmt.Sprintf("resend seq=%d ts=%d len=%d does not carry the bytes sent", h.SequenceNumber, h.Timestamp, len(p)))
			}
			mu.Unlock()

			return len(p), nil
		})
		info := &interceptor.StreamInfo{SSRC: 5, RTCPFeedback: []interceptor.RTCPFeedback{{Type: "nack"}}}
		var wmu sync.RWMutex
		w := icpt.BindLocalStream(info, down)
		var pending []byte
		var pmu sync.Mutex
		reader := icpt.BindRTCPReader(interceptor.RTCPReaderFunc(
			func(b []byte, a interceptor.Attributes) (int, interceptor.Attributes, error) {
				pmu.Lock()
				defer pmu.Unlock()

				return copy(b, pending), a, nil
			}))
		base := runtime.NumGoroutine()
		var wg sync.WaitGroup
		var hi sync.Map
		hi.Store("hi", uint16(0))
		seed := r.Int63()
		wg.Add(3)
		go func() { // writer
			defer wg.Done()
			rr := rand.New(rand.NewSource(seed)) //nolint:gosec
			orig := interceptor.Attributes{}
			orig.Set("orig", true)
			for s := 0; s < 400; s++ {
				seq := uint16(s)
				ts := rr.Uint32()
				ln := 1 + rr.Intn(40)
				wmu.RLock()
				_, _ = w.Write(&rtp.Header{Version: 2, SSRC: 5, SequenceNumber: seq, Timestamp: ts}, stressPayload(5, seq, ts, ln), orig)
				wmu.RUnlock()
				hi.Store("hi", seq)
			}
		}()
		go func() { // NACKs
			defer wg.Done()
			buf := make([]byte, 1500)
			for k := 0; k < 150; k++ {
				v, _ := hi.Load("hi")
				h, _ := v.(uint16)
				raw, _ := rtcp.Marshal([]rtcp.Packet{&rtcp.TransportLayerNack{MediaSSRC: 5, Nacks: []rtcp.NackPair{{PacketID: h - uint16(size), LostPackets: 0xFFFF}}}}) //nolint:gosec
				pmu.Lock()
				pending = raw
				pmu.Unlock()
				_, _, _ = reader.Read(buf, interceptor.Attributes{})
				runtime.Gosched()
			}
		}()
		go func() { // unbind / rebind
			defer wg.Done()
			for k := 0; k < 20; k++ {
				time.Sleep(20 * time.Microsecond)
				icpt.UnbindLocalStream(info)
				nw := icpt.BindLocalStream(info, down)
				wmu.Lock()
				w = nw
				wmu.Unlock()
			}
		}()
		wg.Wait()
		if !quiesce(base) {
			fails = append(fails, cq.ImplFailure{Kind: "hang", Detail: "resend goroutines did not finish", Case: map[string]int{"round": round}})
		}
		_ = icpt.Close()
		checked += n
		for _, b := range bad {
			fails = append(fails, cq.ImplFailure{Kind: "schedule-content", Detail: b, Case: map[string]interface{}{"round": round, "size": size, "seed": seed}})
		}
	}

	return checked, fails
}

// stressHold is the orchestrated schedule "the sender overruns the ring while a retransmission is inside the
// downstream writer": ResponderSize 1..8; the writer that receives a retransmission takes a snapshot of the header
// and payload it was handed, signals the sender and blocks; the sender then writes 3*size+4 further packets (the
// requested packet is evicted from the ring, its pool buffers are handed to later NewPacket calls if they were
// released) and only then lets the writer continue.  The writer compares what it was handed with its snapshot and
// with the packet originally sent under that number.  A retransmission whose packet was released before or
// during the downstream Write shows up as changed bytes.
func stressHold(r *rand.Rand, rounds int) (int, []cq.ImplFailure) {
	var fails []cq.ImplFailure
	checked := 0
	type sentT struct {
		ts  uint32
		pay []byte
		h   hdrJ
	}
	for round := 0; round < rounds && len(fails) < 4; round++ {
		size := []int{1, 2, 4, 8}[round%4]
		rtx := round%8 >= 4
		f, _ := nack.NewResponderInterceptor(nack.ResponderSize(uint16(size))) //nolint:gosec
		icpt, _ := f.NewInterceptor("")
		var mu sync.Mutex
		sent := map[uint16]sentT{}
		var bad []string
		entered := make(chan struct{}, 64)
		release := make(chan struct{})
		n := 0
		describe := func(h hdrJ, p []int) string {
			if len(p) > 12 {
				p = p[:12]
			}

			return fmt.Sprintf("seq=%d ts=%d ssrc=%d pt=%d csrc=%v ext=%v payload[:12]=%v", h.Seq, h.TS, h.SSRC, h.PT, h.CSRC, h.Xs, p)
		}
		down := interceptor.RTPWriterFunc(func(h *rtp.Header, p []byte, a interceptor.Attributes) (int, error) {
			if a.Get("orig") != nil {
				return len(p), nil
			}
			h0, p0 := projHdr(h), ints(p) // what the retransmission is when the writer is entered
			entered <- struct{}{}
			select {
			case <-release:
			case <-time.After(5 * time.Second):
			}
			h1, p1 := projHdr(h), ints(p) // ... and when a slow writer gets to put it on the wire
			osn := uint16(h0.Seq)         //nolint:gosec
			body := p0
			if rtx {
				if len(p0) < 2 {
					body = nil
				} else {
					osn, body = uint16(p0[0])<<8|uint16(p0[1]), p0[2:] //nolint:gosec
				}
			}
			mu.Lock()
			defer mu.Unlock()
			n++
			if len(bad) >= 2 {
				return len(p), nil
			}
			if h0.coq() != h1.coq() || coqInts(p0) != coqInts(p1) {
				bad = append(bad, fmt.Sprintf("retransmission changed while inside the downstream writer: handed {%s}, after %d further sends {%s}",
					describe(h0, p0), 3*size+4, describe(h1, p1)))

				return len(p), nil
			}
			want, ok := sent[osn]
			switch {
			case !ok:
				bad = append(bad, fmt.Sprintf("retransmission of a number never sent: {%s}", describe(h0, p0)))
			case coqInts(body) != coqInts(ints(want.pay)) || h0.TS != int64(want.ts) ||
				fmt.Sprint(h0.CSRC) != fmt.Sprint(want.h.CSRC) || fmt.Sprint(h0.Xs) != fmt.Sprint(want.h.Xs):
				bad = append(bad, fmt.Sprintf("retransmission does not carry what was sent as %d: {%s}, sent {%s}", osn,
					describe(h0, p0), describe(want.h, ints(want.pay))))
			}

			return len(p), nil
		})
		info := &interceptor.StreamInfo{SSRC: 5, RTCPFeedback: []interceptor.RTCPFeedback{{Type: "nack"}}}
		if rtx {
			info.SSRCRetransmission, info.PayloadTypeRetransmission = 6, 97
		}
		w := icpt.BindLocalStream(info, down)
		var pending []byte
		reader := icpt.BindRTCPReader(interceptor.RTCPReaderFunc(
			func(b []byte, a interceptor.Attributes) (int, interceptor.Attributes, error) {
				return copy(b, pending), a, nil
			}))
		base := runtime.NumGoroutine()
		orig := interceptor.Attributes{}
		orig.Set("orig", true)
		next := uint16(r.Intn(65536)) //nolint:gosec
		send := func() {
			seq := next
			next++
			ts := r.Uint32()
			pay := stressPayload(5, seq, ts, 1+r.Intn(60))
			h := &rtp.Header{Version: 2, SSRC: 5, PayloadType: 96, SequenceNumber: seq, Timestamp: ts, CSRC: []uint32{uint32(seq), ts}}
			_ = h.SetExtension(3, []byte{byte(seq), byte(seq >> 8), byte(ts)})
			mu.Lock()
			sent[seq] = sentT{ts: ts, pay: append([]byte{}, pay...), h: projHdr(h)}
			mu.Unlock()
			_, _ = w.Write(h, pay, orig)
			scribble(h, pay)
		}
		buf := make([]byte, 1500)
		for it := 0; it < 6; it++ {
			for k := 0; k < size+1; k++ {
				send()
			}
			// one NACK for the whole window: the goroutine blocks inside the writer with the first packet found
			raw, _ := rtcp.Marshal([]rtcp.Packet{&rtcp.TransportLayerNack{MediaSSRC: 5, Nacks: []rtcp.NackPair{{PacketID: next - uint16(size), LostPackets: 0xFFFF}}}}) //nolint:gosec
			pending = raw
			_, _, _ = reader.Read(buf, interceptor.Attributes{})
			select {
			case <-entered:
			case <-time.After(5 * time.Second):
				fails = append(fails, cq.ImplFailure{Kind: "hang", Detail: "no retransmission reached the writer", Case: map[string]int{"round": round}})
			}
			for k := 0; k < 3*size+4; k++ { // overrun the ring while the retransmission is in flight
				send()
			}
			close(release) // the remaining numbers of this NACK are outside the window by now
			if !quiesce(base) {
				fails = append(fails, cq.ImplFailure{Kind: "hang", Detail: "resend goroutines did not finish", Case: map[string]int{"round": round}})
			}
			for len(entered) > 0 {
				<-entered
			}
			release = make(chan struct{})
		}
		_ = icpt.Close()
		checked += n
		for _, b := range bad {
			fails = append(fails, cq.ImplFailure{Kind: "schedule-content", Detail: b,
				Case: map[string]interface{}{"stress": "hold-in-writer", "round": round, "size": size, "rtx": rtx}})
		}
	}

	return checked, fails
}

// ---------- main ----------

func main() {
	o := cq.ParseFlags()
	r := o.Rand()
	imp := "IV.Check.C04Check.\nFrom IV Require Import Model.RtpBuffer Model.PacketFactory Model.Responder"
	bufSet := &cq.Set{
		Name: "c04buf", Import: imp, CaseType: "buf_case",
		Checks: []string{"buf_mismatches", "buf_spec_failures"},
	}
	pfSet := &cq.Set{
		Name: "c04pf", Import: imp, CaseType: "pf_case",
		Checks: []string{"pf_mismatches", "pf_spec_failures"},
	}
	impE := "IV.Check.C04eCheck.\nFrom IV Require Import Model.RtpBuffer Model.PacketFactory Model.Responder Model.StreamFilter"
	respSet := &cq.Set{
		Name: "c04resp", Import: impE, CaseType: "fb_case",
		Checks: []string{"fb_mismatches", "fb_spec_failures"},
	}
	multiSet := &cq.Set{
		Name: "c04multi", Import: impE, CaseType: "fbm_case", Checks: []string{"fbm_mismatches", "fbm_spec_failures"},
	}
	sets := []*cq.Set{bufSet, pfSet, respSet, multiSet}
	var fails []cq.ImplFailure
	load := func(path, bucket string) {
		var probe map[string]interface{}
		switch cq.LoadReplay(path, &probe) {
		case "c04buf":
			var c bufCase
			cq.LoadReplay(path, &c)
			bufSet.Cases = append(bufSet.Cases, runBuf(c.Size, c.Ops).toCase(bucket))
		case "c04pf":
			var c pfCase
			cq.LoadReplay(path, &c)
			pfSet.Cases = append(pfSet.Cases, runPF(c.Start, c.Calls).toCase(bucket))
		case "c04resp":
			var c respCase
			cq.LoadReplay(path, &c)
			rc, fail := runResp(c.Size, c.Copy, c.Start, c.Flt, c.Ops)
			if fail != "" {
				fails = append(fails, cq.ImplFailure{Kind: "hang", Detail: fail, Case: rc})
			}
			respSet.Cases = append(respSet.Cases, rc.toCase(bucket))
		case "c04multi":
			var c respCase
			cq.LoadReplay(path, &c)
			rc, fail := runResp(c.Size, c.Copy, c.Start, c.Flt, c.Ops)
			if fail != "" {
				fails = append(fails, cq.ImplFailure{Kind: "hang", Detail: fail, Case: rc})
			}
			multiSet.Cases = append(multiSet.Cases, rc.toMultiCase(bucket))
		}
	}
	if o.Replay != "" {
		load(o.Replay, "replay")
		cq.Write(o, "replay", sets, nil, fails)

		return
	}
	for _, f := range o.CorpusFiles() {
		load(f, "corpus")
	}
	// invalid and valid sizes of NewRTPBuffer
	for _, s := range []int{0, 3, 5, 6, 7, 9, 12, 1000, 1023, 1025, 32767, 32769, 49152, 65535} {
		bufSet.Cases = append(bufSet.Cases, runBuf(s, nil).toCase("invalid-size"))
	}
	for i, n := 0, o.Scale(900, 60000); i < n; i++ {
		bufSet.Cases = append(bufSet.Cases, genBuf(r))
	}
	for i, n := 0, o.Scale(500, 40000); i < n; i++ {
		pfSet.Cases = append(pfSet.Cases, genPF(r))
	}
	for i, ops := range fbFamily() {
		rc, fail := runResp(8, true, 500+i, 0, ops)
		if fail != "" {
			fails = append(fails, cq.ImplFailure{Kind: "hang", Detail: fail, Case: rc})
		}
		respSet.Cases = append(respSet.Cases, rc.toCase("fb-family"))
	}
	for i, n := 0, o.Scale(950, 60000); i < n; i++ {
		ops, size, cp, start, flt, bs := genResp(r, false)
		rc, fail := runResp(size, cp, start, flt, ops)
		if fail != "" {
			fails = append(fails, cq.ImplFailure{Kind: "hang", Detail: fail, Case: rc})
		}
		respSet.Cases = append(respSet.Cases, rc.toCase(bs...))
	}
	for i, n := 0, o.Scale(300, 20000); i < n; i++ {
		ops, size, cp, start, flt, bs := genResp(r, true)
		rc, fail := runResp(size, cp, start, flt, ops)
		if fail != "" {
			fails = append(fails, cq.ImplFailure{Kind: "hang", Detail: fail, Case: rc})
		}
		multiSet.Cases = append(multiSet.Cases, rc.toMultiCase(bs...))
	}
	checked, sf := stress(r, o.Scale(8, 200))
	fails = append(fails, sf...)
	held, hf := stressHold(r, o.Scale(24, 400))
	fails = append(fails, hf...)
	cq.Write(o, "buf: Add/Get/Clear histories of 5..74 ops over all 16 sizes, non-trivial = at least one Get returned a packet; "+
		"pf: 1..6 NewPacket calls on one factory (RTX on/off/half, both padding conventions, lengths 0..1461); "+
		"resp: 1..3 streams, 8..52 API operations (write/nack/unbind/rebind/close), non-trivial = at least 2 writes and one retransmission observed",
		sets, map[string]interface{}{"stress_resends_checked": checked, "stress_held_resends_checked": held}, fails)
}
