// Generator for C07: sender reports (pkg/report senderStream through the
// verif hook, SenderInterceptor through the public API with injected clock
// and ticker).
package main

import (
	"context"
	"errors"
	"fmt"
	"io"
	"math/rand"
	"sort"
	"sync/atomic"
	"time"

	"github.com/pion/interceptor"
	"github.com/pion/interceptor/pkg/report"
	"github.com/pion/rtcp"
	"github.com/pion/rtp"

	"verifharness/internal/cq"
)

// ---- core set ----

type coreOp struct {
	K   string `json:"k"` // rtp | adv | advreal | rep
	Now int64  `json:"now,omitempty"`
	Seq uint16 `json:"seq,omitempty"`
	TS  uint32 `json:"ts,omitempty"`
	Len int    `json:"len,omitempty"`
	N   uint32 `json:"n,omitempty"`
	// header variety (rtp): irrelevant to the specification - the octet count is the sum of
	// len(payload), the payload slice never contains the padding - but not to the code
	Pad    uint8 `json:"pad,omitempty"`    // Padding bit set, PaddingSize = Pad
	Marker bool  `json:"marker,omitempty"`
	CSRC   int   `json:"csrc,omitempty"`   // number of CSRCs
	Ext    bool  `json:"ext,omitempty"`    // one-byte header extension present
	// implementation outputs (rep)
	NTP uint64 `json:"ntp,omitempty"`
	RTP uint32 `json:"rtp,omitempty"`
	PC  uint32 `json:"pc,omitempty"`
	OC  uint32 `json:"oc,omitempty"`
}

type coreCase struct {
	Rate uint32   `json:"rate"`
	UL   bool     `json:"use_latest"`
	Ops  []coreOp `json:"ops"`
}

var payloadBuf = make([]byte, 70000)

// mkHeader builds the RTP header of a send with the requested variety.
func mkHeader(ssrc uint32, seq uint16, ts uint32, pad uint8, marker bool, csrc int, ext bool) *rtp.Header {
	h := &rtp.Header{Version: 2, SSRC: ssrc, SequenceNumber: seq, Timestamp: ts, Marker: marker}
	if pad > 0 {
		h.Padding = true
		h.PaddingSize = pad
	}
	for i := 0; i < csrc; i++ {
		h.CSRC = append(h.CSRC, uint32(0x1000+i))
	}
	if ext {
		h.Extension = true
		h.ExtensionProfile = 0xBEDE
		_ = h.SetExtension(1, []byte{0xAA, 0xBB})
	}

	return h
}

// variety draws header variety for one send: padding (1..255), marker, CSRCs, extension.
func variety(r *rand.Rand) (pad uint8, marker bool, csrc int, ext bool) {
	if r.Intn(4) == 0 {
		pad = uint8(1 + r.Intn(255))
		if r.Intn(4) == 0 {
			pad = []uint8{1, 255, 4}[r.Intn(3)]
		}
	}
	marker = r.Intn(5) == 0
	if r.Intn(6) == 0 {
		csrc = 1 + r.Intn(15)
	}
	ext = r.Intn(6) == 0

	return
}

func runCore(c *coreCase) {
	s := report.NewVerifSenderStream(0x1234, c.Rate, c.UL)
	for i := range c.Ops {
		op := &c.Ops[i]
		switch op.K {
		case "rtp":
			s.ProcessRTP(time.Unix(0, op.Now), mkHeader(0x1234, op.Seq, op.TS, op.Pad, op.Marker, op.CSRC, op.Ext), payloadBuf[:op.Len])
		case "adv":
			s.AdvancePacketCount(op.N)
		case "advreal":
			// N REAL sends of the reference packet (sequence number and timestamp of the
			// newest packet sent, empty payload): what the hook AdvancePacketCount(N)
			// abbreviates (theorem C07_advance_is_repeated_send). No hook involved.
			h := &rtp.Header{SequenceNumber: op.Seq, Timestamp: op.TS}
			t := time.Unix(0, op.Now)
			for k := uint64(0); k < uint64(op.N); k++ {
				s.ProcessRTP(t, h, nil)
			}
		case "rep":
			sr := s.GenerateReport(time.Unix(0, op.Now))
			op.NTP, op.RTP, op.PC, op.OC = sr.NTPTime, sr.RTPTime, sr.PacketCount, sr.OctetCount
		}
	}
}

func (c *coreCase) toCase(buckets ...string) cq.Case {
	ops := make([]string, len(c.Ops))
	seenPkt, useful := false, false
	for i, op := range c.Ops {
		switch op.K {
		case "rtp":
			ops[i] = cq.C("CRtp", cq.Z(op.Now), cq.ZU(uint64(op.Seq)), cq.ZU(uint64(op.TS)), cq.Z(int64(op.Len)))
			seenPkt = true
		case "adv", "advreal":
			ops[i] = cq.C("CAdv", cq.ZU(uint64(op.N)))
		default:
			ops[i] = cq.C("CRep", cq.Z(op.Now), cq.ZU(op.NTP), cq.ZU(uint64(op.RTP)), cq.ZU(uint64(op.PC)), cq.ZU(uint64(op.OC)))
			if seenPkt {
				useful = true
			}
		}
	}

	return cq.Case{
		Coq:  cq.T(cq.ZU(uint64(c.Rate)), cq.B(c.UL), cq.L(ops)),
		JSON: c, Buckets: buckets, Trivial: !useful,
	}
}

var rates = []uint32{8000, 48000, 90000, 1, 0xFFFFFFFF, 44100, 1000}

const (
	ms      = int64(1000000)
	sec     = int64(1000000000)
	recent  = int64(1700000000) * sec
	ns2036  = int64(2085978496) * sec
)

// cornerRates: the corners of "all clock rates". 0 is a legal StreamInfo.ClockRate (a local
// stream bound before its codec parameters are known): the report must then carry the
// reference timestamp unchanged (elapsed * 0). The others sit next to values a default or a
// clamp would pick (2, 3, 2^16, 2^31 +- 1, 2^32 - 2, 90000 +- 1).
var cornerRates = []uint32{0, 0, 0, 0, 2, 3, 65536, 0x7FFFFFFF, 0x80000000, 0xFFFFFFFE, 89999, 90001}

func pickRate(r *rand.Rand) uint32 {
	switch x := r.Intn(12); {
	case x < 2:
		return r.Uint32()
	case x < 4:
		return cornerRates[r.Intn(len(cornerRates))]
	}

	return rates[r.Intn(len(rates))]
}

func rateBucket(rate uint32) string {
	switch rate {
	case 0, 1, 8000, 48000, 90000, 0xFFFFFFFF:
		return fmt.Sprintf("rate-%d", rate)
	}
	for _, c := range cornerRates {
		if rate == c {
			return "rate-corner"
		}
	}

	return "rate-other"
}

// tsStepFor: timestamp increment per frame for a clock rate; a rate below the frame rate
// (0, 1, 2, 3 ...) would freeze the timestamp, so mostly pick an arbitrary step there.
func tsStepFor(r *rand.Rand, rate, fps uint32) uint32 {
	st := rate / fps
	if st == 0 && r.Intn(4) != 0 {
		st = uint32(1 + r.Intn(6000))
	}

	return st
}

func pickTS(r *rand.Rand) (uint32, string) {
	switch r.Intn(5) {
	case 0:
		return 0, "ts0"
	case 1:
		return uint32(0xFFFFFFFF - r.Intn(200000)), "ts-near-wrap"
	case 2:
		return uint32(r.Intn(5)), "ts-small"
	default:
		return r.Uint32(), "ts-random"
	}
}

func pickSeq(r *rand.Rand) (uint16, string) {
	switch r.Intn(4) {
	case 0:
		return uint16(65535 - r.Intn(40)), "seq-near-wrap"
	case 1:
		return uint16(r.Intn(3)), "seq-small"
	default:
		return uint16(r.Intn(65536)), "seq-random"
	}
}

func pickLen(r *rand.Rand) int {
	switch r.Intn(8) {
	case 0:
		return 0
	case 1:
		return 1460
	default:
		return r.Intn(1461)
	}
}

// genCore builds a send history: frames of 1..4 packets sharing a timestamp,
// reordered sends, duplicate sends, clock steps, reports anywhere.
func genCore(r *rand.Rand) (*coreCase, []string) {
	c := &coreCase{Rate: pickRate(r), UL: r.Intn(3) == 0}
	b := []string{rateBucket(c.Rate)}
	if c.UL {
		b = append(b, "use-latest")
	}
	now := recent + r.Int63n(100000000)*sec/1000
	if r.Intn(10) == 0 {
		now = r.Int63n(ns2036)
		b = append(b, "clock-any")
	}
	ts, tb := pickTS(r)
	seq, sb := pickSeq(r)
	b = append(b, tb, sb)
	tsStep := tsStepFor(r, c.Rate, 30)
	if r.Intn(4) == 0 {
		tsStep = r.Uint32() >> uint(r.Intn(32))
	}
	mode := r.Intn(6)
	n := 3 + r.Intn(40)
	if r.Intn(8) == 0 {
		c.Ops = append(c.Ops, coreOp{K: "rep", Now: now})
		b = append(b, "report-before-first")
	}
	var pend []coreOp
	flush := func() {
		// reorder within the pending window
		if len(pend) > 1 && (mode == 1 || mode == 4) {
			r.Shuffle(len(pend), func(i, j int) { pend[i], pend[j] = pend[j], pend[i] })
		}
		for _, p := range pend {
			p.Now = now
			c.Ops = append(c.Ops, p)
			switch r.Intn(4) {
			case 0:
			case 1:
				now += int64(r.Intn(2000)) * 1000
			default:
				now += int64(r.Intn(40)) * ms
			}
			if r.Intn(5) == 0 {
				c.Ops = append(c.Ops, coreOp{K: "rep", Now: now})
			}
		}
		pend = pend[:0]
	}
	for i := 0; i < n; i++ {
		frame := 1
		if r.Intn(3) == 0 {
			frame = 2 + r.Intn(3)
		}
		for k := 0; k < frame; k++ {
			pend = append(pend, coreOp{K: "rtp", Seq: seq, TS: ts, Len: pickLen(r)})
			if mode == 2 && r.Intn(6) == 0 { // duplicate send
				pend = append(pend, coreOp{K: "rtp", Seq: seq, TS: ts, Len: pickLen(r)})
			}
			seq++
			if mode == 3 && r.Intn(8) == 0 { // jump in sequence numbers (either direction)
				if r.Intn(2) == 0 {
					seq += []uint16{32766, 32767, 32768, 32769, 65535, 65534}[r.Intn(6)] // half-range edge (seq was already advanced by 1)
				} else {
					seq += uint16(r.Intn(65536))
				}
			}
		}
		ts += tsStep
		if mode == 5 && r.Intn(6) == 0 { // timestamp goes back
			ts -= 3 * tsStep
		}
		if len(pend) >= 1+r.Intn(6) {
			flush()
		}
		switch r.Intn(12) {
		case 0:
			now += int64(r.Intn(100000)) * sec / 10 // up to ~2.7 h
			b = append(b, "long-gap")
		case 1:
			if r.Intn(4) == 0 {
				now -= int64(r.Intn(50)) * ms
				b = append(b, "clock-back")
			}
		}
	}
	flush()
	switch r.Intn(6) {
	case 0: // a report at the very instant of the last send (elapsed 0 when that send set the reference)
		for i := len(c.Ops) - 1; i >= 0; i-- {
			if c.Ops[i].K == "rtp" {
				now = c.Ops[i].Now

				break
			}
		}
		b = append(b, "report-at-last-send-instant")
	case 1: // long after: minutes .. days (the advance wraps 2^32 for audio/video rates)
		now += int64(1+r.Intn(5000)) * 60 * sec
		b = append(b, "report-long-after")
	default:
		now += int64(r.Intn(3000)) * ms
	}
	c.Ops = append(c.Ops, coreOp{K: "rep", Now: now})
	b = append(b, []string{"inorder", "reordered", "dups", "seq-jumps", "reordered", "ts-back"}[mode])

	return c, dedup(b)
}

// genCountWrap drives the 32-bit packet counter across 2^32 with the hook
// and then sends older / newer packets.
func genCountWrap(r *rand.Rand) (*coreCase, []string) {
	c := &coreCase{Rate: rates[r.Intn(3)], UL: r.Intn(4) == 0}
	now := recent + r.Int63n(1000000)*ms
	seq, _ := pickSeq(r)
	ts := r.Uint32()
	k := 1 + r.Intn(4)
	for i := 0; i < k; i++ {
		c.Ops = append(c.Ops, coreOp{K: "rtp", Now: now, Seq: seq, TS: ts, Len: pickLen(r)})
		now += 20 * ms
		seq++
		ts += 3000
	}
	seq--
	ts -= 3000
	c.Ops = append(c.Ops, coreOp{K: "adv", N: uint32(uint64(1<<32) - uint64(k) - uint64(r.Intn(3)))})
	m := 1 + r.Intn(5)
	for i := 0; i < m; i++ {
		d := uint16(r.Intn(20))
		s2, t2 := seq-d, ts-uint32(d)*3000
		if r.Intn(3) == 0 {
			s2, t2 = seq+d, ts+uint32(d)*3000
		}
		c.Ops = append(c.Ops, coreOp{K: "rtp", Now: now, Seq: s2, TS: t2, Len: pickLen(r)})
		now += 20 * ms
		if r.Intn(2) == 0 {
			c.Ops = append(c.Ops, coreOp{K: "rep", Now: now})
		}
	}
	c.Ops = append(c.Ops, coreOp{K: "rep", Now: now + 500*ms})

	return c, []string{"count-wrap"}
}

// genBackClock: non-monotone clocks. Reports taken BEFORE the reference instant
// (negative elapsed time: 1 ns .. days), sends whose clock steps back (the
// reference instant itself moves back), and reports far enough before the
// reference that the negative product wraps 2^32 several times.
func genBackClock(r *rand.Rand) (*coreCase, []string) {
	c := &coreCase{Rate: pickRate(r), UL: r.Intn(3) == 0}
	b := []string{"nonmonotone-clock", rateBucket(c.Rate)}
	now := recent + r.Int63n(100000000)*ms
	ts, _ := pickTS(r)
	seq, _ := pickSeq(r)
	step := tsStepFor(r, c.Rate, 50)
	k := 1 + r.Intn(6)
	for i := 0; i < k; i++ {
		c.Ops = append(c.Ops, coreOp{K: "rtp", Now: now, Seq: seq, TS: ts, Len: pickLen(r)})
		seq++
		if r.Intn(3) != 0 {
			ts += step
		}
		switch r.Intn(4) {
		case 0: // the clock steps back between two sends
			now -= int64(r.Intn(3000)) * ms
			b = append(b, "send-clock-back")
		case 1:
		default:
			now += int64(r.Intn(40)) * ms
		}
		if r.Intn(3) == 0 {
			c.Ops = append(c.Ops, coreOp{K: "rep", Now: now})
		}
	}
	// the reference instant is one of the send instants; reports around and before all of them
	m := 1 + r.Intn(5)
	for i := 0; i < m; i++ {
		var back int64
		switch r.Intn(8) {
		case 0:
			back = 1 + int64(r.Intn(3))
			b = append(b, "report-ns-before-reference")
		case 1:
			back = sec - int64(r.Intn(3))
			b = append(b, "report-1s-before-reference")
		case 2:
			back = int64(r.Intn(100000)) * ms
		case 3:
			back = int64(1+r.Intn(96)) * 3600 * sec // hours .. 4 days: product wraps 2^32 for audio/video rates
			b = append(b, "report-hours-before-reference")
		case 4:
			back = r.Int63n(now) // anywhere back to 1970
			b = append(b, "report-years-before-reference")
		case 5:
			back = -int64(r.Intn(5000)) * ms // a normal (later) report in between
		default:
			back = r.Int63n(20 * sec)
		}
		c.Ops = append(c.Ops, coreOp{K: "rep", Now: now - back})
		if r.Intn(3) == 0 { // a late (older) or a newer send between the reports, possibly at an earlier instant
			d := uint16(r.Intn(4))
			t2 := now - int64(r.Intn(2000))*ms
			if r.Intn(2) == 0 {
				c.Ops = append(c.Ops, coreOp{K: "rtp", Now: t2, Seq: seq - 1 - d, TS: ts - uint32(d+1)*step, Len: pickLen(r)})
			} else {
				ts += step
				c.Ops = append(c.Ops, coreOp{K: "rtp", Now: t2, Seq: seq, TS: ts, Len: pickLen(r)})
				seq++
			}
		}
	}
	c.Ops = append(c.Ops, coreOp{K: "rep", Now: now - int64(r.Intn(10000))*ms})
	if c.UL {
		b = append(b, "use-latest")
	}

	return c, dedup(b)
}

// genCountWrapReal (thorough tier only): the 2^32 packet-counter wrap reached by
// REAL sends, no hook: a few in-order packets, then 2^32 - k - {0,1,2} real sends
// of the reference packet with an empty payload (op "advreal", about 1-2 minutes
// of processRTP calls), then older / newer packets and reports, as genCountWrap.
func genCountWrapReal(r *rand.Rand) (*coreCase, []string) {
	c := &coreCase{Rate: rates[r.Intn(3)], UL: r.Intn(4) == 0}
	now := recent + r.Int63n(1000000)*ms
	seq, _ := pickSeq(r)
	ts := r.Uint32()
	k := 1 + r.Intn(4)
	for i := 0; i < k; i++ {
		c.Ops = append(c.Ops, coreOp{K: "rtp", Now: now, Seq: seq, TS: ts, Len: pickLen(r)})
		now += 20 * ms
		seq++
		ts += 3000
	}
	seq--
	ts -= 3000
	c.Ops = append(c.Ops, coreOp{K: "rep", Now: now})
	c.Ops = append(c.Ops, coreOp{K: "advreal", Now: now, Seq: seq, TS: ts,
		N: uint32(uint64(1<<32) - uint64(k) - uint64(r.Intn(3)))})
	c.Ops = append(c.Ops, coreOp{K: "rep", Now: now})
	for i := 0; i < 4; i++ {
		d := uint16(1 + r.Intn(20))
		s2, t2 := seq-d, ts-uint32(d)*3000
		if i%2 == 1 {
			s2, t2 = seq+d, ts+uint32(d)*3000
		}
		c.Ops = append(c.Ops, coreOp{K: "rtp", Now: now, Seq: s2, TS: t2, Len: pickLen(r)})
		now += 20 * ms
		c.Ops = append(c.Ops, coreOp{K: "rep", Now: now})
	}

	return c, []string{"count-wrap", "count-wrap-real-sends"}
}

// decorateCore / decorateAPI give every send header variety (padding bit with PaddingSize
// 1..255, marker, CSRCs, header extension) and name the buckets that occur.
func decorateCore(r *rand.Rand, c *coreCase, b []string) []string {
	for i := range c.Ops {
		op := &c.Ops[i]
		if op.K != "rtp" {
			continue
		}
		op.Pad, op.Marker, op.CSRC, op.Ext = variety(r)
		b = varietyBuckets(b, op.Pad, op.Len, op.CSRC, op.Ext, op.Marker)
	}

	return dedup(b)
}

func decorateAPI(r *rand.Rand, c *apiCase, b []string) []string {
	for i := range c.Ops {
		op := &c.Ops[i]
		if op.K != "write" {
			continue
		}
		op.Pad, op.Marker, op.CSRC, op.Ext = variety(r)
		b = varietyBuckets(b, op.Pad, op.Len, op.CSRC, op.Ext, op.Marker)
	}

	return dedup(b)
}

func varietyBuckets(b []string, pad uint8, ln, csrc int, ext, marker bool) []string {
	if pad > 0 {
		b = append(b, "padding")
		if ln > 0 {
			b = append(b, "padding-with-payload")
		}
		if int(pad) > ln {
			b = append(b, "padding-larger-than-payload")
		}
	}
	if csrc > 0 {
		b = append(b, "csrc")
	}
	if ext {
		b = append(b, "header-extension")
	}
	if marker {
		b = append(b, "marker")
	}

	return b
}

func dedup(b []string) []string {
	m := map[string]bool{}
	out := b[:0]
	for _, x := range b {
		if !m[x] {
			m[x] = true
			out = append(out, x)
		}
	}

	return out
}

// ---- interceptor set ----

type apiRep struct {
	SSRC uint32 `json:"ssrc"`
	NTP  uint64 `json:"ntp"`
	RTP  uint32 `json:"rtp"`
	PC   uint32 `json:"pc"`
	OC   uint32 `json:"oc"`
}

type apiOp struct {
	K    string   `json:"k"` // bind | unbind | write | tick
	SSRC uint32   `json:"ssrc,omitempty"`
	Rate uint32   `json:"rate,omitempty"`
	Now  int64    `json:"now,omitempty"`
	Seq  uint16   `json:"seq,omitempty"`
	TS   uint32   `json:"ts,omitempty"`
	Len  int      `json:"len,omitempty"`
	Pad    uint8  `json:"pad,omitempty"`
	Marker bool   `json:"marker,omitempty"`
	CSRC   int    `json:"csrc,omitempty"`
	Ext    bool   `json:"ext,omitempty"`
	// StreamInfo variety (bind): irrelevant to the specification - a sender report depends on
	// SSRC and ClockRate only - but not to the wiring in BindLocalStream
	Mime string `json:"mime,omitempty"`
	PT   uint8  `json:"pt,omitempty"`
	Chan uint16 `json:"chan,omitempty"`
	Fmtp string `json:"fmtp,omitempty"`
	FB   int    `json:"fb,omitempty"`   // number of RTCPFeedback entries
	HExt int    `json:"hext,omitempty"` // number of RTPHeaderExtensions
	RTX  uint32 `json:"rtx,omitempty"`  // SSRCRetransmission (PayloadTypeRetransmission = PT+1)
	FEC  uint32 `json:"fec,omitempty"`  // SSRCForwardErrorCorrection (PayloadTypeForwardErrorCorrection = PT+2)
	ID   string `json:"id,omitempty"`
	// next writer (write): the RTPWriter handed to BindLocalStream answers (NN, nextErr(NErr))
	// for this packet; Next = false is the writer of the earlier rounds (0, nil)
	Next bool `json:"next,omitempty"`
	NN   int  `json:"nn,omitempty"`
	NErr int  `json:"nerr,omitempty"` // 0 = nil, 1.. = index into nextErrs
	// what the application's Write call returned (informational, replay JSON only)
	RN   int    `json:"rn,omitempty"`
	RErr string `json:"rerr,omitempty"`
	Reps []apiRep `json:"reps,omitempty"`
}

// tempErr: an error type of its own with the net.Error-style methods (a congested transport).
type tempErr struct{}

func (tempErr) Error() string   { return "transport: send buffer full" }
func (tempErr) Temporary() bool { return true }
func (tempErr) Timeout() bool   { return false }

// nextErrs: the non-nil errors a next writer answers with; NErr = index + 1.
var nextErrs = []error{
	io.ErrClosedPipe,
	io.EOF,
	errors.New("pacer: closed"), //nolint:err113
	fmt.Errorf("write udp: %w", io.ErrShortWrite),
	context.DeadlineExceeded,
	tempErr{},
}

func nextErr(k int) error {
	if k <= 0 || k > len(nextErrs) {
		return nil
	}

	return nextErrs[k-1]
}

var mimes = []string{"", "video/VP8", "video/H264", "video/AV1", "audio/opus", "audio/PCMU", "audio/G722",
	"video/rtx", "video/flexfec-03", "application/octet-stream"}

var feedbacks = []interceptor.RTCPFeedback{{Type: "nack"}, {Type: "nack", Parameter: "pli"},
	{Type: "transport-cc"}, {Type: "goog-remb"}, {Type: "ccm", Parameter: "fir"}}

// infoVariety fills the StreamInfo fields a sender report must not depend on, drawn
// independently of the clock rate (audio MIME types with video rates and vice versa, rate 0
// with and without a MIME type).
func infoVariety(r *rand.Rand, op *apiOp) {
	if r.Intn(4) == 0 {
		return // bare StreamInfo{SSRC, ClockRate}
	}
	op.Mime = mimes[r.Intn(len(mimes))]
	op.PT = uint8(r.Intn(128))
	if r.Intn(2) == 0 {
		op.Chan = uint16(r.Intn(3))
	}
	if r.Intn(3) == 0 {
		op.Fmtp = []string{"minptime=10;useinbandfec=1", "level-asymmetry-allowed=1;packetization-mode=1;profile-level-id=42e01f", "apt=96"}[r.Intn(3)]
	}
	if r.Intn(2) == 0 {
		op.FB = 1 + r.Intn(len(feedbacks))
	}
	if r.Intn(2) == 0 {
		op.HExt = 1 + r.Intn(4)
	}
	if r.Intn(4) == 0 {
		op.RTX = r.Uint32()
	}
	if r.Intn(4) == 0 {
		op.FEC = r.Uint32()
	}
	if r.Intn(2) == 0 {
		op.ID = []string{"video", "audio", "a", ""}[r.Intn(4)]
	}
}

func mkInfo(op *apiOp) *interceptor.StreamInfo {
	info := &interceptor.StreamInfo{
		SSRC: op.SSRC, ClockRate: op.Rate,
		ID: op.ID, MimeType: op.Mime, PayloadType: op.PT, Channels: op.Chan, SDPFmtpLine: op.Fmtp,
		SSRCRetransmission: op.RTX, SSRCForwardErrorCorrection: op.FEC,
	}
	if op.RTX != 0 {
		info.PayloadTypeRetransmission = op.PT + 1
	}
	if op.FEC != 0 {
		info.PayloadTypeForwardErrorCorrection = op.PT + 2
	}
	for i := 0; i < op.FB && i < len(feedbacks); i++ {
		info.RTCPFeedback = append(info.RTCPFeedback, feedbacks[i])
	}
	for i := 0; i < op.HExt; i++ {
		info.RTPHeaderExtensions = append(info.RTPHeaderExtensions,
			interceptor.RTPHeaderExtension{URI: fmt.Sprintf("urn:verif:ext:%d", i), ID: 1 + i})
	}
	if op.Mime != "" {
		info.Attributes = interceptor.Attributes{}
	}

	return info
}

type apiCase struct {
	UL  bool    `json:"use_latest"`
	Ops []apiOp `json:"ops"`
}

type mockTicker struct{ ch chan time.Time }

func (m *mockTicker) Ch() <-chan time.Time { return m.ch }
func (m *mockTicker) Stop()                {}

func runAPI(c *apiCase) error {
	var nowNs atomic.Int64
	tick := &mockTicker{ch: make(chan time.Time)}
	started := make(chan struct{})
	opts := []report.SenderOption{
		report.SenderNow(func() time.Time { return time.Unix(0, nowNs.Load()) }),
		report.SenderTicker(func(time.Duration) report.Ticker {
			close(started)

			return tick
		}),
		report.SenderInterval(time.Hour),
	}
	if c.UL {
		opts = append(opts, report.SenderUseLatestPacket())
	}
	f, err := report.NewSenderInterceptor(opts...)
	if err != nil {
		return err
	}
	ic, err := f.NewInterceptor("")
	if err != nil {
		return err
	}
	defer ic.Close() //nolint:errcheck
	out := make(chan *rtcp.SenderReport, 64)
	ic.BindRTCPWriter(interceptor.RTCPWriterFunc(func(pkts []rtcp.Packet, _ interceptor.Attributes) (int, error) {
		for _, p := range pkts {
			if sr, ok := p.(*rtcp.SenderReport); ok {
				out <- sr
			}
		}

		return 0, nil
	}))
	select {
	case <-started:
	case <-time.After(5 * time.Second):
		return fmt.Errorf("loop did not start")
	}
	writers := map[uint32]interceptor.RTPWriter{}
	infos := map[uint32]*interceptor.StreamInfo{}
	// the next writer of every bound stream answers what the write op in flight says
	var cur *apiOp
	next := interceptor.RTPWriterFunc(func(*rtp.Header, []byte, interceptor.Attributes) (int, error) {
		if cur == nil || !cur.Next {
			return 0, nil
		}

		return cur.NN, nextErr(cur.NErr)
	})
	for i := range c.Ops {
		op := &c.Ops[i]
		switch op.K {
		case "bind":
			info := mkInfo(op)
			infos[op.SSRC] = info
			writers[op.SSRC] = ic.BindLocalStream(info, next)
		case "unbind":
			if info, ok := infos[op.SSRC]; ok {
				ic.UnbindLocalStream(info)
				delete(infos, op.SSRC)
				delete(writers, op.SSRC)
			}
		case "write":
			if w, ok := writers[op.SSRC]; ok {
				nowNs.Store(op.Now)
				cur = op
				n, err := w.Write(mkHeader(op.SSRC, op.Seq, op.TS, op.Pad, op.Marker, op.CSRC, op.Ext),
					payloadBuf[:op.Len], nil)
				cur = nil
				op.RN, op.RErr = n, ""
				if err != nil {
					op.RErr = err.Error()
				}
				if !op.Next && err != nil { // the harness' own writer never fails unless told to
					return err
				}
			}
		case "tick":
			nowNs.Store(op.Now)
			select {
			case tick.ch <- time.Unix(0, op.Now):
			case <-time.After(5 * time.Second):
				return fmt.Errorf("tick not consumed")
			}
			op.Reps = nil
			want := len(infos)
			for len(op.Reps) < want {
				select {
				case sr := <-out:
					op.Reps = append(op.Reps, apiRep{sr.SSRC, sr.NTPTime, sr.RTPTime, sr.PacketCount, sr.OctetCount})
				case <-time.After(5 * time.Second):
					return fmt.Errorf("tick produced %d of %d reports", len(op.Reps), want)
				}
			}
			// anything beyond the expected number is recorded too (spec code 5)
			grace := 200 * time.Microsecond
			if want == 0 {
				grace = time.Millisecond
			}
			select {
			case sr := <-out:
				op.Reps = append(op.Reps, apiRep{sr.SSRC, sr.NTPTime, sr.RTPTime, sr.PacketCount, sr.OctetCount})
			case <-time.After(grace):
			}
			sort.SliceStable(op.Reps, func(a, b int) bool { return op.Reps[a].SSRC < op.Reps[b].SSRC })
		}
	}

	return nil
}

func (c *apiCase) toCase(buckets ...string) cq.Case {
	ops := make([]string, len(c.Ops))
	useful := false
	for i, op := range c.Ops {
		switch op.K {
		case "bind":
			ops[i] = cq.C("CABind", cq.ZU(uint64(op.SSRC)), cq.ZU(uint64(op.Rate)))
		case "unbind":
			ops[i] = cq.C("CAUnbind", cq.ZU(uint64(op.SSRC)))
		case "write":
			if op.Next {
				ops[i] = cq.C("CAWriteR", cq.ZU(uint64(op.SSRC)), cq.Z(op.Now), cq.ZU(uint64(op.Seq)), cq.ZU(uint64(op.TS)), cq.Z(int64(op.Len)),
					cq.Z(int64(op.NN)), cq.Z(int64(op.NErr)))
			} else {
				ops[i] = cq.C("CAWrite", cq.ZU(uint64(op.SSRC)), cq.Z(op.Now), cq.ZU(uint64(op.Seq)), cq.ZU(uint64(op.TS)), cq.Z(int64(op.Len)))
			}
		default:
			reps := make([]string, len(op.Reps))
			for k, rp := range op.Reps {
				reps[k] = cq.T(cq.ZU(uint64(rp.SSRC)), cq.T(cq.ZU(rp.NTP), cq.ZU(uint64(rp.RTP)), cq.ZU(uint64(rp.PC)), cq.ZU(uint64(rp.OC))))
				if rp.PC > 0 {
					useful = true
				}
			}
			ops[i] = cq.C("CATick", cq.Z(op.Now), cq.L(reps))
		}
	}

	return cq.Case{Coq: cq.T(cq.B(c.UL), cq.L(ops)), JSON: c, Buckets: buckets, Trivial: !useful}
}

func genAPI(r *rand.Rand) (*apiCase, []string) {
	c := &apiCase{UL: r.Intn(3) == 0}
	b := []string{}
	ssrcs := []uint32{1, 7, 0xFFFFFFFF, 0x80000000, 0}
	r.Shuffle(len(ssrcs), func(i, j int) { ssrcs[i], ssrcs[j] = ssrcs[j], ssrcs[i] })
	ns := 1 + r.Intn(3)
	type st struct {
		bound bool
		seq   uint16
		ts    uint32
		step  uint32
	}
	sts := make([]st, ns)
	now := recent + r.Int63n(1000000)*ms
	if r.Intn(6) == 0 {
		c.Ops = append(c.Ops, apiOp{K: "tick", Now: now})
		b = append(b, "tick-no-streams")
	}
	n := 10 + r.Intn(50)
	for i := 0; i < n; i++ {
		k := r.Intn(ns)
		s := &sts[k]
		x := r.Intn(20)
		switch {
		case !s.bound || x == 0:
			if s.bound {
				b = append(b, "rebind")
			}
			rate := pickRate(r)
			bop := apiOp{K: "bind", SSRC: ssrcs[k], Rate: rate}
			infoVariety(r, &bop)
			c.Ops = append(c.Ops, bop)
			b = append(b, rateBucket(rate))
			if ssrcs[k] == 0 {
				b = append(b, "ssrc-0")
			}
			s.bound = true
			s.seq, _ = pickSeq(r)
			s.ts, _ = pickTS(r)
			s.step = tsStepFor(r, rate, 50)
		case x == 1:
			c.Ops = append(c.Ops, apiOp{K: "unbind", SSRC: ssrcs[k]})
			s.bound = false
			b = append(b, "unbind")
		case x <= 4:
			c.Ops = append(c.Ops, apiOp{K: "tick", Now: now})
		default:
			sq := s.seq
			t := s.ts
			if r.Intn(6) == 0 { // an older packet
				d := uint16(1 + r.Intn(5))
				sq -= d
				t -= uint32(d) * s.step
				b = append(b, "reordered")
			} else {
				s.seq++
				if r.Intn(3) != 0 {
					s.ts += s.step
				}
			}
			c.Ops = append(c.Ops, apiOp{K: "write", SSRC: ssrcs[k], Now: now, Seq: sq, TS: t, Len: pickLen(r)})
		}
		switch r.Intn(5) {
		case 0:
			now += int64(r.Intn(5000)) * ms
		case 1:
		default:
			now += int64(r.Intn(30)) * ms
		}
	}
	c.Ops = append(c.Ops, apiOp{K: "tick", Now: now})
	b = append(b, fmt.Sprintf("streams-%d", ns))
	if c.UL {
		b = append(b, "use-latest")
	}

	return c, dedup(b)
}

// genAPIRates: the clock-rate dimension through the real BindLocalStream wiring. 2..4 local
// streams on ONE interceptor, bound with different rates - one of them 0 in most cases, the
// others corners or ordinary rates - all fed the SAME packets at the same instants, then ticks
// placed at the last send instant, ns / us / ms / 1 s / 2 s / minutes / hours after it (and
// sometimes before it: a clock that stepped back), a rebind of one stream with another rate
// (0 <-> non-zero) and more packets. Whatever the wiring does to the rate it was given
// (default for 0, clamp, rate of another stream, rate of an earlier bind) shows in the RTP
// time of that stream's report: the oracle extrapolates with the rate of the bind op.
func genAPIRates(r *rand.Rand) (*apiCase, []string) {
	c := &apiCase{UL: r.Intn(3) == 0}
	b := []string{"rate-family"}
	ssrcs := []uint32{1, 2, 7, 0xFFFFFFFF, 0x80000000, 0}
	r.Shuffle(len(ssrcs), func(i, j int) { ssrcs[i], ssrcs[j] = ssrcs[j], ssrcs[i] })
	ns := 2 + r.Intn(3)
	rts := make([]uint32, ns)
	for k := range rts {
		rts[k] = pickRate(r)
		if r.Intn(3) == 0 {
			rts[k] = cornerRates[r.Intn(len(cornerRates))]
		}
	}
	if r.Intn(4) != 0 {
		rts[r.Intn(ns)] = 0
	}
	bind := func(k int) {
		bop := apiOp{K: "bind", SSRC: ssrcs[k], Rate: rts[k]}
		infoVariety(r, &bop)
		c.Ops = append(c.Ops, bop)
		b = append(b, rateBucket(rts[k]))
		if ssrcs[k] == 0 {
			b = append(b, "ssrc-0")
		}
	}
	for k := 0; k < ns; k++ {
		bind(k)
	}
	now := recent + r.Int63n(1000000)*ms
	seq, _ := pickSeq(r)
	ts, _ := pickTS(r)
	step := uint32(1 + r.Intn(6000))
	send := func(frames int) {
		for f := 0; f < frames; f++ {
			for p := 1 + r.Intn(3); p > 0; p-- {
				ln := pickLen(r)
				for k := 0; k < ns; k++ {
					c.Ops = append(c.Ops, apiOp{K: "write", SSRC: ssrcs[k], Now: now, Seq: seq, TS: ts, Len: ln})
				}
				seq++
				if r.Intn(2) == 0 {
					now += int64(r.Intn(5)) * ms
				}
			}
			ts += step
			now += int64(r.Intn(40)) * ms
		}
	}
	ticks := func(m int) {
		for i := 0; i < m; i++ {
			switch r.Intn(10) {
			case 0:
				b = append(b, "tick-at-last-send-instant")
			case 1:
				now += 1 + int64(r.Intn(3))
				b = append(b, "tick-ns-after")
			case 2:
				now += int64(1+r.Intn(999)) * 1000
			case 3:
				now += sec
			case 4:
				now += 2 * sec
			case 5:
				now += int64(1+r.Intn(120)) * 60 * sec
				b = append(b, "tick-minutes-after")
			case 6:
				now += int64(1+r.Intn(96)) * 3600 * sec
				b = append(b, "tick-hours-after")
			case 7: // the clock stepped back: a tick before the reference instant, then forward again
				back := int64(1+r.Intn(5000)) * ms
				c.Ops = append(c.Ops, apiOp{K: "tick", Now: now - back})
				b = append(b, "tick-before-reference")
				now += int64(r.Intn(1000)) * ms
			default:
				now += int64(1+r.Intn(5000)) * ms
			}
			c.Ops = append(c.Ops, apiOp{K: "tick", Now: now})
		}
	}
	send(1 + r.Intn(4))
	ticks(1 + r.Intn(3))
	if r.Intn(2) == 0 { // rebind one stream with another rate: 0 <-> non-zero
		k := r.Intn(ns)
		if rts[k] == 0 {
			rts[k] = rates[r.Intn(len(rates))]
		} else {
			rts[k] = 0
		}
		bind(k)
		b = append(b, "rebind", "rebind-other-rate")
		if r.Intn(3) == 0 {
			c.Ops = append(c.Ops, apiOp{K: "tick", Now: now}) // the rebound stream has sent nothing yet
		}
		send(1 + r.Intn(3))
		ticks(1 + r.Intn(2))
	}
	b = append(b, fmt.Sprintf("streams-%d", ns))
	if c.UL {
		b = append(b, "use-latest")
	}

	return c, dedup(b)
}

// ---- round 5: the next writer of the chain ----

// pickNN: the byte count a next writer answers with: header + payload (what a transport
// reports), payload only, 0, 1, -1, anything.
func pickNN(r *rand.Rand, ln int) int {
	switch r.Intn(8) {
	case 0:
		return 0
	case 1:
		return ln
	case 2:
		return 1
	case 3:
		return -1
	case 4:
		return r.Intn(3000)
	default:
		return 12 + ln
	}
}

// failWrite makes the next writer refuse the packet of op: a non-nil error of some kind,
// n = 0 mostly, sometimes a partial / full byte count next to the error.
func failWrite(r *rand.Rand, op *apiOp) {
	op.Next = true
	op.NErr = 1 + r.Intn(len(nextErrs))
	op.NN = 0
	if r.Intn(4) == 0 {
		op.NN = pickNN(r, op.Len)
	}
}

func okWrite(r *rand.Rand, op *apiOp) {
	op.Next = true
	op.NErr = 0
	op.NN = pickNN(r, op.Len)
}

// nextBuckets names what the programmed next writer did in a case.
func nextBuckets(c *apiCase, b []string) []string {
	nw, nf, nz := 0, 0, 0
	firstOf := map[uint32]bool{} // ssrc -> a write since the latest bind was seen
	ref := map[uint32]uint32{}   // ssrc -> timestamp of the previous write
	for i := range c.Ops {
		op := &c.Ops[i]
		switch op.K {
		case "bind":
			delete(firstOf, op.SSRC)
		case "write":
			nw++
			if op.Next && op.NErr != 0 {
				nf++
				b = append(b, fmt.Sprintf("next-err-kind-%d", op.NErr))
				if !firstOf[op.SSRC] {
					b = append(b, "next-fails-first-packet")
				} else if ref[op.SSRC] != op.TS {
					b = append(b, "next-fails-new-frame")
				}
				if op.NN != 0 {
					b = append(b, "next-fails-with-byte-count")
				}
				for k := i + 1; k < len(c.Ops); k++ {
					if c.Ops[k].K == "write" && c.Ops[k].SSRC == op.SSRC {
						break
					}
					if c.Ops[k].K == "tick" {
						b = append(b, "next-fails-last-before-tick")

						break
					}
				}
			} else if op.Next && op.NN == 0 {
				nz++
			}
			firstOf[op.SSRC] = true
			ref[op.SSRC] = op.TS
		}
	}
	switch {
	case nf == 0:
	case nf == nw:
		b = append(b, "next-fails-all")
	default:
		b = append(b, "next-fails-some")
	}
	if nz > 0 {
		b = append(b, "next-ok-zero-bytes")
	}

	return b
}

// decorateNext gives the writes of a general api case a next writer that answers per
// packet: 1/3 of the cases keep the always-succeeding (0, nil) writer of the earlier rounds;
// the others draw byte counts and failures (a few / most / all packets, the first packet
// after every bind).
func decorateNext(r *rand.Rand, c *apiCase, b []string) []string {
	mode := r.Intn(9)
	if mode < 3 {
		return b
	}
	b = append(b, "next-writer-programmed")
	first := map[uint32]bool{}
	for i := range c.Ops {
		op := &c.Ops[i]
		switch op.K {
		case "bind":
			first[op.SSRC] = true
		case "write":
			fail := false
			switch mode {
			case 3: // byte-count variety only
			case 4, 5:
				fail = r.Intn(4) == 0
			case 6:
				fail = r.Intn(4) != 0
			case 7:
				fail = true
			case 8:
				fail = first[op.SSRC] || r.Intn(8) == 0
			}
			first[op.SSRC] = false
			if fail {
				failWrite(r, op)
			} else {
				okWrite(r, op)
			}
		}
	}

	return dedup(nextBuckets(c, b))
}

// genAPINextFail: "packets written on that stream" when the next writer refuses some of them.
// 2..4 local streams on ONE interceptor, same clock rate, fed the SAME packets at the same
// instants (frames of 1..3 packets, sometimes an older packet, sequence numbers crossing the
// wrap); the next writer of stream 0 accepts everything, the next writers of the others refuse
// packets by a pattern - all / the first after the bind / every first packet of a new frame
// (the packets that move the timestamp reference) / the last packet before each tick / every
// other packet / random / only the out-of-order ones. Ticks right at the last write, 1 s
// later, etc. Whatever the accounting does with the next writer's answer (count only accepted
// packets, take the reference only from accepted packets, count the bytes the next writer
// reported) shows as a difference between the report and the recount of the WRITES.
func genAPINextFail(r *rand.Rand) (*apiCase, []string) {
	c := &apiCase{UL: r.Intn(3) == 0}
	b := []string{"next-family", "next-writer-programmed"}
	ssrcs := []uint32{1, 2, 7, 0xFFFFFFFF, 0x80000000, 0}
	r.Shuffle(len(ssrcs), func(i, j int) { ssrcs[i], ssrcs[j] = ssrcs[j], ssrcs[i] })
	ns := 2 + r.Intn(3)
	rate := pickRate(r)
	if r.Intn(2) == 0 {
		rate = rates[r.Intn(3)]
	}
	b = append(b, rateBucket(rate))
	pats := make([]int, ns) // 0 = accepts everything
	for k := 1; k < ns; k++ {
		pats[k] = 1 + r.Intn(7)
	}
	patName := []string{"", "all", "first", "new-frame", "before-tick", "alternate", "random", "reordered"}
	for k := 1; k < ns; k++ {
		b = append(b, "next-pattern-"+patName[pats[k]])
	}
	bind := func(k int) {
		bop := apiOp{K: "bind", SSRC: ssrcs[k], Rate: rate}
		infoVariety(r, &bop)
		c.Ops = append(c.Ops, bop)
	}
	for k := 0; k < ns; k++ {
		bind(k)
	}
	now := recent + r.Int63n(1000000)*ms
	seq, _ := pickSeq(r)
	if r.Intn(2) == 0 {
		seq = uint16(65536 - 1 - r.Intn(4)) // the wrap falls inside the history
		b = append(b, "seq-near-wrap")
	}
	ts, _ := pickTS(r)
	step := tsStepFor(r, rate, 50)
	nwr := make([]int, ns) // writes since the latest bind, per stream
	lastFrameTS := make([]uint32, ns)
	emit := func(sq uint16, t uint32, old, newFrame bool) {
		ln := pickLen(r)
		for k := 0; k < ns; k++ {
			op := apiOp{K: "write", SSRC: ssrcs[k], Now: now, Seq: sq, TS: t, Len: ln}
			fail := false
			switch pats[k] {
			case 1:
				fail = true
			case 2:
				fail = nwr[k] == 0
			case 3:
				fail = newFrame && !old
			case 5:
				fail = nwr[k]%2 == 1
			case 6:
				fail = r.Intn(3) == 0
			case 7:
				fail = old
			}
			if fail {
				failWrite(r, &op)
			} else {
				okWrite(r, &op)
			}
			nwr[k]++
			lastFrameTS[k] = t
			c.Ops = append(c.Ops, op)
		}
	}
	send := func(frames int) {
		for f := 0; f < frames; f++ {
			np := 1 + r.Intn(3)
			for p := 0; p < np; p++ {
				if r.Intn(7) == 0 && nwr[0] > 0 { // an older packet in between
					d := uint16(1 + r.Intn(4))
					emit(seq-d, ts-uint32(d)*step, true, false)
					b = append(b, "reordered")
				}
				emit(seq, ts, false, p == 0)
				seq++
				if r.Intn(2) == 0 {
					now += int64(r.Intn(5)) * ms
				}
			}
			ts += step
			now += int64(r.Intn(40)) * ms
		}
	}
	tick := func() {
		// pattern "before-tick": the last write of the stream before this tick is refused
		for k := 1; k < ns; k++ {
			if pats[k] != 4 {
				continue
			}
			for i := len(c.Ops) - 1; i >= 0; i-- {
				if c.Ops[i].K == "tick" {
					break
				}
				if c.Ops[i].K == "write" && c.Ops[i].SSRC == ssrcs[k] {
					failWrite(r, &c.Ops[i])

					break
				}
			}
		}
		switch r.Intn(6) {
		case 0:
			b = append(b, "tick-at-last-send-instant")
		case 1:
			now += sec
		case 2:
			now += int64(1+r.Intn(120)) * 60 * sec
			b = append(b, "tick-minutes-after")
		default:
			now += int64(1+r.Intn(5000)) * ms
		}
		c.Ops = append(c.Ops, apiOp{K: "tick", Now: now})
	}
	send(1 + r.Intn(4))
	tick()
	for i := r.Intn(3); i > 0; i-- {
		if r.Intn(4) == 0 { // rebind one of the streams: its counts restart, failures or not
			k := r.Intn(ns)
			bind(k)
			nwr[k] = 0
			b = append(b, "rebind")
		}
		send(1 + r.Intn(3))
		tick()
	}
	b = append(b, fmt.Sprintf("streams-%d", ns))
	if c.UL {
		b = append(b, "use-latest")
	}

	return c, dedup(nextBuckets(c, b))
}

func main() {
	o := cq.ParseFlags()
	r := o.Rand()
	core := &cq.Set{
		Name: "c07core", Import: "IV.Check.C07Check", CaseType: "c07core_case",
		Checks: []string{"c07core_mismatches", "c07core_spec_failures"},
	}
	api := &cq.Set{
		Name: "c07api", Import: "IV.Check.C07Check", CaseType: "c07api_case",
		Checks: []string{"c07api_mismatches", "c07api_spec_failures"},
	}
	var fails []cq.ImplFailure
	addReplay := func(path, bucket string) {
		var probe map[string]interface{}
		set := cq.LoadReplay(path, &probe)
		if set == "c07api" {
			var c apiCase
			cq.LoadReplay(path, &c)
			if err := runAPI(&c); err != nil {
				fails = append(fails, cq.ImplFailure{Kind: "api-run", Detail: err.Error(), Case: c})

				return
			}
			api.Cases = append(api.Cases, c.toCase(bucket))
		} else {
			var c coreCase
			cq.LoadReplay(path, &c)
			runCore(&c)
			core.Cases = append(core.Cases, c.toCase(bucket))
		}
	}
	if o.Replay != "" {
		addReplay(o.Replay, "replay")
		cq.Write(o, "replay", []*cq.Set{core, api}, nil, fails)

		return
	}
	for _, f := range o.CorpusFiles() {
		addReplay(f, "corpus")
	}
	ncore := o.Scale(1200, 15000)
	for i := 0; i < ncore; i++ {
		var c *coreCase
		var b []string
		if i%25 == 24 {
			c, b = genCountWrap(r)
		} else if i%8 == 5 {
			c, b = genBackClock(r)
		} else {
			c, b = genCore(r)
		}
		b = decorateCore(r, c, b)
		runCore(c)
		core.Cases = append(core.Cases, c.toCase(b...))
	}
	if o.Tier == "thorough" {
		// one real run across the 2^32 packet-counter wrap (no hook)
		c, b := genCountWrapReal(r)
		runCore(c)
		core.Cases = append(core.Cases, c.toCase(b...))
	}
	napi := o.Scale(400, 4000)
	for i := 0; i < napi; i++ {
		var c *apiCase
		var b []string
		switch {
		case i%4 == 3:
			c, b = genAPIRates(r)
			b = decorateNext(r, c, b)
		case i%4 == 1:
			c, b = genAPINextFail(r)
		default:
			c, b = genAPI(r)
			b = decorateNext(r, c, b)
		}
		b = decorateAPI(r, c, b)
		if err := runAPI(c); err != nil {
			fails = append(fails, cq.ImplFailure{Kind: "api-run", Detail: err.Error(), Case: c})

			continue
		}
		api.Cases = append(api.Cases, c.toCase(b...))
	}
	cq.Write(o, "core: one sender stream, 3..170 sends (frames of 1..4 packets, reordering, duplicates, sequence jumps, "+
		"timestamp wrap/zero, clock steps) with reports anywhere, non-trivial = a report after at least one packet; "+
		"api: SenderInterceptor with 1..4 SSRCs (StreamInfo variety, clock rates incl. 0 and corners; every 4th case: streams of different rates fed the same packets), "+
		"bind/unbind/rebind, injected clock and ticker, next writer answering (n, err) per packet (2/3 of the general cases; every 4th case: streams fed the same packets whose next writers refuse them by pattern), "+
			"non-trivial = a report with packet count > 0",
		[]*cq.Set{core, api}, nil, fails)
}
