package main

import (
	"math/rand"
	"sort"

	"github.com/pion/interceptor/pkg/twcc"
)

// genManyBuilds: ONE long-lived recorder that produces `target` (> 256)
// feedback packets, so the 8-bit feedback packet counter goes through
// ... 254, 255, 0, 1 ... at least once (twice for targets > 512).  The last
// clause of the property ("the feedback packet counter increases by one per
// packet") is quantified over histories of any length; every other generator
// of this harness stops after a few dozen feedback packets, where a counter
// that wraps at a wrong modulus, saturates, is widened or is reset is
// indistinguishable from the 8-bit one.
//
// Cost is kept low by making every build small: 1..3 records per build and
// 5..40 ms between records, so the 500 ms sweep of already reported entries
// keeps the arrival history (and the oracle's ground truth) at a few dozen
// entries for the whole history.
//
// Shape of a round (one build, sometimes two in a row - the second returns
// nothing and must not advance the counter):
//   - 1..3 new numbers, with occasional loss, a late arrival of a lost number,
//     a duplicate, a media SSRC change;
//   - "split" rounds put an arrival gap of 8.2..9.5 s (more than 32767 ticks
//     of 250 us) between two records of the same round, so this build yields
//     TWO packets (the counter advances twice inside one build);
//   - the round that is due when 254 or 255 packets have been produced is a
//     split round in wrapInBuild cases, so the step 255 -> 0 (or 254 -> 255)
//     falls between two packets of ONE build; in the other cases it falls
//     between two builds.
//
// The number of packets produced so far is counted on a shadow recorder while
// generating (builds that return nothing do not count, split builds count per
// packet); the history itself is ordinary input for any implementation.
func genManyBuilds(r *rand.Rand, target int, wrapInBuild bool) ([]op, []string) {
	shadow := twcc.NewRecorder(1)
	ops := make([]op, 0, 3*target)
	produced := 0
	wrapSeenInBuild, wrapSeenBetween := false, false
	emit := func(o op) {
		ops = append(ops, o)
		if o.K == "r" {
			shadow.Record(o.SSRC, o.Seq, o.T)

			return
		}
		n := len(shadow.BuildFeedbackPacket())
		if n >= 2 && (produced%256)+n > 256 {
			wrapSeenInBuild = true
		}
		if n >= 1 && produced > 0 && produced%256 == 0 {
			wrapSeenBetween = true
		}
		produced += n
	}
	seq := int64(r.Intn(65536))
	if r.Intn(2) == 0 { // the 2^16 wrap of the sequence numbers falls inside the history
		seq = 65536 - int64(50+r.Intn(600))
	}
	t := int64(r.Intn(2000000))
	ssrc := uint32(1000 + r.Intn(4)) //nolint:gosec
	splitP := 4 + r.Intn(14)         // per cent of rounds that split
	lossP := r.Intn(12)
	lost := []int64{}
	bset := map[string]bool{}
	for guard := 0; produced < target && guard < 4*target; guard++ {
		split := r.Intn(100) < splitP
		switch produced % 256 {
		case 254: // get to exactly 255 first when the wrap is to fall inside a build
			split = !wrapInBuild && split
		case 255:
			split = wrapInBuild
		}
		k := 1 + r.Intn(3)
		if split && k < 2 {
			k = 2
		}
		at := 1 // the gap goes before record number at (1..k-1) of the round
		if k > 2 {
			at = 1 + r.Intn(k-1)
		}
		for j := 0; j < k; j++ {
			t += int64(5000 + r.Intn(35000))
			if split && j == at {
				t += 8200000 + int64(r.Intn(1300000))
				bset["manybuilds:split-build"] = true
			}
			s := seq
			switch x := r.Intn(100); {
			case x < 4 && len(lost) > 0: // a lost number arrives late (may already be swept)
				s = lost[len(lost)-1]
				lost = lost[:len(lost)-1]
				bset["manybuilds:late"] = true
			case x < 7: // duplicate of the newest number
				s = seq - 1
				bset["manybuilds:duplicate"] = true
			default:
				if r.Intn(100) < lossP {
					g := 1 + r.Intn(3)
					if r.Intn(10) == 0 {
						g = 20 + r.Intn(200)
					}
					lost = append(lost, seq)
					seq += int64(g)
					bset["manybuilds:loss"] = true
				}
				s = seq
				seq++
			}
			if r.Intn(150) == 0 {
				ssrc = uint32(1000 + r.Intn(4)) //nolint:gosec
			}
			o := rec(s, t)
			o.SSRC = ssrc
			emit(o)
		}
		emit(build)
		if r.Intn(12) == 0 { // nothing new: returns no packet, the counter must stay
			emit(build)
			bset["manybuilds:empty-build"] = true
		}
	}
	bs := []string{"manybuilds:fbcount-wrap"}
	if target > 512 {
		bs = append(bs, "manybuilds:two-wraps")
	}
	if wrapSeenInBuild {
		bs = append(bs, "manybuilds:wrap-inside-build")
	}
	if wrapSeenBetween {
		bs = append(bs, "manybuilds:wrap-between-builds")
	}
	extra := []string{}
	for b := range bset {
		extra = append(extra, b)
	}
	sort.Strings(extra)
	bs = append(bs, extra...)

	return ops, bs
}
