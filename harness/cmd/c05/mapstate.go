// C05 map set: differential run of the CONCRETE circular buffer model (cmap)
// against the real packetArrivalTimeMap inside twcc.Recorder.
//
// After every Record of a history the harness reads the recorder's arrival map
// state - capacity (len(arrivalTimes)), beginSequenceNumber, endSequenceNumber
// and a digest of the whole buffer - either through the verif hook
// (*Recorder).VerifArrivalMapState when the repo has it, or by reading the
// unexported fields with package reflect.
package main

import (
	"fmt"
	"math/big"
	"math/rand"
	"reflect"
	"sort"

	"github.com/pion/interceptor/pkg/twcc"

	"verifharness/internal/cq"
)

type mapStater interface {
	VerifArrivalMapState() (int64, int64, []int64)
}

// mapStateVia records which route mapState used ("hook" | "reflect").
var mapStateVia = "" //nolint:gochecknoglobals

// mapState returns begin, end and the buffer (nil when not allocated).
func mapState(rec *twcc.Recorder) (int64, int64, []int64) {
	if ms, ok := interface{}(rec).(mapStater); ok {
		mapStateVia = "hook"

		return ms.VerifArrivalMapState()
	}
	mapStateVia = "reflect"
	m := reflect.ValueOf(rec).Elem().FieldByName("arrivalTimeMap")
	at := m.FieldByName("arrivalTimes")
	var slots []int64
	if !at.IsNil() {
		slots = make([]int64, at.Len())
		for i := range slots {
			slots[i] = at.Index(i).Int()
		}
	}

	return m.FieldByName("beginSequenceNumber").Int(), m.FieldByName("endSequenceNumber").Int(), slots
}

// digest is Check/C05MapCheck.v digest: a = sum of the slots, b = sum of the
// prefix sums, both modulo 2^64; printed as the number a * 2^64 + b.
func digest(slots []int64) string {
	var a, b uint64
	for _, x := range slots {
		a += uint64(x) //nolint:gosec // wrapping on purpose
		b += a
	}
	d := new(big.Int).SetUint64(a)
	d.Lsh(d, 64)
	d.Add(d, new(big.Int).SetUint64(b))

	return d.String()
}

type mapObs struct {
	Cap    int64  `json:"cap"`
	Begin  int64  `json:"begin"`
	End    int64  `json:"end"`
	Digest string `json:"digest"`
}

// mapCase has the fields of c05Case that a replay needs (sender, ops), so a
// replay file written from a map set is loaded like any other C05 replay.
type mapCase struct {
	Sender uint32   `json:"sender"`
	Ops    []op     `json:"ops"`
	Obs    []mapObs `json:"obs"`
	Note   string   `json:"note,omitempty"`
	fails  []string
	nrec   int
	Cost   int64 `json:"est_cost"` // estimated evaluation cost of the Coq checker, in list cells walked
	bs     []string
}

// costs of the Coq model per operation, in units of one list cell: cm_index
// (length, Z.of_nat, Z.to_nat) + list_set are each O(capacity).
const cellsPerStore = 4

// runMap drives the real recorder and observes the map after every Record.
// When budget > 0 the history is cut where the estimated cost passes it.
func runMap(sender uint32, ops []op, budget int64) *mapCase {
	c := &mapCase{Sender: sender, Obs: []mapObs{}}
	rec := twcc.NewRecorder(sender)
	bset := map[string]bool{}
	var pcap, pb, pe int64
	pd := ""
	func() {
		defer func() {
			if r := recover(); r != nil {
				c.fails = append(c.fails, fmt.Sprintf("panic in Recorder: %v", r))
			}
		}()
		for _, o := range ops {
			if o.K != "r" {
				rec.BuildFeedbackPacket()
				c.Ops = append(c.Ops, o)

				continue
			}
			rec.Record(o.SSRC, o.Seq, o.T)
			b, e, slots := mapState(rec)
			ob := mapObs{Cap: int64(len(slots)), Begin: b, End: e, Digest: digest(slots)}
			// cost of this step in the Coq model
			step := 3 * ob.Cap
			if pcap == 0 {
				pb, pe = b, e
			}
			switch {
			case e >= pe+32768 && e-b == 1: // all old packets removed: no loop
				bset["map:reset-jump-2^15"] = true
			case e > pe:
				step += (e - pe) * cellsPerStore * ob.Cap
			}
			if b < pb && e == pe {
				step += (pb - b) * cellsPerStore * ob.Cap
			}
			if b > pb && pcap != 0 { // RemoveOldPackets: one get per removed number
				step += min(b-pb, pe-pb) * 3 * pcap
			}
			if ob.Cap != pcap {
				step += (e - b + 1) * cellsPerStore * max(ob.Cap, pcap)
			}
			if budget > 0 && c.Cost+step > budget && c.nrec >= 1 {
				bset["map:cut-for-cost"] = true

				return
			}
			c.Cost += step
			c.Ops = append(c.Ops, o)
			c.Obs = append(c.Obs, ob)
			c.nrec++
			// buckets from the OBSERVED states
			bset[fmt.Sprintf("obs:cap-%d", ob.Cap)] = true
			switch {
			case pcap == 0:
				bset["map:first-packet"] = true
			case ob.Cap > pcap:
				bset["map:grow"] = true
				if ob.Cap > 2*pcap {
					bset["map:grow-several-doublings"] = true
				}
			case ob.Cap < pcap:
				bset["map:shrink"] = true
				if ob.Cap*2 < pcap {
					bset["map:shrink-several-halvings"] = true
				}
			}
			if pcap != 0 {
				switch {
				case b < pb && e == pe:
					bset["map:before-begin"] = true
					if pb-b > 1 {
						bset["map:before-begin-setNotReceived"] = true
					}
				case e > pe+1 && e < pe+32768:
					bset["map:after-end-gap"] = true
				case e == pe+1:
					bset["map:after-end-next"] = true
				case e == pe && b == pb && ob.Cap == pcap && ob.Digest != pd:
					bset["map:in-range-fill"] = true
				case e == pe && b == pb && ob.Cap == pcap:
					bset["map:unchanged(duplicate/too-old)"] = true
				}
				if b > pb && e < pe+32768 {
					bset["map:cull(begin-advanced)"] = true
					if b >= pe {
						bset["map:cull-everything"] = true
					}
				}
				if e-b == 32768 {
					bset["map:window-full-2^15"] = true
				}
				// growth / shrink decided exactly at the threshold
				if e-b == ob.Cap {
					bset["map:range=capacity"] = true
				}
				if ob.Cap > 128 && (e-b)*4 == ob.Cap {
					bset["map:range*4=capacity"] = true
				}
			}
			pcap, pb, pe, pd = ob.Cap, b, e, ob.Digest
		}
	}()
	for k := range bset {
		c.bs = append(c.bs, k)
	}
	sort.Strings(c.bs)

	return c
}

func (c *mapCase) toCase(buckets ...string) cq.Case {
	os := make([]string, len(c.Ops))
	for i, o := range c.Ops {
		if o.K == "r" {
			os[i] = cq.C("Rec", cq.ZU(uint64(o.SSRC)), cq.ZU(uint64(o.Seq)), cq.Z(o.T))
		} else {
			os[i] = "Build"
		}
	}
	obs := make([]string, len(c.Obs))
	for i, ob := range c.Obs {
		obs[i] = cq.T(cq.Z(ob.Cap), cq.Z(ob.Begin), cq.Z(ob.End), ob.Digest)
	}
	bs := dedup(append(append([]string{}, buckets...), c.bs...))

	return cq.Case{
		Coq: cq.T(cq.ZU(uint64(c.Sender)), cq.L(os), cq.L(obs)), JSON: c, Buckets: bs,
		Trivial: c.nrec < 2,
	}
}

// ---- generator ----

// mapGen builds a history adaptively against a live recorder (it looks at the
// real begin / end / capacity to aim the next operation at the branches of
// AddPacket / adjustToSize / RemoveOldPackets).
type mapGen struct {
	r      *rand.Rand
	rec    *twcc.Recorder
	ops    []op
	last   int64 // last unwrapped number handed to Record
	t      int64
	ssrc   uint32
	intent map[string]bool

	started bool
	maxSpan int64
}

// unwrapNext mirrors internal/sequencenumber.Unwrapper.Unwrap (only used to aim
// the generator; the checker uses the Coq model of the unwrapper).
func unwrapNext(last int64, i uint16) int64 {
	lw := uint16(last & 0xFFFF) //nolint:gosec
	delta := int64(i - lw)
	newer := i != lw && (i-lw) < 32768
	if i-lw == 32768 {
		newer = i > lw
	}
	if newer {
		if delta < 0 {
			delta += 65536
		}
	} else if delta > 0 && last+delta-65536 >= 0 {
		delta -= 65536
	}

	return last + delta
}

func (g *mapGen) state() (cp, b, e int64) {
	b, e, slots := mapState(g.rec)

	return int64(len(slots)), b, e
}

// record aims at the unwrapped number u. The operation is skipped when the
// number the unwrapper will really produce would stretch the range beyond
// maxSpan (setNotReceived over such a range is too slow inside Coq); the
// branches without a loop (ignored as too old, newEnd >= end + 2^15) are kept.
func (g *mapGen) record(u int64) {
	seq := uint16(u & 0xFFFF) //nolint:gosec
	if g.started {
		pu := unwrapNext(g.last, seq)
		_, b, e := g.state()
		switch {
		case pu < b && e-pu <= 32768 && e-pu > g.maxSpan:
			g.intent["gen:skipped-for-span"] = true

			return
		case pu >= e && pu+1 < e+32768 && pu+1-b > g.maxSpan:
			g.intent["gen:skipped-for-span"] = true

			return
		}
		g.last = pu
	} else {
		g.last = int64(seq)
		g.started = true
	}
	o := op{K: "r", SSRC: g.ssrc, Seq: seq, T: g.t}
	g.rec.Record(o.SSRC, o.Seq, o.T)
	g.ops = append(g.ops, o)
}

func (g *mapGen) build() {
	g.rec.BuildFeedbackPacket()
	g.ops = append(g.ops, build)
}

func (g *mapGen) tick() {
	switch k := g.r.Intn(20); {
	case k < 14:
		g.t += int64(100 + g.r.Intn(3000))
	case k < 18:
		g.t += int64(g.r.Intn(60000))
	case k < 19:
		g.t -= int64(g.r.Intn(2000))
		if g.t < 0 {
			g.t = 0
		}
	default:
		g.t += int64(150000 + g.r.Intn(200000)) // so that a later sweep removes only a prefix
	}
}

// edgeOr picks one of the values around edge (when positive and <= limit) or a random one in [lo, hi].
func edgeOr(r *rand.Rand, edge, lo, hi, limit int64) int64 {
	if hi > limit {
		hi = limit
	}
	if hi < lo {
		hi = lo
	}
	v := lo + r.Int63n(hi-lo+1)
	if r.Intn(3) == 0 {
		e := edge + int64(r.Intn(3)) - 1
		if e >= 1 && e <= limit {
			v = e
		}
	}

	return v
}

func genMap(r *rand.Rand, maxSpan int64, steps int) ([]op, []string) {
	g := &mapGen{r: r, rec: twcc.NewRecorder(1), ssrc: 7000, intent: map[string]bool{}, maxSpan: maxSpan}
	start := int64(r.Intn(65536))
	switch r.Intn(4) {
	case 0:
		start = int64(r.Intn(300)) // before-begin packets then go below 0
	case 1:
		start = 65535 - int64(r.Intn(300))
	}
	g.t = int64(r.Intn(3000000))
	switch r.Intn(5) {
	case 0:
		g.t = 0
	case 1:
		g.t = 1099511627776 - int64(r.Intn(5000000)) // around 2^40
	}
	g.record(start)
	for i := 0; i < steps; i++ {
		cp, b, e := g.state()
		size := e - b
		room := maxSpan - size
		g.tick()
		k := r.Intn(100)
		if room < 8 && k < 45 {
			k = 70 + r.Intn(15) // full: sweep
		}
		switch {
		case k < 18: // a run of in-order packets at the end
			n := 1 + r.Intn(30)
			if int64(n) > room {
				n = int(max(room, 1))
			}
			for j := 0; j < n; j++ {
				g.record(e + int64(j))
				g.tick()
			}
			g.intent["gen:run"] = true
		case k < 36: // a gap after the end; edge: the new size just at / above the capacity
			gap := edgeOr(r, cp-size, 1, max(room-1, 1), max(room-1, 1))
			if r.Intn(4) == 0 {
				gap = edgeOr(r, cp-size, 100, 3000, max(room-1, 1))
			}
			g.record(e + gap - 1 + int64(r.Intn(2)))
			g.intent["gen:gap-after-end"] = true
		case k < 52: // a packet before begin
			d := edgeOr(r, cp-size, 1, max(room, 1), max(room, 1))
			if r.Intn(3) == 0 {
				d = 1 + int64(r.Intn(3))
			}
			g.record(b - d)
			g.intent["gen:before-begin"] = true
		case k < 62: // inside the range: a hole or a duplicate
			if size > 0 {
				g.record(b + r.Int63n(size))
			}
			g.intent["gen:in-range"] = true
		case k < 66: // duplicate of the last
			g.record(g.last)
			g.intent["gen:duplicate"] = true
		case k < 72:
			g.build()
			g.intent["gen:build"] = true
		case k < 88: // report everything, then a record >= 500 ms later sweeps and shrinks
			g.build()
			g.t += []int64{499000, 500000, 500001, 520000, 700000, 1200000}[r.Intn(6)]
			switch r.Intn(4) {
			case 0:
				g.record(e) // sweeps the whole range
			case 1:
				g.record(e + 1 + int64(r.Intn(50)))
			case 2:
				if size > 0 {
					g.record(b + r.Int63n(size)) // sweep stops at this number
				}
			default:
				g.record(b - 1 - int64(r.Intn(20))) // checkTo below begin: nothing removed
			}
			g.intent["gen:sweep-500ms"] = true
		case k < 92: // newEnd >= end + 2^15: everything older is dropped, no loop
			// only a step of exactly +2^15 from the newest number gets there (or is
			// read as -2^15 and ignored when the wrapped number is >= 2^15)
			g.record(e - 1)
			g.record(e - 1 + 32768)
			g.intent["gen:jump>=2^15"] = true
		case k < 96: // more than 2^15 below the end: ignored
			if size >= 4 {
				g.record(b) // moves the unwrapper's reference down to begin
				g.record(b - (32768 - size) - 1 - int64(r.Intn(3)))
				g.intent["gen:too-old-before-begin"] = true
			}
		default: // climb: consecutive gaps each just above the capacity
			for j := 0; j < 3; j++ {
				cp, b, e = g.state()
				gp := cp - (e - b) + int64(r.Intn(3)) - 1
				if gp < 1 || e+gp-b > maxSpan {
					break
				}
				g.tick()
				g.record(e + gp)
			}
			g.intent["gen:climb"] = true
		}
	}
	bs := []string{"mapgen"}
	for k := range g.intent {
		bs = append(bs, k)
	}
	sort.Strings(bs)

	return g.ops, bs
}

// genMapBig: few operations that take the buffer to capacity target and back to 128.
func genMapBig(r *rand.Rand, target int64) ([]op, []string) {
	g := &mapGen{r: r, rec: twcc.NewRecorder(1), ssrc: 7001, intent: map[string]bool{}, maxSpan: target}
	start := target
	if span := 65536 - 2*target; span > 0 {
		start += r.Int63n(span)
	}
	g.t = int64(1000 + r.Intn(100000))
	g.record(start)
	g.t += 500
	g.record(start + 1)
	g.t += 500
	half := target / 2
	if r.Intn(2) == 0 {
		g.record(start + half + int64(r.Intn(3))) // size = half + 1.. > half: capacity -> target
	} else {
		g.record(start - half + 1 - int64(r.Intn(3)))
	}
	_, b, e := g.state()
	g.t += 700
	g.record(b + (e-b)/2) // a hole inside
	g.build()
	g.t += 600000
	g.record(e + int64(r.Intn(3))) // sweep everything: back to 128
	g.t += 300
	g.record(e + 5)
	g.build()

	return g.ops, []string{"mapgen-big", fmt.Sprintf("gen:big-%d", target)}
}

// budgets in list cells (about 30 ns each inside vm_compute)
const (
	mapBudget      = 15_000_000
	mapBudgetWide  = 60_000_000
	mapBudgetReuse = 8_000_000 // histories of the other generators re-run on the buffer model
	mapBudgetBig   = 8_000_000_000
)
