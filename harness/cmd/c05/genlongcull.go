package main

import "math/rand"

// genLongCull: a long in-order run (600..1100 packets, so the arrival buffer
// grows to capacity 1024) with a few losses, reported by a build; then a packet
// whose arrival time makes the 500 ms cull sweep most of the history but leave
// `keep` entries; then late arrivals of numbers lost INSIDE the retained range
// (and sometimes a duplicate of a retained number), so that range is reported
// again by the next build.
//
// 7 of 8 cases take keep in 140..255: above minCapacity, below capacity/4, so
// RemoveOldPackets' adjustToSize really shrinks the ring (1024 -> 256) while
// more than 128 entries remain.  A ring shrunk below the remaining size aliases
// sn and sn+capacity during reallocate: the first keep-128 retained entries
// get the arrival times of the entries 128 later and holes read as received.
// One number is therefore always lost inside those first keep-128 retained
// numbers and arrives late, so the re-report starts inside the zone an
// under-sized ring would have damaged.  The remaining cases leave 256..900
// entries (no shrink, or a shrink to 512).
func genLongCull(r *rand.Rand) ([]op, []string) {
	n := 600 + r.Intn(500)
	base := int64(r.Intn(65536))
	if r.Intn(3) == 0 {
		base = seqStarts[r.Intn(len(seqStarts))]
	}
	keep := 140 + r.Intn(116) // entries the cull leaves
	if r.Intn(8) == 0 {
		keep = 256 + r.Intn(min(645, n-280))
	}
	cut := n - keep // index of the first retained number
	lost := map[int]bool{}
	if keep < 256 {
		lost[cut+2+r.Intn(keep-128-4)] = true
	}
	for k := 0; k < 2+r.Intn(3); k++ { // inside the retained range
		lost[cut+3+r.Intn(keep-6)] = true
	}
	for k := 0; k < r.Intn(3); k++ { // inside the swept range
		lost[1+r.Intn(cut-1)] = true
	}
	t := int64(r.Intn(5)) * 64000
	times := make([]int64, n)
	ops := make([]op, 0, n+16)
	for i := 0; i < n; i++ {
		t += int64(100 + r.Intn(200))
		times[i] = t
		if lost[i] {
			continue
		}
		ops = append(ops, rec(base+int64(i), t))
		if i == n/2 && r.Intn(3) == 0 {
			ops = append(ops, build)
		}
	}
	ops = append(ops, build)
	// the next packet arrives so late that everything up to index cut-1 is older than 500 ms
	tt := times[cut-1] + 500000 + int64(r.Intn(50))
	if lost[cut-1] {
		tt = times[cut] + 499999
	}
	ops = append(ops, rec(base+int64(n), tt))
	if r.Intn(2) == 0 {
		ops = append(ops, build)
	}
	// late arrivals inside the retained range, lowest first or in random order
	late := []int{}
	for i := cut; i < n; i++ {
		if lost[i] {
			late = append(late, i)
		}
	}
	if r.Intn(2) == 0 {
		r.Shuffle(len(late), func(a, b int) { late[a], late[b] = late[b], late[a] })
	}
	for k, i := range late {
		tt += int64(50 + r.Intn(300))
		ops = append(ops, rec(base+int64(i), tt))
		if k == 0 && r.Intn(3) == 0 {
			ops = append(ops, build)
		}
	}
	if r.Intn(3) == 0 { // duplicate of a retained, already reported number: reported again
		ops = append(ops, rec(base+int64(cut+1+r.Intn(keep-2)), tt+10))
	}
	ops = append(ops, build)
	if r.Intn(2) == 0 { // and life goes on
		ops = append(ops, rec(base+int64(n)+1, tt+1000), rec(base+int64(n)+3, tt+1200), build)
	}

	return ops, []string{"longcull:shrink-after-cull"}
}
