// Generator for C05: TWCC feedback generation (twcc.Recorder).
//
// A case is a history of Record / BuildFeedbackPacket operations driven
// through the real twcc.Recorder; the observables are the packets returned by
// every build after rtcp Marshal -> Unmarshal (plus the marshalled bytes).
package main

import (
	"fmt"
	"math/rand"
	"path/filepath"
	"strings"

	"github.com/pion/interceptor/pkg/twcc"
	"github.com/pion/rtcp"

	"verifharness/internal/cq"
)

type op struct {
	K    string `json:"k"` // "r" record, "b" build
	SSRC uint32 `json:"ssrc,omitempty"`
	Seq  uint16 `json:"seq,omitempty"`
	T    int64  `json:"t,omitempty"`
}

type chunkJ struct {
	Kind int64   `json:"kind"` // 0 run length [sym,len], 1 one-bit vector, 2 two-bit vector
	L    []int64 `json:"l"`
}

type pktJ struct {
	Sender uint32     `json:"sender"`
	Media  uint32     `json:"media"`
	Base   uint16     `json:"base"`
	Count  uint16     `json:"count"`
	Ref    uint32     `json:"ref"`
	Fb     uint8      `json:"fb"`
	HLen   uint16     `json:"hlen"`
	Pad    bool       `json:"pad"`
	MLen   int        `json:"mlen"`
	Chunks []chunkJ   `json:"chunks"`
	Deltas [][2]int64 `json:"deltas"`
	Bytes  []byte     `json:"bytes"`
}

type c05Case struct {
	Sender uint32   `json:"sender"`
	Ops    []op     `json:"ops"`
	Outs   [][]pktJ `json:"outs"`
	Note   string   `json:"note,omitempty"`
	fails  []string // implementation failures seen while running
	nrec   int
	nbuild int
	npkt   int
}

func project(p rtcp.Packet) (pj pktJ, err error) {
	defer func() {
		if r := recover(); r != nil {
			err = fmt.Errorf("panic in marshal/unmarshal: %v", r)
		}
	}()
	tcc, ok := p.(*rtcp.TransportLayerCC)
	if !ok {
		return pj, fmt.Errorf("not a TransportLayerCC: %T", p)
	}
	raw, err := tcc.Marshal()
	if err != nil {
		return pj, fmt.Errorf("marshal: %w", err)
	}
	var back rtcp.TransportLayerCC
	if err = back.Unmarshal(raw); err != nil {
		return pj, fmt.Errorf("unmarshal: %w", err)
	}
	pj = pktJ{
		Sender: back.SenderSSRC, Media: back.MediaSSRC, Base: back.BaseSequenceNumber, Count: back.PacketStatusCount,
		Ref: back.ReferenceTime, Fb: back.FbPktCount, HLen: back.Header.Length, Pad: back.Header.Padding,
		MLen: len(raw), Bytes: raw, Chunks: []chunkJ{}, Deltas: [][2]int64{},
	}
	for _, c := range back.PacketChunks {
		switch v := c.(type) {
		case *rtcp.RunLengthChunk:
			pj.Chunks = append(pj.Chunks, chunkJ{Kind: 0, L: []int64{int64(v.PacketStatusSymbol), int64(v.RunLength)}})
		case *rtcp.StatusVectorChunk:
			l := make([]int64, len(v.SymbolList))
			for i, s := range v.SymbolList {
				l[i] = int64(s)
			}
			k := int64(1)
			if v.SymbolSize == rtcp.TypeTCCSymbolSizeTwoBit {
				k = 2
			}
			pj.Chunks = append(pj.Chunks, chunkJ{Kind: k, L: l})
		default:
			return pj, fmt.Errorf("unknown chunk type %T", c)
		}
	}
	for _, d := range back.RecvDeltas {
		pj.Deltas = append(pj.Deltas, [2]int64{int64(d.Type), d.Delta})
	}

	return pj, nil
}

func run(sender uint32, ops []op) *c05Case {
	c := &c05Case{Sender: sender, Ops: ops, Outs: [][]pktJ{}}
	rec := twcc.NewRecorder(sender)
	func() {
		defer func() {
			if r := recover(); r != nil {
				c.fails = append(c.fails, fmt.Sprintf("panic in Recorder: %v", r))
			}
		}()
		for _, o := range ops {
			if o.K == "r" {
				rec.Record(o.SSRC, o.Seq, o.T)
				c.nrec++

				continue
			}
			c.nbuild++
			out := []pktJ{}
			for _, p := range rec.BuildFeedbackPacket() {
				pj, err := project(p)
				if err != nil {
					c.fails = append(c.fails, err.Error())

					continue
				}
				out = append(out, pj)
				c.npkt++
			}
			c.Outs = append(c.Outs, out)
		}
	}()

	return c
}

func coqPkt(p pktJ) string {
	chs := make([]string, len(p.Chunks))
	for i, ch := range p.Chunks {
		chs[i] = cq.T(cq.Z(ch.Kind), cq.LZ(ch.L))
	}
	ds := make([]string, len(p.Deltas))
	for i, d := range p.Deltas {
		ds[i] = cq.T(cq.Z(d[0]), cq.Z(d[1]))
	}
	pad := "0"
	if p.Pad {
		pad = "1"
	}

	return cq.C("Pkt", cq.ZU(uint64(p.Sender)), cq.ZU(uint64(p.Media)), cq.ZU(uint64(p.Base)), cq.ZU(uint64(p.Count)),
		cq.ZU(uint64(p.Ref)), cq.ZU(uint64(p.Fb)), cq.ZU(uint64(p.HLen)), pad, cq.Z(int64(p.MLen)),
		cq.L(chs), cq.L(ds), cq.Bytes(p.Bytes))
}

func (c *c05Case) toCase(buckets ...string) cq.Case {
	os := make([]string, len(c.Ops))
	for i, o := range c.Ops {
		if o.K == "r" {
			os[i] = cq.C("Rec", cq.ZU(uint64(o.SSRC)), cq.ZU(uint64(o.Seq)), cq.Z(o.T))
		} else {
			os[i] = "Build"
		}
	}
	outs := make([]string, len(c.Outs))
	for i, ps := range c.Outs {
		l := make([]string, len(ps))
		for j, p := range ps {
			l[j] = coqPkt(p)
		}
		outs[i] = cq.L(l)
	}
	bs := append([]string{}, buckets...)
	for _, ps := range c.Outs {
		if len(ps) > 1 {
			bs = append(bs, "obs:split-build")
		}
		for _, p := range ps {
			for _, ch := range p.Chunks {
				switch {
				case ch.Kind == 0 && ch.L[1] >= 8191:
					bs = append(bs, "obs:runlength-8191")
				case ch.Kind == 0:
					bs = append(bs, "obs:runlength")
				case ch.Kind == 1:
					bs = append(bs, "obs:onebit")
				default:
					bs = append(bs, "obs:twobit")
				}
			}
			for _, d := range p.Deltas {
				switch {
				case d[1] < 0:
					bs = append(bs, "obs:negative-delta")
				case d[0] == 2:
					bs = append(bs, "obs:large-delta")
				}
			}
			if p.Pad {
				bs = append(bs, "obs:padding")
			}
			if p.Count > 0x7000 {
				bs = append(bs, "obs:count>0x7000")
			}
		}
	}
	bs = dedup(bs)

	return cq.Case{
		Coq: cq.T(cq.ZU(uint64(c.Sender)), cq.L(os), cq.L(outs)), JSON: c, Buckets: bs,
		Trivial: c.npkt == 0 || c.nrec < 2,
	}
}

func dedup(xs []string) []string {
	seen := map[string]bool{}
	out := []string{}
	for _, x := range xs {
		if !seen[x] {
			seen[x] = true
			out = append(out, x)
		}
	}

	return out
}

// ---- generators ----

var seqStarts = []int64{0, 1, 100, 32760, 32767, 32768, 65000, 65530, 65535}

func rec(seq int64, t int64) op {
	return op{K: "r", SSRC: 5000, Seq: uint16(seq & 0xFFFF), T: t} //nolint:gosec
}

var build = op{K: "b"}

// structured traffic: mostly in order, loss, reordering, duplicates, jumps, time anomalies
func genStructured(r *rand.Rand) ([]op, []string) {
	n := 5 + r.Intn(75)
	if r.Intn(7) == 0 {
		n = 100 + r.Intn(150)
	}
	ops := make([]op, 0, n+4)
	seq := int64(r.Intn(65536))
	if r.Intn(3) == 0 {
		seq = seqStarts[r.Intn(len(seqStarts))]
	}
	t := int64(r.Intn(2000000))
	switch r.Intn(6) {
	case 0:
		t = 0
	case 1: // beyond the 24-bit reference range (12.4 days)
		t = 1073741824000 - int64(r.Intn(3000000)) + int64(r.Intn(2))*2000000
	}
	bset := map[string]bool{}
	buildP := 5 + r.Intn(40)
	lossP := r.Intn(30)
	reorderP := r.Intn(20)
	dupP := r.Intn(15)
	ssrc := uint32(r.Intn(4)) + 1000 //nolint:gosec
	hist := []int64{}
	for i := 0; i < n; i++ {
		// time step
		switch k := r.Intn(100); {
		case k < 55:
			t += int64(r.Intn(3000))
		case k < 75:
			t += int64(r.Intn(70000))
			bset["dt-64ms"] = true
		case k < 80:
			t -= int64(r.Intn(3000))
			bset["dt-negative"] = true
		case k < 84:
			t += 63000 + int64(r.Intn(2000)) // around 255/256 ticks
			bset["dt-255-ticks"] = true
		case k < 87:
			t += 8191000 + int64(r.Intn(3000)) - 1500 // around 32767 ticks
			bset["dt-32767-ticks"] = true
		case k < 89:
			t -= 8192000 + int64(r.Intn(3000)) - 1500
			bset["dt-minus-32768-ticks"] = true
		case k < 92:
			t += 400000 + int64(r.Intn(300000)) // around the 500 ms history
			bset["dt-500ms"] = true
		case k < 94:
			t += int64(r.Intn(120)) * 1000000 // up to minutes
			bset["dt-minutes"] = true
		}
		if t < 0 {
			t = 0
		}
		// which sequence number
		s := seq
		switch k := r.Intn(100); {
		case k < reorderP && len(hist) > 0:
			s = hist[r.Intn(len(hist))] - int64(r.Intn(4))
			bset["reorder/late"] = true
		case k < reorderP+dupP && len(hist) > 0:
			s = hist[len(hist)-1-r.Intn(min(len(hist), 5))]
			bset["duplicate"] = true
		default:
			if r.Intn(100) < lossP {
				g := 1 + r.Intn(3)
				switch k := r.Intn(400); {
				case k < 30:
					g = 5 + r.Intn(12) // around 7 / 14
				case k == 30:
					g = 8185 + r.Intn(12)
					bset["gap-8191"] = true
				case k == 31:
					g = 32760 + r.Intn(12) // around 0x7FFE / 2^15
					bset["gap-32766"] = true
				case k < 60:
					g = 20 + r.Intn(300)
				}
				seq += int64(g)
				bset["loss"] = true
			}
			s = seq
			seq++
		}
		if r.Intn(300) == 0 {
			seq += 32768 + int64(r.Intn(40000))
			bset["jump>2^15"] = true
		}
		if r.Intn(40) == 0 {
			ssrc = uint32(r.Intn(4)) + 1000 //nolint:gosec
		}
		o := rec(s, t)
		o.SSRC = ssrc
		ops = append(ops, o)
		hist = append(hist, s)
		if len(hist) > 12 {
			hist = hist[1:]
		}
		if r.Intn(100) < buildP {
			ops = append(ops, build)
			if r.Intn(6) == 0 {
				ops = append(ops, build)
			}
		}
	}
	ops = append(ops, build)
	bs := []string{"structured"}
	for k := range bset {
		bs = append(bs, k)
	}

	return ops, bs
}

// boundary stream: one feature at its edge values
func genBoundary(r *rand.Rand, i int) ([]op, []string) {
	base := seqStarts[r.Intn(len(seqStarts))]
	t0 := int64(r.Intn(5)) * 64000
	if r.Intn(2) == 0 {
		t0 += []int64{0, 1, 124, 125, 126, 249, 250, 63999, 31999}[r.Intn(9)]
	}
	switch i % 8 {
	case 0: // a gap of exactly g missing numbers between two received packets
		g := []int64{0, 1, 5, 6, 7, 12, 13, 14, 15, 8190, 8191, 8192, 8193, 16382, 32764, 32765, 32766, 32767}[r.Intn(18)] + int64(r.Intn(2))
		pre := r.Intn(16)
		ops := []op{}
		for k := 0; k < pre; k++ {
			ops = append(ops, rec(base+int64(k), t0+int64(k)*300))
		}
		if r.Intn(2) == 0 && pre > 0 {
			ops = append(ops, build)
		}
		ops = append(ops, rec(base+int64(pre)+g, t0+20000), rec(base+int64(pre)+g+1, t0+20100), build)

		return ops, []string{"boundary:gap"}
	case 1: // delta of exactly d ticks (+- rounding edge) after the first packet
		d := []int64{0, 1, 254, 255, 256, 257, 32766, 32767, 32768, 32769, -1, -2, -32767, -32768, -32769, -32770}[r.Intn(16)]
		off := []int64{-126, -125, -124, -1, 0, 1, 124, 125, 126}[r.Intn(9)]
		t1 := t0 + 8300000
		ops := []op{rec(base, t1), rec(base+1, t1+d*250+off), rec(base+2, t1+d*250+off+100), build}

		return ops, []string{"boundary:delta-ticks"}
	case 2: // symbol patterns: k small-delta packets then a large one, periodic losses
		ops := []op{}
		k := []int{6, 7, 8, 13, 14, 15, 20, 21, 22}[r.Intn(9)]
		period := 2 + r.Intn(9)
		t := t0
		for j := 0; j < k+r.Intn(30); j++ {
			if r.Intn(2) == 0 && j%period == 0 {
				continue
			}
			t += 200
			if j == k || r.Intn(25) == 0 {
				t += 70000
			}
			ops = append(ops, rec(base+int64(j), t))
		}
		ops = append(ops, build)

		return ops, []string{"boundary:symbol-pattern"}
	case 3: // reordering around a build: report, then an older packet arrives
		ops := []op{}
		n := 3 + r.Intn(20)
		for j := 0; j < n; j++ {
			ops = append(ops, rec(base+10+int64(j), t0+int64(j)*1000))
		}
		ops = append(ops, build)
		late := base + 10 - int64(r.Intn(12))
		dt := []int64{1000, 100000, 499000, 500000, 501000, 2000000}[r.Intn(6)]
		ops = append(ops, rec(late, t0+int64(n)*1000+dt))
		if r.Intn(2) == 0 {
			ops = append(ops, rec(base+10+int64(n), t0+int64(n)*1000+dt+10))
		}
		ops = append(ops, build)
		if r.Intn(2) == 0 {
			ops = append(ops, rec(late-1-int64(r.Intn(3)), t0+int64(n)*1000+dt+600000), build)
		}

		return ops, []string{"boundary:reorder-after-build"}
	case 4: // culling: report, wait around 500 ms, new packets, then an old duplicate
		ops := []op{}
		n := 2 + r.Intn(10)
		for j := 0; j < n; j++ {
			ops = append(ops, rec(base+int64(j), t0+int64(j)*int64(r.Intn(2000))))
		}
		ops = append(ops, build)
		w := []int64{499999, 500000, 500001, 510000, 1000000}[r.Intn(5)]
		tt := t0 + w + int64(r.Intn(3))*1000
		ops = append(ops, rec(base+int64(n)+int64(r.Intn(3)), tt))
		if r.Intn(2) == 0 {
			ops = append(ops, build)
		}
		ops = append(ops, rec(base+int64(r.Intn(n)), tt+100)) // duplicate of a possibly culled number
		ops = append(ops, rec(base+int64(n)+5, tt+200), build)

		return ops, []string{"boundary:cull-500ms"}
	case 5: // window: jumps of about 2^15 forward and packets just inside / outside behind
		ops := []op{rec(base, t0), rec(base+1, t0+100)}
		if r.Intn(2) == 0 {
			ops = append(ops, build)
		}
		j := 32766 + int64(r.Intn(5))
		ops = append(ops, rec(base+1+j, t0+1000))
		back := []int64{32766, 32767, 32768, 32769}[r.Intn(4)]
		ops = append(ops, rec(base+1+j-back, t0+1100), build)
		ops = append(ops, rec(base+2+j, t0+1200), build)

		return ops, []string{"boundary:window-2^15"}
	case 6: // reference time rounding and the 24-bit range
		tt := []int64{63999, 64000, 64001, 127999, 128000, 1073741823999, 1073741824000, 1073741824001, 1073741888000}[r.Intn(9)]
		ops := []op{rec(base, tt), rec(base+1, tt+int64(r.Intn(500))), build, rec(base+2, tt+64000), build}

		return ops, []string{"boundary:reference-time"}
	default: // long runs of one symbol, optionally ended by a different one
		n := []int{13, 14, 15, 100, 300}[r.Intn(5)]
		ops := []op{}
		t := t0
		for j := 0; j < n; j++ {
			t += int64(100 + r.Intn(50))
			ops = append(ops, rec(base+int64(j), t))
		}
		if r.Intn(2) == 0 {
			ops = append(ops, rec(base+int64(n)+int64(r.Intn(3)), t+100000))
		}
		ops = append(ops, build)

		return ops, []string{"boundary:runs"}
	}
}

// a run of more than 8191 received packets (run-length cap of received symbols)
func genLongRun(r *rand.Rand) ([]op, []string) {
	n := 8185 + r.Intn(14)
	ops := make([]op, 0, n+3)
	base := int64(r.Intn(65536))
	t := int64(1000)
	for j := 0; j < n; j++ {
		t += 100
		ops = append(ops, rec(base+int64(j), t))
	}
	ops = append(ops, build)

	return ops, []string{"long-run-8191"}
}

func main() {
	o := cq.ParseFlags()
	r := o.Rand()
	// several sets only to get more (smaller) shards evaluated in parallel; all use the same checkers
	mk := func(name string) *cq.Set {
		return &cq.Set{
			Name: name, Import: "IV.Check.C05Check", CaseType: "c05_case",
			Checks: []string{"rec_mismatches", "rec_spec_failures"},
		}
	}
	var fails []cq.ImplFailure
	sets := []*cq.Set{mk("c05bnd")}
	for i := 0; i < 8; i++ {
		sets = append(sets, mk(fmt.Sprintf("c05str%d", i)))
	}
	// the concrete-buffer sets (mapstate.go): several sets for parallel shards, one checker
	mkMap := func(name string) *cq.Set {
		return &cq.Set{Name: name, Import: "IV.Check.C05MapCheck", CaseType: "c05map_case", Checks: []string{"cmap_mismatches"}}
	}
	const nMapSets = 6
	for i := 0; i < nMapSets; i++ {
		sets = append(sets, mkMap(fmt.Sprintf("c05map%d", i)))
	}
	mapSet0 := len(sets) - nMapSets
	nmap, nmapCut, maxCap := 0, 0, int64(0)
	addMap := func(mc *mapCase, set *cq.Set, buckets ...string) {
		for _, f := range mc.fails {
			fails = append(fails, cq.ImplFailure{Kind: "marshal-or-panic", Detail: f, Case: mc})
		}
		for _, b := range mc.bs {
			if b == "map:cut-for-cost" {
				nmapCut++
			}
		}
		for _, ob := range mc.Obs {
			maxCap = max(maxCap, ob.Cap)
		}
		nmap++
		set.Cases = append(set.Cases, mc.toCase(buckets...))
	}
	mapExtra := func() map[string]interface{} {
		return map[string]interface{}{
			"map_state_via": mapStateVia, "map_cases": nmap, "map_cases_cut_for_cost": nmapCut,
			"map_max_capacity_observed": maxCap,
			"map_observables":           "after every Record: len(arrivalTimes), beginSequenceNumber, endSequenceNumber, digest of arrivalTimes[0..cap)",
		}
	}
	cur := 0
	add := func(c *c05Case, buckets ...string) {
		for _, f := range c.fails {
			fails = append(fails, cq.ImplFailure{Kind: "marshal-or-panic", Detail: f, Case: c})
		}
		sets[cur].Cases = append(sets[cur].Cases, c.toCase(buckets...))
	}
	nonEmpty := func() []*cq.Set {
		out := []*cq.Set{}
		for _, s := range sets {
			if len(s.Cases) > 0 {
				out = append(out, s)
			}
		}

		return out
	}
	if o.Replay != "" {
		var c c05Case
		from := cq.LoadReplay(o.Replay, &c)
		add(run(c.Sender, c.Ops), "replay")
		budget := int64(mapBudgetBig)
		if strings.HasPrefix(from, "c05map") {
			budget = 0 // a replay of the map set itself: the whole history
		}
		addMap(runMap(c.Sender, c.Ops, budget), sets[mapSet0], "replay")
		cq.Write(o, "replay", nonEmpty(), mapExtra(), fails)

		return
	}
	for _, f := range o.CorpusFiles() {
		var c c05Case
		cq.LoadReplay(f, &c)
		add(run(c.Sender, c.Ops), "corpus:"+filepath.Base(f))
		addMap(runMap(c.Sender, c.Ops, mapBudget), sets[mapSet0], "corpus:"+filepath.Base(f))
	}
	nb := o.Scale(400, 3000)
	if o.N > 0 { // -n (search campaigns of bin/check): split the volume, no 8192-record runs
		nb = o.N / 2
	}
	reuseEvery := o.Scale(14, 10)
	if o.N > 0 { // search campaigns look for specification failures only
		reuseEvery = 0
	}
	for i := 0; i < nb; i++ {
		ops, bs := genBoundary(r, i)
		sender := uint32(r.Intn(1 << 16)) //nolint:gosec
		add(run(sender, ops), bs...)
		if reuseEvery > 0 && i%reuseEvery == 0 {
			addMap(runMap(sender, ops, mapBudgetReuse), sets[mapSet0+(i/reuseEvery)%nMapSets], bs...)
		}
	}
	ns := o.Scale(440, 4000)
	if o.N > 0 {
		ns = o.N - o.N/2
	}
	for i := 0; i < ns; i++ {
		cur = 1 + i%8
		ops, bs := genStructured(r)
		sender := uint32(r.Intn(1 << 16)) //nolint:gosec
		add(run(sender, ops), bs...)
		if reuseEvery > 0 && i%reuseEvery == 0 {
			addMap(runMap(sender, ops, mapBudgetReuse), sets[mapSet0+(i/reuseEvery)%nMapSets], bs...)
		}
	}
	// long run, 500 ms cull that leaves 129..900 entries, late arrivals in the retained range
	// (genlongcull.go): in the ordinary sets, spread over the c05str shards, and on the buffer model
	nc := o.Scale(4, 40)
	if o.N > 0 {
		nc = 1 + o.N/200
	}
	for i := 0; i < nc; i++ {
		cur = 1 + (i*3+2)%8
		ops, bs := genLongCull(r)
		sender := uint32(r.Intn(1 << 16)) //nolint:gosec
		add(run(sender, ops), bs...)
		if o.N == 0 {
			addMap(runMap(sender, ops, mapBudgetBig), sets[mapSet0+i%nMapSets], bs...)
		}
	}
	// one long-lived recorder producing more than 256 (every third case: more than 512)
	// feedback packets with many small builds (genmanybuilds.go): the 8-bit feedback packet
	// counter goes 254, 255, 0, 1 between builds or inside one split build
	nmb := o.Scale(3, 24)
	if o.N > 0 {
		nmb = 1
	}
	for i := 0; i < nmb; i++ {
		cur = 1 + (i*3+1)%8
		target := 257 + r.Intn(40)
		if i%3 == 2 {
			target = 513 + r.Intn(30)
		}
		ops, bs := genManyBuilds(r, target, i%2 == 0)
		add(run(uint32(r.Intn(1<<16)), ops), bs...) //nolint:gosec
	}
	nl := o.Scale(0, 2)
	if o.N > 0 {
		nl = 0
	}
	for i := 0; i < nl; i++ {
		ops, bs := genLongRun(r)
		add(run(4242, ops), bs...)
	}
	// concrete buffer against the real arrival map: own generator (own PRNG stream,
	// so the histories of the other sets do not depend on it)
	bigSets := []*cq.Set{} // evaluated first: the longest single cases
	if o.N == 0 {
		rm := rand.New(rand.NewSource(o.Seed*1000003 + 5)) //nolint:gosec
		spans := []int64{150, 150, 300, 300, 300, 600, 600, 1200, 1200, 2500, 2500, 4200}
		nm := o.Scale(140, 1400)
		for i := 0; i < nm; i++ {
			span := spans[rm.Intn(len(spans))]
			steps := 8 + rm.Intn(40)
			if span > 2000 { // wide and short: every operation at 2048 / 4096 slots is expensive in Coq
				steps = 5 + rm.Intn(10)
			}
			ops, bs := genMap(rm, span, steps)
			budget := int64(mapBudget)
			if span > 2000 { // one gap that takes the buffer to 4096 slots costs about 35e6
				budget = mapBudgetWide
			}
			addMap(runMap(uint32(rm.Intn(1<<16)), ops, budget), sets[mapSet0+i%nMapSets], bs...) //nolint:gosec
		}
		for i := 0; i < o.Scale(4, 12); i++ { // up to 4096 slots (2048 for every other one) and back to 128
			ops, bs := genMapBig(rm, 4096/int64(1+i%2))
			addMap(runMap(uint32(rm.Intn(1<<16)), ops, mapBudgetBig), sets[mapSet0+i%nMapSets], bs...) //nolint:gosec
		}
		// few operations up to a large capacity and back; one set each (one shard each)
		// (measured: 8192 about 9 s, 16384 about 27 s, 32768 more than 45 s of vm_compute each)
		bigs := []int64{8192, 8192}
		if o.Tier == "thorough" {
			bigs = []int64{32768, 32768, 16384, 16384, 8192, 8192, 8192}
		}
		for i, target := range bigs {
			ops, bs := genMapBig(rm, target)
			s := mkMap(fmt.Sprintf("c05mapbig%d", i))
			bigSets = append(bigSets, s)
			addMap(runMap(uint32(rm.Intn(1<<16)), ops, mapBudgetBig), s, bs...) //nolint:gosec
		}
	}
	cq.Write(o, "history of Record/Build operations on twcc.Recorder, distinct by content; non-trivial = at least 2 records and at least one feedback packet produced (map sets: at least 2 records)",
		append(bigSets, nonEmpty()...), mapExtra(), fails)
}
