// Round 4: outgoing packets whose HEADER disagrees with the binding they are written on, inside a
// stream life cycle.
//
// The byte-level fuzz of main.go and the feedback histories of hist.go stamp every outgoing packet with
// the SSRC (and payload type) of the one stream they bind, and never unbind it. But the header of an
// outgoing packet is an input ("no outgoing RTP packet of any size or header shape"): RTX / FEC packets
// go down the same writer chain with their own SSRC, applications keep writing on a stream's writer
// after UnbindLocalStream, SSRC 0 happens. Several interceptors branch on header.SSRC (the two gcc
// pacers look the next writer up by it, nack responder / flexfec / report sender compare it with
// info.SSRC), and the miss branch of such a lookup is an error path nothing else reaches.
//
//	c02life: life-cycle histories against every interceptor configuration: several local streams,
//	         writes with own / foreign / RTX / FEC / stale / never-bound / 0 / 0xFFFFFFFF header SSRC, foreign
//	         payload types, other header shapes and payload sizes, writes on the writer of an unbound
//	         stream, Bind / Unbind in between; then a well-formed packet on every bound stream, Unbind of
//	         every stream, Close. Every call under the watchdog; a well-formed packet must be accepted
//	         AND reach a next writer.
//	c02np:   call histories on a real gcc.NoOpPacer (directly, through gcc.SendSideBWE, through the cc
//	         interceptor), compared call by call with Model/StreamTableLock.v (which writer got the
//	         packet / ErrUnknownStream). Deterministic (no timing).
package main

import (
	"errors"
	"fmt"
	"math/rand"
	"sync"
	"time"

	"github.com/pion/interceptor"
	"github.com/pion/interceptor/pkg/cc"
	"github.com/pion/interceptor/pkg/gcc"
	"github.com/pion/interceptor/pkg/pacing"
	"github.com/pion/rtcp"
	"github.com/pion/rtp"

	"verifharness/internal/cq"
)

// ---------------------------------------------------------------- c02life: scenarios

const lifeSlots = 4

func slotSSRC(j int) uint32 { return mediaSSRC + uint32(j)*0x101 } //nolint:gosec
func slotRTX(j int) uint32  { return 0x7700 + uint32(j) }          //nolint:gosec
func slotFEC(j int) uint32  { return 0x9900 + uint32(j) }          //nolint:gosec

type lifeOp struct {
	Op     int    `json:"op"`           // 0 Write, 1 BindLocalStream, 2 UnbindLocalStream, 3 Close
	Slot   int    `json:"slot"`         // which stream (its writer for Write)
	HS     int    `json:"hs,omitempty"` // Write: header SSRC: 0 the stream's own, 1 the SSRC of stream Val, 2 own RTX, 3 own FEC, 4 the literal Val
	Val    uint32 `json:"val,omitempty"`
	PT     int    `json:"pt,omitempty"`    // Write: 0 = the stream's payload type (96), else this value
	Shape  int    `json:"shape,omitempty"` // Write: 0 TWCC extension (one-byte), 1 + CSRCs, 2 no extension, 3 two-byte profile, 4 marker + padding bit, 5 version 0
	PayLen int    `json:"paylen"`
	// observed
	Status    int    `json:"status"`
	WF        int    `json:"wf"`
	Delivered int    `json:"delivered"`
	Bits      int    `json:"bits"` // marshalled size of the packet in bits
	Detail    string `json:"detail,omitempty"`
}

type lifeScn struct {
	K       int64    `json:"k"`
	Target  string   `json:"target"`
	Pattern string   `json:"pattern"`
	Ops     []lifeOp `json:"ops"`
}

type lifeResult struct {
	Life    *lifeScn `json:"life"`
	Burst   int      `json:"burst"` // size in bits of the target's token bucket (pacing interceptor), 0 = none
	Slow    int      `json:"slow,omitempty"`
	Skipped bool     `json:"skipped,omitempty"`
}

var lifePatterns = []string{
	"unknown-then-good", "unknown-then-bind", "unknown-then-unbind", "unknown-first", "stale-writer", "stale-ssrc",
	"cross", "rtx-fec", "zero-max", "pt-mismatch", "many-unknown", "shapes", "random", "random",
}

func targetNames() []string {
	var ns []string
	for _, t := range targets() {
		ns = append(ns, t.name)
	}

	return ns
}

// genLife: scenario k of the family: target and pattern are enumerated (every combination once per
// 17 x 14 scenarios), the details are drawn.
func genLife(r *rand.Rand, k int64) lifeScn {
	names := targetNames()
	s := lifeScn{K: k, Target: names[int(k)%len(names)], Pattern: lifePatterns[(int(k)/len(names))%len(lifePatterns)]}
	bound := make([]bool, lifeSlots)
	ever := make([]bool, lifeSlots)
	bind := func(j int) {
		s.Ops = append(s.Ops, lifeOp{Op: 1, Slot: j})
		bound[j], ever[j] = true, true
	}
	unbind := func(j int) {
		s.Ops = append(s.Ops, lifeOp{Op: 2, Slot: j})
		bound[j] = false
	}
	good := func(j int) {
		s.Ops = append(s.Ops, lifeOp{Op: 0, Slot: j, PayLen: []int{0, 1, 100, 1200}[r.Intn(4)]})
	}
	write := func(op lifeOp) { op.Op = 0; s.Ops = append(s.Ops, op) }
	// a header SSRC that no bound stream owns
	unknown := func(j int) lifeOp {
		op := lifeOp{Slot: j, PayLen: 100}
		switch r.Intn(6) {
		case 0:
			op.HS, op.PT = 2, 97
		case 1:
			op.HS, op.PT = 3, 118
		case 2:
			op.HS, op.Val = 4, 0
		case 3:
			op.HS, op.Val = 4, 0xFFFFFFFF
		default:
			op.HS, op.Val = 4, 0xdead0000+uint32(r.Intn(65536)) //nolint:gosec
		}

		return op
	}
	switch s.Pattern {
	case "unknown-then-good":
		bind(0)
		bind(1)
		if r.Intn(2) == 0 {
			good(0)
		}
		for i := 0; i < 1+r.Intn(3); i++ {
			write(unknown(r.Intn(2)))
		}
		good(0)
		good(1)
	case "unknown-then-bind":
		bind(0)
		if r.Intn(2) == 0 {
			good(0)
		}
		write(unknown(0))
		bind(1)
		good(1)
		good(0)
	case "unknown-then-unbind":
		bind(0)
		bind(1)
		write(unknown(1))
		unbind(0)
		good(1)
	case "unknown-first":
		bind(0)
		write(unknown(0))
		good(0)
		good(0)
	case "stale-writer": // the application keeps writing on the writer of a stream it has unbound
		bind(0)
		bind(1)
		good(0)
		unbind(0)
		for i := 0; i < 1+r.Intn(3); i++ {
			write(lifeOp{Slot: 0, PayLen: 100})
		}
		good(1)
		bind(0)
		good(0)
	case "stale-ssrc": // the SSRC of an unbound stream on the writer of a bound one
		bind(0)
		bind(1)
		good(1)
		unbind(1)
		write(lifeOp{Slot: 0, HS: 1, Val: 1, PayLen: 100})
		good(0)
		bind(1)
		good(1)
	case "cross": // the SSRC of another bound stream
		bind(0)
		bind(1)
		bind(2)
		write(lifeOp{Slot: 0, HS: 1, Val: 1, PayLen: 100})
		write(lifeOp{Slot: 2, HS: 1, Val: 0, PayLen: 0})
		good(0)
		good(1)
	case "rtx-fec":
		bind(0)
		good(0)
		write(lifeOp{Slot: 0, HS: 2, PT: 97, PayLen: 102})
		write(lifeOp{Slot: 0, HS: 3, PT: 118, PayLen: 60})
		good(0)
		write(lifeOp{Slot: 0, HS: 2, PT: 0, PayLen: 2})
		write(lifeOp{Slot: 0, HS: 3, PT: 97, PayLen: 0})
	case "zero-max":
		bind(0)
		write(lifeOp{Slot: 0, HS: 4, Val: 0, PayLen: r.Intn(200)})
		good(0)
		write(lifeOp{Slot: 0, HS: 4, Val: 0xFFFFFFFF, PayLen: r.Intn(200)})
		good(0)
	case "pt-mismatch":
		bind(0)
		for _, pt := range []int{97, 118, 127, 1} {
			write(lifeOp{Slot: 0, PT: pt, PayLen: r.Intn(200)})
		}
		good(0)
	case "many-unknown":
		bind(0)
		bind(1)
		for i := 0; i < 10+r.Intn(30); i++ {
			write(unknown(r.Intn(2)))
			if r.Intn(5) == 0 {
				good(r.Intn(2))
			}
		}
	case "shapes": // unknown SSRC x header shape x payload size
		bind(0)
		for sh := 0; sh <= 5; sh++ {
			op := unknown(0)
			op.Shape, op.PayLen = sh, []int{0, 1, 1460, 1461, 5000, 65535}[r.Intn(6)]
			write(op)
			if r.Intn(2) == 0 { // own SSRC, odd shape: not "well formed" for the oracle, must not wedge either
				write(lifeOp{Slot: 0, Shape: sh, PayLen: 50})
			}
		}
		good(0)
	default: // random
		bind(r.Intn(lifeSlots))
		for i := 0; i < 10+r.Intn(30); i++ {
			j := r.Intn(lifeSlots)
			switch x := r.Intn(10); {
			case x == 0 && !bound[j]:
				bind(j)
			case x == 1 && bound[j]:
				unbind(j)
			case !ever[j]:
				bind(j)
			case x < 5:
				write(unknown(j))
			case x < 6:
				write(lifeOp{Slot: j, HS: 1, Val: uint32(r.Intn(lifeSlots)), PayLen: r.Intn(300), Shape: r.Intn(6)}) //nolint:gosec
			default:
				write(lifeOp{Slot: j, PayLen: r.Intn(1200)})
			}
		}
	}
	// whatever came before: every bound stream still carries a well-formed packet, can be unbound, and the
	// interceptor can be closed
	some := false
	for j := range bound {
		if bound[j] {
			good(j)
			some = true
		}
	}
	if !some {
		bind(0)
		good(0)
	}
	for j := range bound {
		if bound[j] {
			unbind(j)
		}
	}
	s.Ops = append(s.Ops, lifeOp{Op: 3})

	return s
}

// ---------------------------------------------------------------- c02life: running one scenario

type sentKey struct {
	ssrc uint32
	seq  uint16
}

func runLife(s lifeScn) lifeResult {
	res := lifeResult{Life: &s}
	var t *target
	for _, x := range targets() {
		if x.name == s.Target {
			x := x
			t = &x
		}
	}
	fail := func(msg string) lifeResult {
		s.Ops = []lifeOp{{Op: 1, Status: 1, Detail: msg}}

		return res
	}
	if t == nil {
		return fail("unknown target " + s.Target)
	}
	ic, err := t.mk()
	if err != nil {
		return fail("construct: " + err.Error())
	}
	if s.Target == "pacing" {
		res.Burst = pacing.VerifBurst(pacingRate, pacingInterval)
	}
	ic.BindRTCPWriter(interceptor.RTCPWriterFunc(func([]rtcp.Packet, interceptor.Attributes) (int, error) { return 0, nil }))
	got := make(chan sentKey, 8192)
	sink := interceptor.RTPWriterFunc(func(h *rtp.Header, p []byte, _ interceptor.Attributes) (int, error) {
		select {
		case got <- sentKey{h.SSRC, h.SequenceNumber}:
		default:
		}

		return h.MarshalSize() + len(p), nil
	})
	infos := make([]*interceptor.StreamInfo, lifeSlots)
	for j := range infos {
		infos[j] = &interceptor.StreamInfo{
			SSRC: slotSSRC(j), PayloadType: 96, ClockRate: 90000, MimeType: "video/VP8",
			RTCPFeedback:               []interceptor.RTCPFeedback{{Type: "nack"}, {Type: "nack", Parameter: "pli"}, {Type: "transport-cc"}, {Type: "ccfb"}},
			RTPHeaderExtensions:        []interceptor.RTPHeaderExtension{{URI: twccURI, ID: 1}},
			SSRCForwardErrorCorrection: slotFEC(j), PayloadTypeForwardErrorCorrection: 118,
			SSRCRetransmission: slotRTX(j), PayloadTypeRetransmission: 97,
		}
	}
	writers := make([]interceptor.RTPWriter, lifeSlots)
	bound := make([]bool, lifeSlots)
	g := &guarded{}
	seq := uint16(s.K * 101) //nolint:gosec
	done := 0
	for i := range s.Ops {
		op := &s.Ops[i]
		j := op.Slot
		var ok bool
		switch op.Op {
		case 1:
			ok = g.call(1, func() (int, int, int64, error) {
				writers[j] = ic.BindLocalStream(infos[j], sink)

				return 0, 0, 0, nil
			})
			bound[j] = true
		case 2:
			ok = g.call(2, func() (int, int, int64, error) {
				ic.UnbindLocalStream(infos[j])

				return 0, 0, 0, nil
			})
			bound[j] = false
		case 3:
			ok = g.call(3, func() (int, int, int64, error) { return 0, 0, 0, ic.Close() })
		default:
			if writers[j] == nil {
				panic("harness bug: write on a stream that was never bound")
			}
			seq++
			ssrc := slotSSRC(j)
			switch op.HS {
			case 1:
				ssrc = slotSSRC(int(op.Val) % lifeSlots)
			case 2:
				ssrc = slotRTX(j)
			case 3:
				ssrc = slotFEC(j)
			case 4:
				ssrc = op.Val
			}
			h := &rtp.Header{Version: 2, SSRC: ssrc, SequenceNumber: seq, Timestamp: uint32(seq) * 3000, PayloadType: 96}
			if op.PT != 0 {
				h.PayloadType = uint8(op.PT) //nolint:gosec
			}
			ext := []byte{byte(seq >> 8), byte(seq)}
			switch op.Shape {
			case 0:
				_ = h.SetExtension(1, ext)
			case 1:
				h.CSRC = []uint32{1, 2, 3}
				_ = h.SetExtension(1, ext)
			case 2:
			case 3:
				h.Extension, h.ExtensionProfile = true, 0x1000
				_ = h.SetExtension(1, ext)
				_ = h.SetExtension(20, make([]byte, 30))
			case 4:
				h.Marker, h.Padding = true, true
				_ = h.SetExtension(1, ext)
			default:
				h.Version = 0
				_ = h.SetExtension(1, ext)
			}
			if bound[j] && ssrc == slotSSRC(j) && op.PT == 0 && op.Shape == 0 && op.PayLen <= 1200 {
				op.WF = 1
			}
			payload := make([]byte, op.PayLen)
			op.Bits = 8 * (h.MarshalSize() + op.PayLen)
			w := writers[j]
			for len(got) > 0 {
				<-got
			}
			ok = g.call(0, func() (int, int, int64, error) {
				n, e := w.Write(h, payload, interceptor.Attributes{})

				return n, 0, 0, e
			})
			if ok && op.WF == 1 && g.steps[len(g.steps)-1].Status == 0 {
				// pacers hand the packet on from their own goroutine: wait for it
				want := sentKey{ssrc, seq}
				deadline := time.After(watchdog)
			wait:
				for {
					select {
					case k := <-got:
						if k == want {
							op.Delivered = 1

							break wait
						}
					case <-deadline:
						break wait
					}
				}
			}
		}
		last := g.steps[len(g.steps)-1]
		op.Status, op.Detail = last.Status, last.Detail
		done = i + 1
		if !ok {
			break
		}
		if op.Op == 0 && op.WF == 1 && op.Status == 0 && op.Delivered == 0 {
			// the instance does not hand packets on any more: every further well-formed packet would cost a watchdog period
			op.Detail = fmt.Sprintf("accepted, but no next writer was called with it within %v", watchdog)

			break
		}
	}
	s.Ops = s.Ops[:done]
	res.Slow = g.slow

	return res
}

// stripLife: the replay input is the op sequence, not what was observed.
func stripLife(s *lifeScn) *lifeScn {
	c := lifeScn{K: s.K, Target: s.Target, Pattern: s.Pattern}
	for _, op := range s.Ops {
		op.Status, op.WF, op.Delivered, op.Bits, op.Detail = 0, 0, 0, 0, ""
		c.Ops = append(c.Ops, op)
	}
	return &c
}

// ---------------------------------------------------------------- c02np: NoOpPacer call histories

type npOp struct {
	Kind int    `json:"kind"` // 0 AddStream, 1 RemoveStream, 2 Write, 3 SetTargetBitrate, 4 Close
	SSRC uint32 `json:"ssrc"`
	// observed
	Status int    `json:"status"`
	Res    int    `json:"res"`
	Detail string `json:"detail,omitempty"`
}

type npScn struct {
	K   int64  `json:"k"`
	Via int    `json:"via"` // 0 the pacer itself, 1 through gcc.SendSideBWE, 2 through the cc interceptor
	Ops []npOp `json:"ops"`
}

type npResult struct {
	NP      *npScn `json:"np"`
	Skipped bool   `json:"skipped,omitempty"`
}

var npSSRCs = []uint32{1, 2, 3, 0, 0xFFFFFFFF, mediaSSRC}

func genNP(r *rand.Rand, k int64) npScn {
	s := npScn{K: k, Via: int(k % 3)}
	j := int(k / 3)
	nU := len(npSSRCs)
	switch {
	case j < 5*nU:
		// one bound stream, one packet with header SSRC x (x = the stream's: the control), then every kind of next call
		x := npSSRCs[j%nU]
		s.Ops = []npOp{{Kind: 0, SSRC: 1}, {Kind: 2, SSRC: x}}
		switch j / nU {
		case 0:
			s.Ops = append(s.Ops, npOp{Kind: 2, SSRC: 1})
		case 1:
			s.Ops = append(s.Ops, npOp{Kind: 0, SSRC: 2}, npOp{Kind: 2, SSRC: 2})
		case 2:
			s.Ops = append(s.Ops, npOp{Kind: 1, SSRC: 1}, npOp{Kind: 2, SSRC: 1})
		case 3:
			s.Ops = append(s.Ops, npOp{Kind: 2, SSRC: x}, npOp{Kind: 2, SSRC: 1})
		default:
		}
	case j < 5*nU+4:
		// no stream at all / a stream added twice (the later binding wins) / removed twice / removed and added again
		switch j - 5*nU {
		case 0:
			s.Ops = []npOp{{Kind: 2, SSRC: 1}, {Kind: 0, SSRC: 1}, {Kind: 2, SSRC: 1}}
		case 1:
			s.Ops = []npOp{{Kind: 0, SSRC: 1}, {Kind: 0, SSRC: 1}, {Kind: 2, SSRC: 1}, {Kind: 1, SSRC: 1}, {Kind: 2, SSRC: 1}}
		case 2:
			s.Ops = []npOp{{Kind: 0, SSRC: 1}, {Kind: 1, SSRC: 1}, {Kind: 1, SSRC: 1}, {Kind: 2, SSRC: 1}}
		default:
			s.Ops = []npOp{{Kind: 0, SSRC: 1}, {Kind: 1, SSRC: 1}, {Kind: 2, SSRC: 1}, {Kind: 0, SSRC: 1}, {Kind: 2, SSRC: 1}}
		}
	default:
		n := 6 + r.Intn(25)
		for i := 0; i < n; i++ {
			x := npSSRCs[r.Intn(nU)]
			switch v := r.Intn(10); {
			case v < 2:
				s.Ops = append(s.Ops, npOp{Kind: 0, SSRC: x})
			case v < 4:
				s.Ops = append(s.Ops, npOp{Kind: 1, SSRC: x})
			case v < 5 && s.Via == 0:
				s.Ops = append(s.Ops, npOp{Kind: 3})
			default:
				s.Ops = append(s.Ops, npOp{Kind: 2, SSRC: x})
			}
		}
	}
	s.Ops = append(s.Ops, npOp{Kind: 4})

	return s
}

func runNP(s npScn) npResult {
	var (
		pacer *gcc.NoOpPacer
		bwe   *gcc.SendSideBWE
		ic    interceptor.Interceptor
		w     interceptor.RTPWriter
		err   error
	)
	pacer = gcc.NewNoOpPacer()
	w = pacer
	if s.Via >= 1 {
		mk := func() (*gcc.SendSideBWE, error) {
			return gcc.NewSendSideBWE(gcc.SendSideBWEPacer(pacer), gcc.WithLoggerFactory(quietLF{}))
		}
		if s.Via == 1 {
			bwe, err = mk()
		} else {
			var fac *cc.InterceptorFactory
			fac, err = cc.NewInterceptor(func() (cc.BandwidthEstimator, error) {
				e, e2 := mk()
				bwe = e

				return e, e2
			})
			if err == nil {
				ic, err = fac.NewInterceptor("id")
			}
		}
	}
	if err != nil {
		s.Ops = []npOp{{Kind: s.Ops[0].Kind, SSRC: s.Ops[0].SSRC, Status: 1, Res: -2, Detail: "construct: " + err.Error()}}

		return npResult{NP: &s}
	}
	hit := -3 // which binding's writer was called during the current call
	adds := 0
	mkSink := func(k int) interceptor.RTPWriter {
		return interceptor.RTPWriterFunc(func(h *rtp.Header, p []byte, _ interceptor.Attributes) (int, error) {
			hit = k

			return h.MarshalSize() + len(p), nil
		})
	}
	g := &guarded{}
	seq := uint16(0)
	for i := range s.Ops {
		op := &s.Ops[i]
		hit = -3
		var werr error
		ok := g.call(op.Kind, func() (int, int, int64, error) {
			info := &interceptor.StreamInfo{SSRC: op.SSRC, PayloadType: 96, ClockRate: 90000}
			switch op.Kind {
			case 0:
				sink := mkSink(adds)
				adds++
				switch s.Via {
				case 0:
					pacer.AddStream(op.SSRC, sink)
				case 1:
					w = bwe.AddStream(info, sink)
				default:
					w = ic.BindLocalStream(info, sink)
				}
			case 1:
				switch s.Via {
				case 0:
					pacer.RemoveStream(op.SSRC)
				case 1:
					bwe.RemoveStream(op.SSRC)
				default:
					ic.UnbindLocalStream(info)
				}
			case 2:
				seq++
				_, werr = w.Write(&rtp.Header{Version: 2, SSRC: op.SSRC, SequenceNumber: seq, PayloadType: 96}, make([]byte, 20), interceptor.Attributes{})

				return 0, 0, 0, werr
			case 3:
				pacer.SetTargetBitrate(100000)
			default:
				switch s.Via {
				case 0:
					return 0, 0, 0, pacer.Close()
				case 1:
					return 0, 0, 0, bwe.Close()
				default:
					return 0, 0, 0, ic.Close()
				}
			}

			return 0, 0, 0, nil
		})
		last := g.steps[len(g.steps)-1]
		op.Status, op.Detail = last.Status, last.Detail
		op.Res = -3
		if ok {
			switch {
			case op.Status == 1 && errors.Is(werr, gcc.ErrUnknownStream):
				op.Res = -1
			case op.Status == 1:
				op.Res = -2
			case op.Status == 0:
				op.Res = hit
			}
		}
		if !ok || op.Status >= 2 {
			s.Ops = s.Ops[:i+1]

			break
		}
	}

	return npResult{NP: &s}
}

func stripNP(s *npScn) *npScn {
	c := npScn{K: s.K, Via: s.Via}
	for _, op := range s.Ops {
		c.Ops = append(c.Ops, npOp{Kind: op.Kind, SSRC: op.SSRC})
	}

	return &c
}

// ---------------------------------------------------------------- parent side

// runParallel deals the items round-robin to `workers` crash-isolated worker processes.
func runParallel(self, dir, tag string, items []workItem, workers int) []workOut {
	outs := make([]workOut, len(items))
	parts := make([][]workItem, workers)
	index := make([][]int, workers)
	for i, it := range items {
		parts[i%workers] = append(parts[i%workers], it)
		index[i%workers] = append(index[i%workers], i)
	}
	var wg sync.WaitGroup
	for w := 0; w < workers; w++ {
		if len(parts[w]) == 0 {
			continue
		}
		wg.Add(1)
		go func(w int) {
			defer wg.Done()
			for j, out := range runItems(self, dir, fmt.Sprintf("%s%d", tag, w), parts[w]) {
				outs[index[w][j]] = out
			}
		}(w)
	}
	wg.Wait()

	return outs
}

var lifeOpName = map[int]string{0: "write", 1: "bind-local-stream", 2: "unbind-local-stream", 3: "close"}

// lifeSets runs the life-cycle scenarios and the NoOpPacer histories and fills the two case sets.
func lifeSets(o *cq.Opts, self string, ls, ns *cq.Set, only *workItem) (fails []cq.ImplFailure, extra map[string]interface{}) {
	var lItems, nItems []workItem
	switch {
	case only != nil && only.Life != nil:
		lItems = []workItem{*only}
	case only != nil && only.NP != nil:
		nItems = []workItem{*only}
	case only != nil:
	default:
		nl, nn := 17*len(lifePatterns), 240 // (-n scales the byte-level fuzz only)
		if o.Tier == "thorough" {
			nl, nn = 8*nl, 3000
		}
		for k := int64(0); k < int64(nl); k++ {
			s := genLife(rand.New(rand.NewSource(o.Seed*5_000_011+k)), k) //nolint:gosec
			lItems = append(lItems, workItem{Life: &s})
		}
		for k := int64(0); k < int64(nn); k++ {
			s := genNP(rand.New(rand.NewSource(o.Seed*3_000_017+k)), k) //nolint:gosec
			nItems = append(nItems, workItem{NP: &s})
		}
	}
	lOuts := runParallel(self, o.Out, "l", lItems, 13)
	nOuts := runParallel(self, o.Out, "n", nItems, 3)

	seen := map[string]bool{}
	calls, slow, skipped := 0, 0, 0
	names := targetNames()
	for _, out := range lOuts {
		r := out.Life
		if r == nil || r.Skipped {
			skipped++

			continue
		}
		tgt := int64(0)
		for i, n := range names {
			if n == r.Life.Target {
				tgt = int64(i)
			}
		}
		steps := make([]string, len(r.Life.Ops))
		b := []string{r.Life.Target, "pattern:" + r.Life.Pattern}
		kinds := map[string]bool{}
		wf, inconsistent := 0, 0
		for i, op := range r.Life.Ops {
			steps[i] = cq.T(cq.Z(int64(op.Op)), cq.Z(int64(op.Status)), cq.Z(int64(op.WF)), cq.Z(int64(op.Delivered)), cq.Z(int64(op.Bits)))
			if op.Op == 0 && op.WF == 1 {
				wf++
			}
			if op.Op == 0 && op.WF == 0 {
				inconsistent++
				if op.Status == 1 {
					kinds["inconsistent-packet-rejected"] = true
				} else if op.Status == 0 {
					kinds["inconsistent-packet-accepted"] = true
				}
			}
		}
		for k := range kinds {
			b = append(b, k)
		}
		calls += len(r.Life.Ops)
		slow += r.Slow
		ls.Cases = append(ls.Cases, cq.Case{Coq: cq.T(cq.Z(tgt), cq.Z(int64(r.Burst)), cq.L(steps)), JSON: r, Buckets: b, Trivial: wf == 0 || inconsistent == 0})
		oversize := false // a packet at least as large as the target's token bucket was accepted (known finding F23)
		for _, op := range r.Life.Ops {
			what := ""
			switch {
			case op.Status >= 2:
				what = statusName[op.Status]
			case op.Status == 1 && (op.Op != 0 || op.WF == 1):
				what = "well-formed-call-refused"
			case op.Op == 0 && op.WF == 1 && op.Delivered == 0:
				what = "well-formed-packet-not-handed-on"
			}
			if what == "" {
				if op.Op == 0 && op.Status == 0 && r.Burst > 0 && op.Bits >= r.Burst {
					oversize = true
				}

				continue
			}
			kind := fmt.Sprintf("%s:%s:life:%s:%s", r.Life.Target, what, r.Life.Pattern, lifeOpName[op.Op])
			if what == "well-formed-packet-not-handed-on" && oversize {
				kind = r.Life.Target + ":oversize-head-blocks:life" // exactly the shape of life_spec_failures code 7
			}
			if !seen[kind] {
				seen[kind] = true
				fails = append(fails, cq.ImplFailure{Kind: kind, Detail: op.Detail, Case: workItem{Life: stripLife(r.Life)}})
			}

			break
		}
	}
	for _, out := range nOuts {
		r := out.NP
		if r == nil || r.Skipped {
			skipped++

			continue
		}
		steps := make([]string, len(r.NP.Ops))
		unknown := false
		for i, op := range r.NP.Ops {
			steps[i] = cq.T(cq.T(cq.Z(int64(op.Kind)), cq.Z(int64(op.SSRC))), cq.T(cq.Z(int64(op.Status)), cq.Z(int64(op.Res))))
			if op.Kind == 2 && op.Res == -1 {
				unknown = true
			}
		}
		calls += len(r.NP.Ops)
		b := []string{fmt.Sprintf("via:%d", r.NP.Via)}
		if unknown {
			b = append(b, "unknown-ssrc-rejected")
		}
		ns.Cases = append(ns.Cases, cq.Case{Coq: cq.T(cq.Z(int64(r.NP.Via)), cq.L(steps)), JSON: r, Buckets: b, Trivial: len(r.NP.Ops) < 3})
		if n := len(r.NP.Ops); n > 0 && r.NP.Ops[n-1].Status >= 2 {
			op := r.NP.Ops[n-1]
			kind := fmt.Sprintf("gcc-noop-pacer:%s:kind%d-after-%d-calls", statusName[op.Status], op.Kind, n-1)
			key := fmt.Sprintf("np:%s:%d", statusName[op.Status], op.Kind)
			if !seen[key] {
				seen[key] = true
				fails = append(fails, cq.ImplFailure{Kind: kind, Detail: op.Detail, Case: workItem{NP: stripNP(r.NP)}})
			}
		}
	}
	extra = map[string]interface{}{"life_scenarios": len(ls.Cases), "np_histories": len(ns.Cases), "life_calls": calls,
		"life_slow_calls": slow, "life_skipped_after_repeated_hangs": skipped}

	return fails, extra
}
