// Round 3: well-formed, stateful congestion-control feedback histories.
//
// The byte-level fuzz of main.go never builds a feedback HISTORY: outgoing packets that are really
// spaced in time, acknowledged by well-formed TWCC / RFC 8888 feedback whose receive deltas follow a
// pattern. Only such a history moves the GCC delay detector (arrival groups -> Kalman filter ->
// adaptive threshold -> over-use detector -> rate controller) out of its initial branch.
//
//	c02hist: scenarios against the real cc interceptor (both pacers) and the rtpfb interceptor; the
//	         reported receive deltas are computed from the MEASURED send times plus the pattern's
//	         offsets, so a loaded machine changes the spacing, not the pattern. Every call after the
//	         first feedback (Read, Write, GetTargetBitrate, GetStats, Close) runs under a watchdog.
//	c02rc:   call histories on the rate controller of a real gcc.SendSideBWE through the verif hooks
//	         (usage / state sequences chosen directly, no timing), compared with Model/RateCtlLock.v.
//
// Both run in worker processes (a panic or fatal error in a background goroutine kills only the worker).
package main

import (
	"bufio"
	"encoding/binary"
	"encoding/json"
	"fmt"
	"math/rand"
	"os"
	"os/exec"
	"path/filepath"
	"sort"
	"strings"
	"sync"
	"time"

	"github.com/pion/interceptor"
	"github.com/pion/interceptor/pkg/cc"
	"github.com/pion/interceptor/pkg/gcc"
	"github.com/pion/interceptor/pkg/rtpfb"
	"github.com/pion/logging"
	"github.com/pion/rtcp"
	"github.com/pion/rtp"

	"verifharness/internal/cq"
)

const (
	watchdog = 3 * time.Second
	grace    = 2 * time.Second // a call that comes back this late after the watchdog was slow, not wedged
)

// ---------------------------------------------------------------- scenarios

type histRound struct {
	GapUs  []int `json:"gap_us"` // pause before each outgoing packet
	OffUs  []int `json:"off_us"` // reported receive delta = measured send spacing + off
	Lost   []int `json:"lost"`   // 1 = reported as not received
	MinUs  int   `json:"min_us"` // lower clamp of a reported delta (negative: re-ordered arrival allowed)
	Repeat int   `json:"repeat"` // deliveries of the feedback packet
}

type histScn struct {
	K        int64       `json:"k"`
	Target   string      `json:"target"` // gcc-leaky | gcc-noop | rtpfb
	Fb       string      `json:"fb"`     // twcc | ccfb
	Pattern  string      `json:"pattern"`
	PayLen   int         `json:"paylen"`
	SettleMs int         `json:"settle_ms"`
	Rounds   []histRound `json:"rounds"`
}

type histStep struct {
	Op     int    `json:"op"`
	Status int    `json:"status"`
	N      int    `json:"n"`
	Given  int    `json:"given"`
	Val    int64  `json:"val,omitempty"`
	Detail string `json:"detail,omitempty"`
}

type histResult struct {
	Hist      *histScn       `json:"hist"`
	Steps     []histStep     `json:"steps"`
	Published map[string]int `json:"published,omitempty"` // delay statistics the rate controller published, by usage/state
	Groups    int            `json:"groups"`              // outgoing packets acknowledged with their own arrival group (estimate)
	Slow      int            `json:"slow,omitempty"`
	Skipped   bool           `json:"skipped,omitempty"`
}

var histTargets = []string{"gcc-leaky", "gcc-noop", "rtpfb"}

var histPatterns = []string{
	"under", "under-slow", "over", "over-large", "normal", "alternating", "alt-packet", "burst", "loss", "reorder",
	"dup-feedback", "zero", "long-swing",
}

func constRound(n, gapUs, offUs, minUs int) histRound {
	rd := histRound{MinUs: minUs, Repeat: 1}
	for i := 0; i < n; i++ {
		rd.GapUs = append(rd.GapUs, gapUs)
		rd.OffUs = append(rd.OffUs, offUs)
		rd.Lost = append(rd.Lost, 0)
	}

	return rd
}

// genHist: scenario k of the family. Target, feedback format and pattern are enumerated (every
// combination occurs once per 78 scenarios), the numbers are drawn.
func genHist(r *rand.Rand, k int64) histScn {
	s := histScn{K: k, PayLen: []int{0, 4, 100, 1200}[r.Intn(4)], SettleMs: 8 + r.Intn(25)}
	i := int(k)
	s.Target = histTargets[i%3]
	s.Fb = []string{"twcc", "ccfb"}[(i/3)%2]
	s.Pattern = histPatterns[(i/6)%len(histPatterns)]
	ms := 1000
	switch s.Pattern {
	case "under":
		// sent g apart (> the 5 ms burst interval), reported 5.5 .. g-3 ms apart: every packet its own group,
		// inter-group delay variation strongly negative
		g := []int{12, 20, 30}[r.Intn(3)] * ms
		off := -(3*ms + r.Intn(g-8*ms))
		s.Rounds = []histRound{constRound(8+r.Intn(7), g, off, 5500), constRound(3+r.Intn(3), g, off, 5500)}
	case "under-slow":
		g := (8 + r.Intn(3)) * ms
		s.Rounds = []histRound{constRound(16+r.Intn(6), g, -(2*ms + r.Intn(ms)), 5500), constRound(3, g, -2*ms, 5500)}
	case "over":
		g := (6 + r.Intn(5)) * ms
		off := []int{3, 8, 20, 45}[r.Intn(4)] * ms
		s.Rounds = []histRound{constRound(8+r.Intn(6), g, off, 0), constRound(4, g, off, 0)}
	case "over-large": // deltas beyond the one-byte range
		g := (6 + r.Intn(3)) * ms
		s.Rounds = []histRound{constRound(5+r.Intn(3), g, (70+r.Intn(200))*ms, 0), constRound(3, g, 300*ms, 0)}
	case "normal":
		g := (6 + r.Intn(15)) * ms
		rd := constRound(10+r.Intn(6), g, 0, 0)
		for j := range rd.OffUs {
			rd.OffUs[j] = r.Intn(1001) - 500
		}
		s.Rounds = []histRound{rd, constRound(3, g, 0, 0)}
	case "alternating": // over, under, over, under: decrease -> hold -> ...
		g := []int{12, 20}[r.Intn(2)] * ms
		for j := 0; j < 4; j++ {
			if j%2 == r.Intn(2) {
				s.Rounds = append(s.Rounds, constRound(5+r.Intn(3), g, (10+r.Intn(30))*ms, 0))
			} else {
				s.Rounds = append(s.Rounds, constRound(5+r.Intn(3), g, -(g-6*ms), 5500))
			}
		}
	case "alt-packet":
		g := (10 + r.Intn(10)) * ms
		rd := constRound(14+r.Intn(6), g, 0, 5500)
		a := (2 + r.Intn(g/ms-7)) * ms
		for j := range rd.OffUs {
			if j%2 == 0 {
				rd.OffUs[j] = a
			} else {
				rd.OffUs[j] = -a
			}
		}
		s.Rounds = []histRound{rd, constRound(3, g, -a, 5500)}
	case "burst": // bursts of 3 sent back to back (one departure group), bursts 12..20 ms apart
		g := (12 + r.Intn(9)) * ms
		off := []int{-6 * ms, 0, 9 * ms}[r.Intn(3)]
		rd := histRound{MinUs: 0, Repeat: 1}
		for j := 0; j < 18; j++ {
			if j%3 == 0 {
				rd.GapUs, rd.OffUs = append(rd.GapUs, g), append(rd.OffUs, off)
			} else {
				rd.GapUs, rd.OffUs = append(rd.GapUs, 0), append(rd.OffUs, 250)
			}
			rd.Lost = append(rd.Lost, 0)
		}
		s.Rounds = []histRound{rd, constRound(3, g, off, 0)}
	case "loss":
		g := (8 + r.Intn(8)) * ms
		off := []int{-(g - 6*ms), 0, 12 * ms}[r.Intn(3)]
		rd := constRound(14+r.Intn(6), g, off, 5500)
		for j := range rd.Lost {
			if r.Intn(10) < 3 {
				rd.Lost[j] = 1
			}
		}
		all := constRound(4, g, off, 5500)
		for j := range all.Lost {
			all.Lost[j] = 1
		}
		s.Rounds = []histRound{rd, all, constRound(4, g, off, 5500)}
	case "reorder": // some packets reported as arriving before their predecessor
		g := (8 + r.Intn(8)) * ms
		rd := constRound(12+r.Intn(6), g, -(g - 6*ms), -40*ms)
		for j := range rd.OffUs {
			if r.Intn(4) == 0 {
				rd.OffUs[j] = -(g + (1+r.Intn(20))*ms)
			}
		}
		s.Rounds = []histRound{rd, constRound(3, g, -(g - 6*ms), 5500)}
	case "dup-feedback": // the same feedback packet delivered several times
		g := []int{12, 20}[r.Intn(2)] * ms
		off := []int{-(g - 6*ms), 10 * ms}[r.Intn(2)]
		rd := constRound(10+r.Intn(5), g, off, 5500)
		rd.Repeat = 2 + r.Intn(3)
		s.Rounds = []histRound{rd, constRound(3, g, off, 5500)}
	case "long-swing":
		// more than 60 arrival groups (the detector multiplies the estimate by min(numDeltas, 60), so late in a
		// stream a small change of the estimate swings the compared value from one side of the threshold to the
		// other), blocks of packets reported alternately late and early, several feedback packets
		g := (11 + r.Intn(3)) * ms
		a := (3 + r.Intn(4)) * ms
		blk := 6 + r.Intn(8)
		for j := 0; j < 4; j++ {
			rd := constRound(20+r.Intn(4), g, 0, 5500)
			for i := range rd.OffUs {
				if ((j*24+i)/blk)%2 == 0 {
					rd.OffUs[i] = a
				} else {
					rd.OffUs[i] = -a
				}
			}
			s.Rounds = append(s.Rounds, rd)
		}
	default: // "zero": everything reported as arriving at the same instant
		g := (6 + r.Intn(10)) * ms
		s.Rounds = []histRound{constRound(10+r.Intn(5), g, -1000*ms, 0), constRound(3, g, -1000*ms, 0)}
	}

	return s
}

// ---------------------------------------------------------------- feedback packets

// twccFeedback builds a well-formed TransportLayerCC packet: base sequence number, one status per packet
// (nil delta = not received), deltas in units of 250 us, reference time in units of 64 ms.
func twccFeedback(base uint16, ref uint32, fbCount uint8, q []*int) []byte {
	body := make([]byte, 0, 64)
	b4 := make([]byte, 4)
	binary.BigEndian.PutUint32(b4, 5)
	body = append(body, b4...)
	binary.BigEndian.PutUint32(b4, mediaSSRC)
	body = append(body, b4...)
	n := len(q)
	body = append(body, byte(base>>8), byte(base), byte(n>>8), byte(n), byte(ref>>16), byte(ref>>8), byte(ref), fbCount)
	sym := make([]uint16, n)
	allSmall := true
	for i, d := range q {
		switch {
		case d == nil:
			sym[i] = 0
		case *d >= 0 && *d <= 255:
			sym[i] = 1
		default:
			sym[i] = 2
		}
		if sym[i] != 1 {
			allSmall = false
		}
	}
	if allSmall {
		body = append(body, byte(0x20|(n>>8)), byte(n)) // run length chunk, symbol 1
	} else {
		for i := 0; i < n; i += 7 { // two-bit status vector chunks; symbols past the count are "not received"
			c := uint16(0xC000)
			for j := 0; j < 7 && i+j < n; j++ {
				c |= sym[i+j] << (12 - 2*j)
			}
			body = append(body, byte(c>>8), byte(c))
		}
	}
	for i, d := range q {
		switch sym[i] {
		case 1:
			body = append(body, byte(*d))
		case 2:
			v := *d
			if v > 32767 {
				v = 32767
			}
			if v < -32768 {
				v = -32768
			}
			body = append(body, byte(uint16(int16(v))>>8), byte(uint16(int16(v)))) //nolint:gosec
		}
	}
	pad := (4 - (len(body)+4)%4) % 4
	for i := 0; i < pad; i++ {
		if i == pad-1 {
			body = append(body, byte(pad))
		} else {
			body = append(body, 0)
		}
	}
	hdr := []byte{0x80 | 15, 205, 0, 0}
	if pad > 0 {
		hdr[0] |= 0x20
	}
	binary.BigEndian.PutUint16(hdr[2:], uint16((len(body)+4)/4-1)) //nolint:gosec

	return append(hdr, body...)
}

// feedbackFor turns the measured send times of one round into a feedback packet. arr is the running
// arrival clock (us) of the simulated receiver. It also returns how many of the acknowledged packets
// start an arrival group of their own (sent and reported more than the 5 ms burst interval after their
// predecessor) - an estimate of the number of groups the delay detector will see.
func feedbackFor(fb string, base uint16, fbCount uint8, rd histRound, sent []time.Time, prev time.Time, arr *int64) ([]byte, int) {
	n := len(rd.GapUs)
	delta := make([]int64, n) // reported receive delta of packet i (us), relative to packet i-1
	lost := func(i int) bool { return rd.Lost[i] == 1 || sent[i].IsZero() }
	groups := 0
	for i := 0; i < n; i++ {
		gap := int64(rd.GapUs[i])
		if !sent[i].IsZero() && !prev.IsZero() {
			gap = sent[i].Sub(prev).Microseconds()
		}
		if !sent[i].IsZero() {
			prev = sent[i]
		}
		d := gap + int64(rd.OffUs[i])
		if d < int64(rd.MinUs) {
			d = int64(rd.MinUs)
		}
		delta[i] = d
		if !lost(i) && gap > 5000 && d > 5000 {
			groups++
		}
	}
	if fb == "twcc" {
		// a TWCC delta is relative to the previous RECEIVED packet (the first one to the reference time)
		q := make([]*int, n)
		first := true
		var ref uint32
		var pending int64
		for i := 0; i < n; i++ {
			pending += delta[i]
			if lost(i) {
				continue
			}
			var v int
			if first {
				a := *arr + pending
				if a < 0 {
					a = 0
				}
				ref = uint32(a/64000) & 0xFFFFFF //nolint:gosec
				v = int((a - int64(ref)*64000) / 250)
				*arr = int64(ref)*64000 + int64(v)*250
				first = false
			} else {
				v = int((pending + 125) / 250)
				if pending < 0 {
					v = int((pending - 125) / 250)
				}
				if v > 32767 {
					v = 32767
				}
				if v < -32768 {
					v = -32768
				}
				*arr += int64(v) * 250
			}
			pending = 0
			q[i] = &v
		}
		*arr += pending

		return twccFeedback(base, ref, fbCount, q), groups
	}
	// RFC 8888: arrival = report timestamp - offset (1/1024 s), report timestamp in 1/65536 s
	arrs := make([]int64, n)
	var maxArr int64
	for i := 0; i < n; i++ {
		*arr += delta[i]
		if *arr < 0 {
			*arr = 0
		}
		arrs[i] = *arr
		if arrs[i] > maxArr {
			maxArr = arrs[i]
		}
	}
	ts := uint32(((maxArr+5000)*65536 + 999999) / 1000000) //nolint:gosec
	tsUs := int64(ts) * 1000000 / 65536
	rep := &rtcp.CCFeedbackReport{SenderSSRC: 5, ReportTimestamp: ts}
	blk := rtcp.CCFeedbackReportBlock{MediaSSRC: mediaSSRC, BeginSequence: base}
	for i := 0; i < n; i++ {
		if lost(i) {
			blk.MetricBlocks = append(blk.MetricBlocks, rtcp.CCFeedbackMetricBlock{Received: false})

			continue
		}
		ato := ((tsUs-arrs[i])*1024 + 500000) / 1000000
		if ato < 0 {
			ato = 0
		}
		if ato > 0x1FFD {
			ato = 0x1FFD
		}
		blk.MetricBlocks = append(blk.MetricBlocks, rtcp.CCFeedbackMetricBlock{Received: true, ArrivalTimeOffset: uint16(ato)}) //nolint:gosec
	}
	rep.ReportBlocks = []rtcp.CCFeedbackReportBlock{blk}
	raw, err := rep.Marshal()
	if err != nil {
		panic(err)
	}

	return raw, groups
}

// ---------------------------------------------------------------- logger that counts published delay statistics

type capLF struct {
	mu  sync.Mutex
	pub map[string]int
}

func (c *capLF) NewLogger(string) logging.LeveledLogger { return &capLogger{c} }

type capLogger struct{ c *capLF }

func (l *capLogger) Trace(string)          {}
func (l *capLogger) Tracef(string, ...any) {}
func (l *capLogger) Debug(string)          {}
func (l *capLogger) Debugf(string, ...any) {}
func (l *capLogger) Info(string)           {}
func (l *capLogger) Warn(string)           {}
func (l *capLogger) Warnf(string, ...any)  {}
func (l *capLogger) Error(string)          {}
func (l *capLogger) Errorf(string, ...any) {}
func (l *capLogger) Infof(format string, args ...any) {
	if !strings.HasPrefix(format, "delaystats") || len(args) == 0 {
		return
	}
	ds, ok := args[0].(gcc.DelayStats)
	if !ok {
		return
	}
	l.c.mu.Lock()
	defer l.c.mu.Unlock()
	if l.c.pub == nil {
		l.c.pub = map[string]int{}
	}
	l.c.pub[fmt.Sprintf("%v/%v", ds.Usage, ds.State)]++
}

// ---------------------------------------------------------------- running one scenario

type guarded struct {
	steps []histStep
	slow  int
	dead  bool // a call did not return: the instance is wedged, stop
}

// call runs f under the watchdog and records the step. f returns (n, given, val, err).
func (g *guarded) call(op int, f func() (int, int, int64, error)) bool {
	if g.dead {
		return false
	}
	type ret struct {
		n, given int
		val      int64
		err      error
		pan      string
	}
	done := make(chan ret, 1)
	go func() {
		var x ret
		defer func() {
			if rec := recover(); rec != nil {
				x.pan = fmt.Sprint(rec)
			}
			done <- x
		}()
		x.n, x.given, x.val, x.err = f()
	}()
	var x ret
	select {
	case x = <-done:
	case <-time.After(watchdog):
		select {
		case x = <-done:
			g.slow++
		case <-time.After(grace):
			g.steps = append(g.steps, histStep{Op: op, Status: 3, Detail: fmt.Sprintf("did not return within %v", watchdog+grace)})
			g.dead = true

			return false
		}
	}
	st := histStep{Op: op, N: x.n, Given: x.given, Val: x.val}
	switch {
	case x.pan != "":
		st.Status, st.Detail = 2, x.pan
	case x.err != nil:
		st.Status, st.Detail = 1, x.err.Error()
	}
	g.steps = append(g.steps, st)

	return true
}

func mkHistTarget(name string, lf logging.LoggerFactory) (interceptor.Interceptor, cc.BandwidthEstimator, error) {
	var bwe cc.BandwidthEstimator
	switch name {
	case "rtpfb":
		fac, err := rtpfb.NewInterceptor(rtpfb.WithLoggerFactory(lf))
		if err != nil {
			return nil, nil, err
		}
		ic, err := fac.NewInterceptor("id")

		return ic, nil, err
	default:
		fac, err := cc.NewInterceptor(func() (cc.BandwidthEstimator, error) {
			if name == "gcc-noop" {
				return gcc.NewSendSideBWE(gcc.SendSideBWEPacer(gcc.NewNoOpPacer()), gcc.WithLoggerFactory(lf))
			}

			return gcc.NewSendSideBWE(gcc.SendSideBWEInitialBitrate(2_000_000), gcc.WithLoggerFactory(lf))
		})
		if err != nil {
			return nil, nil, err
		}
		fac.OnNewPeerConnection(func(_ string, e cc.BandwidthEstimator) { bwe = e })
		ic, err := fac.NewInterceptor("id")

		return ic, bwe, err
	}
}

func runHist(s histScn) histResult {
	res := histResult{Hist: &s}
	lf := &capLF{}
	ic, bwe, err := mkHistTarget(s.Target, lf)
	if err != nil {
		res.Steps = append(res.Steps, histStep{Op: 5, Status: 1, Detail: "construct: " + err.Error()})

		return res
	}
	info := &interceptor.StreamInfo{SSRC: mediaSSRC, PayloadType: 96, ClockRate: 90000, MimeType: "video/VP8",
		RTCPFeedback: []interceptor.RTCPFeedback{{Type: "transport-cc"}, {Type: "ccfb"}}}
	if s.Fb == "twcc" {
		info.RTPHeaderExtensions = []interceptor.RTPHeaderExtension{{URI: twccURI, ID: 1}}
	}
	var mu sync.Mutex
	sentAt := map[uint16]time.Time{}
	sentCh := make(chan uint16, 1024)
	writer := ic.BindLocalStream(info, interceptor.RTPWriterFunc(func(h *rtp.Header, p []byte, _ interceptor.Attributes) (int, error) {
		mu.Lock()
		sentAt[h.SequenceNumber] = time.Now()
		mu.Unlock()
		sentCh <- h.SequenceNumber

		return h.MarshalSize() + len(p), nil
	}))
	var feed []byte
	reader := ic.BindRTCPReader(interceptor.RTCPReaderFunc(func(b []byte, a interceptor.Attributes) (int, interceptor.Attributes, error) {
		return copy(b, feed), a, nil
	}))
	ic.BindRTCPWriter(interceptor.RTCPWriterFunc(func([]rtcp.Packet, interceptor.Attributes) (int, error) { return 0, nil }))

	g := &guarded{}
	read := func(op int, raw []byte) bool {
		return g.call(op, func() (int, int, int64, error) {
			feed = raw
			n, _, e := reader.Read(make([]byte, 1500), interceptor.Attributes{})

			return n, len(raw), 0, e
		})
	}
	write := func(seq uint16) bool {
		return g.call(0, func() (int, int, int64, error) {
			h := &rtp.Header{Version: 2, SSRC: mediaSSRC, SequenceNumber: seq, Timestamp: uint32(seq) * 3000, PayloadType: 96}
			if s.Fb == "twcc" {
				_ = h.SetExtension(1, []byte{byte(seq >> 8), byte(seq)})
			}
			n, e := writer.Write(h, make([]byte, s.PayLen), interceptor.Attributes{})

			return n, 0, 0, e
		})
	}
	probe, _ := rtcp.Marshal([]rtcp.Packet{&rtcp.ReceiverReport{SSRC: 9}})
	getters := func() {
		if bwe == nil {
			return
		}
		g.call(3, func() (int, int, int64, error) { return 0, 0, int64(bwe.GetTargetBitrate()), nil })
		g.call(4, func() (int, int, int64, error) { _ = bwe.GetStats(); return 0, 0, 0, nil })
	}

	seq := uint16(s.K * 37) //nolint:gosec
	arr := int64(6_400_000)
	var prev time.Time
	fbCount := uint8(0)
	for _, rd := range s.Rounds {
		n := len(rd.GapUs)
		base := seq
		sent := make([]time.Time, n)
		for i := 0; i < n && !g.dead; i++ {
			if rd.GapUs[i] > 0 {
				time.Sleep(time.Duration(rd.GapUs[i]) * time.Microsecond)
			}
			if !write(seq) {
				break
			}
			// the pacer hands the packet on from its own goroutine: wait for it (not a property of C02 how long it takes)
			deadline := time.After(400 * time.Millisecond)
		wait:
			for {
				select {
				case got := <-sentCh:
					if got == seq {
						break wait
					}
				case <-deadline:
					break wait
				}
			}
			mu.Lock()
			sent[i] = sentAt[seq]
			mu.Unlock()
			seq++
		}
		if g.dead {
			break
		}
		raw, groups := feedbackFor(s.Fb, base, fbCount, rd, sent, prev, &arr)
		res.Groups += groups
		fbCount++
		for i := n - 1; i >= 0; i-- {
			if !sent[i].IsZero() {
				prev = sent[i]

				break
			}
		}
		if _, uerr := rtcp.Unmarshal(raw); uerr != nil {
			panic(fmt.Sprintf("harness bug: generated feedback is not well formed: %v", uerr))
		}
		for k := 0; k < rd.Repeat; k++ {
			read(1, raw)
		}
		time.Sleep(time.Duration(s.SettleMs) * time.Millisecond) // the estimator goroutines work through the feedback
		read(2, probe)
		getters()
	}
	// whatever state the history left: outgoing and incoming traffic is still served ...
	write(seq)
	read(2, probe)
	getters()
	// ... and the interceptor can be closed
	g.call(5, func() (int, int, int64, error) { return 0, 0, 0, ic.Close() })
	read(6, probe)
	res.Steps, res.Slow = g.steps, g.slow
	lf.mu.Lock()
	res.Published = lf.pub
	lf.mu.Unlock()

	return res
}

// ---------------------------------------------------------------- rate controller call histories

type rcOp struct {
	Kind int `json:"kind"` // 0 onDelayStats{State, Usage}, 1 onReceivedRate, 2 lock probe, 3 GetTargetBitrate, 4 Close
	S    int `json:"s"`
	U    int `json:"u"`
	// observed
	Status int    `json:"status"`
	PubU   int    `json:"pub_u"`
	PubS   int    `json:"pub_s"`
	Detail string `json:"detail,omitempty"`
}

type rcScn struct {
	K     int64  `json:"k"`
	Pacer string `json:"pacer"` // leaky | noop
	Ops   []rcOp `json:"ops"`
}

type rcResult struct {
	RC      *rcScn `json:"rc"`
	Skipped bool   `json:"skipped,omitempty"`
}

func genRC(r *rand.Rand, k int64) rcScn {
	s := rcScn{K: k, Pacer: []string{"leaky", "noop"}[k%2]}
	probes := func() {
		s.Ops = append(s.Ops, rcOp{Kind: 1, S: 100000 + r.Intn(5_000_000)}, rcOp{Kind: 2}, rcOp{Kind: 3})
	}
	switch {
	case k < 9: // first call (init branch) with every (state, usage)
		s.Ops = append(s.Ops, rcOp{Kind: 0, S: int(k) / 3, U: int(k) % 3})
		probes()
	case k < 9+81: // init, then every pair of (state, usage) x (state, usage), each followed by the three probes
		j := int(k) - 9
		s.Ops = append(s.Ops, rcOp{Kind: 0, S: 0, U: 2})
		for _, c := range []int{j / 9, j % 9} {
			s.Ops = append(s.Ops, rcOp{Kind: 0, S: c / 3, U: c % 3})
			probes()
		}
	default:
		n := 4 + r.Intn(14)
		for i := 0; i < n; i++ {
			switch r.Intn(8) {
			case 0:
				s.Ops = append(s.Ops, rcOp{Kind: 1, S: r.Intn(10_000_000)})
			case 1:
				s.Ops = append(s.Ops, rcOp{Kind: 2})
			case 2:
				s.Ops = append(s.Ops, rcOp{Kind: 3})
			default:
				st := 0 // the overuse detector always passes state 0; other values rarely
				if r.Intn(4) == 0 {
					st = r.Intn(3)
				}
				s.Ops = append(s.Ops, rcOp{Kind: 0, S: st, U: r.Intn(3)})
			}
		}
	}
	s.Ops = append(s.Ops, rcOp{Kind: 4})

	return s
}

func usageCode(v any) int {
	switch fmt.Sprint(v) {
	case "overuse":
		return 0
	case "underuse":
		return 1
	case "normal":
		return 2
	}

	return -1
}

func stateCode(v any) int {
	switch fmt.Sprint(v) {
	case "increase":
		return 0
	case "decrease":
		return 1
	case "hold":
		return 2
	}

	return -1
}

func runRC(s rcScn) rcResult {
	opts := []gcc.Option{gcc.WithLoggerFactory(quietLF{}), gcc.SendSideBWEInitialBitrate(1_000_000)}
	if s.Pacer == "noop" {
		opts = append(opts, gcc.SendSideBWEPacer(gcc.NewNoOpPacer()))
	}
	e, err := gcc.NewSendSideBWE(opts...)
	if err != nil {
		s.Ops[0].Status, s.Ops[0].Detail = 1, "construct: "+err.Error()
		s.Ops = s.Ops[:1]

		return rcResult{RC: &s}
	}
	g := &guarded{}
	for i := range s.Ops {
		op := &s.Ops[i]
		ok := g.call(op.Kind, func() (int, int, int64, error) {
			switch op.Kind {
			case 0:
				gcc.VerifOnDelayStats(e, op.U, op.S)
			case 1:
				gcc.VerifSetReceivedRate(e, op.S)
			case 2:
				gcc.VerifOnDelayStatsPeek(e)
			case 3:
				e.GetTargetBitrate()
			default:
				return 0, 0, 0, e.Close()
			}

			return 0, 0, 0, nil
		})
		last := g.steps[len(g.steps)-1]
		op.Status, op.Detail = last.Status, last.Detail
		if !ok || op.Status != 0 {
			s.Ops = s.Ops[:i+1]

			break
		}
		var st map[string]any
		if !g.call(4, func() (int, int, int64, error) { st = e.GetStats(); return 0, 0, 0, nil }) {
			op.Status, op.Detail = 3, "GetStats after the call did not return"
			s.Ops = s.Ops[:i+1]

			break
		}
		op.PubU, op.PubS = usageCode(st["usage"]), stateCode(st["state"])
	}

	return rcResult{RC: &s}
}

// ---------------------------------------------------------------- worker / parent plumbing

type workItem struct {
	Hist *histScn `json:"hist,omitempty"`
	RC   *rcScn   `json:"rc,omitempty"`
	Life *lifeScn `json:"life,omitempty"`
	NP   *npScn   `json:"np,omitempty"`
	Ext  *extScn  `json:"ext,omitempty"`
}

type workOut struct {
	Hist *histResult `json:"hist,omitempty"`
	RC   *rcResult   `json:"rc,omitempty"`
	Life *lifeResult `json:"life,omitempty"`
	NP   *npResult   `json:"np,omitempty"`
	Ext  *extResult  `json:"ext,omitempty"`
}

// histWorker: run the items of the file from index `from` on; "I idx" before, "S idx json" after each.
func histWorker(file string, from int64) {
	raw, err := os.ReadFile(file) //nolint:gosec
	if err != nil {
		panic(err)
	}
	var items []workItem
	if err := json.Unmarshal(raw, &items); err != nil {
		panic(err)
	}
	out := bufio.NewWriter(os.Stdout)
	hung := 0
	for i := int(from); i < len(items); i++ {
		fmt.Fprintf(out, "I %d\n", i)
		out.Flush()
		var wo workOut
		it := items[i]
		switch {
		case it.Hist != nil:
			if hung >= 2 { // each wedged instance costs two watchdog periods: two witnesses per worker are enough
				wo.Hist = &histResult{Hist: it.Hist, Skipped: true}

				break
			}
			r := runHist(*it.Hist)
			wo.Hist = &r
			if n := len(r.Steps); n > 0 && r.Steps[n-1].Status == 3 {
				hung++
			}
		case it.RC != nil:
			if hung >= 3 {
				wo.RC = &rcResult{RC: it.RC, Skipped: true}

				break
			}
			r := runRC(*it.RC)
			wo.RC = &r
			if n := len(r.RC.Ops); n > 0 && r.RC.Ops[n-1].Status == 3 {
				hung++
			}
		case it.Life != nil:
			if hung >= 2 {
				wo.Life = &lifeResult{Life: it.Life, Skipped: true}

				break
			}
			r := runLife(*it.Life)
			wo.Life = &r
			if n := len(r.Life.Ops); n > 0 && r.Life.Ops[n-1].Status == 3 {
				hung++
			}
		case it.NP != nil:
			if hung >= 3 {
				wo.NP = &npResult{NP: it.NP, Skipped: true}

				break
			}
			r := runNP(*it.NP)
			wo.NP = &r
			if n := len(r.NP.Ops); n > 0 && r.NP.Ops[n-1].Status == 3 {
				hung++
			}
		case it.Ext != nil:
			if hung >= 2 {
				wo.Ext = &extResult{Ext: it.Ext, Skipped: true}

				break
			}
			r := runExt(*it.Ext)
			wo.Ext = &r
			if n := len(r.Ext.Ops); n > 0 && r.Ext.Ops[n-1].Status == 3 {
				hung++
			}
		}
		fmt.Fprintf(out, "S %d %s\n", i, mustJSON(wo))
		out.Flush()
	}
	fmt.Fprintf(out, "D\n")
	out.Flush()
}

// runItems runs the items in one crash-isolated worker; a worker death is attributed to the item that
// was running (its result gets a status-4 step) and the worker is restarted behind it.
func runItems(self, dir, tag string, items []workItem) []workOut {
	outs := make([]workOut, len(items))
	file := filepath.Join(dir, "c02work-"+tag+".json")
	if err := os.WriteFile(file, []byte(mustJSON(items)), 0o644); err != nil { //nolint:gosec
		panic(err)
	}
	from := 0
	for attempt := 0; attempt < 6 && from < len(items); attempt++ {
		cmd := exec.Command(self, "-worker", "items", "-wfile", file, "-wfrom", fmt.Sprint(from), "-out", os.TempDir()) //nolint:gosec
		var stderr strings.Builder
		cmd.Stderr = &stderr
		stdout, _ := cmd.StdoutPipe()
		if err := cmd.Start(); err != nil {
			panic(err)
		}
		timer := time.AfterFunc(600*time.Second, func() { _ = cmd.Process.Kill() })
		last, finished := -1, false
		sc := bufio.NewScanner(stdout)
		sc.Buffer(make([]byte, 1<<20), 1<<26)
		for sc.Scan() {
			line := sc.Text()
			switch {
			case strings.HasPrefix(line, "I "):
				fmt.Sscan(line[2:], &last)
			case strings.HasPrefix(line, "S "):
				parts := strings.SplitN(line, " ", 3)
				var idx int
				fmt.Sscan(parts[1], &idx)
				_ = json.Unmarshal([]byte(parts[2]), &outs[idx])
			case line == "D":
				finished = true
			}
		}
		err := cmd.Wait()
		timer.Stop()
		if finished {
			break
		}
		detail := stderr.String()
		if i := strings.Index(detail, "goroutine "); i > 0 && i < 600 {
			detail = detail[:i]
		}
		if len(detail) > 600 {
			detail = detail[:600]
		}
		detail = fmt.Sprintf("%v: %s", err, strings.TrimSpace(detail))
		if last < 0 {
			last = from
		}
		it := items[last]
		if it.Hist != nil {
			outs[last].Hist = &histResult{Hist: it.Hist, Steps: []histStep{{Op: 1, Status: 4, Detail: detail}}}
		} else if it.RC != nil {
			sc := *it.RC
			sc.Ops = []rcOp{{Kind: sc.Ops[0].Kind, S: sc.Ops[0].S, U: sc.Ops[0].U, Status: 4, Detail: detail}}
			outs[last].RC = &rcResult{RC: &sc}
		} else if it.Life != nil {
			// (inputs and observations share the op list: keep the inputs, the crash is booked on the first call)
			sc := *it.Life
			sc.Ops = append([]lifeOp{}, sc.Ops...)
			sc.Ops[0].Status, sc.Ops[0].Detail = 4, detail
			outs[last].Life = &lifeResult{Life: &sc}
		} else if it.NP != nil {
			sc := *it.NP
			sc.Ops = append([]npOp{}, sc.Ops...)
			sc.Ops[0].Status, sc.Ops[0].Res, sc.Ops[0].Detail = 4, -3, detail
			outs[last].NP = &npResult{NP: &sc}
		} else if it.Ext != nil {
			sc := *it.Ext
			sc.Ops = append([]extOp{}, sc.Ops...)
			sc.Ops[0].Status, sc.Ops[0].Detail, sc.Ops[0].OProf = 4, detail, sc.Ops[0].Profile
			outs[last].Ext = &extResult{Ext: &sc}
		}
		from = last + 1
	}
	_ = os.Remove(file)

	return outs
}

var statusName = map[int]string{1: "error", 2: "panic", 3: "hang", 4: "process-crash"}
var opName = map[int]string{0: "write", 1: "rtcp-read-feedback", 2: "rtcp-read-probe", 3: "get-target-bitrate", 4: "get-stats", 5: "close", 6: "rtcp-read-after-close"}

// histSets runs the scenario family and the rate controller histories and fills the two case sets.
func histSets(o *cq.Opts, self string, hs, rs *cq.Set, only *workItem) (fails []cq.ImplFailure, extra map[string]interface{}) {
	var hItems, rItems []workItem
	switch {
	case only != nil && only.Hist != nil:
		hItems = []workItem{*only}
	case only != nil && only.RC != nil:
		rItems = []workItem{*only}
	default:
		nh, nr := 156, 210 // (-n scales the byte-level fuzz only)
		if o.Tier == "thorough" {
			nh, nr = 1560, 1500
		}
		for k := int64(0); k < int64(nh); k++ {
			s := genHist(rand.New(rand.NewSource(o.Seed*7_000_003+k)), k) //nolint:gosec
			hItems = append(hItems, workItem{Hist: &s})
		}
		for k := int64(0); k < int64(nr); k++ {
			s := genRC(rand.New(rand.NewSource(o.Seed*9_000_011+k)), k) //nolint:gosec
			rItems = append(rItems, workItem{RC: &s})
		}
	}
	// scenarios sleep most of the time: many workers; a prime number of them, so that round-robin gives every worker every kind
	const workers = 13
	parts := make([][]workItem, workers)
	index := make([][]int, workers)
	for i, it := range hItems {
		parts[i%workers] = append(parts[i%workers], it)
		index[i%workers] = append(index[i%workers], i)
	}
	hOuts := make([]workOut, len(hItems))
	var rOuts []workOut
	var wg sync.WaitGroup
	for w := 0; w < workers; w++ {
		if len(parts[w]) == 0 {
			continue
		}
		wg.Add(1)
		go func(w int) {
			defer wg.Done()
			for j, out := range runItems(self, o.Out, fmt.Sprintf("h%d", w), parts[w]) {
				hOuts[index[w][j]] = out
			}
		}(w)
	}
	if len(rItems) > 0 {
		wg.Add(1)
		go func() {
			defer wg.Done()
			rOuts = runItems(self, o.Out, "rc", rItems)
		}()
	}
	wg.Wait()

	seen := map[string]bool{}
	calls, slow, skipped := 0, 0, 0
	for _, out := range hOuts {
		r := out.Hist
		if r == nil || r.Skipped {
			skipped++

			continue
		}
		tgt := int64(sort.SearchStrings([]string{"gcc-leaky", "gcc-noop", "rtpfb"}, r.Hist.Target))
		steps := make([]string, len(r.Steps))
		for i, st := range r.Steps {
			steps[i] = cq.T(cq.Z(int64(st.Op)), cq.Z(int64(st.Status)), cq.Z(int64(st.N)), cq.Z(int64(st.Given)))
		}
		calls += len(r.Steps)
		slow += r.Slow
		b := []string{r.Hist.Target + ":" + r.Hist.Fb, "pattern:" + r.Hist.Pattern}
		pub := 0
		for k, v := range r.Published {
			b = append(b, "published:"+k)
			pub += v
		}
		if r.Hist.Target != "rtpfb" && r.Groups-3 > pub {
			// more arrival groups than published statistics: the rate controller decided "hold" (which publishes
			// nothing; C02c_hold_is_never_published) - an estimate, see feedbackFor
			b = append(b, "hold-decisions(est)")
		}
		hs.Cases = append(hs.Cases, cq.Case{Coq: cq.T(cq.Z(tgt), cq.L(steps)), JSON: r, Buckets: b, Trivial: len(r.Steps) < 6})
		for _, st := range r.Steps {
			bad := st.Status >= 2 || (st.Status == 1 && st.Op != 6) || (st.N > st.Given && (st.Op == 1 || st.Op == 2 || st.Op == 6))
			if !bad {
				continue
			}
			kind := fmt.Sprintf("%s:%s:hist:%s:%s:%s", r.Hist.Target, statusName[st.Status], r.Hist.Fb, r.Hist.Pattern, opName[st.Op])
			if st.Status < 2 && st.N > st.Given {
				kind = fmt.Sprintf("%s:more-bytes:hist:%s:%s:%s", r.Hist.Target, r.Hist.Fb, r.Hist.Pattern, opName[st.Op])
			}
			if !seen[kind] {
				seen[kind] = true
				fails = append(fails, cq.ImplFailure{Kind: kind, Detail: st.Detail, Case: workItem{Hist: r.Hist}})
			}

			break
		}
	}
	for _, out := range rOuts {
		r := out.RC
		if r == nil || r.Skipped {
			skipped++

			continue
		}
		steps := make([]string, len(r.RC.Ops))
		holds := 0
		for i, op := range r.RC.Ops {
			steps[i] = cq.T(cq.T(cq.Z(int64(op.Kind)), cq.Z(int64(op.S)), cq.Z(int64(op.U))),
				cq.T(cq.Z(int64(op.Status)), cq.Z(int64(op.PubU)), cq.Z(int64(op.PubS))))
			if op.Kind == 0 && i > 0 && gcc.VerifTransition(op.S, op.U) == 2 {
				holds++
			}
		}
		calls += len(r.RC.Ops)
		b := []string{"pacer:" + r.RC.Pacer}
		if holds > 0 {
			b = append(b, "hold-decision")
		}
		rs.Cases = append(rs.Cases, cq.Case{Coq: cq.L(steps), JSON: r, Buckets: b, Trivial: len(r.RC.Ops) < 3})
		if n := len(r.RC.Ops); n > 0 && r.RC.Ops[n-1].Status != 0 {
			op := r.RC.Ops[n-1]
			kind := fmt.Sprintf("gcc-rate-controller:%s:kind%d-after-%d-calls", statusName[op.Status], op.Kind, n-1)
			key := fmt.Sprintf("rc:%s:%d", statusName[op.Status], op.Kind)
			if !seen[key] {
				seen[key] = true
				fails = append(fails, cq.ImplFailure{Kind: kind, Detail: op.Detail, Case: workItem{RC: stripRC(r.RC)}})
			}
		}
	}
	extra = map[string]interface{}{"hist_scenarios": len(hs.Cases), "rc_histories": len(rs.Cases), "hist_calls": calls,
		"hist_slow_calls": slow, "hist_skipped_after_repeated_hangs": skipped}

	return fails, extra
}

// stripRC: the replay input is the call sequence, not what was observed.
func stripRC(s *rcScn) *rcScn {
	c := rcScn{K: s.K, Pacer: s.Pacer}
	for _, op := range s.Ops {
		c.Ops = append(c.Ops, rcOp{Kind: op.Kind, S: op.S, U: op.U})
	}

	return &c
}
