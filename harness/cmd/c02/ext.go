// Round 5: structurally valid RTP whose HEADER-EXTENSION ELEMENTS have every length, under the ids the
// streams negotiated and under others.
//
// The byte-level fuzz of main.go builds its extension blocks with rtp.Header.SetExtension and a 2-byte (or
// 30-byte) value; its mutations almost never produce another *well-framed* element. But the length of an
// RFC 8285 element is the sender's choice: a one-byte-header element carries 1..16 bytes, a two-byte-header
// element 0..255, whatever the URI negotiated for its id says the value should look like. Every interceptor
// that reads an extension by its negotiated id (twcc sender: incoming; cc / gcc feedback adapter, rtpfb:
// outgoing; twcc header extension interceptor: rewrites it) therefore sees values shorter than it expects on
// perfectly parsable packets.
//
//	c02ext: histories against every interceptor configuration: six streams (local and remote) that negotiated
//	        the transport-cc URI under the ids 1, 5 (second of two extensions), 14, 15, 200 and not at all;
//	        incoming packets (raw bytes), outgoing packets (header parsed from raw bytes, or built with
//	        SetExtension): one-byte profile, two-byte profile, RFC 3550 profiles; an element of every length
//	        under the negotiated id, under other ids, first / last / repeated, inter-element padding, reserved
//	        ids 0 and 15, declared block length too long / too short; each followed by a well-formed packet of
//	        the same stream and direction. Every call under the watchdog. Compared with Model/HdrExt.v.
package main

import (
	"encoding/binary"
	"encoding/hex"
	"fmt"
	"math/rand"
	"time"

	"github.com/pion/interceptor"
	"github.com/pion/rtcp"
	"github.com/pion/rtp"

	"verifharness/internal/cq"
)

const absSendTimeURI = "http://www.webrtc.org/experiments/rtp-hdrext/abs-send-time"

// negotiated transport-cc id of each stream slot (0: the stream did not negotiate it)
var extNegID = []int{1, 5, 14, 15, 200, 0}

func extSlotSSRC(j int) uint32 { return 0x22330000 + uint32(j)*0x11 } //nolint:gosec

type extElem struct {
	ID  int `json:"id"`
	Len int `json:"len"`
	Pad int `json:"pad,omitempty"` // zero bytes in front of the element
}

type extOp struct {
	Dir     int       `json:"dir"`     // 0 incoming (Read), 1 outgoing, header parsed from bytes, 2 outgoing, header built with SetExtension, 3 Close
	Slot    int       `json:"slot"`    // which stream
	Profile int       `json:"profile"` // 16 bit profile; -1: no extension (X = 0)
	Elems   []extElem `json:"elems,omitempty"`
	Trail   int       `json:"trail,omitempty"`  // zero bytes behind the last element (before aligning to 4)
	WDelta  int       `json:"wdelta,omitempty"` // declared length (in words) = real length + WDelta
	CSRC    int       `json:"csrc,omitempty"`
	PayLen  int       `json:"paylen"`
	WF      int       `json:"wf"` // by construction: 1 = well-formed (see extWF)
	// observed
	Block  string   `json:"block,omitempty"`  // hex: the bytes behind the 4-byte extension header that the packet really has (up to the declared length)
	Words  int      `json:"words"`            // declared length in words
	OProf  int      `json:"oprof"`            // the profile the header really has (-1: X = 0); differs from Profile only for SetExtension-built headers
	POK    int      `json:"pok"`              // pion/rtp parsed the header (independently of the interceptor)
	Parsed [][2]int `json:"parsed,omitempty"` // (id, length of the first element with that id) in order, as parsed by pion/rtp
	Status int      `json:"status"`
	N      int      `json:"n"`
	Given  int      `json:"given"`
	Detail string   `json:"detail,omitempty"`
}

type extScn struct {
	K       int64   `json:"k"`
	Target  string  `json:"target"`
	Pattern string  `json:"pattern"`
	Ops     []extOp `json:"ops"`
}

type extResult struct {
	Ext     *extScn `json:"ext"`
	Slow    int     `json:"slow,omitempty"`
	Skipped bool    `json:"skipped,omitempty"`
}

var extPatterns = []string{
	"read-1b-len-sweep", "read-2b-len-sweep", "write-len-sweep", "setext-write", "other-id", "multi", "structural", "random",
}

const (
	prof1B = 0xBEDE
	prof2B = 0x1000
)

// extWF: is the packet well formed - by construction, from what the generator put in, not from what any
// parser says. RFC 8285 framing respected, no id twice, and if the stream negotiated transport-cc the
// element under that id (if any) carries exactly the 2 bytes of a transport-wide sequence number. An
// outgoing packet of a stream that negotiated transport-cc is well formed only if it carries that element
// (the cc interceptor documents the extension as required) in a profile that can express the id.
func extWF(op extOp) bool {
	neg := extNegID[op.Slot]
	if op.WDelta != 0 || op.Dir == 3 {
		return false
	}
	if op.Dir == 2 && op.Profile < 0 && len(op.Elems) > 0 {
		op.Profile = prof1B // SetExtension on a header without extensions chooses the one-byte profile (values up to 16 bytes)
	}
	if op.Profile < 0 {
		return op.Dir == 0 || neg == 0
	}
	if op.Profile != prof1B && op.Profile != prof2B {
		return op.Dir == 0 // RFC 3550 extension: opaque to everybody
	}
	seen := map[int]bool{}
	have := false
	for _, e := range op.Elems {
		if seen[e.ID] {
			return false
		}
		seen[e.ID] = true
		if op.Profile == prof1B && (e.ID < 1 || e.ID > 14 || e.Len < 1 || e.Len > 16) {
			return false
		}
		if op.Profile == prof2B && (e.ID < 1 || e.ID > 255 || e.Len < 0 || e.Len > 255) {
			return false
		}
		if e.ID == neg {
			if e.Len != 2 {
				return false
			}
			have = true
		}
	}
	if op.Dir == 0 || neg == 0 {
		return true
	}
	if len(op.Elems) == 0 {
		return false // (X bit with an empty block: nothing to say about it on the way out)
	}

	return have
}

func goodOp(dir, slot int) extOp {
	neg := extNegID[slot]
	op := extOp{Dir: dir, Slot: slot, PayLen: 40}
	switch {
	case neg == 0:
		op.Profile = prof1B
		op.Elems = []extElem{{ID: 1, Len: 3}}
	case neg <= 14:
		op.Profile = prof1B
		op.Elems = []extElem{{ID: neg, Len: 2}}
	default:
		op.Profile = prof2B
		op.Elems = []extElem{{ID: neg, Len: 2}}
	}

	return op
}

func genExt(r *rand.Rand, k int64) extScn {
	names := targetNames()
	s := extScn{K: k, Target: names[int(k)%len(names)], Pattern: extPatterns[(int(k)/len(names))%len(extPatterns)]}
	add := func(op extOp) {
		s.Ops = append(s.Ops, op)
		d := op.Dir
		if d == 2 {
			d = 1
		}
		s.Ops = append(s.Ops, goodOp(d, op.Slot)) // "keeps working for subsequent well-formed packets"
	}
	otherID := func(slot int, prof int) int {
		for {
			id := 1 + r.Intn(14)
			if prof == prof2B && r.Intn(2) == 0 {
				id = 1 + r.Intn(255)
			}
			if id != extNegID[slot] {
				return id
			}
		}
	}
	nslots := len(extNegID)
	switch s.Pattern {
	case "read-1b-len-sweep":
		for slot := 0; slot < nslots; slot++ {
			id := extNegID[slot]
			if id == 0 {
				id = 1
			}
			if id > 15 {
				continue
			}
			for _, l := range []int{1, 2, 3, 16, 4 + r.Intn(12)} {
				add(extOp{Dir: 0, Slot: slot, Profile: prof1B, Elems: []extElem{{ID: id, Len: l}}, PayLen: r.Intn(30)})
			}
		}
	case "read-2b-len-sweep":
		for slot := 0; slot < nslots; slot++ {
			id := extNegID[slot]
			if id == 0 {
				id = 1
			}
			for _, l := range []int{0, 1, 2, 3, []int{4, 16, 17, 255}[r.Intn(4)]} {
				add(extOp{Dir: 0, Slot: slot, Profile: prof2B, Elems: []extElem{{ID: id, Len: l}}, PayLen: r.Intn(30)})
			}
		}
	case "write-len-sweep":
		for slot := 0; slot < nslots; slot++ {
			id := extNegID[slot]
			if id == 0 {
				id = 1
			}
			if id <= 15 {
				for _, l := range []int{1, 2, []int{3, 4, 16}[r.Intn(3)]} {
					add(extOp{Dir: 1, Slot: slot, Profile: prof1B, Elems: []extElem{{ID: id, Len: l}}, PayLen: r.Intn(30)})
				}
			}
			for _, l := range []int{0, 1, 2, []int{3, 17, 255}[r.Intn(3)]} {
				add(extOp{Dir: 1, Slot: slot, Profile: prof2B, Elems: []extElem{{ID: id, Len: l}}, PayLen: r.Intn(30)})
			}
		}
	case "setext-write":
		for slot := 0; slot < nslots; slot++ {
			id := extNegID[slot]
			if id == 0 {
				id = 1
			}
			for _, prof := range []int{-1, prof1B, prof2B} {
				for _, l := range []int{0, 1, 2} {
					if prof == prof1B && l == 0 {
						continue
					}
					add(extOp{Dir: 2, Slot: slot, Profile: prof, Elems: []extElem{{ID: id, Len: l}}, PayLen: r.Intn(30)})
				}
			}
			add(extOp{Dir: 2, Slot: slot, Profile: prof2B, Elems: []extElem{{ID: otherID(slot, prof2B), Len: 30}, {ID: id, Len: r.Intn(3)}}, PayLen: 10})
		}
	case "other-id":
		for slot := 0; slot < nslots; slot++ {
			for dir := slot % 2; dir < 2; dir += 2 {
				for _, l := range []int{1, 16} {
					add(extOp{Dir: dir, Slot: slot, Profile: prof1B, Elems: []extElem{{ID: otherID(slot, prof1B), Len: l}}, PayLen: r.Intn(30)})
				}
				for _, l := range []int{0, 40} {
					add(extOp{Dir: dir, Slot: slot, Profile: prof2B, Elems: []extElem{{ID: otherID(slot, prof2B), Len: l}}, PayLen: r.Intn(30)})
				}
			}
		}
	case "multi":
		for slot := 0; slot < nslots; slot++ {
			neg := extNegID[slot]
			if neg == 0 {
				neg = 2
			}
			for i := 0; i < 4; i++ {
				prof := prof1B
				if neg > 14 || r.Intn(2) == 0 {
					prof = prof2B
				}
				short := r.Intn(2)
				if prof == prof1B {
					short = 1
				}
				n := 2 + r.Intn(3)
				pos := r.Intn(n)
				var es []extElem
				for j := 0; j < n; j++ {
					e := extElem{ID: otherID(slot, prof), Len: 1 + r.Intn(6), Pad: []int{0, 0, 1, 3}[r.Intn(4)]}
					if j == pos {
						e.ID, e.Len = neg, short
					}
					es = append(es, e)
				}
				if r.Intn(3) == 0 { // the id twice: the short one first or second
					e2 := extElem{ID: neg, Len: 2}
					if r.Intn(2) == 0 {
						es = append(es, e2)
					} else {
						es = append([]extElem{e2}, es...)
					}
				}
				add(extOp{Dir: r.Intn(2), Slot: slot, Profile: prof, Elems: es, Trail: r.Intn(4), CSRC: r.Intn(3), PayLen: r.Intn(30)})
			}
		}
	case "structural":
		for slot := 0; slot < nslots; slot++ {
			neg := extNegID[slot]
			if neg == 0 || neg > 14 {
				neg = 3
			}
			dir := slot % 2
			shapes := []extOp{
				extOp{Dir: dir, Slot: slot, Profile: prof1B},                                                                     // X bit, empty block
				extOp{Dir: dir, Slot: slot, Profile: prof1B, Trail: 4},                                                           // padding only
				extOp{Dir: dir, Slot: slot, Profile: prof1B, Elems: []extElem{{ID: 15, Len: 1 + r.Intn(16)}, {ID: neg, Len: 1}}}, // reserved id: stop
				extOp{Dir: dir, Slot: slot, Profile: prof1B, Elems: []extElem{{ID: 0, Len: 2 + r.Intn(15)}, {ID: neg, Len: 1}}},  // id 0 with a length: stop
				extOp{Dir: dir, Slot: slot, Profile: prof1B, Elems: []extElem{{ID: neg, Len: 1}, {ID: 15, Len: 3}}},
				extOp{Dir: dir, Slot: slot, Profile: prof1B, Elems: []extElem{{ID: neg, Len: 6}}, WDelta: -1}, // element runs over the declared end
				extOp{Dir: dir, Slot: slot, Profile: prof2B, Elems: []extElem{{ID: extNegID[slot] | 1, Len: 7}}, WDelta: -1},
				extOp{Dir: dir, Slot: slot, Profile: prof2B, Elems: []extElem{{ID: extNegID[slot] | 1, Len: 0}}, WDelta: 1, PayLen: 0}, // declared longer than the packet
				extOp{Dir: dir, Slot: slot, Profile: prof2B, Elems: []extElem{{ID: extNegID[slot] | 1, Len: 1}}, WDelta: 1, PayLen: 9},
				extOp{Dir: dir, Slot: slot, Profile: prof2B, Elems: []extElem{{ID: 7, Len: 1}, {ID: 9, Len: -1}}}, // id byte without its length byte at the end
				extOp{Dir: dir, Slot: slot, Profile: 0x1001 + r.Intn(15), Elems: []extElem{{ID: extNegID[slot] | 1, Len: 0}}},
				extOp{Dir: dir, Slot: slot, Profile: 0x1234, Elems: []extElem{{ID: extNegID[slot] | 1, Len: 1}}},
				extOp{Dir: dir, Slot: slot, Profile: -1, PayLen: r.Intn(3)},
			}
			for i, op := range shapes {
				if (i+slot+int(k)/(17*len(extPatterns)))%2 == 0 { // half of the shapes per stream, the other half in the next round of scenarios
					add(op)
				}
			}
		}
	default:
		for i := 0; i < 30; i++ {
			slot := r.Intn(nslots)
			prof := []int{prof1B, prof1B, prof2B, prof2B, 0x1005, -1}[r.Intn(6)]
			op := extOp{Dir: r.Intn(3), Slot: slot, Profile: prof, Trail: r.Intn(5), CSRC: r.Intn(4), PayLen: r.Intn(60)}
			for j := r.Intn(4); j > 0 && prof >= 0; j-- {
				e := extElem{ID: otherID(slot, prof), Len: r.Intn(5), Pad: []int{0, 0, 0, 2}[r.Intn(4)]}
				if r.Intn(2) == 0 {
					e.ID = extNegID[slot]
					if e.ID == 0 {
						e.ID = 1
					}
				}
				if prof == prof1B {
					e.Len++
					if e.ID > 15 {
						e.ID = 15
					}
				}
				op.Elems = append(op.Elems, e)
			}
			if r.Intn(12) == 0 {
				op.WDelta = []int{-1, 1}[r.Intn(2)]
			}
			add(op)
		}
	}
	for slot := 0; slot < nslots; slot++ {
		s.Ops = append(s.Ops, goodOp(0, slot), goodOp(1, slot))
	}
	s.Ops = append(s.Ops, extOp{Dir: 3, Profile: -1})
	for i := range s.Ops {
		if extWF(s.Ops[i]) {
			s.Ops[i].WF = 1
		}
	}

	return s
}

// extBytes: the packet as bytes. tseq: the transport-wide sequence number put into the element under the
// negotiated id (as far as it has room).
func extBytes(op extOp, seq, tseq uint16) (raw []byte, block []byte, words int) {
	neg := extNegID[op.Slot]
	raw = make([]byte, 12, 128)
	raw[0] = 0x80 | byte(op.CSRC)
	raw[1] = 96
	binary.BigEndian.PutUint16(raw[2:], seq)
	binary.BigEndian.PutUint32(raw[4:], uint32(seq)*3000)
	binary.BigEndian.PutUint32(raw[8:], extSlotSSRC(op.Slot))
	for i := 0; i < op.CSRC; i++ {
		raw = append(raw, 0, 0, 0, byte(i+1))
	}
	payload := make([]byte, op.PayLen)
	for i := range payload {
		payload[i] = byte(0x40 + i)
	}
	if op.Profile < 0 {
		return append(raw, payload...), nil, 0
	}
	raw[0] |= 0x10
	var b []byte
	for _, e := range op.Elems {
		for i := 0; i < e.Pad; i++ {
			b = append(b, 0)
		}
		if op.Profile == prof1B {
			b = append(b, byte(e.ID<<4)|byte((e.Len-1)&0xF))
		} else {
			b = append(b, byte(e.ID))
			if e.Len < 0 { // the id byte alone
				continue
			}
			b = append(b, byte(e.Len))
		}
		for i := 0; i < e.Len; i++ {
			v := byte(0x11 * (i + 1))
			if e.ID == neg && i == 0 {
				v = byte(tseq >> 8)
			}
			if e.ID == neg && i == 1 {
				v = byte(tseq)
			}
			b = append(b, v)
		}
	}
	for i := 0; i < op.Trail; i++ {
		b = append(b, 0)
	}
	for len(b)%4 != 0 {
		b = append(b, 0)
	}
	words = len(b)/4 + op.WDelta
	if words < 0 {
		words = 0
	}
	raw = append(raw, byte(op.Profile>>8), byte(op.Profile), byte(words>>8), byte(words))
	start := len(raw)
	raw = append(raw, b...)
	raw = append(raw, payload...)
	end := start + 4*words
	if end > len(raw) {
		end = len(raw)
	}

	return raw, raw[start:end], words
}

func runExt(s extScn) extResult {
	res := extResult{Ext: &s}
	var t *target
	for _, x := range targets() {
		if x.name == s.Target {
			x := x
			t = &x
		}
	}
	fail := func(msg string) extResult {
		s.Ops = []extOp{{Dir: 3, Status: 1, Detail: msg}}

		return res
	}
	if t == nil {
		return fail("unknown target " + s.Target)
	}
	ic, err := t.mk()
	if err != nil {
		return fail("construct: " + err.Error())
	}
	ic.BindRTCPWriter(interceptor.RTCPWriterFunc(func([]rtcp.Packet, interceptor.Attributes) (int, error) { return 0, nil }))
	sink := interceptor.RTPWriterFunc(func(h *rtp.Header, p []byte, _ interceptor.Attributes) (int, error) {
		return h.MarshalSize() + len(p), nil
	})
	var feed []byte
	src := interceptor.RTPReaderFunc(func(b []byte, a interceptor.Attributes) (int, interceptor.Attributes, error) {
		return copy(b, feed), a, nil
	})
	n := len(extNegID)
	writers := make([]interceptor.RTPWriter, n)
	readers := make([]interceptor.RTPReader, n)
	g := &guarded{}
	for j := 0; j < n; j++ {
		info := &interceptor.StreamInfo{
			SSRC: extSlotSSRC(j), PayloadType: 96, ClockRate: 90000, MimeType: "video/VP8",
			RTCPFeedback:               []interceptor.RTCPFeedback{{Type: "nack"}, {Type: "nack", Parameter: "pli"}, {Type: "transport-cc"}, {Type: "ccfb"}},
			SSRCForwardErrorCorrection: 0x9900 + uint32(j), PayloadTypeForwardErrorCorrection: 118, //nolint:gosec
			SSRCRetransmission: 0x7700 + uint32(j), PayloadTypeRetransmission: 97, //nolint:gosec
		}
		switch {
		case extNegID[j] == 0:
			info.RTPHeaderExtensions = []interceptor.RTPHeaderExtension{{URI: absSendTimeURI, ID: 1}}
		case j == 1:
			info.RTPHeaderExtensions = []interceptor.RTPHeaderExtension{{URI: absSendTimeURI, ID: 2}, {URI: twccURI, ID: extNegID[j]}}
		default:
			info.RTPHeaderExtensions = []interceptor.RTPHeaderExtension{{URI: twccURI, ID: extNegID[j]}}
		}
		writers[j] = ic.BindLocalStream(info, sink)
		readers[j] = ic.BindRemoteStream(info, src)
	}
	seqs := make([]uint16, n)
	tseq := uint16(s.K * 331) //nolint:gosec
	done := 0
	for i := range s.Ops {
		op := &s.Ops[i]
		if op.Dir == 3 {
			time.Sleep(5 * time.Millisecond) // tickers, recorders and pacers run
			g.call(3, func() (int, int, int64, error) { return 0, 0, 0, ic.Close() })
			time.Sleep(2 * time.Millisecond)
			last := g.steps[len(g.steps)-1]
			op.Status, op.Detail = last.Status, last.Detail
			done = i + 1

			break
		}
		seqs[op.Slot]++
		tseq++
		raw, block, words := extBytes(*op, seqs[op.Slot], tseq)
		op.Block, op.Words, op.OProf = hex.EncodeToString(block), words, op.Profile
		h := &rtp.Header{}
		var ok bool
		if op.Dir == 2 {
			h = &rtp.Header{Version: 2, SSRC: extSlotSSRC(op.Slot), SequenceNumber: seqs[op.Slot], Timestamp: uint32(seqs[op.Slot]) * 3000, PayloadType: 96}
			if op.Profile >= 0 {
				h.Extension, h.ExtensionProfile = true, uint16(op.Profile) //nolint:gosec
			}
			for _, e := range op.Elems {
				v := make([]byte, e.Len)
				if e.ID == extNegID[op.Slot] && e.Len >= 2 {
					v[0], v[1] = byte(tseq>>8), byte(tseq)
				}
				if h.SetExtension(uint8(e.ID), v) != nil { //nolint:gosec
					op.WF = 0 // the header cannot express it: not the packet the generator meant
				}
			}
			op.Block, op.Words, op.POK, op.OProf = "", 0, 1, -1
			if h.Extension {
				op.OProf = int(h.ExtensionProfile)
			}
		} else if _, err := h.Unmarshal(raw); err == nil {
			op.POK = 1
		}
		if op.POK == 1 {
			seen := map[uint8]bool{}
			for _, id := range h.GetExtensionIDs() {
				if !seen[id] {
					op.Parsed = append(op.Parsed, [2]int{int(id), len(h.GetExtension(id))})
				}
				seen[id] = true
			}
		}
		if op.Dir == 0 {
			feed = raw
			buf := make([]byte, 1500)
			rd := readers[op.Slot]
			ok = g.call(0, func() (int, int, int64, error) {
				n, _, e := rd.Read(buf, interceptor.Attributes{})

				return n, len(raw), 0, e
			})
		} else {
			if op.POK == 0 {
				// the application cannot have built this header: skip the call, keep the row (status 1: nothing was sent)
				g.steps = append(g.steps, histStep{Op: op.Dir, Status: 1, Detail: "not a parsable header: nothing written"})
				ok = true
			} else {
				w := writers[op.Slot]
				payload := make([]byte, op.PayLen)
				ok = g.call(op.Dir, func() (int, int, int64, error) {
					n, e := w.Write(h, payload, interceptor.Attributes{})

					return n, 0, 0, e
				})
			}
			if i%8 == 7 {
				time.Sleep(time.Millisecond)
			}
		}
		last := g.steps[len(g.steps)-1]
		op.Status, op.N, op.Given, op.Detail = last.Status, last.N, last.Given, last.Detail
		done = i + 1
		if !ok {
			break
		}
	}
	s.Ops = s.Ops[:done]
	res.Slow = g.slow

	return res
}

func stripExt(s *extScn) *extScn {
	c := extScn{K: s.K, Target: s.Target, Pattern: s.Pattern}
	for _, op := range s.Ops {
		c.Ops = append(c.Ops, extOp{Dir: op.Dir, Slot: op.Slot, Profile: op.Profile, Elems: op.Elems, Trail: op.Trail, WDelta: op.WDelta,
			CSRC: op.CSRC, PayLen: op.PayLen, WF: op.WF})
	}

	return &c
}

// packBytes: the byte string as (length, big-endian 32-bit words) (Check/C02Check.v block_of)
func packBytes(b []byte) string {
	var ws []int64
	for i := 0; i < len(b); i += 4 {
		var w [4]byte
		copy(w[:], b[i:])
		ws = append(ws, int64(binary.BigEndian.Uint32(w[:])))
	}

	return cq.T(cq.Z(int64(len(b))), cq.LZ(ws))
}

var extDirName = map[int]string{0: "read", 1: "write", 2: "write-setextension", 3: "close"}

// extSets runs the header-extension histories and fills the case set.
func extSets(o *cq.Opts, self string, ess []*cq.Set, only *workItem) (fails []cq.ImplFailure, extra map[string]interface{}) {
	var items []workItem
	switch {
	case only != nil && only.Ext != nil:
		// the replay keeps the generator's well-formedness flag; recompute it all the same (it is a function of the input)
		for i := range only.Ext.Ops {
			only.Ext.Ops[i].WF = 0
			if extWF(only.Ext.Ops[i]) {
				only.Ext.Ops[i].WF = 1
			}
		}
		items = []workItem{*only}
	case only != nil:
	default:
		ne := 17 * len(extPatterns)
		if o.Tier == "thorough" {
			ne *= 8
		}
		for k := int64(0); k < int64(ne); k++ {
			s := genExt(rand.New(rand.NewSource(o.Seed*7_000_003+k)), k) //nolint:gosec
			items = append(items, workItem{Ext: &s})
		}
	}
	outs := runParallel(self, o.Out, "e", items, 12)
	names := targetNames()
	seen := map[string]bool{}
	calls, skipped, short, nCases := 0, 0, 0, 0
	for _, out := range outs {
		r := out.Ext
		if r == nil || r.Skipped {
			skipped++

			continue
		}
		tgt := int64(0)
		for i, n := range names {
			if n == r.Ext.Target {
				tgt = int64(i)
			}
		}
		steps := make([]string, len(r.Ext.Ops))
		b := []string{r.Ext.Target, "pattern:" + r.Ext.Pattern}
		kinds := map[string]bool{}
		wf, other := 0, 0
		for i, op := range r.Ext.Ops {
			blk, _ := hex.DecodeString(op.Block)
			pe := make([]string, len(op.Parsed))
			for j, p := range op.Parsed {
				pe[j] = cq.T(cq.Z(int64(p[0])), cq.Z(int64(p[1])))
			}
			neg := 0
			if op.Dir != 3 {
				neg = extNegID[op.Slot]
			} else {
				op.OProf = -1
			}
			steps[i] = cq.T(cq.T(cq.Z(int64(op.Dir)), cq.Z(int64(neg)), cq.Z(int64(op.OProf)), cq.Z(int64(op.Words))), packBytes(blk),
				cq.T(cq.Z(int64(op.POK)), cq.L(pe)), cq.T(cq.Z(int64(op.Status)), cq.Z(int64(op.N)), cq.Z(int64(op.Given)), cq.Z(int64(op.WF))))
			if op.Dir == 3 {
				continue
			}
			if op.WF == 1 {
				wf++
			} else {
				other++
			}
			for _, p := range op.Parsed {
				if p[0] == neg && neg != 0 && p[1] < 2 {
					kinds[fmt.Sprintf("negotiated-id-element-of-%d-bytes:%s", p[1], extDirName[op.Dir])] = true
					short++
				}
				if p[0] == neg && neg != 0 && p[1] > 2 {
					kinds["negotiated-id-element-longer-than-2:"+extDirName[op.Dir]] = true
				}
			}
			if op.POK == 0 {
				kinds["not-parsable"] = true
			}
			if op.WF == 0 && op.Status == 1 {
				kinds["inconsistent-packet-rejected:"+extDirName[op.Dir]] = true
			}
			if op.WF == 0 && op.Status == 0 {
				kinds["inconsistent-packet-accepted:"+extDirName[op.Dir]] = true
			}
		}
		for k := range kinds {
			b = append(b, k)
		}
		calls += len(r.Ext.Ops)
		es := ess[0]
		for i, p := range extPatterns {
			if p == r.Ext.Pattern {
				es = ess[(i/2)%len(ess)] // two patterns per set (one Coq shard each: they are evaluated in parallel)
			}
		}
		nCases++
		es.Cases = append(es.Cases, cq.Case{Coq: cq.T(cq.Z(tgt), cq.L(steps)), JSON: r, Buckets: b, Trivial: wf == 0 || other == 0})
		for _, op := range r.Ext.Ops {
			what := ""
			switch {
			case op.Status >= 2:
				what = statusName[op.Status]
			case op.Dir == 0 && op.N > op.Given && !(r.Ext.Target == "jitterbuffer" && op.N <= 1500):
				what = "more-bytes"
			case op.Status == 1 && op.Dir == 3:
				what = "close-failed"
			case op.Status == 1 && op.WF == 1 && !(r.Ext.Target == "jitterbuffer" && op.Dir == 0):
				what = "well-formed-packet-refused"
			case op.Status == 0 && op.WF == 1 && op.Dir == 0 && op.N != op.Given && r.Ext.Target != "jitterbuffer":
				what = "well-formed-packet-truncated"
			}
			if what == "" {
				continue
			}
			kind := fmt.Sprintf("%s:%s:ext:%s:%s", r.Ext.Target, what, r.Ext.Pattern, extDirName[op.Dir])
			if !seen[kind] {
				seen[kind] = true
				fails = append(fails, cq.ImplFailure{Kind: kind, Detail: op.Detail, Case: workItem{Ext: stripExt(r.Ext)}})
			}

			break
		}
	}
	extra = map[string]interface{}{"ext_scenarios": nCases, "ext_calls": calls, "ext_short_negotiated_elements": short,
		"ext_skipped_after_repeated_hangs": skipped}

	return fails, extra
}
