// Generator for C02: no untrusted packet can crash or wedge an interceptor.
//
// The parent process spawns one worker process per target (this binary with
// -worker): a panic in a background goroutine kills only that worker, and the
// parent learns from the worker's progress lines which input did it.
package main

import (
	"bufio"
	"encoding/binary"
	"encoding/hex"
	"encoding/json"
	"errors"
	"flag"
	"fmt"
	"io"
	"math/rand"
	"os"
	"os/exec"
	"strings"
	"sync"
	"time"

	"github.com/pion/interceptor"
	"github.com/pion/interceptor/pkg/cc"
	"github.com/pion/interceptor/pkg/flexfec"
	"github.com/pion/interceptor/pkg/gcc"
	"github.com/pion/interceptor/pkg/intervalpli"
	"github.com/pion/interceptor/pkg/jitterbuffer"
	"github.com/pion/interceptor/pkg/nack"
	"github.com/pion/interceptor/pkg/pacing"
	"github.com/pion/interceptor/pkg/packetdump"
	"github.com/pion/interceptor/pkg/report"
	"github.com/pion/interceptor/pkg/rfc8888"
	"github.com/pion/interceptor/pkg/rtpfb"
	"github.com/pion/interceptor/pkg/stats"
	"github.com/pion/interceptor/pkg/twcc"
	"github.com/pion/logging"
	"github.com/pion/rtcp"
	"github.com/pion/rtp"

	"verifharness/internal/cq"
)

// configuration of the "pacing" target
const (
	pacingRate     = 50_000_000
	pacingInterval = time.Millisecond
)

const twccURI = "http://www.ietf.org/id/draft-holmer-rmcat-transport-wide-cc-extensions-01"

// ---------------------------------------------------------------- targets

type target struct {
	name string
	mk   func() (interceptor.Interceptor, error)
}

type quietLF struct{}

func (quietLF) NewLogger(string) logging.LeveledLogger {
	l := logging.NewDefaultLeveledLoggerForScope("x", logging.LogLevelDisabled, io.Discard)

	return l
}

func targets() []target {
	lf := quietLF{}
	f := func(fac interceptor.Factory, err error) func() (interceptor.Interceptor, error) {
		return func() (interceptor.Interceptor, error) {
			if err != nil {
				return nil, err
			}

			return fac.NewInterceptor("id")
		}
	}

	return []target{
		{"nack-generator", func() (interceptor.Interceptor, error) {
			fac, err := nack.NewGeneratorInterceptor(nack.GeneratorInterval(2*time.Millisecond), nack.WithGeneratorLoggerFactory(lf))

			return f(fac, err)()
		}},
		{"nack-responder", func() (interceptor.Interceptor, error) {
			fac, err := nack.NewResponderInterceptor(nack.ResponderSize(64), nack.WithResponderLoggerFactory(lf))

			return f(fac, err)()
		}},
		{"report-receiver", func() (interceptor.Interceptor, error) {
			fac, err := report.NewReceiverInterceptor(report.ReceiverInterval(2*time.Millisecond), report.WithReceiverLoggerFactory(lf))

			return f(fac, err)()
		}},
		{"report-sender", func() (interceptor.Interceptor, error) {
			fac, err := report.NewSenderInterceptor(report.SenderInterval(2*time.Millisecond), report.WithSenderLoggerFactory(lf))

			return f(fac, err)()
		}},
		{"twcc-sender", func() (interceptor.Interceptor, error) {
			fac, err := twcc.NewSenderInterceptor(twcc.SendInterval(2*time.Millisecond), twcc.WithLoggerFactory(lf))

			return f(fac, err)()
		}},
		{"twcc-hdrext", func() (interceptor.Interceptor, error) {
			fac, err := twcc.NewHeaderExtensionInterceptor()

			return f(fac, err)()
		}},
		{"rfc8888", func() (interceptor.Interceptor, error) {
			fac, err := rfc8888.NewSenderInterceptor(rfc8888.SendInterval(2*time.Millisecond), rfc8888.WithLoggerFactory(lf))

			return f(fac, err)()
		}},
		{"rtpfb", func() (interceptor.Interceptor, error) {
			fac, err := rtpfb.NewInterceptor(rtpfb.WithLoggerFactory(lf))

			return f(fac, err)()
		}},
		{"stats", func() (interceptor.Interceptor, error) {
			fac, err := stats.NewInterceptor(stats.WithLoggerFactory(lf))

			return f(fac, err)()
		}},
		{"jitterbuffer", func() (interceptor.Interceptor, error) {
			fac, err := jitterbuffer.NewInterceptor(jitterbuffer.WithLoggerFactory(lf))

			return f(fac, err)()
		}},
		{"packetdump-receiver", func() (interceptor.Interceptor, error) {
			fac, err := packetdump.NewReceiverInterceptor(packetdump.RTPWriter(io.Discard), packetdump.RTCPWriter(io.Discard), packetdump.WithLoggerFactory(lf))

			return f(fac, err)()
		}},
		{"packetdump-sender", func() (interceptor.Interceptor, error) {
			fac, err := packetdump.NewSenderInterceptor(packetdump.RTPWriter(io.Discard), packetdump.RTCPWriter(io.Discard), packetdump.WithLoggerFactory(lf))

			return f(fac, err)()
		}},
		{"intervalpli", func() (interceptor.Interceptor, error) {
			fac, err := intervalpli.NewReceiverInterceptor(intervalpli.GeneratorInterval(2*time.Millisecond), intervalpli.WithLoggerFactory(lf))

			return f(fac, err)()
		}},
		{"flexfec", func() (interceptor.Interceptor, error) {
			fac, err := flexfec.NewFecInterceptor(flexfec.NumMediaPackets(4), flexfec.NumFECPackets(2))

			return f(fac, err)()
		}},
		{"pacing", func() (interceptor.Interceptor, error) {
			return pacing.NewInterceptor(pacing.InitialRate(pacingRate), pacing.Interval(pacingInterval), pacing.WithLoggerFactory(lf)).NewInterceptor("id")
		}},
		{"gcc-leaky", func() (interceptor.Interceptor, error) {
			fac, err := cc.NewInterceptor(func() (cc.BandwidthEstimator, error) {
				return gcc.NewSendSideBWE(gcc.SendSideBWEInitialBitrate(50_000_000), gcc.WithLoggerFactory(lf))
			})

			return f(fac, err)()
		}},
		{"gcc-noop", func() (interceptor.Interceptor, error) {
			fac, err := cc.NewInterceptor(func() (cc.BandwidthEstimator, error) {
				return gcc.NewSendSideBWE(gcc.SendSideBWEPacer(gcc.NewNoOpPacer()), gcc.WithLoggerFactory(lf))
			})

			return f(fac, err)()
		}},
	}
}

// ---------------------------------------------------------------- inputs

type input struct {
	Path string `json:"path"` // rtp-read | rtcp-read | rtp-write
	Kind string `json:"kind"` // generator bucket
	Hex  string `json:"hex"`  // raw bytes (reads) or payload length marker (writes)
	// rtp-write
	PayLen int   `json:"paylen,omitempty"`
	Shape  int   `json:"shape,omitempty"`
	BufLen int   `json:"buflen,omitempty"` // size of the buffer handed to Read
	Pad    int   `json:"pad,omitempty"`    // rtp-write: 1 = padding bit with PaddingSize 0 (legacy form), 2 = PaddingSize 4
	Fill   int   `json:"fill,omitempty"`   // rtp-write: value of the last payload byte (legacy padding count)
	HS     int   `json:"hs,omitempty"`     // rtp-write: header SSRC: 0 the bound stream's, 1 its RTX SSRC, 2 its FEC SSRC, 3 never bound, 4 zero, 5 0xFFFFFFFF
	XLen   int   `json:"xlen,omitempty"`   // rtp-write: n > 0: the element under the negotiated transport-cc id carries n-1 bytes instead of 2
	K      int64 `json:"k"`
}

const mediaSSRC = 0x11223344

func validRTP(r *rand.Rand, seq uint16, shape, paylen int) []byte {
	h := rtp.Header{Version: 2, SSRC: mediaSSRC, SequenceNumber: seq, Timestamp: uint32(seq) * 3000, PayloadType: 96}
	switch shape % 6 {
	case 1:
		h.CSRC = []uint32{1, 2, 3}
	case 2:
		_ = h.SetExtension(1, []byte{byte(seq >> 8), byte(seq)})
	case 3:
		h.Extension, h.ExtensionProfile = true, 0x1000
		_ = h.SetExtension(1, []byte{byte(seq >> 8), byte(seq)})
		_ = h.SetExtension(20, make([]byte, 30))
	case 4:
		h.Marker = true
		h.Padding, h.PaddingSize = true, 4
	case 5:
		h.Extension, h.ExtensionProfile = true, 0x1234
		_ = h.SetExtension(0, []byte{1, 2, 3, 4})
	}
	p := rtp.Packet{Header: h, Payload: make([]byte, paylen)}
	for i := range p.Payload {
		p.Payload[i] = byte(r.Intn(256))
	}
	if h.Padding {
		p.PaddingSize = 4
	}
	raw, err := p.Marshal()
	if err != nil {
		panic(err)
	}

	return raw
}

func twccRaw(base, count uint16, chunks []uint16, deltas []byte, padTo4 bool) []byte {
	body := make([]byte, 0, 64)
	b4 := make([]byte, 4)
	binary.BigEndian.PutUint32(b4, 5)
	body = append(body, b4...) // sender ssrc
	binary.BigEndian.PutUint32(b4, mediaSSRC)
	body = append(body, b4...) // media ssrc
	body = append(body, byte(base>>8), byte(base), byte(count>>8), byte(count), 0, 0, 1, 7)
	for _, c := range chunks {
		body = append(body, byte(c>>8), byte(c))
	}
	body = append(body, deltas...)
	pad := 0
	if padTo4 {
		for (len(body)+4+pad)%4 != 0 {
			pad++
		}
	}
	for i := 0; i < pad; i++ {
		if i == pad-1 {
			body = append(body, byte(pad))
		} else {
			body = append(body, 0)
		}
	}
	hdr := []byte{0x80 | 15, 205, 0, 0}
	if pad > 0 {
		hdr[0] |= 0x20
	}
	total := len(body) + 4
	binary.BigEndian.PutUint16(hdr[2:], uint16(total/4-1)) //nolint:gosec

	return append(hdr, body...)
}

func ccfbRaw(r *rand.Rand) []byte {
	// RFC 8888: header(PT 205, FMT 11), sender ssrc, blocks{ssrc, begin_seq, num_reports, reports...}, timestamp
	body := []byte{0, 0, 0, 5}
	nblocks := r.Intn(3)
	for i := 0; i < nblocks; i++ {
		b := make([]byte, 8)
		binary.BigEndian.PutUint32(b, mediaSSRC+uint32(r.Intn(2))) //nolint:gosec
		binary.BigEndian.PutUint16(b[4:], uint16(r.Intn(65536)))   //nolint:gosec
		n := []int{0, 1, 2, 3, 7, 16384, 16385, 65535}[r.Intn(8)]
		actual := n
		if r.Intn(2) == 0 {
			actual = r.Intn(6)
		}
		binary.BigEndian.PutUint16(b[6:], uint16(n)) //nolint:gosec
		body = append(body, b...)
		if actual > 40 {
			actual = 40
		}
		for k := 0; k < actual+(actual%2); k++ {
			body = append(body, byte(r.Intn(256)), byte(r.Intn(256)))
		}
	}
	body = append(body, 0, 0, 0, 9)
	hdr := []byte{0x80 | 11, 205, 0, 0}
	binary.BigEndian.PutUint16(hdr[2:], uint16((len(body)+4)/4-1)) //nolint:gosec

	return append(hdr, body...)
}

func validRTCP(r *rand.Rand, seq uint16) []byte {
	var pkts []rtcp.Packet
	switch r.Intn(7) {
	case 0:
		pkts = append(pkts, &rtcp.SenderReport{SSRC: mediaSSRC, NTPTime: r.Uint64(), RTPTime: r.Uint32(), PacketCount: 5, OctetCount: 500})
	case 1:
		pkts = append(pkts, &rtcp.ReceiverReport{SSRC: 9, Reports: []rtcp.ReceptionReport{{SSRC: mediaSSRC, LastSequenceNumber: uint32(seq), Jitter: 3}}})
	case 2:
		pkts = append(pkts, &rtcp.TransportLayerNack{SenderSSRC: 9, MediaSSRC: mediaSSRC, Nacks: []rtcp.NackPair{{PacketID: seq - 3, LostPackets: rtcp.PacketBitmap(r.Intn(65536))}}}) //nolint:gosec
	case 3:
		pkts = append(pkts, &rtcp.PictureLossIndication{SenderSSRC: 9, MediaSSRC: mediaSSRC}, &rtcp.FullIntraRequest{SenderSSRC: 9, MediaSSRC: mediaSSRC, FIR: []rtcp.FIREntry{{SSRC: mediaSSRC, SequenceNumber: 1}}})
	case 4:
		pkts = append(pkts, &rtcp.ExtendedReport{SenderSSRC: mediaSSRC, Reports: []rtcp.ReportBlock{
			&rtcp.DLRRReportBlock{Reports: []rtcp.DLRRReport{{SSRC: mediaSSRC, LastRR: 5, DLRR: 6}}},
			&rtcp.ReceiverReferenceTimeReportBlock{NTPTimestamp: r.Uint64()},
		}}, &rtcp.ReceiverReport{SSRC: mediaSSRC})
	case 5:
		return twccRaw(seq-10, 10, []uint16{0x2000 | 10}, make([]byte, 10), true) // 10 small deltas
	default:
		rep := &rtcp.CCFeedbackReport{SenderSSRC: 5, ReportTimestamp: r.Uint32(), ReportBlocks: []rtcp.CCFeedbackReportBlock{{
			MediaSSRC: mediaSSRC, BeginSequence: seq - 4,
			MetricBlocks: []rtcp.CCFeedbackMetricBlock{{Received: true, ArrivalTimeOffset: 10}, {Received: false}, {Received: true, ArrivalTimeOffset: 20}, {Received: true}},
		}}}
		pkts = append(pkts, rep)
	}
	raw, err := rtcp.Marshal(pkts)
	if err != nil {
		panic(err)
	}

	return raw
}

func mutate(r *rand.Rand, raw []byte) []byte {
	out := append([]byte{}, raw...)
	if len(out) == 0 {
		return out
	}
	switch r.Intn(5) {
	case 0: // flip bytes
		for i := 0; i < 1+r.Intn(4); i++ {
			out[r.Intn(len(out))] = byte(r.Intn(256))
		}
	case 1: // truncate
		out = out[:r.Intn(len(out)+1)]
	case 2: // set bits in the first bytes (version/padding/extension/cc)
		out[0] = byte(r.Intn(256))
	case 3: // extend with garbage
		for i := 0; i < r.Intn(20); i++ {
			out = append(out, byte(r.Intn(256)))
		}
	default: // corrupt a length-like field
		if len(out) >= 4 {
			out[2+r.Intn(2)] = byte(r.Intn(256))
		}
	}

	return out
}

func genInput(r *rand.Rand, k int64) input {
	seq := uint16(k) //nolint:gosec
	in := input{K: k, BufLen: 1500}
	switch r.Intn(3) {
	case 0:
		in.Path = "rtp-read"
		switch r.Intn(12) {
		case 0:
			in.Kind = "random-bytes"
			b := make([]byte, r.Intn(64))
			r.Read(b)
			in.Hex = hex.EncodeToString(b)
		case 1:
			in.Kind = "header-only"
			in.Hex = hex.EncodeToString(validRTP(r, seq, r.Intn(6), 0))
		case 2:
			in.Kind = "x-bit-12-bytes"
			b := validRTP(r, seq, 0, 0)
			b[0] |= 0x10
			in.Hex = hex.EncodeToString(b)
		case 3, 4:
			in.Kind = "mutated"
			in.Hex = hex.EncodeToString(mutate(r, validRTP(r, seq, r.Intn(6), r.Intn(40))))
		case 5:
			in.Kind = "small-buffer"
			in.BufLen = 12 + r.Intn(40)
			in.Hex = hex.EncodeToString(validRTP(r, seq, r.Intn(3), r.Intn(20)))
		case 8: // the SSRC of an incoming packet is untrusted input: many distinct streams
			in.Kind = "valid-many-ssrc"
			raw := validRTP(r, seq, r.Intn(3), r.Intn(40))
			binary.BigEndian.PutUint32(raw[8:12], uint32(0x5000+r.Intn(1200))) //nolint:gosec
			in.Hex = hex.EncodeToString(raw)
		default:
			in.Kind = "valid"
			in.Hex = hex.EncodeToString(validRTP(r, seq, r.Intn(6), []int{0, 1, 100, 1200, 1460}[r.Intn(5)]))
			if r.Intn(3) == 0 { // read with a buffer just large enough for this packet
				in.BufLen = len(in.Hex) / 2
			}
		}
	case 1:
		in.Path = "rtcp-read"
		switch r.Intn(9) {
		case 0:
			in.Kind = "random-bytes"
			b := make([]byte, r.Intn(64))
			r.Read(b)
			in.Hex = hex.EncodeToString(b)
		case 1:
			in.Kind = "twcc-runlength-beyond-count"
			in.Hex = hex.EncodeToString(twccRaw(seq, uint16(1+r.Intn(3)), []uint16{0x2000 | uint16(2+r.Intn(8000))}, make([]byte, r.Intn(4)), true)) //nolint:gosec
		case 2:
			in.Kind = "twcc-fewer-deltas"
			in.Hex = hex.EncodeToString(twccRaw(seq, uint16(7+r.Intn(20)), []uint16{0x8000 | uint16(r.Intn(0x4000)), 0xC000 | uint16(r.Intn(0x4000))}, make([]byte, r.Intn(6)), true)) //nolint:gosec
		case 3:
			in.Kind = "twcc-structured"
			n := 1 + r.Intn(4)
			ch := make([]uint16, n)
			for i := range ch {
				ch[i] = uint16(r.Intn(65536)) //nolint:gosec
			}
			in.Hex = hex.EncodeToString(twccRaw(seq, uint16(r.Intn(40)), ch, make([]byte, r.Intn(40)), r.Intn(2) == 0)) //nolint:gosec
		case 4:
			in.Kind = "ccfb-structured"
			in.Hex = hex.EncodeToString(ccfbRaw(r))
		case 5, 6:
			in.Kind = "mutated"
			in.Hex = hex.EncodeToString(mutate(r, validRTCP(r, seq)))
		default:
			in.Kind = "valid"
			in.Hex = hex.EncodeToString(validRTCP(r, seq))
		}
	default:
		in.Path = "rtp-write"
		in.Shape = r.Intn(6)
		switch r.Intn(7) {
		case 0:
			in.Kind = "payload-1460"
			in.PayLen = 1460
		case 1:
			in.Kind = "payload-1461"
			in.PayLen = 1461
		case 2:
			in.Kind = "payload-huge"
			in.PayLen = 1462 + r.Intn(64000)
		case 3:
			in.Kind = "payload-0"
		case 4:
			in.Kind = "payload-near-1500"
			in.PayLen = 1470 + r.Intn(45)
		default:
			in.Kind = "payload-normal"
			in.PayLen = r.Intn(1400)
		}
		switch r.Intn(8) {
		case 0:
			in.Pad, in.Fill = 1, []int{0, 1, 3, 200, 255}[r.Intn(5)]
			in.Kind += "+legacy-padding"
			if r.Intn(2) == 0 {
				in.PayLen = r.Intn(3)
			}
		case 1:
			in.Pad = 2
			in.Kind += "+padding"
		}
		// (drawn last: the inputs of earlier rounds keep their numbers) the header SSRC is the application's, not the binding's
		if r.Intn(5) == 0 {
			in.HS = 1 + r.Intn(5)
			in.Kind += "+ssrc-not-bound"
		}
		// (round 5, drawn last again) the LENGTH of the element under the negotiated id is the application's as well
		if r.Intn(6) == 0 {
			in.XLen = 1 + []int{0, 1, 3, 16, 17}[r.Intn(5)]
			in.Kind += "+ext-elem-len"
		}
	}
	// (round 5, drawn last) a well-framed RFC 8285 element of any length under the id the rig negotiated (1) or another one
	if in.Path == "rtp-read" && r.Intn(6) == 0 {
		op := extOp{Dir: 0, Slot: 0, Profile: prof1B, PayLen: r.Intn(40), CSRC: r.Intn(3), Trail: r.Intn(3)}
		id := []int{1, 1, 1, 2, 14}[r.Intn(5)]
		if r.Intn(2) == 0 {
			op.Profile = prof2B
			op.Elems = []extElem{{ID: id, Len: []int{0, 1, 2, 3, 16, 17, 255}[r.Intn(7)]}}
		} else {
			op.Elems = []extElem{{ID: id, Len: 1 + r.Intn(16)}}
		}
		if r.Intn(3) == 0 {
			op.Elems = append([]extElem{{ID: 3 + r.Intn(10), Len: 1 + r.Intn(4), Pad: r.Intn(2)}}, op.Elems...)
		}
		raw, _, _ := extBytes(op, seq, seq)
		binary.BigEndian.PutUint32(raw[8:12], mediaSSRC)
		in.Kind, in.Hex, in.BufLen = "ext-elem", hex.EncodeToString(raw), 1500
		switch r.Intn(6) { // as for the other valid packets: sometimes a buffer just large enough, sometimes a smaller one
		case 0, 1:
			in.BufLen = len(raw)
		case 2:
			in.BufLen = 12 + r.Intn(40)
		}
	}

	return in
}

// ---------------------------------------------------------------- worker

type rig struct {
	wseq, rseq uint16 // consecutive sequence numbers of outgoing packets / valid incoming packets
	ic        interceptor.Interceptor
	rtpReader interceptor.RTPReader
	rtcpRead  interceptor.RTCPReader
	writer    interceptor.RTPWriter
	feed      []byte
	feedErr   error
}

func newRig(t target) (*rig, error) {
	ic, err := t.mk()
	if err != nil {
		return nil, err
	}
	g := &rig{ic: ic}
	info := &interceptor.StreamInfo{
		SSRC: mediaSSRC, PayloadType: 96, ClockRate: 90000, MimeType: "video/VP8",
		RTCPFeedback:        []interceptor.RTCPFeedback{{Type: "nack"}, {Type: "nack", Parameter: "pli"}, {Type: "transport-cc"}, {Type: "ccfb"}},
		RTPHeaderExtensions: []interceptor.RTPHeaderExtension{{URI: twccURI, ID: 1}},
		SSRCForwardErrorCorrection: 0x99, PayloadTypeForwardErrorCorrection: 118,
		SSRCRetransmission: 0x77, PayloadTypeRetransmission: 97,
	}
	ic.BindRTCPWriter(interceptor.RTCPWriterFunc(func([]rtcp.Packet, interceptor.Attributes) (int, error) { return 0, nil }))
	g.rtcpRead = ic.BindRTCPReader(interceptor.RTCPReaderFunc(func(b []byte, a interceptor.Attributes) (int, interceptor.Attributes, error) {
		if g.feedErr != nil {
			return 0, nil, g.feedErr
		}

		return copy(b, g.feed), a, nil
	}))
	g.writer = ic.BindLocalStream(info, interceptor.RTPWriterFunc(func(h *rtp.Header, p []byte, _ interceptor.Attributes) (int, error) {
		return h.MarshalSize() + len(p), nil
	}))
	g.rtpReader = ic.BindRemoteStream(info, interceptor.RTPReaderFunc(func(b []byte, a interceptor.Attributes) (int, interceptor.Attributes, error) {
		if g.feedErr != nil {
			return 0, nil, g.feedErr
		}

		return copy(b, g.feed), a, nil
	}))

	return g, nil
}

type outcome struct {
	Panic string
	Hang  bool
	N     int
	Given int
	Err   string
}

func (g *rig) apply(in input, r *rand.Rand) outcome {
	done := make(chan outcome, 1)
	go func() {
		var o outcome
		defer func() {
			if rec := recover(); rec != nil {
				o.Panic = fmt.Sprint(rec)
			}
			done <- o
		}()
		switch in.Path {
		case "rtp-read", "rtcp-read":
			raw, _ := hex.DecodeString(in.Hex)
			if in.Path == "rtp-read" && (in.Kind == "valid" || in.Kind == "small-buffer" || in.Kind == "probe" || in.Kind == "ext-elem") && len(raw) >= 12 {
				g.rseq++
				raw[2], raw[3] = byte(g.rseq>>8), byte(g.rseq)
			}
			g.feed = raw
			buf := make([]byte, in.BufLen)
			o.Given = len(raw)
			if o.Given > in.BufLen {
				o.Given = in.BufLen
			}
			var n int
			var err error
			if in.Path == "rtp-read" {
				n, _, err = g.rtpReader.Read(buf, interceptor.Attributes{})
			} else {
				n, _, err = g.rtcpRead.Read(buf, interceptor.Attributes{})
			}
			o.N = n
			if err != nil {
				o.Err = err.Error()
			}
		default:
			g.wseq++
			raw := validRTP(r, g.wseq, in.Shape, 0)
			h := &rtp.Header{}
			if _, err := h.Unmarshal(raw); err != nil {
				panic(err)
			}
			h.Padding, h.PaddingSize = false, 0
			switch in.Pad {
			case 1:
				h.Padding = true
			case 2:
				h.Padding, h.PaddingSize = true, 4
			}
			if in.Shape%6 != 5 {
				_ = h.SetExtension(1, []byte{byte(g.wseq >> 8), byte(g.wseq)})
				if in.XLen > 0 {
					_ = h.SetExtension(1, make([]byte, in.XLen-1)) // (refused by the header for a length its profile cannot express: then the 2 bytes stay)
				}
			}
			switch in.HS {
			case 1:
				h.SSRC = 0x77
			case 2:
				h.SSRC = 0x99
			case 3:
				h.SSRC = 0xdead0000 + uint32(in.K&0xffff) //nolint:gosec
			case 4:
				h.SSRC = 0
			case 5:
				h.SSRC = 0xFFFFFFFF
			}
			payload := make([]byte, in.PayLen)
			if in.PayLen > 0 {
				payload[in.PayLen-1] = byte(in.Fill)
			}
			n, err := g.writer.Write(h, payload, interceptor.Attributes{})
			o.N = n
			if err != nil {
				o.Err = err.Error()
			}
		}
	}()
	select {
	case o := <-done:
		return o
	case <-time.After(3 * time.Second):
		return outcome{Hang: true}
	}
}

type finding struct {
	K      int64  `json:"k"`
	Kind   string `json:"kind"`   // panic | hang | more-bytes | probe-failed
	Detail string `json:"detail"`
	In     input  `json:"in"`
}

func worker(name string, seed int64, n, from int64) {
	var t *target
	for _, x := range targets() {
		if x.name == name {
			x := x
			t = &x
		}
	}
	g, err := newRig(*t)
	if err != nil {
		fmt.Printf("R %s\n", mustJSON(finding{Kind: "construct", Detail: err.Error()}))
		os.Exit(0)
	}
	out := bufio.NewWriter(os.Stdout)
	emit := func(rep finding) {
		fmt.Fprintf(out, "R %s\n", mustJSON(rep))
		out.Flush()
	}
	hist := map[string]int{}
	distinct := map[string]bool{}
	for k := int64(0); k < n; k++ {
		r := rand.New(rand.NewSource(seed*1000003 + k)) //nolint:gosec
		in := genInput(r, k)
		if k < from {
			// replay history deterministically but skip inputs known to kill the worker
			continue
		}
		hist[in.Path+":"+in.Kind]++
		if in.Hex != "" || in.PayLen > 0 { // non-trivial: not the empty input
			distinct[fmt.Sprintf("%s|%s|%d|%d|%d|%d|%d", in.Path, in.Hex, in.PayLen, in.Shape, in.BufLen, in.HS, in.XLen)] = true
		}
		fmt.Fprintf(out, "I %d %s\n", k, mustJSON(in))
		out.Flush()
		o := g.apply(in, r)
		switch {
		case o.Panic != "":
			emit(finding{K: k, Kind: "panic", Detail: o.Panic, In: in})
		case o.Hang:
			emit(finding{K: k, Kind: "hang", Detail: "call did not return within 3s", In: in})
			os.Exit(0)
		case in.Path != "rtp-write" && o.N > o.Given && !(name == "jitterbuffer" && o.N <= in.BufLen):
			// (the jitter buffer hands back an EARLIER packet, which may be longer than the one just read: there the
			// bound is the caller's buffer)
			emit(finding{K: k, Kind: "more-bytes", Detail: fmt.Sprintf("reported %d bytes, was given %d", o.N, o.Given), In: in})
		}
		// probe: a well-formed packet on the same path must still be processed
		probe := input{Path: in.Path, Kind: "probe", K: k, BufLen: 1500, PayLen: 100}
		if in.Path == "rtp-read" {
			probe.Hex = hex.EncodeToString(validRTP(r, uint16(k), 0, 50)) //nolint:gosec
		} else if in.Path == "rtcp-read" {
			raw, _ := rtcp.Marshal([]rtcp.Packet{&rtcp.ReceiverReport{SSRC: 9}})
			probe.Hex = hex.EncodeToString(raw)
		}
		po := g.apply(probe, r)
		switch {
		case po.Panic != "":
			emit(finding{K: k, Kind: "panic", Detail: "probe after input: " + po.Panic, In: in})
		case po.Hang:
			emit(finding{K: k, Kind: "hang", Detail: "probe after input did not return", In: in})
			os.Exit(0)
		case po.Err != "" && !allowedProbeErr(name, po.Err):
			emit(finding{K: k, Kind: "probe-failed", Detail: po.Err, In: in})
		case in.Path != "rtp-write" && po.Err == "" && po.N != po.Given && name != "jitterbuffer":
			emit(finding{K: k, Kind: "probe-failed", Detail: fmt.Sprintf("probe returned %d bytes of %d", po.N, po.Given), In: in})
		}
		if k%64 == 63 {
			time.Sleep(3 * time.Millisecond) // let tickers and pacers run
		}
	}
	time.Sleep(20 * time.Millisecond)
	done := make(chan struct{})
	go func() { _ = g.ic.Close(); close(done) }()
	select {
	case <-done:
	case <-time.After(3 * time.Second):
		emit(finding{K: n, Kind: "hang", Detail: "Close did not return within 3s"})
	}
	hist["__distinct"] = len(distinct)
	fmt.Fprintf(out, "H %s\n", mustJSON(hist))
	fmt.Fprintf(out, "D\n")
	out.Flush()
}

func allowedProbeErr(target, e string) bool {
	// the jitter buffer interceptor reports buffering / missing packets as errors by design
	if target == "jitterbuffer" {
		return true
	}
	if target == "pacing" && strings.Contains(e, "overflow") {
		return true
	}

	return false
}

func mustJSON(v interface{}) string {
	b, err := json.Marshal(v)
	if err != nil {
		panic(err)
	}

	return string(b)
}

// ---------------------------------------------------------------- parent

type fuzzCase struct {
	Target  string         `json:"target"`
	Seed    int64          `json:"seed"`
	N       int64          `json:"n"`
	Reports []finding       `json:"reports"`
	Crashes int            `json:"crashes"`
	Hist    map[string]int `json:"hist"`
}

func runTarget(self, name string, seed, n int64) fuzzCase {
	c := fuzzCase{Target: name, Seed: seed, N: n, Hist: map[string]int{}}
	from := int64(0)
	for attempt := 0; attempt < 4 && from < n; attempt++ {
		cmd := exec.Command(self, "-worker", name, "-wseed", fmt.Sprint(seed), "-wn", fmt.Sprint(n), "-wfrom", fmt.Sprint(from), "-out", os.TempDir()) //nolint:gosec
		var stderr strings.Builder
		cmd.Stderr = &stderr
		stdout, _ := cmd.StdoutPipe()
		if err := cmd.Start(); err != nil {
			panic(err)
		}
		var last input
		lastK := int64(-1)
		finished := false
		sc := bufio.NewScanner(stdout)
		sc.Buffer(make([]byte, 1<<20), 1<<24)
		for sc.Scan() {
			line := sc.Text()
			switch {
			case strings.HasPrefix(line, "I "):
				parts := strings.SplitN(line, " ", 3)
				fmt.Sscan(parts[1], &lastK)
				_ = json.Unmarshal([]byte(parts[2]), &last)
			case strings.HasPrefix(line, "R "):
				var rep finding
				_ = json.Unmarshal([]byte(line[2:]), &rep)
				c.Reports = append(c.Reports, rep)
				if rep.Kind == "hang" {
					finished = true
				}
			case strings.HasPrefix(line, "H "):
				h := map[string]int{}
				_ = json.Unmarshal([]byte(line[2:]), &h)
				for k, v := range h {
					c.Hist[k] += v
				}
			case line == "D":
				finished = true
			}
		}
		timer := time.AfterFunc(60*time.Second, func() { _ = cmd.Process.Kill() })
		err := cmd.Wait()
		timer.Stop()
		if finished {
			break
		}
		// the worker died: background goroutine panic (or fatal error)
		c.Crashes++
		detail := stderr.String()
		if i := strings.Index(detail, "goroutine "); i > 0 && i < 600 {
			detail = detail[:i]
		}
		if len(detail) > 600 {
			detail = detail[:600]
		}
		c.Reports = append(c.Reports, finding{K: lastK, Kind: "process-crash", Detail: fmt.Sprintf("%v: %s", err, strings.TrimSpace(detail)), In: last})
		from = lastK + 1
	}

	return c
}

func main() {
	wname := flag.String("worker", "", "internal: run as worker for this target")
	wseed := flag.Int64("wseed", 0, "internal")
	wn := flag.Int64("wn", 0, "internal")
	wfrom := flag.Int64("wfrom", 0, "internal")
	wfile := flag.String("wfile", "", "internal")
	o := cq.ParseFlags()
	if *wname == "items" {
		histWorker(*wfile, *wfrom)

		return
	}
	if *wname != "" {
		worker(*wname, *wseed, *wn, *wfrom)

		return
	}
	self, err := os.Executable()
	if err != nil {
		panic(err)
	}
	var fails []cq.ImplFailure
	fz := &cq.Set{Name: "c02fuzz", Import: "IV.Check.C02Check", CaseType: "fuzz_case", Checks: []string{"fuzz_spec_failures"}}
	sz := &cq.Set{Name: "c02size", Import: "IV.Check.C02Check", CaseType: "size_case", Checks: []string{"size_mismatches", "size_spec_failures"}}
	hs := &cq.Set{Name: "c02hist", Import: "IV.Check.C02Check", CaseType: "hist_case", Checks: []string{"hist_spec_failures"}}
	rs := &cq.Set{Name: "c02rc", Import: "IV.Check.C02Check", CaseType: "rc_case", Checks: []string{"rc_mismatches", "rc_spec_failures"}}
	ls := &cq.Set{Name: "c02life", Import: "IV.Check.C02Check", CaseType: "life_case", Checks: []string{"life_spec_failures"}}
	var ess []*cq.Set // c02extr: read sweeps, c02extw: write sweeps, c02extm: other ids / several elements, c02exts: structural / random
	for _, nm := range []string{"c02extr", "c02extw", "c02extm", "c02exts"} {
		ess = append(ess, &cq.Set{Name: nm, Import: "IV.Check.C02Check", CaseType: "ext_case", Checks: []string{"ext_mismatches", "ext_spec_failures"}})
	}
	ns := &cq.Set{Name: "c02np", Import: "IV.Check.C02Check", CaseType: "np_case", Checks: []string{"np_mismatches", "np_spec_failures"}}
	n := int64(o.Scale(20000, 400000))
	seed := o.Seed
	ts := targets()
	var only *workItem
	if o.Replay != "" {
		var c struct {
			fuzzCase
			Hist *histScn `json:"hist"`
			RC   *rcScn   `json:"rc"`
			Life *lifeScn `json:"life"`
			NP   *npScn   `json:"np"`
			Ext  *extScn  `json:"ext"`
		}
		set := cq.LoadReplay(o.Replay, &c)
		switch {
		case c.Hist != nil:
			only, ts = &workItem{Hist: c.Hist}, nil
		case c.RC != nil:
			only, ts = &workItem{RC: stripRC(c.RC)}, nil
		case c.Life != nil:
			only, ts = &workItem{Life: stripLife(c.Life)}, nil
		case c.NP != nil:
			only, ts = &workItem{NP: stripNP(c.NP)}, nil
		case c.Ext != nil:
			only, ts = &workItem{Ext: stripExt(c.Ext)}, nil
		case set == "c02size":
			sizeCases(sz, o.Rand())
		default:
			for _, t := range ts {
				if t.name == c.Target {
					n, seed = c.N, c.Seed
					ts = []target{t}
				}
			}
		}
	}
	res := make([]fuzzCase, len(ts))
	var wg sync.WaitGroup
	sem := make(chan struct{}, 12)
	for i, t := range ts {
		wg.Add(1)
		sem <- struct{}{}
		go func(i int, name string) {
			defer wg.Done()
			res[i] = runTarget(self, name, seed, n)
			<-sem
		}(i, t.name)
	}
	wg.Wait()
	total := 0
	distinctTotal := 0
	for _, c := range res {
		// one Coq case per target: counts of failure kinds (the oracle demands all zero)
		cnt := map[string]int64{}
		for _, rep := range c.Reports {
			cnt[rep.Kind]++
		}
		var evals int64
		for k, v := range c.Hist {
			if k == "__distinct" {
				distinctTotal += v

				continue
			}
			evals += int64(v)
		}
		total += int(evals)
		fz.Cases = append(fz.Cases, cq.Case{
			Coq: cq.T(cq.Z(evals), cq.Z(cnt["panic"]), cq.Z(cnt["process-crash"]), cq.Z(cnt["hang"]), cq.Z(cnt["more-bytes"]),
				cq.Z(cnt["probe-failed"]), cq.Z(cnt["construct"])),
			JSON: c, Buckets: []string{c.Target}, Trivial: evals < 10,
		})
		seen := map[string]bool{}
		for _, rep := range c.Reports {
			key := rep.Kind + "|" + rep.In.Path + "|" + rep.In.Kind
			kind := c.Target + ":" + rep.Kind + ":" + rep.In.Path + ":" + rep.In.Kind
			if rep.Kind == "process-crash" {
				// the goroutine dies some time after the offending input: name the crash, not the last input
				key = rep.Kind
				kind = c.Target + ":process-crash"
			}
			if seen[key] {
				continue
			}
			seen[key] = true
			fails = append(fails, cq.ImplFailure{
				Kind:   kind,
				Detail: rep.Detail,
				Case:   map[string]interface{}{"target": c.Target, "seed": c.Seed, "n": rep.K + 1, "k": rep.K, "in": rep.In},
			})
		}
	}
	if o.Replay == "" {
		sizeCases(sz, o.Rand())
	}
	extra := map[string]interface{}{"fuzz_inputs_total": total, "targets": len(ts), "inputs_run": total + len(sz.Cases),
		"distinct_nontrivial_inputs": distinctTotal + len(sz.Cases)}
	if o.Replay == "" || only != nil {
		// after the byte-level fuzz (whose workers keep every core busy): the scenarios are paced in real time
		// round 4 first (no real-time pacing in there), then the paced feedback histories
		if only == nil || only.Ext != nil {
			// round 5: header-extension elements of every length (no real-time pacing either)
			efails, eextra := extSets(o, self, ess, only)
			fails = append(fails, efails...)
			for k, v := range eextra {
				extra[k] = v
			}
		}
		lfails, lextra := lifeSets(o, self, ls, ns, only)
		fails = append(fails, lfails...)
		for k, v := range lextra {
			extra[k] = v
		}
		if only == nil || only.Hist != nil || only.RC != nil {
			hfails, hextra := histSets(o, self, hs, rs, only)
			fails = append(fails, hfails...)
			for k, v := range hextra {
				extra[k] = v
			}
		}
	}
	cq.Write(o, "fuzz: per interceptor (17 configurations) one long-lived instance fed a seeded stream of inputs over its three paths "+
		"(incoming RTP bytes, incoming RTCP bytes, outgoing RTP of any size/shape): random bytes, valid, mutated, X-bit on 12 bytes, small read buffers, "+
		"TWCC with run length beyond the status count / fewer deltas than symbols, structured RFC 8888 blocks, payloads 0/1460/1461/huge, outgoing header SSRC not the bound stream's (RTX / FEC / never bound / 0 / 0xFFFFFFFF), "+
		"well-framed RFC 8285 elements of any length under the negotiated transport-cc id or another one (incoming), element of 0/1/3/16/17 bytes under it (outgoing); each followed by a "+
		"well-formed probe; panics (caller or background goroutine, via worker processes), hangs, n_out > n_in and failing probes are failures; "+
		"one case per target, non-trivial = at least 10 inputs; size: length-accounting cores compared with the Coq model; "+
		"hist: well-formed stateful congestion-control histories (cc interceptor with both pacers, rtpfb; TWCC and RFC 8888): packets paced in real time, "+
		"feedback whose receive deltas follow an over-use / under-use / normal / alternating / burst / loss / re-ordering / duplicate pattern relative to the "+
		"measured send times, then Read, Write, GetTargetBitrate, GetStats, Close, each under a watchdog; non-trivial = at least 6 calls; "+
		"rc: call histories on the rate controller of a real SendSideBWE (every (state, usage) pair exhaustively to depth 2, random longer ones) "+
		"compared with Model/RateCtlLock.v, non-trivial = at least 3 calls; "+
		"life: stream life-cycle histories on all 17 configurations (several local streams; outgoing packets whose header SSRC is the stream's own, another "+
		"stream's, the RTX / FEC SSRC, of an unbound stream, never bound, 0, 0xFFFFFFFF; foreign payload types, header shapes, payload sizes; writes on the writer of "+
		"an unbound stream; Bind / Unbind in between; finally a well-formed packet on every bound stream, Unbind, Close), every call under a watchdog, a well-formed "+
		"packet must be accepted and reach a next writer; non-trivial = at least one inconsistent and one well-formed packet; "+
		"np: call histories on a real gcc.NoOpPacer (directly / through SendSideBWE / through the cc interceptor: every kind of next call after one packet of "+
		"every SSRC class, double add / remove, random longer ones) compared with Model/StreamTableLock.v, non-trivial = at least 3 calls"+
			"; ext: header-extension histories on all 17 configurations (six local + remote streams that negotiated transport-cc under the ids 1, 5, 14, 15, 200 "+
			"and not at all; incoming bytes, outgoing headers parsed from bytes or built with SetExtension; one-byte / two-byte / RFC 3550 profiles; an element of "+
			"every length under the negotiated id and under others, repeated ids, padding, reserved ids, wrong declared block lengths), each followed by a well-formed "+
			"packet of the same stream, compared with Model/HdrExt.v; non-trivial = at least one well-formed and one other packet",
		append([]*cq.Set{fz, sz, hs, rs, ls, ns}, ess...), extra, fails)
	_ = errors.New
}

// sizeCases drives the length-accounting cores directly and records (kind, a, b, result) rows
// compared with the Coq models of Model/NoCrash.v.
func sizeCases(sz *cq.Set, r *rand.Rand) {
	// kind 0: jitter-buffer receiver: packet of n bytes read into a buffer of buflen; result = bytes reported (or -1 on error)
	for i := 0; i < 200; i++ {
		n := 12 + r.Intn(200)
		buflen := n + []int{0, 1, 100, 1500 - n}[r.Intn(4)]
		fac, _ := jitterbuffer.NewInterceptor(jitterbuffer.WithLoggerFactory(quietLF{}))
		ic, _ := fac.NewInterceptor("")
		raw := validRTP(r, 7, 0, n-12)
		rd := ic.BindRemoteStream(&interceptor.StreamInfo{SSRC: mediaSSRC}, interceptor.RTPReaderFunc(
			func(b []byte, a interceptor.Attributes) (int, interceptor.Attributes, error) { return copy(b, raw), a, nil }))
		got, _, _ := rd.Read(make([]byte, buflen), interceptor.Attributes{})
		_ = ic.Close()
		sz.Cases = append(sz.Cases, cq.Case{
			Coq: cq.T("0", cq.Z(int64(n)), cq.Z(int64(buflen)), cq.Z(int64(got))), JSON: []int{0, n, buflen, got},
			Buckets: []string{"jitterbuffer-read"},
		})
	}
	// kind 1: leaky bucket Write(payload length): result 1 = accepted, 0 = rejected with an error
	for _, n := range []int{0, 1, 100, 1459, 1460, 1461, 1462, 2000, 65535} {
		// target bitrate 0: the pacer's budget stays 0, so its goroutine never dequeues what Write accepted
		p := gcc.NewLeakyBucketPacer(0)
		_, err := p.Write(&rtp.Header{Version: 2, SSRC: 1}, make([]byte, n), nil)
		_ = p.Close()
		res := 1
		if err != nil {
			res = 0
		}
		sz.Cases = append(sz.Cases, cq.Case{
			Coq: cq.T("1", cq.Z(int64(n)), "0", cq.Z(int64(res))), JSON: []int{1, n, 0, res}, Buckets: []string{"leaky-write"},
		})
	}
}
