// Package cq holds what every correspondence generator shares: the seeded
// PRNG, Coq term printing, case-file sharding and the meta.json summary that
// bin/check turns into the evidence file.
package cq

import (
	"crypto/sha256"
	"encoding/hex"
	"encoding/json"
	"flag"
	"fmt"
	"math/rand"
	"os"
	"path/filepath"
	"sort"
	"strings"
)

// Opts are the flags common to all generators.
type Opts struct {
	Seed   int64
	Tier   string
	Out    string
	Replay string
	Corpus string
	N      int
}

// ParseFlags parses the common flags.
func ParseFlags() *Opts {
	o := &Opts{}
	flag.Int64Var(&o.Seed, "seed", 1, "PRNG seed")
	flag.StringVar(&o.Tier, "tier", "quick", "quick|thorough")
	flag.StringVar(&o.Out, "out", "", "output directory")
	flag.StringVar(&o.Replay, "replay", "", "replay file (json case)")
	flag.IntVar(&o.N, "n", 0, "override case count")
	flag.StringVar(&o.Corpus, "corpus", "", "directory of regression replay files (run first)")
	flag.Parse()
	if o.Out == "" {
		fmt.Fprintln(os.Stderr, "missing -out")
		os.Exit(2)
	}
	if err := os.MkdirAll(o.Out, 0o755); err != nil {
		panic(err)
	}

	return o
}

// CorpusFiles lists the regression replay files (findings/Cxx/*.json), sorted.
func (o *Opts) CorpusFiles() []string {
	if o.Corpus == "" {
		return nil
	}
	fs, _ := filepath.Glob(filepath.Join(o.Corpus, "*.json"))
	sort.Strings(fs)

	return fs
}

// Rand returns the run PRNG.
func (o *Opts) Rand() *rand.Rand { return rand.New(rand.NewSource(o.Seed)) } //nolint:gosec

// Scale returns q in the quick tier and t in the thorough tier (or -n).
func (o *Opts) Scale(q, t int) int {
	if o.N > 0 {
		return o.N
	}
	if o.Tier == "thorough" {
		return t
	}

	return q
}

// ---- Coq term printing ----

// Z prints an integer as a Coq Z literal.
func Z(x int64) string {
	if x < 0 {
		return fmt.Sprintf("(%d)", x)
	}

	return fmt.Sprintf("%d", x)
}

// ZU prints an unsigned integer.
func ZU(x uint64) string { return fmt.Sprintf("%d", x) }

// B prints a bool.
func B(b bool) string {
	if b {
		return "true"
	}

	return "false"
}

// L prints a list of already printed terms.
func L(xs []string) string { return "[" + strings.Join(xs, "; ") + "]" }

// LZ prints a list of integers.
func LZ(xs []int64) string {
	s := make([]string, len(xs))
	for i, x := range xs {
		s[i] = Z(x)
	}

	return L(s)
}

// Bytes prints a byte slice as list Z.
func Bytes(bs []byte) string {
	s := make([]string, len(bs))
	for i, x := range bs {
		s[i] = fmt.Sprintf("%d", x)
	}

	return L(s)
}

// T prints a tuple.
func T(xs ...string) string { return "(" + strings.Join(xs, ", ") + ")" }

// C prints a constructor application.
func C(name string, args ...string) string {
	if len(args) == 0 {
		return name
	}

	return "(" + name + " " + strings.Join(args, " ") + ")"
}

// Some / None.
func Some(x string) string { return "(Some " + x + ")" }

// None prints None.
const None = "None"

// ---- case collection ----

// Case is one generated history with the implementation's observables.
type Case struct {
	Coq     string      // Coq term of the case type
	JSON    interface{} // the same case for replay files / samples
	Buckets []string    // which generator buckets it hits
	Trivial bool        // non-triviality rule of the property says trivial
}

// Set collects the cases of one stream (one Coq case type).
type Set struct {
	Name     string // file prefix, also names the Coq checker: <Name>_mismatches etc
	Import   string // Coq module holding the checker, e.g. "IV.Check.C20Check"
	CaseType string // Coq type of one case
	Checks   []string
	Cases    []Case
}

// Meta is the summary written next to the case files.
type Meta struct {
	Seed               int64                  `json:"seed"`
	Tier               string                 `json:"tier"`
	Evaluations        int                    `json:"evaluations"`
	DistinctNontrivial int                    `json:"distinct_nontrivial"`
	Rule               string                 `json:"rule"`
	Buckets            map[string]int         `json:"buckets"`
	Samples            []interface{}          `json:"samples"`
	Shards             []Shard                `json:"shards"`
	Extra              map[string]interface{} `json:"extra,omitempty"`
	ImplFailures       []ImplFailure          `json:"impl_failures,omitempty"`
}

// ImplFailure is a property failure the harness itself observed on the
// implementation (panic, hang, invariant checked in Go).
type ImplFailure struct {
	Kind   string      `json:"kind"`
	Detail string      `json:"detail"`
	Case   interface{} `json:"case"`
}

// Shard names one generated .v file and the cases it holds.
type Shard struct {
	File   string   `json:"file"`
	Set    string   `json:"set"`
	First  int      `json:"first"`
	Count  int      `json:"count"`
	Checks []string `json:"checks"`
}

// Write shards the sets into .v files plus cases json and meta.json.
func Write(o *Opts, rule string, sets []*Set, extra map[string]interface{}, fails []ImplFailure) {
	meta := Meta{Seed: o.Seed, Tier: o.Tier, Rule: rule, Buckets: map[string]int{}, Extra: extra, ImplFailures: fails}
	seen := map[string]bool{}
	for _, s := range sets {
		// fixed shard size: bounded memory per coqc whatever the volume (shards queue through bin/check's pool)
		perShard := 250
		all := make([]interface{}, 0, len(s.Cases))
		for i, c := range s.Cases {
			meta.Evaluations++
			h := sha256.Sum256([]byte(s.Name + c.Coq))
			k := hex.EncodeToString(h[:8])
			if !seen[k] && !c.Trivial {
				meta.DistinctNontrivial++
			}
			seen[k] = true
			for _, b := range c.Buckets {
				meta.Buckets[s.Name+":"+b]++
			}
			if i < 2 || (i == len(s.Cases)/2) {
				meta.Samples = append(meta.Samples, map[string]interface{}{"set": s.Name, "index": i, "case": c.JSON})
			}
			all = append(all, c.JSON)
		}
		for first, k := 0, 0; first < len(s.Cases); first, k = first+perShard, k+1 {
			last := first + perShard
			if last > len(s.Cases) {
				last = len(s.Cases)
			}
			fn := fmt.Sprintf("%s_%02d.v", s.Name, k)
			var sb strings.Builder
			sb.WriteString("From IV Require Import Base.Word.\nRequire Import " + s.Import + ".\nOpen Scope Z_scope.\n")
			sb.WriteString("Definition cases : list (" + s.CaseType + ") := [\n")
			for i := first; i < last; i++ {
				sb.WriteString("  " + s.Cases[i].Coq)
				if i+1 < last {
					sb.WriteString(";")
				}
				sb.WriteString("\n")
			}
			sb.WriteString("].\n")
			for _, chk := range s.Checks {
				sb.WriteString("Definition R_" + chk + " := Eval vm_compute in (" + chk + " cases).\nPrint R_" + chk + ".\n")
			}
			if err := os.WriteFile(filepath.Join(o.Out, fn), []byte(sb.String()), 0o644); err != nil {
				panic(err)
			}
			meta.Shards = append(meta.Shards, Shard{File: fn, Set: s.Name, First: first, Count: last - first, Checks: s.Checks})
		}
		js, err := json.Marshal(all)
		if err != nil {
			panic(err)
		}
		if err := os.WriteFile(filepath.Join(o.Out, s.Name+".cases.json"), js, 0o644); err != nil {
			panic(err)
		}
	}
	js, err := json.MarshalIndent(meta, "", " ")
	if err != nil {
		panic(err)
	}
	if err := os.WriteFile(filepath.Join(o.Out, "meta.json"), js, 0o644); err != nil {
		panic(err)
	}
}

// LoadReplay reads a replay file: {"set": name, "case": ...}.
func LoadReplay(path string, into interface{}) string {
	raw, err := os.ReadFile(path) //nolint:gosec
	if err != nil {
		panic(err)
	}
	var w struct {
		Set  string          `json:"set"`
		Case json.RawMessage `json:"case"`
	}
	if err := json.Unmarshal(raw, &w); err != nil {
		panic(err)
	}
	if err := json.Unmarshal(w.Case, into); err != nil {
		panic(err)
	}

	return w.Set
}

// SortedKeys returns the keys of a histogram.
func SortedKeys(m map[string]int) []string {
	ks := make([]string, 0, len(m))
	for k := range m {
		ks = append(ks, k)
	}
	sort.Strings(ks)

	return ks
}
