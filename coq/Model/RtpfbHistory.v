(* Model of pkg/rtpfb/history.go and of Interceptor.processFeedback
   (interceptor.go), after the C09 fix commits (an explicit "acked" flag instead
   of highestAcked = 0 doubling as "nothing acknowledged"; reported packets are
   deleted from h.packets; index entries are deleted only while they point to
   the deleted packet; IsTWCC is set).  Go maps are association lists: assignment conses
   (shadowing), delete filters. *)
From IV Require Import Base.Word Model.FbAdapter Model.RtpfbConvert.

(* PacketReport: SSRC, SequenceNumber (the counter), RTPSequenceNumber, IsTWCC,
   TWCCSequenceNumber, Size, Departure, Arrived, Arrival, ECN *)
Record prep := mkPrep {
  p_ssrc : Z; p_ctr : Z; p_rtpseq : Z; p_istwcc : bool; p_twseq : Z; p_size : Z; p_dep : Z;
  p_arrived : bool; p_arrival : Z; p_ecn : Z }.

Record hstate := mkH {
  h_counter : Z;
  h_twm : list (Z * Z);               (* twccToCounter *)
  h_ssm : list (Z * Z * Z);           (* ssrcSeqNrToCounter: (ssrc, seq, counter) *)
  h_pk : list (Z * prep);             (* packets *)
  h_highest : Z;                      (* highestAcked *)
  h_acked : bool;
  h_next : Z;                         (* nextReport *)
  h_clean : Z }.                      (* cleanUntil *)

Definition h_init : hstate := mkH 0 [] [] [] 0 false 0 0.

Fixpoint find1 {A} (k : Z) (m : list (Z * A)) : option A :=
  match m with
  | [] => None
  | (k', v) :: t => if k' =? k then Some v else find1 k t
  end.

Fixpoint find2 (a b : Z) (m : list (Z * Z * Z)) : option Z :=
  match m with
  | [] => None
  | (a', b', v) :: t => if (a' =? a) && (b' =? b) then Some v else find2 a b t
  end.

Definition del1 {A} (k : Z) (m : list (Z * A)) : list (Z * A) := filter (fun e => negb (fst e =? k)) m.
Definition del2 (a b : Z) (m : list (Z * Z * Z)) : list (Z * Z * Z) :=
  filter (fun e => negb ((fst (fst e) =? a) && (snd (fst e) =? b))) m.

(* addOutgoing *)
Definition add_outgoing (st : hstate) (ssrc rtpseq : Z) (istwcc : bool) (twseq size dep : Z) : hstate :=
  let c := h_counter st in
  mkH (u64 (c + 1))
      (if istwcc then (twseq, c) :: h_twm st else h_twm st)
      (if istwcc then h_ssm st else (ssrc, rtpseq, c) :: h_ssm st)
      ((c, mkPrep ssrc c rtpseq istwcc twseq size dep false 0 0) :: del1 c (h_pk st))
      (h_highest st) (h_acked st) (h_next st) (h_clean st).

(* onFeedback *)
Definition on_feedback (st : hstate) (c : Z) (a : fack) : hstate :=
  match find1 c (h_pk st) with
  | None => st
  | Some p =>
      let '(_, arrived, arrival, ecn) := a in
      let p' := mkPrep (p_ssrc p) (p_ctr p) (p_rtpseq p) (p_istwcc p) (p_twseq p) (p_size p) (p_dep p)
                       arrived arrival ecn in
      let upd := arrived && (negb (h_acked st) || (h_highest st <? p_ctr p)) in
      mkH (h_counter st) (h_twm st) (h_ssm st) ((c, p') :: del1 c (h_pk st))
          (if upd then p_ctr p else h_highest st) (if upd then true else h_acked st)
          (h_next st) (h_clean st)
  end.

Definition on_twcc_feedback (st : hstate) (a : fack) : hstate :=
  let '(seq, _, _, _) := a in
  match find1 seq (h_twm st) with
  | None => st
  | Some c => on_feedback st c a
  end.

Definition on_ccfb_feedback (st : hstate) (ssrc : Z) (a : fack) : hstate :=
  let '(seq, _, _, _) := a in
  match find2 ssrc seq (h_ssm st) with
  | None => st
  | Some c => on_feedback st c a
  end.

(* history.delete: index entries are dropped only while they still point to p *)
Definition h_delete (st : hstate) (p : prep) : hstate :=
  mkH (h_counter st)
      (if p_istwcc p && option_eqb Z.eqb (find1 (p_twseq p) (h_twm st)) (Some (p_ctr p))
       then del1 (p_twseq p) (h_twm st) else h_twm st)
      (if option_eqb Z.eqb (find2 (p_ssrc p) (p_rtpseq p) (h_ssm st)) (Some (p_ctr p))
       then del2 (p_ssrc p) (p_rtpseq p) (h_ssm st) else h_ssm st)
      (del1 (p_ctr p) (h_pk st))
      (h_highest st) (h_acked st) (h_next st) (h_clean st).

Definition set_next (st : hstate) (n : Z) : hstate :=
  mkH (h_counter st) (h_twm st) (h_ssm st) (h_pk st) (h_highest st) (h_acked st) n (h_clean st).
Definition set_clean (st : hstate) (n : Z) : hstate :=
  mkH (h_counter st) (h_twm st) (h_ssm st) (h_pk st) (h_highest st) (h_acked st) (h_next st) n.

(* the loop of buildReport over i = nextReport .. highestAcked *)
Fixpoint report_loop (st : hstate) (is : list Z) : hstate * list prep :=
  match is with
  | [] => (st, [])
  | i :: is' =>
      match find1 i (h_pk st) with
      | None => report_loop st is'
      | Some p =>
          let st1 := h_delete st p in
          let st2 := if h_next st1 <=? p_ctr p then set_next st1 (u64 (p_ctr p + 1)) else st1 in
          let '(st3, res) := report_loop st2 is' in (st3, p :: res)
      end
  end.

(* cleanBefore *)
Fixpoint clean_loop (st : hstate) (is : list Z) : hstate :=
  match is with
  | [] => st
  | i :: is' =>
      clean_loop (match find1 i (h_pk st) with Some p => h_delete st p | None => st end) is'
  end.

Definition clean_before (st : hstate) (c : Z) : hstate :=
  set_clean (clean_loop st (zrange (h_clean st) (Z.to_nat (c - h_clean st)))) (u64 (c - 1)).

Definition build_report (st : hstate) : hstate * list prep :=
  if negb (h_acked st) || (h_highest st <? h_next st) then (st, [])
  else
    let '(st1, res) := report_loop st (zrange (h_next st) (Z.to_nat (h_highest st - h_next st + 1))) in
    (clean_before st1 (h_next st1), res).

(* ---- Interceptor ---- *)
Inductive fbpkt :=
| FTw (base count ref24 : Z) (cs : list chunk) (ds : list Z)     (* *rtcp.TransportLayerCC *)
| FCf (ts : Z) (bs : list rblock)                                 (* *rtcp.CCFeedbackReport *)
| FOther.                                                         (* any other RTCP packet *)

Inductive rop :=
(* a packet written on a bound local stream: twcc_stream = the stream negotiated the
   TWCC extension; ext = transport sequence number in the header (None: absent/unparsable) *)
| RSend (twcc_stream : bool) (ext : option Z) (ssrc rtpseq size now : Z)
| RRead (now : Z) (pkts : list fbpkt).

Section Run.
  (* ntp.ToTime32(ReportTimestamp, now) *)
  Variable reft32 : Z -> Z -> Z.

  Definition process_pkt (now : Z) (st : hstate) (f : fbpkt) : hstate :=
    match f with
    | FTw base count ref24 cs ds => fold_left on_twcc_feedback (convert_twcc base count ref24 cs ds) st
    | FCf ts bs =>
        fold_left (fun s (e : Z * list fack) => fold_left (fun s' a => on_ccfb_feedback s' (fst e) a) (snd e) s)
                  (convert_ccfb (reft32 ts now) bs) st
    | FOther => st
    end.

  Definition rstep (st : hstate) (o : rop) : hstate * list prep :=
    match o with
    | RSend tw ext ssrc rtpseq size now =>
        (match tw, ext with
         | true, Some t => add_outgoing st ssrc rtpseq true t size now
         | _, _ => add_outgoing st ssrc rtpseq false 0 size now
         end, [])
    | RRead now pkts => build_report (fold_left (process_pkt now) pkts st)
    end.

  Fixpoint rrun (st : hstate) (ops : list rop) : list (list prep) :=
    match ops with
    | [] => []
    | o :: ops' => let '(st', r) := rstep st o in r :: rrun st' ops'
    end.
End Run.
