(* Model of pion/rtp (v1.10.5) packet.go: Header.Marshal / MarshalTo - the wire
   image of an RTP header, statement by statement.  [h_fixed] = version, padding,
   marker, payload type, sequence number, timestamp, ssrc, paddingSize, csrc... *)
From IV Require Import Base.Word Model.TwccHdrExt.

Definition be16 (x : Z) : list Z := [(x / 256) mod 256; x mod 256].
Definition be32 (x : Z) : list Z :=
  [(x / 16777216) mod 256; (x / 65536) mod 256; (x / 256) mod 256; x mod 256].

Definition fx (h : hdr) (i : nat) : Z := nth i (h_fixed h) 0.
Definition csrcs (h : hdr) : list Z := skipn 8 (h_fixed h).

(* buf[0] = Version<<6 | len(CSRC) | Padding<<5 | Extension<<4 ; buf[1] = PayloadType | Marker<<7 ;
   sequence number, timestamp, ssrc big endian; then the CSRC list *)
Definition marshal_fixed (x : bool) (h : hdr) : list Z :=
  Z.lor (Z.lor (Z.lor ((fx h 0 * 64) mod 256) (Z.of_nat (length (csrcs h)) mod 256))
               (if fx h 1 =? 1 then 32 else 0)) (if x then 16 else 0)
  :: Z.lor (fx h 3) (if fx h 2 =? 1 then 128 else 0)
  :: be16 (fx h 4) ++ be32 (fx h 5) ++ be32 (fx h 6) ++ flat_map be32 (csrcs h).

(* one element: RFC 8285 one-byte form  id<<4 | len-1, payload ; two-byte form  id, len, payload *)
Definition elt_head (profile : Z) (id len : Z) : list Z :=
  if profile =? PROFILE_ONE then [Z.lor ((id * 16) mod 256) ((len - 1) mod 256)]
  else [id mod 256; len mod 256].
Definition enc_elt (profile : Z) (e : Z * list Z) : list Z :=
  elt_head profile (fst e) (Z.of_nat (length (snd e))) ++ snd e.

Definition ext_body (profile : Z) (l : list (Z * list Z)) : option (list Z) :=
  if (profile =? PROFILE_ONE) || (profile =? PROFILE_TWO) then Some (flat_map (enc_elt profile) l)
  else match l with
       | [] => Some []
       | e :: _ => if Z.of_nat (length (snd e)) mod 4 =? 0 then Some (snd e) else None   (* io.ErrShortBuffer *)
       end.

(* profile, length in 32 bit words, elements, zero padding to the word boundary *)
Definition ext_block (profile : Z) (body : list Z) : list Z :=
  let sz := Z.of_nat (length body) in
  let rounded := ((sz + 3) / 4) * 4 in
  be16 profile ++ be16 (rounded / 4) ++ body ++ repeat 0 (Z.to_nat (rounded - sz)).

(* [] = Marshal returned an error *)
Definition marshal_hdr (h : hdr) : list Z :=
  if h_ext h then
    match ext_body (h_profile h) (h_exts h) with
    | Some body => marshal_fixed true h ++ ext_block (h_profile h) body
    | None => []
    end
  else marshal_fixed false h.
