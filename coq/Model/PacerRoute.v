(* C17, round-3 strengthening: WHICH next writer receives a packet released by the pacing interceptor.

   pkg/pacing/interceptor.go: every BindLocalStream(info, writer) call returns its own closure; the closure puts
   `packet{writer: writer, header: &hdr, ...}` on the queue, and loop() calls `next.writer.Write(...)`.  So the stream
   of a packet is the BINDING (the BindLocalStream call) whose returned writer it was written on.  Neither
   StreamInfo.SSRC of any binding nor the SSRC field in the packet's header takes part.

   The model makes this configuration dimension explicit: bindings are numbered in call order and carry their
   StreamInfo.SSRC; a queued packet carries the binding it was accepted on (p_stream of its pkt) and its header SSRC.
   Routing is a parameter: ByWriter = the code as it is (the queued packet carries the writer);  ByHeaderSSRC = the
   design of gcc.LeakyBucketPacer transplanted (a map StreamInfo.SSRC -> writer filled by BindLocalStream, looked up with
   the header SSRC when the packet is released; no entry = the packet is dropped) - kept only to state what goes wrong
   with it and under which discipline of the inputs the two cannot be told apart. *)
From IV Require Import Base.Word Model.PacerQueue.

Record rpk := mkR { r_pkt : pkt; r_ssrc : Z }.

(* the binding a packet was accepted on *)
Definition r_bind (p : rpk) : Z := p_stream (r_pkt p).

Inductive rmode := ByWriter | ByHeaderSSRC.

(* map[info.SSRC] = writer, written by every BindLocalStream in call order: the LAST binding made with SSRC x wins;
   bindings are numbered from k *)
Fixpoint last_bound (infos : list Z) (x : Z) (k : Z) : option Z :=
  match infos with
  | [] => None
  | i :: tl => match last_bound tl x (k + 1) with
               | Some j => Some j
               | None => if i =? x then Some k else None
               end
  end.

(* the binding whose next writer receives p (None: no writer.Write call at all) *)
Definition route (m : rmode) (infos : list Z) (p : rpk) : option Z :=
  match m with
  | ByWriter => Some (r_bind p)
  | ByHeaderSSRC => last_bound infos (r_ssrc p) 0
  end.

Record rst := mkRS {
  rs_infos : list Z;                   (* StreamInfo.SSRC of binding 0, 1, 2, ... (BindLocalStream calls in order) *)
  rs_chan : list rpk;                  (* i.queue *)
  rs_local : list rpk;                 (* loop-local queue *)
  rs_tb : tb;
  rs_accepted : list rpk;              (* history: accepted packets, acceptance order *)
  rs_done : list (rpk * option Z);     (* history: packets taken off the queue, in order, with the binding whose next
                                          writer was called with it *)
  rs_bits : Z
}.

Inductive rop :=
| RBind (info : Z)                     (* BindLocalStream(&StreamInfo{SSRC: info}, writer_k), k = number of earlier calls *)
| RWrite (p : pkt) (hs : Z)            (* Write on the closure returned by binding p_stream p; header SSRC hs *)
| RRecv
| RTick (now : Z)
| RSetRate (t rate burst : Z).

(* the for-loop of one tick (PacerQueue.release) with the routing decision recorded *)
Fixpoint rrelease (m : rmode) (infos : list Z) (fuel : nat) (now : Z) (q : list rpk) (b : tb)
                  (done : list (rpk * option Z)) (bits : Z) : list rpk * tb * list (rpk * option Z) * Z :=
  match fuel, q with
  | S f, p :: q' =>
      if 8 * plen (r_pkt p) * NS <? tb_budget b now then
        let '(b', _) := tb_allow b now (8 * plen (r_pkt p)) in
        rrelease m infos f now q' b' (done ++ [(p, route m infos p)]) (bits + 8 * plen (r_pkt p))
      else (q, b, done, bits)
  | _, _ => (q, b, done, bits)
  end.

(* a closure exists only after its BindLocalStream call returned *)
Definition bound (infos : list Z) (k : Z) : bool := (0 <=? k) && (k <? Z.of_nat (length infos)).

Definition rstep (m : rmode) (s : rst) (o : rop) : rst :=
  match o with
  | RBind i => mkRS (rs_infos s ++ [i]) (rs_chan s) (rs_local s) (rs_tb s) (rs_accepted s) (rs_done s) (rs_bits s)
  | RWrite p hs =>
      if negb (bound (rs_infos s) (p_stream p)) then s
      else if QUEUE_CAP <=? Z.of_nat (length (rs_chan s)) then s          (* errPacerOverflow *)
      else mkRS (rs_infos s) (rs_chan s ++ [mkR p hs]) (rs_local s) (rs_tb s) (rs_accepted s ++ [mkR p hs]) (rs_done s) (rs_bits s)
  | RRecv =>
      match rs_chan s with
      | [] => s
      | p :: tl => mkRS (rs_infos s) tl (rs_local s ++ [p]) (rs_tb s) (rs_accepted s) (rs_done s) (rs_bits s)
      end
  | RTick now =>
      let '(q, b, done, bits) := rrelease m (rs_infos s) (length (rs_local s)) now (rs_local s) (rs_tb s) (rs_done s) (rs_bits s) in
      mkRS (rs_infos s) (rs_chan s) q b (rs_accepted s) done bits
  | RSetRate t r bu => mkRS (rs_infos s) (rs_chan s) (rs_local s) (tb_set (rs_tb s) t r bu) (rs_accepted s) (rs_done s) (rs_bits s)
  end.

Definition rrun (m : rmode) (s : rst) (ops : list rop) : rst := fold_left (rstep m) ops s.

Definition rinit (rate burst t0 : Z) : rst := mkRS [] [] [] (mkTB rate burst (burst * NS) t0) [] [] 0.

(* observables *)
(* what binding b's next writer was called with, in order *)
Definition delivered_to (b : Z) (s : rst) : list rpk :=
  map fst (filter (fun e => match snd e with Some k => k =? b | None => false end) (rs_done s)).

(* the delivery observable of the harness: the packet value stamped with the stream whose writer received it *)
Definition stamp (k : Z) (p : pkt) : pkt := mkP k (p_hid p) (p_hlen p) (p_pid p) (p_plen p).

Definition rs_delivered (s : rst) : list pkt :=
  flat_map (fun e => match snd e with Some k => [stamp k (r_pkt (fst e))] | None => [] end) (rs_done s).

(* projection onto the first-round LTS (PacerQueue.pst) *)
Definition rproj (s : rst) : pst :=
  mkPS (map r_pkt (rs_chan s)) (map r_pkt (rs_local s)) (rs_tb s) false (map r_pkt (rs_accepted s))
       (map (fun e => r_pkt (fst e)) (rs_done s)) (rs_bits s).

(* forget the SSRCs of a history: StreamInfo.SSRC of every binding and the header SSRC of every packet *)
Definition strip (o : rop) : rop :=
  match o with
  | RBind _ => RBind 0
  | RWrite p _ => RWrite p 0
  | _ => o
  end.

(* the routing decisions of a run, without the SSRCs *)
Definition rview (s : rst) : list (pkt * option Z) := map (fun e => (r_pkt (fst e), snd e)) (rs_done s).

(* the discipline all earlier generated histories obeyed: every binding has its own StreamInfo.SSRC and every packet
   carries the StreamInfo.SSRC of the binding it is written on *)
Fixpoint disciplined (infos : list Z) (ops : list rop) : Prop :=
  match ops with
  | [] => True
  | RBind i :: tl => ~ In i infos /\ disciplined (infos ++ [i]) tl
  | RWrite p hs :: tl => (bound infos (p_stream p) = true -> nth_error infos (Z.to_nat (p_stream p)) = Some hs) /\ disciplined infos tl
  | _ :: tl => disciplined infos tl
  end.
