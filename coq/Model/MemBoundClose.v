(* C12 deepening - size models of Close (and of what can still happen after
   Close) for the components of Model/MemBound.v.  Most Close methods only stop
   the component's goroutine (nack generator, flexfec = NoOp.Close, rfc8888,
   twcc, report, gcc pacer): the containers keep their entries until the
   interceptor value itself is dropped; the jitter buffer and the NACK
   responder release entries in Close.  No proofs in this file. *)
From IV Require Import Base.Word Model.Unwrapper Model.MemBound.
Open Scope Z_scope.

(* pkg/jitterbuffer/receiver_interceptor.go Close: i.buffer.Clear(true) - the
   call UnbindRemoteStream makes; the reader returned by BindRemoteStream keeps working. *)
Definition jb_close (st : jb) : jb := jb_step st JbUnbind.
Inductive jbc_op := JcRead (sq : Z) | JcUnbind | JcClose.
Definition jbc_step (st : jb) (o : jbc_op) : jb :=
  match o with JcRead s => jb_step st (JbRead s) | JcUnbind => jb_step st JbUnbind | JcClose => jb_close st end.

(* internal/rtpbuffer/rtpbuffer.go RTPBuffer.Clear: every slot released, started = false *)
Definition rb_clear (st : rb) : rb :=
  {| rb_size := rb_size st; rb_started := false; rb_highest := rb_highest st; rb_occ := [] |}.

(* pkg/nack/responder_interceptor.go: streams map (ssrc -> ring). BindLocalStream registers a new
   ring unless closed; UnbindLocalStream deletes the entry (and clears the ring); Close replaces the
   map by an empty one (and clears every ring) and sets closed. A ring that left the map is only
   referenced by the writer closure returned from Bind (bounded by its size, see C12_rtpbuffer_bounded). *)
Inductive rsp_op := RspBind (ssrc size : Z) | RspUnbind (ssrc : Z) | RspWrite (ssrc sq : Z) | RspClose.
Record rsp := { rsp_streams : list (Z * rb); rsp_closed : bool }.
Definition rsp_init : rsp := {| rsp_streams := []; rsp_closed := false |}.
Definition rsp_step (st : rsp) (o : rsp_op) : rsp :=
  match o with
  | RspBind s size => if rsp_closed st then st
                      else {| rsp_streams := aset s (rb_init size) (rsp_streams st); rsp_closed := false |}
  | RspUnbind s => {| rsp_streams := adel s (rsp_streams st); rsp_closed := rsp_closed st |}
  | RspWrite s sq => match aget s (rsp_streams st) with
                     | Some b => {| rsp_streams := aset s (rb_add b sq) (rsp_streams st); rsp_closed := rsp_closed st |}
                     | None => st
                     end
  | RspClose => {| rsp_streams := []; rsp_closed := true |}
  end.
Definition rsp_occupied (st : rsp) : Z := fold_right (fun p a => zlen (rb_occ (snd p)) + a) 0 (rsp_streams st).

(* pkg/stats/interceptor.go with Close: the recorders are stopped but stay in the map; `closed` is
   set and getRecorder then registers no new recorder (fix d738cc3); releaseRecorder still deletes. *)
Inductive sic_op := ScBind (ssrc : Z) | ScUnbind (ssrc : Z) | ScClose.
Record sic := { sic_bound : list Z; sic_recorders : list Z; sic_closed : bool }.
Definition sic_init : sic := {| sic_bound := []; sic_recorders := []; sic_closed := false |}.
Definition sic_step (st : sic) (o : sic_op) : sic :=
  match o with
  | ScBind s => {| sic_bound := addset s (sic_bound st);
                   sic_recorders := if sic_closed st then sic_recorders st else addset s (sic_recorders st);
                   sic_closed := sic_closed st |}
  | ScUnbind s => {| sic_bound := delset s (sic_bound st); sic_recorders := delset s (sic_recorders st);
                     sic_closed := sic_closed st |}
  | ScClose => {| sic_bound := sic_bound st; sic_recorders := sic_recorders st; sic_closed := true |}
  end.
Definition sic_of_si (o : si_op) : sic_op := match o with SiBind s => ScBind s | SiUnbind s => ScUnbind s end.
Definition sic_sizes (st : sic) : list Z := [zlen (sic_recorders st)].

(* pkg/nack/generator_interceptor.go Close (stops the loop), pkg/flexfec (NoOp.Close): no entry is removed *)
Definition ng_close (st : ng) : ng := st.
Definition ff_close (st : list (Z * Z)) : list (Z * Z) := st.

(* pkg/gcc/leaky_bucket_pacer.go with Close: Run returns, nothing drains the queue any more.
   [fqc_step] is the code BEFORE the fix "LeakyBucketPacer.Write rejects packets once the pacer is
   closed": Write did not look at `done` and kept appending.  [fqc_step_fixed] is the code as it is
   now: Write after Close returns an error and queues nothing. *)
Inductive fqc_op := FcEnq | FcRelease (k : Z) | FcClose.
Definition fqc_step (st : Z * bool) (o : fqc_op) : Z * bool :=
  match o with
  | FcEnq => (fst st + 1, snd st)
  | FcRelease k => if snd st then st else (fq_step (fst st) (FqRelease k), false)
  | FcClose => (fst st, true)
  end.
Definition fqc_step_fixed (st : Z * bool) (o : fqc_op) : Z * bool :=
  match o with
  | FcEnq => if snd st then st else (fst st + 1, false)
  | FcRelease k => if snd st then st else (fq_step (fst st) (FqRelease k), false)
  | FcClose => (fst st, true)
  end.
Definition fqc_enqs (ops : list fqc_op) : Z :=
  fold_right (fun o a => match o with FcEnq => 1 + a | _ => a end) 0 ops.

(* pkg/cc/interceptor.go + pkg/gcc/send_side_bwe.go + the pacer's ssrcToWriter map (LeakyBucketPacer and
   NoOpPacer alike): BindLocalStream -> SendSideBWE.AddStream -> pacer.AddStream sets the entry;
   UnbindLocalStream -> SendSideBWE.RemoveStream -> pacer.RemoveStream (interface assertion) deletes it
   (fix 04f38da). gw_step_keep is a pacer whose RemoveStream is never reached (the code before that fix,
   or an assertion that misses the configured pacer): the writer of an unbound stream stays for ever. *)
Inductive gw_op := GwBind (ssrc : Z) | GwUnbind (ssrc : Z).
Record gw := { gw_bound : list Z; gw_writers : list Z }.
Definition gw_init : gw := {| gw_bound := []; gw_writers := [] |}.
Definition gw_step (st : gw) (o : gw_op) : gw :=
  match o with
  | GwBind s => {| gw_bound := addset s (gw_bound st); gw_writers := addset s (gw_writers st) |}
  | GwUnbind s => {| gw_bound := delset s (gw_bound st); gw_writers := delset s (gw_writers st) |}
  end.
Definition gw_step_keep (st : gw) (o : gw_op) : gw :=
  match o with
  | GwBind s => {| gw_bound := addset s (gw_bound st); gw_writers := addset s (gw_writers st) |}
  | GwUnbind s => {| gw_bound := delset s (gw_bound st); gw_writers := gw_writers st |}
  end.
Fixpoint gw_churn (a : Z) (n : nat) : list gw_op :=
  match n with O => [] | S k => GwBind a :: GwUnbind a :: gw_churn (a + 1) k end.
Definition gw_sizes (st : gw) : list Z := [zlen (gw_writers st)].
