(* Index / length-accounting cores for C02.  Every slice expression of the Go code is a
   CHECKED operation: the model returns [Panic] exactly when Go would panic.
   [fixed] selects the code after (true) / before (false) the fix: commits. *)
From IV Require Import Base.Word.

Inductive res (A : Type) := Ok (a : A) | Err | Panic.
Arguments Ok {A} a. Arguments Err {A}. Arguments Panic {A}.

(* ---- pkg/rtpfb/twcc_receiver.go convertTWCC: walks the chunks, indexes RecvDeltas ----
   chunk: inl (symbol, run length) | inr (symbol list); symbols 0 not received, 1 small delta,
   2 large delta, 3 received without delta.  Result: number of acknowledgements produced. *)
Definition chunk := (Z * Z + list Z)%type.

Definition needs_delta (s : Z) : bool := (s =? 1) || (s =? 2).

(* one symbol: (delta index, acks so far) -> next, or Panic on RecvDeltas[idx] out of range;
   the fixed code stops the whole conversion (returns what it has) instead *)
Inductive walk := Cont (idx acks : Z) | Stop (acks : Z) | WPanic.

Definition sym_step (fixed : bool) (ndeltas : Z) (s : Z) (idx acks : Z) : walk :=
  if needs_delta s then
    if idx <? ndeltas then Cont (idx + 1) (acks + 1)
    else if fixed then Stop acks else WPanic
  else if (s =? 0) || (s =? 3) then Cont idx (acks + 1)
  else Cont idx acks.

Fixpoint syms_walk (fixed : bool) (ndeltas : Z) (l : list Z) (idx acks : Z) : walk :=
  match l with
  | [] => Cont idx acks
  | s :: tl => match sym_step fixed ndeltas s idx acks with
               | Cont i a => syms_walk fixed ndeltas tl i a
               | w => w
               end
  end.

Definition chunk_syms (c : chunk) : list Z :=
  match c with
  | inl (s, n) => repeat s (Z.to_nat n)
  | inr l => l
  end.

Fixpoint chunks_walk (fixed : bool) (ndeltas : Z) (cs : list chunk) (idx acks : Z) : walk :=
  match cs with
  | [] => Cont idx acks
  | c :: tl => match syms_walk fixed ndeltas (chunk_syms c) idx acks with
               | Cont i a => chunks_walk fixed ndeltas tl i a
               | w => w
               end
  end.

Definition convert_twcc (fixed : bool) (cs : list chunk) (ndeltas : Z) : res Z :=
  match chunks_walk fixed ndeltas cs 0 0 with
  | Cont _ a | Stop a => Ok a
  | WPanic => Panic
  end.

(* ---- pkg/gcc/leaky_bucket_pacer.go: Write copies into a pooled 1460-byte buffer and records
   size = len(payload); the pacer goroutine later slices buf[:size] ---- *)
Definition LB_CAP : Z := 1460.

Definition lb_write (fixed : bool) (paylen : Z) : res Z :=   (* Ok size = enqueued *)
  if fixed && (LB_CAP <? paylen) then Err else Ok paylen.

Definition lb_dequeue (size : Z) : res Z :=                  (* buf[:size] with cap 1460 *)
  if (0 <=? size) && (size <=? LB_CAP) then Ok size else Panic.

Definition lb_roundtrip (fixed : bool) (paylen : Z) : res Z :=
  match lb_write fixed paylen with Ok s => lb_dequeue s | Err => Err | Panic => Panic end.

(* ---- pkg/jitterbuffer/receiver_interceptor.go BindRemoteStream reader: the inner reader put n
   bytes into a scratch buffer of the caller's buffer length; the packet is parsed from buf[:n]
   (fixed) or from the whole scratch buffer (unfixed); when the buffer is emitting, the popped
   packet is marshalled into the caller's buffer and its length is reported.
   [size_of_parse k] = marshalled size of the packet parsed from k bytes (pion/rtp). ---- *)
Section JB.
  Variable size_of_parse : Z -> Z.
  Definition jb_read (fixed : bool) (n buflen : Z) : Z :=
    if fixed then size_of_parse n else size_of_parse buflen.
End JB.

(* ---- pkg/packetdump/receiver_interceptor.go: header parsed from bytes[:i] (fixed) or bytes
   (unfixed), then the payload slice bytes[header.MarshalSize():i] ---- *)
Definition pd_slice (hsize i cap : Z) : res Z :=
  if (0 <=? hsize) && (hsize <=? i) && (i <=? cap) then Ok (i - hsize) else Panic.
