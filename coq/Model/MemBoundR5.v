(* C12 round-5 strengthening - two more size models.

   A. pkg/gcc/leaky_bucket_pacer.go, Run: the byte budget of a tick is a function of the TIME since the
      last packet was written (lastSent), not of the tick alone:
          budget := int(float64(now.Sub(lastSent).Milliseconds()) * float64(targetBitrate) / 8000.0)
          ... for queue.Len() != 0 && budget > 0 { ...; n, err := writer.Write(..); lastSent = now; budget -= n }
      Model/MemBoundPacers.v (round 4) takes the budget of a tick as an input; here it is computed.
      (ms * targetBitrate < 2^53 is exact in float64 and the quotient by 8000 truncated is the integer
      quotient: a non-multiple of 8000 is at least 1/8000 away from an integer, far more than one ulp.)
   B. pkg/report/receiver_interceptor.go: the sync.Map `streams` of the receiver-report interceptor
      under BindRemoteStream / UnbindRemoteStream / incoming RTCP sender reports.
   No proofs in this file. *)
From IV Require Import Base.Word Model.Unwrapper Model.MemBound Model.MemBoundPacers.
Open Scope Z_scope.

(* ====================================================================== *)
(* A. the loop of one tick as lb_drain, additionally telling whether a writer was invoked
   (`lastSent = now` is executed after every writer.Write, failing or not; a packet without writer is
   dropped without touching lastSent or the budget) *)
Fixpoint lt_drain (w : list (Z * Z)) (budget : Z) (q : list (Z * Z)) (calls : list (Z * Z)) (sent : bool)
  : list (Z * Z) * list (Z * Z) * bool :=
  match q with
  | [] => ([], calls, sent)
  | (s, sz) :: t =>
      if budget >? 0 then
        match aget s w with
        | None => lt_drain w budget t calls sent
        | Some k => lt_drain w (budget - (if k =? 1 then 12 + sz else 0)) t (lb_bump s calls) true
        end
      else (q, calls, sent)
  end.

(* lt_rate = p.targetBitrate as stored; lt_idle = milliseconds since lastSent *)
Record lbt := { lt_s : lbs; lt_rate : Z; lt_idle : Z }.
Definition lbt_init (rate : Z) : lbt := {| lt_s := lbs_init; lt_rate := rate; lt_idle := 0 |}.

(* one tick, dt milliseconds after the previous one.  every = false: the code (lastSent moves only
   when a packet was handed to a writer).  every = true: NOT the code - lastSent := now at the end of
   every tick, the budget is recomputed from a single tick (see C12_leakybucket_single_tick_budget_refuted) *)
Definition lt_tick (every : bool) (dt : Z) (st : lbt) : lbt :=
  let s := lt_s st in
  if lb_closed s then st
  else
    let idle := lt_idle st + dt in
    let r := lt_drain (lb_w s) (idle * lt_rate st / 8000) (lb_q s) (lb_calls s) false in
    {| lt_s := {| lb_q := fst (fst r); lb_w := lb_w s; lb_closed := false; lb_calls := snd (fst r);
                  lb_dirty := lb_dirty s |};
       lt_rate := lt_rate st;
       lt_idle := if snd r || every then 0 else idle |}.
Fixpoint lt_ticks (every : bool) (dt : Z) (n : nat) (st : lbt) : lbt :=
  match n with O => st | S k => lt_ticks every dt k (lt_tick every dt st) end.

Inductive lbt_op :=
  | LtOp (o : lbs_op)          (* AddStream / RemoveStream / Write / Close as in lbs_step; LbRelease b = a
                                  tick whose budget is given (the round-4 abstraction) *)
  | LtSetRate (r : Z)          (* SetTargetBitrate(r): targetBitrate = int(1.5 * float64(r)) *)
  | LtTicks (n : Z).           (* n ticks of the 5 ms pacing interval *)
Definition lbt_step_gen (every : bool) (st : lbt) (o : lbt_op) : lbt :=
  match o with
  | LtOp o' => {| lt_s := lbs_step (lt_s st) o'; lt_rate := lt_rate st;
                  lt_idle := match o' with LbRelease _ => 0 | _ => lt_idle st end |}
  | LtSetRate r => {| lt_s := lt_s st; lt_rate := 3 * r / 2; lt_idle := lt_idle st |}
  | LtTicks n => lt_ticks every 5 (Z.to_nat n) st
  end.
Definition lbt_step := lbt_step_gen false.
Definition lbt_step_every := lbt_step_gen true.
Definition lbt_sizes (st : lbt) : list Z := lbs_sizes (lt_s st).

(* slow arrivals: n times (one packet of stream 1, m ticks) *)
Fixpoint lbt_slow_hist (m : Z) (n : nat) : list lbt_op :=
  match n with O => [] | S k => LtOp (LbEnq 1 100) :: LtTicks m :: lbt_slow_hist m k end.

(* ====================================================================== *)
(* B. report.ReceiverInterceptor.streams.
     BindRemoteStream:   r.streams.Store(info.SSRC, newReceiverStream(..))
     UnbindRemoteStream: r.streams.Delete(info.SSRC)
     BindRTCPReader, per rtcp.SenderReport sr: value, ok := r.streams.Load(sr.SSRC); if !ok { continue }
   rr_bound = the streams currently bound (what the bound is a function of), rr_streams = the keys of
   the map.  rr_step_store is NOT the code: LoadOrStore(sr.SSRC, newReceiverStream(sr.SSRC, 0)) for
   the sender report of an SSRC that has no stream. *)
Inductive rr_op := RrBind (ssrc : Z) | RrUnbind (ssrc : Z) | RrSenderReport (ssrc : Z).
Record rr := { rr_bound : list Z; rr_streams : list Z }.
Definition rr_init : rr := {| rr_bound := []; rr_streams := [] |}.
Definition rr_step (st : rr) (o : rr_op) : rr :=
  match o with
  | RrBind s => {| rr_bound := addset s (rr_bound st); rr_streams := addset s (rr_streams st) |}
  | RrUnbind s => {| rr_bound := delset s (rr_bound st); rr_streams := delset s (rr_streams st) |}
  | RrSenderReport _ => st
  end.
Definition rr_step_store (st : rr) (o : rr_op) : rr :=
  match o with
  | RrSenderReport s => {| rr_bound := rr_bound st; rr_streams := addset s (rr_streams st) |}
  | _ => rr_step st o
  end.
Definition rr_sizes (st : rr) : list Z := [zlen (rr_streams st)].
(* sender reports of n distinct SSRCs a, a+1, ... that are not bound *)
Fixpoint rr_foreign (a : Z) (n : nat) : list rr_op :=
  match n with O => [] | S k => RrSenderReport a :: rr_foreign (a + 1) k end.
