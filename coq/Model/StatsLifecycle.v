(* Model of pkg/stats/interceptor.go WITH its life cycle (as the file is after the
   commits "stops and releases the recorder of a stream on Unbind" and "starts
   no recorder goroutine once Close has begun"):

     getRecorder (BindLocalStream / BindRemoteStream)
         the SSRC has a recorder in the map  -> that recorder is captured by the
                                                returned writer / reader
         otherwise a recorder is created; if Close has begun it is returned
         unregistered and is never started; else it is put into the map and a
         goroutine is spawned that will call rec.Start()
     the spawned goroutine (LStart)   rec.Start(): CompareAndSwap(new -> running): a recorder
                                      that was stopped before its Start goroutine ran stays
                                      stopped (commit "stats recorder stays stopped when
                                      Start runs after Stop")
     Unbind{Local,Remote}Stream      delete from the map, rec.Stop(): running := stopped (final)
     Close (its locked part)         closed := true, Stop() on every recorder of
                                      the map (the map is NOT emptied); the
                                      wg.Wait that follows is the remaining LStart events
     the RTP writer / reader returned by a bind feeds the recorder it CAPTURED
     (also after that recorder was released); every RTCP compound, in or out, is
     fed to every recorder of the map; a recorder drops what it is fed while
     not running (Queue*: "if atomic.LoadUint32(&r.running) != recorderRunning { return }")
     Get(ssrc)                        the stats of the recorder in the map, or nil

   Identifiers: the k-th Bind call (k = 0, 1, ...) returns handle k; a recorder
   is named by the number of the Bind call that created it.  The three Go maps /
   captured pointers are total functions Z -> option _ (Get never depends on
   iteration order; "for every recorder of the map" is "every recorder r with
   map[r.ssrc] = r"). *)
From IV Require Import Base.Word Model.StatsRecorder.

Inductive levent :=
| LBind (s rate : Z)         (* BindLocalStream / BindRemoteStream *)
| LStart (r : Z)             (* the goroutine spawned for recorder r runs rec.Start() *)
| LUnbind (s : Z)            (* UnbindLocalStream / UnbindRemoteStream *)
| LClose                     (* the locked part of Close *)
| LRtp (h : Z) (e : event)   (* e = InRTP/OutRTP through the reader/writer returned by bind number h *)
| LRtcp (e : event).         (* e = InRTCP/OutRTCP through the RTCP reader/writer *)

Definition upd {A} (m : Z -> option A) (k : Z) (v : option A) : Z -> option A :=
  fun x => if x =? k then v else m x.

Section Life.
  Variable F : Type.
  Variable fzero : F.
  Variable k_units : Z -> Z -> Z.
  Variable k_jitter : Z -> F -> Z -> F.
  Variable k_rjitter : Z -> Z -> F.
  Variable k_frac : Z -> F.
  Variable k_delay : Z -> Z.
  Variable k_ntpfrac : Z -> Z.

  (* one recorder: ssrc, clock rate, "its Start goroutine has not run yet", running, latestStats *)
  Record grec := mkG { g_ssrc : Z; g_rate : Z; g_pending : bool; g_running : bool; g_st : st F }.

  Record gstate := mkGS {
    gs_closed : bool;                 (* Interceptor.closed *)
    gs_nb : Z;                        (* number of Bind calls so far *)
    gs_map : Z -> option Z;           (* Interceptor.recorders: ssrc -> recorder *)
    gs_recs : Z -> option grec;       (* every recorder ever created *)
    gs_handles : Z -> option Z }.     (* the recorder captured by the writer/reader of bind k *)

  Definition gs0 : gstate := mkGS false 0 (fun _ => None) (fun _ => None) (fun _ => None).

  (* Queue*: dropped unless running *)
  Definition deliver (e : event) (r : grec) : grec :=
    if g_running r
    then mkG (g_ssrc r) (g_rate r) (g_pending r) true
             (step k_units k_jitter k_rjitter k_frac k_delay k_ntpfrac (g_ssrc r) (g_rate r) (g_st r) e)
    else r.
  (* Stop is final (running := recorderStopped): a Start goroutine that runs later finds the recorder
     no longer new and does nothing, which is what clearing the pending flag says *)
  Definition stop (r : grec) : grec := mkG (g_ssrc r) (g_rate r) false false (g_st r).
  Definition start (r : grec) : grec :=
    if g_pending r then mkG (g_ssrc r) (g_rate r) false true (g_st r) else r.

  Definition in_map (m : Z -> option Z) (rid : Z) (r : grec) : bool :=
    match m (g_ssrc r) with Some x => x =? rid | None => false end.
  (* "for _, recorder := range r.recorders { f(recorder) }" *)
  Definition on_mapped (m : Z -> option Z) (recs : Z -> option grec) (f : grec -> grec) : Z -> option grec :=
    fun rid => match recs rid with
               | Some r => Some (if in_map m rid r then f r else r)
               | None => None
               end.
  Definition on_one (recs : Z -> option grec) (rid : Z) (f : grec -> grec) : Z -> option grec :=
    match recs rid with Some r => upd recs rid (Some (f r)) | None => recs end.

  Definition lstep (g : gstate) (ev : levent) : gstate :=
    match ev with
    | LBind s rate =>
        match gs_map g s with
        | Some rid =>
            mkGS (gs_closed g) (gs_nb g + 1) (gs_map g) (gs_recs g) (upd (gs_handles g) (gs_nb g) (Some rid))
        | None =>
            let r := mkG s rate (negb (gs_closed g)) false (st0 fzero) in
            mkGS (gs_closed g) (gs_nb g + 1)
                 (if gs_closed g then gs_map g else upd (gs_map g) s (Some (gs_nb g)))
                 (upd (gs_recs g) (gs_nb g) (Some r))
                 (upd (gs_handles g) (gs_nb g) (Some (gs_nb g)))
        end
    | LStart rid =>
        mkGS (gs_closed g) (gs_nb g) (gs_map g) (on_one (gs_recs g) rid start) (gs_handles g)
    | LUnbind s =>
        match gs_map g s with
        | Some rid =>
            mkGS (gs_closed g) (gs_nb g) (upd (gs_map g) s None) (on_one (gs_recs g) rid stop) (gs_handles g)
        | None => g
        end
    | LClose =>
        mkGS true (gs_nb g) (gs_map g) (on_mapped (gs_map g) (gs_recs g) stop) (gs_handles g)
    | LRtp h e =>
        match gs_handles g h with
        | Some rid => mkGS (gs_closed g) (gs_nb g) (gs_map g) (on_one (gs_recs g) rid (deliver e)) (gs_handles g)
        | None => g
        end
    | LRtcp e =>
        mkGS (gs_closed g) (gs_nb g) (gs_map g) (on_mapped (gs_map g) (gs_recs g) (deliver e)) (gs_handles g)
    end.

  Definition lrun (h : list levent) : gstate := fold_left lstep h gs0.

  (* Interceptor.Get *)
  Definition gget (g : gstate) (s : Z) : option (st F) :=
    match gs_map g s with
    | Some rid => option_map g_st (gs_recs g rid)
    | None => None
    end.
  Definition lget (s : Z) (h : list levent) : option (st F) := gget (lrun h) s.
End Life.
Arguments mkG {F}. Arguments g_ssrc {F}. Arguments g_rate {F}. Arguments g_pending {F}. Arguments g_running {F}. Arguments g_st {F}.
Arguments mkGS {F}. Arguments gs_closed {F}. Arguments gs_nb {F}. Arguments gs_map {F}. Arguments gs_recs {F}. Arguments gs_handles {F}.
Arguments gs0 {F}. Arguments deliver {F}. Arguments stop {F}. Arguments start {F}. Arguments in_map {F}.
Arguments on_mapped {F}. Arguments on_one {F}. Arguments lstep {F}. Arguments lrun {F}. Arguments gget {F}. Arguments lget {F}.
