(* The jitter buffer as it was BEFORE the commit
   "fix: jitterbuffer: Clear(true) resets playoutReady" (design-review finding F20):
   Clear(true) went back to Buffering but kept playoutReady.  Every other
   operation is the one of Model/JitterBuffer.v.  Used only by the refutation
   theorem C18_unfixed_clear_reset_refuted. *)
From IV Require Import Base.Word Model.PriorityQueue Model.JitterBuffer.

Section Generic.
Context {Q : Type} (O : pq_ops Q).

Definition jb_step_f20 (s : jb Q) (o : op) : jb Q * out * list Z :=
  match o with
  | OClear true =>
      match o_clear O (jpackets s) with
      | Ok q' =>
          (* lastSequence = 0; state = Buffering; stats = Stats{0,0,0}; minStartCount = 50
             -- playoutReady is left as it is *)
          (mkJB q' 50 (joverflow s) 0 (jhead s) (jready s) false 0 0 0 (jnextid s), RUnit, [])
      | r => stuck s r
      end
  | _ => jb_step O s o
  end.

Fixpoint jb_run_f20 (s : jb Q) (ops : list op) : list (out * list Z) :=
  match ops with
  | [] => []
  | o :: tl =>
      let '(s', r, ev) := jb_step_f20 s o in
      match r with
      | RPanic | RDiverge => [(r, ev)]
      | _ => (r, ev) :: jb_run_f20 s' tl
      end
  end.
End Generic.

Definition cjb_run_f20 (min : Z) (ops : list op) : list (out * list Z) :=
  jb_run_f20 ptr_ops (cjb_new min) ops.

(* Push sq, sq+1, ..., n packets *)
Fixpoint pushes (sq : Z) (n : nat) : list op :=
  match n with O => [] | S k => OPush sq (sq * 10) :: pushes (sq + 1) k end.
