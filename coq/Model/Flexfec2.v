(* Deepening of the FlexFEC-03 model (Model/Flexfec.v), no proofs here.
   1. EncodeFec after "fix: flexfec-03 encoder clamps the FEC packet count to the 110 rows of its coverage
      table": the first statement is numFecPackets = min(numFecPackets, MaxFecPackets); the rest is the
      function of Model/Flexfec.v.  The interceptor writer on top of it.
   2. The scratch buffer of encodeFlexFecPacket, explicitly: media packets are STRUCTURED (what
      rtp.Packet.MarshalTo is given), the buffer obtained from the sync.Pool has arbitrary content,
      MarshalTo writes the header+payload bytes and at most ONE padding byte (the count), a packet
      larger than the buffer switches to a fresh allocation for the rest of the call, the pooled buffer
      goes back to the pool with whatever was written to it.  [zero] = the statement
      clear(tmpMediaPacketBuf[:packetSize]) is present (the fix: commit of C14).
   3. The interceptor with an explicit caller-owned buffer store: Write is given a reference, the caller
      overwrites the buffer after Write returned.  [copy] = the batch buffer holds copies
      (fix: flexfec encoder interceptor copies header and payload into its batch buffer). *)
From IV Require Export Base.Word Model.Flexfec.

(* ---- 1. EncodeFec with the clamp ---- *)
Definition encode_fec2 (e : enc) (media : list pkt) (n : Z) : enc * res (option (list repair)) :=
  encode_fec e media (Z.min n MaxFecPackets).

Fixpoint run_batches2 (e : enc) (bs : list (list pkt * Z)) : list (res (option (list repair))) :=
  match bs with
  | [] => []
  | (media, n) :: tl =>
    let '(e', r) := encode_fec2 e media n in
    r :: match r with Panic => [] | _ => run_batches2 e' tl end
  end.

Definition i_write2 (s : icpt) (p : pkt) : icpt * res (list out) :=
  if negb (list_Z_eqb (ssrc_bytes p) (i_ssrc s)) then (s, Ok [OMedia p]) else
  let buf := i_buf s ++ [p] in
  if zlen buf =? i_nm s then
    let '(e', r) := encode_fec2 (i_enc s) buf (i_nf s) in
    let s' := {| i_nm := i_nm s; i_nf := i_nf s; i_ssrc := i_ssrc s; i_enc := e'; i_buf := [] |} in
    match r with
    | Panic => (s', Panic)
    | Ok None => (s', Ok [OMedia p])
    | Ok (Some rs) => (s', Ok (OMedia p :: map ORepair rs))
    end
  else ({| i_nm := i_nm s; i_nf := i_nf s; i_ssrc := i_ssrc s; i_enc := i_enc s; i_buf := buf |}, Ok [OMedia p]).

Fixpoint i_run2 (s : icpt) (ws : list pkt) : list (res (list out)) :=
  match ws with
  | [] => []
  | p :: tl => let '(s', r) := i_write2 s p in r :: match r with Panic => [] | _ => i_run2 s' tl end
  end.

(* ---- 2. structured media packets and the scratch buffer ---- *)
(* m_body: the bytes Header.MarshalTo writes followed by the payload; m_pad: paddingSize();
   m_p: Header.Padding.  A packet with m_p and m_pad = 0 carries its padding inside the payload (older
   pion/rtp convention): marshalMediaPacket writes header and payload only. *)
Record mpkt := { m_body : list Z; m_pad : nat; m_p : bool }.
Definition mpkt0 : mpkt := {| m_body := []; m_pad := 0; m_p := false |}.

Definition msize (p : mpkt) : nat := (length (m_body p) + m_pad p)%nat.       (* MarshalSize() *)
Definition set_nth (l : list Z) (i : nat) (v : Z) : list Z := firstn i l ++ v :: skipn (S i) l.
Definition overwrite (buf src : list Z) : list Z := src ++ skipn (length src) buf.   (* copy(buf, src) *)
Definition writes_count (p : mpkt) : bool := m_p p && (0 <? m_pad p)%nat.

(* Marshal(): MarshalTo on a fresh, zeroed buffer of MarshalSize bytes *)
Definition wire (p : mpkt) : pkt :=
  let z := m_body p ++ repeat 0 (m_pad p) in
  if writes_count p then set_nth z (msize p - 1) (Z.of_nat (m_pad p)) else z.

(* tmpMediaPacketBuf: sb_tmp = None while it still is *bufferFromPool *)
Record sbuf := { sb_pooled : list Z; sb_tmp : option (list Z) }.
Definition sb_cur (s : sbuf) : list Z := match sb_tmp s with None => sb_pooled s | Some t => t end.

(* one iteration of the XOR loop up to and including MarshalTo: new buffer state and the bytes
   tmpMediaPacketBuf[:packetSize] the iteration then reads *)
Definition scratch_step (zero : bool) (s : sbuf) (p : mpkt) : sbuf * list Z :=
  let size := msize p in
  let s1 := if (length (sb_cur s) <? size)%nat
            then {| sb_pooled := sb_pooled s; sb_tmp := Some (repeat 0 size) |} else s in
  let b := sb_cur s1 in
  let b2 := if zero then repeat 0 size ++ skipn size b else b in
  let b3 := overwrite b2 (m_body p) in
  let b4 := if writes_count p then set_nth b3 (size - 1) (Z.of_nat (m_pad p)) else b3 in
  (match sb_tmp s1 with
   | None => {| sb_pooled := b4; sb_tmp := None |}
   | Some _ => {| sb_pooled := sb_pooled s1; sb_tmp := Some b4 |}
   end, firstn size b4).

Definition max_payload_s (ps : list mpkt) : Z := fold_left (fun m p => Z.max m (Z.of_nat (msize p) - 12)) ps 0.

Definition fec_fold_s (zero : bool) (ps : list mpkt) (a : facc) (s : sbuf) : facc * sbuf :=
  fold_left (fun st p => let '(s', view) := scratch_step zero (snd st) p in (fec_step (fst st) view, s')) ps (a, s).

(* the FlexFEC payload and the content of the pooled buffer when it is Put back.  Header fields are read
   from the marshalled form as in Model/Flexfec.v (SSRC = bytes 8..11). *)
Definition fec_payload_s (zero : bool) (buf : list Z) (ps : list mpkt) (base_sn m1 m2 m3 : Z) : list Z * list Z :=
  let '(a, s) := fec_fold_s zero ps
        {| a_h0 := 0; a_h1 := 0; a_h2 := 0; a_h3 := 0; a_h4 := 0; a_h5 := 0; a_h6 := 0; a_h7 := 0;
           a_rep := repeat 0 (Z.to_nat (max_payload_s ps)) |}
        {| sb_pooled := buf; sb_tmp := None |} in
  ([a_h0 a; a_h1 a; a_h2 a; a_h3 a; a_h4 a; a_h5 a; a_h6 a; a_h7 a; 1; 0; 0; 0]
   ++ ssrc_bytes (wire (hd mpkt0 ps)) ++ be16 base_sn ++ mask_bytes m1 m2 m3 ++ a_rep a, sb_pooled s).

(* the sync.Pool: [env t buf] is what the t-th Get returns when [buf] is what was Put last -
   ANY function (another goroutine's encoder used the pool, the GC dropped it, New made a fresh one) *)
Definition pool := (nat * list Z)%type.
Definition pool_env := nat -> list Z -> list Z.

Record coverage_s := { cs_masks : list bitarray; cs_nf : Z; cs_nm : Z; cs_media : list mpkt }.

Definition update_coverage_s (p : coverage_s) (media : list mpkt) (n : Z) : coverage_s :=
  let k := zlen media in
  if (k <=? 0) || (k >? MaxMediaPackets) then p
  else if (n =? cs_nf p) && (k =? cs_nm p)
       then {| cs_masks := cs_masks p; cs_nf := cs_nf p; cs_nm := cs_nm p; cs_media := media |}
       else {| cs_masks := build_masks n k; cs_nf := n; cs_nm := k; cs_media := media |}.

Definition new_coverage_s (media : list mpkt) (n : Z) : option coverage_s :=
  let k := zlen media in
  if (k <=? 0) || (k >? MaxMediaPackets) then None
  else Some (update_coverage_s {| cs_masks := repeat ba_zero 110; cs_nf := 0; cs_nm := 0; cs_media := [] |} media n).

(* [fixpad] = the commit "fix: flexfec-03 encoder protects packets whose padding is carried in the payload".
   Without it rtp.Packet.MarshalTo fails on a packet with Header.Padding and paddingSize() = 0: the XOR loop
   has processed the packets before it, encodeFlexFecPacket returns (rtp.Packet{}, false), the deferred Put
   hands the pooled buffer back. *)
Definition unmarshallable (p : mpkt) : bool := m_p p && (m_pad p =? 0)%nat.
Fixpoint take_marshallable (ps : list mpkt) : list mpkt :=
  match ps with
  | [] => []
  | p :: tl => if unmarshallable p then [] else p :: take_marshallable tl
  end.

Definition encode_packet_s (zero fixpad : bool) (env : pool_env) (pl : pool) (c : coverage_s)
           (pt ssrc base_sn f sn : Z) : res (option repair) * pool :=
  if MaxFecPackets <=? f then (Panic, pl) else
  let b := nth (Z.to_nat f) (cs_masks c) ba_zero in
  let idx := covered_idx b (cs_nm c) in
  match idx with
  | [] => (Ok None, pl)
  | _ =>
    let ps := map (fun i => nth (Z.to_nat i) (cs_media c) mpkt0) idx in
    if negb fixpad && existsb unmarshallable ps then
      (Ok None, (S (fst pl), snd (fec_payload_s zero (env (fst pl) (snd pl)) (take_marshallable ps) base_sn
                                    (extract_mask1 b) (extract_mask2 b) (extract_mask3_03 b))))
    else
    let '(payload, back) := fec_payload_s zero (env (fst pl) (snd pl)) ps base_sn
                              (extract_mask1 b) (extract_mask2 b) (extract_mask3_03 b) in
    (Ok (Some {| r_pt := pt; r_sn := sn; r_ssrc := ssrc; r_payload := payload |}), (S (fst pl), back))
  end.

Fixpoint encode_loop_s (zero fixpad : bool) (env : pool_env) (pl : pool) (c : coverage_s) (pt ssrc base_sn : Z)
         (fs : list Z) (sn : Z) : res (Z * list repair) * pool :=
  match fs with
  | [] => (Ok (sn, []), pl)
  | f :: fs' =>
    match encode_packet_s zero fixpad env pl c pt ssrc base_sn f sn with
    | (Panic, pl') => (Panic, pl')
    | (Ok None, pl') => encode_loop_s zero fixpad env pl' c pt ssrc base_sn fs' sn
    | (Ok (Some r), pl') =>
      match encode_loop_s zero fixpad env pl' c pt ssrc base_sn fs' (add16 sn 1) with
      | (Panic, pl'') => (Panic, pl'')
      | (Ok (sn', rs), pl'') => (Ok (sn', r :: rs), pl'')
      end
    end
  end.

Record enc_s := { es_sn : Z; es_pt : Z; es_ssrc : Z; es_cov : option coverage_s }.
Definition new_encoder_s (pt ssrc : Z) : enc_s := {| es_sn := 1000; es_pt := pt; es_ssrc := ssrc; es_cov := None |}.

(* EncodeFec (both fix: commits of the deepening round applied), sequence numbers read from the
   marshalled form as in Model/Flexfec.v *)
Definition encode_fec_s (zero fixpad : bool) (env : pool_env) (pl : pool) (e : enc_s) (media : list mpkt) (n0 : Z)
  : enc_s * res (option (list repair)) * pool :=
  let n := Z.min n0 MaxFecPackets in
  let k := zlen media in
  if (k =? 0) || (k >? MASK03_POSITIONS) then (e, Ok None, pl) else
  if negb (match map wire media with [] => true | p :: tl => consecutive (sn_of p) tl end) then (e, Ok None, pl) else
  let cov := match es_cov e with
             | None => new_coverage_s media n
             | Some c => Some (update_coverage_s c media n)
             end in
  match cov with
  | None => ({| es_sn := es_sn e; es_pt := es_pt e; es_ssrc := es_ssrc e; es_cov := None |}, Ok None, pl)
  | Some c =>
    match encode_loop_s zero fixpad env pl c (es_pt e) (es_ssrc e) (sn_of (hd [] (map wire media)))
                        (zrange 0 (Z.to_nat n)) (es_sn e) with
    | (Panic, pl') => ({| es_sn := es_sn e; es_pt := es_pt e; es_ssrc := es_ssrc e; es_cov := Some c |}, Panic, pl')
    | (Ok (sn', rs), pl') =>
        ({| es_sn := sn'; es_pt := es_pt e; es_ssrc := es_ssrc e; es_cov := Some c |}, Ok (Some rs), pl')
    end
  end.

Fixpoint run_batches_s (zero fixpad : bool) (env : pool_env) (pl : pool) (e : enc_s) (bs : list (list mpkt * Z))
  : list (res (option (list repair))) :=
  match bs with
  | [] => []
  | (media, n) :: tl =>
    let '(e', r, pl') := encode_fec_s zero fixpad env pl e media n in
    r :: match r with Panic => [] | _ => run_batches_s zero fixpad env pl' e' tl end
  end.

(* ---- 3. the interceptor and the caller's buffers ---- *)
(* The caller owns buffers (header struct + payload slice), named by numbers.  One event: the caller
   fills buffer [b] with the packet and calls Write(&header_b, payload_b).  [copy] = false is the code
   before the fix: the batch accumulator keeps the reference and EncodeFec reads the buffers as they are
   when the batch completes. *)
Definition store := list (nat * pkt).       (* most recent binding first *)
Fixpoint lookup (st : store) (b : nat) : pkt :=
  match st with
  | [] => []
  | (b', p) :: tl => if Nat.eqb b b' then p else lookup tl b
  end.

Inductive held := HCopy (p : pkt) | HRef (b : nat).
Definition deref (st : store) (h : held) : pkt := match h with HCopy p => p | HRef b => lookup st b end.

Record icpt_a := { ia_nm : Z; ia_nf : Z; ia_ssrc : list Z; ia_enc : enc; ia_buf : list held }.

Definition ia_write (copy : bool) (st : store) (s : icpt_a) (b : nat) : icpt_a * res (list out) :=
  let p := lookup st b in
  if negb (list_Z_eqb (ssrc_bytes p) (ia_ssrc s)) then (s, Ok [OMedia p]) else
  let buf := ia_buf s ++ [if copy then HCopy p else HRef b] in
  if zlen buf =? ia_nm s then
    let '(e', r) := encode_fec2 (ia_enc s) (map (deref st) buf) (ia_nf s) in
    let s' := {| ia_nm := ia_nm s; ia_nf := ia_nf s; ia_ssrc := ia_ssrc s; ia_enc := e'; ia_buf := [] |} in
    match r with
    | Panic => (s', Panic)
    | Ok None => (s', Ok [OMedia p])
    | Ok (Some rs) => (s', Ok (OMedia p :: map ORepair rs))
    end
  else ({| ia_nm := ia_nm s; ia_nf := ia_nf s; ia_ssrc := ia_ssrc s; ia_enc := ia_enc s; ia_buf := buf |}, Ok [OMedia p]).

(* a history: each event overwrites buffer b with packet p (reusing b is the point) and writes it *)
Fixpoint ia_run (copy : bool) (st : store) (s : icpt_a) (evs : list (nat * pkt)) : list (res (list out)) :=
  match evs with
  | [] => []
  | (b, p) :: tl =>
    let st' := (b, p) :: st in
    let '(s', r) := ia_write copy st' s b in
    r :: match r with Panic => [] | _ => ia_run copy st' s' tl end
  end.

Definition abs_icpt (s : icpt_a) (st : store) : icpt :=
  {| i_nm := ia_nm s; i_nf := ia_nf s; i_ssrc := ia_ssrc s; i_enc := ia_enc s; i_buf := map (deref st) (ia_buf s) |}.

(* ---- 4. the interceptor's writer over structured packets, sharing the pool ---- *)
(* the batch accumulator holds rtp.Packet values (cloned header, copied payload) = structured packets; what
   reaches the next writer is the caller's header and payload, observed as their wire form *)
Record icpt_s := { is_nm : Z; is_nf : Z; is_ssrc : list Z; is_enc : enc_s; is_buf : list mpkt }.

Definition is_write (env : pool_env) (pl : pool) (s : icpt_s) (p : mpkt) : icpt_s * res (list out) * pool :=
  if negb (list_Z_eqb (ssrc_bytes (wire p)) (is_ssrc s)) then (s, Ok [OMedia (wire p)], pl) else
  let buf := is_buf s ++ [p] in
  if zlen buf =? is_nm s then
    let '(e', r, pl') := encode_fec_s true true env pl (is_enc s) buf (is_nf s) in
    let s' := {| is_nm := is_nm s; is_nf := is_nf s; is_ssrc := is_ssrc s; is_enc := e'; is_buf := [] |} in
    match r with
    | Panic => (s', Panic, pl')
    | Ok None => (s', Ok [OMedia (wire p)], pl')
    | Ok (Some rs) => (s', Ok (OMedia (wire p) :: map ORepair rs), pl')
    end
  else ({| is_nm := is_nm s; is_nf := is_nf s; is_ssrc := is_ssrc s; is_enc := is_enc s; is_buf := buf |},
        Ok [OMedia (wire p)], pl).

Fixpoint is_run (env : pool_env) (pl : pool) (s : icpt_s) (ws : list mpkt) : list (res (list out)) :=
  match ws with
  | [] => []
  | p :: tl => let '(s', r, pl') := is_write env pl s p in
               r :: match r with Panic => [] | _ => is_run env pl' s' tl end
  end.
