(* Model of pkg/rfc8888/recorder.go (Recorder.AddPacket, Recorder.BuildReport)
   as the code is AFTER the fix: commits of C08 (per-stream budget even and
   capped at maxReportsPerReportBlock).  Recorder.streams (a Go map, iterated in
   unspecified order) is an association list sorted by SSRC; report blocks are
   compared sorted by SSRC. *)
From IV Require Import Base.Word Model.Unwrapper Model.StreamLog.

Definition recorder := list (Z * slog).

(* outputs: blocks sorted by SSRC *)
Definition report := list rblock.

(* observable projection of a report block: (ssrc, begin, metric blocks as numbers) *)
Definition oblock := (Z * Z * list Z)%type.
Definition enc_block (b : rblock) : oblock :=
  let '(ssrc, begin, mbs) := b in (ssrc, begin, map enc_mb mbs).

Inductive c08op :=
| Add (ts ssrc seq ecn : Z)        (* Recorder.AddPacket *)
| Build (now maxSize : Z)          (* Recorder.BuildReport *)
| BuildRaw (now budget : Z).       (* hook: metricsAfter(now, budget) on every stream *)

(* maxReportBlocksPerStream of BuildReport for streamCount = k > 0.
   Go's / and % truncate toward zero: Z.quot / Z.rem. *)
Definition per_stream_budget (maxSize k : Z) : Z :=
  let maxReportBlocks := Z.max (Z.quot (maxSize - 12 - 8 * k) 2) 0 in
  let p := Z.min (Z.quot maxReportBlocks k) 16384 in
  p - Z.rem p 2.

(* rtcp.CCFeedbackReport.MarshalSize: 8 + sum(block.len()) + 4, block.len() = 8 + 2*ceil_even(n);
   Marshal fails (here -1) when a block has more than 16384 metric blocks *)
Definition block_len (b : rblock) : Z :=
  let n := Z.of_nat (length (snd b)) in 8 + 2 * (n + n mod 2).

Definition marshal_len (r : report) : Z :=
  if existsb (fun b => Z.of_nat (length (snd b)) >? 16384) r then -1
  else 12 + fold_right (fun b acc => block_len b + acc) 0 r.

Section Recorder.
  Variable atok : Z -> bool * Z.

  (* r.streams[ssrc] lookup / creation, then stream.add *)
  Fixpoint rec_add (r : recorder) (ts ssrc seq ecn : Z) : recorder :=
    match r with
    | [] => [(ssrc, sl_add (new_slog ssrc) ts seq ecn)]
    | (k, s) :: tl =>
        if ssrc <? k then (ssrc, sl_add (new_slog ssrc) ts seq ecn) :: r
        else if ssrc =? k then (k, sl_add s ts seq ecn) :: tl
        else (k, s) :: rec_add tl ts ssrc seq ecn
    end.

  (* for _, log := range r.streams { block := log.metricsAfter(now, budget) ... } *)
  Fixpoint rec_metrics (r : recorder) (now budget : Z) : recorder * report :=
    match r with
    | [] => ([], [])
    | (k, s) :: tl =>
        let '(s', b) := metrics_after atok s now budget in
        let '(tl', bs) := rec_metrics tl now budget in
        ((k, s') :: tl', b :: bs)
    end.

  Definition rec_build (r : recorder) (now maxSize : Z) : recorder * report :=
    match r with
    | [] => (r, [])                                   (* streamCount == 0 *)
    | _ => rec_metrics r now (per_stream_budget maxSize (Z.of_nat (length r)))
    end.

  Definition rec_step (r : recorder) (o : c08op) : recorder * option report :=
    match o with
    | Add ts ssrc seq ecn => (rec_add r ts ssrc seq ecn, None)
    | Build now maxSize => let '(r', rep) := rec_build r now maxSize in (r', Some rep)
    | BuildRaw now budget => let '(r', rep) := rec_metrics r now budget in (r', Some rep)
    end.

  (* run a history, collecting the reports *)
  Fixpoint rec_run (r : recorder) (ops : list c08op) : list report :=
    match ops with
    | [] => []
    | o :: tl =>
        let '(r', out) := rec_step r o in
        match out with
        | Some rep => rep :: rec_run r' tl
        | None => rec_run r' tl
        end
    end.
End Recorder.
