(* Concurrency skeleton of pkg/gcc: send_side_bwe.go + delay_based_bwe.go (+ the lock uses of
   rate_controller.go, loss_based_bwe.go, leaky_bucket_pacer.go) as a labelled transition system.
   Any number of threads calling WriteRTCP, GetTargetBitrate/GetStats and Close; the two
   consumer goroutines started by newDelayController; the pacing goroutine of the leaky bucket
   pacer (absent for the NoOp pacer: it then starts in PExit).

   An atomic step is one synchronisation action of the code (lock/unlock, channel send =
   rendezvous with the receiver, close of a channel, WaitGroup wait) or one branch.  Data is not
   modelled (Model/GccDecision.v does that); every data-dependent branch is a free choice.

   Go code                                                        step
   -------------------------------------------------------------  -----------------------------
   SendSideBWE.WriteRTCP
     (the caller's stamp before the call; harness event)          S_WCall        W0 -> WCall
     e.closeLock.RLock()                                           S_WRLock       WCall -> W1
     if e.isClosed() { return ErrSendSideBWEClosed }               S_WClosed      W1 -> WRet RClosed
                                                                   S_WOpen        W1 -> WLoop
     for _, pkt := range pkts   (loop exhausted: return nil)       S_WFin         WLoop -> WRet ROk
       OnTransportCCFeedback error: return err                     S_WErr         WLoop -> WRet RErr
       e.delayController.updateRTT: c.lock.Lock / Unlock           S_WRttAcq/Rel  WLoop -> WRtt -> WLoop2
       (feedbackMinRTT == MaxInt: no updateRTT)                    S_WNoRtt       WLoop -> WLoop2
       e.lossController.updateLossEstimate: its lock.Lock/Unlock   S_WLossAcq/Rel WLoop2 -> WLoss -> WSendA
       (len(results) == 0: returns before locking)                 S_WNoLoss      WLoop2 -> WSendA
       updateDelayEstimate: d.ackPipe <- acks                      S_WSendA       WSendA -> WSendR  (A: AIdle -> ABusy)
                            d.ackRatePipe <- acks                  S_WSendR       WSendR -> WLoop   (R: RIdle -> RBusy)
     deferred e.closeLock.RUnlock()                                S_WRUnlock     WRet r -> WDone r
     (the caller's stamp after the return; harness event)          S_WEnd         WDone r -> WEnd r
   GetTargetBitrate / GetStats: e.lock.Lock / Unlock               S_GAcq/S_GRel  G0 -> G1 -> GDone
   SendSideBWE.Close
     (stamp)                                                       S_CCall        C0 -> CCall
     e.closeLock.Lock(): rw.w.Lock + announce to readers           S_CAnn         CCall -> C1
                         wait for the active readers               S_CLock        C1 -> C2
     if e.isClosed() { return nil }                                S_CAlready     C2 -> CRet
     delayController.Close: close(d.ackPipe)                       S_CBegin, S_CCloseA  C2 -> C3 -> C4
                            close(d.ackRatePipe)                   S_CCloseR      C4 -> C5
                            deferred d.wg.Wait()                   S_CWait        C5 -> C6
     close(e.close)                                                S_CFlag        C6 -> C7
     e.pacer.Close(): closeOnce.Do(close(p.done))                  S_CPClose      C7 -> C8
                      p.wg.Wait()                                  S_CPWait       C8 -> CRet
     deferred e.closeLock.Unlock()                                 S_CUnlock      CRet -> CDone
     (stamp)                                                       S_CEnd         CDone -> CEnd
   goroutine A: arrivalGroupAccumulator.run(ackPipe, ...)
     for acks := range in            (channel closed: return, wg.Done)   S_AExit  AIdle -> AExit
       (receive: the rendezvous S_WSendA)
       batch processed                                             S_AIdle        ABusy -> AIdle
       agWriter -> slopeEstimator.onArrivalGroup -> overuseDetector.onDelayStats
         -> rateController.onDelayStats (early returns: stay in ABusy)
            c.lock.Lock / Unlock                                   S_ACAcq/S_ACRel  ABusy -> AC -> AD
            c.dsWriter(next) -> SendSideBWE.onDelayUpdate:
              e.lock.Lock                                          S_AEAcq        AD -> AE
              lossController.getEstimate: its lock.Lock / Unlock   S_ALAcq/S_ALRel  AE -> AEL -> AE2
              bitrate changed: pacer.SetTargetBitrate
                 (targetBitrateLock.Lock / Unlock)                 S_APAcq/S_APRel  AE2 -> AEP -> AE3
                 go e.onTargetBitrateChange(bitrate)               (label LSpawn on S_APRel; the callback
                                                                    goroutine is an arbitrary thread)
              bitrate unchanged                                    S_ANoChange    AE2 -> AE3
              deferred e.lock.Unlock                               S_AERel        AE3 -> ABusy
   goroutine R: rateCalculator.run(ackRatePipe, rateController.onReceivedRate)
     channel closed: return, wg.Done                               S_RExit        RIdle -> RExit
     onRateUpdate: c.lock.Lock / Unlock                            S_RCAcq/S_RCRel  RBusy -> RC -> RBusy
     batch processed                                               S_RIdle        RBusy -> RIdle
   goroutine P: LeakyBucketPacer.Run
     case <-p.done: return                                         S_PExit        PIdle -> PExit
     tick: getTargetBitrate (targetBitrateLock.Lock / Unlock)      S_PAcq/S_PRel  PIdle -> PP -> PIdle

   sync.RWMutex closeLock: [rds] = the readers (readerCount), [wann] = the writer that holds rw.w
   and has announced itself, [wheld] = that writer has the lock.  Go's RWMutex blocks new readers
   once a writer has announced itself; [wpref = false] drops that guard (a superset of the
   interleavings), so every theorem is proved for both readings.
   A send on a closed channel, a second close of a channel: states, not steps ([bad]).

   No proofs in this file. *)
From Coq Require Import List Bool Arith.
Import ListNotations.

Inductive wres := ROk | RClosed | RErr.

Inductive pc :=
| TNone
| W0 | WCall | W1 | WLoop | WRtt | WLoop2 | WLoss | WSendA | WSendR
| WRet (r : wres) | WDone (r : wres) | WEnd (r : wres)
| G0 | G1 | GDone
| C0 | CCall | C1 | C2 | C3 | C4 | C5 | C6 | C7 | C8 | CRet | CDone | CEnd.

Inductive apc := AIdle | ABusy | AC | AD | AE | AEL | AE2 | AEP | AE3 | AExit.
Inductive rpc := RIdle | RBusy | RC | RExit.
Inductive ppc := PIdle | PP | PExit.

(* LCL closeLock, LE SendSideBWE.lock, LC rateController.lock, LL lossBasedBandwidthEstimator.lock,
   LP LeakyBucketPacer.targetBitrateLock (or the lock of an injected pacer) *)
Inductive lock := LCL | LE | LC | LL | LP.
Inductive owner := OT (t : nat) | OA | OR | OP.

Inductive label :=
| Tau
| LCallW (t : nat) | LRetW (t : nat) (r : wres)
| LCallC (u : nat) | LRetC (u : nat)
| LAcq (o : owner) (l : lock) | LRel (o : owner) (l : lock)
| LSendA (t : nat) | LSendR (t : nat)
| LCloseA | LCloseR | LCloseFlag | LClosePacer
| LSpawn.

Definition lock_eqb (a b : lock) : bool :=
  match a, b with LCL, LCL | LE, LE | LC, LC | LL, LL | LP, LP => true | _, _ => false end.

Record st := mkSt {
  thr : nat -> pc;
  ca : apc; cr : rpc; cp : ppc;
  chA : bool;            (* ackPipe closed *)
  chR : bool;            (* ackRatePipe closed *)
  closed : bool;         (* e.close closed *)
  pdone : bool;          (* p.done closed *)
  rds : list nat;        (* closeLock: active readers *)
  wann : option nat;     (* closeLock: announced writer *)
  wheld : bool;          (* closeLock: held by the writer *)
  lk : lock -> option owner
}.

Definition upd {A} (f : nat -> A) (i : nat) (v : A) : nat -> A :=
  fun j => if Nat.eqb j i then v else f j.
Definition updL (f : lock -> option owner) (l : lock) (v : option owner) : lock -> option owner :=
  fun j => if lock_eqb j l then v else f j.

Definition setT (s : st) (t : nat) (p : pc) : st :=
  mkSt (upd (thr s) t p) (ca s) (cr s) (cp s) (chA s) (chR s) (closed s) (pdone s) (rds s) (wann s) (wheld s) (lk s).
Definition setCa (s : st) (a : apc) : st :=
  mkSt (thr s) a (cr s) (cp s) (chA s) (chR s) (closed s) (pdone s) (rds s) (wann s) (wheld s) (lk s).
Definition setCr (s : st) (r : rpc) : st :=
  mkSt (thr s) (ca s) r (cp s) (chA s) (chR s) (closed s) (pdone s) (rds s) (wann s) (wheld s) (lk s).
Definition setCp (s : st) (p : ppc) : st :=
  mkSt (thr s) (ca s) (cr s) p (chA s) (chR s) (closed s) (pdone s) (rds s) (wann s) (wheld s) (lk s).
Definition setChA (s : st) : st :=
  mkSt (thr s) (ca s) (cr s) (cp s) true (chR s) (closed s) (pdone s) (rds s) (wann s) (wheld s) (lk s).
Definition setChR (s : st) : st :=
  mkSt (thr s) (ca s) (cr s) (cp s) (chA s) true (closed s) (pdone s) (rds s) (wann s) (wheld s) (lk s).
Definition setClosed (s : st) : st :=
  mkSt (thr s) (ca s) (cr s) (cp s) (chA s) (chR s) true (pdone s) (rds s) (wann s) (wheld s) (lk s).
Definition setPdone (s : st) : st :=
  mkSt (thr s) (ca s) (cr s) (cp s) (chA s) (chR s) (closed s) true (rds s) (wann s) (wheld s) (lk s).
Definition setRds (s : st) (r : list nat) : st :=
  mkSt (thr s) (ca s) (cr s) (cp s) (chA s) (chR s) (closed s) (pdone s) r (wann s) (wheld s) (lk s).
Definition setW (s : st) (a : option nat) (h : bool) : st :=
  mkSt (thr s) (ca s) (cr s) (cp s) (chA s) (chR s) (closed s) (pdone s) (rds s) a h (lk s).
Definition setLk (s : st) (l : lock) (o : option owner) : st :=
  mkSt (thr s) (ca s) (cr s) (cp s) (chA s) (chR s) (closed s) (pdone s) (rds s) (wann s) (wheld s) (updL (lk s) l o).

Section Lts.
  Variable wpref : bool.   (* true: Go's writer-preferring RWMutex *)

  Inductive step : st -> label -> st -> Prop :=
  (* ---- WriteRTCP ---- *)
  | S_WCall s t : thr s t = W0 -> step s (LCallW t) (setT s t WCall)
  | S_WRLock s t : thr s t = WCall -> wheld s = false -> (wpref = true -> wann s = None) ->
      step s (LAcq (OT t) LCL) (setRds (setT s t W1) (t :: rds s))
  | S_WClosed s t : thr s t = W1 -> closed s = true -> step s Tau (setT s t (WRet RClosed))
  | S_WOpen s t : thr s t = W1 -> closed s = false -> step s Tau (setT s t WLoop)
  | S_WFin s t : thr s t = WLoop -> step s Tau (setT s t (WRet ROk))
  | S_WErr s t : thr s t = WLoop -> step s Tau (setT s t (WRet RErr))
  | S_WRttAcq s t : thr s t = WLoop -> lk s LC = None ->
      step s (LAcq (OT t) LC) (setLk (setT s t WRtt) LC (Some (OT t)))
  | S_WRttRel s t : thr s t = WRtt -> step s (LRel (OT t) LC) (setLk (setT s t WLoop2) LC None)
  | S_WNoRtt s t : thr s t = WLoop -> step s Tau (setT s t WLoop2)
  | S_WLossAcq s t : thr s t = WLoop2 -> lk s LL = None ->
      step s (LAcq (OT t) LL) (setLk (setT s t WLoss) LL (Some (OT t)))
  | S_WLossRel s t : thr s t = WLoss -> step s (LRel (OT t) LL) (setLk (setT s t WSendA) LL None)
  | S_WNoLoss s t : thr s t = WLoop2 -> step s Tau (setT s t WSendA)
  | S_WSendA s t : thr s t = WSendA -> ca s = AIdle -> chA s = false ->
      step s (LSendA t) (setCa (setT s t WSendR) ABusy)
  | S_WSendR s t : thr s t = WSendR -> cr s = RIdle -> chR s = false ->
      step s (LSendR t) (setCr (setT s t WLoop) RBusy)
  | S_WRUnlock s t r : thr s t = WRet r ->
      step s (LRel (OT t) LCL) (setRds (setT s t (WDone r)) (remove Nat.eq_dec t (rds s)))
  | S_WEnd s t r : thr s t = WDone r -> step s (LRetW t r) (setT s t (WEnd r))
  (* ---- getters ---- *)
  | S_GAcq s t : thr s t = G0 -> lk s LE = None ->
      step s (LAcq (OT t) LE) (setLk (setT s t G1) LE (Some (OT t)))
  | S_GRel s t : thr s t = G1 -> step s (LRel (OT t) LE) (setLk (setT s t GDone) LE None)
  (* ---- Close ---- *)
  | S_CCall s u : thr s u = C0 -> step s (LCallC u) (setT s u CCall)
  | S_CAnn s u : thr s u = CCall -> wann s = None -> step s Tau (setW (setT s u C1) (Some u) false)
  | S_CLock s u : thr s u = C1 -> rds s = [] -> step s (LAcq (OT u) LCL) (setW (setT s u C2) (wann s) true)
  | S_CAlready s u : thr s u = C2 -> closed s = true -> step s Tau (setT s u CRet)
  | S_CBegin s u : thr s u = C2 -> closed s = false -> step s Tau (setT s u C3)
  | S_CCloseA s u : thr s u = C3 -> step s LCloseA (setChA (setT s u C4))
  | S_CCloseR s u : thr s u = C4 -> step s LCloseR (setChR (setT s u C5))
  | S_CWait s u : thr s u = C5 -> ca s = AExit -> cr s = RExit -> step s Tau (setT s u C6)
  | S_CFlag s u : thr s u = C6 -> step s LCloseFlag (setClosed (setT s u C7))
  | S_CPClose s u : thr s u = C7 -> step s LClosePacer (setPdone (setT s u C8))
  | S_CPWait s u : thr s u = C8 -> cp s = PExit -> step s Tau (setT s u CRet)
  | S_CUnlock s u : thr s u = CRet -> step s (LRel (OT u) LCL) (setW (setT s u CDone) None false)
  | S_CEnd s u : thr s u = CDone -> step s (LRetC u) (setT s u CEnd)
  (* ---- goroutine A ---- *)
  | S_AExit s : ca s = AIdle -> chA s = true -> step s Tau (setCa s AExit)
  | S_AIdle s : ca s = ABusy -> step s Tau (setCa s AIdle)
  | S_ACAcq s : ca s = ABusy -> lk s LC = None -> step s (LAcq OA LC) (setLk (setCa s AC) LC (Some OA))
  | S_ACRel s : ca s = AC -> step s (LRel OA LC) (setLk (setCa s AD) LC None)
  | S_AEAcq s : ca s = AD -> lk s LE = None -> step s (LAcq OA LE) (setLk (setCa s AE) LE (Some OA))
  | S_ALAcq s : ca s = AE -> lk s LL = None -> step s (LAcq OA LL) (setLk (setCa s AEL) LL (Some OA))
  | S_ALRel s : ca s = AEL -> step s (LRel OA LL) (setLk (setCa s AE2) LL None)
  | S_APAcq s : ca s = AE2 -> lk s LP = None -> step s (LAcq OA LP) (setLk (setCa s AEP) LP (Some OA))
  | S_APRel s : ca s = AEP -> step s LSpawn (setLk (setCa s AE3) LP None)
  | S_ANoChange s : ca s = AE2 -> step s Tau (setCa s AE3)
  | S_AERel s : ca s = AE3 -> step s (LRel OA LE) (setLk (setCa s ABusy) LE None)
  (* ---- goroutine R ---- *)
  | S_RExit s : cr s = RIdle -> chR s = true -> step s Tau (setCr s RExit)
  | S_RIdle s : cr s = RBusy -> step s Tau (setCr s RIdle)
  | S_RCAcq s : cr s = RBusy -> lk s LC = None -> step s (LAcq OR LC) (setLk (setCr s RC) LC (Some OR))
  | S_RCRel s : cr s = RC -> step s (LRel OR LC) (setLk (setCr s RBusy) LC None)
  (* ---- goroutine P ---- *)
  | S_PExit s : cp s = PIdle -> pdone s = true -> step s Tau (setCp s PExit)
  | S_PAcq s : cp s = PIdle -> lk s LP = None -> step s (LAcq OP LP) (setLk (setCp s PP) LP (Some OP))
  | S_PRel s : cp s = PP -> step s (LRel OP LP) (setLk (setCp s PIdle) LP None).

  (* runs, labels in chronological order *)
  Inductive run : st -> list label -> st -> Prop :=
  | RunNil s : run s [] s
  | RunCons s l s1 tr s2 : step s l s1 -> run s1 tr s2 -> run s (l :: tr) s2.

  (* a freshly constructed SendSideBWE and any population of callers that have not started yet *)
  Definition init_ok (s : st) : Prop :=
    (forall t, thr s t = TNone \/ thr s t = W0 \/ thr s t = G0 \/ thr s t = C0) /\
    ca s = AIdle /\ cr s = RIdle /\ (cp s = PIdle \/ cp s = PExit) /\
    chA s = false /\ chR s = false /\ closed s = false /\ pdone s = false /\
    rds s = [] /\ wann s = None /\ wheld s = false /\ (forall l, lk s l = None).

  Definition reachable (s : st) : Prop := exists s0 tr, init_ok s0 /\ run s0 tr s.
End Lts.

(* pc classes *)
Definition holdsRL (p : pc) : bool :=
  match p with W1 | WLoop | WRtt | WLoop2 | WLoss | WSendA | WSendR | WRet _ => true | _ => false end.
Definition activeW (p : pc) : bool :=
  match p with WLoop | WRtt | WLoop2 | WLoss | WSendA | WSendR => true | _ => false end.
Definition holdsWL (p : pc) : bool :=
  match p with C2 | C3 | C4 | C5 | C6 | C7 | C8 | CRet => true | _ => false end.
Definition announced (p : pc) : bool :=
  match p with C1 => true | _ => holdsWL p end.
Definition aholdsE (a : apc) : bool :=
  match a with AE | AEL | AE2 | AEP | AE3 => true | _ => false end.

(* the Go runtime panics in these states *)
Definition bad (s : st) : Prop :=
  (exists t, thr s t = WSendA /\ chA s = true) \/      (* send on closed ackPipe *)
  (exists t, thr s t = WSendR /\ chR s = true) \/      (* send on closed ackRatePipe *)
  (exists u, thr s u = C3 /\ chA s = true) \/          (* close of closed ackPipe *)
  (exists u, thr s u = C4 /\ chR s = true) \/          (* close of closed ackRatePipe *)
  (exists u, thr s u = C6 /\ closed s = true).         (* close of closed e.close *)

(* locks an actor holds in a state (for the lock order) *)
Definition holds_lock (s : st) (o : owner) (l : lock) : Prop :=
  match l with
  | LCL => match o with OT t => holdsRL (thr s t) = true \/ holdsWL (thr s t) = true | _ => False end
  | _ => lk s l = Some o
  end.

Definition lock_rank (l : lock) : nat :=
  match l with LCL => 0 | LE => 1 | LC => 2 | LL => 3 | LP => 4 end.

(* (held, acquired) pairs of the pipeline, as lock ranks *)
Definition gcc_lock_edges : list (nat * nat) := [(0, 2); (0, 3); (1, 3); (1, 4)]%nat.
