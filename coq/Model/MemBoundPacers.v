(* C12 round-4 strengthening - the two pacers once more, with the state that decides whether
   they DRAIN (the size models of Model/MemBound.v section 11 only count Enq / Release k):

   A. pkg/gcc/leaky_bucket_pacer.go with its streams: the queue holds packets of several SSRCs, the
      writer of a packet is looked up in ssrcToWriter when its turn comes (Run), AddStream /
      RemoveStream change that map while packets are queued.
   B. pkg/pacing/interceptor.go with the real token bucket (golang.org/x/time/rate through
      rateLimitPacer): rate and bucket depth (burst) as handed to the limiter by NewInterceptor and
      by setRate, and the release loop of one tick.
   No proofs in this file. *)
From IV Require Import Base.Word Model.Unwrapper Model.MemBound.
Open Scope Z_scope.

(* ====================================================================== *)
(* A. gcc.LeakyBucketPacer: queue of (ssrc, payload size), ssrcToWriter as ssrc -> kind
   (1 = the writer returns n = header (12) + payload size, 2 = the writer returns (0, err)). *)
Inductive lbs_op :=
  | LbAdd (ssrc kind : Z)      (* AddStream *)
  | LbRemove (ssrc : Z)        (* RemoveStream *)
  | LbEnq (ssrc size : Z)      (* Write *)
  | LbRelease (budget : Z)     (* one tick of Run whose budget is `budget` bytes *)
  | LbClose.

Record lbs := {
  lb_q : list (Z * Z);         (* queue: (ssrc, payload size), head first *)
  lb_w : list (Z * Z);         (* ssrcToWriter: ssrc -> kind *)
  lb_closed : bool;
  lb_calls : list (Z * Z);     (* ssrc -> number of writer invocations (observable of the harness) *)
  lb_dirty : list Z            (* SSRCs that were removed, or written while no writer was registered:
                                  whether their queued packets are written or dropped depends on when
                                  the ticker fires, their invocation count is not an observable *)
}.
Definition lbs_init : lbs := {| lb_q := []; lb_w := []; lb_closed := false; lb_calls := []; lb_dirty := [] |}.

Definition lb_bump (s : Z) (c : list (Z * Z)) : list (Z * Z) := aset s (cnt s c + 1) c.

(* Run, the loop of one tick:
     for p.queue.Len() != 0 && budget > 0 {
        next := queue.Remove(queue.Front())
        writer, ok := ssrcToWriter[next.header.SSRC]
        if !ok { pool.Put(next.payload); continue }        -- dropped, budget untouched
        n, err := writer.Write(...); budget -= n }                                        *)
Fixpoint lb_drain (w : list (Z * Z)) (budget : Z) (q : list (Z * Z)) (calls : list (Z * Z))
  : list (Z * Z) * list (Z * Z) :=
  match q with
  | [] => ([], calls)
  | (s, sz) :: t =>
      if budget >? 0 then
        match aget s w with
        | None => lb_drain w budget t calls
        | Some k => lb_drain w (budget - (if k =? 1 then 12 + sz else 0)) t (lb_bump s calls)
        end
      else (q, calls)
  end.

(* the same loop when the head is only taken out once a writer was found and the loop is left
   otherwise (NOT the code: the shape of a head-of-line block, see C12_leakybucket_headblock_refuted) *)
Fixpoint lb_drain_block (w : list (Z * Z)) (budget : Z) (q : list (Z * Z)) (calls : list (Z * Z))
  : list (Z * Z) * list (Z * Z) :=
  match q with
  | [] => ([], calls)
  | (s, sz) :: t =>
      if budget >? 0 then
        match aget s w with
        | None => (q, calls)
        | Some k => lb_drain_block w (budget - (if k =? 1 then 12 + sz else 0)) t (lb_bump s calls)
        end
      else (q, calls)
  end.

Definition lbs_step_gen (drain : list (Z * Z) -> Z -> list (Z * Z) -> list (Z * Z) -> list (Z * Z) * list (Z * Z))
  (st : lbs) (o : lbs_op) : lbs :=
  match o with
  | LbAdd s k => {| lb_q := lb_q st; lb_w := aset s k (lb_w st); lb_closed := lb_closed st;
                    lb_calls := lb_calls st; lb_dirty := lb_dirty st |}
  | LbRemove s => {| lb_q := lb_q st; lb_w := adel s (lb_w st); lb_closed := lb_closed st;
                     lb_calls := lb_calls st; lb_dirty := addset s (lb_dirty st) |}
  | LbEnq s sz =>
      (* Write: payloads above maxPayloadLen (1460) are refused, a closed pacer refuses everything *)
      if lb_closed st || (sz <? 0) || (sz >? 1460) then st
      else {| lb_q := lb_q st ++ [(s, sz)]; lb_w := lb_w st; lb_closed := false; lb_calls := lb_calls st;
              lb_dirty := match aget s (lb_w st) with None => addset s (lb_dirty st) | Some _ => lb_dirty st end |}
  | LbRelease b =>
      if lb_closed st then st
      else let r := drain (lb_w st) b (lb_q st) (lb_calls st) in
           {| lb_q := fst r; lb_w := lb_w st; lb_closed := false; lb_calls := snd r; lb_dirty := lb_dirty st |}
  | LbClose => {| lb_q := lb_q st; lb_w := lb_w st; lb_closed := true; lb_calls := lb_calls st; lb_dirty := lb_dirty st |}
  end.
Definition lbs_step := lbs_step_gen lb_drain.
Definition lbs_step_block := lbs_step_gen lb_drain_block.

Definition lb_qbytes (q : list (Z * Z)) : Z := fold_right (fun p a => 12 + snd p + a) 0 q.
Definition lbs_enqs (ops : list lbs_op) : Z :=
  fold_right (fun o a => match o with LbEnq _ _ => 1 + a | _ => a end) 0 ops.
Definition lb_clean_calls (st : lbs) : Z :=
  fold_right (fun p a => if memZ (fst p) (lb_dirty st) then a else snd p + a) 0 (lb_calls st).
Definition lbs_sizes (st : lbs) : list Z := [zlen (lb_q st); lb_clean_calls st].

(* history of the head-of-line block: stream 2 is registered, ONE packet of an SSRC without writer
   is queued, then n times (a packet of stream 2, a tick with budget b) *)
Fixpoint lbs_block_hist (b : Z) (n : nat) : list lbs_op :=
  match n with O => [] | S k => LbEnq 2 100 :: LbRelease b :: lbs_block_hist b k end.

(* ====================================================================== *)
(* B. pacing interceptor. burst():  if interval == 0 { interval = 1ms }
        f := float64(1000 / interval.Milliseconds());  max(8*1500, int(float64(rate)/f))
   (interval in whole milliseconds, 1 <= interval <= 1000, 0 <= rate < 2^53: the float division
   truncated is the integer quotient). *)
Definition pc_burst (rate intervalMs : Z) : Z :=
  let iv := if intervalMs =? 0 then 1 else intervalMs in Z.max 12000 (rate / (1000 / iv)).

(* what the limiter was given: NewInterceptor: pacerFactory(initialRate, burst(initialRate, interval));
   setRate(r): limit.SetRate(r, burst(r, interval)).  State of the correspondence: packets held
   (accepted - forwarded), rate, burst. *)
Inductive pcr_op := PcEnq | PcSetRate (r : Z) | PcRelease.
Record pcr := { pc_held : Z; pc_rate : Z; pc_depth : Z; pc_iv : Z }.
Definition pcr_init (rate iv : Z) : pcr := {| pc_held := 0; pc_rate := rate; pc_depth := pc_burst rate iv; pc_iv := iv |}.
Definition pcr_step (st : pcr) (o : pcr_op) : pcr :=
  match o with
  | PcEnq => {| pc_held := pc_held st + 1; pc_rate := pc_rate st; pc_depth := pc_depth st; pc_iv := pc_iv st |}
  | PcSetRate r => {| pc_held := pc_held st; pc_rate := r; pc_depth := pc_burst r (pc_iv st); pc_iv := pc_iv st |}
  | PcRelease => {| pc_held := 0; pc_rate := pc_rate st; pc_depth := pc_depth st; pc_iv := pc_iv st |}
  end.
Definition pcr_sizes (st : pcr) : list Z := [pc_held st; pc_rate st; pc_depth st].

(* The release loop of one tick on a token bucket (bits):
     for len(queue) > 0 && limit.Budget(now) > 8*len(queue[0]) { limit.AllowN(now, 8*len); pop; write }
   Budget = tokens at `now` = min(burst, tokens + rate * elapsed).  One tick: R = rate * interval bits
   are added (ticks exactly one interval apart), the packets that came through the hand-off channel
   since the previous tick are behind the backlog.  State = (tokens, backlog in bits per packet). *)
Fixpoint pc_loop (tokens : Z) (q : list Z) : Z * list Z :=
  match q with
  | [] => (tokens, [])
  | b :: t => if tokens >? b then pc_loop (tokens - b) t else (tokens, q)
  end.
Definition pc_tick (R depth : Z) (st : Z * list Z) (arrivals : list Z) : Z * list Z :=
  pc_loop (Z.min depth (fst st + R)) (snd st ++ arrivals).
Definition zsum (l : list Z) : Z := fold_right Z.add 0 l.
