(* Model of pkg/jitterbuffer/jitter_buffer.go on top of the priority queue.

   The buffer logic is written once, generically over a queue implementation
   ([pq_ops]); it is instantiated with the pointer-level queue of
   Model/PriorityQueue.v ([cjb_*], what the correspondence check runs) and with
   the abstract list queue ([ajb_*], what the history theorems are proved on;
   Proofs/JitterBufferProofs.v shows the two produce the same outputs).

   Packet identity: every Push allocates a fresh object id ([jnextid]), so "the
   very packet object that was pushed" and "at most once" are statements about
   ids.  The mutex is not modelled (every public method holds it for its whole
   body; single caller). *)
From IV Require Import Base.Word Model.PriorityQueue.

Record pq_ops (Q : Type) : Type := mkOps {
  o_len : Q -> Z;
  o_push : Q -> option packet -> Z -> Res Q;
  o_find : Q -> Z -> Res (option packet);
  o_popat : Q -> key -> Res (option packet * Q);
  o_clear : Q -> Res Q
}.
Arguments o_len {Q}. Arguments o_push {Q}. Arguments o_find {Q}.
Arguments o_popat {Q}. Arguments o_clear {Q}.

Definition ptr_ops : pq_ops pq := mkOps pq pq_length pq_push pq_find pq_popat pq_clear.
Definition list_ops : pq_ops aq :=
  mkOps aq aq_len (fun l v p => Ok (aq_push l v p)) aq_find aq_popat (fun _ => Ok []).

(* the public operations *)
Inductive op : Type :=
| OPush (sq ts : Z)        (* Push(&rtp.Packet{SequenceNumber: sq, Timestamp: ts}) *)
| OPop                     (* Pop() *)
| OPopAtSeq (sq : Z)       (* PopAtSequence(sq) *)
| OPopAtTs (ts : Z)        (* PopAtTimestamp(ts) *)
| OPeek (ph : bool)        (* Peek(ph) *)
| OPeekAtSeq (sq : Z)      (* PeekAtSequence(sq) *)
| OSetHead (h : Z)         (* SetPlayoutHead(h) *)
| OHead                    (* PlayoutHead() *)
| OClear (reset : bool).   (* Clear(reset) *)

(* what the caller sees *)
Inductive out : Type :=
| RPkt (id sq ts : Z)      (* a packet and a nil error *)
| RNil                     (* nil packet and nil error *)
| RErr (e : Z)
| RUnit
| RHead (h : Z)
| RPanic
| RDiverge.

(* events delivered to listeners *)
Definition EvStartBuffering : Z := 1.
Definition EvBeginPlayback : Z := 2.
Definition EvBufferUnderflow : Z := 3.
Definition EvBufferOverflow : Z := 4.

Section Generic.
Context {Q : Type} (O : pq_ops Q).

Record jb : Type := mkJB {
  jpackets : Q;
  jmin : Z;            (* minStartCount uint16 *)
  joverflow : Z;       (* overflowLen uint16 *)
  jlast : Z;           (* lastSequence uint16 *)
  jhead : Z;           (* playoutHead uint16 *)
  jready : bool;       (* playoutReady *)
  jemit : bool;        (* state == Emitting *)
  jooo : Z; junder : Z; jover : Z;   (* stats, uint32 *)
  jnextid : Z          (* next fresh packet object id (ghost) *)
}.

(* New(WithMinimumPacketCount(min)) *)
Definition jb_new (q0 : Q) (min : Z) : jb :=
  mkJB q0 min 100 0 0 false false 0 0 0 0.

Definition with_packets (s : jb) (q : Q) : jb :=
  mkJB q (jmin s) (joverflow s) (jlast s) (jhead s) (jready s) (jemit s) (jooo s) (junder s) (jover s) (jnextid s).

(* updateState *)
Definition update_state (s : jb) : jb * list Z :=
  if (o_len O (jpackets s) >=? jmin s) && negb (jemit s) then
    (mkJB (jpackets s) (jmin s) (joverflow s) (jlast s) (jhead s) true true (jooo s) (junder s) (jover s) (jnextid s),
     [EvBeginPlayback])
  else (s, []).

Definition out_of (w : option packet) : out :=
  match w with Some p => RPkt (pid p) (pseq p) (pts p) | None => RNil end.

(* the error path shared by Pop/PopAtSequence/PopAtTimestamp *)
Definition underflow (s : jb) (e : Z) : jb * out * list Z :=
  (mkJB (jpackets s) (jmin s) (joverflow s) (jlast s) (jhead s) (jready s) (jemit s)
        (jooo s) (u32 (junder s + 1)) (jover s) (jnextid s),
   RErr e, [EvBufferUnderflow]).

Definition stuck (s : jb) {A} (r : Res A) : jb * out * list Z :=
  (s, match r with Diverge => RDiverge | _ => RPanic end, []).

Definition jb_step (s : jb) (o : op) : jb * out * list Z :=
  match o with
  | OPush sq ts =>
      let len := o_len O (jpackets s) in
      let ev1 := if len =? 0 then [EvStartBuffering] else [] in
      let '(over', ev2) := if len >? joverflow s then (u32 (jover s + 1), [EvBufferOverflow])
                           else (jover s, []) in
      let head' := if negb (jready s) && (len =? 0) then sq else jhead s in
      (* updateStats *)
      let ooo' := if (len >? 0) && negb (sq =? add16 (jlast s) 1) then u32 (jooo s + 1) else jooo s in
      let p := mkPkt (jnextid s) sq ts in
      match o_push O (jpackets s) (Some p) sq with
      | Ok q' =>
          let s1 := mkJB q' (jmin s) (joverflow s) sq head' (jready s) (jemit s)
                         ooo' (junder s) over' (jnextid s + 1) in
          let '(s2, ev3) := update_state s1 in
          (s2, RUnit, ev1 ++ ev2 ++ ev3)
      | r => stuck s r
      end
  | OPop =>
      if negb (jemit s) then (s, RErr ErrPopWhileBuffering, [])
      else
        match o_popat O (jpackets s) (KSeq (jhead s)) with
        | Ok (w, q') =>
            let s1 := mkJB q' (jmin s) (joverflow s) (jlast s) (add16 (jhead s) 1) (jready s) (jemit s)
                           (jooo s) (junder s) (jover s) (jnextid s) in
            let '(s2, ev) := update_state s1 in
            (s2, out_of w, ev)
        | Err e => underflow s e
        | r => stuck s r
        end
  | OPopAtSeq sq =>
      if negb (jemit s) then (s, RErr ErrPopWhileBuffering, [])
      else
        match o_popat O (jpackets s) (KSeq sq) with
        | Ok (w, q') =>
            let s1 := mkJB q' (jmin s) (joverflow s) (jlast s) (add16 (jhead s) 1) (jready s) (jemit s)
                           (jooo s) (junder s) (jover s) (jnextid s) in
            let '(s2, ev) := update_state s1 in
            (s2, out_of w, ev)
        | Err e => underflow s e
        | r => stuck s r
        end
  | OPopAtTs ts =>
      if negb (jemit s) then (s, RErr ErrPopWhileBuffering, [])
      else
        match o_popat O (jpackets s) (KTs ts) with
        | Ok (w, q') =>
            let '(s2, ev) := update_state (with_packets s q') in
            (s2, out_of w, ev)
        | Err e => underflow s e
        | r => stuck s r
        end
  | OPeek ph =>
      if o_len O (jpackets s) <? 1 then (s, RErr ErrBufferUnderrun, [])
      else
        match o_find O (jpackets s) (if ph && jemit s then jhead s else jlast s) with
        | Ok w => (s, out_of w, [])
        | Err e => (s, RErr e, [])
        | r => stuck s r
        end
  | OPeekAtSeq sq =>
      match o_find O (jpackets s) sq with
      | Ok w => (s, out_of w, [])
      | Err e => (s, RErr e, [])
      | r => stuck s r
      end
  | OSetHead h =>
      (mkJB (jpackets s) (jmin s) (joverflow s) (jlast s) h (jready s) (jemit s)
            (jooo s) (junder s) (jover s) (jnextid s), RUnit, [])
  | OHead => (s, RHead (jhead s), [])
  | OClear reset =>
      match o_clear O (jpackets s) with
      | Ok q' =>
          if reset then
            (* lastSequence = 0; state = Buffering; playoutReady = false (fix: commit);
               stats = Stats{0,0,0}; minStartCount = 50 *)
            (mkJB q' 50 (joverflow s) 0 (jhead s) false false 0 0 0 (jnextid s), RUnit, [])
          else (with_packets s q', RUnit, [])
      | r => stuck s r
      end
  end.

(* run a whole history; after a panic/non-termination the object is wedged
   (the mutex stays locked): the run stops there *)
Fixpoint jb_run (s : jb) (ops : list op) : list (out * list Z) :=
  match ops with
  | [] => []
  | o :: tl =>
      let '(s', r, ev) := jb_step s o in
      match r with
      | RPanic | RDiverge => [(r, ev)]
      | _ => (r, ev) :: jb_run s' tl
      end
  end.

(* final state of a history (ignoring wedging; used by the proofs) *)
Fixpoint jb_exec (s : jb) (ops : list op) : jb :=
  match ops with
  | [] => s
  | o :: tl => jb_exec (fst (fst (jb_step s o))) tl
  end.

End Generic.

Arguments jb Q : clear implicits.

(* the two instances *)
Definition cjb_new (min : Z) : jb pq := jb_new pq_new min.
Definition cjb_step := @jb_step pq ptr_ops.
Definition cjb_run (min : Z) (ops : list op) : list (out * list Z) := jb_run ptr_ops (cjb_new min) ops.

Definition ajb_new (min : Z) : jb aq := jb_new ([] : aq) min.
Definition ajb_step := @jb_step aq list_ops.
Definition ajb_run (min : Z) (ops : list op) : list (out * list Z) := jb_run list_ops (ajb_new min) ops.
