(* C09, round 4: SEVERAL instances of a stateful component in one process.

   pkg/rtpfb: InterceptorFactory.NewInterceptor(id) builds every Interceptor with
   its own newHistory() (interceptor.go); one factory (one registry) serves several
   PeerConnections.  internal/cc: every NewFeedbackAdapter() has its own
   feedbackHistory.  A program therefore performs an INTERLEAVING of operations on
   several instances; an operation names the instance it is performed on.

   The machine below is generic in the per-instance transition function [step] and
   the state [init] a fresh instance starts in.  The table of instances is an
   association list (assignment conses, lookup takes the first entry, an instance
   that has not been used yet is in the state [init]). *)
From IV Require Import Base.Word.

Section Multi.
  Context {St Opn Out : Type}.
  Variable step : St -> Opn -> St * Out.
  Variable init : St.

  Fixpoint mi_get (m : list (Z * St)) (i : Z) : St :=
    match m with
    | [] => init
    | (j, s) :: t => if j =? i then s else mi_get t i
    end.

  (* the operations of a program, each on the instance it names; one output per operation *)
  Fixpoint mi_run (m : list (Z * St)) (ops : list (Z * Opn)) : list Out :=
    match ops with
    | [] => []
    | (i, o) :: t => let '(s', r) := step (mi_get m i) o in r :: mi_run ((i, s') :: m) t
    end.

  (* the table of instances after the program *)
  Fixpoint mi_final (m : list (Z * St)) (ops : list (Z * Opn)) : list (Z * St) :=
    match ops with
    | [] => m
    | (i, o) :: t => mi_final ((i, fst (step (mi_get m i) o)) :: m) t
    end.

  (* one instance alone *)
  Fixpoint final1 (s : St) (ops : list Opn) : St :=
    match ops with
    | [] => s
    | o :: t => final1 (fst (step s o)) t
    end.

  Fixpoint run1 (s : St) (ops : list Opn) : list Out :=
    match ops with
    | [] => []
    | o :: t => let '(s', r) := step s o in r :: run1 s' t
    end.
End Multi.

(* what instance [i] did, and what it answered *)
Definition mi_proj {A} (i : Z) (ops : list (Z * A)) : list A :=
  map snd (filter (fun e => fst e =? i) ops).

Fixpoint mi_proj_outs {A R} (i : Z) (ops : list (Z * A)) (outs : list R) : list R :=
  match ops, outs with
  | (j, _) :: t, r :: outs' => (if j =? i then [r] else []) ++ mi_proj_outs i t outs'
  | _, _ => []
  end.
