(* Model for C11 (lifecycle).  ONE labelled transition system for the lifecycle patterns
   of the interceptors of /repo, instantiated per interceptor by a feature record.

   What the pieces mirror (statement level):
     closed            the `close chan struct{}` of every interceptor (close(ch) = closed := true)
     loops             the goroutines started by BindRTCPWriter (`wg.Add(1); go x.loop(writer)`,
                       nack/generator_interceptor.go:82-97, report/*_interceptor.go, twcc, rfc8888,
                       intervalpli) or by the constructor (pacing NewInterceptor, gcc
                       newLeakyBucketPacer, packetdump run()).  One loop iteration is split into its
                       select outcomes: tick (snapshot of what to write, taken under the table lock),
                       one write per snapshot entry, receive from the hand-off channel, observe close.
                       A third kind of goroutine is the one-shot `go n.resendPackets(nack)` the nack
                       responder starts per incoming NACK (LOnce; f_spawn says whether it is counted by
                       the WaitGroup and refused once closed).
     chan              the hand-off channel: twcc/rfc8888 packetChan, packetdump rtpChan,
                       intervalpli immediatePLINeeded, pacing queue, leaky bucket list
     table             the per-SSRC map (nack receiveLogs, report streams, intervalpli streams,
                       stats recorders, flexfec streams, rfc8888 recorder.streams); the nat is an
                       abstract per-stream state: number of packets fed into the entry since it was
                       created (0 = fresh)
     blocked           callers parked at a blocking point of an API call: channel send, wg.Wait()
   Ghost state (not in the code, used to state the property): close_ret, dead, flags on snapshot
   entries, violation counters late_close / late_unbind, panicked.

   Atomicity assumption (trusted): an API call runs atomically up to its first blocking point;
   a non-blocking call is one step.  Writes to the next RTCP/RTP writer always return (a failing
   writer returns an error, which every loop logs and ignores: no state change). *)
From IV Require Import Base.Word.

Inductive loop_kind := LoopNone | LoopOnBindW | LoopAtNew.
(* ChUnbuf:   unbuffered, plain send                       (rfc8888 before its fix)
   ChUnbufSel unbuffered, `select { case ch <- p: case <-close: }` (twcc, packetdump, rfc8888 fixed)
   ChBuf1     one slot, plain send                          (intervalpli ForcePLI before its fix)
   ChBufNB    buffered, send never blocks                   (pacing: default branch; leaky bucket:
              list under a mutex; intervalpli after its fix: merge into the slot) *)
Inductive chan_kind := ChNone | ChUnbuf | ChUnbufSel | ChBuf1 | ChBufNB.
Inductive send_site := SendNever | SendOnTraffic | SendOnBind.
Inductive close_kind := CloseIdem | CloseRaw.   (* CloseRaw: close(ch) without an isClosed test *)
Inductive table_kind := TNone | TPerSsrc | TShared.  (* TShared: one state for all streams (jitter buffer) *)
(* one goroutine per incoming NACK (nack responder).  SpawnWaited: `startResend` - under the mutex
   `if closed return; wg.Add(1); go ...`; SpawnUnwaited: plain `go n.resendPackets(nack)`, no closed test,
   Close does not wait (responder before its fix) *)
Inductive spawn_kind := SpawnNone | SpawnWaited | SpawnUnwaited.

Record cfg := mkCfg {
  f_loop : loop_kind;
  f_wg : bool;               (* Close waits for the loops (WaitGroup) *)
  f_chan : chan_kind;
  f_site : send_site;        (* which API call sends on the hand-off channel *)
  f_recv_emits : bool;       (* the loop writes what it received (PLI, paced packet) *)
  f_close : close_kind;
  f_table : table_kind;
  f_unbind : bool;           (* Unbind* deletes / resets the entry *)
  f_bind_resets : bool;      (* Bind* installs a fresh entry even if one exists *)
  f_emit_needs_traffic : bool; (* a tick writes about a stream only if its state is not fresh *)
  f_spawn : spawn_kind       (* an incoming NACK about a registered stream is answered by a new goroutine *)
}.

(* WSend x is_bind fl: parked in the channel send of Bind x / Traffic x; fl is the flag of the item it will
   hand over (set by an Unbind x that overtakes the parked caller: the item is then already in flight) *)
Inductive wait := WSend (x : Z) (is_bind : bool) (fl : bool) | WWg.

(* LOnce: a one-shot goroutine (resend of the packets a NACK asks for): it writes its pending list and is gone *)
Inductive lstate := LIdle | LWrite (pending : list (Z * bool)) | LOnce (pending : list (Z * bool)).
(* a pending entry (x, fl): the loop is about to write something about SSRC x; fl = true iff the
   entry was produced before the latest Unbind of x returned ("already in flight"), or the entry is not
   feedback about a stream at all (a packet of the caller of Traffic; the transport-wide report -1) *)

Record st := mkSt {
  closed : bool;
  close_ret : bool;                 (* ghost: a Close call has returned *)
  loops : list (nat * lstate);
  next_lid : nat;
  chanq : list (Z * bool);
  table : list (Z * nat);
  dead : list Z;                    (* ghost: Unbind returned, not bound again since *)
  blocked : list (nat * wait);
  panicked : bool;
  emitted : list Z;                 (* ghost: every write, oldest first *)
  late_close : nat;                 (* ghost: writes after a Close returned *)
  late_unbind : list Z              (* ghost: x for every write about x produced after Unbind x returned *)
}.

(* ORtcp x: an incoming NACK about SSRC x, read through the reader returned by BindRTCPReader *)
Inductive op := OBindW | OBindR | OBind (x : Z) | OUnbind (x : Z) | OTraffic (x : Z) | OClose | ORtcp (x : Z).

Inductive label :=
| Call (t : nat) (o : op)
| Resume (t : nat)
| LTick (i : nat) | LEmit (i : nat) | LRecv (i : nat) | LExit (i : nat).

Definition init (c : cfg) : st :=
  mkSt false false
       (match f_loop c with LoopAtNew => [(0%nat, LIdle)] | _ => [] end)
       1 [] (match f_table c with TShared => [(0, 0%nat)] | _ => [] end) [] [] false [] 0 [].

(* ---- small list helpers (kept here so that proofs can unfold them) ---- *)
Definition key (c : cfg) (x : Z) : Z := match f_table c with TShared => 0 | _ => x end.

Fixpoint tfind (x : Z) (t : list (Z * nat)) : option nat :=
  match t with [] => None | (y, n) :: tl => if y =? x then Some n else tfind x tl end.
Fixpoint tremove (x : Z) (t : list (Z * nat)) : list (Z * nat) :=
  match t with [] => [] | (y, n) :: tl => if y =? x then tremove x tl else (y, n) :: tremove x tl end.
Definition tset (x : Z) (n : nat) (t : list (Z * nat)) : list (Z * nat) := (x, n) :: tremove x t.
Definition tbump (x : Z) (t : list (Z * nat)) : list (Z * nat) :=
  map (fun e => if fst e =? x then (fst e, S (snd e)) else e) t.
Definition zmem (x : Z) (l : list Z) : bool := existsb (Z.eqb x) l.
Definition zremove (x : Z) (l : list Z) : list Z := filter (fun y => negb (y =? x)) l.
Definition flag (x : Z) (l : list (Z * bool)) : list (Z * bool) :=
  map (fun e => if fst e =? x then (fst e, true) else e) l.
Definition lflag (x : Z) (l : lstate) : lstate :=
  match l with LIdle => LIdle | LWrite p => LWrite (flag x p) | LOnce p => LOnce (flag x p) end.
Definition norm (p : list (Z * bool)) : lstate := match p with [] => LIdle | _ => LWrite p end.
Definition wflag (x : Z) (w : wait) : wait :=
  match w with WSend y b fl => if y =? x then WSend y b true else w | WWg => WWg end.

Fixpoint lfind (i : nat) (ls : list (nat * lstate)) : option lstate :=
  match ls with [] => None | (j, l) :: tl => if Nat.eqb j i then Some l else lfind i tl end.
Fixpoint lset (i : nat) (l : lstate) (ls : list (nat * lstate)) : list (nat * lstate) :=
  match ls with [] => [] | (j, l0) :: tl => if Nat.eqb j i then (j, l) :: tl else (j, l0) :: lset i l tl end.
Fixpoint ldel (i : nat) (ls : list (nat * lstate)) : list (nat * lstate) :=
  match ls with [] => [] | (j, l0) :: tl => if Nat.eqb j i then tl else (j, l0) :: ldel i tl end.
Fixpoint first_idle (ls : list (nat * lstate)) : option nat :=
  match ls with [] => None | (j, LIdle) :: _ => Some j | _ :: tl => first_idle tl end.

Fixpoint bfind (t : nat) (b : list (nat * wait)) : option wait :=
  match b with [] => None | (u, w) :: tl => if Nat.eqb u t then Some w else bfind t tl end.
Fixpoint bdel (t : nat) (b : list (nat * wait)) : list (nat * wait) :=
  match b with [] => [] | (u, w) :: tl => if Nat.eqb u t then bdel t tl else (u, w) :: bdel t tl end.

(* what one tick decides to write: one entry per stream of the table (the snapshot is taken under
   the table lock), or one transport-wide report (SSRC -1, not about any stream: flag true = exempt)
   when there is no per-stream table *)
Definition snapshot (c : cfg) (s : st) : list (Z * bool) :=
  match f_table c with
  | TPerSsrc =>
      map (fun e => (fst e, false))
          (filter (fun e => if f_emit_needs_traffic c then negb (Nat.eqb (snd e) 0) else true) (table s))
  | _ => [(-1, true)]
  end.

(* ---- state updates ---- *)
Definition set_loops (s : st) (ls : list (nat * lstate)) : st :=
  mkSt (closed s) (close_ret s) ls (next_lid s) (chanq s) (table s) (dead s) (blocked s) (panicked s)
       (emitted s) (late_close s) (late_unbind s).
Definition set_chan (s : st) (q : list (Z * bool)) : st :=
  mkSt (closed s) (close_ret s) (loops s) (next_lid s) q (table s) (dead s) (blocked s) (panicked s)
       (emitted s) (late_close s) (late_unbind s).
Definition set_table (s : st) (t : list (Z * nat)) : st :=
  mkSt (closed s) (close_ret s) (loops s) (next_lid s) (chanq s) t (dead s) (blocked s) (panicked s)
       (emitted s) (late_close s) (late_unbind s).
Definition set_blocked (s : st) (b : list (nat * wait)) : st :=
  mkSt (closed s) (close_ret s) (loops s) (next_lid s) (chanq s) (table s) (dead s) b (panicked s)
       (emitted s) (late_close s) (late_unbind s).

(* the channel send of an API call.  Some s' = completed, None = must park.  fl is the flag of the item:
   Bind x hands over a request about x (false); Traffic x hands over the caller's own packet, which is
   not feedback about the stream (true = exempt) *)
Definition do_send (c : cfg) (s : st) (x : Z) (fl : bool) : option st :=
  match f_chan c with
  | ChNone => Some s
  | ChUnbuf =>
      match first_idle (loops s) with
      | Some i => Some (if f_recv_emits c then set_loops s (lset i (LWrite [(x, fl)]) (loops s)) else s)
      | None => None
      end
  | ChUnbufSel =>
      match first_idle (loops s) with
      | Some i => Some (if f_recv_emits c then set_loops s (lset i (LWrite [(x, fl)]) (loops s)) else s)
      | None => if closed s then Some s else None
      end
  | ChBuf1 => if (length (chanq s) <? 1)%nat then Some (set_chan s (chanq s ++ [(x, fl)])) else None
  | ChBufNB => if closed s then Some s else Some (set_chan s (chanq s ++ [(x, fl)]))
  end.

Definition bind_table (c : cfg) (x : Z) (t : list (Z * nat)) : list (Z * nat) :=
  match f_table c with
  | TNone => t
  | _ => if f_bind_resets c then tset (key c x) 0 t
         else match tfind (key c x) t with Some _ => t | None => tset (key c x) 0 t end
  end.

Definition unbind_table (c : cfg) (x : Z) (t : list (Z * nat)) : list (Z * nat) :=
  if f_unbind c then match f_table c with TShared => [(0, 0%nat)] | _ => tremove x t end else t.

(* jitter buffer Close: buffer.Clear(true), like its Unbind; the per-SSRC maps are left alone by Close
   (the nack responder empties its map, which no later call can observe differently from a fresh Bind) *)
Definition close_table (c : cfg) (t : list (Z * nat)) : list (Z * nat) :=
  match f_table c with TShared => if f_unbind c then [(0, 0%nat)] else t | _ => t end.

Definition send_or_park (c : cfg) (s : st) (t : nat) (x : Z) (is_bind : bool) (fl : bool) : st :=
  match do_send c s x fl with
  | Some s' => s'
  | None => set_blocked s ((t, WSend x is_bind fl) :: blocked s)
  end.

(* the stream a NACK asks about is registered (only interceptors with a per-SSRC table answer NACKs) *)
Definition registered (c : cfg) (s : st) (x : Z) : option nat :=
  match f_table c with TPerSsrc => tfind x (table s) | _ => None end.

(* does an incoming NACK start a goroutine in this state? *)
Definition spawns (c : cfg) (s : st) : bool :=
  match f_spawn c with SpawnNone => false | SpawnWaited => negb (closed s) | SpawnUnwaited => true end.

Definition call (c : cfg) (s : st) (t : nat) (o : op) : st :=
  match o with
  | OBindW =>
      match f_loop c with
      | LoopOnBindW =>
          if closed s then s
          else mkSt (closed s) (close_ret s) (loops s ++ [(next_lid s, LIdle)]) (S (next_lid s)) (chanq s)
                    (table s) (dead s) (blocked s) (panicked s) (emitted s) (late_close s) (late_unbind s)
      | _ => s
      end
  | OBindR => s
  | OBind x =>
      let s1 := mkSt (closed s) (close_ret s) (loops s) (next_lid s) (chanq s) (bind_table c x (table s))
                     (zremove x (dead s)) (blocked s) (panicked s) (emitted s) (late_close s) (late_unbind s) in
      match f_site c with SendOnBind => send_or_park c s1 t x true false | _ => s1 end
  | OUnbind x =>
      mkSt (closed s) (close_ret s) (map (fun e => (fst e, lflag x (snd e))) (loops s)) (next_lid s)
           (flag x (chanq s)) (unbind_table c x (table s)) (x :: zremove x (dead s))
           (map (fun e => (fst e, wflag x (snd e))) (blocked s)) (panicked s)
           (emitted s) (late_close s) (late_unbind s)
  | OTraffic x =>
      let s1 := set_table s (tbump (key c x) (table s)) in
      match f_site c with SendOnTraffic => send_or_park c s1 t x false true | _ => s1 end
  | OClose =>
      let pan := match f_close c with CloseRaw => closed s | CloseIdem => false end in
      if pan then mkSt true (close_ret s) (loops s) (next_lid s) (chanq s) (close_table c (table s)) (dead s) (blocked s) true
                       (emitted s) (late_close s) (late_unbind s)
      else if f_wg c && negb (match loops s with [] => true | _ => false end)
      then mkSt true (close_ret s) (loops s) (next_lid s) (chanq s) (close_table c (table s)) (dead s) ((t, WWg) :: blocked s)
                (panicked s) (emitted s) (late_close s) (late_unbind s)
      else mkSt true true (loops s) (next_lid s) (chanq s) (close_table c (table s)) (dead s) (blocked s)
                (panicked s) (emitted s) (late_close s) (late_unbind s)
  | ORtcp x =>
      if spawns c s then
        match registered c s x with
        | None => s
        | Some _ =>
            mkSt (closed s) (close_ret s) (loops s ++ [(next_lid s, LOnce [(x, false)])]) (S (next_lid s))
                 (chanq s) (table s) (dead s) (blocked s) (panicked s) (emitted s) (late_close s)
                 (late_unbind s)
        end
      else s
  end.

Definition resume (c : cfg) (s : st) (t : nat) : option st :=
  match bfind t (blocked s) with
  | None => None
  | Some WWg =>
      match loops s with
      | [] => Some (mkSt (closed s) true [] (next_lid s) (chanq s) (table s) (dead s) (bdel t (blocked s))
                         (panicked s) (emitted s) (late_close s) (late_unbind s))
      | _ => None
      end
  | Some (WSend x _ fl) =>
      match do_send c (set_blocked s (bdel t (blocked s))) x fl with
      | Some s' => Some s'
      | None => None
      end
  end.

(* one write about x with flag fl; ls = the loops afterwards *)
Definition emit_ls (s : st) (ls : list (nat * lstate)) (x : Z) (fl : bool) : st :=
  mkSt (closed s) (close_ret s) ls (next_lid s) (chanq s) (table s) (dead s)
       (blocked s) (panicked s) (emitted s ++ [x])
       (if close_ret s then S (late_close s) else late_close s)
       (if zmem x (dead s) && negb fl then x :: late_unbind s else late_unbind s).
Definition emit (s : st) (i : nat) (x : Z) (fl : bool) (rest : list (Z * bool)) : st :=
  emit_ls s (lset i (norm rest) (loops s)) x fl.
(* a one-shot goroutine after a write: gone when nothing is left *)
Definition once_next (i : nat) (rest : list (Z * bool)) (ls : list (nat * lstate)) : list (nat * lstate) :=
  match rest with [] => ldel i ls | _ => lset i (LOnce rest) ls end.

(* the transition relation as a partial function: None = label not enabled in s *)
Definition step (c : cfg) (s : st) (l : label) : option st :=
  match l with
  | Call t o => match bfind t (blocked s) with Some _ => None | None => Some (call c s t o) end
  | Resume t => resume c s t
  | LTick i =>
      match lfind i (loops s) with
      | Some LIdle => Some (set_loops s (lset i (norm (snapshot c s)) (loops s)))
      | _ => None
      end
  | LEmit i =>
      match lfind i (loops s) with
      | Some (LWrite ((x, fl) :: rest)) => Some (emit s i x fl rest)
      | Some (LOnce ((x, fl) :: rest)) => Some (emit_ls s (once_next i rest (loops s)) x fl)
      | _ => None
      end
  | LRecv i =>
      match lfind i (loops s), chanq s with
      | Some LIdle, e :: q =>
          Some (set_chan (set_loops s (if f_recv_emits c then lset i (LWrite [e]) (loops s) else loops s)) q)
      | _, _ => None
      end
  | LExit i =>
      match lfind i (loops s) with
      | Some LIdle => if closed s then Some (set_loops s (ldel i (loops s))) else None
      | _ => None
      end
  end.

Fixpoint run (c : cfg) (s : st) (tr : list label) : option st :=
  match tr with
  | [] => Some s
  | l :: tl => match step c s l with Some s' => run c s' tl | None => None end
  end.

Definition reachable (c : cfg) (s : st) : Prop := exists tr, run c (init c) tr = Some s.

(* ---- safety predicates on feature records ---- *)
Definition close_safe (c : cfg) : bool :=
  (match f_loop c with LoopNone => true | _ => f_wg c end) &&
  (match f_spawn c with SpawnNone => true | SpawnWaited => f_wg c | SpawnUnwaited => false end).
Definition chan_safe (c : cfg) : bool :=
  match f_chan c with ChNone | ChUnbufSel | ChBufNB => true | _ => false end.
Definition close_idem (c : cfg) : bool :=
  match f_close c with CloseIdem => true | CloseRaw => false end.
Definition unbind_safe (c : cfg) : bool :=
  match f_table c with TNone => true | _ => f_unbind c end.
(* a rebind starts fresh if Bind installs a fresh entry, or if Unbind removed the old one *)
Definition rebind_safe (c : cfg) : bool :=
  match f_table c with TNone => true | TPerSsrc => f_bind_resets c || f_unbind c | TShared => f_bind_resets c end.
Definition safe_cfg (c : cfg) : bool :=
  close_safe c && chan_safe c && close_idem c && unbind_safe c && rebind_safe c.

(* ---- feature records of the interceptors (hand-assigned from the source, after the fix: commits) ---- *)
(*                                  loop        wg    chan       site          recvE close     table    unbind reset needsT *)
Definition nack_generator_cfg := mkCfg LoopOnBindW true  ChNone     SendNever     false CloseIdem TPerSsrc true  true  true SpawnNone.
Definition nack_responder_cfg := mkCfg LoopNone    true  ChNone     SendNever     false CloseIdem TPerSsrc true  true  false SpawnWaited.
Definition nack_responder_unfixed_cfg := mkCfg LoopNone false ChNone  SendNever     false CloseIdem TPerSsrc true  true  false SpawnUnwaited.
Definition report_receiver_cfg := mkCfg LoopOnBindW true ChNone     SendNever     false CloseIdem TPerSsrc true  true  false SpawnNone.
Definition report_sender_cfg  := mkCfg LoopOnBindW true  ChNone     SendNever     false CloseIdem TPerSsrc true  true  false SpawnNone.
Definition twcc_sender_cfg    := mkCfg LoopOnBindW true  ChUnbufSel SendOnTraffic false CloseIdem TNone    false false false SpawnNone.
Definition rfc8888_cfg        := mkCfg LoopOnBindW true  ChUnbufSel SendOnTraffic false CloseIdem TPerSsrc false false true SpawnNone.
Definition rfc8888_unfixed_cfg := mkCfg LoopOnBindW true ChUnbuf    SendOnTraffic false CloseIdem TPerSsrc false false true SpawnNone.
Definition intervalpli_cfg    := mkCfg LoopOnBindW true  ChBufNB    SendOnBind    true  CloseIdem TPerSsrc true  true  false SpawnNone.
Definition intervalpli_unfixed_cfg := mkCfg LoopOnBindW true ChBuf1 SendOnBind    true  CloseIdem TPerSsrc false true  false SpawnNone.
Definition stats_cfg          := mkCfg LoopNone    true  ChNone     SendNever     false CloseIdem TPerSsrc true  false false SpawnNone.
Definition stats_unfixed_cfg  := mkCfg LoopNone    true  ChNone     SendNever     false CloseIdem TPerSsrc false false false SpawnNone.
Definition packetdump_cfg     := mkCfg LoopAtNew   true  ChUnbufSel SendOnTraffic false CloseIdem TNone    false false false SpawnNone.
Definition pacing_cfg         := mkCfg LoopAtNew   true  ChBufNB    SendOnTraffic true  CloseIdem TNone    false false false SpawnNone.
Definition pacing_unfixed_cfg := mkCfg LoopAtNew   true  ChBufNB    SendOnTraffic true  CloseRaw  TNone    false false false SpawnNone.
(* gcc: the pacer keeps one writer per SSRC (LeakyBucketPacer.ssrcToWriter); since the fix: commit of the
   deepening round cc.Interceptor.UnbindLocalStream removes it; AddStream always replaces it *)
Definition gcc_cfg            := mkCfg LoopAtNew   true  ChBufNB    SendOnTraffic true  CloseIdem TPerSsrc true  true  false SpawnNone.
Definition gcc_unfixed_cfg    := mkCfg LoopAtNew   false ChBufNB    SendOnTraffic true  CloseRaw  TNone    false false false SpawnNone.
Definition jitterbuffer_cfg   := mkCfg LoopNone    true  ChNone     SendNever     false CloseIdem TShared  true  false false SpawnNone.
Definition flexfec_cfg        := mkCfg LoopNone    false ChNone     SendNever     false CloseIdem TPerSsrc true  true  false SpawnNone.
(* chain.go forwards every call to its members in order; the instance checked is Chain [nack generator; report receiver] *)
Definition chain_cfg          := mkCfg LoopOnBindW true  ChNone     SendNever     false CloseIdem TPerSsrc true  true  false SpawnNone.

(* ---- canonical sequential schedule (used by the correspondence only) ----
   After every API call of a script "time passes": every loop finishes what it is writing; if the
   close channel is closed it exits; otherwise it receives what is queued and ticks (writing
   everything); parked callers that became enabled resume. *)
Fixpoint drain_loop (c : cfg) (fuel : nat) (s : st) (i : nat) : st :=
  match fuel with
  | O => s
  | S f => match step c s (LEmit i) with Some s' => drain_loop c f s' i | None => s end
  end.

Definition loop_ids (s : st) : list nat := map fst (loops s).

Definition FUEL : nat := 64.

Definition loop_round (c : cfg) (s : st) (i : nat) : st :=
  let s := drain_loop c FUEL s i in
  match step c s (LExit i) with
  | Some s' => s'
  | None =>
      let s := match step c s (LRecv i) with Some s' => drain_loop c FUEL s' i | None => s end in
      match step c s (LTick i) with Some s' => drain_loop c FUEL s' i | None => s end
  end.

Definition resume_all (c : cfg) (s : st) : st :=
  fold_left (fun s t => match step c s (Resume t) with Some s' => s' | None => s end)
            (rev (map fst (blocked s))) s.

Definition settle1 (c : cfg) (s : st) : st :=
  resume_all c (fold_left (loop_round c) (loop_ids s) (resume_all c s)).

Definition settle (c : cfg) (s : st) : st := settle1 c (settle1 c (settle1 c s)).

Definition is_blocked (s : st) (t : nat) : bool := match bfind t (blocked s) with Some _ => true | None => false end.

(* one record per script step: outcome at the step (0 returned, 1 parked, 3 panicked), the state right
   after the call and the state after time has passed *)
Fixpoint exec (c : cfg) (s : st) (t : nat) (ops : list op) : list (nat * st * st) :=
  match ops with
  | [] => []
  | o :: tl =>
      match step c s (Call t o) with
      | Some s1 =>
          let s2 := settle c s1 in
          (if negb (panicked s) && panicked s1 then 3%nat else if is_blocked s2 t then 1%nat else 0%nat, s1, s2)
            :: exec c s2 (S t) tl
      | None => []
      end
  end.

Definition count_z (x : Z) (l : list Z) : nat := length (filter (Z.eqb x) l).

Definition is_bind_of (x : Z) (o : op) : bool := match o with OBind y => y =? x | _ => false end.

(* state in which the window of "Unbind x at step k" ends: just before the next Bind x, else the end *)
Fixpoint window_end (x : Z) (ops : list op) (steps : list (nat * st * st)) (cur : st) : st :=
  match ops, steps with
  | o :: ops', (_, _, s2) :: steps' => if is_bind_of x o then cur else window_end x ops' steps' s2
  | _, _ => cur
  end.

(* Observation of a script, as the harness records it.  Per step (outcome, aux):
   outcome 0 returned, 1 parked and released later, 2 parked for ever, 3 panicked;
   aux bit 0: Close - something was written after it returned; Unbind x - something about x was
              written that was not already in flight when it returned; Bind x - the stream's state is
              not fresh;
   aux bit 1: Unbind x - the stream's entry still exists.
   A final Close is appended by both sides. *)
Definition script_obs (c : cfg) (ops : list op) : list (nat * nat) :=
  let ops := ops ++ [OClose] in
  let steps := exec c (init c) 0 ops in
  let final := match rev steps with (_, _, s) :: _ => s | [] => init c end in
  (fix go (t : nat) (ops : list op) (steps : list (nat * st * st)) : list (nat * nat) :=
     match ops, steps with
     | o :: ops', (oc, s1, s2) :: steps' =>
         let oc' := if Nat.eqb oc 1 then (if is_blocked final t then 2%nat else 1%nat) else oc in
         let aux :=
           match o with
           | OClose => if Nat.eqb oc 0 && negb (Nat.eqb (late_close final) (late_close s1)) then 1%nat else 0%nat
           | OUnbind x =>
               let e := window_end x ops' steps' s2 in
               ((if Nat.eqb (count_z x (late_unbind e)) (count_z x (late_unbind s1)) then 0 else 1) +
                (match f_table c with
                 | TPerSsrc => match tfind x (table s1) with Some _ => 2 | None => 0 end
                 | _ => 0 end))%nat
           | OBind x =>
               match f_table c with
               | TNone => 0%nat
               | _ => match tfind (key c x) (table s1) with Some (S _) => 1%nat | _ => 0%nat end
               end
           | _ => 0%nat
           end in
         (oc', aux) :: go (S t) ops' steps'
     | _, _ => []
     end) 0%nat ops steps.
