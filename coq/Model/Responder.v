(* Model of pkg/nack/responder_interceptor.go through its public API:
   NewInterceptor (options ResponderSize, DisableCopy), BindLocalStream and the
   writer it returns, BindRTCPReader (one TransportLayerNack per Read),
   UnbindLocalStream, Close (after the fix "Close waits for retransmissions in
   progress and stops serving streams": flag [closed], BindLocalStream after
   Close passes the writer through, NACKs after Close start nothing).  Sequential semantics: the resend goroutine of a
   NACK has finished before the next operation (the harness waits for it);
   the concurrent reading is Model/ResendLts.v. *)
From IV Require Import Base.Word Model.RtpBuffer Model.PacketFactory.

(* interceptor.StreamInfo projection: SSRC, SSRCRetransmission,
   PayloadTypeRetransmission, streamSupportNack(info) *)
Record sinfo := mkSI { si_ssrc : Z; si_rtxssrc : Z; si_rtxpt : Z; si_nack : bool }.

(* what one BindLocalStream call created: the closure's captured info, stream
   (buffer + downstream writer).  hd_pass: the filter rejected the stream or
   the interceptor was already closed, and the downstream writer itself was
   returned (the stream is not registered). *)
Record handle := mkHd { hd_info : sinfo; hd_wid : Z; hd_buf : rbuf; hd_pass : bool }.

Record rstate := mkRS {
  rs_size : Z; rs_copy : bool;
  rs_handles : list handle;          (* by handle id = position *)
  rs_streams : list (Z * nat);       (* n.streams: SSRC -> handle id *)
  rs_seqr : Z;                       (* RTX sequencer of the packet factory *)
  rs_closed : bool }.                (* n.closed: Close has been called *)

Inductive op :=
| OBind (i : sinfo) (wid : Z)
| OWrite (hid : nat) (h : hdr) (pay : list Z)
| ONack (ssrc : Z) (pairs : list (Z * Z))
| OUnbind (ssrc : Z)
| OClose.

Definition emit := (Z * hdr * list Z)%type.       (* downstream writer id, header, payload *)
Definition out := (Z * list emit)%type.            (* error code of the call, downstream writes *)

Fixpoint amap_find {A} (k : Z) (m : list (Z * A)) : option A :=
  match m with [] => None | (k', v) :: r => if k =? k' then Some v else amap_find k r end.
Definition amap_remove {A} (k : Z) (m : list (Z * A)) : list (Z * A) :=
  filter (fun kv => negb (fst kv =? k)) m.
Definition amap_set {A} (k : Z) (v : A) (m : list (Z * A)) : list (Z * A) := (k, v) :: amap_remove k m.

Fixpoint upd_nth {A} (n : nat) (f : A -> A) (l : list A) : list A :=
  match l, n with
  | [], _ => []
  | x :: r, O => f x :: r
  | x :: r, S k => x :: upd_nth k f r
  end.

Definition hd_set_buf (b : rbuf) (h : handle) : handle := mkHd (hd_info h) (hd_wid h) b (hd_pass h).

(* rtcp.NackPair.Range: PacketID, then PacketID+i+1 for every set bit i *)
Definition nack_range (pid blp : Z) : list Z :=
  pid :: map (fun i => add16 pid (i + 1))
             (filter (fun i => negb ((blp / 2 ^ i) mod 2 =? 0)) (zrange 0 16)).

Definition nack_seqs (pairs : list (Z * Z)) : list Z :=
  flat_map (fun p => nack_range (fst p) (snd p)) pairs.

(* resendPackets for one stream: Get, Write(p.Header(), p.Payload()), Release *)
Definition resend (h : handle) (seqs : list Z) : list emit :=
  flat_map (fun seq => match rb_get (hd_buf h) seq with
                       | Some p => [(hd_wid h, rp_hdr p, rp_pay p)]
                       | None => [] end) seqs.

Definition empty_buf (size : Z) : rbuf := mkRB size [] 0 false.

Definition rstep (s : rstate) (o : op) : rstate * out :=
  match o with
  | OBind i wid =>
      if negb (si_nack i) || rs_closed s then
        (mkRS (rs_size s) (rs_copy s) (rs_handles s ++ [mkHd i wid (empty_buf (rs_size s)) true])
              (rs_streams s) (rs_seqr s) (rs_closed s), (0, []))
      else
        (mkRS (rs_size s) (rs_copy s) (rs_handles s ++ [mkHd i wid (empty_buf (rs_size s)) false])
              (amap_set (si_ssrc i) (length (rs_handles s)) (rs_streams s)) (rs_seqr s) (rs_closed s), (0, []))
  | OWrite hid h pay =>
      match nth_error (rs_handles s) hid with
      | None => (s, (0, []))
      | Some hd =>
          if hd_pass hd || negb (h_ssrc h =? si_ssrc (hd_info hd)) then (s, (0, [(hd_wid hd, h, pay)]))
          else
            let '(res, sq) :=
              if rs_copy s then new_packet (rs_seqr s) h pay (si_rtxssrc (hd_info hd)) (si_rtxpt (hd_info hd))
              else (new_packet_noop h pay, rs_seqr s) in
            match res with
            | NPErr c => (mkRS (rs_size s) (rs_copy s) (rs_handles s) (rs_streams s) sq (rs_closed s), (c, []))
            | NPOk p =>
                (mkRS (rs_size s) (rs_copy s)
                      (upd_nth hid (hd_set_buf (rb_add (hd_buf hd) p)) (rs_handles s))
                      (rs_streams s) sq (rs_closed s),
                 (0, [(hd_wid hd, h, pay)]))
            end
      end
  | ONack ssrc pairs =>
      (* startResend: no goroutine once closed (n.streams is empty then anyway) *)
      if rs_closed s then (s, (0, [])) else
      match amap_find ssrc (rs_streams s) with
      | None => (s, (0, []))
      | Some hid =>
          match nth_error (rs_handles s) hid with
          | None => (s, (0, []))
          | Some hd => (s, (0, resend hd (nack_seqs pairs)))
          end
      end
  | OUnbind ssrc =>
      match amap_find ssrc (rs_streams s) with
      | None => (s, (0, []))
      | Some hid =>
          (mkRS (rs_size s) (rs_copy s)
                (upd_nth hid (fun hd => hd_set_buf (rb_clear (hd_buf hd)) hd) (rs_handles s))
                (amap_remove ssrc (rs_streams s)) (rs_seqr s) (rs_closed s), (0, []))
      end
  | OClose =>
      (mkRS (rs_size s) (rs_copy s)
            (fold_left (fun hs kv => upd_nth (snd kv) (fun hd => hd_set_buf (rb_clear (hd_buf hd)) hd) hs)
                       (rs_streams s) (rs_handles s))
            [] (rs_seqr s) true, (0, []))
  end.

Fixpoint rrun (s : rstate) (ops : list op) : list out :=
  match ops with
  | [] => []
  | o :: r => let '(s', ou) := rstep s o in ou :: rrun s' r
  end.

Definition rinit (size : Z) (copy : bool) (rtxstart : Z) : rstate := mkRS size copy [] [] rtxstart false.
