(* Model for C11, deepening round: two more feature bits on top of the lifecycle LTS of Model/Lifecycle.v.

     x_close_fast    Close has a fast path: when the per-stream table is empty ("nothing to release") it
                     closes and returns at once, WITHOUT wg.Wait().  When the table is not empty it takes the
                     table (`streams := n.streams; n.streams = map{}`), releases the entries and then waits.
                     Mirrors the seeded change of pkg/nack/responder_interceptor.go Close (`defer n.wg.Wait()`
                     replaced by an early return + a wait at the end).  The goroutines a Close has to wait
                     for are tracked by the WaitGroup, independently of the table: Unbind of every stream, or
                     a first Close that took the table, makes the fast path skip goroutines that are alive.
     x_exit_on_werr  a loop goroutine returns after a write to the next writer failed (instead of logging the
                     error and going on).  Mirrors the seeded change of pkg/twcc/sender_interceptor.go loop:
                     after a failed feedback write nobody consumes the unbuffered packetChan any more, and a
                     Read that hands a packet over parks until Close although the interceptor is not closed.

   New label XFail i: the next write of goroutine i FAILS (the writer returns an error).  In the base LTS
   a failing write is the same step as a successful one (every loop ignores the error); here it makes the
   loop exit when x_exit_on_werr is set.  With both bits off the extended system is the base system
   (Proofs/LifecycleXProofs.v, xrun_refines). *)
From IV Require Import Base.Word Model.Lifecycle.

Record xcfg := mkX {
  x_base : cfg;
  x_close_fast : bool;
  x_exit_on_werr : bool
}.

Inductive xlabel := XL (l : label) | XFail (i : nat).

Definition erase (l : xlabel) : label := match l with XL l => l | XFail i => LEmit i end.

Definition table_empty (s : st) : bool := match table s with [] => true | _ => false end.

(* Close on its fast path: the close flag is set, the call returns (ghost close_ret), nobody is waited for *)
Definition close_fast_state (s : st) : st :=
  mkSt true true (loops s) (next_lid s) (chanq s) (table s) (dead s) (blocked s) (panicked s)
       (emitted s) (late_close s) (late_unbind s).

(* the slow path of such a Close takes the table before it waits *)
Definition take_table (s : st) : st :=
  mkSt (closed s) (close_ret s) (loops s) (next_lid s) (chanq s) [] (dead s) (blocked s) (panicked s)
       (emitted s) (late_close s) (late_unbind s).

Definition is_loop (l : lstate) : bool := match l with LOnce _ => false | _ => true end.

Definition xstep (xc : xcfg) (s : st) (l : xlabel) : option st :=
  match l with
  | XL (Call t OClose) =>
      if x_close_fast xc then
        match bfind t (blocked s) with
        | Some _ => None
        | None =>
            if table_empty s then Some (close_fast_state s)
            else option_map take_table (step (x_base xc) s (Call t OClose))
        end
      else step (x_base xc) s (Call t OClose)
  | XL l => step (x_base xc) s l
  | XFail i =>
      match lfind i (loops s), step (x_base xc) s (LEmit i) with
      | Some l, Some s' =>
          if x_exit_on_werr xc && is_loop l then Some (set_loops s' (ldel i (loops s'))) else Some s'
      | _, _ => None
      end
  end.

Fixpoint xrun (xc : xcfg) (s : st) (tr : list xlabel) : option st :=
  match tr with
  | [] => Some s
  | l :: tl => match xstep xc s l with Some s' => xrun xc s' tl | None => None end
  end.

Definition xinit (xc : xcfg) : st := init (x_base xc).

(* number of loop goroutines (the ones started by BindRTCPWriter / the constructor; not the one-shot ones) *)
Definition nloops (s : st) : nat := length (filter (fun e => is_loop (snd e)) (loops s)).

(* labels that can bring a consumer back / release a parked sender from outside: Close and BindRTCPWriter *)
Definition quiet_label (l : xlabel) : bool :=
  match l with
  | XL (Call _ OClose) | XL (Call _ OBindW) => false
  | _ => true
  end.

Definition no_close_label (l : xlabel) : bool :=
  match l with XL (Call _ OClose) => false | _ => true end.

(* every interceptor of /repo after the fix: commits has both bits off *)
Definition plain (c : cfg) : xcfg := mkX c false false.

(* the two seeded changes as records *)
Definition nack_responder_fastclose_xcfg := mkX nack_responder_cfg true false.
Definition twcc_exit_on_werr_xcfg := mkX twcc_sender_cfg false true.

Definition xsafe (xc : xcfg) : bool := negb (x_close_fast xc) && negb (x_exit_on_werr xc).

(* gcc before the fix: commit of the deepening round: cc.Interceptor has no UnbindLocalStream, the pacer keeps
   the writer of an unbound stream for ever (LeakyBucketPacer.ssrcToWriter / NoOpPacer.ssrcToWriter) *)
Definition gcc_nounbind_cfg := mkCfg LoopAtNew true ChBufNB SendOnTraffic true CloseIdem TPerSsrc false true false SpawnNone.
