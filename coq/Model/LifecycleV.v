(* C11, round-4 strengthening: feature records (Model/Lifecycle.v) of interceptors built in a NON-DEFAULT
   configuration - the configuration dimension of the property's "for every interceptor".

   gcc_noop_cfg   cc.NewInterceptor with gcc.NewSendSideBWE(gcc.SendSideBWEPacer(gcc.NewNoOpPacer())): the pacer has
                  no goroutine and no queue (Write passes the packet to the stream's writer under the pacer's
                  mutex, pkg/gcc/noop_pacer.go); per-SSRC map ssrcToWriter: AddStream replaces, RemoveStream deletes;
                  Close: SendSideBWE.Close (idempotent) -> NoOpPacer.Close = nil.  The mutex itself is modelled in
                  Model/LockedTable.v.
   bare_cfg c     the interceptor of record c driven with streams that do not advertise the capability it works on
                  (StreamInfo without RTCPFeedback, header extensions, FEC payload type): Bind* returns the
                  reader/writer it was given and registers nothing - no per-SSRC entry, no hand-off from packet
                  calls or Bind, no goroutine per NACK; loops, WaitGroup and Close are those of c.
                  Mirrors: nack generator/responder `if !n.streamsFilter(info) { return reader }`, twcc sender
                  `if hdrExtID == 0 { return reader }`, intervalpli `if !streamSupportPli(info) { return reader }`,
                  flexfec `if info.PayloadTypeForwardErrorCorrection == 0 ... { return writer }`. *)
From IV Require Import Base.Word Model.Lifecycle.

(*                              loop     wg   chan   site      recvE close     table    unbind reset needsT *)
Definition gcc_noop_cfg := mkCfg LoopNone true ChNone SendNever false CloseIdem TPerSsrc true  true  false SpawnNone.

Definition bare_cfg (c : cfg) : cfg :=
  mkCfg (f_loop c) (f_wg c) (f_chan c) SendNever (f_recv_emits c) (f_close c) TNone false false false SpawnNone.
