(* Model of the glue in pkg/rfc8888/interceptor.go (SenderInterceptor): the reader
   returned by BindRemoteStream and the goroutine [loop], as driven by the harness
   (one RTCP writer bound, SenderNow = a settable clock, SenderTicker = a ticker whose
   channel the harness feeds).

   Events, in the order the harness makes them happen (every event is taken by the
   loop before the next one is made):
     SNow t          the configured clock (SenderNow) now reads t
     SPacket ssrc seq  one RTP packet is read through the BindRemoteStream reader:
                       p := packet{arrival: s.now(), ssrc, sequenceNumber, ecn: 0}; s.packetChan <- p;
                       loop: s.recorder.AddPacket(pkt.arrival, pkt.ssrc, pkt.sequenceNumber, pkt.ecn)
                       (the first packet is taken by the select before the ticker is created)
     STick v         the value v is delivered on the ticker channel:
                       case <-t.Ch(): now := s.now(); pkts := s.recorder.BuildReport(now, int(s.maxReportSize));
                       writer.Write([]rtcp.Packet{pkts}, nil)
                     the VALUE v read from the channel is discarded; the report time is
                     the reading of the configured clock.  Before the first packet there
                     is no ticker, hence no report.

   A report is a VALUE (the list of blocks written to the RTCP writer): once handed over
   nothing that happens later is part of it. *)
From IV Require Import Base.Word Model.Unwrapper Model.StreamLog Model.Rfc8888Recorder.

Inductive sev :=
| SNow (t : Z)
| SPacket (ssrc seq : Z)
| STick (v : Z).

Definition snd_max_report_size : Z := 1200.      (* maxReportSize of NewInterceptor *)

(* state: reading of the clock, "ticker exists" (a first packet was taken), the recorder *)
Record sender := mkSender { s_now : Z; s_started : bool; s_rec : recorder }.

Definition new_sender : sender := mkSender 0 false [].

Section Sender.
  Variable atok : Z -> bool * Z.

  Definition snd_step (s : sender) (e : sev) : sender * option report :=
    match e with
    | SNow t => (mkSender t (s_started s) (s_rec s), None)
    | SPacket ssrc seq =>
        let arrival := s_now s in                                  (* arrival: s.now() *)
        (mkSender (s_now s) true (rec_add (s_rec s) arrival ssrc seq 0), None)
    | STick _ =>
        if s_started s then
          let now := s_now s in                                    (* now := s.now() *)
          let '(r', rep) := rec_build atok (s_rec s) now snd_max_report_size in
          (mkSender (s_now s) true r', Some rep)
        else (s, None)
    end.

  Fixpoint snd_run (s : sender) (evs : list sev) : list report :=
    match evs with
    | [] => []
    | e :: tl =>
        let '(s', out) := snd_step s e in
        match out with
        | Some rep => rep :: snd_run s' tl
        | None => snd_run s' tl
        end
    end.
End Sender.

(* the same history as Recorder operations (what the harness prints as [ops]):
   needs the clock and the started flag only *)
Fixpoint snd_ops (now : Z) (started : bool) (evs : list sev) : list c08op :=
  match evs with
  | [] => []
  | SNow t :: tl => snd_ops t started tl
  | SPacket ssrc seq :: tl => Add now ssrc seq 0 :: snd_ops now true tl
  | STick _ :: tl =>
      if started then Build now snd_max_report_size :: snd_ops now started tl
      else snd_ops now started tl
  end.

(* two event lists that differ in the values delivered on the ticker channel only *)
Inductive same_but_ticks : list sev -> list sev -> Prop :=
| sbt_nil : same_but_ticks [] []
| sbt_now t a b : same_but_ticks a b -> same_but_ticks (SNow t :: a) (SNow t :: b)
| sbt_pkt ssrc seq a b : same_but_ticks a b -> same_but_ticks (SPacket ssrc seq :: a) (SPacket ssrc seq :: b)
| sbt_tick v w a b : same_but_ticks a b -> same_but_ticks (STick v :: a) (STick w :: b).
