(* C02, round-4 strengthening: the stream table of pkg/gcc/noop_pacer.go (NoOpPacer: the RTPWriter that the cc
   interceptor's BindLocalStream returns for every outgoing RTP packet when the estimator is built with
   gcc.SendSideBWEPacer(gcc.NewNoOpPacer())) and the mutex NoOpPacer.lock that guards it.

   The table maps the SSRC field of an OUTGOING packet's header to the writer registered by
   AddStream(info.SSRC, writer) (= BindLocalStream).  Nothing ties the header of a packet to the binding
   it is written on: the application hands in the header, so "header SSRC that no bound stream owns"
   (RTX / FEC packets sent down the same chain, a packet written after UnbindLocalStream, SSRC 0) is an
   INPUT of the property's "outgoing RTP packet of any size or header shape", and the table lookup is
   the place where such a packet takes a different branch (`unknown ssrc` error).

   As in Model/RateCtlLock.v a call is a PROGRAM of actions on the mutex and the table, calls run one
   after the other, sync.Mutex is not re-entrant: a call that reaches Lock while an EARLIER, ALREADY
   RETURNED call left the mutex held waits for ever [NBlocks]; Unlock of an unlocked mutex is a fatal
   error [NFatal].

   [lockvar] selects the shape of Write:
     WDefer       the code as it is:   Lock; defer Unlock; lookup; hit -> w.Write(...), miss -> error
     WNarrow      lock around the lookup only, released on both branches (a correct refactoring)
     WNarrowLeak  lock around the lookup only, the early return of the miss branch forgets Unlock
                  (the refuted variant, cf. the [fixed] switches of Model/NoCrash.v) *)
From IV Require Import Base.Word.

Record np := mkNP {
  np_held : bool;             (* NoOpPacer.lock is held by a call that has returned *)
  np_tab : list (Z * Z);      (* ssrcToWriter: header SSRC -> binding (number of the AddStream call) *)
  np_next : Z                 (* number of AddStream calls so far *)
}.

Definition np0 : np := mkNP false [] 0.        (* NewNoOpPacer *)

Fixpoint tab_get (t : list (Z * Z)) (x : Z) : option Z :=
  match t with
  | [] => None
  | (a, k) :: tl => if a =? x then Some k else tab_get tl x
  end.

Definition tab_del (t : list (Z * Z)) (x : Z) : list (Z * Z) := filter (fun e => negb (fst e =? x)) t.
Definition tab_set (t : list (Z * Z)) (x k : Z) : list (Z * Z) := (x, k) :: tab_del t x.

Inductive npop :=
| NAdd (ssrc : Z)       (* AddStream(ssrc, writer_k), k = number of earlier AddStream calls  (BindLocalStream) *)
| NRemove (ssrc : Z)    (* RemoveStream(ssrc)                                                 (UnbindLocalStream) *)
| NWrite (ssrc : Z)     (* Write(header with header.SSRC = ssrc, payload, attributes) *)
| NSetRate              (* SetTargetBitrate: empty body *)
| NClose.               (* Close: returns nil, touches nothing *)

Inductive npres :=
| RNone                 (* the call has no result (or nil) *)
| RDelivered (k : Z)    (* Write: binding k's writer was called with the packet, its result was returned *)
| RUnknown.             (* Write: ErrUnknownStream *)

Inductive lockvar := WDefer | WNarrow | WNarrowLeak.

Inductive nact :=
| ALockN | AUnlockN
| ASet (x : Z) | ADel (x : Z)      (* p.ssrcToWriter[x] = writer / delete(p.ssrcToWriter, x) *)
| AResult (r : npres).             (* w.Write(...) on the looked-up writer / the error return *)

Definition write_prog (v : lockvar) (hit : option Z) : list nact :=
  match v, hit with
  | WDefer, Some k => [ALockN; AResult (RDelivered k); AUnlockN]     (* the deferred Unlock runs after w.Write *)
  | WDefer, None => [ALockN; AResult RUnknown; AUnlockN]
  | WNarrow, Some k => [ALockN; AUnlockN; AResult (RDelivered k)]
  | WNarrow, None => [ALockN; AUnlockN; AResult RUnknown]
  | WNarrowLeak, Some k => [ALockN; AUnlockN; AResult (RDelivered k)]
  | WNarrowLeak, None => [ALockN; AResult RUnknown]                  (* `if !ok { return 0, err }` before the Unlock *)
  end.

Definition nprog (v : lockvar) (s : np) (o : npop) : list nact :=
  match o with
  | NAdd x => [ALockN; ASet x; AUnlockN]                             (* Lock; defer Unlock; map store *)
  | NRemove x => [ALockN; ADel x; AUnlockN]
  | NWrite x => write_prog v (tab_get (np_tab s) x)
  | NSetRate | NClose => []
  end.

Inductive npout := NDone (s : np) (r : npres) | NBlocks | NFatal.

Fixpoint nexec (s : np) (r : npres) (p : list nact) : npout :=
  match p with
  | [] => NDone s r
  | ALockN :: tl => if np_held s then NBlocks else nexec (mkNP true (np_tab s) (np_next s)) r tl
  | AUnlockN :: tl => if np_held s then nexec (mkNP false (np_tab s) (np_next s)) r tl else NFatal
  | ASet x :: tl => nexec (mkNP (np_held s) (tab_set (np_tab s) x (np_next s)) (np_next s + 1)) r tl
  | ADel x :: tl => nexec (mkNP (np_held s) (tab_del (np_tab s) x) (np_next s)) r tl
  | AResult q :: tl => nexec s q tl
  end.

Definition np_step (v : lockvar) (s : np) (o : npop) : npout := nexec s RNone (nprog v s o).

(* a history of calls; stops at the first call that does not return; the result is that of the last call *)
Fixpoint np_run_from (v : lockvar) (s : np) (r : npres) (ops : list npop) : npout :=
  match ops with
  | [] => NDone s r
  | o :: tl => match np_step v s o with
               | NDone s' r' => np_run_from v s' r' tl
               | x => x
               end
  end.

Definition np_run (v : lockvar) (ops : list npop) : npout := np_run_from v np0 RNone ops.

(* ------------------------------------------------------------------------------------------
   Specification of the routing, independent of the association list and of the mutex: the stream
   table as a total function, updated by the calls in order. *)
Definition route := Z -> option Z.

Definition route_step (f : route * Z) (o : npop) : route * Z :=
  let '(g, n) := f in
  match o with
  | NAdd x => (fun y => if y =? x then Some n else g y, n + 1)
  | NRemove x => (fun y => if y =? x then None else g y, n)
  | _ => (g, n)
  end.

Definition route_after (ops : list npop) : route * Z := fold_left route_step ops (fun _ => None, 0).

(* what the property asks of Write(header.SSRC = x) after the calls [ops]: a packet of a currently bound
   stream reaches the writer of the LATEST binding of its SSRC; any other packet is rejected *)
Definition write_spec (ops : list npop) (x : Z) : npres :=
  match fst (route_after ops) x with Some k => RDelivered k | None => RUnknown end.
