(* Lock discipline of pkg/gcc/rate_controller.go (the mutex rateController.lock) together with what
   a call publishes through dsWriter -> SendSideBWE.onDelayUpdate (send_side_bwe.go), for C02:
   "no input, after any history, wedges an interceptor".  The rate controller is the place where a
   well-formed congestion-control feedback history (as opposed to a malformed packet) decides which
   branch runs, and every later RTCP read of the cc interceptor (SendSideBWE.WriteRTCP -> updateRTT),
   the two consumer goroutines and Close go through this mutex.

   A call is a PROGRAM: the list of its actions on the mutex and on the published statistics in
   program order.  Calls are executed one after the other (they are serialised by the mutex; the part
   of onDelayStats outside the mutex only ever runs on the arrival-group goroutine).  sync.Mutex is not
   re-entrant: a call that reaches Lock while an EARLIER, ALREADY RETURNED call left the mutex held
   waits for ever (nobody is left to release it) - outcome [Blocks]; Unlock of an unlocked mutex is
   Go's "fatal error: sync: unlock of unlocked mutex" - outcome [Fatal].

   [lock_early] selects the placement of c.lock.Lock() in onDelayStats: false = the code as it is
   (Lock after the early `if State == stateHold { return }`), true = Lock taken before the state
   update, the early return left as it is (the refuted variant, cf. the [fixed] switches of
   Model/NoCrash.v). *)
From IV Require Import Base.Word.

Inductive usage := UOver | UUnder | UNormal.          (* usage.go: 0, 1, 2 *)
Inductive rstate := SIncrease | SDecrease | SHold.    (* state.go: 0, 1, 2 *)

(* state.go: func (s state) transition(use usage) state *)
Definition transition (s : rstate) (u : usage) : rstate :=
  match s, u with
  | SHold, UOver => SDecrease | SHold, UNormal => SIncrease | SHold, UUnder => SHold
  | SIncrease, UOver => SDecrease | SIncrease, UNormal => SIncrease | SIncrease, UUnder => SHold
  | SDecrease, UOver => SDecrease | SDecrease, UNormal => SHold | SDecrease, UUnder => SHold
  end.

Record rc := mkRC {
  rc_held : bool;               (* rateController.lock is held by a call that has returned *)
  rc_init : bool;               (* rateController.init *)
  rc_pub : usage * rstate       (* SendSideBWE.latestStats.(Usage, State): what GetStats shows *)
}.

(* NewSendSideBWE: zero values (usage 0 = over, state 0 = increase) *)
Definition rc0 : rc := mkRC false false (UOver, SIncrease).

Inductive act :=
| ALock | AUnlock               (* c.lock.Lock() / c.lock.Unlock() *)
| ASetInit                      (* c.init = true *)
| APublish (p : usage * rstate). (* c.dsWriter(next) -> onDelayUpdate: latestStats = next *)

Inductive rcop :=
| OpDelay (s : rstate) (u : usage)  (* onDelayStats(ds) with ds.State = s (the overuse detector always passes 0), ds.Usage = u *)
| OpRate                            (* onReceivedRate: Lock; defer Unlock *)
| OpRTT                             (* updateRTT: Lock; defer Unlock (SendSideBWE.WriteRTCP, i.e. the RTCP reader) *)
| OpGet.                            (* SendSideBWE.GetTargetBitrate / GetStats: e.lock only, never c.lock *)

(* rateController.onDelayStats *)
Definition delay_prog (lock_early init : bool) (s : rstate) (u : usage) : list act :=
  if negb init then [ASetInit]                                   (* if !c.init { ...; c.init = true; return } *)
  else
    let st := transition s u in                                  (* c.delayStats = ds; State = State.transition(ds.Usage) *)
    let hold := match st with SHold => true | _ => false end in
    if lock_early then
      ALock :: (if hold then [] else [AUnlock; APublish (u, st)])
    else
      if hold then []                                            (* if c.delayStats.State == stateHold { return } *)
      else [ALock; AUnlock; APublish (u, st)].                   (* Lock; switch ...; Unlock; c.dsWriter(next) *)

Definition prog (lock_early : bool) (c : rc) (o : rcop) : list act :=
  match o with
  | OpDelay s u => delay_prog lock_early (rc_init c) s u
  | OpRate | OpRTT => [ALock; AUnlock]
  | OpGet => []
  end.

Inductive outcome := Done (c : rc) | Blocks | Fatal.

Fixpoint exec (c : rc) (p : list act) : outcome :=
  match p with
  | [] => Done c
  | ALock :: tl => if rc_held c then Blocks else exec (mkRC true (rc_init c) (rc_pub c)) tl
  | AUnlock :: tl => if rc_held c then exec (mkRC false (rc_init c) (rc_pub c)) tl else Fatal
  | ASetInit :: tl => exec (mkRC (rc_held c) true (rc_pub c)) tl
  | APublish q :: tl => exec (mkRC (rc_held c) (rc_init c) q) tl
  end.

Definition rc_step (lock_early : bool) (c : rc) (o : rcop) : outcome := exec c (prog lock_early c o).

(* a history of calls; stops at the first call that does not return *)
Fixpoint rc_run (lock_early : bool) (c : rc) (ops : list rcop) : outcome :=
  match ops with
  | [] => Done c
  | o :: tl => match rc_step lock_early c o with
               | Done c' => rc_run lock_early c' tl
               | r => r
               end
  end.
