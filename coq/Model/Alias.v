(* C13 - copy-vs-alias model of what the interceptors keep of caller-owned memory.

   A caller owns buffers (payload array, header struct, CSRC array, extension
   payload array, read buffer): locations of a heap.  A call into a component
   passes some of them.  The component keeps, per part, either a copy made at
   call time ([Val]) or an alias ([Ref]) that is read again when the component
   later emits (retransmission, FEC packet, paced packet, dump line, report).
   After the call has returned the caller may overwrite its buffers
   ([Scribble]).  No proofs here.

   The content type [A] is a parameter: the theorems hold for byte strings
   ([list Z]); the correspondence check instantiates it with interned content
   ids (equal id <=> equal bytes, interning done by the harness).

   Which Go statement decides each mode (the model follows the code after the
   fixes for F17 and F29):

   NackCopy      internal/rtpbuffer/packet_factory.go PacketFactoryCopy.NewPacket:
                 *header = header.Clone() (deep: CSRC and extension payloads),
                 copy of the payload into a pooled array                     -> Val
   NackRtx       the same NewPacket with a retransmission SSRC/payload type configured: the
                 clone's SSRC, payload type and sequence number are rewritten and the
                 original sequence number is prefixed to the copied payload         -> Val
   NackNoCopy    PacketFactoryNoOp.NewPacket (nack.DisableCopy): keeps the
                 header pointer and the payload slice                           -> Ref  (documented exception)
   FlexFec       pkg/flexfec/encoder_interceptor.go: packetBuffer = append(..,
                 rtp.Packet{Header: header.Clone(), Payload: append([]byte(nil), payload...)}) -> Val
   LeakyBucket   pkg/gcc/leaky_bucket_pacer.go Write: copy of the payload into a pooled array; hdr := header.Clone() -> Val
   Pacing        pkg/pacing/interceptor.go: hdr := header.Clone(); pay := make+copy -> Val
   DumpSender    pkg/packetdump/default_packet_logger.go LogRTPPacket (from
                 sender_interceptor.go): Header: header.Clone(), Payload: append([]byte(nil), payload...) -> Val
   DumpReceiver  same hand-off from receiver_interceptor.go; header parsed from
                 the read buffer (extension payloads alias it), payload = bytes[hs:i] -> Val after the clone
   DumpReceiverRtcp  receiver_interceptor.go BindRTCPReader: the RTCP packets handed to the
                 logger goroutine are parsed from a private copy of the read buffer
                 (rtcp.Unmarshal keeps slices of its input)                      -> Val
   StatsOut/In   pkg/stats/stats_recorder.go QueueOutgoingRTP / QueueIncomingRTP:
                 hdr := header.Clone(), len(payload); processed before returning -> Val
   JBInterceptor pkg/jitterbuffer/receiver_interceptor.go: buf := make([]byte, len(b));
                 reader.Read(buf); packet.Unmarshal(buf)                        -> Val (own buffer)
   JBPush        JitterBuffer.Push(packet): the queue keeps the *rtp.Packet     -> Ref  (documented exception)
   TwccSender    pkg/twcc/sender_interceptor.go: packet{sequenceNumber, arrivalTime, ssrc}
                 scalars copied before the channel send (hdr pointer never read) -> Val
   Rtpfb         pkg/rtpfb/interceptor.go: history.addOutgoing(ssrc, seq, .., size, ts) scalars -> Val *)
From IV Require Import Base.Word.

Inductive comp :=
| NackCopy | NackRtx | NackNoCopy | FlexFec | LeakyBucket | Pacing | DumpSender | DumpReceiver | DumpReceiverRtcp
| StatsOut | StatsIn | JBInterceptor | JBPush | TwccSender | Rtpfb.

Definition comp_eqb (a b : comp) : bool :=
  match a, b with
  | NackCopy, NackCopy | NackRtx, NackRtx | NackNoCopy, NackNoCopy | FlexFec, FlexFec | LeakyBucket, LeakyBucket
  | Pacing, Pacing | DumpSender, DumpSender | DumpReceiver, DumpReceiver | DumpReceiverRtcp, DumpReceiverRtcp | StatsOut, StatsOut
  | StatsIn, StatsIn | JBInterceptor, JBInterceptor | JBPush, JBPush | TwccSender, TwccSender
  | Rtpfb, Rtpfb => true
  | _, _ => false
  end.

Inductive mode := MVal | MRef.

(* a configuration gives the mode of every part (position in the list of
   buffers passed by a call) of every component *)
Definition config := comp -> nat -> mode.

(* the library as modelled *)
Definition lib_mode (c : comp) (_ : nat) : mode :=
  match c with
  | NackNoCopy | JBPush => MRef
  | _ => MVal
  end.

Definition loc := Z.

Section Alias.
Variable A : Type.

(* heap of caller buffers: content and a version counter bumped by every write *)
Definition heap := loc -> option (A * Z).
Definition hempty : heap := fun _ => None.
Definition hread (h : heap) (l : loc) : option A :=
  match h l with Some (a, _) => Some a | None => None end.
Definition hver (h : heap) (l : loc) : Z :=
  match h l with Some (_, v) => v | None => 0 end.
Definition hwrite (h : heap) (l : loc) (a : A) : heap :=
  fun l' => if l' =? l then Some (a, hver h l + 1) else h l'.

Inductive stored := Val (a : A) | Ref (l : loc).
Definition item := list stored.
Definition store := comp -> list item.

Record state := mkSt { hp : heap; st : store }.
Definition init : state := mkSt hempty (fun _ => []).

Inductive op :=
| Call (c : comp) (bufs : list (loc * A))  (* the caller fills its buffers, passes them to c; the call returns *)
| Scribble (l : loc) (a : A)               (* the caller overwrites a buffer after the call returned *)
| Emit (c : comp) (k : nat)                (* c emits the k-th item it stored (retransmission, pop) *)
| EmitAll (c : comp)                       (* c emits everything it holds (batch, queue, dump, report) *)
| Drop (c : comp).                         (* c forgets what it holds (batch reset, queue drained) *)

Definition upd (s : store) (c : comp) (v : list item) : store :=
  fun c' => if comp_eqb c' c then v else s c'.

(* the caller's part of a call: it writes the packet into its own buffers *)
Definition caller_fill (bufs : list (loc * A)) (h : heap) : heap :=
  fold_left (fun h la => hwrite h (fst la) (snd la)) bufs h.

(* the component's part: keep a copy or an alias of each part *)
Fixpoint keep (cfg : config) (c : comp) (p : nat) (bufs : list (loc * A)) : item :=
  match bufs with
  | [] => []
  | (l, a) :: r => match cfg c p with MVal => Val a | MRef => Ref l end :: keep cfg c (S p) r
  end.

Definition comp_store (cfg : config) (c : comp) (bufs : list (loc * A)) (s : state) : state :=
  mkSt (hp s) (upd (st s) c (st s c ++ [keep cfg c 0 bufs])).

(* reading a stored part at emission time; a dangling alias reads as nothing *)
Definition resolve (h : heap) (x : stored) : option A :=
  match x with Val a => Some a | Ref l => hread h l end.
Definition resolve_item (h : heap) (it : item) : list (option A) := map (resolve h) it.

(* one emission = the items emitted, each a list of resolved parts *)
Definition emission := list (list (option A)).

Definition step (cfg : config) (s : state) (o : op) : state * list emission :=
  match o with
  | Call c bufs => (comp_store cfg c bufs (mkSt (caller_fill bufs (hp s)) (st s)), [])
  | Scribble l a => (mkSt (hwrite (hp s) l a) (st s), [])
  | Emit c k => (s, [match nth_error (st s c) k with
                     | Some it => [resolve_item (hp s) it]
                     | None => []
                     end])
  | EmitAll c => (s, [map (resolve_item (hp s)) (st s c)])
  | Drop c => (mkSt (hp s) (upd (st s) c []), [])
  end.

Fixpoint run (cfg : config) (s : state) (ops : list op) : state * list emission :=
  match ops with
  | [] => (s, [])
  | o :: r => let '(s1, e1) := step cfg s o in
              let '(s2, e2) := run cfg s1 r in (s2, e1 ++ e2)
  end.

Definition outputs (cfg : config) (ops : list op) : list emission := snd (run cfg init ops).

(* the scribble-free run of the same history *)
Definition is_scribble (o : op) : bool := match o with Scribble _ _ => true | _ => false end.
Definition strip (ops : list op) : list op := filter (fun o => negb (is_scribble o)) ops.

(* components an operation list talks to *)
Definition op_comp (o : op) : option comp :=
  match o with
  | Call c _ | Emit c _ | EmitAll c | Drop c => Some c
  | Scribble _ _ => None
  end.

(* ---- the specification: copy semantics, no heap at all ---- *)
Inductive aop :=
| ACall (c : comp) (parts : list A)
| AEmit (c : comp) (k : nat)
| AEmitAll (c : comp)
| ADrop (c : comp).

Definition abstract_op (o : op) : list aop :=
  match o with
  | Call c bufs => [ACall c (map snd bufs)]
  | Scribble _ _ => []
  | Emit c k => [AEmit c k]
  | EmitAll c => [AEmitAll c]
  | Drop c => [ADrop c]
  end.
Definition abstract (ops : list op) : list aop := flat_map abstract_op ops.

Definition sstore := comp -> list (list A).
Definition supd (s : sstore) (c : comp) (v : list (list A)) : sstore :=
  fun c' => if comp_eqb c' c then v else s c'.

Definition sstep (s : sstore) (o : aop) : sstore * list emission :=
  match o with
  | ACall c parts => (supd s c (s c ++ [parts]), [])
  | AEmit c k => (s, [match nth_error (s c) k with Some it => [map Some it] | None => [] end])
  | AEmitAll c => (s, [map (map Some) (s c)])
  | ADrop c => (supd s c [], [])
  end.

Fixpoint srun (s : sstore) (ops : list aop) : sstore * list emission :=
  match ops with
  | [] => (s, [])
  | o :: r => let '(s1, e1) := sstep s o in
              let '(s2, e2) := srun s1 r in (s2, e1 ++ e2)
  end.

(* "each component emits what it was given at call time" *)
Definition spec_outputs (ops : list aop) : list emission := snd (srun (fun _ => []) ops).

End Alias.

Arguments Val {A} a.
Arguments Ref {A} l.
Arguments Call {A} c bufs.
Arguments Scribble {A} l a.
Arguments Emit {A} c k.
Arguments EmitAll {A} c.
Arguments Drop {A} c.
Arguments ACall {A} c parts.
Arguments AEmit {A} c k.
Arguments AEmitAll {A} c.
Arguments ADrop {A} c.
Arguments hp {A} s.
Arguments st {A} s.
Arguments mkSt {A} hp st.
