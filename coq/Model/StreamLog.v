(* Model of pkg/rfc8888/stream_log.go (streamLog.add, streamLog.metricsAfter,
   getArrivalTimeOffset) as the code is AFTER the fix: commits of C08
   (first copy kept; float compared before the uint16 conversion).
   time.Time is Z nanoseconds; int64 is unbounded Z; the Go map
   log map[int64]*packetReport is an association list with unique keys
   (insertion only when the key is absent). *)
From IV Require Import Base.Word Base.F64 Model.Unwrapper.
From Coq Require Import Floats.

Definition entry := (Z * (Z * Z))%type.   (* unwrapped seq -> (arrival ns, ecn) *)

Fixpoint lfind (k : Z) (l : list entry) : option (Z * Z) :=
  match l with
  | [] => None
  | (k', v) :: tl => if k' =? k then Some v else lfind k tl
  end.

(* delete(l.log, k) *)
Definition lremove (k : Z) (l : list entry) : list entry :=
  filter (fun e => negb (fst e =? k)) l.

(* for seq := range l.log { if seq < n { delete(l.log, seq) } } *)
Definition lprune (n : Z) (l : list entry) : list entry :=
  filter (fun e => n <=? fst e) l.

Record slog := mkSlog {
  sl_ssrc : Z;
  sl_seq : option Z;          (* sequencenumber.Unwrapper *)
  sl_init : bool;
  sl_next : Z;                (* nextSequenceNumberToReport *)
  sl_last : Z;                (* lastSequenceNumberReceived *)
  sl_log : list entry
}.

(* newStreamLog *)
Definition new_slog (ssrc : Z) : slog := mkSlog ssrc None false 0 0 [].

(* metric block: (Received, ECN, ArrivalTimeOffset) *)
Definition mblock := (bool * Z * Z)%type.
(* report block: (MediaSSRC, BeginSequence, MetricBlocks) *)
Definition rblock := (Z * Z * list mblock)%type.

(* observable projection of a metric block as one number (what the harness prints):
   Received * 2^18 + ECN * 2^16 + ArrivalTimeOffset *)
Definition mbz (received : bool) (ecn a : Z) : Z := (if received then 262144 else 0) + ecn * 65536 + a.
Definition enc_mb (m : mblock) : Z := let '(r, e, a) := m in mbz r e a.

(* the float kernel of getArrivalTimeOffset, for a duration d >= 0 in ns:
   a := d.Seconds() * 1024.0 ; returns (a > 0x1FFD, trunc a).
   Duration.Seconds() is float64(d / Second) + float64(d % Second) / 1e9. *)
Definition ato_kernel (d : Z) : bool * Z :=
  let sec := d / 1000000000 in
  let nsec := d mod 1000000000 in
  let secs := PrimFloat.add (f64_of_Z sec) (PrimFloat.div (f64_of_Z nsec) 1000000000%float) in
  let a := PrimFloat.mul secs 1024%float in
  (PrimFloat.ltb 8189%float a, f64_trunc a).

Section StreamLog.
  (* every history-level statement holds for an arbitrary kernel *)
  Variable atok : Z -> bool * Z.

  (* getArrivalTimeOffset(base, arrival) *)
  Definition ato (base arrival : Z) : Z :=
    if base <? arrival then 8191                       (* base.Before(arrival): 0x1FFF *)
    else
      let '(over, v) := atok (base - arrival) in
      if over then 8190                                (* ato > 0x1FFD: 0x1FFE *)
      else u16 v.                                      (* uint16(ato) *)

  (* streamLog.add(ts, sequenceNumber, ecn) *)
  Definition sl_add (s : slog) (ts seq ecn : Z) : slog :=
    let '(st', u) := unwrap (sl_seq s) seq in
    let next := if sl_init s then sl_next s else u in
    if u <? next then mkSlog (sl_ssrc s) st' true next (sl_last s) (sl_log s)
    else
      match lfind u (sl_log s) with
      | Some _ => mkSlog (sl_ssrc s) st' true next (sl_last s) (sl_log s)     (* first copy kept *)
      | None =>
          mkSlog (sl_ssrc s) st' true next
                 (if sl_last s <? u then u else sl_last s)
                 ((u, (ts, ecn)) :: sl_log s)
      end.

  (* loop state of metricsAfter: (l.log, l.nextSequenceNumberToReport, lastReceived, gapDetected) *)
  Definition lstate := (list entry * Z * Z * bool)%type.

  (* one iteration of  for i := offset; i <= l.lastSequenceNumberReceived; i++ *)
  Definition loop_step (ref : Z) (st : lstate) (i : Z) : lstate * mblock :=
    let '(log, next, lastrecv, gap) := st in
    let mb : mblock :=
      match lfind i log with
      | Some (ts, ecn) => (true, ecn, ato ref ts)
      | None => (false, 0, 0)
      end in
    let received := fst (fst mb) in
    let st' :=
      if gap then st
      else
        let '(log1, next1, lr1) :=
          if received && (i =? next) then (lremove i log, next + 1, i) else (log, next, lastrecv) in
        (log1, next1, lr1, i >? lr1 + 1) in
    (st', mb).

  Fixpoint loop (ref : Z) (st : lstate) (is : list Z) : lstate * list mblock :=
    match is with
    | [] => (st, [])
    | i :: tl =>
        let '(st1, mb) := loop_step ref st i in
        let '(st2, mbs) := loop ref st1 tl in
        (st2, mb :: mbs)
    end.

  (* streamLog.metricsAfter(reference, maxReportBlocks); maxReportBlocks >= 0
     (BuildReport clamps at 0; Go would panic in make() on a negative count) *)
  Definition metrics_after (s : slog) (ref budget : Z) : slog * rblock :=
    match sl_log s with
    | [] => (s, (sl_ssrc s, u16 (sl_next s), []))
    | _ =>
        let num := sl_last s - sl_next s + 1 in
        let '(next1, log1) :=
          if num >? budget
          then (sl_last s - budget + 1, lprune (sl_last s - budget + 1) (sl_log s))
          else (sl_next s, sl_log s) in
        let offset := next1 in
        let '(st, mbs) :=
          loop ref (log1, next1, next1, false)
               (zrange offset (Z.to_nat (sl_last s - offset + 1))) in
        let '(log2, next2, _, _) := st in
        (mkSlog (sl_ssrc s) (sl_seq s) (sl_init s) next2 (sl_last s) log2,
         (sl_ssrc s, u16 offset, mbs))
    end.
End StreamLog.
