(* Model for C11, deepening round: chain.go `Chain.Close`.

     func (i *Chain) Close() error {
         var errs []error
         for _, interceptor := range i.interceptors { errs = append(errs, interceptor.Close()) }
         return flattenErrs(errs)
     }

   A chain is the list of its members; a member is a lifecycle LTS of Model/Lifecycle.v (its feature record
   and its state) plus one bit: does its Close return an error (no built-in interceptor's does; pkg/mock's
   CloseFn can).  chain_close_all mirrors the code: EVERY member receives Close, whatever the earlier ones
   returned, and the returned error holds every member's error (multiError.Is).  chain_close_stop is the
   seeded change: the loop returns at the first member whose Close fails.
   The Close of one member is `call c s t OClose` of the member's LTS (the step up to its first blocking
   point; a member that parks in wg.Wait is resumed by the member's own loop steps). *)
From IV Require Import Base.Word Model.Lifecycle.

Record member := mkM { m_cfg : cfg; m_st : st; m_fails : bool; m_closes : nat }.

Definition close_member (t : nat) (m : member) : member :=
  mkM (m_cfg m) (call (m_cfg m) (m_st m) t OClose) (m_fails m) (S (m_closes m)).

Definition chain_close_all (t : nat) (ms : list member) : list member := map (close_member t) ms.

(* indices of the members whose error the returned error holds *)
Fixpoint errs_from (i : nat) (ms : list member) : list nat :=
  match ms with [] => [] | m :: tl => if m_fails m then i :: errs_from (S i) tl else errs_from (S i) tl end.
Definition chain_errs_all (ms : list member) : list nat := errs_from 0 ms.

Fixpoint chain_close_stop (t : nat) (ms : list member) : list member :=
  match ms with
  | [] => []
  | m :: tl => if m_fails m then close_member t m :: tl else close_member t m :: chain_close_stop t tl
  end.

(* an instrumented member that does nothing (no loop, no table) except that its Close fails *)
Definition mock_cfg := mkCfg LoopNone false ChNone SendNever false CloseIdem TNone false false false SpawnNone.
Definition mock_failing : member := mkM mock_cfg (init mock_cfg) true 0.

(* a member after `run`ning its own LTS *)
Definition member_after (c : cfg) (tr : list label) : member :=
  mkM c (match run c (init c) tr with Some s => s | None => init c end) false 0.
