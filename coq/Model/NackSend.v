(* C03 (round-4 strengthening): the SEND PHASE of the ticker case of GeneratorInterceptor.loop
   (pkg/nack/generator_interceptor.go), i.e. what happens to the NACK packets of a tick after
   receiveLogsMu has been released:

       for _, pkt := range toSend {
           if _, err := rtcpWriter.Write([]rtcp.Packet{pkt}, interceptor.Attributes{}); err != nil {
               n.log.Warnf("failed sending nack: %+v", err)
           }
       }

   and the generator model (Model/NackGen.v) extended by a new configuration dimension: the
   downstream RTCP writer may return an error for any Write call.

   The observable of the property ("the set of sequence numbers requested at a tick") is the list
   of packets HANDED to the bound RTCPWriter; a Write that returns an error has been handed its
   packet all the same.  A writer is what the loop can see of it: for the i-th Write call of a
   tick (0-based) and the packet it carries, does the call return an error?

   `toSend` is built in the iteration order of a Go map (random); the model's tick (tick_list /
   outs_of) lists the packets ascending by MediaSSRC and the harness sorts what the writer
   recorded the same way.  A different visiting order only changes WHICH call index a packet
   gets, i.e. it is another `writer` in the sense below; the theorems quantify over all of them. *)
From IV Require Import Base.Word Model.ReceiveLog Model.NackGen.

Definition writer := nat -> Z * list Z -> bool.      (* true: this Write call returns an error *)

Definition writer_ok : writer := fun _ _ => false.   (* the writer of a healthy connection *)

(* the range loop over toSend: (packets handed to the writer, number of warnings logged) *)
Fixpoint send_loop (w : writer) (i : nat) (toSend : tick_out) : tick_out * nat :=
  match toSend with
  | [] => ([], O)
  | p :: tl =>
      let err := w i p in                            (* rtcpWriter.Write([]rtcp.Packet{pkt}, ...) *)
      let '(h, e) := send_loop w (S i) tl in         (* err != nil: Warnf only, the loop goes on *)
      (p :: h, if err then S e else e)
  end.

Definition handed (w : writer) (toSend : tick_out) : tick_out := fst (send_loop w O toSend).

(* NOT the code: the send loop that gives up at the first failing Write (`break` / `return` in
   the error branch).  Kept for the _refuted theorem, which shows what the theorem about
   send_loop excludes. *)
Fixpoint send_loop_break (w : writer) (i : nat) (toSend : tick_out) : tick_out :=
  match toSend with
  | [] => []
  | p :: tl => if w i p then [p] else p :: send_loop_break w (S i) tl
  end.

(* operations of the extended model: everything of Model/NackGen.v (WOp Tick is a tick against
   a writer that never fails) and a tick against an arbitrary writer *)
Inductive wop :=
| WOp (o : op)
| WTick (w : writer).

Definition erase (o : wop) : op := match o with WOp o => o | WTick _ => Tick end.

Definition wstep (c : cfg) (g : gen) (o : wop) : gen * option tick_out :=
  match o with
  | WOp o => step c g o
  | WTick w => let '(g', out) := step c g Tick in (g', option_map (handed w) out)
  end.

(* packets handed to the writer at all ticks of a history *)
Fixpoint wrun (c : cfg) (g : gen) (ops : list wop) : list tick_out :=
  match ops with
  | [] => []
  | o :: tl =>
      let '(g', out) := wstep c g o in
      match out with
      | Some t => t :: wrun c g' tl
      | None => wrun c g' tl
      end
  end.

(* the writer plans the harness can force (tick op (2, mode, p, _) of the API case sets):
     mode 0  no Write fails                      mode 1  the p-th Write call of the tick fails
     mode 2  every Write fails                   mode 3  a Write carrying a NACK for MediaSSRC p fails
     mode 4  every Write call from the p-th on fails *)
Definition plan_writer (mode p : Z) : writer :=
  fun i pk =>
    if mode =? 1 then Z.of_nat i =? p
    else if mode =? 2 then true
    else if mode =? 3 then fst pk =? p
    else if mode =? 4 then p <=? Z.of_nat i
    else false.
