(* C13 (deepening) - chains of components, the attributes cache, size thresholds.

   Model/Alias.v has ONE component per call and a mode per part.  Here a call
   goes through a CHAIN of components that share the call's attributes
   (interceptor.Attributes: the cached parse of the caller's buffer), and what a
   component does with a part may depend on the part's SIZE (pooled buffers of
   1460 bytes: larger payloads are rejected with io.ErrShortBuffer).

   Per component two independent decisions, both read off the Go source:

   parse  how the component obtains the objects it works on
     PNone        write path: it is handed the caller's objects (header pointer,
                  payload slice, []rtcp.Packet)                       -> view = alias
     PShared      attr.GetRTCPPackets(b[:i]) / attr.GetRTPHeader(b[:i]): the cached
                  parse if there is one, else parse the CALLER'S buffer in place and
                  cache it.  rtcp.Unmarshal / Header.Unmarshal keep slices of their
                  input (APP data, SR/RR profile extensions, RawPacket, header
                  extension payloads)                                 -> view = cache or alias
     PPrivate     rtcp.Unmarshal(append([]byte(nil), b[:i]...)): parse of a private
                  copy, the cache is neither read nor written         -> view = copy
     PSharedCopy  attr.GetRTCPPackets(privateCopy) (pkg/cc: buf := make; copy): the
                  cached parse if there is one (the argument is then IGNORED), else
                  parse the private copy and cache it                  -> view = cache or copy
   retain what it keeps of its view after the call returned, per part and size
     RVal         a deep copy made during the call (header.Clone(), copy into a
                  pooled array, scalars)
     RRef         the viewed object itself (handed to a goroutine, queued)
     RReject      the call is refused with an error for this size; the component
                  stores nothing and the chain stops there (write path: the error
                  is returned before the next writer is called)

   No proofs here. *)
From IV Require Import Base.Word Model.Alias.

Inductive xcomp :=
| Old (c : comp)            (* the roles of Model/Alias.v *)
| RtcpNack                  (* pkg/nack/responder_interceptor.go BindRTCPReader: attr.GetRTCPPackets(b[:i]) *)
| RtcpReport                (* pkg/report/receiver_interceptor.go BindRTCPReader: attr.GetRTCPPackets(b[:i]) *)
| RtcpStats                 (* pkg/stats/stats_recorder.go QueueIncomingRTCP: attr.GetRTCPPackets(buf) *)
| RtcpRtpfb                 (* pkg/rtpfb/interceptor.go BindRTCPReader: attr.GetRTCPPackets(b[:n]) *)
| RtcpCc                    (* pkg/cc/interceptor.go BindRTCPReader: buf := make; copy; attr.GetRTCPPackets(buf[:i]) *)
| RtpNackGen                (* pkg/nack/generator_interceptor.go BindRemoteStream: attr.GetRTPHeader(b[:i]) *)
| RtpReport                 (* pkg/report/receiver_interceptor.go BindRemoteStream: attr.GetRTPHeader(b[:i]) *)
| DumpSenderRtcp            (* pkg/packetdump/sender_interceptor.go BindRTCPWriter: the caller's []rtcp.Packet goes to the logger goroutine *)
| StatsRtcpOut              (* pkg/stats/interceptor.go BindRTCPWriter: QueueOutgoingRTCP processes the packets before returning *)
(* the caller's interceptor.Attributes MAP passed to Write (one part: the map's contents) *)
| AttrLeakyBucket           (* pkg/gcc/leaky_bucket_pacer.go Write: item{attributes: attributes}: the caller's map is queued *)
| AttrPacing                (* pkg/pacing/interceptor.go: attr := maps.Clone(attributes) *)
| AttrDumpSender.           (* pkg/packetdump: rtpDump{attributes: attributes}: the caller's map goes to the logger goroutine *)

Definition xcomp_eqb (a b : xcomp) : bool :=
  match a, b with
  | Old c, Old d => comp_eqb c d
  | RtcpNack, RtcpNack | RtcpReport, RtcpReport | RtcpStats, RtcpStats | RtcpRtpfb, RtcpRtpfb | RtcpCc, RtcpCc
  | RtpNackGen, RtpNackGen | RtpReport, RtpReport | DumpSenderRtcp, DumpSenderRtcp | StatsRtcpOut, StatsRtcpOut
  | AttrLeakyBucket, AttrLeakyBucket | AttrPacing, AttrPacing | AttrDumpSender, AttrDumpSender => true
  | _, _ => false
  end.

Inductive parse := PNone | PShared | PPrivate | PSharedCopy.
Inductive rmode := RVal | RRef | RReject.

Record xconfig := mkX { par : xcomp -> parse; ret : xcomp -> nat -> Z -> rmode }.

(* ---- the library as modelled ---- *)
(* write-path calls pass [header; CSRC array; extension payload array; payload]: the payload is part 3 *)
Definition payload_part : nat := 3.
Definition pool_payload_len : Z := 1460.   (* maxPayloadLen in internal/rtpbuffer/rtpbuffer.go and pkg/gcc/leaky_bucket_pacer.go *)

Definition lib_par (x : xcomp) : parse :=
  match x with
  | Old DumpReceiverRtcp => PPrivate                 (* rtcp.Unmarshal(append([]byte(nil), bytes[:i]...)) *)
  | Old JBInterceptor => PPrivate                    (* buf := make([]byte, len(b)); reader.Read(buf); packet.Unmarshal(buf) *)
  | Old DumpReceiver | Old StatsIn | Old TwccSender  (* attr.GetRTPHeader(b[:i]) *)
  | RtcpNack | RtcpReport | RtcpStats | RtcpRtpfb | RtpNackGen | RtpReport => PShared
  | RtcpCc => PSharedCopy
  | _ => PNone
  end.

Definition lib_ret (x : xcomp) (p : nat) (n : Z) : rmode :=
  match x with
  | Old NackNoCopy | Old JBPush => RRef              (* documented exceptions *)
  | Old DumpReceiverRtcp => RRef                     (* logRTCPPackets(pkts, attr): the parsed packets go to the logger goroutine as they are *)
  | DumpSenderRtcp => RRef                           (* logRTCPPackets(pkts, attributes): the CALLER'S packets go to the logger goroutine (observation outside the property text) *)
  | AttrLeakyBucket | AttrDumpSender => RRef         (* the caller's attributes map is kept (observation outside the property text) *)
  | Old NackCopy | Old NackRtx                       (* PacketFactoryCopy.NewPacket: if len(payload) > maxPayloadLen { return nil, io.ErrShortBuffer } *)
  | Old LeakyBucket =>                               (* LeakyBucketPacer.Write: if len(payload) > maxPayloadLen { return 0, io.ErrShortBuffer } *)
      if (Nat.eqb p payload_part) && (n >? pool_payload_len) then RReject else RVal
  | _ => RVal
  end.

Definition lib_x : xconfig := mkX lib_par lib_ret.

Section Chain.
Variable A : Type.

(* a part passed by a call: location, content, size in bytes *)
Definition xbuf := (loc * A * Z)%type.
Definition bloc (b : xbuf) : loc := fst (fst b).
Definition bcont (b : xbuf) : A := snd (fst b).
Definition bsize (b : xbuf) : Z := snd b.

Definition xstore := xcomp -> list (item A).
Record xstate := mkXSt { xhp : heap A; xst : xstore }.
Definition xinit : xstate := mkXSt (hempty A) (fun _ => []).

Inductive xop :=
| XCall (cs : list xcomp) (bufs : list xbuf)  (* the caller fills its buffers; the call goes through cs in processing order; it returns *)
| XScribble (l : loc) (a : A)
| XEmit (x : xcomp) (k : nat)
| XEmitAll (x : xcomp)
| XDrop (x : xcomp).

Definition xupd (s : xstore) (x : xcomp) (v : list (item A)) : xstore :=
  fun y => if xcomp_eqb y x then v else s y.

(* the attributes cache of ONE call: the parse result, if some component stored one *)
Definition cache := option (list (stored A)).

Definition in_place (bufs : list xbuf) : list (stored A) := map (fun b => Ref (bloc b)) bufs.
Definition copied (bufs : list xbuf) : list (stored A) := map (fun b => Val (bcont b)) bufs.

Definition view (pa : parse) (c : cache) (bufs : list xbuf) : list (stored A) * cache :=
  match pa with
  | PNone => (in_place bufs, c)
  | PPrivate => (copied bufs, c)
  | PShared => match c with Some v => (v, c) | None => (in_place bufs, Some (in_place bufs)) end
  | PSharedCopy => match c with Some v => (v, c) | None => (copied bufs, Some (copied bufs)) end
  end.

(* does the component refuse the call (some part has a refused size)? *)
Fixpoint rejects (r : nat -> Z -> rmode) (p : nat) (sizes : list Z) : bool :=
  match sizes with
  | [] => false
  | n :: t => match r p n with RReject => true | _ => rejects r (S p) t end
  end.

(* does it keep its view of some part? *)
Fixpoint has_ref (r : nat -> Z -> rmode) (p : nat) (sizes : list Z) : bool :=
  match sizes with
  | [] => false
  | n :: t => match r p n with RRef => true | _ => has_ref r (S p) t end
  end.

(* what it keeps: a copy of the content passed, or its view of the part *)
Fixpoint xkeep (r : nat -> Z -> rmode) (p : nat) (bufs : list xbuf) (v : list (stored A)) : item A :=
  match bufs with
  | [] => []
  | b :: t => (match r p (bsize b) with
               | RRef => match v with s :: _ => s | [] => Val (bcont b) end
               | _ => Val (bcont b)
               end) :: xkeep r (S p) t (tl v)
  end.

Fixpoint chain_store (cfg : xconfig) (cs : list xcomp) (bufs : list xbuf) (c : cache) (s : xstore) : xstore :=
  match cs with
  | [] => s
  | x :: r =>
      if rejects (ret cfg x) 0 (map bsize bufs) then s
      else let '(v, c') := view (par cfg x) c bufs in
           chain_store cfg r bufs c' (xupd s x (s x ++ [xkeep (ret cfg x) 0 bufs v]))
  end.

Definition xcaller_fill (bufs : list xbuf) (h : heap A) : heap A := caller_fill A (map fst bufs) h.

Definition xstep (cfg : xconfig) (s : xstate) (o : xop) : xstate * list (emission A) :=
  match o with
  | XCall cs bufs => (mkXSt (xcaller_fill bufs (xhp s)) (chain_store cfg cs bufs None (xst s)), [])
  | XScribble l a => (mkXSt (hwrite A (xhp s) l a) (xst s), [])
  | XEmit x k => (s, [match nth_error (xst s x) k with
                      | Some it => [resolve_item A (xhp s) it]
                      | None => []
                      end])
  | XEmitAll x => (s, [map (resolve_item A (xhp s)) (xst s x)])
  | XDrop x => (mkXSt (xhp s) (xupd (xst s) x []), [])
  end.

Fixpoint xrun (cfg : xconfig) (s : xstate) (ops : list xop) : xstate * list (emission A) :=
  match ops with
  | [] => (s, [])
  | o :: r => let '(s1, e1) := xstep cfg s o in
              let '(s2, e2) := xrun cfg s1 r in (s2, e1 ++ e2)
  end.

Definition xoutputs (cfg : xconfig) (ops : list xop) : list (emission A) := snd (xrun cfg xinit ops).

Definition x_is_scribble (o : xop) : bool := match o with XScribble _ _ => true | _ => false end.
Definition xstrip (ops : list xop) : list xop := filter (fun o => negb (x_is_scribble o)) ops.

(* ---- the specification: copy semantics with admission, no heap, no cache ---- *)
Inductive xaop :=
| XACall (cs : list xcomp) (parts : list (A * Z))
| XAEmit (x : xcomp) (k : nat)
| XAEmitAll (x : xcomp)
| XADrop (x : xcomp).

Definition xabstract_op (o : xop) : list xaop :=
  match o with
  | XCall cs bufs => [XACall cs (map (fun b => (bcont b, bsize b)) bufs)]
  | XScribble _ _ => []
  | XEmit x k => [XAEmit x k]
  | XEmitAll x => [XAEmitAll x]
  | XDrop x => [XADrop x]
  end.
Definition xabstract (ops : list xop) : list xaop := flat_map xabstract_op ops.

Definition xsstore := xcomp -> list (list A).
Definition xsupd (s : xsstore) (x : xcomp) (v : list (list A)) : xsstore :=
  fun y => if xcomp_eqb y x then v else s y.

(* every component the call reaches (the chain stops at the first that refuses) keeps the contents passed *)
Fixpoint spec_chain (cfg : xconfig) (cs : list xcomp) (parts : list (A * Z)) (s : xsstore) : xsstore :=
  match cs with
  | [] => s
  | x :: r => if rejects (ret cfg x) 0 (map snd parts) then s
              else spec_chain cfg r parts (xsupd s x (s x ++ [map fst parts]))
  end.

Definition xsstep (cfg : xconfig) (s : xsstore) (o : xaop) : xsstore * list (emission A) :=
  match o with
  | XACall cs parts => (spec_chain cfg cs parts s, [])
  | XAEmit x k => (s, [match nth_error (s x) k with Some it => [map Some it] | None => [] end])
  | XAEmitAll x => (s, [map (map Some) (s x)])
  | XADrop x => (xsupd s x [], [])
  end.

Fixpoint xsrun (cfg : xconfig) (s : xsstore) (ops : list xaop) : xsstore * list (emission A) :=
  match ops with
  | [] => (s, [])
  | o :: r => let '(s1, e1) := xsstep cfg s o in
              let '(s2, e2) := xsrun cfg s1 r in (s2, e1 ++ e2)
  end.

Definition xspec_outputs (cfg : xconfig) (ops : list xaop) : list (emission A) := snd (xsrun cfg (fun _ => []) ops).

(* ---- embedding of the single-component model ---- *)
Definition embed_op (o : op A) : xop :=
  match o with
  | Call c bufs => XCall [Old c] (map (fun la => (fst la, snd la, 0)) bufs)
  | Scribble l a => XScribble l a
  | Emit c k => XEmit (Old c) k
  | EmitAll c => XEmitAll (Old c)
  | Drop c => XDrop (Old c)
  end.

End Chain.

Definition embed_cfg (cfg : config) : xconfig :=
  mkX (fun _ => PNone)
      (fun x p _ => match x with Old c => match cfg c p with MVal => RVal | MRef => RRef end | _ => RVal end).

Arguments XCall {A} cs bufs.
Arguments XScribble {A} l a.
Arguments XEmit {A} x k.
Arguments XEmitAll {A} x.
Arguments XDrop {A} x.
Arguments XACall {A} cs parts.
Arguments XAEmit {A} x k.
Arguments XAEmitAll {A} x.
Arguments XADrop {A} x.
Arguments xhp {A} _.
Arguments xst {A} _.
Arguments mkXSt {A} _ _.
