(* Integer decision layer of pkg/gcc: clampInt (gcc.go), state.transition (state.go),
   rateController.onDelayStats (rate_controller.go), lossBasedBandwidthEstimator.getEstimate /
   the final clamp of updateLossEstimate (loss_based_bwe.go), SendSideBWE.onDelayUpdate,
   GetTargetBitrate (send_side_bwe.go).  Every float stage (increase(), decrease(), the
   loss average and its multiplicative update) is an ARBITRARY integer supplied by the
   op: theorems quantify over all of them (this covers NaN, +-Inf and
   platform-defined float->int results). *)
From IV Require Import Base.Word.

Definition clampInt (b lo hi : Z) : Z := Z.max lo (Z.min hi b).

(* states: 0 increase, 1 decrease, 2 hold; usage: 0 over, 1 under, 2 normal *)
Definition transition (s u : Z) : Z :=
  if s =? 2 then (if u =? 0 then 1 else if u =? 2 then 0 else if u =? 1 then 2 else 0)
  else if s =? 0 then (if u =? 0 then 1 else if u =? 2 then 0 else if u =? 1 then 2 else 0)
  else if s =? 1 then (if u =? 0 then 1 else if u =? 2 then 2 else if u =? 1 then 2 else 0)
  else 0.

Definition LOSS_MIN : Z := 100000.
Definition LOSS_MAX : Z := 100000000.

Record gst := mkG {
  g_init : bool;        (* rateController.init *)
  g_target : Z;         (* rateController.target *)
  g_loss : Z;           (* lossBasedBandwidthEstimator.bitrate *)
  g_latest : Z;         (* SendSideBWE.latestBitrate *)
  g_pacer : list Z;     (* values given to pacer.SetTargetBitrate, oldest first *)
  g_cb : list Z         (* values given to the OnTargetBitrateChange callback *)
}.

Definition ginit (initial : Z) : gst := mkG false initial initial initial [] [].

Inductive gop :=
| DelayStats (use st raw : Z)    (* onDelayStats(ds) with ds.Usage, ds.State; raw = what increase()/decrease() returns *)
| LossUpdate (raw : option Z).   (* updateLossEstimate: None = bitrate untouched, Some raw = value before its clampInt *)

(* lossController.getEstimate(wanted): returns new loss bitrate (= LossStats.TargetBitrate) *)
Definition get_estimate (loss wanted : Z) : Z :=
  let loss1 := if loss <=? 0 then clampInt wanted LOSS_MIN LOSS_MAX else loss in
  Z.min wanted loss1.

Section Decision.
  Variable cmin cmax : Z.
  Variable fixed : bool.   (* true: onDelayUpdate clamps the published value (the code after the fix) *)

  (* SendSideBWE.onDelayUpdate(delayStats) with delayStats.TargetBitrate = wanted *)
  Definition on_delay_update (s : gst) (wanted : Z) : gst :=
    let loss' := get_estimate (g_loss s) wanted in
    let b0 := Z.min wanted loss' in
    let bitrate := if fixed then clampInt b0 cmin cmax else b0 in
    if bitrate =? g_latest s then mkG (g_init s) (g_target s) loss' (g_latest s) (g_pacer s) (g_cb s)
    else mkG (g_init s) (g_target s) loss' bitrate (g_pacer s ++ [bitrate]) (g_cb s ++ [bitrate]).

  Definition gstep (s : gst) (o : gop) : gst :=
    match o with
    | DelayStats use st raw =>
        if negb (g_init s) then mkG true (g_target s) (g_loss s) (g_latest s) (g_pacer s) (g_cb s)
        else
          let st' := transition st use in
          if st' =? 2 then s
          else
            let target := clampInt raw cmin cmax in
            on_delay_update (mkG (g_init s) target (g_loss s) (g_latest s) (g_pacer s) (g_cb s)) target
    | LossUpdate None => s
    | LossUpdate (Some raw) =>
        mkG (g_init s) (g_target s) (clampInt raw LOSS_MIN LOSS_MAX) (g_latest s) (g_pacer s) (g_cb s)
    end.

  Definition grun (s : gst) (ops : list gop) : gst := fold_left gstep ops s.

  (* per-step trace of (target, loss, latest, #pacer calls) for the correspondence *)
  Fixpoint gtrace (s : gst) (ops : list gop) : list (Z * Z * Z * Z) :=
    match ops with
    | [] => []
    | o :: tl => let s' := gstep s o in
                 (g_target s', g_loss s', g_latest s', Z.of_nat (length (g_pacer s'))) :: gtrace s' tl
    end.
End Decision.
