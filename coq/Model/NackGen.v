(* Model of pkg/nack/generator_interceptor.go: the body of the ticker case of
   GeneratorInterceptor.loop, BindRemoteStream / UnbindRemoteStream and the
   reader closure, as the code is AFTER the fix: commit of C03 (counter no
   longer incremented once the limit is reached).

   Go maps: receiveLogs and nackCountLogs are total functions ssrc -> option,
   plus the sorted list of bound SSRCs for enumeration; the inner
   map[uint16]uint16 is an association list (key present <-> Go key present).
   `for ssrc, receiveLog := range n.receiveLogs` visits every key exactly once
   and its body reads/writes only nackCountLogs[ssrc] of that key, so the tick
   is modelled pointwise per key (iteration order is not observable: the
   harness sorts the packets of one tick by MediaSSRC).
   rtcp.NackPairsFromSequenceNumbers and the expansion of NackPairs back to
   sequence numbers are not modelled; the harness compares expanded lists
   (trusted base). *)
From IV Require Import Base.Word Model.ReceiveLog.

Record cfg := mk_cfg { c_size : Z; c_skip : Z; c_max : Z }.

Definition cmap := list (Z * Z).

Fixpoint cget (c : cmap) (k : Z) : Z :=
  match c with
  | [] => 0
  | (k', v) :: tl => if k =? k' then v else cget tl k
  end.

Fixpoint cset (c : cmap) (k v : Z) : cmap :=
  match c with
  | [] => [(k, v)]
  | (k', v') :: tl => if k =? k' then (k, v) :: tl else (k', v') :: cset tl k v
  end.

Definition contains (l : list Z) (x : Z) : bool := existsb (Z.eqb x) l.

(* `for nackSeq := range counts { if !slices.Contains(missing, nackSeq) { delete } }` *)
Definition prune (c : cmap) (miss : list Z) : cmap :=
  filter (fun kv => contains miss (fst kv)) c.

(* the maxNacksPerPacket > 0 loop over missing: returns filteredMissingPacket[:count]
   and the updated counters *)
Fixpoint filt (maxn : Z) (miss : list Z) (c : cmap) : list Z * cmap :=
  match miss with
  | [] => ([], c)
  | m :: tl =>
      let v := cget c m in
      if v <? maxn then
        let '(r, c') := filt maxn tl (cset c m (u16 (v + 1))) in (m :: r, c')
      else filt maxn tl c
  end.

(* one iteration of the range loop for one SSRC: missing list and
   nackCountLogs[ssrc] in, (NACK to send, nackCountLogs[ssrc]) out *)
Definition tick_one (maxn : Z) (miss : list Z) (cnt : option cmap) : option (list Z) * option cmap :=
  match miss with
  | [] => (None, Some [])                       (* reset, continue *)
  | _ :: _ =>
      let c := match cnt with Some c => c | None => [] end in
      if maxn >? 0 then
        let '(r, c') := filt maxn miss c in
        match r with
        | [] => (None, Some c')                  (* count == 0: continue (no prune) *)
        | _ :: _ =>
            let c'' := prune c' miss in
            (Some r, match c'' with [] => None | _ => Some c'' end)
        end
      else
        let c'' := prune c miss in
        (Some miss, match c'' with [] => None | _ => Some c'' end)
  end.

Record gen := mk_gen {
  g_keys : list Z;                 (* bound SSRCs, ascending *)
  g_logs : Z -> option rlog;       (* receiveLogs *)
  g_cnts : Z -> option cmap        (* nackCountLogs *)
}.

Definition gen_init : gen := mk_gen [] (fun _ => None) (fun _ => None).

Definition upd {A} (f : Z -> A) (k : Z) (v : A) : Z -> A := fun q => if q =? k then v else f q.

Fixpoint ins_key (k : Z) (l : list Z) : list Z :=
  match l with
  | [] => [k]
  | x :: tl => if k <? x then k :: l else if k =? x then l else x :: ins_key k tl
  end.

Definition del_key (k : Z) (l : list Z) : list Z := filter (fun x => negb (x =? k)) l.

Inductive op :=
| Bind (ssrc : Z) (nack : bool)          (* BindRemoteStream; nack = streamsFilter(info) *)
| Unbind (ssrc : Z)                      (* UnbindRemoteStream *)
| Arrive (ssrc seq : Z) (ok : bool)      (* the reader of the stream returns a packet (ok) or an error *)
| Tick.                                  (* <-ticker.C *)

(* NACK packets of one tick: (MediaSSRC, requested sequence numbers) ascending by SSRC *)
Definition tick_out := list (Z * list Z).

(* the range loop of one tick, evaluated once for every bound SSRC *)
Definition tick_list (c : cfg) (g : gen) : list (Z * (option (list Z) * option cmap)) :=
  flat_map (fun k =>
    match g_logs g k with
    | None => []
    | Some lg => [(k, tick_one (c_max c) (missing lg (c_skip c)) (g_cnts g k))]
    end) (g_keys g).

Fixpoint afind {A} (l : list (Z * A)) (k : Z) : option A :=
  match l with
  | [] => None
  | (k', v) :: tl => if k =? k' then Some v else afind tl k
  end.

Definition outs_of (l : list (Z * (option (list Z) * option cmap))) : tick_out :=
  flat_map (fun kr => match fst (snd kr) with None => [] | Some r => [(fst kr, r)] end) l.

Definition cnts_of (l : list (Z * (option (list Z) * option cmap))) (old : Z -> option cmap) : Z -> option cmap :=
  fun k => match afind l k with Some r => snd r | None => old k end.

Definition step (c : cfg) (g : gen) (o : op) : gen * option tick_out :=
  match o with
  | Bind k true =>
      match new_log (c_size c) with
      | Some lg => (mk_gen (ins_key k (g_keys g)) (upd (g_logs g) k (Some lg)) (upd (g_cnts g) k None), None)
      | None => (g, None)
      end
  | Bind k false => (g, None)
  | Unbind k => (mk_gen (del_key k (g_keys g)) (upd (g_logs g) k None) (upd (g_cnts g) k None), None)
  | Arrive k seq true =>
      match g_logs g k with
      | Some lg => (mk_gen (g_keys g) (upd (g_logs g) k (Some (add lg seq))) (g_cnts g), None)
      | None => (g, None)
      end
  | Arrive k seq false => (g, None)
  | Tick => let l := tick_list c g in
            (mk_gen (g_keys g) (g_logs g) (cnts_of l (g_cnts g)), Some (outs_of l))
  end.

(* outputs of all ticks of a history *)
Fixpoint run (c : cfg) (g : gen) (ops : list op) : list tick_out :=
  match ops with
  | [] => []
  | o :: tl =>
      let '(g', out) := step c g o in
      match out with
      | Some t => t :: run c g' tl
      | None => run c g' tl
      end
  end.

(* ---- the counter loop before the fix: commit (history) ---- *)
Fixpoint filt_old (maxn : Z) (miss : list Z) (c : cmap) : list Z * cmap :=
  match miss with
  | [] => ([], c)
  | m :: tl =>
      let v := cget c m in
      let '(r, c') := filt_old maxn tl (cset c m (u16 (v + 1))) in
      if v <? maxn then (m :: r, c') else (r, c')
  end.
