(* C09, round 5: the local streams of ONE rtpfb interceptor and the RTP header extensions of
   the packets written on them (pkg/rtpfb/interceptor.go BindLocalStream / bindTWCCStream /
   bindCCFBStream).

   Model/RtpfbHistory.v abstracts a write as [RSend twcc_stream ext ...], where [ext] is
   already the RESULT of  twccHdrExt.Unmarshal(header.GetExtension(twccHdrExtID)).  That
   hides a configuration dimension: every stream negotiates the transport-wide-cc extension
   under an id OF ITS OWN (StreamInfo.RTPHeaderExtensions; the id is captured by the closure
   bindTWCCStream returns), and a packet carries any number of header extensions, each under
   some id.  Here a write names the stream it is written on and carries its extension
   elements; binding is an operation of the history.

     BindLocalStream(info, w)      WBind sid neg     neg = Some id: info lists transportCCURI
                                                     under id (uint8); None: it does not
     writer_sid.Write(h, p, _)     WSend sid exts .. exts = h.Extensions as (id, payload bytes)
     reader.Read                   WRead now pkts

   Go maps / closures as association lists: binding conses (a stream handle bound again
   shadows).  A write on a handle that was never bound is impossible in Go (there is no
   writer); the model ignores it. *)
From IV Require Import Base.Word Model.FbAdapter Model.RtpfbConvert Model.RtpfbHistory.

(* rtp.Header.GetExtension: payload of the first element with that id (nil if none) *)
Fixpoint get_ext (id : Z) (exts : list (Z * list Z)) : option (list Z) :=
  match exts with
  | [] => None
  | (i, p) :: t => if i =? id then Some p else get_ext id t
  end.

(* rtp.TransportCCExtension.Unmarshal: errTooSmall below two bytes, else big-endian uint16
   of the first two *)
Definition tcc_unmarshal (raw : option (list Z)) : option Z :=
  match raw with
  | Some (b0 :: b1 :: _) => Some (b0 * 256 + b1)
  | _ => None
  end.

Inductive wop :=
| WBind (sid : Z) (neg : option Z)
| WSend (sid : Z) (exts : list (Z * list Z)) (ssrc rtpseq size now : Z)
| WRead (now : Z) (pkts : list fbpkt).

(* the body of the writer returned for a stream that negotiated [neg] *)
Definition resolve_send (neg : option Z) (exts : list (Z * list Z)) (ssrc rtpseq size now : Z) : rop :=
  match neg with
  | Some id => RSend true (tcc_unmarshal (get_ext id exts)) ssrc rtpseq size now
  | None => RSend false None ssrc rtpseq size now
  end.

Definition wstate := (list (Z * option Z) * hstate)%type.

Definition w_init : wstate := ([], h_init).

Section Run.
  Variable reft32 : Z -> Z -> Z.

  (* None: the operation returns no report list (bind; write on an unbound handle) *)
  Definition wstep (s : wstate) (o : wop) : wstate * option (list prep) :=
    let '(tbl, st) := s in
    match o with
    | WBind sid neg => (((sid, neg) :: tbl, st), None)
    | WSend sid exts ssrc rtpseq size now =>
        match find1 sid tbl with
        | None => (s, None)
        | Some neg =>
            let '(st', r) := rstep reft32 st (resolve_send neg exts ssrc rtpseq size now) in
            ((tbl, st'), Some r)
        end
    | WRead now pkts =>
        let '(st', r) := rstep reft32 st (RRead now pkts) in ((tbl, st'), Some r)
    end.

  (* one output per write / read *)
  Fixpoint wrun (s : wstate) (ops : list wop) : list (list prep) :=
    match ops with
    | [] => []
    | o :: ops' =>
        let '(s', r) := wstep s o in
        match r with Some r => r :: wrun s' ops' | None => wrun s' ops' end
    end.
End Run.
