(* C14, round-4 strengthening: the interceptor's writer when the NEXT writer may fail.

   pkg/flexfec/encoder_interceptor.go, the closure returned by BindLocalStream:

       var errs []error
       result, err := writer.Write(header, payload, attributes)      (* the media packet, call 0 *)
       if err != nil { errs = append(errs, err) }
       for _, packet := range fecPackets {                            (* calls 1, 2, ... *)
           _, err = writer.Write(&header, packet.Payload, attributes)
           if err != nil { errs = append(errs, err) }
       }
       return result, errors.Join(errs...)

   Everything before these lines (SSRC test, batch accumulator, EncodeFec, reset) is i_write2 of
   Model/Flexfec2.v and happens BEFORE the first call of the next writer.

   The next writer is an arbitrary function of the call: [dw j = true] iff the j-th call of writer.Write
   made by this call of the closure returns an error (a full socket buffer, a closed transport, an SRTP
   failure, ...).  Each Write of a history comes with its own [dw].

   What a Write yields is the list of calls it made to the next writer, in order, each with "returned an
   error" ([attempt]); the joined error it returns wraps exactly the errors of the failed calls
   ([errs_of]).  A packet handed to a failing writer is a packet the receiver does not get: the loss
   the repair packets of its batch exist for.

   [wpol] says what the closure does after an error: the code collects it and goes on in both places
   ([collect_all]).  [p_media_stop] = "return result, err" right after the media packet's write (seeded
   change C14-r4-2); [p_fec_stop] = leave the loop at the first repair packet whose write fails.
   No proofs here. *)
From IV Require Export Base.Word Model.Flexfec Model.Flexfec2.

Definition dwf := nat -> bool.
Definition attempt := (out * bool)%type.

Record wpol := { p_media_stop : bool; p_fec_stop : bool }.
Definition collect_all : wpol := {| p_media_stop := false; p_fec_stop := false |}.
Definition return_on_media_error : wpol := {| p_media_stop := true; p_fec_stop := false |}.
Definition stop_on_fec_error : wpol := {| p_media_stop := false; p_fec_stop := true |}.

(* the loop over fecPackets; j = number of calls of the next writer made so far by this Write *)
Fixpoint fec_writes (pol : wpol) (dw : dwf) (j : nat) (rs : list repair) : list attempt :=
  match rs with
  | [] => []
  | r :: tl => (ORepair r, dw j) :: (if dw j && p_fec_stop pol then [] else fec_writes pol dw (S j) tl)
  end.

(* the five lines above, given the repair packets of this Write *)
Definition down_writes (pol : wpol) (dw : dwf) (p : pkt) (rs : list repair) : list attempt :=
  (OMedia p, dw 0%nat) :: (if dw 0%nat && p_media_stop pol then [] else fec_writes pol dw 1%nat rs).

(* errs: the positions (in the list of calls) of the errors joined into the returned error *)
Fixpoint errs_from (j : nat) (att : list attempt) : list nat :=
  match att with
  | [] => []
  | (_, f) :: tl => (if f then [j] else []) ++ errs_from (S j) tl
  end.
Definition errs_of (att : list attempt) : list nat := errs_from 0%nat att.

Definition if_write (pol : wpol) (s : icpt) (p : pkt) (dw : dwf) : icpt * res (list attempt) :=
  if negb (list_Z_eqb (ssrc_bytes p) (i_ssrc s)) then (s, Ok [(OMedia p, dw 0%nat)]) else
  let buf := i_buf s ++ [p] in
  if zlen buf =? i_nm s then
    let '(e', r) := encode_fec2 (i_enc s) buf (i_nf s) in
    let s' := {| i_nm := i_nm s; i_nf := i_nf s; i_ssrc := i_ssrc s; i_enc := e'; i_buf := [] |} in
    match r with
    | Panic => (s', Panic)
    | Ok None => (s', Ok (down_writes pol dw p []))
    | Ok (Some rs) => (s', Ok (down_writes pol dw p rs))
    end
  else ({| i_nm := i_nm s; i_nf := i_nf s; i_ssrc := i_ssrc s; i_enc := i_enc s; i_buf := buf |},
        Ok (down_writes pol dw p [])).

(* a history of Writes, each with the behaviour of the next writer during it; stops at the first panic *)
Fixpoint if_run (pol : wpol) (s : icpt) (ws : list (pkt * dwf)) : list (res (list attempt)) :=
  match ws with
  | [] => []
  | (p, dw) :: tl => let '(s', r) := if_write pol s p dw in
                     r :: match r with Panic => [] | _ => if_run pol s' tl end
  end.

(* forgetting which calls failed *)
Definition handed (r : res (list attempt)) : res (list out) :=
  match r with Panic => Panic | Ok att => Ok (map fst att) end.

(* the packets the receiver gets (calls of the next writer that did not fail), over a whole history *)
Definition delivered (rs : list (res (list attempt))) : list out :=
  flat_map (fun r => match r with
                     | Panic => []
                     | Ok att => map fst (filter (fun a : attempt => negb (snd a)) att)
                     end) rs.
