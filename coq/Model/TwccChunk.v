(* Model of pkg/twcc/twcc.go: chunk (canAdd/add/encode/reset) and feedback
   (newFeedback/setBase/addReceived/getRTCP), after rtcp Marshal -> Unmarshal.

   Symbols: 0 = TypeTCCPacketNotReceived, 1 = ...ReceivedSmallDelta,
   2 = ...ReceivedLargeDelta.  Times are microseconds (int64 -> Z).

   Data representation of the Go slice chunk.deltas: [c_rev] holds the slice
   reversed (append = cons), [c_n] is len(c.deltas) and [c_first] is
   c.deltas[0] (both are O(1) reads of the slice in Go).  The invariant
   c_n = length, c_first = head is proved in Proofs/TwccChunkProofs.v
   (chunk_wf).  *)
From IV Require Import Base.Word.

Record chunk := mkChunk {
  c_large : bool;      (* hasLargeDelta *)
  c_diff  : bool;      (* hasDifferentTypes *)
  c_n     : Z;         (* len(deltas) *)
  c_first : Z;         (* deltas[0] when len > 0 *)
  c_rev   : list Z     (* deltas, newest first *)
}.

Definition chunk_empty : chunk := mkChunk false false 0 0 [].   (* reset / zero value *)

(* chunk.canAdd; maxTwoBitCap 7, maxOneBitCap 14, maxRunLengthCap 0x1fff *)
Definition can_add (c : chunk) (d : Z) : bool :=
  if c_n c <? 7 then true
  else if (c_n c <? 14) && negb (c_large c) && negb (d =? 2) then true
  else if (c_n c <? 8191) && negb (c_diff c) && (d =? c_first c) then true
  else false.

(* chunk.add *)
Definition chunk_add (c : chunk) (d : Z) : chunk :=
  let first := if c_n c =? 0 then d else c_first c in
  mkChunk (c_large c || (d =? 2)) (c_diff c || negb (d =? first)) (c_n c + 1) first (d :: c_rev c).

(* emitted chunks as Go values (before the wire) *)
Inductive pchunk :=
| RL  (sym n : Z)        (* rtcp.RunLengthChunk *)
| SV1 (l : list Z)       (* StatusVectorChunk, one-bit symbols *)
| SV2 (l : list Z).      (* StatusVectorChunk, two-bit symbols *)

Definition has_large (l : list Z) : bool := existsb (fun d => d =? 2) l.
Definition has_diff (l : list Z) : bool :=
  match l with [] => false | x :: _ => existsb (fun d => negb (d =? x)) l end.

(* the chunk state holding exactly the symbols l (flags recomputed as the tail
   loop of encode does) *)
Definition chunk_of_list (l : list Z) : chunk :=
  mkChunk (has_large l) (has_diff l) (Z.of_nat (length l)) (hd 0 l) (rev l).

(* chunk.encode: returns the emitted chunk and the state left behind *)
Definition chunk_encode (c : chunk) : pchunk * chunk :=
  if negb (c_diff c) then (RL (c_first c) (c_n c), chunk_empty)
  else if c_n c =? 14 then (SV1 (rev (c_rev c)), chunk_empty)
  else
    let l := rev (c_rev c) in
    let m := Z.to_nat (Z.min 7 (c_n c)) in
    (SV2 (firstn m l), chunk_of_list (skipn m l)).

(* ---- feedback ---- *)
Record feedback := mkFb {
  f_base  : Z;             (* baseSequenceNumber, uint16 *)
  f_ref   : Z;             (* refTimestamp64MS *)
  f_last  : Z;             (* lastTimestampUS *)
  f_next  : Z;             (* nextSequenceNumber, uint16 *)
  f_count : Z;             (* sequenceNumberCount, uint16 *)
  f_len   : Z;             (* len: bytes of deltas *)
  f_chunk : chunk;         (* lastChunk *)
  f_chunks : list pchunk;  (* chunks, in order *)
  f_deltas : list (Z * Z)  (* deltas (type, microseconds), in order *)
}.

(* newFeedback + setBase.  Go's int64 division truncates: Z.quot *)
Definition fb_new (seq16 t : Z) : feedback :=
  let ref := Z.quot t 64000 in
  mkFb seq16 ref (ref * 64000) seq16 0 0 chunk_empty [] [].

(* "if !canAdd(sym) { chunks = append(chunks, encode()) }; add(sym)" *)
Definition push_sym (st : list pchunk * chunk) (sym : Z) : list pchunk * chunk :=
  let '(chs, c) := st in
  if can_add c sym then (chs, chunk_add c sym)
  else let '(p, c') := chunk_encode c in (chs ++ [p], chunk_add c' sym).

(* uint16 "x++": equal to add16 x 1 (inc16_add16 in the proofs); the test avoids
   a division on the common path when the model is executed *)
Definition inc16 (x : Z) : Z :=
  let y := x + 1 in if (0 <=? y) && (y <? 65536) then y else y mod 65536.

(* one iteration of the not-received loop of addReceived *)
Definition fb_fill_step (f : feedback) : feedback :=
  let '(chs, c) := push_sym (f_chunks f, f_chunk f) 0 in
  mkFb (f_base f) (f_ref f) (f_last f) (inc16 (f_next f)) (inc16 (f_count f)) (f_len f) c chs (f_deltas f).

Fixpoint fb_fill (n : nat) (f : feedback) : feedback :=
  match n with O => f | S k => fb_fill k (fb_fill_step f) end.

(* rounding to 250 us ticks, half away from zero; Go "/" truncates *)
Definition round250 (d : Z) : Z :=
  if d >=? 0 then (d + 125) / 250 else Z.quot (d - 125) 250.

(* feedback.addReceived: None = returned false (state untouched) *)
Definition fb_add_received (f : feedback) (seq16 t : Z) : option feedback :=
  let d250 := round250 (t - f_last f) in
  if (d250 <? -32768) || (d250 >? 32767) then None
  else
    let rounded := d250 * 250 in
    (* for ; next != seq; next++ : trip count (seq - next) mod 2^16 *)
    let f1 := fb_fill (Z.to_nat (sub16 seq16 (f_next f))) f in
    let small := (0 <=? d250) && (d250 <=? 255) in
    let sym := if small then 1 else 2 in
    let len := if small then f_len f1 + 1 else f_len f1 + 2 in
    let '(chs, c) := push_sym (f_chunks f1, f_chunk f1) sym in
    Some (mkFb (f_base f1) (f_ref f1) (f_last f1 + rounded) (inc16 (f_next f1)) (inc16 (f_count f1))
               len c chs (f_deltas f1 ++ [(sym, rounded)])).

(* getRTCP's "for len(lastChunk.deltas) > 0 { chunks = append(chunks, encode()) }".
   Every encode removes at least one symbol, so len(deltas) bounds the trips. *)
Fixpoint drain (fuel : nat) (chs : list pchunk) (c : chunk) : list pchunk :=
  match fuel with
  | O => chs
  | S k => if c_n c >? 0 then let '(p, c') := chunk_encode c in drain k (chs ++ [p]) c' else chs
  end.

Definition fb_final_chunks (f : feedback) : list pchunk :=
  drain (length (c_rev (f_chunk f))) (f_chunks f) (f_chunk f).

(* ---- wire form: what rtcp Marshal followed by Unmarshal yields ---- *)
Fixpoint pad_to (n : nat) (l : list Z) : list Z :=
  match n with
  | O => []
  | S k => match l with [] => 0 :: pad_to k [] | x :: tl => x :: pad_to k tl end
  end.

(* parsed chunk: (0,[symbol; run length]) | (1, 14 one-bit symbols) | (2, 7 two-bit symbols).
   setNBitsOfUint16 truncates each field to its width. *)
Definition wire_chunk (p : pchunk) : Z * list Z :=
  match p with
  | RL s n => (0, [s mod 4; n mod 8192])
  | SV1 l  => (1, pad_to 14 (map (fun x => x mod 2) l))
  | SV2 l  => (2, pad_to 7 (map (fun x => x mod 4) l))
  end.

(* the parsed packet as the harness projects it *)
Record pkt := Pkt {
  p_sender : Z; p_media : Z;
  p_base : Z; p_count : Z; p_ref : Z; p_fb : Z;
  p_hlen : Z;            (* Header.Length *)
  p_pad : Z;             (* Header.Padding, 0/1 *)
  p_mlen : Z;            (* len(Marshal()) *)
  p_chunks : list (Z * list Z);
  p_deltas : list (Z * Z);
  p_bytes : list Z       (* the marshalled bytes (used by the oracle only) *)
}.

(* getRTCP + Marshal + Unmarshal (bytes are not predicted by the model: []) *)
Definition fb_get_rtcp (sender media fbcnt : Z) (f : feedback) : pkt :=
  let chs := fb_final_chunks f in
  let padLen := 20 + 2 * Z.of_nat (length chs) + f_len f in
  let padded := ((padLen + 3) / 4) * 4 in
  Pkt sender media (f_base f) (f_count f) ((f_ref f mod 4294967296) mod 16777216) fbcnt
      ((padded / 4 - 1) mod 65536) (if padLen mod 4 =? 0 then 0 else 1) padded
      (map wire_chunk chs) (f_deltas f) [].
