(* C18, round-4 strengthening: a third implementation of the queue interface
   [pq_ops] of Model/JitterBuffer.v, cheap enough to be EVALUATED on histories
   that buffer 2^16 packets and more (the pointer-level queue of
   Model/PriorityQueue.v costs O(n^2) list steps per Push, the plain list queue
   O(n) per Push and per Length).

   The queue is the ordered list of Model/PriorityQueue.v ([aq]) cut at a
   "finger": [frf] holds the part before the finger in reverse, [fbk] the part
   after it; the list is [rev frf ++ fbk].  Push moves the finger to the place
   where the Go loop of PriorityQueue.Push stops (before the first element whose
   priority is >= the new one) and inserts there, so a run of pushes with
   neighbouring sequence numbers costs O(1) each.  The uint16 [length] field of
   the Go queue is kept as a cached field [fn], incremented and decremented
   modulo 2^16 exactly where the Go code does ([q.length++], [q.length--],
   [q.length = 0]) - it is NOT recomputed from the list, so that the wrap of the
   counter at 2^16 buffered packets is what the jitter buffer sees.

   Find, PopAt, PopAtTimestamp and Clear are the list operations on the whole
   list (they are rare in the long histories).

   Proofs/FastQueueProofs.v: on every history the jitter buffer over this queue
   produces exactly the outputs of the buffer over the list queue and hence of
   the buffer over the pointer-level queue. *)
From IV Require Import Base.Word Model.PriorityQueue Model.JitterBuffer.

Record fq : Type := mkFQ {
  frf : aq;      (* elements before the finger, nearest first *)
  fbk : aq;      (* elements after the finger *)
  fn : Z         (* PriorityQueue.length, uint16 *)
}.

Definition fq_new : fq := mkFQ [] [] 0.

(* the ordered list the structure stands for *)
Definition fq_list (f : fq) : aq := rev_append (frf f) (fbk f).

(* move the finger towards the front while the element before it is >= p *)
Fixpoint seek_left (rf bk : aq) (p : Z) : aq * aq :=
  match rf with
  | [] => ([], bk)
  | x :: rf' => if p <=? fst x then seek_left rf' (x :: bk) p else (rf, bk)
  end.

(* move the finger towards the back while the element after it is < p *)
Fixpoint seek_right (rf bk : aq) (p : Z) : aq * aq :=
  match bk with
  | [] => (rf, [])
  | x :: bk' => if p <=? fst x then (rf, bk) else seek_right (x :: rf) bk' p
  end.

(* Push: insert before the first element with priority >= prio; q.length++ *)
Definition fq_push (f : fq) (v : option packet) (prio : Z) : Res fq :=
  let '(rf1, bk1) := seek_left (frf f) (fbk f) prio in
  let '(rf2, bk2) := seek_right rf1 bk1 prio in
  Ok (mkFQ rf2 ((prio, v) :: bk2) (u16 (fn f + 1))).

Definition fq_find (f : fq) (sq : Z) : Res (option packet) := aq_find (fq_list f) sq.

(* PopAt / PopAtTimestamp: q.length-- on success *)
Definition fq_popat (f : fq) (k : key) : Res (option packet * fq) :=
  match aq_popat (fq_list f) k with
  | Ok (w, l') => Ok (w, mkFQ [] l' (u16 (fn f - 1)))
  | Err e => Err e
  | Panic => Panic
  | Diverge => Diverge
  end.

(* Pop: removes the first element *)
Definition fq_pop (f : fq) : Res (option packet * fq) :=
  match aq_pop (fq_list f) with
  | Ok (w, l') => Ok (w, mkFQ [] l' (u16 (fn f - 1)))
  | Err e => Err e
  | Panic => Panic
  | Diverge => Diverge
  end.

(* Clear: q.next = nil; q.length = 0 *)
Definition fq_clear (f : fq) : Res fq := Ok fq_new.

Definition fast_ops : pq_ops fq := mkOps fq fn fq_push fq_find fq_popat fq_clear.

(* the jitter buffer over the finger queue *)
Definition fjb_new (min : Z) : jb fq := jb_new fq_new min.
Definition fjb_run (min : Z) (ops : list op) : list (out * list Z) := jb_run fast_ops (fjb_new min) ops.
