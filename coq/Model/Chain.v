(* Model of chain.go, noop.go, errors.go, attributes.go and of the Bind* closures
   of the library's pass-through interceptors (C01).

   A writer is a stateful function  packet -> state -> state * (n, error);
   a wrapper maps an inner writer (over ANY inner state type) to a writer over
   (own state * inner state): the only way a wrapper can touch the inner state
   is by calling the inner writer.  Likewise readers.  No proofs here. *)
From IV Require Import Base.Word Model.TwccHdrExt.
Open Scope Z_scope.

(* ------------------------------------------------------------------------- *)
(* errors.go                                                                 *)

(* error values as seen by errors.Is: a sentinel, or a multiError / joined error *)
Inductive err := ELeaf (id : Z) | EMulti (l : list err).

(* errors.Is(e, sentinel t): e == t, or (multiError.Is) some member Is t *)
Fixpoint err_is (e : err) (t : Z) : bool :=
  match e with
  | ELeaf a => a =? t
  | EMulti l => (fix any (l : list err) : bool :=
                   match l with [] => false | x :: tl => err_is x t || any tl end) l
  end.

(* flattenErrs: drop nils; nil when nothing is left; else multiError(errs2) *)
Fixpoint drop_nil (l : list (option err)) : list err :=
  match l with [] => [] | None :: tl => drop_nil tl | Some e :: tl => e :: drop_nil tl end.

Definition flatten_errs (l : list (option err)) : option err :=
  match drop_nil l with [] => None | l2 => Some (EMulti l2) end.

(* ------------------------------------------------------------------------- *)
(* writers                                                                   *)

(* result of RTPWriter.Write: (n, errors found by errors.Is; [] = nil error).
   errors.Join (flexfec) is list concatenation. *)
Definition wres := (Z * list Z)%type.

Section Writers.
  Variable P : Type.                           (* packet handed to Write *)

  Definition writer (S : Type) := P -> S -> S * wres.

  (* own state of a wrapper: a counter and a log (what it has accounted / buffered) *)
  Record ws := mkWs { w_ctr : Z; w_log : list P }.
  Definition ws0 := mkWs 0 [].

  Definition wrapper := forall S : Type, writer S -> writer (ws * S).

  (* calling a writer on a list of packets, collecting the results *)
  Fixpoint run_list {S} (inner : writer S) (qs : list P) (s : S) : S * list wres :=
    match qs with
    | [] => (s, [])
    | q :: tl => let '(s1, r) := inner q s in
                 let '(s2, rs) := run_list inner tl s1 in (s2, r :: rs)
    end.

  (* NoOp.BindLocalStream / any Bind* that returns the writer it was given *)
  Definition w_id : wrapper := fun S inner p st =>
    let '(w, s) := st in let '(s', r) := inner p s in ((w, s'), r).

  (* "account, then return writer.Write(header, payload, attributes)":
     report.SenderInterceptor (stream.processRTP), stats (QueueOutgoingRTP),
     packetdump.SenderInterceptor (logRTPPacket), rtpfb bindCCFBStream / bindTWCCStream
     (history.addOutgoing in both branches), instrumented mock members *)
  Definition w_record : wrapper := fun S inner p st =>
    let '(w, s) := st in
    let w' := mkWs (w_ctr w + 1) (w_log w ++ [p]) in
    let '(s', r) := inner p s in ((w', s'), r).

  (* nack.ResponderInterceptor.BindLocalStream.
     bound = streamsFilter(info); same = (header.SSRC == info.SSRC);
     np_fail = packetFactory.NewPacket returns an error (payload > 1460 or padding overflow) *)
  Variable same_stream : P -> bool.
  Variable np_fail : P -> bool.
  Definition E_NEWPACKET : Z := 900. (* errors made by the library itself: one code (the harness cannot tell them apart) *)
  Definition w_responder (bound : bool) : wrapper := fun S inner p st =>
    if negb bound then w_id S inner p st else
    let '(w, s) := st in
    if negb (same_stream p) then let '(s', r) := inner p s in ((w, s'), r)
    else if np_fail p then ((w, s), (0, [E_NEWPACKET]))
    else
      let w' := mkWs (w_ctr w + 1) (w_log w ++ [p]) in      (* rtpBuffer.Add(pkt) *)
      let '(s', r) := inner p s in ((w', s'), r).

  (* twcc.HeaderExtensionInterceptor.BindLocalStream.  sid = hdrExtID (0: writer returned
     unchanged); set_ext = header.SetExtension(sid, tcc(ctr)) (None = error). *)
  Variable set_tcc : Z -> Z -> P -> option P.   (* sid, sequence number, packet *)
  Definition E_SETEXT : Z := 900.
  Definition w_twcc_ext (sid : Z) : wrapper := fun S inner p st =>
    if sid =? 0 then w_id S inner p st else
    let '(w, s) := st in
    let n := w_ctr w in
    let w' := mkWs ((n + 1) mod 4294967296) (w_log w) in     (* atomic.AddUint32 *)
    match set_tcc sid n p with
    | None => ((w', s), (0, [E_SETEXT]))
    | Some p' => let '(s', r) := inner p' s in ((w', s'), r)
    end.

  (* flexfec.FecInterceptor.BindLocalStream.  on = FEC payload type and SSRC configured;
     encode = flexFecEncoder.EncodeFec(packetBuffer, numFecPackets) *)
  Variable encode : list P -> list P.
  Definition w_flexfec (on : bool) (num_media : Z) : wrapper := fun S inner p st =>
    if negb on then w_id S inner p st else
    let '(w, s) := st in
    if negb (same_stream p) then let '(s', r) := inner p s in ((w, s'), r)
    else
      let buf := w_log w ++ [p] in
      let full := Z.of_nat (length buf) =? num_media in
      let fec := if full then encode buf else [] in
      let w' := mkWs (w_ctr w) (if full then [] else buf) in
      let '(s1, r) := inner p s in                           (* media packet first *)
      let '(s2, rs) := run_list inner fec s1 in              (* then the FEC packets *)
      ((w', s2), (fst r, snd r ++ flat_map snd rs)).         (* result, errors.Join(errs...) *)

  (* ---- Chain.BindLocalStream ----
     chain.go folds left over the members: member 0 wraps the transport writer,
     the last member is outermost.  [bind_outer l] takes the members OUTERMOST
     FIRST (= rev of Chain.interceptors); the states travel in the same order. *)
  Fixpoint bind_outer (l : list wrapper) {S} (inner : writer S) : writer (list ws * S) :=
    match l with
    | [] => fun p st => let '(sts, s) := st in let '(s', r) := inner p s in ((sts, s'), r)
    | w :: tl => fun p st =>
        let '(sts, s) := st in
        let own := hd ws0 sts in
        let '((own', (sts', s')), r) := w _ (bind_outer tl inner) p (own, (List.tl sts, s)) in
        ((own' :: sts', s'), r)
    end.

  (* Chain.BindLocalStream(info, writer) for Chain.interceptors = l (member 0 first) *)
  Definition chain_bind (l : list wrapper) {S} (inner : writer S) : writer (list ws * S) :=
    bind_outer (rev l) inner.

  (* a member at outer-index k (0 = outermost) calling ITS inner writer directly with a
     packet of its own (retransmission from the responder's goroutine) *)
  Definition chain_inject (l : list wrapper) (k : nat) {S} (inner : writer S) : writer (list ws * S) :=
    fun q st =>
      let '(sts, s) := st in
      let '((sts', s'), r) := bind_outer (skipn (Datatypes.S k) l) inner q (skipn (Datatypes.S k) sts, s) in
      ((firstn (Datatypes.S k) sts ++ sts', s'), r).
End Writers.

Arguments mkWs {P}. Arguments w_ctr {P}. Arguments w_log {P}. Arguments ws0 {P}.
Arguments w_id {P}. Arguments w_record {P}. Arguments w_responder {P}.
Arguments w_twcc_ext {P}. Arguments w_flexfec {P}. Arguments run_list {P S}.
Arguments bind_outer {P} l {S}. Arguments chain_bind {P} l {S}. Arguments chain_inject {P} l k {S}.

(* ------------------------------------------------------------------------- *)
(* readers and attributes.go                                                 *)

Section Readers.
  Variable D : Type.                 (* the bytes b[:n] the inner reader delivered *)
  Variable H : Type.                 (* their parsed form ( rtp.Header pointer / rtcp.Packet slice) *)
  Variable parse : D -> option H.    (* header.Unmarshal / rtcp.Unmarshal; None = error *)

  (* interceptor.Attributes: map identity (maps are reference values), the parse
     cache under rtpHeaderKey / rtcpPacketsKey, other keys *)
  Record attrs := mkA { a_id : Z; a_cache : option H; a_keys : list Z }.

  (* (n, b[:n], attributes (None = nil map), errors ([] = nil)) *)
  Definition rres := (Z * D * option attrs * list Z)%type.
  (* Read(b, a): the input attributes are an argument *)
  Definition reader (S : Type) := option attrs -> S -> S * rres.

  Record rs := mkRs { r_ctr : Z; r_log : list H }.
  Definition rs0 := mkRs 0 [].
  Definition rwrapper := forall S : Type, reader S -> reader (rs * S).

  Definition E_PARSE : Z := 900.
  Definition FRESH_ID : Z := -1.     (* make(interceptor.Attributes) inside a wrapper *)

  (* "if attr == nil { attr = make(Attributes) }" *)
  Definition or_fresh (a : option attrs) : attrs :=
    match a with Some x => x | None => mkA FRESH_ID None [] end.

  (* Attributes.GetRTPHeader(raw) / GetRTCPPackets(raw): cache hit returns the cached
     value; otherwise unmarshal, store, return.  None = error (map unchanged). *)
  Definition get_parsed (a : attrs) (raw : D) : option (H * attrs) :=
    match a_cache a with
    | Some h => Some (h, a)
    | None => match parse raw with
              | Some h => Some (h, mkA (a_id a) (Some h) (a_keys a))
              | None => None
              end
    end.

  Definition r_id : rwrapper := fun S inner a st =>
    let '(w, s) := st in let '(s', r) := inner a s in ((w, s'), r).

  (* the common shape (nack generator, report receiver, rfc8888, packetdump receiver
     [after fix F24], RTCP: nack responder, report receiver, cc; the packetdump receiver's
     RTCP side is r_parse_nocache below):
       i, attr, err := reader.Read(b, a); if err != nil { return 0, nil, err }
       if attr == nil { attr = make }; h, err := attr.Get...(b[:i]); if err != nil { return 0, nil, err }
       account(h); return i, attr, nil
     [keep h] decides whether this wrapper accounts the packet (always true for RTP;
     lets the RTCP instances ignore packets that are not theirs) *)
  Definition r_parse_record (keep : H -> bool) : rwrapper := fun S inner a st =>
    let '(w, s) := st in
    let '(s', (n, d, at_, e)) := inner a s in
    match e with
    | _ :: _ => ((w, s'), (0, d, None, e))
    | [] =>
      match get_parsed (or_fresh at_) d with
      | None => ((w, s'), (0, d, None, [E_PARSE]))
      | Some (h, at') =>
          let w' := if keep h then mkRs (r_ctr w + 1) (r_log w ++ [h]) else w in
          ((w', s'), (n, d, Some at', []))
      end
    end.

  (* packetdump.ReceiverInterceptor.BindRTCPReader (after the fix "parses incoming RTCP from a
     private copy of the read buffer"):
       i, attr, err := reader.Read(b, a); if err != nil { return 0, nil, err }
       if attr == nil { attr = make }
       pkts, err := rtcp.Unmarshal(append([]byte(nil), b[:i]...)); if err != nil { return 0, nil, err }
       log(pkts); return i, attr, nil
     the parse cache of the attributes is neither consulted nor filled *)
  Definition r_parse_nocache : rwrapper := fun S inner a st =>
    let '(w, s) := st in
    let '(s', (n, d, at_, e)) := inner a s in
    match e with
    | _ :: _ => ((w, s'), (0, d, None, e))
    | [] =>
      match parse d with
      | None => ((w, s'), (0, d, None, [E_PARSE]))
      | Some h => ((mkRs (r_ctr w + 1) (r_log w ++ [h]), s'), (n, d, Some (or_fresh at_), []))
      end
    end.

  (* twcc.SenderInterceptor.BindRemoteStream: as above, then the extension is looked up;
     ext h = None: no extension, nothing recorded; Some false: extension shorter than two
     bytes -> error returned; Some true: recorded *)
  Variable tcc_ext : H -> option bool.
  Definition E_TCCEXT : Z := 900.
  Definition r_twcc_sender (sid : Z) : rwrapper := fun S inner a st =>
    if sid =? 0 then r_id S inner a st else
    let '(w, s) := st in
    let '(s', (n, d, at_, e)) := inner a s in
    match e with
    | _ :: _ => ((w, s'), (0, d, None, e))
    | [] =>
      match get_parsed (or_fresh at_) d with
      | None => ((w, s'), (0, d, None, [E_PARSE]))
      | Some (h, at') =>
          match tcc_ext h with
          | None => ((w, s'), (n, d, Some at', []))
          | Some false => ((w, s'), (0, d, None, [E_TCCEXT]))
          | Some true => ((mkRs (r_ctr w + 1) (r_log w ++ [h]), s'), (n, d, Some at', []))
          end
      end
    end.

  (* stats.Interceptor.BindRemoteStream:
       n, attributes, err := reader.Read(bytes, attributes); if err != nil { return 0, nil, err }
       recorder.QueueIncomingRTP(now, bytes[:n], attributes); return n, attributes, nil
     QueueIncomingRTP: nil attributes -> a local map (not returned); parse failure -> skipped *)
  Definition r_stats : rwrapper := fun S inner a st =>
    let '(w, s) := st in
    let '(s', (n, d, at_, e)) := inner a s in
    match e with
    | _ :: _ => ((w, s'), (0, d, None, e))
    | [] =>
      match get_parsed (or_fresh at_) d with
      | None => ((w, s'), (n, d, at_, []))
      | Some (h, at') =>
          ((mkRs (r_ctr w + 1) (r_log w ++ [h]), s'),
           (n, d, match at_ with None => None | Some _ => Some at' end, []))
      end
    end.

  (* stats.Interceptor.BindRTCPReader: like r_stats, but the recorder is given the INPUT
     attributes (the argument of Read), not the returned ones; the returned map only sees
     the cache when it is the same map; on error returns (0, attattributes, err) *)
  Definition r_stats_rtcp : rwrapper := fun S inner a st =>
    let '(w, s) := st in
    let '(s', (n, d, at_, e)) := inner a s in
    match e with
    | _ :: _ => ((w, s'), (0, d, at_, e))
    | [] =>
      (* the map the recorder works on: the input map; when the inner reader returned
         that same map, it is the returned map as the inner reader left it *)
      let same := match a, at_ with Some ai, Some ar => a_id ai =? a_id ar | _, _ => false end in
      let used := if same then or_fresh at_ else or_fresh a in
      match get_parsed used d with
      | None => ((w, s'), (n, d, at_, []))
      | Some (h, used') =>
          ((mkRs (r_ctr w + 1) (r_log w ++ [h]), s'), (n, d, if same then Some used' else at_, []))
      end
    end.

  (* rtpfb.Interceptor.BindRTCPReader: errors are returned as (n, attr, err); a report
     may be stored under CCFBAttributesKey (has_report decides) *)
  Variable has_report : rs -> H -> bool.
  Definition CCFB_KEY : Z := 77.
  Definition r_rtpfb : rwrapper := fun S inner a st =>
    let '(w, s) := st in
    let '(s', (n, d, at_, e)) := inner a s in
    match e with
    | _ :: _ => ((w, s'), (n, d, at_, e))
    | [] =>
      match get_parsed (or_fresh at_) d with
      | None => ((w, s'), (n, d, Some (or_fresh at_), [E_PARSE]))
      | Some (h, at') =>
          let w' := mkRs (r_ctr w + 1) (r_log w ++ [h]) in
          let at'' := if has_report w h then mkA (a_id at') (a_cache at') (CCFB_KEY :: a_keys at') else at' in
          ((w', s'), (n, d, Some at'', []))
      end
    end.

  (* Chain.BindRemoteStream / BindRTCPReader: same left fold as for writers *)
  Fixpoint rbind_outer (l : list rwrapper) {S} (inner : reader S) : reader (list rs * S) :=
    match l with
    | [] => fun a st => let '(sts, s) := st in let '(s', r) := inner a s in ((sts, s'), r)
    | w :: tl => fun a st =>
        let '(sts, s) := st in
        let own := hd rs0 sts in
        let '((own', (sts', s')), r) := w _ (rbind_outer tl inner) a (own, (List.tl sts, s)) in
        ((own' :: sts', s'), r)
    end.
  Definition rchain_bind (l : list rwrapper) {S} (inner : reader S) : reader (list rs * S) :=
    rbind_outer (rev l) inner.
End Readers.

Arguments mkA {H}. Arguments a_id {H}. Arguments a_cache {H}. Arguments a_keys {H}.
Arguments mkRs {H}. Arguments r_ctr {H}. Arguments r_log {H}. Arguments rs0 {H}.
Arguments or_fresh {H}. Arguments get_parsed {D H}. Arguments r_id {D H}.
Arguments r_parse_record {D H}. Arguments r_parse_nocache {D H}. Arguments r_twcc_sender {D H}. Arguments r_stats {D H}.
Arguments r_stats_rtcp {D H}. Arguments r_rtpfb {D H}.
Arguments rbind_outer {D H} l {S}. Arguments rchain_bind {D H} l {S}.

(* ------------------------------------------------------------------------- *)
(* Chain.Close / Unbind*                                                     *)

(* a member as far as Close/Unbind are concerned: how often each was delivered, and
   the error its Close returns *)
Record member := mkM { m_closed : Z; m_unbound_local : Z; m_unbound_remote : Z; m_close_err : option err }.

Definition close_member (m : member) : member * option err :=
  (mkM (m_closed m + 1) (m_unbound_local m) (m_unbound_remote m) (m_close_err m), m_close_err m).

(* Chain.Close: for each member errs = append(errs, member.Close()); flattenErrs(errs) *)
Fixpoint close_all (l : list member) : list member * list (option err) :=
  match l with
  | [] => ([], [])
  | m :: tl => let '(m', e) := close_member m in
               let '(tl', es) := close_all tl in (m' :: tl', e :: es)
  end.
Definition chain_close (l : list member) : list member * option err :=
  let '(l', es) := close_all l in (l', flatten_errs es).

(* Chain.UnbindLocalStream / UnbindRemoteStream *)
Definition chain_unbind_local (l : list member) : list member :=
  map (fun m => mkM (m_closed m) (m_unbound_local m + 1) (m_unbound_remote m) (m_close_err m)) l.
Definition chain_unbind_remote (l : list member) : list member :=
  map (fun m => mkM (m_closed m) (m_unbound_local m) (m_unbound_remote m + 1) (m_close_err m)) l.

(* Registry.Build: NoOp for the empty registry, else NewChain of the factories in order *)
Definition registry_build {A} (noop : A) (chain : list A -> A) (factories : list A) : A :=
  match factories with [] => noop | _ => chain factories end.
