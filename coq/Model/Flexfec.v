(* Model of the FlexFEC-03 encoder of pkg/flexfec (after the fix: commit of C14):
     util/bitarray.go             BitArray.SetBit/GetBit/Reset
     flexfec_coverage.go          NewCoverage, UpdateCoverage, resetCoverage, GetCoveredBy, extractMask1/2/3_03
     util/media_packet_iterator.go (the iterator is the list of covered packets, in index order)
     flexfec_encoder_03.go        NewFlexEncoder03, EncodeFec, encodeFlexFecPacket
     encoder_interceptor.go       the RTPWriter returned by BindLocalStream (one media stream)
   Media packets are their MARSHALLED form (byte lists; pion/rtp Marshal/MarshalSize are trusted and
   performed by the harness): MarshalSize = length, SequenceNumber = bytes 2..3, SSRC = bytes 8..11.
   No proofs here. *)
From IV Require Export Base.Word.

Inductive res (A : Type) : Type := Ok (a : A) | Panic.
Arguments Ok {A} a.
Arguments Panic {A}.

Definition pkt := list Z.
Definition byte (p : list Z) (i : nat) : Z := nth i p 0.
Definition zlen {A} (p : list A) : Z := Z.of_nat (length p).
Definition sn_of (p : pkt) : Z := byte p 2 * 256 + byte p 3.
Definition ssrc_bytes (p : pkt) : list Z := [byte p 8; byte p 9; byte p 10; byte p 11].

(* big-endian byte strings of machine words (binary.BigEndian.PutUintN) *)
Definition be16 (x : Z) : list Z := [x / 256 mod 256; x mod 256].
Definition be32 (x : Z) : list Z := [x / 16777216 mod 256; x / 65536 mod 256; x / 256 mod 256; x mod 256].
Definition be64 (x : Z) : list Z := be32 (x / 4294967296) ++ be32 (x mod 4294967296).
(* b[0] |= 0b10000000 *)
Definition or_first (bs : list Z) : list Z :=
  match bs with [] => [] | b :: tl => Z.lor b 128 :: tl end.

(* ---- util/bitarray.go ---- *)
Definition bitarray := (Z * Z)%type.      (* Lo (bits 0..63, bit 0 is the MSB), Hi (bits 64..127) *)
Definition ba_zero : bitarray := (0, 0).
(* uint64(1) << j where j is the uint32 value 63 - index: a wrapped (negative here) count shifts everything out *)
Definition bit64 (j : Z) : Z := if (0 <=? j) && (j <? 64) then Z.shiftl 1 j else 0.
Definition ba_set (b : bitarray) (i : Z) : bitarray :=
  if i <? 64 then (Z.lor (fst b) (bit64 (63 - i)), snd b)
  else (fst b, Z.lor (snd b) (bit64 (63 - (i - 64)))).
Definition ba_get (b : bitarray) (i : Z) : bool :=
  if i <? 64 then 0 <? Z.land (fst b) (bit64 (63 - i))
  else 0 <? Z.land (snd b) (bit64 (63 - (i - 64))).

(* ---- flexfec_coverage.go ---- *)
Definition MaxMediaPackets : Z := 110.
Definition MaxFecPackets : Z := 110.

Record coverage := {
  c_masks : list bitarray;      (* packetMasks [110]BitArray *)
  c_nf : Z;                     (* numFecPackets *)
  c_nm : Z;                     (* numMediaPackets *)
  c_media : list pkt            (* mediaPackets *)
}.

(* inner loop of UpdateCoverage: for c := f; c < k; c += n { masks[f].SetBit(c) }
   (runs only for f < n, hence n >= 1 and at most k iterations: fuel k) *)
Fixpoint cover_loop (fuel : nat) (n k c : Z) (b : bitarray) : bitarray :=
  match fuel with
  | O => b
  | S fu => if c <? k then cover_loop fu n k (c + n) (ba_set b c) else b
  end.

(* resetCoverage followed by the outer loop "for f := range numFecPackets": row f is written only by
   iteration f, rows >= n stay zero.  (Rows >= 110 are never indexed by the loop because f >= 110 > k-1.) *)
Definition build_masks (n k : Z) : list bitarray :=
  map (fun f => if f <? n then cover_loop (Z.to_nat k) n k f ba_zero else ba_zero) (zrange 0 110).

Definition update_coverage (p : coverage) (media : list pkt) (n : Z) : coverage :=
  let k := zlen media in
  if (k <=? 0) || (k >? MaxMediaPackets) then p
  else if (n =? c_nf p) && (k =? c_nm p)
       then {| c_masks := c_masks p; c_nf := c_nf p; c_nm := c_nm p; c_media := media |}
       else {| c_masks := build_masks n k; c_nf := n; c_nm := k; c_media := media |}.

Definition new_coverage (media : list pkt) (n : Z) : option coverage :=
  let k := zlen media in
  if (k <=? 0) || (k >? MaxMediaPackets) then None
  else Some (update_coverage {| c_masks := repeat ba_zero 110; c_nf := 0; c_nm := 0; c_media := [] |} media n).

Definition row (p : coverage) (f : Z) : bitarray := nth (Z.to_nat f) (c_masks p) ba_zero.

(* GetCoveredBy: indices of the set bits below numMediaPackets, ascending *)
Definition covered_idx (b : bitarray) (k : Z) : list Z :=
  filter (ba_get b) (zrange 0 (Z.to_nat k)).

Definition extract_mask1 (b : bitarray) : Z := Z.shiftr (fst b) 49.
Definition extract_mask2 (b : bitarray) : Z := Z.shiftr ((Z.shiftl (fst b) 15) mod 18446744073709551616) 33.
Definition extract_mask3_03 (b : bitarray) : Z :=
  Z.shiftr (Z.lor ((Z.shiftl (fst b) 46) mod 18446744073709551616) (Z.shiftr (snd b) 18)) 1.

(* ---- flexfec_encoder_03.go ---- *)
(* repair packet: payload type, sequence number, SSRC of the rtp.Header (version 2, no padding /
   extension / marker / CSRC, timestamp 54243243 are constants) and the FlexFEC payload *)
Record repair := { r_pt : Z; r_sn : Z; r_ssrc : Z; r_payload : list Z }.
Definition FEC_TS : Z := 54243243.

(* acc[i] ^= src[i] for i < len src.  Go would panic if acc were shorter; the buffer has the maximum
   length of all sources (lemma xor_into_length in the proofs: never truncates there). *)
Fixpoint xor_into (acc src : list Z) : list Z :=
  match acc, src with
  | a :: acc', s :: src' => Z.lxor a s :: xor_into acc' src'
  | _, [] => acc
  | [], _ :: _ => []
  end.

(* the 8 recovery bytes of the FEC header and the repair payload while looping over the covered packets *)
Record facc := { a_h0 : Z; a_h1 : Z; a_h2 : Z; a_h3 : Z; a_h4 : Z; a_h5 : Z; a_h6 : Z; a_h7 : Z; a_rep : list Z }.

Definition len_recovery (p : pkt) : Z := (zlen p - 12) mod 65536.   (* uint16(MarshalSize - 12) *)

(* body of the second loop of encodeFlexFecPacket *)
Definition fec_step (a : facc) (p : pkt) : facc :=
  {| a_h0 := Z.land (Z.lxor (a_h0 a) (byte p 0)) 63;
     a_h1 := Z.lxor (a_h1 a) (byte p 1);
     a_h2 := Z.lxor (a_h2 a) ((len_recovery p / 256) mod 256);
     a_h3 := Z.lxor (a_h3 a) (len_recovery p mod 256);
     a_h4 := Z.lxor (a_h4 a) (byte p 4);
     a_h5 := Z.lxor (a_h5 a) (byte p 5);
     a_h6 := Z.lxor (a_h6 a) (byte p 6);
     a_h7 := Z.lxor (a_h7 a) (byte p 7);
     a_rep := xor_into (a_rep a) (skipn 12 p) |}.

Definition max_payload (ps : list pkt) : Z := fold_left (fun m p => Z.max m (zlen p - 12)) ps 0.

Definition mask_bytes (m1 m2 m3 : Z) : list Z :=
  if (m2 =? 0) && (m3 =? 0) then or_first (be16 m1)
  else be16 m1 ++ (if m3 =? 0 then or_first (be32 m2) else be32 m2 ++ or_first (be64 m3)).

Definition fec_payload (ps : list pkt) (base_sn m1 m2 m3 : Z) : list Z :=
  let a := fold_left fec_step ps
             {| a_h0 := 0; a_h1 := 0; a_h2 := 0; a_h3 := 0; a_h4 := 0; a_h5 := 0; a_h6 := 0; a_h7 := 0;
                a_rep := repeat 0 (Z.to_nat (max_payload ps)) |} in
  [a_h0 a; a_h1 a; a_h2 a; a_h3 a; a_h4 a; a_h5 a; a_h6 a; a_h7 a; 1; 0; 0; 0]
  ++ ssrc_bytes (hd [] ps) ++ be16 base_sn ++ mask_bytes m1 m2 m3 ++ a_rep a.

(* encodeFlexFecPacket(f, mediaBaseSn): Panic = index out of range on packetMasks[f];
   Ok None = (rtp.Packet{}, false); the sequence counter advances only on success *)
Definition encode_packet (c : coverage) (pt ssrc base_sn f sn : Z) : res (option repair) :=
  if MaxFecPackets <=? f then Panic else
  let b := row c f in
  let idx := covered_idx b (c_nm c) in
  match idx with
  | [] => Ok None
  | _ =>
    let ps := map (fun i => nth (Z.to_nat i) (c_media c) []) idx in
    Ok (Some {| r_pt := pt; r_sn := sn; r_ssrc := ssrc;
                r_payload := fec_payload ps base_sn (extract_mask1 b) (extract_mask2 b) (extract_mask3_03 b) |})
  end.

Fixpoint encode_loop (c : coverage) (pt ssrc base_sn : Z) (fs : list Z) (sn : Z) : res (Z * list repair) :=
  match fs with
  | [] => Ok (sn, [])
  | f :: fs' =>
    match encode_packet c pt ssrc base_sn f sn with
    | Panic => Panic
    | Ok None => encode_loop c pt ssrc base_sn fs' sn
    | Ok (Some r) =>
      match encode_loop c pt ssrc base_sn fs' (add16 sn 1) with
      | Panic => Panic
      | Ok (sn', rs) => Ok (sn', r :: rs)
      end
    end
  end.

Record enc := { e_sn : Z; e_pt : Z; e_ssrc : Z; e_cov : option coverage }.
Definition new_encoder (pt ssrc : Z) : enc := {| e_sn := 1000; e_pt := pt; e_ssrc := ssrc; e_cov := None |}.

Fixpoint consecutive (prev : Z) (l : list pkt) : bool :=
  match l with
  | [] => true
  | p :: tl => (sn_of p =? add16 prev 1) && consecutive (sn_of p) tl
  end.

(* EncodeFec.  [limit] is the largest batch the encoder accepts: 109 after the fix (the FlexFEC-03 mask has
   109 positions); the code before the fix had no such test (any limit >= 110 behaves like it on batches
   of at most 110 packets).  Result: Ok None = nil, Ok (Some l) = the repair packets, Panic.
   The loop "for f := range numFecPackets" is cut at 111 iterations: iteration 110 panics. *)
Definition encode_fec_gen (limit : Z) (e : enc) (media : list pkt) (n : Z) : enc * res (option (list repair)) :=
  let k := zlen media in
  if (k =? 0) || (k >? limit) then (e, Ok None) else
  if negb (match media with [] => true | p :: tl => consecutive (sn_of p) tl end) then (e, Ok None) else
  let cov := match e_cov e with
             | None => new_coverage media n
             | Some c => Some (update_coverage c media n)
             end in
  match cov with
  | None => ({| e_sn := e_sn e; e_pt := e_pt e; e_ssrc := e_ssrc e; e_cov := None |}, Ok None)
  | Some c =>
    match encode_loop c (e_pt e) (e_ssrc e) (sn_of (hd [] media))
                      (zrange 0 (Z.to_nat (Z.min n 111))) (e_sn e) with
    | Panic => ({| e_sn := e_sn e; e_pt := e_pt e; e_ssrc := e_ssrc e; e_cov := Some c |}, Panic)
    | Ok (sn', rs) => ({| e_sn := sn'; e_pt := e_pt e; e_ssrc := e_ssrc e; e_cov := Some c |}, Ok (Some rs))
    end
  end.

Definition MASK03_POSITIONS : Z := 109.
Definition encode_fec := encode_fec_gen MASK03_POSITIONS.

(* a history of EncodeFec calls through one encoder; stops at the first panic *)
Fixpoint run_batches_gen (limit : Z) (e : enc) (bs : list (list pkt * Z)) : list (res (option (list repair))) :=
  match bs with
  | [] => []
  | (media, n) :: tl =>
    let '(e', r) := encode_fec_gen limit e media n in
    r :: match r with Panic => [] | _ => run_batches_gen limit e' tl end
  end.
Definition run_batches := run_batches_gen MASK03_POSITIONS.

(* ---- encoder_interceptor.go: the writer of one bound stream ---- *)
Record icpt := { i_nm : Z; i_nf : Z; i_ssrc : list Z (* media SSRC bytes *); i_enc : enc; i_buf : list pkt }.
Inductive out := OMedia (p : pkt) | ORepair (r : repair).

Definition list_Z_eqb := list_eqb Z.eqb.

Definition i_write (s : icpt) (p : pkt) : icpt * res (list out) :=
  if negb (list_Z_eqb (ssrc_bytes p) (i_ssrc s)) then (s, Ok [OMedia p]) else
  let buf := i_buf s ++ [p] in
  if zlen buf =? i_nm s then
    let '(e', r) := encode_fec (i_enc s) buf (i_nf s) in
    let s' := {| i_nm := i_nm s; i_nf := i_nf s; i_ssrc := i_ssrc s; i_enc := e'; i_buf := [] |} in
    match r with
    | Panic => (s', Panic)
    | Ok None => (s', Ok [OMedia p])
    | Ok (Some rs) => (s', Ok (OMedia p :: map ORepair rs))
    end
  else ({| i_nm := i_nm s; i_nf := i_nf s; i_ssrc := i_ssrc s; i_enc := i_enc s; i_buf := buf |}, Ok [OMedia p]).

Fixpoint i_run (s : icpt) (ws : list pkt) : list (res (list out)) :=
  match ws with
  | [] => []
  | p :: tl => let '(s', r) := i_write s p in r :: match r with Panic => [] | _ => i_run s' tl end
  end.

Definition new_icpt (nm nf pt fec_ssrc : Z) (media_ssrc : list Z) : icpt :=
  {| i_nm := nm; i_nf := nf; i_ssrc := media_ssrc; i_enc := new_encoder pt fec_ssrc; i_buf := [] |}.
