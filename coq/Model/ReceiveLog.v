(* Model of pkg/nack/receive_log.go (type receiveLog), as the code is AFTER the
   fix: commits of C03 (window guard in add, skipLastN compared with
   end-lastConsecutive in missingSeqNumbers).  The pre-fix functions are kept at
   the end (add_old / missing_old) for the *_prefix_refuted examples.

   uint16 values are Z in [0,65536) with explicit mod at every Go arithmetic
   site.  The bitmap `packets []uint64` is modelled at bit granularity as a
   total function slot -> bool (slot = seq % size; the packing of 64 slots per
   word, pos/64 and pos%64, is abstracted: setReceived/delReceived/getReceived
   touch exactly bit `pos`). *)
From IV Require Import Base.Word.

Record rlog := mk_rlog {
  bits : Z -> bool;      (* packets, by slot *)
  rsize : Z;             (* size *)
  rend : Z;              (* end *)
  started : bool;        (* started *)
  lastc : Z              (* lastConsecutive *)
}.

Definition valid_sizes : list Z := [64; 128; 256; 512; 1024; 2048; 4096; 8192; 16384; 32768].

(* newReceiveLog: size must be 1<<i for i in 6..15 *)
Definition new_log (size : Z) : option rlog :=
  if existsb (Z.eqb size) valid_sizes
  then Some (mk_rlog (fun _ => false) size 0 false 0)
  else None.

(* `pos := seq % s.size`.  size is a power of two (newReceiveLog accepts nothing
   else), so the remainder is the mask seq & (size-1); the model uses the mask
   because Z.land is 20x cheaper than Z.modulo under vm_compute.
   Proofs/ReceiveLogProofs.v, slot_mod: slot sz seq = seq mod sz for every
   valid size. *)
Definition slot (sz seq : Z) : Z := Z.land seq (sz - 1).

(* `i++` on a uint16 (= add16 i 1, lemma inc16_add16; avoids Z.modulo in loops) *)
Definition inc16 (i : Z) : Z := if i + 1 =? 65536 then 0 else i + 1.

(* setReceived / delReceived / getReceived *)
Definition set_recv (f : Z -> bool) (sz seq : Z) : Z -> bool :=
  let p := slot sz seq in fun q => if q =? p then true else f q.
Definition del_recv (f : Z -> bool) (sz seq : Z) : Z -> bool :=
  let p := slot sz seq in fun q => if q =? p then false else f q.
Definition get_recv (f : Z -> bool) (sz seq : Z) : bool := f (slot sz seq).

(* `for i := s.end + 1; i != seq; i++ { s.delReceived(i) }` literally: n trips
   starting at i (n = sub16 seq end - 1) *)
Fixpoint del_loop (f : Z -> bool) (sz i : Z) (n : nat) : Z -> bool :=
  match n with
  | O => f
  | S k => del_loop (del_recv f sz i) sz (inc16 i) k
  end.

(* the same loop in closed form (what is executed; Proofs/ReceiveLogProofs.v,
   del_loop_closed, shows it agrees with del_loop on every slot): the n slots
   following slot(e) cyclically are cleared (for slots 0 <= q < size) *)
Definition clear_range (f : Z -> bool) (sz e n : Z) : Z -> bool :=
  let a := slot sz (e + 1) in
  fun q => let t := q - a in
           if (if t <? 0 then t + sz else t) <? n then false else f q.

(* fixLastConsecutive:
     i := lastConsecutive + 1
     for ; i != end+1 && getReceived(i); i++ {}
     lastConsecutive = i - 1
   fuel = number of increments that take i to end+1 (< 2^16); when it is
   exhausted i = end+1 and the Go loop stops as well *)
Fixpoint fix_loop (f : Z -> bool) (sz e1 i : Z) (n : nat) : Z :=
  match n with
  | O => i
  | S k => if negb (i =? e1) && get_recv f sz i then fix_loop f sz e1 (inc16 i) k else i
  end.

Definition fix_last (f : Z -> bool) (sz e lc : Z) : Z :=
  let i := add16 lc 1 in
  let e1 := add16 e 1 in
  sub16 (fix_loop f sz e1 i (Z.to_nat (sub16 e1 i))) 1.

(* receiveLog.add *)
Definition add (s : rlog) (seq : Z) : rlog :=
  let sz := rsize s in
  if negb (started s) then
    mk_rlog (set_recv (bits s) sz seq) sz seq true seq
  else
    let diff := sub16 seq (rend s) in
    if diff =? 0 then s
    else if diff <? 32768 then
      (* seq > end: clear the skipped slots, move end, re-anchor the cursor *)
      let b1 := clear_range (bits s) sz (rend s) (diff - 1) in
      let lc :=
        if add16 (lastc s) 1 =? seq then seq
        else if sub16 seq (lastc s) >? sz then fix_last b1 sz seq (sub16 seq sz)
        else lastc s in
      mk_rlog (set_recv b1 sz seq) sz seq true lc
    else if sub16 (rend s) seq >=? sz then s   (* fix: older than the window *)
    else if add16 (lastc s) 1 =? seq then
      mk_rlog (set_recv (bits s) sz seq) sz (rend s) true (fix_last (bits s) sz (rend s) seq)
    else
      mk_rlog (set_recv (bits s) sz seq) sz (rend s) true (lastc s).

(* the version of add whose clearing loop is the literal loop *)
Definition add_literal (s : rlog) (seq : Z) : rlog :=
  let sz := rsize s in
  if negb (started s) then
    mk_rlog (set_recv (bits s) sz seq) sz seq true seq
  else
    let diff := sub16 seq (rend s) in
    if diff =? 0 then s
    else if diff <? 32768 then
      let b1 := del_loop (bits s) sz (add16 (rend s) 1) (Z.to_nat (diff - 1)) in
      let lc :=
        if add16 (lastc s) 1 =? seq then seq
        else if sub16 seq (lastc s) >? sz then fix_last b1 sz seq (sub16 seq sz)
        else lastc s in
      mk_rlog (set_recv b1 sz seq) sz seq true lc
    else if sub16 (rend s) seq >=? sz then s
    else if add16 (lastc s) 1 =? seq then
      mk_rlog (set_recv (bits s) sz seq) sz (rend s) true (fix_last (bits s) sz (rend s) seq)
    else
      mk_rlog (set_recv (bits s) sz seq) sz (rend s) true (lastc s).

(* receiveLog.get *)
Definition get (s : rlog) (seq : Z) : bool :=
  let diff := sub16 (rend s) seq in
  if diff >=? 32768 then false
  else if diff >=? rsize s then false
  else get_recv (bits s) (rsize s) seq.

(* `for i := lastConsecutive + 1; i != until+1; i++ { if !getReceived(i) {..append i..} }` *)
Fixpoint miss_loop (f : Z -> bool) (sz i : Z) (n : nat) : list Z :=
  match n with
  | O => []
  | S k => if get_recv f sz i then miss_loop f sz (inc16 i) k
           else i :: miss_loop f sz (inc16 i) k
  end.

(* receiveLog.missingSeqNumbers(skipLastN, buf) *)
Definition missing (s : rlog) (skip : Z) : list Z :=
  if skip >? sub16 (rend s) (lastc s) then []
  else
    let until := sub16 (rend s) skip in
    let i := add16 (lastc s) 1 in
    miss_loop (bits s) (rsize s) i (Z.to_nat (sub16 (add16 until 1) i)).

Definition add_all (s : rlog) (l : list Z) : rlog := fold_left add l s.

(* ---- the code before the fix: commits (history; not used by the check) ---- *)

Definition add_old (s : rlog) (seq : Z) : rlog :=
  let sz := rsize s in
  if negb (started s) then
    mk_rlog (set_recv (bits s) sz seq) sz seq true seq
  else
    let diff := sub16 seq (rend s) in
    if diff =? 0 then s
    else if diff <? 32768 then
      let b1 := clear_range (bits s) sz (rend s) (diff - 1) in
      let lc :=
        if add16 (lastc s) 1 =? seq then seq
        else if sub16 seq (lastc s) >? sz then fix_last b1 sz seq (sub16 seq sz)
        else lastc s in
      mk_rlog (set_recv b1 sz seq) sz seq true lc
    else if add16 (lastc s) 1 =? seq then
      mk_rlog (set_recv (bits s) sz seq) sz (rend s) true (fix_last (bits s) sz (rend s) seq)
    else
      mk_rlog (set_recv (bits s) sz seq) sz (rend s) true (lastc s).

(* None = index out of range on the caller's buffer of `size` entries *)
Definition missing_old (s : rlog) (skip : Z) : option (list Z) :=
  let until := sub16 (rend s) skip in
  if sub16 until (lastc s) >=? 32768 then Some []
  else
    let i := add16 (lastc s) 1 in
    let r := miss_loop (bits s) (rsize s) i (Z.to_nat (sub16 (add16 until 1) i)) in
    if Z.of_nat (length r) >? rsize s then None else Some r.
