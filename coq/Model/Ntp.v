(* Model of internal/ntp/ntp.go.  time.Time is Z nanoseconds since the Unix
   epoch.  The two float kernels are written operation by operation as in Go. *)
From IV Require Import Base.Word Base.F64.
From Coq Require Import Floats.

(* kernel 1: ns -> (integerPart, fractionalPart) *)
Definition ntp_kernel (ns : Z) : Z * Z :=
  let s := PrimFloat.add (PrimFloat.div (f64_of_Z ns) 1000000000%float) 2208988800%float in
  let ip := f64_to_u32 s in
  let fp := f64_to_u32 (PrimFloat.mul (PrimFloat.sub s (f64_of_Z ip)) 4294967295%float) in
  (ip, fp).

(* kernel 2: 32-bit fraction -> nanoseconds *)
Definition frac_kernel (fr : Z) : Z :=
  f64_to_i64 (PrimFloat.mul (PrimFloat.div (f64_of_Z fr) 4294967295%float) 1000000000%float).

Section Ntp.
  (* the integer layer is stated for arbitrary kernels *)
  Variable k1 : Z -> Z * Z.
  Variable k2 : Z -> Z.

  Definition to_ntp (ns : Z) : Z :=
    let '(ip, fp) := k1 ns in (u32 ip) * 4294967296 + u32 fp.

  (* uint32(ToNTP(t) >> 16) *)
  Definition to_ntp32 (ns : Z) : Z := (to_ntp ns / 65536) mod 4294967296.

  Definition to_time (t : Z) : Z :=
    let seconds := (t mod 18446744073709551616) / 4294967296 in
    let fr := t mod 4294967296 in
    -2208988800 * 1000000000 + seconds * 1000000000 + k2 fr.

  (* ((uint64(t) << 16) & 0x0000FFFFFFFF0000) | (ToNTP(ref) & 0xFFFF000000000000) *)
  Definition combine32 (t refntp : Z) : Z :=
    (t mod 4294967296) * 65536 + (refntp / 281474976710656) * 281474976710656.

  Definition to_time32 (t ref : Z) : Z := to_time (combine32 t (to_ntp ref)).
End Ntp.

Definition ToNTP := to_ntp ntp_kernel.
Definition ToNTP32 := to_ntp32 ntp_kernel.
Definition ToTime := to_time frac_kernel.
Definition ToTime32 := to_time32 ntp_kernel frac_kernel.
