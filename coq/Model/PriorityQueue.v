(* Pointer-level model of pkg/jitterbuffer/priority_queue.go.

   The Go queue is a hand-written doubly linked list of heap-allocated nodes
   plus a cached uint16 length.  Here the Go heap is a [list node]; a *node is
   an index into it ([option nat], None = nil); allocation appends.  Every Go
   statement that reads or writes a node field is one [get]/[set_*] below, in
   the order of the source, stale [prev] pointers included.  List walks carry
   explicit fuel (number of allocated nodes + 1) and return [Diverge] when it
   runs out, so that a cyclic list (what the unfixed Push builds when a
   duplicate of the head is pushed) is representable and observable.

   The [fixed] flags select the code as it is after the fix: commits
   ([pq_push], [pq_clear] = fixed = what /repo contains) or as it was before
   (used only for the *_unfixed_* refutation theorems). *)
From IV Require Import Base.Word.

Inductive Res (A : Type) : Type :=
| Ok (a : A)
| Err (e : Z)
| Panic
| Diverge.
Arguments Ok {A} a.
Arguments Err {A} e.
Arguments Panic {A}.
Arguments Diverge {A}.

(* error values *)
Definition ErrInvalidOperation : Z := 1.   (* "attempt to find or pop on an empty list" *)
Definition ErrNotFound : Z := 2.           (* "priority not found" *)
Definition ErrBufferUnderrun : Z := 3.     (* jitter_buffer.go *)
Definition ErrPopWhileBuffering : Z := 4.  (* jitter_buffer.go *)

(* an *rtp.Packet: the object identity (unique id given by the caller of the
   model at push time), its SequenceNumber and Timestamp *)
Record packet : Type := mkPkt { pid : Z; pseq : Z; pts : Z }.

Record node : Type := mkNode {
  nval : option packet;     (* val *rtp.Packet (nil after removal) *)
  nnext : option nat;       (* next *node *)
  nprev : option nat;       (* prev *node *)
  nprio : Z                 (* priority uint16 *)
}.

Definition dnode : node := mkNode None None None 0.
Definition heap := list node.

Definition get (h : heap) (i : nat) : node := nth i h dnode.

Fixpoint set (h : heap) (i : nat) (n : node) : heap :=
  match h, i with
  | [], _ => []
  | _ :: t, O => n :: t
  | x :: t, S k => x :: set t k n
  end.

Definition set_val (h : heap) (i : nat) (v : option packet) : heap :=
  let n := get h i in set h i (mkNode v (nnext n) (nprev n) (nprio n)).
Definition set_next (h : heap) (i : nat) (v : option nat) : heap :=
  let n := get h i in set h i (mkNode (nval n) v (nprev n) (nprio n)).
Definition set_prev (h : heap) (i : nat) (v : option nat) : heap :=
  let n := get h i in set h i (mkNode (nval n) (nnext n) v (nprio n)).

(* type PriorityQueue struct { next *node; length uint16 } + the heap *)
Record pq : Type := mkPQ { qheap : heap; qnext : option nat; qlen : Z }.

(* NewQueue *)
Definition pq_new : pq := mkPQ [] None 0.

(* Length *)
Definition pq_length (q : pq) : Z := qlen q.

(* Find: for next != nil { if next.priority == sqNum {return next.val}; next = next.next } *)
Fixpoint find_walk (fuel : nat) (h : heap) (cur : option nat) (sq : Z) : Res (option packet) :=
  match fuel with
  | O => Diverge
  | S f =>
      match cur with
      | None => Err ErrNotFound
      | Some i =>
          if nprio (get h i) =? sq then Ok (nval (get h i))
          else find_walk f h (nnext (get h i)) sq
      end
  end.

Definition pq_find (q : pq) (sq : Z) : Res (option packet) :=
  find_walk (S (length (qheap q))) (qheap q) (qnext q) sq.

(* Push, the search loop:
     for head != nil { if priority <= head.priority {break}; prev = head; head = head.next }
   returns the final (head, prev) *)
Fixpoint push_walk (fuel : nat) (h : heap) (head prev : option nat) (prio : Z)
  : Res (option nat * option nat) :=
  match fuel with
  | O => Diverge
  | S f =>
      match head with
      | None => Ok (head, prev)
      | Some i =>
          if prio <=? nprio (get h i) then Ok (head, prev)
          else push_walk f h (nnext (get h i)) (Some i) prio
      end
  end.

(* Push.  [fixed] = true: the first test is [priority <= q.next.priority]
   (after the fix: commit); false: [priority < q.next.priority] (before). *)
Definition pq_push_gen (fixed : bool) (q : pq) (v : option packet) (prio : Z) : Res pq :=
  let id := length (qheap q) in
  let h := qheap q ++ [mkNode v None None prio] in          (* newPq := newNode(val, priority) *)
  let len' := u16 (qlen q + 1) in
  match qnext q with
  | None => Ok (mkPQ h (Some id) len')                       (* q.next = newPq; q.length++ *)
  | Some f =>
      if (if fixed then prio <=? nprio (get h f) else prio <? nprio (get h f)) then
        let h := set_next h id (Some f) in                   (* newPq.next = q.next *)
        let h := set_prev h f (Some id) in                   (* q.next.prev = newPq *)
        Ok (mkPQ h (Some id) len')                           (* q.next = newPq; q.length++ *)
      else
        match push_walk (S (length h)) h (Some f) (Some f) prio with
        | Ok (None, prev) =>
            let h := match prev with                         (* if prev != nil { prev.next = newPq } *)
                     | Some p => set_next h p (Some id)
                     | None => h
                     end in
            let h := set_prev h id prev in                   (* newPq.prev = prev *)
            Ok (mkPQ h (Some f) len')
        | Ok (Some hd, prev) =>
            let h := set_next h id (Some hd) in              (* newPq.next = head *)
            let h := set_prev h id prev in                   (* newPq.prev = prev *)
            let h := match prev with                         (* if prev != nil { prev.next = newPq } *)
                     | Some p => set_next h p (Some id)
                     | None => h
                     end in
            let h := set_prev h hd (Some id) in              (* head.prev = newPq *)
            Ok (mkPQ h (Some f) len')
        | Err e => Err e
        | Panic => Panic
        | Diverge => Diverge
        end
  end.

Definition pq_push : pq -> option packet -> Z -> Res pq := pq_push_gen true.

(* Pop: removes the first element *)
Definition pq_pop (q : pq) : Res (option packet * pq) :=
  match qnext q with
  | None => Err ErrInvalidOperation
  | Some f =>
      let h := qheap q in
      let val := nval (get h f) in
      let h := set_val h f None in                           (* q.next.val = nil *)
      Ok (val, mkPQ h (nnext (get h f)) (u16 (qlen q - 1)))  (* q.length--; q.next = q.next.next *)
  end.

(* key of PopAt (sequence number) / PopAtTimestamp (RTP timestamp) *)
Inductive key : Type := KSeq (sq : Z) | KTs (ts : Z).

(* pos.priority == sqNum   /   pos.val.Timestamp == timestamp (nil val: panic = None) *)
Definition node_match (k : key) (n : node) : option bool :=
  match k with
  | KSeq sq => Some (nprio n =? sq)
  | KTs ts => match nval n with
              | Some p => Some (pts p =? ts)
              | None => None
              end
  end.

(* the loop of PopAt / PopAtTimestamp *)
Fixpoint popat_walk (fuel : nat) (h : heap) (pos prev : option nat) (k : key)
  : Res (option packet * heap) :=
  match fuel with
  | O => Diverge
  | S f =>
      match pos with
      | None => Err ErrNotFound
      | Some i =>
          match node_match k (get h i) with
          | None => Panic
          | Some true =>
              let val := nval (get h i) in
              let h := set_val h i None in                   (* pos.val = nil *)
              match prev with
              | None => Panic                                (* prev.next on nil prev *)
              | Some p =>
                  let h := set_next h p (nnext (get h i)) in (* prev.next = pos.next *)
                  let h := match nnext (get h p) with        (* if prev.next != nil { prev.next.prev = prev } *)
                           | Some nx => set_prev h nx (Some p)
                           | None => h
                           end in
                  Ok (val, h)
              end
          | Some false => popat_walk f h (nnext (get h i)) (Some i) k   (* prev = pos; pos = pos.next *)
          end
      end
  end.

(* PopAt / PopAtTimestamp *)
Definition pq_popat (q : pq) (k : key) : Res (option packet * pq) :=
  match qnext q with
  | None => Err ErrInvalidOperation
  | Some f =>
      let h := qheap q in
      match node_match k (get h f) with
      | None => Panic
      | Some true =>
          let val := nval (get h f) in
          let h := set_val h f None in                       (* q.next.val = nil *)
          Ok (val, mkPQ h (nnext (get h f)) (u16 (qlen q - 1)))   (* q.next = q.next.next; q.length-- *)
      | Some false =>
          (* pos := q.next; prev := q.next.prev *)
          match popat_walk (S (length h)) h (Some f) (nprev (get h f)) k with
          | Ok (val, h') => Ok (val, mkPQ h' (qnext q) (u16 (qlen q - 1)))
          | Err e => Err e
          | Panic => Panic
          | Diverge => Diverge
          end
      end
  end.

(* Clear: for next != nil { next.prev = nil; next = next.next } *)
Fixpoint clear_walk (fuel : nat) (h : heap) (cur : option nat) : Res heap :=
  match fuel with
  | O => Diverge
  | S f =>
      match cur with
      | None => Ok h
      | Some i => clear_walk f (set_prev h i None) (nnext (get h i))
      end
  end.

(* [fixed] = true: [q.next = nil] is executed (after the fix: commit) *)
Definition pq_clear_gen (fixed : bool) (q : pq) : Res pq :=
  match clear_walk (S (length (qheap q))) (qheap q) (qnext q) with
  | Ok h => Ok (mkPQ h (if fixed then None else qnext q) 0)
  | Err e => Err e
  | Panic => Panic
  | Diverge => Diverge
  end.

Definition pq_clear : pq -> Res pq := pq_clear_gen true.

(* ------------------------------------------------------------------ *)
(* The abstract queue the pointer structure is proved to refine: a list of
   (priority, val) in list order. *)
Definition aq := list (Z * option packet).

(* push = insert before the first element whose priority is >= the new one *)
Fixpoint aq_push (l : aq) (v : option packet) (prio : Z) : aq :=
  match l with
  | [] => [(prio, v)]
  | (p, w) :: t => if prio <=? p then (prio, v) :: l else (p, w) :: aq_push t v prio
  end.

Fixpoint aq_find (l : aq) (sq : Z) : Res (option packet) :=
  match l with
  | [] => Err ErrNotFound
  | (p, w) :: t => if p =? sq then Ok w else aq_find t sq
  end.

Definition aq_pop (l : aq) : Res (option packet * aq) :=
  match l with
  | [] => Err ErrInvalidOperation
  | (_, w) :: t => Ok (w, t)
  end.

Definition entry_match (k : key) (e : Z * option packet) : option bool :=
  match k with
  | KSeq sq => Some (fst e =? sq)
  | KTs ts => match snd e with Some p => Some (pts p =? ts) | None => None end
  end.

(* remove the first matching element *)
Fixpoint aq_remove (l : aq) (k : key) : Res (option packet * aq) :=
  match l with
  | [] => Err ErrNotFound
  | e :: t =>
      match entry_match k e with
      | None => Panic
      | Some true => Ok (snd e, t)
      | Some false =>
          match aq_remove t k with
          | Ok (w, t') => Ok (w, e :: t')
          | Err x => Err x
          | Panic => Panic
          | Diverge => Diverge
          end
      end
  end.

Definition aq_popat (l : aq) (k : key) : Res (option packet * aq) :=
  match l with
  | [] => Err ErrInvalidOperation
  | _ => aq_remove l k
  end.

Definition aq_len (l : aq) : Z := u16 (Z.of_nat (length l)).
