(* Model of internal/cc/feedback_adapter.go (FeedbackAdapter), as it is after
   the C09 fix commits (delta consumed for every delta-carrying symbol whether
   or not the packet is still in the history; only the two delta-carrying
   symbols consume a delta).

   time.Time is Z nanoseconds since Go's zero Time (so IsZero <-> 0).
   An Acknowledgment is the tuple (seq, ssrc, size, departure, arrival, ecn). *)
From IV Require Import Base.Word.

Definition ack := (Z * Z * Z * Z * Z * Z)%type.
Definition zero_ack : ack := (0, 0, 0, 0, 0, 0).

Definition ack_seq (a : ack) : Z := let '(s, _, _, _, _, _) := a in s.
Definition ack_ssrc (a : ack) : Z := let '(_, s, _, _, _, _) := a in s.
Definition ack_size (a : ack) : Z := let '(_, _, s, _, _, _) := a in s.
Definition ack_dep (a : ack) : Z := let '(_, _, _, d, _, _) := a in d.
Definition ack_arr (a : ack) : Z := let '(_, _, _, _, r, _) := a in r.
Definition ack_ecn (a : ack) : Z := let '(_, _, _, _, _, e) := a in e.
Definition set_arr (a : ack) (t : Z) : ack := let '(s, c, z, d, _, e) := a in (s, c, z, d, t, e).
Definition set_arr_ecn (a : ack) (t e : Z) : ack := let '(s, c, z, d, _, _) := a in (s, c, z, d, t, e).

Definition ack_eqb (a b : ack) : bool :=
  let '(a1, a2, a3, a4, a5, a6) := a in let '(b1, b2, b3, b4, b5, b6) := b in
  (a1 =? b1) && (a2 =? b2) && (a3 =? b3) && (a4 =? b4) && (a5 =? b5) && (a6 =? b6).

(* ---- feedbackHistory: container/list + map; front of the list = head ---- *)
Definition hist := list ack.

(* feedbackHistoryKey{ssrc, sequenceNumber} equality *)
Definition key_is (ssrc seq : Z) (a : ack) : bool := (ack_ssrc a =? ssrc) && (ack_seq a =? seq).

(* feedbackHistory.get : map lookup (no reordering of the evict list) *)
Fixpoint hget (h : hist) (ssrc seq : Z) : option ack :=
  match h with
  | [] => None
  | a :: t => if key_is ssrc seq a then Some a else hget t ssrc seq
  end.

Definition hremove (h : hist) (ssrc seq : Z) : hist := filter (fun a => negb (key_is ssrc seq a)) h.

(* feedbackHistory.add: existing key => MoveToFront + replace value;
   new key => PushFront, then removeOldest when Len() > size *)
Definition hadd (cap : Z) (h : hist) (a : ack) : hist :=
  match hget h (ack_ssrc a) (ack_seq a) with
  | Some _ => a :: hremove h (ack_ssrc a) (ack_seq a)
  | None =>
      let h' := a :: h in
      if Z.of_nat (length h') >? cap then removelast h' else h'
  end.

Definition CAP : Z := 250.

(* ---- OnSent ----
   extid: the value stored under TwccExtensionAttributesKey (0 = absent / not uint8);
   twcc : the transport-wide sequence number carried by that header extension
          (None = extension missing or unparsable);
   hsize: header.MarshalSize(); size: the size argument. *)
Definition on_sent (h : hist) (extid : Z) (twcc : option Z) (ssrc seq hsize size dep : Z) : hist * Z :=
  if extid =? 0 then
    (* onSentRFC8888 *)
    (hadd CAP h (seq, ssrc, size, dep, 0, 0), 0)
  else
    (* onSentTWCC *)
    match twcc with
    | None => (h, 1)                       (* errMissingTWCCExtension *)
    | Some t => (hadd CAP h (t, 0, hsize + size, dep, 0, 0), 0)
    end.

(* ---- TWCC ---- *)
Inductive chunk :=
| RL (sym len : Z)            (* rtcp.RunLengthChunk{PacketStatusSymbol, RunLength} *)
| SV (syms : list Z).         (* rtcp.StatusVectorChunk{SymbolList} *)

(* symbols that carry a receive delta: ReceivedSmallDelta = 1, ReceivedLargeDelta = 2 *)
Definition is_delta_sym (s : Z) : bool := (s =? 1) || (s =? 2).

(* the loop body shared by unpackRunLengthChunk / unpackStatusVectorChunk for
   the symbol at sequence number [seq]; [ds] = deltas[deltaIndex:];
   None = errInvalidFeedback *)
Definition sym_step (h : hist) (seq sym ref : Z) (ds : list Z) : option (Z * list Z * ack) :=
  if is_delta_sym sym then
    match ds with
    | [] => None
    | d :: ds' =>
        let ref' := ref + d * 1000 in
        Some (ref', ds', match hget h 0 seq with Some a => set_arr a ref' | None => zero_ack end)
    end
  else Some (ref, ds, match hget h 0 seq with Some a => a | None => zero_ack end).

(* the loop of both unpack functions over the chunk's symbols, [i] = offset inside the feedback *)
Fixpoint unpack_syms (h : hist) (start ref : Z) (syms : list Z) (ds : list Z) : option (Z * list Z * list ack) :=
  match syms with
  | [] => Some (ref, ds, [])
  | s :: syms' =>
      match sym_step h start s ref ds with
      | None => None
      | Some (ref', ds', a) =>
          match unpack_syms h (add16 start 1) ref' syms' ds' with
          | None => None
          | Some (ref'', ds'', acks) => Some (ref'', ds'', a :: acks)
          end
      end
  end.

Definition chunk_syms (c : chunk) : list Z :=
  match c with
  | RL s n => repeat s (Z.to_nat n)
  | SV l => l
  end.

(* the chunk loop of OnTransportCCFeedback *)
Fixpoint unpack_chunks (h : hist) (index ref : Z) (cs : list chunk) (ds : list Z) : option (list ack) :=
  match cs with
  | [] => Some []
  | c :: cs' =>
      match unpack_syms h index ref (chunk_syms c) ds with
      | None => None
      | Some (ref', ds', acks) =>
          match unpack_chunks h (u16 (index + Z.of_nat (length acks))) ref' cs' ds' with
          | None => None
          | Some rest => Some (acks ++ rest)
          end
      end
  end.

(* OnTransportCCFeedback: ReferenceTime is in multiples of 64 ms *)
Definition on_twcc (h : hist) (base ref24 : Z) (cs : list chunk) (ds : list Z) : option (list ack) :=
  unpack_chunks h base (ref24 * 64 * 1000000) cs ds.

(* ---- RFC 8888 ---- *)
Definition mblock := (bool * Z * Z)%type.            (* Received, ECN, ArrivalTimeOffset *)
Definition rblock := (Z * Z * list mblock)%type.     (* MediaSSRC, BeginSequence, MetricBlocks *)

(* time.Duration((float64(ato) / 1024.0) * float64(time.Second)): ato < 2^13, so
   both float operations are exact and the truncation is the integer quotient *)
Definition ato_ns (ato : Z) : Z := ato * 1000000000 / 1024.

Fixpoint ccfb_block (h : hist) (reft ssrc seq : Z) (mbs : list mblock) : list ack :=
  match mbs with
  | [] => []
  | (recv, ecn, ato) :: mbs' =>
      match hget h ssrc seq with
      | Some a => [if recv : bool then set_arr_ecn a (reft - ato_ns ato) ecn else a]
      | None => []
      end ++ ccfb_block h reft ssrc (add16 seq 1) mbs'
  end.

(* OnRFC8888Feedback; [reft] = ntp.ToTime(uint64(ReportTimestamp) << 16) *)
Definition on_ccfb (h : hist) (reft : Z) (bs : list rblock) : list ack :=
  flat_map (fun b : rblock => let '(ssrc, begin, mbs) := b in ccfb_block h reft ssrc begin mbs) bs.

(* ---- histories ---- *)
Inductive op :=
| Sent (extid : Z) (twcc : option Z) (ssrc seq hsize size dep : Z)
| FbTwcc (base count ref24 : Z) (cs : list chunk) (ds : list Z)
| FbCcfb (ts : Z) (bs : list rblock).

(* observable of one operation: (error code, acknowledgements) *)
Definition out := (Z * list ack)%type.

Section Run.
  (* reference time of a CCFB report as a function of its ReportTimestamp *)
  Variable reftime : Z -> Z.

  Definition step (h : hist) (o : op) : hist * out :=
    match o with
    | Sent extid twcc ssrc seq hsize size dep =>
        let '(h', e) := on_sent h extid twcc ssrc seq hsize size dep in (h', (e, []))
    | FbTwcc base _ ref24 cs ds =>
        match on_twcc h base ref24 cs ds with
        | Some acks => (h, (0, acks))
        | None => (h, (1, []))
        end
    | FbCcfb ts bs => (h, (0, on_ccfb h (reftime ts) bs))
    end.

  Fixpoint run (h : hist) (ops : list op) : list out :=
    match ops with
    | [] => []
    | o :: ops' => let '(h', r) := step h o in r :: run h' ops'
    end.

  Fixpoint final (h : hist) (ops : list op) : hist :=
    match ops with
    | [] => h
    | o :: ops' => final (fst (step h o)) ops'
    end.
End Run.
