(* Model of pkg/rtpfb/twcc_receiver.go (convertTWCC) and ccfb_receiver.go
   (convertCCFB / convertMetricBlock), after the C09 fix commits (convertTWCC
   stops at PacketStatusCount and when the deltas are used up).
   An acknowledgement is (sequenceNumber, arrived, arrival, ecn). *)
From IV Require Import Base.Word Model.FbAdapter.

Definition fack := (Z * bool * Z * Z)%type.

(* the body of both symbol loops of convertTWCC; [off] = offset, [ds] = RecvDeltas[recvDeltaIndex:] *)
Fixpoint conv_syms (base count off ts : Z) (syms ds : list Z) : (Z * Z * list Z * list fack * bool) :=
  match syms with
  | [] => (off, ts, ds, [], false)
  | s :: syms' =>
      if count <=? off then (off, ts, ds, [], true)                (* offset >= PacketStatusCount: return acks *)
      else
        let seq := u16 (base + u16 off) in
        if s =? 0 then
          let '(o, t, d, a, stop) := conv_syms base count (off + 1) ts syms' ds in (o, t, d, (seq, false, 0, 0) :: a, stop)
        else if is_delta_sym s then
          match ds with
          | [] => (off + 1, ts, ds, [], true)                        (* recvDeltaIndex >= len(RecvDeltas): return acks *)
          | dl :: ds' =>
              let ts' := ts + dl * 1000 in
              let '(o, t, d, a, stop) := conv_syms base count (off + 1) ts' syms' ds' in
              (o, t, d, (seq, true, ts', 0) :: a, stop)
          end
        else if s =? 3 then
          let '(o, t, d, a, stop) := conv_syms base count (off + 1) ts syms' ds in (o, t, d, (seq, true, 0, 0) :: a, stop)
        else
          (* no case of the switch matches: nothing appended *)
          conv_syms base count (off + 1) ts syms' ds
  end.

Fixpoint conv_chunks (base count off ts : Z) (cs : list chunk) (ds : list Z) : list fack :=
  match cs with
  | [] => []
  | c :: cs' =>
      let '(o, t, d, a, stop) := conv_syms base count off ts (chunk_syms c) ds in
      if stop : bool then a else a ++ conv_chunks base count o t cs' d
  end.

Definition convert_twcc (base count ref24 : Z) (cs : list chunk) (ds : list Z) : list fack :=
  conv_chunks base count 0 (ref24 * 64 * 1000000) cs ds.

(* convertMetricBlock (the latest-arrival bookkeeping only feeds the RTT, which is not observed here) *)
Fixpoint convert_mblocks (reft seq : Z) (mbs : list mblock) : list fack :=
  match mbs with
  | [] => []
  | (recv, ecn, ato) :: mbs' =>
      (if recv : bool then
         (seq, true, (if ato =? 8191 then 0 else reft - ato * 1000000000 / 1024), ecn)
       else (seq, false, 0, 0)) :: convert_mblocks reft (add16 seq 1) mbs'
  end.

(* result[rb.MediaSSRC] = ...: a later block of the same SSRC replaces the earlier one *)
Fixpoint convert_ccfb (reft : Z) (bs : list rblock) : list (Z * list fack) :=
  match bs with
  | [] => []
  | (ssrc, begin, mbs) :: bs' =>
      let rest := convert_ccfb reft bs' in
      if existsb (fun e : Z * list fack => fst e =? ssrc) rest then rest
      else (ssrc, convert_mblocks reft begin mbs) :: rest
  end.
