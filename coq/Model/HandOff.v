(* Model for C11, round-3 strengthening: the hand-off between packet callers and the loop goroutine,
   with the loop's own blocking work made explicit.

   Model/Lifecycle.v lets a loop goroutine be "at its select" whenever it is not writing to the NEXT
   writer; packetdump's logger goroutine never writes there (it writes to its dump stream), so in that LTS
   a packetdump caller never parks at all, and whether a caller that IS parked at the channel send is woken
   by Close could not even be asked.  Here the loop has three states and the sends have a kind per channel.

   What the pieces mirror (statement level):
     hloop     the goroutine `loop()` of pkg/packetdump/default_packet_logger.go:150-170, of
               pkg/twcc/sender_interceptor.go loop, of pkg/rfc8888/interceptor.go loop:
                 LSel   at `select { case <-close: ... case x := <-chan: ... case <-ticker: ... }`
                 LBusy  inside blocking work of an iteration: writeDumpedRTP / writeDumpedRTCP (a Write on the
                        dump stream) for packetdump, writer.Write(feedback) for twcc / rfc8888
                 LGone  returned (wg.Done ran)
     hparked   callers at the channel send of LogRTPPacket / LogRTCPPackets (default_packet_logger.go:46-69),
               of the RTPReader of twcc / rfc8888 BindRemoteStream (`s.packetChan <- p`), with the channel
     send_kind how that send is written:
                 SSelect  select { case ch <- x: case <-close: }     (every such send of /repo)
                 SCheck   if isClosed() { return }; ch <- x          (the seeded change of LogRTCPPackets)
                 SPlain   ch <- x                                    (rfc8888 before its fix)
     hwaiters  Close calls inside wg.Wait()
   Ghost: hclose_ret (a Close has returned), hserved (items the loop received).

   Atomicity (trusted, as in Model/Lifecycle.v): an API call runs atomically up to its first blocking point;
   a caller that reaches the send is parked there (HCall) and leaves by a separate step: the loop receives
   (HRecv, only at the select - an unbuffered channel), or its own select sees the closed channel (HWake).
   Go's select picks among the ready cases at random: when the channel is closed AND senders are parked both
   HExit and HRecv are enabled. *)
From IV Require Import Base.Word.

Inductive send_kind := SSelect | SCheck | SPlain.
Inductive path := PRtp | PRtcp.
Inductive lp := LSel | LBusy | LGone.

Record hcfg := mkH {
  h_rtp : send_kind;        (* LogRTPPacket -> rtpChan; twcc / rfc8888: the Read -> packetChan *)
  h_rtcp : send_kind;       (* LogRTCPPackets -> rtcpChan *)
  h_work_on_recv : bool;    (* the loop does blocking work with every item it receives (packetdump: dump stream) *)
  h_ticks : bool;           (* the select has a ticker case that writes to the next RTCP writer (twcc, rfc8888) *)
  h_wg : bool               (* Close waits for the loop *)
}.

Definition kind_of (c : hcfg) (p : path) : send_kind := match p with PRtp => h_rtp c | PRtcp => h_rtcp c end.

Record hst := mkHS {
  hclosed : bool;
  hloop : lp;
  hparked : list (nat * path);
  hwaiters : list nat;
  hclose_ret : bool;
  hserved : nat
}.

Inductive hlabel :=
| HCall (t : nat) (p : path)   (* a packet call reaches its hand-off *)
| HRecv (t : nat)              (* the loop's select takes the item of parked caller t *)
| HTick                        (* the loop's select takes the ticker case and starts a write *)
| HDone                        (* the blocking work of the iteration returns *)
| HExit                        (* the loop's select takes the close case *)
| HWake (t : nat)              (* the select of parked caller t takes its close case *)
| HClose (t : nat)             (* Close: close(ch) under the mutex, then wg.Wait() *)
| HCloseRet (t : nat).         (* wg.Wait() returns *)

(* the loop exists from the start: packetdump starts it in NewPacketDumper; for twcc / rfc8888 the model
   begins after BindRTCPWriter (a Read without a loop is the known shape F34, Model/Lifecycle.v) *)
Definition hinit : hst := mkHS false LSel [] [] false 0.

Definition pmem (t : nat) (l : list (nat * path)) : bool := existsb (fun e => Nat.eqb (fst e) t) l.
Definition pdel (t : nat) (l : list (nat * path)) : list (nat * path) := filter (fun e => negb (Nat.eqb (fst e) t)) l.
Fixpoint pfind (t : nat) (l : list (nat * path)) : option path :=
  match l with [] => None | (u, p) :: tl => if Nat.eqb u t then Some p else pfind t tl end.
Definition wmem (t : nat) (l : list nat) : bool := existsb (Nat.eqb t) l.
Definition wdel (t : nat) (l : list nat) : list nat := filter (fun u => negb (Nat.eqb u t)) l.

Definition busy_thread (s : hst) (t : nat) : bool := pmem t (hparked s) || wmem t (hwaiters s).

Definition hstep (c : hcfg) (s : hst) (l : hlabel) : option hst :=
  match l with
  | HCall t p =>
      if busy_thread s t then None
      else match kind_of c p with
           | SCheck => if hclosed s then Some s   (* `if d.isClosed() { return }` *)
                       else Some (mkHS (hclosed s) (hloop s) (hparked s ++ [(t, p)]) (hwaiters s) (hclose_ret s) (hserved s))
           | _ => Some (mkHS (hclosed s) (hloop s) (hparked s ++ [(t, p)]) (hwaiters s) (hclose_ret s) (hserved s))
           end
  | HRecv t =>
      match hloop s, pfind t (hparked s) with
      | LSel, Some _ =>
          Some (mkHS (hclosed s) (if h_work_on_recv c then LBusy else LSel) (pdel t (hparked s)) (hwaiters s)
                     (hclose_ret s) (S (hserved s)))
      | _, _ => None
      end
  | HTick =>
      match hloop s with
      | LSel => if h_ticks c then Some (mkHS (hclosed s) LBusy (hparked s) (hwaiters s) (hclose_ret s) (hserved s)) else None
      | _ => None
      end
  | HDone =>
      match hloop s with
      | LBusy => Some (mkHS (hclosed s) LSel (hparked s) (hwaiters s) (hclose_ret s) (hserved s))
      | _ => None
      end
  | HExit =>
      match hloop s with
      | LSel => if hclosed s then Some (mkHS true LGone (hparked s) (hwaiters s) (hclose_ret s) (hserved s)) else None
      | _ => None
      end
  | HWake t =>
      match pfind t (hparked s) with
      | Some p =>
          match kind_of c p with
          | SSelect => if hclosed s then Some (mkHS true (hloop s) (pdel t (hparked s)) (hwaiters s) (hclose_ret s) (hserved s))
                       else None
          | _ => None
          end
      | None => None
      end
  | HClose t =>
      if busy_thread s t then None
      else if h_wg c && negb (match hloop s with LGone => true | _ => false end)
      then Some (mkHS true (hloop s) (hparked s) (hwaiters s ++ [t]) (hclose_ret s) (hserved s))
      else Some (mkHS true (hloop s) (hparked s) (hwaiters s) true (hserved s))
  | HCloseRet t =>
      if wmem t (hwaiters s)
      then match hloop s with
           | LGone => Some (mkHS (hclosed s) LGone (hparked s) (wdel t (hwaiters s)) true (hserved s))
           | _ => None
           end
      else None
  end.

Fixpoint hrun (c : hcfg) (s : hst) (tr : list hlabel) : option hst :=
  match tr with
  | [] => Some s
  | l :: tl => match hstep c s l with Some s' => hrun c s' tl | None => None end
  end.

Definition hreachable (c : hcfg) (s : hst) : Prop := exists tr, hrun c hinit tr = Some s.

(* every send of the record is woken by Close *)
Definition hsafe (c : hcfg) : bool :=
  match h_rtp c, h_rtcp c with SSelect, SSelect => true | _, _ => false end.

(* ---- records (hand-assigned from the source) ---- *)
Definition packetdump_hcfg := mkH SSelect SSelect true false true.
Definition twcc_hcfg       := mkH SSelect SSelect false true true.
Definition rfc8888_hcfg    := mkH SSelect SSelect false true true.
(* the seeded change: LogRTCPPackets = `if isClosed() { return }; rtcpChan <- dump`; LogRTPPacket unchanged *)
Definition packetdump_rtcp_check_hcfg := mkH SSelect SCheck true false true.
Definition packetdump_rtp_check_hcfg  := mkH SCheck SSelect true false true.
Definition twcc_check_hcfg            := mkH SCheck SCheck false true true.
Definition rfc8888_plain_hcfg         := mkH SPlain SPlain false true true.

(* ---- the held schedule of the harness (runHeld in harness/cmd/c11/held.go) ----
   first packet on path p0 (packetdump: the loop receives it and enters the dump stream, where the harness
   HOLDS it; twcc / rfc8888: the loop records it, the next tick's feedback write is held by the next writer);
   the calls ps are started, one goroutine each: they park at the send;
     mode 0: Close is called from another goroutine while the loop is still held; the calls qs are started
             after that; then the stream lets go;
     mode 1: the stream lets go while the interceptor is open; Close afterwards.
   Canonical resolution of the races: a parked caller whose select can see the closed channel wakes; when the
   loop comes back to its select with the channel closed it takes the close case (worst case for the parked
   senders - Go picks at random); on an open interceptor it serves the parked callers in order. *)
Definition hdo (c : hcfg) (s : hst) (l : hlabel) : hst := match hstep c s l with Some s' => s' | None => s end.

Fixpoint hcalls (c : hcfg) (s : hst) (t : nat) (ps : list path) : hst :=
  match ps with [] => s | p :: tl => hcalls c (hdo c s (HCall t p)) (S t) tl end.

Definition wake_all (c : hcfg) (s : hst) : hst :=
  fold_left (fun s t => hdo c s (HWake t)) (map fst (hparked s)) s.

(* the loop serves every parked caller (finishing its work after each) *)
Definition serve_all (c : hcfg) (s : hst) : hst :=
  fold_left (fun s t => hdo c (hdo c s (HRecv t)) HDone) (map fst (hparked s)) s.

Definition count_parked (s : hst) (lo hi : nat) : Z :=
  Z.of_nat (length (filter (fun e => Nat.leb lo (fst e) && Nat.ltb (fst e) hi) (hparked s))).

Definition hb2z (b : bool) : Z := if b then 1 else 0.

(* observation [entered; early; woken; late_ret; open_served; close_early; close_hang; stranded; panic; alive]
     entered      the loop was caught inside its blocking work
     early        calls of ps that returned while the loop was held, before Close / release
     woken        mode 0: calls of ps that had returned before the stream let go (Close called, loop still held)
     late_ret     mode 0: calls of qs that had returned before the stream let go
     open_served  mode 1: calls of ps that had returned after the stream let go, before Close
     close_early  mode 0: Close returned while the loop was still held
     close_hang   Close never returned
     stranded     calls that never returned
     panic, alive goroutines of the interceptor alive after Close returned *)
Definition held_model (c : hcfg) (mode : Z) (p0 : path) (ps qs : list path) : list Z :=
  let k := length ps in
  let s0 := hdo c hinit (HCall 0 p0) in
  let s1 := hdo c s0 (HRecv 0) in
  let s2 := if h_work_on_recv c then s1 else hdo c s1 HTick in
  let entered := match hloop s2 with LBusy => true | _ => false end in
  let s3 := hcalls c s2 1 ps in
  let early := Z.of_nat k - count_parked s3 1 (1 + k) in
  if mode =? 0 then
    let s4 := wake_all c (hdo c s3 (HClose 100)) in
    let woken := Z.of_nat k - count_parked s4 1 (1 + k) in
    let s5 := wake_all c (hcalls c s4 (1 + k) qs) in
    let late_ret := Z.of_nat (length qs) - count_parked s5 (1 + k) (1 + k + length qs) in
    let close_early := entered && negb (wmem 100 (hwaiters s5)) in
    let s6 := hdo c (hdo c (hdo c s5 HDone) HExit) (HCloseRet 100) in
    [hb2z entered; early; woken; late_ret; 0; hb2z close_early; hb2z (wmem 100 (hwaiters s6));
     Z.of_nat (length (hparked s6)); 0; hb2z (match hloop s6 with LGone => false | _ => true end)]
  else
    let s4 := serve_all c (hdo c s3 HDone) in
    let served := Z.of_nat k - count_parked s4 1 (1 + k) in
    let s5 := wake_all c (hdo c s4 (HClose 100)) in
    let s6 := hdo c (hdo c (hdo c s5 HDone) HExit) (HCloseRet 100) in
    [hb2z entered; early; 0; 0; served; 0; hb2z (wmem 100 (hwaiters s6));
     Z.of_nat (length (hparked s6)); 0; hb2z (match hloop s6 with LGone => false | _ => true end)].
