(* C17, round 4 (follow-up): WHAT the pacing interceptor debits from the token bucket per released packet.

   pkg/pacing/interceptor.go loop():   for len(queue) > 0 && i.limit.Budget(now) > 8*float64(queue[0].len()) {
                                           i.limit.AllowN(now, 8*queue[0].len()) ; ... next.writer.Write(...) }
   packet.len() = p.header.MarshalSize() + len(p.payload): the REAL marshalled header size (12 bytes + 4 per CSRC +
   the header extension block) plus the payload.  The bits that reach the next writer are 8 * that, so the debit
   equals the bits released and the envelope is about real bits.

   The model makes the debit a function `cost : pkt -> Z` (bits charged for a packet); the history ps_bits always
   counts the REAL bits 8 * (hlen + plen) handed downstream.  cost = real_bits is the code (and then the LTS is
   PacerQueue.pstep itself); cost = fixed_header_bits is the alternative "an RTP header is 12 bytes", which leaves CSRC
   entries and header extensions uncharged. *)
From IV Require Import Base.Word Model.PacerQueue.

Definition real_bits (p : pkt) : Z := 8 * plen p.
Definition fixed_header_bits (p : pkt) : Z := 8 * (12 + Z.abs (p_plen p)).

Fixpoint drelease (cost : pkt -> Z) (fuel : nat) (now : Z) (q : list pkt) (b : tb) (del : list pkt) (bits : Z)
  : list pkt * tb * list pkt * Z :=
  match fuel, q with
  | S f, p :: q' =>
      if cost p * NS <? tb_budget b now then
        let '(b', _) := tb_allow b now (cost p) in
        drelease cost f now q' b' (del ++ [p]) (bits + 8 * plen p)
      else (q, b, del, bits)
  | _, _ => (q, b, del, bits)
  end.

Definition dstep (cost : pkt -> Z) (s : pst) (o : pop) : pst :=
  match o with
  | PTick now =>
      let '(q, b, del, bits) := drelease cost (length (ps_local s)) now (ps_local s) (ps_tb s) (ps_delivered s) (ps_bits s) in
      mkPS (ps_chan s) q b (ps_closed s) (ps_accepted s) del bits
  | _ => pstep s o
  end.

Definition drun (cost : pkt -> Z) (s : pst) (ops : list pop) : pst := fold_left (dstep cost) ops s.

(* ghost: the tokens (scaled) the limiter could have earned along a run *)
Fixpoint drel_earned (cost : pkt -> Z) (fuel : nat) (now : Z) (q : list pkt) (b : tb) : Z :=
  match fuel, q with
  | S f, p :: q' =>
      if cost p * NS <? tb_budget b now then
        (tb_rate b * (if now <? tb_last b then 0 else now - tb_last b)) + drel_earned cost f now q' (fst (tb_allow b now (cost p)))
      else 0
  | _, _ => 0
  end.

Fixpoint dearned_total (cost : pkt -> Z) (s : pst) (ops : list pop) : Z :=
  match ops with
  | [] => 0
  | o :: tl =>
      (match o with
       | PTick now => drel_earned cost (length (ps_local s)) now (ps_local s) (ps_tb s)
       | PSetRate t _ _ => tb_rate (ps_tb s) * (if t <? tb_last (ps_tb s) then 0 else t - tb_last (ps_tb s))
       | _ => 0
       end) + dearned_total cost (dstep cost s o) tl
  end.
