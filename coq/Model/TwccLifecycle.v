(* Lifecycle / multi-instance model of pkg/twcc/header_extension_interceptor.go.

   Model.TwccHdrExt describes ONE interceptor instance whose streams are bound
   once and for all.  Here the whole public surface is modelled as a history of
   API calls over several factories, several interceptor instances and stream
   handles that are bound, unbound, re-bound and written to in any order:

     HeaderExtensionInterceptorFactory.NewInterceptor (directly, through
     interceptor.Registry.Build, or the zero value HeaderExtensionInterceptor{})
                                             -> LNew
     HeaderExtensionInterceptor.BindLocalStream     -> LBind
     NoOp.UnbindLocalStream (embedded)              -> LUnbind
     the RTPWriter returned by BindLocalStream      -> LWrite
     NoOp.Close                                     -> LClose
     NoOp.BindRemoteStream / UnbindRemoteStream /
          BindRTCPReader / BindRTCPWriter           -> LOther

   The only state of the code is HeaderExtensionInterceptor.nextSequenceNr, one
   per INSTANCE (the factory is an empty struct), touched by nothing but the
   bound writer's atomic.AddUint32.  A bound writer is a closure over its
   instance and the extension id found at bind time, so it keeps working (and
   keeps drawing from the same counter) after Unbind / Close. *)
From IV Require Import Base.Word Model.TwccHdrExt.

Inductive lop :=
| LNew (f i : Z)                  (* instance handle i := a new object made by factory f; handles are never reused *)
| LBind (i s : Z) (ids : list Z)  (* w_s := inst_i.BindLocalStream(info with the matching entries ids, sink_s) *)
| LUnbind (i s : Z)               (* inst_i.UnbindLocalStream(info_s) *)
| LWrite (s : Z) (h : option hdr) (* w_s.Write(h, payload, attributes); None = nil header *)
| LClose (i : Z)                  (* inst_i.Close() *)
| LOther (i k : Z).               (* inst_i.BindRemoteStream / UnbindRemoteStream / BindRTCPReader / BindRTCPWriter *)

(* association lists with Z keys; the first entry for a key is the current one *)
Fixpoint zlookup {A} (k : Z) (l : list (Z * A)) : option A :=
  match l with
  | [] => None
  | (k', v) :: tl => if k' =? k then Some v else zlookup k tl
  end.

Record lstate := mkL {
  l_ctrs : list (Z * Z);          (* instance -> nextSequenceNr *)
  l_writers : list (Z * (Z * Z))  (* stream handle -> (instance, extension id) captured by the latest BindLocalStream *)
}.

Definition linit : lstate := mkL [] [].

Definition ctr_of (st : lstate) (i : Z) : Z :=
  match zlookup i (l_ctrs st) with Some c => c | None => 0 end.

(* one API call; for a Write the instance it ran on and what the downstream writer saw *)
Definition life_step (st : lstate) (o : lop) : lstate * option (Z * wres) :=
  match o with
  | LNew _ _ => (st, None)   (* &HeaderExtensionInterceptor{}: a fresh handle has no entry yet, [ctr_of] reads 0; the factory holds no state *)
  | LBind i s ids => (mkL (l_ctrs st) ((s, (i, stream_id ids)) :: l_writers st), None)
  | LUnbind _ _ => (st, None)
  | LClose _ => (st, None)
  | LOther _ _ => (st, None)
  | LWrite s h =>
      match zlookup s (l_writers st) with
      | None => (st, None)                                              (* never bound: nothing to call *)
      | Some (i, sid) =>
          let '(c, r) := write (ctr_of st i) sid h in
          (mkL ((i, c) :: l_ctrs st) (l_writers st), Some (i, r))
      end
  end.

Fixpoint life_trace (st : lstate) (ops : list lop) : list (Z * wres) :=
  match ops with
  | [] => []
  | o :: tl =>
      let '(st', e) := life_step st o in
      match e with Some x => x :: life_trace st' tl | None => life_trace st' tl end
  end.

Definition life_run (ops : list lop) : list wres := map snd (life_trace linit ops).

(* ---- several instances, any interleaving of their writers and of lifecycle calls ----
   an event (i, Some t) schedules writer thread t of instance i (fetch-add, or emit);
   (i, None) is any lifecycle call on instance i (Unbind, Close, Bind of another stream, ...) *)
Definition mstep (ss : list cstate) (e : nat * option nat) : list cstate :=
  match snd e, nth_error ss (fst e) with
  | Some t, Some s => set_nth ss (fst e) (cstep s t)
  | _, _ => ss
  end.

Definition mrun (ss : list cstate) (sched : list (nat * option nat)) : list cstate := fold_left mstep sched ss.
