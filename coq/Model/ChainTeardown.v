(* Model for C01, round-3 strengthening: teardown HISTORIES of a chain (chain.go).

     func (i *Chain) UnbindLocalStream(ctx *StreamInfo)  { for _, x := range i.interceptors { x.UnbindLocalStream(ctx) } }
     func (i *Chain) UnbindRemoteStream(ctx *StreamInfo) { for _, x := range i.interceptors { x.UnbindRemoteStream(ctx) } }
     func (i *Chain) Close() error {
         var errs []error
         for _, x := range i.interceptors { errs = append(errs, x.Close()) }
         return flattenErrs(errs)
     }

   Model/Chain.v has the three operations one at a time over a flat member list.  Here:
   - a chain member may itself be a Chain (NewChain of NewChains): [node] is the tree, [deliver]
     hands one lifecycle call to a node (a leaf counts it, a chain hands it to every child, in
     order, and - for Close - flattens the children's errors);
   - [run_td] folds a whole history of lifecycle calls (any order, any repetition: Close before the
     Unbinds, a stream unbound twice, ...) and collects what each call returned;
   - the chain itself keeps NO state besides its (immutable) member slice - that is the point:
     the calls of a history are independent of each other.
   [deliver_forgetful] / [run_forgetful] is the variant the round-3 seed stands for: Close takes
   the member slice away (i.interceptors = nil), so every later call reaches nobody.
   No proofs here. *)
From IV Require Import Base.Word Model.TwccHdrExt Model.Chain.
Open Scope Z_scope.

(* lifecycle calls on the chain *)
Inductive tdop := TUnbindLocal | TUnbindRemote | TClose.

(* the harness' op codes: 0 UnbindLocalStream, 1 UnbindRemoteStream, anything else Close *)
Definition tdop_of (z : Z) : tdop := if z =? 0 then TUnbindLocal else if z =? 1 then TUnbindRemote else TClose.

(* a member of a chain: a leaf interceptor (counters + the error its Close returns) or a chain *)
Inductive node := NLeaf (m : member) | NChain (l : list node).

(* one call delivered to a leaf interceptor *)
Definition bump (o : tdop) (m : member) : member :=
  match o with
  | TUnbindLocal => mkM (m_closed m) (m_unbound_local m + 1) (m_unbound_remote m) (m_close_err m)
  | TUnbindRemote => mkM (m_closed m) (m_unbound_local m) (m_unbound_remote m + 1) (m_close_err m)
  | TClose => mkM (m_closed m + 1) (m_unbound_local m) (m_unbound_remote m) (m_close_err m)
  end.
Definition leaf_ret (o : tdop) (m : member) : option err :=
  match o with TClose => m_close_err m | _ => None end.

(* one call delivered to a node: (node afterwards, returned error; None for the Unbinds) *)
Fixpoint deliver (o : tdop) (n : node) : node * option err :=
  match n with
  | NLeaf m => (NLeaf (bump o m), leaf_ret o m)
  | NChain l =>
      let r := (fix go (l : list node) : list node * list (option err) :=
                  match l with
                  | [] => ([], [])
                  | x :: tl => (fst (deliver o x) :: fst (go tl), snd (deliver o x) :: snd (go tl))
                  end) l in
      (NChain (fst r), match o with TClose => flatten_errs (snd r) | _ => None end)
  end.

(* the loop body of the three Chain methods, named *)
Fixpoint deliver_all (o : tdop) (l : list node) : list node * list (option err) :=
  match l with
  | [] => ([], [])
  | x :: tl => (fst (deliver o x) :: fst (deliver_all o tl), snd (deliver o x) :: snd (deliver_all o tl))
  end.

(* a history of calls on one chain; the returned errors in call order *)
Fixpoint run_td (h : list tdop) (n : node) : node * list (option err) :=
  match h with
  | [] => (n, [])
  | o :: tl => let ne := deliver o n in let r := run_td tl (fst ne) in (fst r, snd ne :: snd r)
  end.

(* the same, keeping the tree after every call (what the harness snapshots) *)
Fixpoint trace_td (h : list tdop) (n : node) : list node :=
  match h with
  | [] => []
  | o :: tl => let n' := fst (deliver o n) in n' :: trace_td tl n'
  end.

(* the leaf interceptors of a tree, in Chain order (the harness' flattened member list) *)
Fixpoint leaves (n : node) : list member :=
  match n with
  | NLeaf m => [m]
  | NChain l => (fix go (l : list node) : list member :=
                   match l with [] => [] | x :: tl => leaves x ++ go tl end) l
  end.
Fixpoint leaves_all (l : list node) : list member :=
  match l with [] => [] | x :: tl => leaves x ++ leaves_all tl end.

(* how often a call occurs in a history *)
Definition is_op (a b : tdop) : bool :=
  match a, b with
  | TUnbindLocal, TUnbindLocal | TUnbindRemote, TUnbindRemote | TClose, TClose => true
  | _, _ => false
  end.
Fixpoint count_op (o : tdop) (h : list tdop) : Z :=
  match h with [] => 0 | x :: tl => (if is_op o x then 1 else 0) + count_op o tl end.

(* ---- the seeded variant: Close forgets the members ----
   state: the tree (the interceptor objects live on, the application holds them) and whether the
   top-level chain still has its slice.  (A nested chain closed through its parent forgets too,
   but is never reached again once the parent has forgotten it.) *)
Definition deliver_forgetful (o : tdop) (st : node * bool) : (node * bool) * option err :=
  let '(n, has) := st in
  if has then
    let ne := deliver o n in
    ((fst ne, match o with TClose => false | _ => true end), snd ne)
  else ((n, false), None).
Fixpoint run_forgetful (h : list tdop) (st : node * bool) : (node * bool) * list (option err) :=
  match h with
  | [] => (st, [])
  | o :: tl => let se := deliver_forgetful o st in let r := run_forgetful tl (fst se) in (fst r, snd se :: snd r)
  end.
