(* Model of internal/rtpbuffer/rtpbuffer.go (RTPBuffer: NewRTPBuffer, Add, Get,
   Clear) as it is AFTER the fix commits of C04 (Add ignores packets older than
   the window).  The ring `packets []*RetainablePacket` is the list of its
   non-nil entries; the slot of an entry is sequenceNumber mod size (the code
   only ever stores a packet at that index).  Reference counts are not part of
   this sequential model (they are the subject of Model/ResendLts.v). *)
From IV Require Import Base.Word.

(* rtp.Header's extension part: Extension flag, ExtensionProfile, Extensions
   as (id, payload bytes) in slice order *)
Definition hext := (bool * Z * list (Z * list Z))%type.
Definition no_x : hext := (false, 0, []).

(* projection of rtp.Header that the property talks about (everything but Version) *)
Record hdr := mkH {
  h_pad : bool; h_padsize : Z; h_marker : bool; h_pt : Z; h_seq : Z;
  h_ts : Z; h_ssrc : Z; h_csrc : list Z; h_x : hext }.

(* RetainablePacket: sequenceNumber field, header, payload *)
Record rp := mkRP { rp_seq : Z; rp_hdr : hdr; rp_pay : list Z }.

Record rbuf := mkRB { rb_size : Z; rb_pkts : list rp; rb_hi : Z; rb_started : bool }.

Definition ext_eqb (a b : Z * list Z) : bool := (fst a =? fst b) && list_eqb Z.eqb (snd a) (snd b).
Definition hext_eqb (a b : hext) : bool :=
  Bool.eqb (fst (fst a)) (fst (fst b)) && (snd (fst a) =? snd (fst b)) && list_eqb ext_eqb (snd a) (snd b).

Definition hdr_eqb (a b : hdr) : bool :=
  Bool.eqb (h_pad a) (h_pad b) && (h_padsize a =? h_padsize b) && Bool.eqb (h_marker a) (h_marker b) &&
  (h_pt a =? h_pt b) && (h_seq a =? h_seq b) && (h_ts a =? h_ts b) && (h_ssrc a =? h_ssrc b) &&
  list_eqb Z.eqb (h_csrc a) (h_csrc b) && hext_eqb (h_x a) (h_x b).

Definition rp_eqb (a b : rp) : bool :=
  (rp_seq a =? rp_seq b) && hdr_eqb (rp_hdr a) (rp_hdr b) && list_eqb Z.eqb (rp_pay a) (rp_pay b).

(* NewRTPBuffer: size must be 1<<i, i in 0..15 *)
Definition valid_sizes : list Z :=
  [1; 2; 4; 8; 16; 32; 64; 128; 256; 512; 1024; 2048; 4096; 8192; 16384; 32768].
Definition valid_size (size : Z) : bool := existsb (Z.eqb size) valid_sizes.

Definition rb_new (size : Z) : option rbuf :=
  if valid_size size then Some (mkRB size [] 0 false) else None.

Definition slot (size : Z) (p : rp) : Z := rp_seq p mod size.
(* r.packets[idx] *)
Definition slot_get (size : Z) (pkts : list rp) (idx : Z) : option rp :=
  find (fun p => slot size p =? idx) pkts.
(* r.packets[idx] = nil (after Release of the previous entry) *)
Definition slot_clear (size : Z) (pkts : list rp) (idx : Z) : list rp :=
  filter (fun p => negb (slot size p =? idx)) pkts.
(* r.packets[seq % size] = packet (after Release of the previous entry) *)
Definition slot_set (size : Z) (pkts : list rp) (p : rp) : list rp :=
  p :: slot_clear size pkts (slot size p).

(* for i := r.highestAdded + 1; i != seq; i++ { r.packets[i % size] = nil }
   statement by statement: n = seq - highestAdded - 1 iterations *)
Definition clear_loop (size : Z) (pkts : list rp) (hi : Z) (n : nat) : list rp :=
  fold_left (fun pk k => slot_clear size pk (add16 hi (k + 1) mod size)) (zrange 0 n) pkts.

(* closed form of the loop (Proofs/RtpBufferProofs.v: clear_loop_closed): the
   slot idx is hit iff the first i >= hi+1 congruent to idx is < hi+diff *)
Definition clear_between (size : Z) (pkts : list rp) (hi diff : Z) : list rp :=
  filter (fun p => negb ((slot size p - (hi + 1)) mod size <? diff - 1)) pkts.

(* RTPBuffer.Add *)
Definition rb_add (b : rbuf) (p : rp) : rbuf :=
  let size := rb_size b in
  let seq := rp_seq p in
  if negb (rb_started b) then mkRB size (slot_set size (rb_pkts b) p) seq true
  else
    let diff := sub16 seq (rb_hi b) in
    if diff =? 0 then b
    else if diff <? H16 then
      mkRB size (slot_set size (clear_between size (rb_pkts b) (rb_hi b) diff) p) seq true
    else if sub16 (rb_hi b) seq >=? size then b        (* fix: older than the window, released and ignored *)
    else mkRB size (slot_set size (rb_pkts b) p) (rb_hi b) true.

(* the same with the loop run literally (used by small correspondence cases) *)
Definition rb_add_loop (b : rbuf) (p : rp) : rbuf :=
  let size := rb_size b in
  let seq := rp_seq p in
  if negb (rb_started b) then mkRB size (slot_set size (rb_pkts b) p) seq true
  else
    let diff := sub16 seq (rb_hi b) in
    if diff =? 0 then b
    else if diff <? H16 then
      mkRB size (slot_set size (clear_loop size (rb_pkts b) (rb_hi b) (Z.to_nat (diff - 1))) p) seq true
    else if sub16 (rb_hi b) seq >=? size then b
    else mkRB size (slot_set size (rb_pkts b) p) (rb_hi b) true.

(* RTPBuffer.Clear *)
Definition rb_clear (b : rbuf) : rbuf := mkRB (rb_size b) [] (rb_hi b) false.

(* RTPBuffer.Get (Retain cannot fail sequentially: the ring holds a reference) *)
Definition rb_get (b : rbuf) (seq : Z) : option rp :=
  let diff := sub16 (rb_hi b) seq in
  if diff >=? H16 then None
  else if diff >=? rb_size b then None
  else match slot_get (rb_size b) (rb_pkts b) (seq mod rb_size b) with
       | Some p => if rp_seq p =? seq then Some p else None
       | None => None
       end.

(* direct-API operations of the c04buf correspondence set *)
Inductive bop := BAdd (seq id : Z) | BGet (seq : Z) | BClear.

Definition mk_plain (seq id : Z) : rp := mkRP seq (mkH false 0 false 0 seq id 0 [] no_x) [].

Definition bstep (b : rbuf) (o : bop) : rbuf * option (Z * Z) :=
  match o with
  | BAdd seq id => (rb_add b (mk_plain seq id), None)
  | BGet seq => (b, match rb_get b seq with
                    | Some p => Some (h_seq (rp_hdr p), h_ts (rp_hdr p)) | None => None end)
  | BClear => (rb_clear b, None)
  end.

Fixpoint brun (b : rbuf) (ops : list bop) : list (option (Z * Z)) :=
  match ops with
  | [] => []
  | o :: r => let '(b', out) := bstep b o in out :: brun b' r
  end.
