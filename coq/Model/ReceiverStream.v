(* Model of pkg/report/receiver_stream.go (receiverStream.processRTP,
   setReceived/delReceived/getReceived, processSenderReport, generateReport)
   and of the stream table of pkg/report/receiver_interceptor.go, as the code is
   AFTER the fix: commit (jitter transit difference computed from the signed
   32-bit RTP timestamp difference).

   The 128 x uint64 bitmap is a total function on bit positions
   pos = seq mod 8192 (word pos/64, bit pos mod 64 in the Go code).
   time.Time is Z nanoseconds; the zero Time is None.  Float kernels are
   Section variables: the jitter accumulator type J with its update and its
   uint32 read-out, and the DLSR conversion. *)
From IV Require Import Base.Word Base.F64 Base.KMap Model.SenderStream.
From Coq Require Import Floats.

Definition HIST : Z := 8192.    (* size * packetsPerHistoryEntry = 128 * 64 *)

(* pos := seq % 8192, and uint16 truncation, written with bitwise AND so that
   the loops evaluate quickly under vm_compute (ReceiverStreamProofs.slot_mod,
   w16_mod: they are the remainders modulo 8192 and 65536) *)
Definition slot (seq : Z) : Z := Z.land seq 8191.
Definition w16 (x : Z) : Z := Z.land x 65535.

(* setReceived / delReceived / getReceived *)
Definition set_bit (f : Z -> bool) (p : Z) : Z -> bool := fun q => if q =? p then true else f q.
Definition del_bit (f : Z -> bool) (p : Z) : Z -> bool := fun q => if q =? p then false else f q.

(* the loop  for i := last+1; i != seq; i++ { delReceived(i) }  with
   n = seq - last - 1 (mod 2^16) iterations, as written *)
Fixpoint clear_loop (f : Z -> bool) (i : Z) (n : nat) : Z -> bool :=
  match n with
  | O => f
  | S k => clear_loop (del_bit f (slot (w16 i))) (i + 1) k
  end.

(* its pointwise closed form (Proofs/ReceiverStreamProofs.v: clear_loop_closed):
   position q is cleared iff it lies in the cyclic range of n positions from a *)
Definition cyc_dist (q a : Z) : Z := let x := q - a in if x <? 0 then x + 8192 else x.
Definition clear_range (f : Z -> bool) (a n : Z) : Z -> bool :=
  if n <=? 0 then f else fun q => if cyc_dist q a <? n then false else f q.

(* the counting loop of generateReport:
   for i := lastReport+1; i != last; i++ { if !getReceived(i) { ret++ } } *)
Fixpoint count_lost (f : Z -> bool) (i : Z) (n : nat) : Z :=
  match n with
  | O => 0
  | S k => (if f (slot (w16 i)) then 0 else 1) + count_lost f (i + 1) k
  end.

(* ---- float kernels, executed ---- *)
(* D := elapsed.Seconds()*clockRate - float64(int32(ts - lastTS)); |D|;
   jitter += (D - jitter) / 16 *)
Definition jitter_kernel (j : float) (d rate sdiff : Z) : float :=
  let D := PrimFloat.sub (PrimFloat.mul (seconds_f d) (f64_of_Z rate)) (f64_of_Z sdiff) in
  let D := if PrimFloat.ltb D 0%float then PrimFloat.opp D else D in
  PrimFloat.add j (PrimFloat.div (PrimFloat.sub D j) 16%float).

(* uint32(stream.jitter) *)
Definition jitter_out (j : float) : Z := f64_to_u32 j.

(* uint32(now.Sub(lastSenderReportTime).Seconds() * 65536) *)
Definition dlsr_kernel (d : Z) : Z := f64_to_u32 (PrimFloat.mul (seconds_f d) 65536%float).

Inductive rop :=
| RRtp (now seq ts : Z)     (* processRTP(now, header{seq, ts}) *)
| RSr (now ntp : Z)         (* processSenderReport(now, sr{NTPTime}) *)
| RRep (now : Z).           (* generateReport(now) *)

(* (LastSequenceNumber, LastSenderReport, FractionLost, TotalLost, Delay, Jitter) *)
Definition rrep := (Z * Z * Z * Z * Z * Z)%type.

Section Receiver.
  Variable J : Type.
  Variable j0 : J.
  Variable jstep : J -> Z -> Z -> Z -> J.   (* accumulator, elapsed ns, rate, signed ts difference *)
  Variable jout : J -> Z.
  Variable dk : Z -> Z.
  Variable rate : Z.

  Record rstate := mkR {
    r_started : bool;
    r_bits : Z -> bool;          (* packets *)
    r_cycles : Z;                (* seqnumCycles *)
    r_last : Z;                  (* lastSeqnum *)
    r_last_report : Z;           (* lastReportSeqnum *)
    r_last_rtp : Z;              (* lastRTPTimeRTP *)
    r_last_time : Z;             (* lastRTPTimeTime (read only after it was set) *)
    r_jit : J;                   (* jitter *)
    r_lsr : Z;                   (* lastSenderReport *)
    r_lsr_time : option Z;       (* lastSenderReportTime *)
    r_total : Z                  (* totalLost *)
  }.

  (* newReceiverStream *)
  Definition r_init : rstate := mkR false (fun _ => false) 0 0 0 0 0 j0 0 None 0.

  (* receiverStream.processRTP *)
  Definition r_rtp (st : rstate) (now seq ts : Z) : rstate :=
    if negb (r_started st) then
      mkR true (set_bit (r_bits st) (slot seq)) (r_cycles st) seq (sub16 seq 1) ts now
          (r_jit st) (r_lsr st) (r_lsr_time st) (r_total st)
    else
      let bits1 := set_bit (r_bits st) (slot seq) in
      let diff := sub16 seq (r_last st) in
      let newer := (0 <? diff) && (diff <? 32768) in
      let cycles := if newer && (seq <? r_last st) then add16 (r_cycles st) 1 else r_cycles st in
      let bits2 := if newer then clear_range bits1 (slot (w16 (r_last st + 1))) (diff - 1) else bits1 in
      let last := if newer then seq else r_last st in
      let j := jstep (r_jit st) (dur_sub now (r_last_time st)) rate (s32 (sub32 ts (r_last_rtp st))) in
      mkR true bits2 cycles last (r_last_report st) ts now j (r_lsr st) (r_lsr_time st) (r_total st).

  (* receiverStream.processSenderReport *)
  Definition r_sr (st : rstate) (now ntp : Z) : rstate :=
    mkR (r_started st) (r_bits st) (r_cycles st) (r_last st) (r_last_report st) (r_last_rtp st)
        (r_last_time st) (r_jit st) (u32 (ntp / 65536)) (Some now) (r_total st).

  (* receiverStream.generateReport *)
  Definition r_report (st : rstate) (now : Z) : rstate * rrep :=
    let total := sub16 (r_last st) (r_last_report st) in
    let lost := if r_last st =? r_last_report st then 0
                else u32 (count_lost (r_bits st) (r_last_report st + 1) (Z.to_nat (total - 1))) in
    let tl0 := add32 (r_total st) lost in
    let lost' := if 16777215 <? lost then 16777215 else lost in
    let tl := if 16777215 <? tl0 then 16777215 else tl0 in
    (* uint8(float64(lost*256) / float64(total)); 0/0 = NaN converts to 0 on amd64 *)
    let fraction := if total =? 0 then 0 else u8 (u32 (lost' * 256) / total) in
    let delay := match r_lsr_time st with None => 0 | Some t => dk (dur_sub now t) end in
    (mkR (r_started st) (r_bits st) (r_cycles st) (r_last st) (r_last st) (r_last_rtp st)
         (r_last_time st) (r_jit st) (r_lsr st) (r_lsr_time st) tl,
     (u32 (r_cycles st * 65536 + r_last st), r_lsr st, fraction, tl, u32 delay, u32 (jout (r_jit st)))).

  Definition r_step (st : rstate) (op : rop) : rstate * option rrep :=
    match op with
    | RRtp now seq ts => (r_rtp st now seq ts, None)
    | RSr now ntp => (r_sr st now ntp, None)
    | RRep now => let '(st', r) := r_report st now in (st', Some r)
    end.

  Fixpoint r_run (st : rstate) (ops : list rop) : list rrep :=
    match ops with
    | [] => []
    | op :: tl =>
        let '(st', o) := r_step st op in
        match o with Some r => r :: r_run st' tl | None => r_run st' tl end
    end.

End Receiver.

Arguments mkR {J}.
Arguments r_started {J}. Arguments r_bits {J}. Arguments r_cycles {J}. Arguments r_last {J}.
Arguments r_last_report {J}. Arguments r_last_rtp {J}. Arguments r_last_time {J}. Arguments r_jit {J}.
Arguments r_lsr {J}. Arguments r_lsr_time {J}. Arguments r_total {J}.

Inductive riop :=
| RIBind (ssrc rate : Z)          (* BindRemoteStream *)
| RIUnbind (ssrc : Z)             (* UnbindRemoteStream *)
| RIRtp (ssrc now seq ts : Z)     (* the RTPReader returned by the latest bind of ssrc *)
| RISr (ssrc now ntp : Z)         (* a SenderReport for ssrc read through BindRTCPReader *)
| RITick (now : Z).               (* ticker branch of loop *)

Section ReceiverInterceptor.
  Variable J : Type.
  Variable j0 : J.
  Variable jstep : J -> Z -> Z -> Z -> J.
  Variable jout : J -> Z.
  Variable dk : Z -> Z.

  Definition rtab := list (Z * (Z * rstate J)).

  Definition rt_put : Z -> Z * rstate J -> rtab -> rtab := kput.
  Definition rt_del : Z -> rtab -> rtab := kdel.
  Definition rt_get : Z -> rtab -> option (Z * rstate J) := kget.

  (* a tick reports every stream and advances its report point *)
  Fixpoint rt_tick (now : Z) (t : rtab) : rtab * list (Z * rrep) :=
    match t with
    | [] => ([], [])
    | (k, (rate, st)) :: tl =>
        let '(st', r) := r_report J jout dk st now in
        let '(tl', rs) := rt_tick now tl in
        ((k, (rate, st')) :: tl', (k, r) :: rs)
    end.

  Definition ri_step (t : rtab) (op : riop) : rtab * list (Z * rrep) :=
    match op with
    | RIBind ssrc rate => (rt_put ssrc (rate, r_init J j0) t, [])
    | RIUnbind ssrc => (rt_del ssrc t, [])
    | RIRtp ssrc now seq ts =>
        match rt_get ssrc t with
        | Some (rate, st) => (rt_put ssrc (rate, r_rtp J jstep rate st now seq ts) t, [])
        | None => (t, [])
        end
    | RISr ssrc now ntp =>
        match rt_get ssrc t with
        | Some (rate, st) => (rt_put ssrc (rate, r_sr J st now ntp) t, [])
        | None => (t, [])
        end
    | RITick now => rt_tick now t
    end.

  Fixpoint ri_run (t : rtab) (ops : list riop) : list (list (Z * rrep)) :=
    match ops with
    | [] => []
    | op :: tl =>
        let '(t', out) := ri_step t op in
        match op with RITick _ => out :: ri_run t' tl | _ => ri_run t' tl end
    end.

  Fixpoint ri_final (t : rtab) (ops : list riop) : rtab :=
    match ops with [] => t | op :: tl => ri_final (fst (ri_step t op)) tl end.
End ReceiverInterceptor.
