(* C11, round-5 strengthening: the GOROUTINE LEDGER of an interceptor - which component starts how many goroutines
   at which call, and whether the interceptor keeps the handle (close channel + WaitGroup) of that component.

   Model/Lifecycle.v has one kind of loop per interceptor and every loop selects on THE close channel of the
   interceptor: a goroutine that belongs to a component the interceptor does not reference cannot be expressed.
   That is what a constructor does when an option replaces a component that owns a goroutine and the constructor
   builds and starts the replaced component all the same:

     pkg/packetdump/packet_dumper.go NewPacketDumper
        for opts ...                                   PacketLog(l) sets dumper.packetLogger
        if dumper.packetLogger != nil { return }       caller's logger: NO default logger is built
        dpl := &defaultPacketLogger{...}; dpl.run()    run(): wg.Add(1); go d.loop()
        dumper.packetLogger = dpl
     PacketDumper.Close: only a packetLogger of the default logger's type is closed (type assertion), a caller's logger is left alone
        defaultPacketLogger.Close: close(d.close); d.wg.Wait()        loop: select { ... case <-d.close: return }

   comp      a component: when it starts its goroutines (the constructor / every BindRTCPWriter on an open
             interceptor), how many, and k_owned: the interceptor holds it, so Close closes ITS close channel and
             waits on ITS WaitGroup.  An unowned component's close channel is closed by nobody.
   plan      the components a constructor builds for one option set.
   State: the goroutines alive (id, owned), closed (Close was called: the close channel of every owned component
   is closed), the callers inside wg.Wait, ghost close_ret (a Close has returned).
   Labels: a call (Lifecycle.op: the same scripts), GExit i (goroutine i takes the close case of its select and
   returns: enabled iff it is owned and closed), GResume t (wg.Wait of caller t returns: no owned goroutine alive).
   Atomicity / trusted as in Model/Lifecycle.v. *)
From IV Require Import Base.Word Model.Lifecycle.

Inductive when := AtNew | AtBindW.

Record comp := mkComp { k_when : when; k_n : nat; k_owned : bool }.
Definition plan := list comp.

Record ost := mkO {
  o_closed : bool;
  o_close_ret : bool;                (* ghost: a Close call has returned *)
  o_alive : list (nat * bool);       (* goroutine id, owned *)
  o_next : nat;
  o_waiting : list nat               (* callers of Close inside wg.Wait *)
}.

Inductive olabel := OCall (t : nat) (o : op) | GExit (i : nat) | GResume (t : nat).

Fixpoint spawn (n : nat) (owned : bool) (next : nat) : list (nat * bool) :=
  match n with O => [] | S m => (next, owned) :: spawn m owned (S next) end.

(* start the goroutines of every component of the plan that starts at `w` *)
Fixpoint start (w : when) (p : plan) (alive : list (nat * bool)) (next : nat) : list (nat * bool) * nat :=
  match p with
  | [] => (alive, next)
  | k :: tl =>
      match w, k_when k with
      | AtNew, AtNew | AtBindW, AtBindW => start w tl (alive ++ spawn (k_n k) (k_owned k) next) (next + k_n k)
      | _, _ => start w tl alive next
      end
  end.

Definition oinit (p : plan) : ost :=
  let '(a, n) := start AtNew p [] 0 in mkO false false a n [].

Definition owned_alive (s : ost) : list (nat * bool) := filter snd (o_alive s).
Definition no_owned (s : ost) : bool := match owned_alive s with [] => true | _ => false end.
Definition nmem (t : nat) (l : list nat) : bool := existsb (Nat.eqb t) l.
Definition nremove (t : nat) (l : list nat) : list nat := filter (fun u => negb (Nat.eqb u t)) l.

Definition ocall (p : plan) (s : ost) (t : nat) (o : op) : ost :=
  match o with
  | OBindW =>
      (* `if closed { return }; wg.Add(1); go loop(writer)` *)
      if o_closed s then s
      else let '(a, n) := start AtBindW p (o_alive s) (o_next s) in
           mkO (o_closed s) (o_close_ret s) a n (o_waiting s)
  | OClose =>
      (* close the close channel of every component the interceptor holds, then wait for their goroutines *)
      if no_owned s then mkO true true (o_alive s) (o_next s) (o_waiting s)
      else mkO true (o_close_ret s) (o_alive s) (o_next s) (t :: o_waiting s)
  | _ => s
  end.

Definition ostep (p : plan) (s : ost) (l : olabel) : option ost :=
  match l with
  | OCall t o => if nmem t (o_waiting s) then None else Some (ocall p s t o)
  | GExit i =>
      if o_closed s && existsb (fun g => Nat.eqb (fst g) i && snd g) (o_alive s)
      then Some (mkO (o_closed s) (o_close_ret s)
                     (filter (fun g => negb (Nat.eqb (fst g) i && snd g)) (o_alive s)) (o_next s) (o_waiting s))
      else None
  | GResume t =>
      if nmem t (o_waiting s) && no_owned s
      then Some (mkO (o_closed s) true (o_alive s) (o_next s) (nremove t (o_waiting s)))
      else None
  end.

Fixpoint orun (p : plan) (s : ost) (tr : list olabel) : option ost :=
  match tr with
  | [] => Some s
  | l :: tl => match ostep p s l with Some s' => orun p s' tl | None => None end
  end.

Definition oreachable (p : plan) (s : ost) : Prop := exists tr, orun p (oinit p) tr = Some s.

(* the premise: the interceptor keeps every component its constructor (or BindRTCPWriter) starts *)
Definition all_owned (p : plan) : bool := forallb k_owned p.

(* ---- plans of the interceptors (hand-assigned from the source) ---- *)
Definition no_goroutines : plan := [].
(* nack generator, report receiver / sender, twcc sender, rfc8888, intervalpli: `wg.Add(1); go x.loop(writer)` in
   BindRTCPWriter, refused once closed *)
Definition loop_on_bindw : plan := [mkComp AtBindW 1 true].
(* pacing: NewInterceptor starts the pacing loop *)
Definition pacing_plan : plan := [mkComp AtNew 1 true].
(* gcc: newLeakyBucketPacer starts the pacer loop (skipped when SendSideBWEPacer supplies a pacer: a caller's
   LeakyBucketPacer has started its own loop and is closed by SendSideBWE.Close all the same, NoOpPacer has
   none); newDelayController starts two goroutines (delay_based_bwe.go), stopped by delayController.Close *)
Definition gcc_plan (pacer_loop : bool) : plan :=
  (if pacer_loop then [mkComp AtNew 1 true] else []) ++ [mkComp AtNew 2 true].
(* packetdump (Receiver and Sender share NewPacketDumper): the default packet logger and its loop exist only when
   the caller supplies no logger *)
Definition packetdump_plan (custom_logger : bool) : plan :=
  if custom_logger then [] else [mkComp AtNew 1 true].
(* the seeded change (seeded/C11-r5-2): the default logger is always built and started, and installed - kept by
   the interceptor - only if the caller supplied none *)
Definition packetdump_stray_plan (custom_logger : bool) : plan := [mkComp AtNew 1 (negb custom_logger)].

(* ---- canonical sequential schedule (correspondence only): after every call every goroutine that can exit does,
   then every waiting Close resumes ---- *)
Definition osettle (s : ost) : ost :=
  let alive := if o_closed s then filter (fun g => negb (snd g)) (o_alive s) else o_alive s in
  let s1 := mkO (o_closed s) (o_close_ret s) alive (o_next s) (o_waiting s) in
  if no_owned s1 then mkO (o_closed s1) (o_close_ret s1 || negb (match o_waiting s1 with [] => true | _ => false end))
                          alive (o_next s1) []
  else s1.

Fixpoint ocounts (p : plan) (s : ost) (t : nat) (ops : list op) : list Z :=
  match ops with
  | [] => []
  | o :: tl => let s' := osettle (ocall p s t o) in Z.of_nat (length (o_alive s')) :: ocounts p s' (S t) tl
  end.

(* goroutines alive: after the constructor, after every call of the script, after the final Close *)
Definition census_model (p : plan) (ops : list op) : list Z :=
  Z.of_nat (length (o_alive (oinit p))) :: ocounts p (oinit p) 0 (ops ++ [OClose]).
