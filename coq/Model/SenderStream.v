(* Model of pkg/report/sender_stream.go (senderStream.processRTP,
   senderStream.generateReport) and of the stream table of
   pkg/report/sender_interceptor.go (BindLocalStream / UnbindLocalStream /
   the ticker branch of loop), as the code is AFTER the two fix: commits
   (first packet detected by a [started] flag, not by timestamp <> 0 and not
   by packetCount = 0).

   time.Time is Z nanoseconds since the Unix epoch; the zero Time (field never
   assigned) is [None].  Time.Sub saturates to the int64 range.  The float
   kernels (Duration.Seconds()*clockRate -> uint32, ntp.ToNTP) are Section
   variables; [elapsed_kernel] and [Ntp.ntp_kernel] instantiate them with
   primitive binary64 floats for execution. *)
From IV Require Import Base.Word Base.F64 Base.KMap Model.Ntp.
From Coq Require Import Floats.

Definition MaxDur : Z := 9223372036854775807.
Definition MinDur : Z := -9223372036854775808.

(* time.Time.Sub: saturating difference *)
Definition dur_sub (a b : Z) : Z :=
  let d := a - b in
  if d <? MinDur then MinDur else if MaxDur <? d then MaxDur else d.

(* now.Sub(t) where t may be the zero Time (year 1): saturates to MaxDur for
   every instant representable as Unix nanoseconds *)
Definition since (now : Z) (t : option Z) : Z :=
  match t with Some t => dur_sub now t | None => MaxDur end.

(* Duration.Seconds(): sec := d / Second; nsec := d % Second (Go truncated
   division); float64(sec) + float64(nsec)/1e9 *)
Definition seconds_f (d : Z) : float :=
  PrimFloat.add (f64_of_Z (Z.quot d 1000000000))
                (PrimFloat.div (f64_of_Z (Z.rem d 1000000000)) 1000000000%float).

(* uint32(d.Seconds() * clockRate), clockRate = float64(uint32 rate) *)
Definition elapsed_kernel (d rate : Z) : Z :=
  f64_to_u32 (PrimFloat.mul (seconds_f d) (f64_of_Z rate)).

Record sstate := mkS {
  s_started : bool;          (* started *)
  s_ref_rtp : Z;             (* lastRTPTimeRTP *)
  s_ref_time : option Z;     (* lastRTPTimeTime *)
  s_last_sn : Z;             (* lastRTPSN *)
  s_pc : Z;                  (* packetCount *)
  s_oc : Z                   (* octetCount *)
}.

(* newSenderStream *)
Definition s_init : sstate := mkS false 0 None 0 0 0.

Inductive sop :=
| SRtp (now seq ts len : Z)   (* processRTP(now, header{seq,ts}, payload of len bytes) *)
| SAdv (n : Z)                (* hook AdvancePacketCount(n): packetCount += n *)
| SRep (now : Z).             (* generateReport(now) *)

(* (NTPTime, RTPTime, PacketCount, OctetCount) *)
Definition srep := (Z * Z * Z * Z)%type.

Section Sender.
  Variable ek : Z -> Z -> Z.        (* uint32(d.Seconds()*rate) *)
  Variable k1 : Z -> Z * Z.         (* ntp float kernel *)
  Variable rate : Z.
  Variable use_latest : bool.

  (* senderStream.processRTP *)
  Definition s_rtp (st : sstate) (now seq ts len : Z) : sstate :=
    let diff := sub16 seq (s_last_sn st) in
    let accept := use_latest || negb (s_started st) || ((0 <? diff) && (diff <? 32768)) in
    let upd := accept && (negb (s_started st) || negb (ts =? s_ref_rtp st)) in
    mkS true
        (if upd then ts else s_ref_rtp st)
        (if upd then Some now else s_ref_time st)
        (if accept then seq else s_last_sn st)
        (add32 (s_pc st) 1)
        (add32 (s_oc st) (u32 len)).

  (* senderStream.generateReport *)
  Definition s_report (st : sstate) (now : Z) : srep :=
    (to_ntp k1 now,
     add32 (s_ref_rtp st) (u32 (ek (since now (s_ref_time st)) rate)),
     s_pc st, s_oc st).

  Definition s_step (st : sstate) (op : sop) : sstate * option srep :=
    match op with
    | SRtp now seq ts len => (s_rtp st now seq ts len, None)
    | SAdv n => (mkS (s_started st) (s_ref_rtp st) (s_ref_time st) (s_last_sn st)
                     (add32 (s_pc st) n) (s_oc st), None)
    | SRep now => (st, Some (s_report st now))
    end.

  Fixpoint s_run (st : sstate) (ops : list sop) : list srep :=
    match ops with
    | [] => []
    | op :: tl =>
        let '(st', o) := s_step st op in
        match o with Some r => r :: s_run st' tl | None => s_run st' tl end
    end.

  Fixpoint s_final (st : sstate) (ops : list sop) : sstate :=
    match ops with
    | [] => st
    | op :: tl => s_final (fst (s_step st op)) tl
    end.
End Sender.

(* ---- interceptor level: sync.Map of streams keyed by SSRC ---- *)
Inductive siop :=
| SIBind (ssrc rate : Z)            (* BindLocalStream: Store(ssrc, newSenderStream) *)
| SIUnbind (ssrc : Z)               (* UnbindLocalStream: Delete(ssrc) *)
| SIWrite (ssrc now seq ts len : Z) (* the RTPWriter returned by the latest bind of ssrc *)
| SITick (now : Z).                 (* ticker branch of loop: one report per stream *)

Definition stable := list (Z * (Z * sstate)).   (* ssrc -> (rate, state), sorted by ssrc *)

(* Store / Delete / Load of the sync.Map (Base/KMap.v) *)
Definition st_put : Z -> Z * sstate -> stable -> stable := kput.
Definition st_del : Z -> stable -> stable := kdel.
Definition st_get : Z -> stable -> option (Z * sstate) := kget.

Section SenderInterceptor.
  Variable ek : Z -> Z -> Z.
  Variable k1 : Z -> Z * Z.
  Variable use_latest : bool.

  (* a tick yields the reports of all streams, here in SSRC order (Go's
     sync.Map.Range order is unspecified; the harness sorts) *)
  Definition si_step (t : stable) (op : siop) : stable * list (Z * srep) :=
    match op with
    | SIBind ssrc rate => (st_put ssrc (rate, s_init) t, [])
    | SIUnbind ssrc => (st_del ssrc t, [])
    | SIWrite ssrc now seq ts len =>
        match st_get ssrc t with
        | Some (rate, st) => (st_put ssrc (rate, s_rtp use_latest st now seq ts len) t, [])
        | None => (t, [])
        end
    | SITick now =>
        (t, map (fun e => (fst e, s_report ek k1 (fst (snd e)) (snd (snd e)) now)) t)
    end.

  Fixpoint si_run (t : stable) (ops : list siop) : list (list (Z * srep)) :=
    match ops with
    | [] => []
    | op :: tl =>
        let '(t', out) := si_step t op in
        match op with SITick _ => out :: si_run t' tl | _ => si_run t' tl end
    end.

  Fixpoint si_final (t : stable) (ops : list siop) : stable :=
    match ops with [] => t | op :: tl => si_final (fst (si_step t op)) tl end.
End SenderInterceptor.
