(* Model for C11, round-4 strengthening: a per-SSRC table guarded by ONE mutex, with the release of the mutex
   explicit on every exit path of every call.

   What it mirrors (statement level): pkg/gcc/noop_pacer.go - the pacer the gcc bandwidth estimator uses when it
   is built with the option gcc.SendSideBWEPacer(gcc.NewNoOpPacer()):
     AddStream(ssrc, w)     p.lock.Lock(); defer p.lock.Unlock(); p.ssrcToWriter[ssrc] = w            PAdd x
     RemoveStream(ssrc)     p.lock.Lock(); defer p.lock.Unlock(); delete(p.ssrcToWriter, ssrc)       PRemove x
     Write(header, ...)     p.lock.Lock(); defer p.lock.Unlock();
                            if w, ok := p.ssrcToWriter[header.SSRC]; ok { return w.Write(...) }       PWrite x, path "hit"
                            return 0, ErrUnknownStream                                                 PWrite x, path "miss"
     Close / SetTargetBitrate / cc.Interceptor BindRTCPWriter, BindRTCPReader, incoming RTCP          POther (no lock)
   reached from the API through cc.Interceptor: BindLocalStream -> SendSideBWE.AddStream -> pacer.AddStream,
   UnbindLocalStream -> SendSideBWE.RemoveStream -> pacer.RemoveStream, the writer returned by BindLocalStream is
   the pacer itself (the header SSRC selects the stream).  The same shape - lock, look the stream up, early return
   when it is unknown - is what every interceptor with a per-SSRC map does.

   The record lcfg says, per exit path, whether the path releases the mutex (`defer Unlock` = every path does).
   held = the mutex is locked although no call is in progress: some path returned without Unlock.

   Atomicity assumption (trusted, as in Model/Lifecycle.v): a call runs atomically up to its first blocking point,
   which here is only p.lock.Lock(); the write to the next writer made under the lock returns. *)
From IV Require Import Base.Word.

Inductive lop := PAdd (x : Z) | PRemove (x : Z) | PWrite (x : Z) | POther.

Record lcfg := mkL {
  u_add : bool;      (* AddStream releases the mutex *)
  u_remove : bool;   (* RemoveStream releases the mutex *)
  u_hit : bool;      (* Write, stream known: releases the mutex *)
  u_miss : bool      (* Write, stream unknown (ErrUnknownStream): releases the mutex *)
}.

Record lst := mkLS {
  held : bool;                  (* the mutex is locked and no call in progress will unlock it *)
  ltab : list Z;                (* keys of ssrcToWriter *)
  lparked : list (nat * lop);   (* callers parked in p.lock.Lock() *)
  delivered : list Z;           (* ghost: packets handed to the stream's writer, oldest first *)
  refused : list Z;             (* ghost: packets answered with ErrUnknownStream *)
  removed : list Z;             (* ghost: RemoveStream x returned, x not added again since *)
  late : list Z                 (* ghost: packets handed to the writer of a stream while it was removed *)
}.

Definition linit : lst := mkLS false [] [] [] [] [] [].

Definition lmem (x : Z) (l : list Z) : bool := existsb (Z.eqb x) l.
Definition ldrop (x : Z) (l : list Z) : list Z := filter (fun y => negb (y =? x)) l.

Fixpoint pfindL (t : nat) (p : list (nat * lop)) : option lop :=
  match p with [] => None | (u, o) :: tl => if Nat.eqb u t then Some o else pfindL t tl end.
Fixpoint pdelL (t : nat) (p : list (nat * lop)) : list (nat * lop) :=
  match p with [] => [] | (u, o) :: tl => if Nat.eqb u t then pdelL t tl else (u, o) :: pdelL t tl end.

Definition locks (o : lop) : bool := match o with POther => false | _ => true end.

(* the body of a call, run with the mutex acquired; the new value of `held` = the path did not unlock *)
Definition lbody (c : lcfg) (s : lst) (o : lop) : lst :=
  match o with
  | PAdd x => mkLS (negb (u_add c)) (x :: ldrop x (ltab s)) (lparked s) (delivered s) (refused s)
                   (ldrop x (removed s)) (late s)
  | PRemove x => mkLS (negb (u_remove c)) (ldrop x (ltab s)) (lparked s) (delivered s) (refused s)
                      (x :: ldrop x (removed s)) (late s)
  | PWrite x =>
      if lmem x (ltab s)
      then mkLS (negb (u_hit c)) (ltab s) (lparked s) (delivered s ++ [x]) (refused s) (removed s)
                (if lmem x (removed s) then x :: late s else late s)
      else mkLS (negb (u_miss c)) (ltab s) (lparked s) (delivered s) (refused s ++ [x]) (removed s) (late s)
  | POther => s
  end.

Definition set_parked (s : lst) (p : list (nat * lop)) : lst :=
  mkLS (held s) (ltab s) p (delivered s) (refused s) (removed s) (late s).

Inductive llabel := PCall (t : nat) (o : lop) | PResume (t : nat).

Definition lstep (c : lcfg) (s : lst) (l : llabel) : option lst :=
  match l with
  | PCall t o =>
      match pfindL t (lparked s) with
      | Some _ => None                                   (* the thread is parked inside a call *)
      | None =>
          if locks o then
            if held s then Some (set_parked s ((t, o) :: lparked s))    (* parks in Lock() *)
            else Some (lbody c s o)
          else Some s
      end
  | PResume t =>
      match pfindL t (lparked s) with
      | Some o => if held s then None else Some (lbody c (set_parked s (pdelL t (lparked s))) o)
      | None => None
      end
  end.

Fixpoint lrun (c : lcfg) (s : lst) (tr : list llabel) : option lst :=
  match tr with
  | [] => Some s
  | l :: tl => match lstep c s l with Some s' => lrun c s' tl | None => None end
  end.

(* every exit path releases the mutex *)
Definition lock_ok (c : lcfg) : bool := u_add c && u_remove c && u_hit c && u_miss c.

(* /repo: `defer p.lock.Unlock()` in all three methods *)
Definition noop_pacer_lcfg : lcfg := mkL true true true true.
(* the seeded change: explicit Unlock after the lookup, the unknown-stream return comes before it *)
Definition noop_pacer_miss_leaks_lcfg : lcfg := mkL true true true false.

(* ---- sequential scripts (used by the correspondence) ----
   every call of the script on its own thread; after each call the parked callers that can go on do.
   outcome per step: 0 returned, 1 parked and released by a later step, 2 parked for ever *)
Definition lresume_all (c : lcfg) (s : lst) : lst :=
  fold_left (fun s t => match lstep c s (PResume t) with Some s' => s' | None => s end)
            (rev (map fst (lparked s))) s.

Definition lis_parked (s : lst) (t : nat) : bool :=
  match pfindL t (lparked s) with Some _ => true | None => false end.

Fixpoint lexec (c : lcfg) (s : lst) (t : nat) (ops : list lop) : list bool * lst :=
  match ops with
  | [] => ([], s)
  | o :: tl =>
      match lstep c s (PCall t o) with
      | Some s1 =>
          let s2 := lresume_all c s1 in
          let '(r, f) := lexec c s2 (S t) tl in (lis_parked s2 t :: r, f)
      | None => ([], s)
      end
  end.

Fixpoint outcome_codes (final : lst) (t : nat) (r : list bool) : list Z :=
  match r with
  | [] => []
  | p :: tl => (if p then (if lis_parked final t then 2 else 1) else 0) :: outcome_codes final (S t) tl
  end.

Definition locked_outcomes (c : lcfg) (ops : list lop) : list Z :=
  outcome_codes (snd (lexec c linit 0 ops)) 0 (fst (lexec c linit 0 ops)).
