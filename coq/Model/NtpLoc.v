(* Model of the time.Time ARGUMENTS of internal/ntp/ntp.go (round-5 extension of
   Model/Ntp.v).

   A Go time.Time is an instant plus a *Location (presentation only).  All that a
   Location contributes at one instant is its offset east of UTC in seconds, so a
   value is modelled as the pair (instant in ns since the Unix epoch, zone offset in
   seconds).  The conversions of ntp.go read their argument through
   t.UnixNano() only ("the result does not depend on the location associated with
   t"), and build their result with time.Unix(0,0).Add(..) whose instant does not
   depend on time.Local either.  No proofs in this file. *)
From IV Require Import Base.Word Base.F64 Model.Ntp.
From Coq Require Import Floats.

Record gotime : Type := mkTime { instant : Z; zone_off : Z }.

(* time.Time.UnixNano *)
Definition UnixNano (t : gotime) : Z := instant t.
(* time.Time.In(loc) / .UTC() / .Local(): same instant, other Location *)
Definition In (t : gotime) (off : Z) : gotime := mkTime (instant t) off.
(* time.Time.Equal *)
Definition time_equal (a b : gotime) : Prop := instant a = instant b.

(* ntp.ToNTP(t time.Time), ntp.ToNTP32(t time.Time) *)
Definition ToNTP_t (t : gotime) : Z := ToNTP (UnixNano t).
Definition ToNTP32_t (t : gotime) : Z := ToNTP32 (UnixNano t).
(* ntp.ToTime(n): time.Unix(0,0).Add(..) carries the host's Local location *)
Definition ToTime_t (host_off : Z) (n : Z) : gotime := mkTime (ToTime n) host_off.
(* ntp.ToTime32(n, reference time.Time) *)
Definition ToTime32_t (host_off : Z) (n : Z) (ref : gotime) : gotime :=
  mkTime (ToTime32 n (UnixNano ref)) host_off.

(* ---- a deliberately WRONG variant, kept only to show that the Location
   dimension is not vacuous: the 1900 epoch taken at midnight of the value's own
   Location, i.e. time.Date(1900,1,1,0,0,0,0,t.Location()).Unix() = -2208988800 - off
   (for a fixed-offset zone) instead of the constant. ---- *)
Definition ntp_kernel_local_epoch (off ns : Z) : Z * Z :=
  let s := PrimFloat.sub (PrimFloat.div (f64_of_Z ns) 1000000000%float)
                         (f64_of_Z (-2208988800 - off)) in
  let ip := f64_to_u32 s in
  let fp := f64_to_u32 (PrimFloat.mul (PrimFloat.sub s (f64_of_Z ip)) 4294967295%float) in
  (ip, fp).
Definition ToNTP_local_epoch (t : gotime) : Z :=
  to_ntp (ntp_kernel_local_epoch (zone_off t)) (UnixNano t).
