(* Model for C01, round-5 strengthening: SEVERAL LOCAL STREAMS WITH DIFFERENT NEGOTIATED
   CONFIGURATIONS on one interceptor.

   Every BindLocalStream(info, writer) call reads what ITS stream negotiated from ITS StreamInfo.
   The member whose closure depends on it most visibly is twcc.HeaderExtensionInterceptor
   (pkg/twcc/header_extension_interceptor.go):

       type HeaderExtensionInterceptor struct { interceptor.NoOp; nextSequenceNr uint32 }

       BindLocalStream(info, writer):
           var hdrExtID uint8
           for _, e := range info.RTPHeaderExtensions { if e.URI == transportCCURI { hdrExtID = uint8(e.ID); break } }
           if hdrExtID == 0 { return writer }
           return func(header, payload, attributes) {
               sequenceNumber := atomic.AddUint32(&h.nextSequenceNr, 1) - 1
               tcc := TransportCCExtension{uint16(sequenceNumber)}.Marshal()
               err = header.SetExtension(hdrExtID, tcc)          (* hdrExtID: the CLOSURE's variable *)
               if err != nil { return 0, err }
               return writer.Write(header, payload, attributes) }

   State of the interceptor: the sequence counter (shared by all streams).  State of a binding: the
   hdrExtID its closure captured.  [hx_step use_own] is the code above over histories of
   BindLocalStream calls (binding ids are given out in order 0, 1, 2, ...) and Writes through the
   writer binding k returned.  [use_field] is the variant the round-5 seed stands for: the ID is a
   field of the interceptor, stored by every BindLocalStream that found a non-zero ID and loaded by
   every closure - the packets of EVERY stream get the extension under the ID of the stream bound
   LAST.  What one Write produces: the packet handed to the next writer of its binding, or nothing
   (SetExtension refused, the error is returned).  No proofs here. *)
From IV Require Import Base.Word Model.Chain.
From Coq Require Import List ZArith.
Import ListNotations.
Open Scope Z_scope.

Section HdrExt.
  Variable P : Type.
  Variable set_tcc : Z -> Z -> P -> option P.   (* sid, sequence number, packet (Model/Chain.v) *)

  Inductive hx_op := HBind (sid : Z) | HWrite (k : nat) (p : P).

  Record hx := mkHx { hx_ctr : Z; hx_ids : list Z; hx_field : Z }.
  Definition hx0 : hx := mkHx 0 [] 0.

  (* which ID a closure that captured [sid] passes to SetExtension *)
  Definition use_own (st : hx) (sid : Z) : Z := sid.               (* the code *)
  Definition use_field (st : hx) (sid : Z) : Z := hx_field st.     (* seeded: atomic.LoadUint32(&h.hdrExtID) *)

  Definition hx_write (use : hx -> Z -> Z) (st : hx) (k : nat) (p : P) : hx * option P :=
    let sid := nth k (hx_ids st) 0 in
    if sid =? 0 then (st, Some p)                 (* BindLocalStream returned the writer it was handed *)
    else (mkHx ((hx_ctr st + 1) mod 4294967296) (hx_ids st) (hx_field st),
          set_tcc (use st sid) (hx_ctr st) p).

  (* one event; output: (binding, packet written, what reached that binding's next writer) *)
  Definition hx_step (use : hx -> Z -> Z) (st : hx) (o : hx_op) : hx * list (nat * P * option P) :=
    match o with
    | HBind sid => (mkHx (hx_ctr st) (hx_ids st ++ [sid]) (if sid =? 0 then hx_field st else sid), [])
    | HWrite k p => let '(st', q) := hx_write use st k p in (st', [(k, p, q)])
    end.

  Fixpoint hx_run (use : hx -> Z -> Z) (st : hx) (ops : list hx_op) : list (nat * P * option P) :=
    match ops with
    | [] => []
    | o :: tl => let '(st', out) := hx_step use st o in out ++ hx_run use st' tl
    end.

  (* the IDs the streams of a history negotiated, in binding order *)
  Fixpoint bound_ids (ops : list hx_op) : list Z :=
    match ops with
    | [] => []
    | HBind sid :: tl => sid :: bound_ids tl
    | HWrite _ _ :: tl => bound_ids tl
    end.
  Fixpoint written (ops : list hx_op) : list P :=
    match ops with
    | [] => []
    | HBind _ :: tl => written tl
    | HWrite _ p :: tl => p :: written tl
    end.
  (* a Write goes through a writer a BindLocalStream has returned: n = bindings made so far *)
  Fixpoint hx_wf (n : nat) (ops : list hx_op) : Prop :=
    match ops with
    | [] => True
    | HBind _ :: tl => hx_wf (S n) tl
    | HWrite k _ :: tl => (k < n)%nat /\ hx_wf n tl
    end.
End HdrExt.
Arguments HBind {P}. Arguments HWrite {P}. Arguments hx_run {P}. Arguments hx_step {P}. Arguments hx_write {P}.
Arguments bound_ids {P}. Arguments written {P}. Arguments hx_wf {P}.
