(* Which local streams the NACK responder serves: the configuration dimension
   "stream information" of BindLocalStream.

   pkg/nack/nack.go streamSupportNack (the default of
   ResponderInterceptor.streamsFilter, set in NewInterceptor), the option
   ResponderStreamsFilter (pkg/nack/responder_option.go), and the extension
   of Model/Responder.v whose BindLocalStream carries the stream's
   RTCPFeedback list instead of the filter's verdict.

   interceptor.RTCPFeedback is projected to (Type, Parameter), both as the
   list of their bytes (no interpretation of the strings outside Coq). *)
From IV Require Import Base.Word Model.RtpBuffer Model.PacketFactory Model.Responder.

Definition fb := (list Z * list Z)%type.          (* RTCPFeedback.Type, RTCPFeedback.Parameter *)

Definition str_nack : list Z := [110; 97; 99; 107].   (* "nack" *)

Definition bytes_eqb (a b : list Z) : bool := list_eqb Z.eqb a b.

(* func streamSupportNack(info): for _, fb := range info.RTCPFeedback {
     if fb.Type == "nack" && fb.Parameter == "" { return true } }; return false *)
Fixpoint stream_support_nack (fbs : list fb) : bool :=
  match fbs with
  | [] => false
  | f :: r => if bytes_eqb (fst f) str_nack && bytes_eqb (snd f) [] then true
              else stream_support_nack r
  end.

(* n.streamsFilter(info).  flt: 0 = option ResponderStreamsFilter not given
   (streamSupportNack), 1 = ResponderStreamsFilter with a filter that returns true for every stream,
   2 = ResponderStreamsFilter with a filter that returns false for every stream *)
Definition streams_filter (flt : Z) (fbs : list fb) : bool :=
  if flt =? 1 then true else if flt =? 2 then false else stream_support_nack fbs.

(* interceptor.StreamInfo projection: SSRC, SSRCRetransmission,
   PayloadTypeRetransmission, RTCPFeedback (the remaining fields are not read
   by the responder) *)
Record finfo := mkFI { fi_ssrc : Z; fi_rtxssrc : Z; fi_rtxpt : Z; fi_fb : list fb }.

Definition finfo_sinfo (flt : Z) (i : finfo) : sinfo :=
  mkSI (fi_ssrc i) (fi_rtxssrc i) (fi_rtxpt i) (streams_filter flt (fi_fb i)).

(* the API operations of Model/Responder.v with the full stream information *)
Inductive fop :=
| FBind (i : finfo) (wid : Z)
| FWrite (hid : nat) (h : hdr) (pay : list Z)
| FNack (ssrc : Z) (pairs : list (Z * Z))
| FUnbind (ssrc : Z)
| FClose.

Definition fop_op (flt : Z) (o : fop) : op :=
  match o with
  | FBind i wid => OBind (finfo_sinfo flt i) wid
  | FWrite hid h pay => OWrite hid h pay
  | FNack ssrc pairs => ONack ssrc pairs
  | FUnbind ssrc => OUnbind ssrc
  | FClose => OClose
  end.

Definition fstep (flt : Z) (s : rstate) (o : fop) : rstate * out := rstep s (fop_op flt o).

Definition frun (flt : Z) (s : rstate) (ops : list fop) : list out := rrun s (map (fop_op flt) ops).
