(* Model of pkg/twcc/header_extension_interceptor.go together with the effect
   of pion/rtp Header.SetExtension (header_extension.go: headerExtensionCheck;
   packet.go: SetExtension) on a header. *)
From IV Require Import Base.Word.

Record hdr := mkH {
  h_fixed : list Z;            (* version, padding, marker, pt, seq, ts, ssrc, paddingSize, csrc... : never touched *)
  h_ext : bool;                (* Header.Extension *)
  h_profile : Z;               (* Header.ExtensionProfile *)
  h_exts : list (Z * list Z)   (* Header.Extensions: (id, payload) in order *)
}.

Definition PROFILE_ONE : Z := 48862.  (* 0xBEDE *)
Definition PROFILE_TWO : Z := 4096.   (* 0x1000 *)

(* headerExtensionCheck: true = no error *)
Definition ext_check (profile id len : Z) : bool :=
  if profile =? PROFILE_ONE then (1 <=? id) && (id <=? 14) && (len <=? 16)
  else if profile =? PROFILE_TWO then (1 <=? id) && (len <=? 255)
  else id =? 0.

Fixpoint update_ext (id : Z) (p : list Z) (l : list (Z * list Z)) : option (list (Z * list Z)) :=
  match l with
  | [] => None
  | (i, q) :: tl =>
      if i =? id then Some ((i, p) :: tl)
      else match update_ext id p tl with Some tl' => Some ((i, q) :: tl') | None => None end
  end.

(* Header.SetExtension(id, payload); None = error, header unchanged *)
Definition set_extension (id : Z) (p : list Z) (h : hdr) : option hdr :=
  if h_ext h then
    if ext_check (h_profile h) id (Z.of_nat (length p)) then
      match update_ext id p (h_exts h) with
      | Some l => Some (mkH (h_fixed h) true (h_profile h) l)
      | None => Some (mkH (h_fixed h) true (h_profile h) (h_exts h ++ [(id, p)]))
      end
    else None
  else
    let len := Z.of_nat (length p) in
    let prof := if len <=? 16 then PROFILE_ONE else if len <? 256 then PROFILE_TWO else h_profile h in
    Some (mkH (h_fixed h) true prof (h_exts h ++ [(id, p)])).

(* TransportCCExtension.Marshal of uint16(sequenceNumber) *)
Definition tcc_bytes (n : Z) : list Z := [ (n mod 65536) / 256; n mod 256 ].

(* stream configuration: the id found by BindLocalStream (uint8 of the first matching entry; 0 = pass through) *)
Definition stream_id (ids : list Z) : Z := match ids with [] => 0 | i :: _ => i mod 256 end.

Inductive wres :=
| Forward (h : hdr)     (* next writer called with this header (payload untouched) *)
| PassThrough           (* stream not bound to the extension: the original writer is used *)
| WErr.                 (* error returned, next writer not called *)

(* one Write on a stream with extension id [sid]; hopt = None models a nil header.
   State = nextSequenceNr (uint32). *)
Definition write (ctr : Z) (sid : Z) (hopt : option hdr) : Z * wres :=
  if sid =? 0 then (ctr, PassThrough)
  else
    let n := ctr in
    let ctr' := (ctr + 1) mod 4294967296 in
    match hopt with
    | None => (ctr', WErr)
    | Some h =>
        match set_extension sid (tcc_bytes n) h with
        | Some h' => (ctr', Forward h')
        | None => (ctr', WErr)
        end
    end.

Fixpoint run (ctr : Z) (ops : list (Z * option hdr)) : list wres :=
  match ops with
  | [] => []
  | (sid, h) :: tl => let '(c, r) := write ctr sid h in r :: run c tl
  end.

(* ---- concurrency: each Write is two atomic steps ---- *)
(* thread state: None = idle, Some n = holds number n (between AddUint32 and the forward) *)
Record cstate := mkC { c_ctr : Z; c_threads : list (option Z); c_assigned : list Z; c_emitted : list Z }.

Definition set_nth {A} (l : list A) (i : nat) (x : A) : list A :=
  firstn i l ++ match skipn i l with [] => [] | _ :: tl => x :: tl end.

(* scheduling thread t: if idle it performs the atomic fetch-add, else it emits *)
Definition cstep (s : cstate) (t : nat) : cstate :=
  match nth_error (c_threads s) t with
  | None => s
  | Some None =>
      let n := c_ctr s in
      mkC ((n + 1) mod 4294967296) (set_nth (c_threads s) t (Some n)) (c_assigned s ++ [n mod 65536]) (c_emitted s)
  | Some (Some n) =>
      mkC (c_ctr s) (set_nth (c_threads s) t None) (c_assigned s) (c_emitted s ++ [n mod 65536])
  end.

Definition crun (s : cstate) (sched : list nat) : cstate := fold_left cstep sched s.

(* a NON-atomic counter (load; store) for contrast: thread state
   None = idle, Some (n, false) = loaded n, Some (n, true) = stored, about to emit *)
Record nstate := mkN { n_ctr : Z; n_threads : list (option (Z * bool)); n_assigned : list Z }.
Definition nstep (s : nstate) (t : nat) : nstate :=
  match nth_error (n_threads s) t with
  | None => s
  | Some None => mkN (n_ctr s) (set_nth (n_threads s) t (Some (n_ctr s, false))) (n_assigned s)
  | Some (Some (n, false)) =>
      mkN ((n + 1) mod 4294967296) (set_nth (n_threads s) t (Some (n, true))) (n_assigned s ++ [n mod 65536])
  | Some (Some (n, true)) => mkN (n_ctr s) (set_nth (n_threads s) t None) (n_assigned s)
  end.
