(* Round-5 extension of the C07 interceptor model: the NEXT WRITER of the chain.

   pkg/report/sender_interceptor.go, BindLocalStream:

       stream := newSenderStream(info.SSRC, info.ClockRate, s.useLatestPacket)
       s.streams.Store(info.SSRC, stream)
       return RTPWriterFunc(func(header, payload, a) (int, error) {
           stream.processRTP(s.now(), header, payload)     (1)
           return writer.Write(header, payload, a)         (2)
       })

   Model/SenderStream.v's [SIWrite] renders (1) only: the writer handed to
   BindLocalStream (a pacer, a transport, another interceptor) was left out of the
   model, i.e. assumed irrelevant.  Here it is a dimension of the operation: a write
   carries the answer (n, err) the next writer gives for that packet ([nerr] = 0 is
   a nil error, any other value stands for some non-nil error).  The step function
   follows the closure statement by statement: the packet the application wrote on
   the bound stream is accounted FIRST, at the instant of the Write call, and the
   next writer's answer is only handed back to the caller - it never reaches the
   stream state.  No proofs here (Proofs/SenderChainProofs.v). *)
From IV Require Import Base.Word Base.KMap Model.Ntp Model.SenderStream.

Inductive sxop :=
| XBind (ssrc rate : Z)                         (* BindLocalStream *)
| XUnbind (ssrc : Z)                            (* UnbindLocalStream *)
| XWrite (ssrc now seq ts len : Z) (nn nerr : Z) (* Write on the RTPWriter of the latest bind of ssrc;
                                                   the next writer answers (nn, nerr) *)
| XTick (now : Z).                              (* ticker branch of loop *)

(* forgetting the next writer's answers: the operation of Model/SenderStream.v *)
Definition sx_erase (op : sxop) : siop :=
  match op with
  | XBind s r => SIBind s r
  | XUnbind s => SIUnbind s
  | XWrite s now seq ts len _ _ => SIWrite s now seq ts len
  | XTick now => SITick now
  end.

Section SenderChain.
  Variable ek : Z -> Z -> Z.
  Variable k1 : Z -> Z * Z.
  Variable use_latest : bool.

  (* new table, reports written by a tick, (n, err) returned by a Write *)
  Definition sx_step (t : stable) (op : sxop) : stable * list (Z * srep) * option (Z * Z) :=
    match op with
    | XBind ssrc rate => (st_put ssrc (rate, s_init) t, [], None)
    | XUnbind ssrc => (st_del ssrc t, [], None)
    | XWrite ssrc now seq ts len nn nerr =>
        match st_get ssrc t with
        | Some (rate, st) =>
            let t' := st_put ssrc (rate, s_rtp use_latest st now seq ts len) t in   (* (1) *)
            (t', [], Some (nn, nerr))                                              (* (2) *)
        | None => (t, [], None)
        end
    | XTick now =>
        (t, map (fun e => (fst e, s_report ek k1 (fst (snd e)) (snd (snd e)) now)) t, None)
    end.

  Fixpoint sx_run (t : stable) (ops : list sxop) : list (list (Z * srep)) :=
    match ops with
    | [] => []
    | op :: tl =>
        let '(t', out, _) := sx_step t op in
        match op with XTick _ => out :: sx_run t' tl | _ => sx_run t' tl end
    end.

  Fixpoint sx_final (t : stable) (ops : list sxop) : stable :=
    match ops with [] => t | op :: tl => sx_final (fst (fst (sx_step t op))) tl end.

  (* what the application's Write calls return, in order (None: no bound stream) *)
  Fixpoint sx_rets (t : stable) (ops : list sxop) : list (option (Z * Z)) :=
    match ops with
    | [] => []
    | op :: tl =>
        let '(t', _, r) := sx_step t op in
        match op with XWrite _ _ _ _ _ _ _ => r :: sx_rets t' tl | _ => sx_rets t' tl end
    end.
End SenderChain.

(* ---- recount on the operation list itself (specification side) ----
   packets / payload octets written on SSRC s since its latest bind, whatever the
   next writer answered; None when s is not bound *)
Definition sx_tally (s : Z) (cur : option (Z * Z)) (op : sxop) : option (Z * Z) :=
  match op with
  | XBind s' _ => if s' =? s then Some (0, 0) else cur
  | XUnbind s' => if s' =? s then None else cur
  | XWrite s' _ _ _ len _ _ =>
      if s' =? s then match cur with Some (p, o) => Some (p + 1, o + len) | None => None end
      else cur
  | XTick _ => cur
  end.
