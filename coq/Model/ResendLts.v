(* Schedule model for C04: a labelled transition system whose atomic steps are
   the critical sections of the code (one rtpBufferMutex hold, one countMu
   hold, one sync.Pool operation).  Any number of writer and NACK goroutines:
   a goroutine's local state is folded into ghost fields of the packet objects
   (how many goroutines currently hold a retained reference), so every
   interleaving of any number of threads is a trace of this system.

   Go code                                            step
   -------------------------------------------------  ---------------------
   PacketFactoryCopy.NewPacket (pool Get / New,       SNew  (buffer reused from
     copy of the payload into the buffer, count = 1)         the pool or fresh)
   RTPBuffer.Add: r.packets[idx] = packet             SInsert
   RTPBuffer.Add / Clear: prevPacket.Release();       SEvict (one per released
     r.packets[idx] = nil                                    entry: finer than the
                                                             lock, hence more
                                                             interleavings)
   RTPBuffer.Add (fix): packet older than the         SDrop
     window is released without being stored
   resendPackets: Get under the lock incl. Retain     SGet
   resendPackets: rtpWriter.Write(p.Header(),         SEmit (reads the buffer
     p.Payload())                                            at that moment)
   resendPackets: p.Release()                         SRelease
   RetainablePacket.Release reaching count 0          part of SEvict/SDrop/
     (onRelease: pool Put; header/buffer = nil)              SRelease

   Not a step: Add of a duplicate of the highest number returns without
   storing or releasing the packet (it stays in limbo for ever: a leak, not a
   content error). *)
From IV Require Import Base.Word.
Local Open Scope nat_scope.

Section Lts.
  Variable C : Type.                     (* header + payload bytes of a stored packet *)

  Record obj := mkObj {
    o_count : nat;                       (* RetainablePacket.count *)
    o_buf : option nat;                  (* pooled header/buffer; None after release *)
    o_orig : C;                          (* ghost: the bytes NewPacket stored *)
    o_inring : bool;                     (* ghost: referenced by r.packets *)
    o_limbo : bool;                      (* ghost: created, not yet passed to Add *)
    o_holds : nat }.                     (* ghost: goroutines between Get and Release *)

  Record cell := mkCell { c_data : C; c_free : bool }.   (* c_free: sitting in the sync.Pool *)

  Record state := mkSt { objs : nat -> obj; nobj : nat; heap : nat -> cell; nheap : nat }.

  Definition upd {A} (f : nat -> A) (i : nat) (v : A) : nat -> A :=
    fun j => if Nat.eqb j i then v else f j.

  (* RetainablePacket.Release *)
  Definition release (st : state) (p : nat) (inring limbo : bool) (holds : nat) : state :=
    let o := objs st p in
    match o_count o with
    | S O =>
        mkSt (upd (objs st) p (mkObj O None (o_orig o) inring limbo holds)) (nobj st)
             (match o_buf o with
              | Some b => upd (heap st) b (mkCell (c_data (heap st b)) true)
              | None => heap st end) (nheap st)
    | n => mkSt (upd (objs st) p (mkObj (pred n) (o_buf o) (o_orig o) inring limbo holds)) (nobj st)
                (heap st) (nheap st)
    end.

  Inductive label :=
  | LNew (p : nat) (c : C)
  | LInsert (p : nat) | LEvict (p : nat) | LDrop (p : nat)
  | LGet (p : nat) (ok : bool)
  | LEmit (p : nat) (seen : option C)    (* what the downstream writer receives *)
  | LRelease (p : nat).

  Definition new_obj (c : C) (b : nat) : obj := mkObj 1 (Some b) c false true 0.

  Inductive step : state -> label -> state -> Prop :=
  | SNewReuse st c b : b < nheap st -> c_free (heap st b) = true ->
      step st (LNew (nobj st) c)
           (mkSt (upd (objs st) (nobj st) (new_obj c b)) (S (nobj st))
                 (upd (heap st) b (mkCell c false)) (nheap st))
  | SNewFresh st c :
      step st (LNew (nobj st) c)
           (mkSt (upd (objs st) (nobj st) (new_obj c (nheap st))) (S (nobj st))
                 (upd (heap st) (nheap st) (mkCell c false)) (S (nheap st)))
  | SInsert st p : p < nobj st -> o_limbo (objs st p) = true ->
      let o := objs st p in
      step st (LInsert p)
           (mkSt (upd (objs st) p (mkObj (o_count o) (o_buf o) (o_orig o) true false (o_holds o)))
                 (nobj st) (heap st) (nheap st))
  | SEvict st p : p < nobj st -> o_inring (objs st p) = true ->
      step st (LEvict p) (release st p false (o_limbo (objs st p)) (o_holds (objs st p)))
  | SDrop st p : p < nobj st -> o_limbo (objs st p) = true ->
      step st (LDrop p) (release st p (o_inring (objs st p)) false (o_holds (objs st p)))
  | SGetOk st p : p < nobj st -> o_inring (objs st p) = true -> o_count (objs st p) <> O ->
      let o := objs st p in
      step st (LGet p true)
           (mkSt (upd (objs st) p (mkObj (S (o_count o)) (o_buf o) (o_orig o) (o_inring o) (o_limbo o) (S (o_holds o))))
                 (nobj st) (heap st) (nheap st))
  | SGetReleased st p : p < nobj st -> o_inring (objs st p) = true -> o_count (objs st p) = O ->
      step st (LGet p false) st                         (* Retain fails: Get returns nil *)
  | SEmit st p : p < nobj st -> o_holds (objs st p) <> O ->
      step st (LEmit p (match o_buf (objs st p) with
                        | Some b => Some (c_data (heap st b)) | None => None end)) st
  | SRelease st p : p < nobj st -> o_holds (objs st p) <> O ->
      step st (LRelease p)
           (release st p (o_inring (objs st p)) (o_limbo (objs st p)) (pred (o_holds (objs st p)))).

  (* traces, latest label first *)
  Inductive run : state -> list label -> state -> Prop :=
  | RunNil st : run st [] st
  | RunStep st ls st1 l st2 : run st ls st1 -> step st1 l st2 -> run st (l :: ls) st2.

  Definition init (o0 : obj) (c0 : cell) : state := mkSt (fun _ => o0) 0 (fun _ => c0) 0.
End Lts.
