(* Model of internal/rtpbuffer/packet_factory.go: PacketFactoryCopy.NewPacket
   and PacketFactoryNoOp.NewPacket, AFTER the fix commits of C04 (pool buffers
   hold maxPayloadLen + 2 bytes; the old-style padding count is read from the
   caller's payload, not from the OSN-prefixed copy).  The sync.Pool buffers are
   not part of this sequential model: a stored payload is the list of bytes the
   slice `retainablePacket.payload` denotes.  `*retainablePacket.header =
   header.Clone()` is a deep copy (CSRC list, extension list and every
   extension's payload bytes are private): the stored header is the VALUE of
   the caller's header at the time of the call - that no later write of the
   caller reaches it is checked by the correspondence (the harness rewrites
   its header, CSRC entries and extension bytes in place after every Write). *)
From IV Require Import Base.Word Model.RtpBuffer.

Definition maxPayloadLen : Z := 1460.
Definition ErrShortBuffer : Z := 1.
Definition ErrPaddingOverflow : Z := 2.

Inductive np_res := NPOk (p : rp) | NPErr (code : Z).

Definition len (l : list Z) : Z := Z.of_nat (length l).

(* header.SSRC / PayloadType / SequenceNumber rewritten *)
Definition hdr_rtx (h : hdr) (ssrc pt seq : Z) : hdr :=
  mkH (h_pad h) (h_padsize h) (h_marker h) pt seq (h_ts h) ssrc (h_csrc h) (h_x h).
Definition hdr_nopad (h : hdr) : hdr :=
  mkH false 0 (h_marker h) (h_pt h) (h_seq h) (h_ts h) (h_ssrc h) (h_csrc h) (h_x h).

(* binary.BigEndian.PutUint16 *)
Definition be16 (x : Z) : list Z := [(x / 256) mod 256; x mod 256].

(* rtp sequencer: state = the number returned by the next NextSequenceNumber *)
Definition seq_next (s : Z) : Z * Z := (s mod 65536, (s + 1) mod 65536).

(* PacketFactoryCopy.NewPacket; returns the result and the sequencer state *)
Definition new_packet (s : Z) (h : hdr) (pay : list Z) (rtxSsrc rtxPT : Z) : np_res * Z :=
  if len pay >? maxPayloadLen then (NPErr ErrShortBuffer, s)
  else if negb ((negb (rtxSsrc =? 0)) && (negb (rtxPT =? 0))) then
    (* size := copy(buffer, payload); payload = buffer[:size] *)
    (NPOk (mkRP (h_seq h) h pay), s)
  else
    (* copy(buffer[2:], payload); PutUint16(payload, header.SequenceNumber) *)
    let buf := be16 (h_seq h) ++ pay in
    let '(rseq, s') := seq_next s in
    let h1 := hdr_rtx h rtxSsrc rtxPT rseq in
    if h_pad h then
      if (h_padsize h =? 0) && (0 <? len pay) then
        let n := last pay 0 in
        if n >? len pay then (NPErr ErrPaddingOverflow, s')
        else (NPOk (mkRP (h_seq h) (hdr_nopad h1) (firstn (Z.to_nat (len buf - n)) buf)), s')
      else (NPOk (mkRP (h_seq h) (hdr_nopad h1) buf), s')
    else (NPOk (mkRP (h_seq h) h1 buf), s').

(* PacketFactoryNoOp.NewPacket *)
Definition new_packet_noop (h : hdr) (pay : list Z) : np_res := NPOk (mkRP (h_seq h) h pay).

(* direct-API correspondence (c04pf): a sequence of NewPacket calls on one factory *)
Definition pf_in := (hdr * list Z * Z * Z)%type.
Definition pf_out := (Z * Z * hdr * list Z)%type.   (* code, stored seq, header, payload *)

Definition zero_hdr : hdr := mkH false 0 false 0 0 0 0 [] no_x.

Definition pf_obs (r : np_res) : pf_out :=
  match r with
  | NPOk p => (0, rp_seq p, rp_hdr p, rp_pay p)
  | NPErr c => (c, 0, zero_hdr, [])
  end.

Fixpoint pf_run (s : Z) (ins : list pf_in) : list pf_out :=
  match ins with
  | [] => []
  | (h, pay, rs, rpt) :: r => let '(res, s') := new_packet s h pay rs rpt in pf_obs res :: pf_run s' r
  end.
