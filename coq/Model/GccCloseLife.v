(* Life cycle of a SendSideBWE seen by ONE caller (sequential), with the result of every call and with a
   user-supplied pacer (option SendSideBWEPacer) whose Close may report an error.
   Model/GccPipeline.v has the same code as an LTS for any number of concurrent callers but does not model
   results other than WriteRTCP's (the value Close returns is data there); here the data that decides the
   result of Close - what the pacer's Close returned - is an oracle value attached to the operation, like the
   float stages in Model/GccDecision.v.

   Go code (pkg/gcc/send_side_bwe.go, delay_based_bwe.go)            model
   ---------------------------------------------------------------  ---------------------------------
   SendSideBWE.Close
     e.closeLock.Lock(); defer Unlock                                (sequential: no effect)
     if e.isClosed() { return nil }                                  l_flag s       -> LOk, state unchanged
     e.delayController.Close():  close(d.ackPipe)                    l_pipes s      -> LPanic (close of closed channel)
                                 close(d.ackRatePipe); wg.Wait()     l_pipes := true (always returns nil)
     close(e.close)                                                  l_flag := true
     return e.pacer.Close()                                          l_pcalls + 1;  perr -> LPacerErr | LOk
   SendSideBWE.WriteRTCP(pkts)   (n = number of TWCC / RFC 8888 packets in pkts, all well-formed)
     e.closeLock.RLock(); defer RUnlock
     if e.isClosed() { return ErrSendSideBWEClosed }                 l_flag s       -> LClosedErr
     for each feedback packet: ... updateDelayEstimate:
        d.ackPipe <- acks                                            n > 0, l_pipes s -> LPanic (send on closed channel)
     return nil                                                      LOk
   GetTargetBitrate: e.lock                                          LGot

   [flag_first = true] is the code: close(e.close) BEFORE the pacer is closed, so the estimator is marked
   closed whatever the pacer answers.  [flag_first = false] is the other statement order (pacer closed first,
   its error returned before close(e.close)); Proofs/GccCloseLifeProofs.v refutes the property for it.

   No proofs in this file. *)
From Coq Require Import List Bool Arith ZArith.
Import ListNotations.

Inductive lop :=
| LWrite (n : nat)       (* WriteRTCP with n well-formed feedback packets (n = 0: none, or only other RTCP) *)
| LClose (perr : bool)   (* Close; perr = the pacer's Close reports an error if this call gets to call it *)
| LGet.                  (* GetTargetBitrate / GetStats *)

Inductive lres := LOk | LClosedErr | LPacerErr | LPanic | LGot.

Record lst := mkL {
  l_pipes : bool;        (* ackPipe and ackRatePipe closed (delayController.Close ran) *)
  l_flag : bool;         (* e.close closed: isClosed() *)
  l_pcalls : nat         (* calls of pacer.Close so far *)
}.
Definition linit : lst := mkL false false 0.

Section Order.
  Variable flag_first : bool.

  Definition close_step (s : lst) (perr : bool) : lst * lres :=
    if l_flag s then (s, LOk)
    else if l_pipes s then (s, LPanic)
    else if flag_first then (mkL true true (S (l_pcalls s)), if perr then LPacerErr else LOk)
    else if perr then (mkL true false (S (l_pcalls s)), LPacerErr)
    else (mkL true true (S (l_pcalls s)), LOk).

  Definition write_step (s : lst) (n : nat) : lres :=
    if l_flag s then LClosedErr
    else match n with
         | O => LOk
         | S _ => if l_pipes s then LPanic else LOk
         end.

  Definition lstep (s : lst) (o : lop) : lst * lres :=
    match o with
    | LWrite n => (s, write_step s n)
    | LClose perr => close_step s perr
    | LGet => (s, LGot)
    end.

  (* results in call order, each with the number of pacer.Close calls made so far *)
  Fixpoint lrun (s : lst) (ops : list lop) : list (lres * nat) :=
    match ops with
    | [] => []
    | o :: tl => let '(s1, r) := lstep s o in (r, l_pcalls s1) :: lrun s1 tl
    end.

  Fixpoint lfinal (s : lst) (ops : list lop) : lst :=
    match ops with
    | [] => s
    | o :: tl => lfinal (fst (lstep s o)) tl
    end.
End Order.

Definition is_close (o : lop) : bool := match o with LClose _ => true | _ => false end.
