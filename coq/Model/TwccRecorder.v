(* Model of pkg/twcc/twcc.go: Recorder (Record, maybeCullOldPackets,
   BuildFeedbackPacket, maybeBuildFeedbackPacket) over the abstract arrival
   map of Model/ArrivalMap.v, the unwrapper of Model/Unwrapper.v and the
   feedback builder of Model/TwccChunk.v.  Output of a Build: the packets in
   parsed wire form. *)
From IV Require Import Base.Word Model.Unwrapper Model.TwccChunk Model.ArrivalMap.

Inductive op :=
| Rec (ssrc seq t : Z)     (* Record(mediaSSRC, sequenceNumber, arrivalTime us) *)
| Build.                   (* BuildFeedbackPacket() *)

Record recorder := mkRec {
  r_map   : amap;
  r_unw   : option Z;      (* sequenceUnwrapper *)
  r_start : option Z;      (* startSequenceNumber (nil = None) *)
  r_media : Z;
  r_fb    : Z;             (* fbPktCnt, uint8 *)
  r_held  : Z              (* packetsHeld *)
}.

Definition rec_init : recorder := mkRec am_empty None None 0 0 0.

(* maybeCullOldPackets; packetWindowMicroseconds = 500000 *)
Definition rec_cull (r : recorder) (u t : Z) : amap :=
  match r_start r with
  | Some s => if (s >=? m_end (r_map r)) && (t >=? 500000)
              then am_remove_old (r_map r) u (t - 500000) else r_map r
  | None => r_map r
  end.

(* Record *)
Definition rec_record (r : recorder) (ssrc seq t : Z) : recorder :=
  let '(unw, u) := unwrap (r_unw r) seq in
  let m1 := rec_cull r u t in
  let start1 := match r_start r with
                | None => u
                | Some s => if u <? s then u else s
                end in
  if am_has m1 u then mkRec m1 unw (Some start1) ssrc (r_fb r) (r_held r)
  else
    let m2 := am_add m1 u t in
    let start2 := if start1 <? m_begin m2 then m_begin m2 else start1 in
    mkRec m2 unw (Some start2) ssrc (r_fb r) (r_held r + 1).

(* the body of the for loop of maybeBuildFeedbackPacket once a feedback exists:
   walk the received entries in ascending order (FindNextAtOrAfter from
   seq+1 = next entry with time >= 0), stop at the first that cannot be added.
   Returns the feedback and nextSequenceNumber. *)
Fixpoint mb_walk (ents : list (Z * Z)) (fb : feedback) (next : Z) : feedback * Z :=
  match ents with
  | [] => (fb, next)
  | (seq, t) :: tl =>
      if t >=? 0 then
        match fb_add_received fb (u16 seq) t with
        | Some fb' => mb_walk tl fb' (seq + 1)
        | None => (fb, next)
        end
      else mb_walk tl fb next
  end.

(* maybeBuildFeedbackPacket(b, e): result = (packet or None, new start, new fbPktCnt).
   maxMissingSequenceNumbers = 0x7FFE *)
Definition rec_maybe_build (sender : Z) (r : recorder) (b e : Z) : option feedback * Z * Z :=
  let m := r_map r in
  let s := am_clamp m b in
  let eX := am_clamp m e in
  let ents := filter (fun en => (s <=? fst en) && (fst en <? eX)) (m_ent m) in
  match ent_first (fun en => snd en >=? 0) ents with
  | None => (None, b, r_fb r)
  | Some (seq, t) =>
      let base := Z.max b (seq - 32766) in
      let fb0 := fb_new (u16 base) t in
      match fb_add_received fb0 (u16 seq) t with
      | None => (None, seq, (r_fb r + 1) mod 256)
      | Some fb1 =>
          let '(fb2, next) := mb_walk (ent_from (seq + 1) ents) fb1 (seq + 1) in
          (Some fb2, next, (r_fb r + 1) mod 256)
      end
  end.

(* BuildFeedbackPacket: "for *start < endSN".  Every successful round reports
   at least one entry, so the number of entries bounds the trips. *)
Fixpoint rec_build_loop (fuel : nat) (sender : Z) (r : recorder) (endSN : Z) (acc : list pkt) : recorder * list pkt :=
  match fuel with
  | O => (r, acc)
  | S k =>
      match r_start r with
      | None => (r, acc)
      | Some s =>
          if s <? endSN then
            let '(ofb, start', fbc') := rec_maybe_build sender r s endSN in
            let r' := mkRec (r_map r) (r_unw r) (Some start') (r_media r) fbc' (r_held r) in
            match ofb with
            | None => (r', acc)
            | Some fb => rec_build_loop k sender r' endSN (acc ++ [fb_get_rtcp sender (r_media r) (r_fb r) fb])
            end
          else (r, acc)
      end
  end.

Definition rec_build (sender : Z) (r : recorder) : recorder * list pkt :=
  match r_start r with
  | None => (r, [])
  | Some _ =>
      let '(r', ps) := rec_build_loop (S (length (m_ent (r_map r)))) sender r (m_end (r_map r)) [] in
      (mkRec (r_map r') (r_unw r') (r_start r') (r_media r') (r_fb r') 0, ps)
  end.

(* a whole history: outputs of the Build operations, in order *)
Fixpoint rec_run (sender : Z) (r : recorder) (ops : list op) : list (list pkt) :=
  match ops with
  | [] => []
  | Rec ssrc seq t :: tl => rec_run sender (rec_record r ssrc seq t) tl
  | Build :: tl => let '(r', ps) := rec_build sender r in ps :: rec_run sender r' tl
  end.
