(* The float64 kernels of pkg/stats/stats_recorder.go, operation by operation
   as in the Go source (amd64: no fused multiply-add), on Coq primitive floats. *)
From IV Require Import Base.Word Base.F64 Model.Ntp Model.StatsRecorder.
From Coq Require Import Floats.

(* time.Duration.Seconds(): sec := d / Second; nsec := d % Second (truncated);
   float64(sec) + float64(nsec)/1e9 *)
Definition dur_seconds (ns : Z) : float :=
  PrimFloat.add (f64_of_Z (Z.quot ns 1000000000))
                (PrimFloat.div (f64_of_Z (Z.rem ns 1000000000)) 1000000000%float).

(* uint32(incoming.ts.Sub(last).Seconds() * r.clockRate) *)
Definition sk_units (rate ns : Z) : Z :=
  f64_to_u32 (PrimFloat.mul (dur_seconds ns) (f64_of_Z rate)).

(* Jitter += (1.0/16.0) * (float64(d)/clockRate - Jitter) *)
Definition sk_jitter (rate : Z) (j : float) (d : Z) : float :=
  let dsec := PrimFloat.div (f64_of_Z d) (f64_of_Z rate) in
  PrimFloat.add j (PrimFloat.mul 0.0625%float (PrimFloat.sub dsec j)).

(* float64(report.Jitter) / r.clockRate *)
Definition sk_rjitter (rate j : Z) : float := PrimFloat.div (f64_of_Z j) (f64_of_Z rate).

(* float64(report.FractionLost) / 256.0 *)
Definition sk_frac (fl : Z) : float := PrimFloat.div (f64_of_Z fl) 256%float.

(* time.Duration(float64(d) / 65536.0 * float64(time.Second)) *)
Definition sk_delay (d : Z) : Z :=
  f64_to_i64 (PrimFloat.mul (PrimFloat.div (f64_of_Z d) 65536%float) 1000000000%float).

Definition fst0 : st float := st0 0%float.
Definition fstep (ssrc rate : Z) :=
  step sk_units sk_jitter sk_rjitter sk_frac sk_delay frac_kernel ssrc rate.
Definition frun_all (ssrc rate : Z) := run_all sk_units sk_jitter sk_rjitter sk_frac sk_delay frac_kernel ssrc rate.
