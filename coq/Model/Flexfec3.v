(* C14, round-3 strengthening: the interceptor's batch buffer and the memory behind the caller's
   rtp.Header, at the granularity of the Go values.  No proofs here.

   Model/Flexfec2.v (section 3) has ONE caller-owned buffer per packet which the batch accumulator either
   copies as a whole or references as a whole.  A Go rtp.Header is not one buffer: the struct assignment
   `Header: *header` copies the scalar fields and the three words (pointer, len, cap) of the CSRC and
   Extensions slices - the CSRC array, the Extensions array and the payload array of every extension stay
   the caller's.  Header.Clone() (pion/rtp) allocates a new CSRC array, a new Extensions array and a new
   payload for every extension; `append([]byte(nil), payload...)` copies the payload.

   Here: the caller owns numbered arrays of three kinds (32-bit words: CSRC arrays; extension entries
   (id, payload slice): Extensions arrays; bytes: payloads, read buffers).  A slice is (array, offset,
   length).  The caller writes into its arrays at any time (a[off:off+len(vs)] = vs) and calls
   Write(&header, payload) where header = scalar fields by value + a CSRC slice + an Extensions slice and
   payload = a byte slice.  What the batch accumulator keeps of each of the four parts is decided by a
   copy policy [cpol]; [deep] is the code in the repository (Clone + payload copy). *)
From IV Require Export Base.Word Model.Flexfec Model.Flexfec2.

Record slice := { s_cell : nat; s_off : nat; s_len : nat }.

(* arrays of one kind, most recent binding first; an array that was never written is empty *)
Definition amap (A : Type) := list (nat * list A).
Fixpoint alook {A} (m : amap A) (c : nat) : list A :=
  match m with
  | [] => []
  | (c', l) :: tl => if Nat.eqb c c' then l else alook tl c
  end.
(* s = a[off : off+len] read now *)
Definition view {A} (m : amap A) (s : slice) : list A :=
  firstn (s_len s) (skipn (s_off s) (alook m (s_cell s))).
(* copy(a[off:], vs): the elements before off and after off+len(vs) stay *)
Definition awrite {A} (m : amap A) (c off : nat) (vs : list A) : amap A :=
  let old := alook m c in
  (c, firstn off old ++ vs ++ skipn (off + length vs) old) :: m.

Record cstore := { st_w : amap Z;              (* []uint32 arrays *)
                   st_e : amap (Z * slice);    (* []rtp.Extension arrays: id, payload slice (into st_b) *)
                   st_b : amap Z }.            (* []byte arrays *)
Definition cstore0 : cstore := {| st_w := []; st_e := []; st_b := [] |}.

(* what Write is given: *header (scalars by value, two slices) and payload *)
Record cpkt := { c_fix : list Z; c_csrc : slice; c_exts : slice; c_pay : slice }.

(* what the batch accumulator holds of one part: a value of its own, or the caller's slice *)
Inductive hold_w := WVal (v : list Z) | WRef (s : slice).
Inductive hold_b := BVal (v : list Z) | BRef (s : slice).
Inductive hold_e := EVal (v : list (Z * hold_b)) | ERef (s : slice).
Record hpkt := { h_fix : list Z; h_csrc : hold_w; h_exts : hold_e; h_pay : hold_b }.

Definition rd_w (st : cstore) (h : hold_w) : list Z :=
  match h with WVal v => v | WRef s => view (st_w st) s end.
Definition rd_b (st : cstore) (h : hold_b) : list Z :=
  match h with BVal v => v | BRef s => view (st_b st) s end.
Definition rd_e (st : cstore) (h : hold_e) : list (Z * list Z) :=
  match h with
  | EVal v => map (fun e => (fst e, rd_b st (snd e))) v
  | ERef s => map (fun e => (fst e, view (st_b st) (snd e))) (view (st_e st) s)
  end.

(* cp_csrc: a new CSRC array; cp_exts: a new Extensions array; cp_extpl: new extension payloads (only
   meaningful with a new Extensions array); cp_pay: a new payload *)
Record cpol := { cp_csrc : bool; cp_exts : bool; cp_extpl : bool; cp_pay : bool }.
Definition deep : cpol := {| cp_csrc := true; cp_exts := true; cp_extpl := true; cp_pay := true |}.
(* `Header: *header, Payload: append([]byte(nil), payload...)` *)
Definition shallow_header : cpol := {| cp_csrc := false; cp_exts := false; cp_extpl := false; cp_pay := true |}.
Definition is_deep (p : cpol) : bool := cp_csrc p && cp_exts p && cp_extpl p && cp_pay p.

Definition keep (pol : cpol) (st : cstore) (c : cpkt) : hpkt :=
  {| h_fix := c_fix c;
     h_csrc := if cp_csrc pol then WVal (view (st_w st) (c_csrc c)) else WRef (c_csrc c);
     h_exts := if cp_exts pol
               then EVal (map (fun e => (fst e, if cp_extpl pol then BVal (view (st_b st) (snd e)) else BRef (snd e)))
                              (view (st_e st) (c_exts c)))
               else ERef (c_exts c);
     h_pay := if cp_pay pol then BVal (view (st_b st) (c_pay c)) else BRef (c_pay c) |}.

(* the caller between Writes, and Write *)
Inductive cev :=
| CW (cell off : nat) (vs : list Z)              (* words into a CSRC array *)
| CE (cell off : nat) (es : list (Z * slice))    (* entries into an Extensions array (SetExtension, append(exts[:0], ...)) *)
| CB (cell off : nat) (vs : list Z)              (* bytes into a byte array *)
| CWrite (c : cpkt).

Definition cstep (st : cstore) (ev : cev) : cstore :=
  match ev with
  | CW c off vs => {| st_w := awrite (st_w st) c off vs; st_e := st_e st; st_b := st_b st |}
  | CE c off es => {| st_w := st_w st; st_e := awrite (st_e st) c off es; st_b := st_b st |}
  | CB c off vs => {| st_w := st_w st; st_e := st_e st; st_b := awrite (st_b st) c off vs |}
  | CWrite _ => st
  end.

Record icpt_c := { ic_nm : Z; ic_nf : Z; ic_ssrc : list Z; ic_enc : enc; ic_buf : list hpkt }.

Section Marshal.
  (* the wire form of (scalar fields, CSRCs, extensions (id, payload), payload): pion/rtp's Marshal.
     The isolation theorem holds for ANY such function; the refutations use [rtp_marshal] below. *)
  Variable marshal : list Z -> list Z -> list (Z * list Z) -> list Z -> pkt.

  Definition hval (st : cstore) (h : hpkt) : pkt :=
    marshal (h_fix h) (rd_w st (h_csrc h)) (rd_e st (h_exts h)) (rd_b st (h_pay h)).
  (* the packet the caller hands over, as it is on the wire when Write is called *)
  Definition cval (st : cstore) (c : cpkt) : pkt :=
    marshal (c_fix c) (view (st_w st) (c_csrc c))
            (map (fun e => (fst e, view (st_b st) (snd e))) (view (st_e st) (c_exts c)))
            (view (st_b st) (c_pay c)).

  (* the writer returned by BindLocalStream: the SSRC test and the packet passed on read the caller's
     header now; the batch accumulator holds [keep pol]; EncodeFec reads the held packets through the
     store as it is when the batch completes *)
  Definition ic_write (pol : cpol) (st : cstore) (s : icpt_c) (c : cpkt) : icpt_c * res (list out) :=
    let p := cval st c in
    if negb (list_Z_eqb (ssrc_bytes p) (ic_ssrc s)) then (s, Ok [OMedia p]) else
    let buf := ic_buf s ++ [keep pol st c] in
    if zlen buf =? ic_nm s then
      let '(e', r) := encode_fec2 (ic_enc s) (map (hval st) buf) (ic_nf s) in
      let s' := {| ic_nm := ic_nm s; ic_nf := ic_nf s; ic_ssrc := ic_ssrc s; ic_enc := e'; ic_buf := [] |} in
      match r with
      | Panic => (s', Panic)
      | Ok None => (s', Ok [OMedia p])
      | Ok (Some rs) => (s', Ok (OMedia p :: map ORepair rs))
      end
    else ({| ic_nm := ic_nm s; ic_nf := ic_nf s; ic_ssrc := ic_ssrc s; ic_enc := ic_enc s; ic_buf := buf |},
          Ok [OMedia p]).

  (* a history of the caller: one result per Write *)
  Fixpoint ic_run (pol : cpol) (st : cstore) (s : icpt_c) (evs : list cev) : list (res (list out)) :=
    match evs with
    | [] => []
    | CWrite c :: tl =>
      let '(s', r) := ic_write pol st s c in
      r :: match r with Panic => [] | _ => ic_run pol st s' tl end
    | ev :: tl => ic_run pol (cstep st ev) s tl
    end.

  (* the wire form of each written packet at the time of its Write *)
  Fixpoint ic_values (st : cstore) (evs : list cev) : list pkt :=
    match evs with
    | [] => []
    | CWrite c :: tl => cval st c :: ic_values st tl
    | ev :: tl => ic_values (cstep st ev) tl
    end.

  Definition abs_ic (s : icpt_c) (st : cstore) : icpt :=
    {| i_nm := ic_nm s; i_nf := ic_nf s; i_ssrc := ic_ssrc s; i_enc := ic_enc s; i_buf := map (hval st) (ic_buf s) |}.
End Marshal.

(* Header.MarshalTo + payload for version/padding/marker/PT/SN/TS/SSRC given as the 12 bytes [fx] (CC and X
   bits are derived), CSRCs, one-byte header extensions (profile 0xBEDE, zero padded to 32 bits) *)
Definition rtp_ext_block (exts : list (Z * list Z)) : list Z :=
  match exts with
  | [] => []
  | _ =>
    let body := flat_map (fun e => (fst e * 16 + (zlen (snd e) - 1)) :: snd e) exts in
    let padn := ((4 - length body mod 4) mod 4)%nat in
    [190; 222] ++ be16 (Z.of_nat ((length body + padn) / 4)%nat) ++ body ++ repeat 0 padn
  end.
Definition rtp_marshal (fx csrc : list Z) (exts : list (Z * list Z)) (pay : list Z) : pkt :=
  (nth 0 fx 0 / 32 * 32 + (match exts with [] => 0 | _ => 16 end) + zlen csrc)
    :: firstn 11 (skipn 1 fx) ++ flat_map be32 csrc ++ rtp_ext_block exts ++ pay.

(* the sender of the seeded change: ONE header, CSRC value written into the same array, the value of
   extension 3 overwritten in place, the payload buffer refilled; two media packets per repair packet *)
Definition sl (c len : nat) : slice := {| s_cell := c; s_off := 0; s_len := len |}.
Definition reuse_hdr (sn : Z) : cpkt :=
  {| c_fix := [128; 96; 0; sn; 1; 2; 3; 4; 17; 34; 51; 68]; c_csrc := sl 0 1; c_exts := sl 0 1; c_pay := sl 1 3 |}.
Definition reuse_evs : list cev :=
  [ CW 0 0 [286331153]; CB 0 0 [160; 0]; CE 0 0 [(3, sl 0 2)]; CB 1 0 [1; 1; 1]; CWrite (reuse_hdr 7);
    CW 0 0 [572662306]; CB 0 0 [161; 1];                         CB 1 0 [2; 2; 2]; CWrite (reuse_hdr 8) ].
(* the same sender replacing the extension with SetExtension (a new payload slice stored into the same
   Extensions array) *)
Definition reuse_evs_setext : list cev :=
  [ CW 0 0 [286331153]; CB 0 0 [160; 0]; CE 0 0 [(3, sl 0 2)]; CB 1 0 [1; 1; 1]; CWrite (reuse_hdr 7);
    CB 2 0 [161; 1]; CE 0 0 [(3, sl 2 2)];                       CB 1 0 [2; 2; 2]; CWrite (reuse_hdr 8) ].
Definition reuse_s0 : icpt_c :=
  {| ic_nm := 2; ic_nf := 1; ic_ssrc := [17; 34; 51; 68]; ic_enc := new_encoder 115 7; ic_buf := [] |}.
