(* Model for C01, round-4 strengthening: WHAT the error returned by Chain.Close holds, entry by entry
   (errors.go).

     func flattenErrs(errs []error) error {
         errs2 := []error{}
         for _, e := range errs { if e != nil { errs2 = append(errs2, e) } }
         if len(errs2) == 0 { return nil }
         return multiError(errs2)
     }

   Model/Chain.v has [flatten_errs] (= the code above) and [err_is] (errors.Is for one sentinel);
   the theorems of rounds 1-3 say "nil iff all nil" and "errors.Is finds exactly the members'
   sentinels".  Neither says HOW OFTEN an error occurs in the result: a flattenErrs that keeps only
   the first of two members' errors when errors.Is relates them passes both.  Here:
   - error values are told apart: leaf [a > 0] is the sentinel value a itself, leaf [a < 0] is an
     error value of its own (fmt.Errorf("...: %w", sentinel)) that wraps sentinel -a;
   - [err_leaves] lists the entries of an error tree in order (multiError inside multiError: a
     nested chain's Close error), i.e. the members' errors the result still holds;
   - [flatten_errs_dedup] is the variant the round-4 seed stands for: an error that
     multiError(errs2).Is(e) already "finds" is skipped.
   No proofs here. *)
From IV Require Import Base.Word Model.TwccHdrExt Model.Chain.
Open Scope Z_scope.

(* the single error values an error holds, in order *)
Fixpoint err_leaves (e : err) : list Z :=
  match e with
  | ELeaf a => [a]
  | EMulti l => (fix go (l : list err) : list Z :=
                   match l with [] => [] | x :: tl => err_leaves x ++ go tl end) l
  end.
Fixpoint err_leaves_all (l : list err) : list Z :=
  match l with [] => [] | x :: tl => err_leaves x ++ err_leaves_all tl end.
Definition oerr_leaves (e : option err) : list Z := match e with None => [] | Some x => err_leaves x end.

(* errors.Is(e, sentinel t), t > 0, when wrapped values are told apart: a leaf matches when it is
   the sentinel or wraps it *)
Fixpoint err_is_w (e : err) (t : Z) : bool :=
  match e with
  | ELeaf a => Z.abs a =? t
  | EMulti l => (fix any (l : list err) : bool :=
                   match l with [] => false | x :: tl => err_is_w x t || any tl end) l
  end.

(* ---- the seeded variant ----
     for _, e := range errs {
         if e == nil || multiError(errs2).Is(e) { continue }
         errs2 = append(errs2, e)
     }
   multiError(errs2).Is(e) = some entry x with errors.Is(x, e).  For e a sentinel value (leaf a > 0)
   that is "x is, or wraps, that sentinel".  An error value of its own (a wrapping value made by one
   member, leaf a < 0) is identical to no value another member returned, and a nested chain's
   multiError is a slice (not comparable, errors.Is never equates it): neither is ever skipped. *)
Definition seen_before (acc : list err) (e : err) : bool :=
  match e with
  | ELeaf a => (0 <? a) && existsb (fun x => err_is_w x a) acc
  | EMulti _ => false
  end.
Fixpoint drop_seen (acc : list err) (l : list (option err)) : list err :=
  match l with
  | [] => acc
  | None :: tl => drop_seen acc tl
  | Some e :: tl => if seen_before acc e then drop_seen acc tl else drop_seen (acc ++ [e]) tl
  end.
Definition flatten_errs_dedup (l : list (option err)) : option err :=
  match drop_seen [] l with [] => None | l2 => Some (EMulti l2) end.
