(* Model of the constructor path of the NACK generator (round-5 strengthening of C03):
   pkg/nack/generator_interceptor.go, GeneratorInterceptorFactory.NewInterceptor

       generatorInterceptor := &GeneratorInterceptor{size: 512, skipLastN: 0, maxNacksPerPacket: 0, ...}
       for _, opt := range g.opts { if err := opt(generatorInterceptor); err != nil { return nil, err } }

   and pkg/nack/generator_option.go: every option closure is one assignment to its own field
       GeneratorSize(v)              r.size = v
       GeneratorSkipLastN(v)         r.skipLastN = v
       GeneratorMaxNacksPerPacket(v) r.maxNacksPerPacket = v
   (GeneratorInterval / GeneratorLog / ... write fields that the tick body does not read).

   An option is (kind, value): kind 0 size, 1 skipLastN, 2 maxNacksPerPacket; any other kind
   stands for an option that does not touch these three fields.  The options are applied in the
   order in which the caller passed them. *)
From IV Require Import Base.Word Model.ReceiveLog Model.NackGen.

Definition gopt := (Z * Z)%type.

Definition cfg_default : cfg := mk_cfg 512 0 0.

(* one option closure applied to the interceptor under construction *)
Definition apply_opt (c : cfg) (o : gopt) : cfg :=
  let '(k, v) := o in
  if k =? 0 then mk_cfg v (c_skip c) (c_max c)
  else if k =? 1 then mk_cfg (c_size c) v (c_max c)
  else if k =? 2 then mk_cfg (c_size c) (c_skip c) v
  else c.

(* `for _, opt := range g.opts { opt(generatorInterceptor) }` *)
Definition new_cfg (opts : list gopt) : cfg := fold_left apply_opt opts cfg_default.

(* NOT the code: a GeneratorSkipLastN that clamps its argument to the window size it finds in
   the interceptor at the moment the option runs (kept for the refutation theorem: such an
   option makes the configuration depend on the order of the options) *)
Definition apply_opt_clamp (c : cfg) (o : gopt) : cfg :=
  let '(k, v) := o in
  if k =? 1 then mk_cfg (c_size c) (Z.min v (c_size c)) (c_max c) else apply_opt c o.

Definition new_cfg_clamp (opts : list gopt) : cfg := fold_left apply_opt_clamp opts cfg_default.

(* NOT the code: the range-loop body of a tick that skips a stream with nothing missing WITHOUT
   replacing its count log by an empty map (`if len(missing) == 0 { continue }` before the
   reset).  Kept for the refutation theorem: the counts then survive a tick at which the stream
   had nothing missing. *)
Definition tick_one_keep (maxn : Z) (miss : list Z) (cnt : option cmap) : option (list Z) * option cmap :=
  match miss with
  | [] => (None, cnt)
  | _ :: _ => tick_one maxn miss cnt
  end.
