(* Model of internal/sequencenumber/unwrapper.go (isNewer, Unwrapper.Unwrap).
   State: None before the first call, Some lastUnwrapped afterwards.
   int64 is modelled as unbounded Z (overflow needs > 2^47 wraps). *)
From IV Require Import Base.Word.

Definition is_newer (value previous : Z) : bool :=
  let d := sub16 value previous in
  if d =? 32768 then value >? previous
  else negb (value =? previous) && (d <? 32768).

(* one call of Unwrap on input i (a uint16); returns the new lastUnwrapped,
   which is also the value returned to the caller *)
Definition unwrap_next (last i : Z) : Z :=
  let lastWrapped := u16 last in
  let delta := sub16 i lastWrapped in            (* int64(i - lastWrapped): in [0,65535] *)
  let delta' :=
    if is_newer i lastWrapped then
      (if delta <? 0 then delta + 65536 else delta)   (* dead branch kept as coded *)
    else if (delta >? 0) && (last + delta - 65536 >=? 0) then delta - 65536
    else delta in
  last + delta'.

Definition unwrap (st : option Z) (i : Z) : option Z * Z :=
  match st with
  | None => (Some i, i)
  | Some last => let r := unwrap_next last i in (Some r, r)
  end.

(* run over a whole input list, returning the outputs *)
Fixpoint unwrap_all (st : option Z) (l : list Z) : list Z :=
  match l with
  | [] => []
  | i :: tl => let '(st', r) := unwrap st i in r :: unwrap_all st' tl
  end.
