(* Model of pkg/jitterbuffer/receiver_interceptor.go on top of the jitter
   buffer model (Model/JitterBuffer.v).

   NewInterceptor builds a ReceiverInterceptor around [New()] (no options:
   minimum start count 50, no listeners).  BindRemoteStream wraps the upstream
   reader; one call of the returned reader is [ri_step] on [IPkt]/[IBad]/[IErr]
   depending on what the upstream reader delivers:

       n, attr, err := reader.Read(buf, a);  if err != nil { return n, attr, err }     IErr
       if err := packet.Unmarshal(buf[:n]); err != nil { return 0, nil, err }          IBad
       i.buffer.Push(packet)                                                           IPkt sq ts
       if i.buffer.state == Emitting {
           newPkt, err := i.buffer.Pop();  if err != nil { return 0, nil, err }
           nlen, err := newPkt.MarshalTo(b);  return nlen, attr, err
       }
       return n, attr, ErrPopWhileBuffering

   UnbindRemoteStream and Close are [IUnbind]: i.buffer.Clear(true).
   The interceptor's own mutex is not modelled (every path holds it for the
   whole body).  MarshalTo is assumed to succeed (the caller's buffer is large
   enough for every buffered packet); a nil packet from Pop would be a nil
   dereference ([DPanic]).  The third component of [ri_step] is the sequence of
   jitter-buffer calls the interceptor made, with their results. *)
From IV Require Import Base.Word Model.PriorityQueue Model.JitterBuffer.

Inductive rin : Type :=
| IPkt (sq ts : Z)     (* the upstream reader delivers a well-formed RTP packet *)
| IBad                 (* ... bytes that do not parse as RTP *)
| IErr                 (* ... an error *)
| IUnbind.             (* UnbindRemoteStream / Close *)

Inductive rout : Type :=
| DPkt (id sq ts : Z)  (* the packet object [id] marshalled into the caller's buffer, nil error *)
| DErr (e : Z)         (* an error of the jitter buffer *)
| DUpErr               (* the upstream reader's error, handed through *)
| DBad                 (* the unmarshal error *)
| DUnit                (* UnbindRemoteStream / Close returned *)
| DPanic
| DDiverge.

Definition default_min : Z := 50.

Section Generic.
Context {Q : Type} (O : pq_ops Q).

Definition wedge (r : out) : rout := match r with RDiverge => DDiverge | _ => DPanic end.

Definition ri_step (s : jb Q) (i : rin) : jb Q * rout * list (op * out) :=
  match i with
  | IErr => (s, DUpErr, [])
  | IBad => (s, DBad, [])
  | IUnbind =>
      let '(s1, r1, _) := jb_step O s (OClear true) in
      (s1, match r1 with RUnit => DUnit | _ => wedge r1 end, [(OClear true, r1)])
  | IPkt sq ts =>
      let '(s1, r1, _) := jb_step O s (OPush sq ts) in
      match r1 with
      | RUnit =>
          if jemit s1 then
            let '(s2, r2, _) := jb_step O s1 OPop in
            (s2,
             match r2 with
             | RPkt id sq' ts' => DPkt id sq' ts'
             | RErr e => DErr e
             | _ => wedge r2          (* nil packet: newPkt.MarshalTo panics *)
             end,
             [(OPush sq ts, r1); (OPop, r2)])
          else (s1, DErr ErrPopWhileBuffering, [(OPush sq ts, r1)])
      | _ => (s1, wedge r1, [(OPush sq ts, r1)])
      end
  end.

(* a run: results of the successive reader / unbind calls, each with the
   jitter-buffer calls it made; stops at a panic / non-terminating call *)
Fixpoint ri_steps (s : jb Q) (ins : list rin) : list (rout * list (op * out)) :=
  match ins with
  | [] => []
  | i :: tl =>
      let '(s', d, tr) := ri_step s i in
      match d with
      | DPanic | DDiverge => [(d, tr)]
      | _ => (d, tr) :: ri_steps s' tl
      end
  end.

Definition ri_run (s : jb Q) (ins : list rin) : list rout := map fst (ri_steps s ins).
Definition ri_jbtrace (s : jb Q) (ins : list rin) : list (op * out) := concat (map snd (ri_steps s ins)).
End Generic.

(* the interceptor over the pointer-level queue / over the list queue *)
Definition cri_run (ins : list rin) : list rout := ri_run ptr_ops (cjb_new default_min) ins.
Definition cri_jbtrace (ins : list rin) : list (op * out) := ri_jbtrace ptr_ops (cjb_new default_min) ins.
Definition ari_run (ins : list rin) : list rout := ri_run list_ops (ajb_new default_min) ins.

(* what reached the application, in order *)
Fixpoint delivered (outs : list rout) : list (Z * Z * Z) :=
  match outs with
  | [] => []
  | DPkt id sq ts :: tl => (id, sq, ts) :: delivered tl
  | _ :: tl => delivered tl
  end.
