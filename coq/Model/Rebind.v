(* Model for C01, round-4 strengthening: MORE THAN ONE BindLocalStream on one chain.

   The application may bind a local stream again (renegotiation: same SSRC, with or without an
   UnbindLocalStream in between) or bind a second stream while the first one is in use.  Every
   Chain.BindLocalStream(info, writer) call is given a next writer OF ITS OWN and returns a writer
   of its own; the property says of each of them: what is written through it reaches ITS next
   writer.

   Part 1 - the data path.  The transports of all bindings are one state, [list S]; the next
   writer of binding k ([writer_at k tw]) acts on component k only.  Binding k of the chain is
   [chain_bind l (writer_at k tw)] with Model/Chain.v's wrappers: a wrapper is polymorphic in the
   inner state, it can reach a transport only through the writer its Bind call was handed.

   Part 2 - the one library member that ALSO keeps writers in interceptor-level state:
   nack.ResponderInterceptor (pkg/nack/responder_interceptor.go)

       type localStream struct { rtpBuffer; rtpBufferMutex; rtpWriter interceptor.RTPWriter }
       n.streams map[uint32]*localStream

       BindLocalStream(info, writer):  stream := &localStream{rtpBuffer: new, rtpWriter: writer}
                                       n.streams[info.SSRC] = stream          (* replaces an entry *)
                                       return func(header, payload, attributes) {
                                           if header.SSRC != info.SSRC { return writer.Write(...) }
                                           ...; stream.rtpBuffer.Add(pkt)
                                           return writer.Write(header, payload, attributes) }
       UnbindLocalStream(info):        delete(n.streams, info.SSRC)
       resendPackets(nack):            stream := n.streams[nack.MediaSSRC] ...
                                       stream.rtpWriter.Write(...)            (* retransmissions *)

   A stream object is identified by the binding that created it; its rtpWriter is that binding's
   next writer.  [resp_step] is the code above; [resp_step_keep] is the variant the round-4 seed
   stands for: a Bind for an SSRC that is still registered keeps the registered stream object
   ("keeps the retransmission history") and the closure forwards media through stream.rtpWriter.
   What is abstracted: which packets are buffered / retransmitted (Model/Chain.v, w_responder);
   here only WHERE a packet leaves.  No proofs here. *)
From IV Require Import Base.Word Model.TwccHdrExt Model.Chain.
Open Scope Z_scope.

(* ------------------------------------------------------------------------- *)
(* Part 1: several bindings, one transport each                              *)

Section Multi.
  Variables (P S : Type).
  Variable d : S.

  Fixpoint set_nth (k : nat) (x : S) (l : list S) {struct l} : list S :=
    match l with
    | [] => []
    | y :: tl => match k with O => x :: tl | Datatypes.S k' => y :: set_nth k' x tl end
    end.

  (* the next writer handed to the k-th BindLocalStream: transport k, and nothing else *)
  Definition writer_at (k : nat) (tw : writer P S) : writer P (list S) :=
    fun p ts => let '(s', r) := tw p (nth k ts d) in (set_nth k s' ts, r).
End Multi.
Arguments set_nth {S}. Arguments writer_at {P S}.

(* ------------------------------------------------------------------------- *)
(* A side effect of an UnbindLocalStream between two bindings, on the READ side: stats keeps ONE
   recorder per SSRC for the local and the remote stream with that SSRC (getRecorder);
   UnbindLocalStream stops and releases it (releaseRecorder -> rec.Stop()).  The closure
   BindRemoteStream returned still holds that recorder:
       n, attributes, err := reader.Read(bytes, attributes); if err != nil { return 0, nil, err }
       recorder.QueueIncomingRTP(now, bytes[:n], attributes)   (* returns at once: not running *)
       return n, attributes, nil *)
Definition r_stats_stopped {D H} : rwrapper D H := fun S inner a st =>
  let '(w, s) := st in
  let '(s', (n, d, at_, e)) := inner a s in
  match e with
  | _ :: _ => ((w, s'), (0, d, None, e))
  | [] => ((w, s'), (n, d, at_, []))
  end.

(* ------------------------------------------------------------------------- *)
(* Part 2: the responder's stream table                                      *)

(* what the application does: BindLocalStream for an SSRC (binding ids are given out in order:
   0, 1, 2, ...), UnbindLocalStream, a Write through the writer binding k returned (header SSRC),
   a NACK for an SSRC read by the RTCP reader *)
Inductive bop := BBind (ssrc : Z) | BUnbind (ssrc : Z) | BWrite (k : nat) (hssrc : Z) | BNack (ssrc : Z).

(* what a next writer receives: the media packet of the history's op number i, a retransmission *)
Inductive ev := EvMedia (i : nat) | EvRtx.

Record rstate := mkR {
  r_table : list (Z * nat);      (* n.streams: SSRC -> stream object (= the binding that created it) *)
  r_binds : list (Z * nat);      (* per binding: info.SSRC and the stream object its closure captured *)
  r_out : nat -> list ev         (* per binding: what its next writer has received, in order *)
}.
Definition r0 : rstate := mkR [] [] (fun _ => []).

Definition app_at (k : nat) (e : ev) (f : nat -> list ev) : nat -> list ev :=
  fun j => if Nat.eqb j k then f j ++ [e] else f j.
Fixpoint lookup (s : Z) (t : list (Z * nat)) : option nat :=
  match t with [] => None | (s', j) :: tl => if s' =? s then Some j else lookup s tl end.
Definition rm (s : Z) (t : list (Z * nat)) : list (Z * nat) := filter (fun e => negb (fst e =? s)) t.

(* the code: op number i of the history *)
Definition resp_step (i : nat) (o : bop) (st : rstate) : rstate :=
  match o with
  | BBind s => let k := length (r_binds st) in
               mkR ((s, k) :: rm s (r_table st)) (r_binds st ++ [(s, k)]) (r_out st)
  | BUnbind s => mkR (rm s (r_table st)) (r_binds st) (r_out st)
  | BWrite k _ => mkR (r_table st) (r_binds st) (app_at k (EvMedia i) (r_out st))   (* writer.Write *)
  | BNack s => match lookup s (r_table st) with
               | Some j => mkR (r_table st) (r_binds st) (app_at j EvRtx (r_out st)) (* stream.rtpWriter.Write *)
               | None => st
               end
  end.

(* the seeded variant *)
Definition resp_step_keep (i : nat) (o : bop) (st : rstate) : rstate :=
  match o with
  | BBind s => let k := length (r_binds st) in
               match lookup s (r_table st) with
               | Some j => mkR (r_table st) (r_binds st ++ [(s, j)]) (r_out st)     (* stream, ok := n.streams[ssrc] *)
               | None => mkR ((s, k) :: r_table st) (r_binds st ++ [(s, k)]) (r_out st)
               end
  | BWrite k hs => match nth_error (r_binds st) k with
                   | Some (s, j) => if hs =? s
                                    then mkR (r_table st) (r_binds st) (app_at j (EvMedia i) (r_out st)) (* stream.rtpWriter.Write *)
                                    else mkR (r_table st) (r_binds st) (app_at k (EvMedia i) (r_out st))
                   | None => mkR (r_table st) (r_binds st) (app_at k (EvMedia i) (r_out st))
                   end
  | _ => resp_step i o st
  end.

Fixpoint run_b (step : nat -> bop -> rstate -> rstate) (h : list bop) (i : nat) (st : rstate) : rstate :=
  match h with [] => st | o :: tl => run_b step tl (Datatypes.S i) (step i o st) end.

(* the media packets among what a next writer received *)
Fixpoint media (l : list ev) : list nat :=
  match l with [] => [] | EvMedia i :: tl => i :: media tl | EvRtx :: tl => media tl end.
(* the Writes of a history that went through binding j (op numbers, from i on) *)
Fixpoint writes_via (j : nat) (h : list bop) (i : nat) : list nat :=
  match h with
  | [] => []
  | BWrite k _ :: tl => if Nat.eqb k j then i :: writes_via j tl (Datatypes.S i) else writes_via j tl (Datatypes.S i)
  | _ :: tl => writes_via j tl (Datatypes.S i)
  end.

(* histories in which no SSRC is bound while it is still registered (every stream bound once, or
   unbound before it is bound again): [bound] = the SSRCs registered so far *)
Fixpoint no_rebind (h : list bop) (bound : list Z) : Prop :=
  match h with
  | [] => True
  | BBind s :: tl => ~ In s bound /\ no_rebind tl (s :: bound)
  | BUnbind s :: tl => no_rebind tl (filter (fun x => negb (x =? s)) bound)
  | _ :: tl => no_rebind tl bound
  end.
