(* C02, round-5 strengthening: RTP header-extension elements (RFC 8285) and the interceptors that read the
   element under a NEGOTIATED id.

   The length of an element is chosen by whoever built the packet: a one-byte-header element carries
   1..16 bytes, a two-byte-header element 0..255 - whatever the URI that was negotiated for its id says the
   value should look like.  So "the element under the transport-cc id" of a perfectly parsable packet can be
   0 or 1 byte long, and the reader of its 16-bit sequence number is the place where such a packet takes a
   different branch:

     pkg/twcc/sender_interceptor.go  BindRemoteStream   incoming:  header.GetExtension(hdrExtID);
                                                         tccExt.Unmarshal(ext) -> errTooSmall -> the packet is rejected
     internal/cc/feedback_adapter.go onSentTWCC          outgoing (cc interceptor, synchronously with the no-op pacer):
                                                         tccExt.Unmarshal(header.GetExtension(extID)) -> errMissingTWCCExtension
     pkg/rtpfb/interceptor.go        bindTWCCStream      outgoing: Unmarshal fails -> falls back to the RFC 8888 history, forwards

   [parse_hdr] mirrors the extension loop of pion/rtp v1.10.5 Header.Unmarshal (the parser all of them go
   through, Attributes.GetRTPHeader), [get_ext] Header.GetExtension, [tcc_unmarshal] rtp.TransportCCExtension.Unmarshal.
   The switch [checked] = false is the refuted variant: the two bytes are read with binary.BigEndian.Uint16(ext)
   without looking at len(ext) (index out of range for a shorter element). *)
From IV Require Import Base.Word.

Definition elem := (Z * list Z)%type.            (* (id, payload bytes) *)

(* one-byte-header elements (profile 0xBEDE): 0 is padding; id 15 is reserved and id 0 with a length is
   malformed: both stop the parse (the elements before stay); an element that runs over the end is an error *)
Fixpoint parse1 (fuel : nat) (b : list Z) : option (list elem) :=
  match fuel with
  | O => Some []
  | S f =>
    match b with
    | [] => Some []
    | x :: tl =>
        if x =? 0 then parse1 f tl
        else let id := x / 16 in
             let len := x mod 16 + 1 in
             if (id =? 15) || (id =? 0) then Some []
             else if Z.of_nat (length tl) <? len then None
             else match parse1 f (skipn (Z.to_nat len) tl) with
                  | Some r => Some ((id, firstn (Z.to_nat len) tl) :: r)
                  | None => None
                  end
    end
  end.

(* two-byte-header elements (profile 0x1000): 0 is padding; id byte, length byte (0..255), payload *)
Fixpoint parse2 (fuel : nat) (b : list Z) : option (list elem) :=
  match fuel with
  | O => Some []
  | S f =>
    match b with
    | [] => Some []
    | x :: tl =>
        if x =? 0 then parse2 f tl
        else match tl with
             | [] => None                                   (* the id byte is the last byte of the block *)
             | len :: tl2 =>
                 if Z.of_nat (length tl2) <? len then None
                 else match parse2 f (skipn (Z.to_nat len) tl2) with
                      | Some r => Some ((x, firstn (Z.to_nat len) tl2) :: r)
                      | None => None
                      end
             end
    end
  end.

Definition prof_one_byte : Z := 48862.   (* 0xBEDE *)
Definition prof_two_byte : Z := 4096.    (* 0x1000 *)

(* the extension part of Header.Unmarshal: profile < 0 stands for "X bit not set"; [words] is the declared
   length, [avail] the bytes the packet really has behind the 4-byte extension header *)
Definition parse_hdr (profile words : Z) (avail : list Z) : option (list elem) :=
  if profile <? 0 then Some []
  else if Z.of_nat (length avail) <? 4 * words then None
  else let b := firstn (Z.to_nat (4 * words)) avail in
       if profile =? prof_one_byte then parse1 (S (length b)) b
       else if profile =? prof_two_byte then parse2 (S (length b)) b
       else Some [(0, b)].                                  (* RFC 3550 extension: one opaque element with id 0 *)

(* Header.GetExtension: the payload of the first element with that id *)
Fixpoint get_ext (id : Z) (es : list elem) : option (list Z) :=
  match es with
  | [] => None
  | (i, p) :: tl => if i =? id then Some p else get_ext id tl
  end.

Inductive tccres := TSeq (seq : Z) | TErr | TPanic.

(* checked = true: rtp.TransportCCExtension.Unmarshal (errTooSmall below 2 bytes);
   checked = false: binary.BigEndian.Uint16(ext) on the raw element *)
Definition tcc_unmarshal (checked : bool) (p : list Z) : tccres :=
  match p with
  | b0 :: b1 :: _ => TSeq (b0 * 256 + b1)
  | _ => if checked then TErr else TPanic
  end.

Inductive verdict := VAccept | VReject | VPanic.

(* twcc.SenderInterceptor.BindRemoteStream's reader; negid = 0: the stream did not negotiate transport-cc,
   the plain reader is returned (no parsing at all) *)
Definition twcc_sender_read (checked : bool) (negid : Z) (h : option (list elem)) : verdict :=
  if negid =? 0 then VAccept
  else match h with
       | None => VReject                                    (* GetRTPHeader failed *)
       | Some es =>
           match get_ext negid es with
           | None => VAccept                                (* no such element: the packet is not recorded, but handed on *)
           | Some p => match tcc_unmarshal checked p with
                       | TSeq _ => VAccept
                       | TErr => VReject
                       | TPanic => VPanic
                       end
           end
       end.

(* cc.FeedbackAdapter.OnSent as called by gcc.SendSideBWE's writer (no-op pacer: in the caller's goroutine):
   negid = 0 -> onSentRFC8888 (no extension needed) *)
Definition cc_on_sent (checked : bool) (negid : Z) (es : list elem) : verdict :=
  if negid =? 0 then VAccept
  else match get_ext negid es with
       | None => VReject                                    (* Unmarshal(nil): errMissingTWCCExtension *)
       | Some p => match tcc_unmarshal checked p with
                   | TSeq _ => VAccept
                   | TErr => VReject
                   | TPanic => VPanic
                   end
       end.

(* rtpfb.Interceptor.bindTWCCStream: a missing / short element only selects the other history; the packet is forwarded *)
Definition rtpfb_write (checked : bool) (negid : Z) (es : list elem) : verdict :=
  if negid =? 0 then VAccept
  else match get_ext negid es with
       | None => VAccept
       | Some p => match tcc_unmarshal checked p with
                   | TPanic => VPanic
                   | _ => VAccept
                   end
       end.

(* the specification side: what a well-formed element list is for a stream that negotiated [negid]:
   the element under that id, if there is one, carries exactly a 16-bit sequence number *)
Definition tcc_elem_ok (negid : Z) (es : list elem) : Prop :=
  match get_ext negid es with
  | None => True
  | Some p => length p = 2%nat
  end.
