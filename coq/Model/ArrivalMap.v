(* Model of pkg/twcc/arrival_time_map.go (packetArrivalTimeMap).

   Two levels.
   * [amap]  (abstract, what the recorder model runs on): the valid range
     [begin, end) and the finite map seq -> arrival time of the slots of that
     range that hold something else than -1, as a key-sorted association list
     whose keys all lie in [begin, end).  A slot reads -1 ("not received")
     exactly when it has no entry.  The loops FindNextAtOrAfter and
     RemoveOldPackets are given both as written in Go (fuelled loops,
     [am_find_loop], [am_remove_loop]) and in closed form over the entries
     ([am_find], [am_remove_old]); the recorder runs the closed forms, the
     equalities are proved in Proofs/ArrivalMapProofs.v.
   * [cmap]  (concrete): the power-of-two circular buffer itself with
     reallocate / adjustToSize / setNotReceived as coded.  Proofs relate it to
     [amap] (arrival_map_refines). *)
From IV Require Import Base.Word.

(* ---------- abstract ---------- *)
Record amap := mkAmap {
  m_alloc : bool;            (* arrivalTimes != nil *)
  m_begin : Z;
  m_end   : Z;
  m_ent   : list (Z * Z)     (* sorted by key, keys in [begin,end) *)
}.

Definition am_empty : amap := mkAmap false 0 0 [].

Fixpoint ent_get (k : Z) (l : list (Z * Z)) : Z :=
  match l with
  | [] => -1
  | (k', v) :: tl => if k =? k' then v else ent_get k tl
  end.

Fixpoint ent_set (k v : Z) (l : list (Z * Z)) : list (Z * Z) :=
  match l with
  | [] => [(k, v)]
  | (k', v') :: tl =>
      if k <? k' then (k, v) :: l
      else if k =? k' then (k, v) :: tl
      else (k', v') :: ent_set k v tl
  end.

(* get *)
Definition am_get (m : amap) (sn : Z) : Z :=
  if (sn <? m_begin m) || (sn >=? m_end m) then -1 else ent_get sn (m_ent m).

(* HasReceived *)
Definition am_has (m : amap) (sn : Z) : bool := am_get m sn >=? 0.

(* Clamp *)
Definition am_clamp (m : amap) (sn : Z) : Z :=
  if sn <? m_begin m then m_begin m else if m_end m <? sn then m_end m else sn.

Definition ent_from (b : Z) (l : list (Z * Z)) : list (Z * Z) := filter (fun e => b <=? fst e) l.

(* AddPacket; maxNumberOfPackets = 2^15.  Capacity management (adjustToSize /
   reallocate) has no effect at this level: see cmap below. *)
Definition am_add (m : amap) (sn t : Z) : amap :=
  if negb (m_alloc m) then mkAmap true sn (sn + 1) [(sn, t)]
  else if (m_begin m <=? sn) && (sn <? m_end m) then
    mkAmap true (m_begin m) (m_end m) (ent_set sn t (m_ent m))
  else if sn <? m_begin m then
    if m_end m - sn >? 32768 then m
    else mkAmap true sn (m_end m) (ent_set sn t (m_ent m))
  else
    let newEnd := sn + 1 in
    if newEnd >=? m_end m + 32768 then mkAmap true sn newEnd [(sn, t)]
    else
      let b := if m_begin m <? newEnd - 32768 then newEnd - 32768 else m_begin m in
      mkAmap true b newEnd (ent_set sn t (ent_from b (m_ent m))).

(* FindNextAtOrAfter as coded: for seq := Clamp(sn); seq < end; seq++ *)
Fixpoint am_find_loop (fuel : nat) (m : amap) (seq : Z) : option (Z * Z) :=
  match fuel with
  | O => None
  | S k => if seq <? m_end m
           then (if am_get m seq >=? 0 then Some (seq, am_get m seq) else am_find_loop k m (seq + 1))
           else None
  end.
Definition am_find_go (m : amap) (sn : Z) : option (Z * Z) :=
  let s := am_clamp m sn in am_find_loop (Z.to_nat (m_end m - s)) m s.

(* closed form: first entry (keys ascending) at or after Clamp(sn) with time >= 0 *)
Fixpoint ent_first (p : Z * Z -> bool) (l : list (Z * Z)) : option (Z * Z) :=
  match l with [] => None | e :: tl => if p e then Some e else ent_first p tl end.
Definition am_find (m : amap) (sn : Z) : option (Z * Z) :=
  let s := am_clamp m sn in
  ent_first (fun e => (s <=? fst e) && (snd e >=? 0)) (m_ent m).

(* RemoveOldPackets as coded (the trailing adjustToSize is capacity only) *)
Fixpoint am_remove_loop (fuel : nat) (m : amap) (checkTo limit : Z) : amap :=
  match fuel with
  | O => m
  | S k => if (m_begin m <? checkTo) && (am_get m (m_begin m) <=? limit)
           then am_remove_loop k (mkAmap (m_alloc m) (m_begin m + 1) (m_end m) (ent_from (m_begin m + 1) (m_ent m))) checkTo limit
           else m
  end.
Definition am_remove_old_go (m : amap) (sn limit : Z) : amap :=
  let checkTo := Z.min sn (m_end m) in
  am_remove_loop (Z.to_nat (checkTo - m_begin m)) m checkTo limit.

(* closed form: begin moves to the first entry with time > limit, at most to checkTo *)
Definition am_remove_old (m : amap) (sn limit : Z) : amap :=
  let checkTo := Z.min sn (m_end m) in
  if m_begin m <? checkTo then
    let nb := match ent_first (fun e => snd e >? limit) (m_ent m) with
              | Some (k, _) => Z.min k checkTo
              | None => checkTo
              end in
    mkAmap (m_alloc m) nb (m_end m) (ent_from nb (m_ent m))
  else m.

(* ---------- concrete circular buffer ---------- *)
Record cmap := mkCmap {
  cm_buf : list Z;          (* arrivalTimes; [] = nil *)
  cm_begin : Z;
  cm_end : Z
}.
Definition cm_empty : cmap := mkCmap [] 0 0.

Definition cm_cap (m : cmap) : Z := Z.of_nat (length (cm_buf m)).
(* index: sn & (cap-1) with cap a power of two = sn mod cap (also for negative sn) *)
Definition cm_index (m : cmap) (sn : Z) : nat := Z.to_nat (sn mod cm_cap m).

Fixpoint list_set (l : list Z) (i : nat) (v : Z) : list Z :=
  match l, i with
  | [], _ => []
  | _ :: tl, O => v :: tl
  | x :: tl, S j => x :: list_set tl j v
  end.

Definition cm_get (m : cmap) (sn : Z) : Z :=
  if (sn <? cm_begin m) || (sn >=? cm_end m) then -1 else nth (cm_index m sn) (cm_buf m) 0.

Definition cm_store (m : cmap) (sn v : Z) : cmap :=
  mkCmap (list_set (cm_buf m) (cm_index m sn) v) (cm_begin m) (cm_end m).

(* reallocate: new zeroed buffer, copy get(sn) for sn in [begin,end) *)
Fixpoint cm_copy (n : nat) (sn : Z) (old : cmap) (newCap : Z) (buf : list Z) : list Z :=
  match n with
  | O => buf
  | S k => cm_copy k (sn + 1) old newCap (list_set buf (Z.to_nat (sn mod newCap)) (cm_get old sn))
  end.
Definition cm_reallocate (m : cmap) (newCap : Z) : cmap :=
  mkCmap (cm_copy (Z.to_nat (cm_end m - cm_begin m)) (cm_begin m) m newCap (repeat 0 (Z.to_nat newCap)))
         (cm_begin m) (cm_end m).

(* "for newCapacity < newSize { newCapacity *= 2 }" *)
Fixpoint grow_cap (fuel : nat) (c n : Z) : Z :=
  match fuel with O => c | S k => if c <? n then grow_cap k (c * 2) n else c end.
(* "for newCapacity >= 2*max(newSize, minCapacity) { newCapacity /= 2 }" *)
Fixpoint shrink_cap (fuel : nat) (c n : Z) : Z :=
  match fuel with O => c | S k => if c >=? 2 * Z.max n 128 then shrink_cap k (c / 2) n else c end.

(* adjustToSize; 64 doublings/halvings exceed any int *)
Definition cm_adjust (m : cmap) (newSize : Z) : cmap :=
  let m1 := if newSize >? cm_cap m then cm_reallocate m (grow_cap 64 (cm_cap m) newSize) else m in
  if cm_cap m1 >? Z.max 128 (newSize * 4) then cm_reallocate m1 (shrink_cap 64 (cm_cap m1) newSize) else m1.

(* setNotReceived *)
Fixpoint cm_clear (n : nat) (sn : Z) (m : cmap) : cmap :=
  match n with O => m | S k => cm_clear k (sn + 1) (cm_store m sn (-1)) end.
Definition cm_set_not_received (m : cmap) (a b : Z) : cmap := cm_clear (Z.to_nat (b - a)) a m.

Definition cm_add (m : cmap) (sn t : Z) : cmap :=
  match cm_buf m with
  | [] =>
      let m1 := cm_reallocate m 128 in
      cm_store (mkCmap (cm_buf m1) sn (sn + 1)) sn t
  | _ =>
    if (cm_begin m <=? sn) && (sn <? cm_end m) then cm_store m sn t
    else if sn <? cm_begin m then
      let newSize := cm_end m - sn in
      if newSize >? 32768 then m
      else
        let m1 := cm_adjust m newSize in
        let m2 := cm_store m1 sn t in
        let m3 := cm_set_not_received m2 (sn + 1) (cm_begin m2) in
        mkCmap (cm_buf m3) sn (cm_end m3)
    else
      let newEnd := sn + 1 in
      if newEnd >=? cm_end m + 32768 then cm_store (mkCmap (cm_buf m) sn newEnd) sn t
      else
        let m0 := if cm_begin m <? newEnd - 32768 then mkCmap (cm_buf m) (newEnd - 32768) (cm_end m) else m in
        let m1 := cm_adjust m0 (newEnd - cm_begin m0) in
        let m2 := cm_set_not_received m1 (cm_end m1) sn in
        cm_store (mkCmap (cm_buf m2) (cm_begin m2) newEnd) sn t
  end.

Fixpoint cm_remove_loop (fuel : nat) (m : cmap) (checkTo limit : Z) : cmap :=
  match fuel with
  | O => m
  | S k => if (cm_begin m <? checkTo) && (cm_get m (cm_begin m) <=? limit)
           then cm_remove_loop k (mkCmap (cm_buf m) (cm_begin m + 1) (cm_end m)) checkTo limit
           else m
  end.
Definition cm_remove_old (m : cmap) (sn limit : Z) : cmap :=
  let checkTo := Z.min sn (cm_end m) in
  let m1 := cm_remove_loop (Z.to_nat (checkTo - cm_begin m)) m checkTo limit in
  cm_adjust m1 (cm_end m1 - cm_begin m1).
