(* Structure of lossBasedBandwidthEstimator.updateLossEstimate (pkg/gcc/loss_based_bwe.go):

     if len(results) == 0 { return }                                    lo_nonempty = false
     ... averageLoss, lossRatio (float stage)
     increaseLoss := max(averageLoss, lossRatio); decreaseLoss := min(averageLoss, lossRatio)
     if increaseLoss < 0.02 && time.Since(lastIncrease) > 200ms {       lo_inc_loss && lo_inc_time
         lastIncrease = now
         bitrate = clampInt(int(1.05*float64(bitrate)), min, max)       raw = the int(...) value
     } else if decreaseLoss > 0.1 && time.Since(lastDecrease) > 200ms { lo_dec_loss && lo_dec_time
         lastDecrease = now
         bitrate = clampInt(int(float64(bitrate)*(1-0.5*decreaseLoss)), min, max)
     }

   The two float comparisons and the two time tests are oracle booleans, the value before the
   clamp is an oracle integer: the model says WHEN the bitrate may change, which branch has
   priority, and that the result is clamped to the estimator's own [100 kbit/s, 100 Mbit/s].
   No proofs in this file. *)
From IV Require Import Base.Word Model.GccDecision.

Record lobs := mkLobs {
  lo_nonempty : bool;
  lo_inc_loss : bool;
  lo_inc_time : bool;
  lo_dec_loss : bool;
  lo_dec_time : bool
}.

(* 0 = no branch, 1 = increase, 2 = decrease *)
Definition loss_branch (o : lobs) : Z :=
  if negb (lo_nonempty o) then 0
  else if lo_inc_loss o && lo_inc_time o then 1
  else if lo_dec_loss o && lo_dec_time o then 2
  else 0.

Definition loss_step (b : Z) (o : lobs) (raw : Z) : Z :=
  if loss_branch o =? 0 then b else clampInt raw LOSS_MIN LOSS_MAX.

(* the same update as an op of the decision model *)
Definition loss_op (o : lobs) (raw : Z) : gop :=
  LossUpdate (if loss_branch o =? 0 then None else Some raw).

(* which timer the update re-arms: (lastIncrease set, lastDecrease set) *)
Definition loss_timers (o : lobs) : bool * bool :=
  (loss_branch o =? 1, loss_branch o =? 2).
