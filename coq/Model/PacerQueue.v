(* Models for C17.
   (1) pkg/pacing/interceptor.go: BindLocalStream writer (copy + non-blocking send on the
       buffered channel), loop() (select over ticker / queue channel / closed; loop-local
       slice; release while Budget(now) > 8*len(head)), Close.
   (2) pkg/gcc/leaky_bucket_pacer.go: Write (copy + PushBack), Run() tick (budget; pop front,
       unlock, look up writer, write, relock).
   (3) the token bucket of golang.org/x/time/rate as used by rate_limit_pacer.go, over exact
       integers: tokens are kept scaled by 10^9 (bit-nanoseconds per second) so that
       rate [bit/s] * dt [ns] needs no division.
   Packets are values: the copy made when a packet is accepted is the value stored. *)
From IV Require Import Base.Word.

(* a packet value: stream, marshalled header (content id, length in bytes), payload (content id,
   length).  Content ids are assigned by the harness by exact byte equality, so equal ids <=> equal bytes. *)
Record pkt := mkP { p_stream : Z; p_hid : Z; p_hlen : Z; p_pid : Z; p_plen : Z }.

Definition plen (p : pkt) : Z := Z.abs (p_hlen p) + Z.abs (p_plen p).

(* ---------------- token bucket (x/time/rate), exact ---------------- *)
Definition NS : Z := 1000000000.

Record tb := mkTB { tb_rate : Z; tb_burst : Z; tb_tokens : Z (* scaled by NS *); tb_last : Z (* ns *) }.

(* Limiter.advance(t): tokens at t, never above burst; time going backwards counts as no time *)
Definition tb_advance (b : tb) (t : Z) : Z :=
  let dt := if t <? tb_last b then 0 else t - tb_last b in
  Z.min (tb_burst b * NS) (tb_tokens b + tb_rate b * dt).

Definition tb_budget (b : tb) (t : Z) : Z := tb_advance b t.          (* TokensAt, scaled *)

(* AllowN(t, n) = reserveN(t, n, 0).ok: succeeds iff n <= burst and n tokens are available at t;
   on success last := t (even if t is earlier than last) and the tokens are taken; on failure the
   limiter is unchanged *)
Definition tb_allow (b : tb) (t n : Z) : tb * bool :=
  let tok := tb_advance b t in
  if (n <=? tb_burst b) && (n * NS <=? tok) then (mkTB (tb_rate b) (tb_burst b) (tok - n * NS) t, true)
  else (b, false).

(* SetLimitAt + SetBurstAt at time t: advance, last := t *)
Definition tb_set (b : tb) (t rate burst : Z) : tb :=
  mkTB rate burst (tb_advance b t) t.

(* ---------------- pacing interceptor LTS ---------------- *)
Record pst := mkPS {
  ps_chan : list pkt;       (* i.queue, oldest first *)
  ps_local : list pkt;      (* loop-local queue *)
  ps_tb : tb;
  ps_closed : bool;
  ps_accepted : list pkt;   (* history: packets whose Write returned no error, in acceptance order *)
  ps_delivered : list pkt;  (* history: packets handed to the next writer, in delivery order *)
  ps_bits : Z               (* history: bits released so far *)
}.

Inductive pop :=
| PWrite (p : pkt)            (* a writer calls Write *)
| PRecv                       (* loop: case pkt := <-i.queue *)
| PTick (now : Z)             (* loop: case now := <-ticker.C *)
| PSetRate (t rate burst : Z) (* InterceptorFactory.SetRate *)
| PClose.

Definition QUEUE_CAP : Z := 1000000.

(* the for-loop of one tick; fuel = number of queued packets (each iteration removes one) *)
Fixpoint release (fuel : nat) (now : Z) (q : list pkt) (b : tb) (del : list pkt) (bits : Z)
  : list pkt * tb * list pkt * Z :=
  match fuel, q with
  | S f, p :: q' =>
      if 8 * plen p * NS <? tb_budget b now then
        let '(b', _) := tb_allow b now (8 * plen p) in
        release f now q' b' (del ++ [p]) (bits + 8 * plen p)
      else (q, b, del, bits)
  | _, _ => (q, b, del, bits)
  end.

Definition pstep (s : pst) (o : pop) : pst :=
  match o with
  | PWrite p =>
      if ps_closed s then s                                             (* errPacerClosed (or may still enqueue: see note) *)
      else if QUEUE_CAP <=? Z.of_nat (length (ps_chan s)) then s        (* errPacerOverflow *)
      else mkPS (ps_chan s ++ [p]) (ps_local s) (ps_tb s) false (ps_accepted s ++ [p]) (ps_delivered s) (ps_bits s)
  | PRecv =>
      match ps_chan s with
      | [] => s
      | p :: tl => mkPS tl (ps_local s ++ [p]) (ps_tb s) (ps_closed s) (ps_accepted s) (ps_delivered s) (ps_bits s)
      end
  | PTick now =>
      let '(q, b, del, bits) := release (length (ps_local s)) now (ps_local s) (ps_tb s) (ps_delivered s) (ps_bits s) in
      mkPS (ps_chan s) q b (ps_closed s) (ps_accepted s) del bits
  | PSetRate t r bu => mkPS (ps_chan s) (ps_local s) (tb_set (ps_tb s) t r bu) (ps_closed s) (ps_accepted s) (ps_delivered s) (ps_bits s)
  | PClose => mkPS (ps_chan s) (ps_local s) (ps_tb s) true (ps_accepted s) (ps_delivered s) (ps_bits s)
  end.

Definition prun (s : pst) (ops : list pop) : pst := fold_left pstep ops s.

Definition pinit (rate burst t0 : Z) : pst := mkPS [] [] (mkTB rate burst (burst * NS) t0) false [] [] 0.

(* ---------------- leaky bucket LTS ---------------- *)
Record lst := mkLS {
  ls_queue : list pkt;
  ls_inflight : option pkt;      (* popped, lock released, not yet written *)
  ls_budget : Z;
  ls_known : list Z;             (* SSRCs with a writer (AddStream) *)
  ls_accepted : list pkt;        (* history: every packet Write accepted, in order *)
  ls_done : list (pkt * bool)    (* history: packets taken off the queue, in order; true = handed to its writer, false = no writer for its SSRC (dropped) *)
}.

Inductive lop :=
| LWrite (p : pkt)
| LAddStream (ssrc : Z)
| LTickStart (budget : Z)      (* ticker fired: budget computed (float kernel result, arbitrary) *)
| LPop                         (* loop iteration, first half: Remove(Front) under the lock *)
| LSend (n : Z).               (* second half: writer looked up; Write returned n; budget -= n *)

Definition knownb (k : list Z) (x : Z) : bool := existsb (Z.eqb x) k.

Definition lstep (s : lst) (o : lop) : lst :=
  match o with
  | LWrite p =>
      mkLS (ls_queue s ++ [p]) (ls_inflight s) (ls_budget s) (ls_known s) (ls_accepted s ++ [p]) (ls_done s)
  | LAddStream x => mkLS (ls_queue s) (ls_inflight s) (ls_budget s) (x :: ls_known s) (ls_accepted s) (ls_done s)
  | LTickStart b =>
      match ls_inflight s with
      | None => mkLS (ls_queue s) None b (ls_known s) (ls_accepted s) (ls_done s)
      | Some _ => s
      end
  | LPop =>
      match ls_inflight s, ls_queue s with
      | None, p :: tl => if 0 <? ls_budget s
                         then mkLS tl (Some p) (ls_budget s) (ls_known s) (ls_accepted s) (ls_done s)
                         else s
      | _, _ => s
      end
  | LSend n =>
      match ls_inflight s with
      | Some p =>
          if knownb (ls_known s) (p_stream p)
          then mkLS (ls_queue s) None (ls_budget s - n) (ls_known s) (ls_accepted s) (ls_done s ++ [(p, true)])
          else mkLS (ls_queue s) None (ls_budget s) (ls_known s) (ls_accepted s) (ls_done s ++ [(p, false)])
      | None => s
      end
  end.

Definition lrun (s : lst) (ops : list lop) : lst := fold_left lstep ops s.
Definition linit (known : list Z) : lst := mkLS [] None 0 known [] [].
Definition ls_delivered (s : lst) : list pkt := map fst (filter snd (ls_done s)).
