(* Models for C17.
   (1) pkg/pacing/interceptor.go: BindLocalStream writer (copy + non-blocking send on the
       buffered channel), loop() (select over ticker / queue channel / closed; loop-local
       slice; release while Budget(now) > 8*len(head)), Close.
   (2) pkg/gcc/leaky_bucket_pacer.go: Write (copy + PushBack), Run() tick (budget; pop front,
       unlock, look up writer, write, relock).
   (3) the token bucket of golang.org/x/time/rate as used by rate_limit_pacer.go, over exact
       integers: tokens are kept scaled by 10^9 (bit-nanoseconds per second) so that
       rate [bit/s] * dt [ns] needs no division.
   Packets are values: the copy made when a packet is accepted is the value stored. *)
From IV Require Import Base.Word.

(* a packet value: stream, marshalled header (content id, length in bytes), payload (content id,
   length).  Content ids are assigned by the harness by exact byte equality, so equal ids <=> equal bytes. *)
Record pkt := mkP { p_stream : Z; p_hid : Z; p_hlen : Z; p_pid : Z; p_plen : Z }.

Definition plen (p : pkt) : Z := Z.abs (p_hlen p) + Z.abs (p_plen p).

(* ---------------- token bucket (x/time/rate), exact ---------------- *)
Definition NS : Z := 1000000000.

Record tb := mkTB { tb_rate : Z; tb_burst : Z; tb_tokens : Z (* scaled by NS *); tb_last : Z (* ns *) }.

(* Limiter.advance(t): tokens at t, never above burst; time going backwards counts as no time *)
Definition tb_advance (b : tb) (t : Z) : Z :=
  let dt := if t <? tb_last b then 0 else t - tb_last b in
  Z.min (tb_burst b * NS) (tb_tokens b + tb_rate b * dt).

Definition tb_budget (b : tb) (t : Z) : Z := tb_advance b t.          (* TokensAt, scaled *)

(* AllowN(t, n) = reserveN(t, n, 0).ok: succeeds iff n <= burst and n tokens are available at t;
   on success last := t (even if t is earlier than last) and the tokens are taken; on failure the
   limiter is unchanged *)
Definition tb_allow (b : tb) (t n : Z) : tb * bool :=
  let tok := tb_advance b t in
  if (n <=? tb_burst b) && (n * NS <=? tok) then (mkTB (tb_rate b) (tb_burst b) (tok - n * NS) t, true)
  else (b, false).

(* SetLimitAt + SetBurstAt at time t: advance, last := t *)
Definition tb_set (b : tb) (t rate burst : Z) : tb :=
  mkTB rate burst (tb_advance b t) t.

(* ---------------- pacing interceptor LTS ---------------- *)
Record pst := mkPS {
  ps_chan : list pkt;       (* i.queue, oldest first *)
  ps_local : list pkt;      (* loop-local queue *)
  ps_tb : tb;
  ps_closed : bool;
  ps_accepted : list pkt;   (* history: packets whose Write returned no error, in acceptance order *)
  ps_delivered : list pkt;  (* history: packets handed to the next writer, in delivery order *)
  ps_bits : Z               (* history: bits released so far *)
}.

Inductive pop :=
| PWrite (p : pkt)            (* a writer calls Write *)
| PRecv                       (* loop: case pkt := <-i.queue *)
| PTick (now : Z)             (* loop: case now := <-ticker.C *)
| PSetRate (t rate burst : Z) (* InterceptorFactory.SetRate *)
| PClose.

Definition QUEUE_CAP : Z := 1000000.

(* the for-loop of one tick; fuel = number of queued packets (each iteration removes one) *)
Fixpoint release (fuel : nat) (now : Z) (q : list pkt) (b : tb) (del : list pkt) (bits : Z)
  : list pkt * tb * list pkt * Z :=
  match fuel, q with
  | S f, p :: q' =>
      if 8 * plen p * NS <? tb_budget b now then
        let '(b', _) := tb_allow b now (8 * plen p) in
        release f now q' b' (del ++ [p]) (bits + 8 * plen p)
      else (q, b, del, bits)
  | _, _ => (q, b, del, bits)
  end.

Definition pstep (s : pst) (o : pop) : pst :=
  match o with
  | PWrite p =>
      if ps_closed s then s                                             (* errPacerClosed (or may still enqueue: see note) *)
      else if QUEUE_CAP <=? Z.of_nat (length (ps_chan s)) then s        (* errPacerOverflow *)
      else mkPS (ps_chan s ++ [p]) (ps_local s) (ps_tb s) false (ps_accepted s ++ [p]) (ps_delivered s) (ps_bits s)
  | PRecv =>
      match ps_chan s with
      | [] => s
      | p :: tl => mkPS tl (ps_local s ++ [p]) (ps_tb s) (ps_closed s) (ps_accepted s) (ps_delivered s) (ps_bits s)
      end
  | PTick now =>
      let '(q, b, del, bits) := release (length (ps_local s)) now (ps_local s) (ps_tb s) (ps_delivered s) (ps_bits s) in
      mkPS (ps_chan s) q b (ps_closed s) (ps_accepted s) del bits
  | PSetRate t r bu => mkPS (ps_chan s) (ps_local s) (tb_set (ps_tb s) t r bu) (ps_closed s) (ps_accepted s) (ps_delivered s) (ps_bits s)
  | PClose => mkPS (ps_chan s) (ps_local s) (ps_tb s) true (ps_accepted s) (ps_delivered s) (ps_bits s)
  end.

Definition prun (s : pst) (ops : list pop) : pst := fold_left pstep ops s.

Definition pinit (rate burst t0 : Z) : pst := mkPS [] [] (mkTB rate burst (burst * NS) t0) false [] [] 0.

(* ---------------- leaky bucket LTS ---------------- *)
Record lst := mkLS {
  ls_queue : list pkt;
  ls_inflight : option pkt;      (* popped, lock released, not yet written *)
  ls_budget : Z;
  ls_known : list Z;             (* SSRCs with a writer (AddStream) *)
  ls_accepted : list pkt;        (* history: every packet Write accepted, in order *)
  ls_done : list (pkt * bool)    (* history: packets taken off the queue, in order; true = handed to its writer, false = no writer for its SSRC (dropped) *)
}.

Inductive lop :=
| LWrite (p : pkt)
| LAddStream (ssrc : Z)
| LTickStart (budget : Z)      (* ticker fired: budget computed (float kernel result, arbitrary) *)
| LPop                         (* loop iteration, first half: Remove(Front) under the lock *)
| LSend (n : Z).               (* second half: writer looked up; Write returned n; budget -= n *)

Definition knownb (k : list Z) (x : Z) : bool := existsb (Z.eqb x) k.

Definition lstep (s : lst) (o : lop) : lst :=
  match o with
  | LWrite p =>
      mkLS (ls_queue s ++ [p]) (ls_inflight s) (ls_budget s) (ls_known s) (ls_accepted s ++ [p]) (ls_done s)
  | LAddStream x => mkLS (ls_queue s) (ls_inflight s) (ls_budget s) (x :: ls_known s) (ls_accepted s) (ls_done s)
  | LTickStart b =>
      match ls_inflight s with
      | None => mkLS (ls_queue s) None b (ls_known s) (ls_accepted s) (ls_done s)
      | Some _ => s
      end
  | LPop =>
      match ls_inflight s, ls_queue s with
      | None, p :: tl => if 0 <? ls_budget s
                         then mkLS tl (Some p) (ls_budget s) (ls_known s) (ls_accepted s) (ls_done s)
                         else s
      | _, _ => s
      end
  | LSend n =>
      match ls_inflight s with
      | Some p =>
          if knownb (ls_known s) (p_stream p)
          then mkLS (ls_queue s) None (ls_budget s - n) (ls_known s) (ls_accepted s) (ls_done s ++ [(p, true)])
          else mkLS (ls_queue s) None (ls_budget s) (ls_known s) (ls_accepted s) (ls_done s ++ [(p, false)])
      | None => s
      end
  end.

Definition lrun (s : lst) (ops : list lop) : lst := fold_left lstep ops s.
Definition linit (known : list Z) : lst := mkLS [] None 0 known [] [].
Definition ls_delivered (s : lst) : list pkt := map fst (filter snd (ls_done s)).

(* ====================================================================================== *)
(* Deepening round: the same two pacers WITH Close, the racing select and the loop exit.   *)
(* ====================================================================================== *)

(* outcome of one Write call *)
Inductive wres := WAccepted | WClosed | WOverflow.

Definition wres_eqb (a b : wres) : bool :=
  match a, b with WAccepted, WAccepted | WClosed, WClosed | WOverflow, WOverflow => true | _, _ => false end.

(* writers (goroutines) between the first and the second atomic step of Write: (writer id, packet copy) *)
Fixpoint pend_find (w : Z) (l : list (Z * pkt)) : option pkt :=
  match l with
  | [] => None
  | (w', p) :: tl => if w' =? w then Some p else pend_find w tl
  end.

Fixpoint pend_remove (w : Z) (l : list (Z * pkt)) : list (Z * pkt) :=
  match l with
  | [] => []
  | (w', p) :: tl => if w' =? w then tl else (w', p) :: pend_remove w tl
  end.

(* ---------------- pacing interceptor with Close (pkg/pacing/interceptor.go) ----------------
   Write (BindLocalStream closure), atomic steps:
     CWBegin w p    [pre = true, the repaired code]: `select { case <-i.closed: return errPacerClosed; default: }`,
                    then header.Clone / payload copy (p is the copy).  [pre = false, the code before the
                    repair]: only the copy.
     CWSelect w pick `select { case i.queue <- pkt: ; case <-i.closed: errPacerClosed ; default: errPacerOverflow }`
                    Go semantics: among the READY communication cases one is chosen at random (pick = true: the
                    send); default only if none is ready.  send ready <=> len(chan) < cap; closed ready <=> closed.
   loop():  CRecv / CTick now (the two data cases of the select), CExit (case <-i.closed: return); nothing of the
            loop is enabled after CExit.  A closed loop may still take CRecv/CTick before CExit (random select).
   Close(): CCloseBegin = closeOnce.Do(close(i.closed)) (idempotent), CCloseReturn = wg.Wait() returned
            (enabled only once the loop goroutine has exited). *)
Record pcs := mkPC {
  pc_chan : list pkt;
  pc_local : list pkt;
  pc_tb : tb;
  pc_closed : bool;                      (* close(i.closed) executed *)
  pc_exited : bool;                      (* loop() returned *)
  pc_returned : bool;                    (* some Close() call returned *)
  pc_pending : list (Z * pkt);           (* writers between CWBegin and CWSelect *)
  pc_begun : list (Z * pkt);             (* history: Write calls in call order *)
  pc_results : list (Z * pkt * wres);    (* history: completed Write calls in completion order *)
  pc_accepted : list pkt;                (* history: accepted packets in acceptance (= channel) order *)
  pc_delivered : list pkt;
  pc_bits : Z
}.

Inductive pcop :=
| CWBegin (w : Z) (p : pkt)
| CWSelect (w : Z) (pick : bool)
| CRecv
| CTick (now : Z)
| CSetRate (t rate burst : Z)
| CCloseBegin
| CExit
| CCloseReturn.

Definition pcstep (pre : bool) (s : pcs) (o : pcop) : pcs :=
  match o with
  | CWBegin w p =>
      match pend_find w (pc_pending s) with
      | Some _ => s                                           (* a goroutine is inside one Write at a time *)
      | None =>
          if pre && pc_closed s
          then mkPC (pc_chan s) (pc_local s) (pc_tb s) (pc_closed s) (pc_exited s) (pc_returned s) (pc_pending s)
                    (pc_begun s ++ [(w, p)]) (pc_results s ++ [(w, p, WClosed)]) (pc_accepted s) (pc_delivered s) (pc_bits s)
          else mkPC (pc_chan s) (pc_local s) (pc_tb s) (pc_closed s) (pc_exited s) (pc_returned s) (pc_pending s ++ [(w, p)])
                    (pc_begun s ++ [(w, p)]) (pc_results s) (pc_accepted s) (pc_delivered s) (pc_bits s)
      end
  | CWSelect w pick =>
      match pend_find w (pc_pending s) with
      | None => s
      | Some p =>
          let send_ready := Z.of_nat (length (pc_chan s)) <? QUEUE_CAP in
          let closed_ready := pc_closed s in
          if send_ready && (negb closed_ready || pick)
          then mkPC (pc_chan s ++ [p]) (pc_local s) (pc_tb s) (pc_closed s) (pc_exited s) (pc_returned s) (pend_remove w (pc_pending s))
                    (pc_begun s) (pc_results s ++ [(w, p, WAccepted)]) (pc_accepted s ++ [p]) (pc_delivered s) (pc_bits s)
          else mkPC (pc_chan s) (pc_local s) (pc_tb s) (pc_closed s) (pc_exited s) (pc_returned s) (pend_remove w (pc_pending s))
                    (pc_begun s) (pc_results s ++ [(w, p, if closed_ready then WClosed else WOverflow)]) (pc_accepted s) (pc_delivered s) (pc_bits s)
      end
  | CRecv =>
      if pc_exited s then s else
      match pc_chan s with
      | [] => s
      | p :: tl => mkPC tl (pc_local s ++ [p]) (pc_tb s) (pc_closed s) (pc_exited s) (pc_returned s) (pc_pending s)
                        (pc_begun s) (pc_results s) (pc_accepted s) (pc_delivered s) (pc_bits s)
      end
  | CTick now =>
      if pc_exited s then s else
      let '(q, b, del, bits) := release (length (pc_local s)) now (pc_local s) (pc_tb s) (pc_delivered s) (pc_bits s) in
      mkPC (pc_chan s) q b (pc_closed s) (pc_exited s) (pc_returned s) (pc_pending s)
           (pc_begun s) (pc_results s) (pc_accepted s) del bits
  | CSetRate t r bu =>
      mkPC (pc_chan s) (pc_local s) (tb_set (pc_tb s) t r bu) (pc_closed s) (pc_exited s) (pc_returned s) (pc_pending s)
           (pc_begun s) (pc_results s) (pc_accepted s) (pc_delivered s) (pc_bits s)
  | CCloseBegin =>
      mkPC (pc_chan s) (pc_local s) (pc_tb s) true (pc_exited s) (pc_returned s) (pc_pending s)
           (pc_begun s) (pc_results s) (pc_accepted s) (pc_delivered s) (pc_bits s)
  | CExit =>
      if pc_closed s
      then mkPC (pc_chan s) (pc_local s) (pc_tb s) (pc_closed s) true (pc_returned s) (pc_pending s)
                (pc_begun s) (pc_results s) (pc_accepted s) (pc_delivered s) (pc_bits s)
      else s
  | CCloseReturn =>
      if pc_closed s && pc_exited s
      then mkPC (pc_chan s) (pc_local s) (pc_tb s) (pc_closed s) (pc_exited s) true (pc_pending s)
                (pc_begun s) (pc_results s) (pc_accepted s) (pc_delivered s) (pc_bits s)
      else s
  end.

Definition pcrun (pre : bool) (s : pcs) (ops : list pcop) : pcs := fold_left (pcstep pre) ops s.

Definition pcinit (rate burst t0 : Z) : pcs :=
  mkPC [] [] (mkTB rate burst (burst * NS) t0) false false false [] [] [] [] [] 0.

(* ---------------- leaky bucket with Close (pkg/gcc/leaky_bucket_pacer.go) ----------------
   Write:  KWBegin w p = `select { case <-p.done: return errLeakyBucketPacerClosed; default: }` + copy;
           KWPush w    = qLock.Lock(); queue.PushBack; qLock.Unlock()   (accepted).
   Run():  KTickStart b (case now := <-ticker.C; budget; qLock.Lock()), KPop (Remove(Front); qLock.Unlock()),
           KSend n (writer lookup, Write OUTSIDE the lock, budget -= n, qLock.Lock()), KTickEnd (loop condition
           false: qLock.Unlock(), back at the select), KExit (case <-p.done: return) - only at the select, i.e. not
           inside a tick: the inner for-loop does not look at p.done.
   Close(): KCloseBegin = closeOnce.Do(close(p.done)); KCloseReturn = wg.Wait() returned. *)
Record lcs := mkLC {
  lc_queue : list pkt;
  lc_inflight : option pkt;
  lc_budget : Z;
  lc_intick : bool;                      (* Run is inside the body of `case now := <-ticker.C` *)
  lc_known : list Z;
  lc_closed : bool;
  lc_exited : bool;
  lc_returned : bool;
  lc_pending : list (Z * pkt);
  lc_begun : list (Z * pkt);
  lc_results : list (Z * pkt * wres);
  lc_accepted : list pkt;
  lc_done : list (pkt * bool)
}.

Inductive lcop :=
| KWBegin (w : Z) (p : pkt)
| KWPush (w : Z)
| KAddStream (ssrc : Z)
| KTickStart (budget : Z)
| KPop
| KSend (n : Z)
| KTickEnd
| KCloseBegin
| KExit
| KCloseReturn.

Definition lcstep (s : lcs) (o : lcop) : lcs :=
  match o with
  | KWBegin w p =>
      match pend_find w (lc_pending s) with
      | Some _ => s
      | None =>
          if lc_closed s
          then mkLC (lc_queue s) (lc_inflight s) (lc_budget s) (lc_intick s) (lc_known s) (lc_closed s) (lc_exited s) (lc_returned s)
                    (lc_pending s) (lc_begun s ++ [(w, p)]) (lc_results s ++ [(w, p, WClosed)]) (lc_accepted s) (lc_done s)
          else mkLC (lc_queue s) (lc_inflight s) (lc_budget s) (lc_intick s) (lc_known s) (lc_closed s) (lc_exited s) (lc_returned s)
                    (lc_pending s ++ [(w, p)]) (lc_begun s ++ [(w, p)]) (lc_results s) (lc_accepted s) (lc_done s)
      end
  | KWPush w =>
      match pend_find w (lc_pending s) with
      | None => s
      | Some p =>
          mkLC (lc_queue s ++ [p]) (lc_inflight s) (lc_budget s) (lc_intick s) (lc_known s) (lc_closed s) (lc_exited s) (lc_returned s)
               (pend_remove w (lc_pending s)) (lc_begun s) (lc_results s ++ [(w, p, WAccepted)]) (lc_accepted s ++ [p]) (lc_done s)
      end
  | KAddStream x =>
      mkLC (lc_queue s) (lc_inflight s) (lc_budget s) (lc_intick s) (x :: lc_known s) (lc_closed s) (lc_exited s) (lc_returned s)
           (lc_pending s) (lc_begun s) (lc_results s) (lc_accepted s) (lc_done s)
  | KTickStart b =>
      if lc_exited s || lc_intick s then s
      else mkLC (lc_queue s) (lc_inflight s) b true (lc_known s) (lc_closed s) (lc_exited s) (lc_returned s)
                (lc_pending s) (lc_begun s) (lc_results s) (lc_accepted s) (lc_done s)
  | KPop =>
      match lc_intick s, lc_inflight s, lc_queue s with
      | true, None, p :: tl =>
          if 0 <? lc_budget s
          then mkLC tl (Some p) (lc_budget s) true (lc_known s) (lc_closed s) (lc_exited s) (lc_returned s)
                    (lc_pending s) (lc_begun s) (lc_results s) (lc_accepted s) (lc_done s)
          else s
      | _, _, _ => s
      end
  | KSend n =>
      match lc_inflight s with
      | Some p =>
          if knownb (lc_known s) (p_stream p)
          then mkLC (lc_queue s) None (lc_budget s - n) (lc_intick s) (lc_known s) (lc_closed s) (lc_exited s) (lc_returned s)
                    (lc_pending s) (lc_begun s) (lc_results s) (lc_accepted s) (lc_done s ++ [(p, true)])
          else mkLC (lc_queue s) None (lc_budget s) (lc_intick s) (lc_known s) (lc_closed s) (lc_exited s) (lc_returned s)
                    (lc_pending s) (lc_begun s) (lc_results s) (lc_accepted s) (lc_done s ++ [(p, false)])
      | None => s
      end
  | KTickEnd =>
      match lc_intick s, lc_inflight s with
      | true, None =>
          if (match lc_queue s with [] => true | _ => false end) || (lc_budget s <=? 0)
          then mkLC (lc_queue s) None (lc_budget s) false (lc_known s) (lc_closed s) (lc_exited s) (lc_returned s)
                    (lc_pending s) (lc_begun s) (lc_results s) (lc_accepted s) (lc_done s)
          else s
      | _, _ => s
      end
  | KCloseBegin =>
      mkLC (lc_queue s) (lc_inflight s) (lc_budget s) (lc_intick s) (lc_known s) true (lc_exited s) (lc_returned s)
           (lc_pending s) (lc_begun s) (lc_results s) (lc_accepted s) (lc_done s)
  | KExit =>
      if lc_closed s && negb (lc_intick s)
      then mkLC (lc_queue s) (lc_inflight s) (lc_budget s) (lc_intick s) (lc_known s) (lc_closed s) true (lc_returned s)
                (lc_pending s) (lc_begun s) (lc_results s) (lc_accepted s) (lc_done s)
      else s
  | KCloseReturn =>
      if lc_closed s && lc_exited s
      then mkLC (lc_queue s) (lc_inflight s) (lc_budget s) (lc_intick s) (lc_known s) (lc_closed s) (lc_exited s) true
                (lc_pending s) (lc_begun s) (lc_results s) (lc_accepted s) (lc_done s)
      else s
  end.

Definition lcrun (s : lcs) (ops : list lcop) : lcs := fold_left lcstep ops s.
Definition lcinit (known : list Z) : lcs := mkLC [] None 0 false known false false false [] [] [] [] [].
Definition lc_delivered (s : lcs) : list pkt := map fst (filter snd (lc_done s)).
