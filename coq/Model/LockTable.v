(* C10: the lock/access table and its checker.

   A [row] is one access of the Go sources to a field of a struct of the interceptor
   packages, as extracted by tools/lockscan (coq/Generated/AccessTable.v is a list of rows,
   regenerated from the working tree on every run).  [drf_ok] is the boolean checker that is
   evaluated on the regenerated table on every run; Proofs/LockTableProofs.v proves that a
   table accepted by it has no data race in any interleaving of any number of threads.

   No proofs in this file. *)
From Coq Require Import ZArith List Bool.
From Coq Require String.
Import ListNotations.
Open Scope Z_scope.

(* how the field is touched *)
Inductive kind := KRead | KWrite | KRmw | KARead | KAWrite | KARmw.
(* mode in which a mutex is held: RLock / Lock *)
Inductive lmode := LR | LW.
(* which threads may execute the row:
   CAny    any number of threads at any time after publication (traffic closures, getters, Bind/Unbind/Close, ...)
   CSetup  the constructing thread, before the object is published (constructor, options, setup setters)
   COne k  the one thread of singleton class k (a goroutine started once per object; the single call
           of a called-once function) *)
Inductive tclass := CAny | CSetup | COne (k : Z).
Inductive phase := PCtor | PBind | PTraffic | PLoop | PGetter | PClose.

Record row := mkRow {
  r_loc    : Z;                  (* location = pkg.Type.field, numbered; names in Generated.loc_names *)
  r_code   : Z;                  (* stable code of the location (hash of its name) for failure reports *)
  r_kind   : kind;
  r_locks  : list (Z * lmode);   (* mutexes of the same object held at the access *)
  r_class  : tclass;
  r_before : list Z;             (* singleton classes started (go statement) after this access, in a called-once function *)
  r_phase  : phase;              (* documentation only *)
  r_anns   : list Z;             (* ownership annotations the row relies on (documentation only) *)
  r_name   : String.string              (* documentation only *)
}.

Definition is_atomic (k : kind) : bool :=
  match k with KARead | KAWrite | KARmw => true | _ => false end.
Definition is_write (k : kind) : bool :=
  match k with KWrite | KRmw | KAWrite | KARmw => true | _ => false end.

(* two rows conflict: same location, at least one writes, not both atomic *)
Definition conflict (r1 r2 : row) : bool :=
  (r_loc r1 =? r_loc r2)
  && (is_write (r_kind r1) || is_write (r_kind r2))
  && negb (is_atomic (r_kind r1) && is_atomic (r_kind r2)).

Definition mode_excl (m1 m2 : lmode) : bool :=
  match m1, m2 with LR, LR => false | _, _ => true end.

(* a lock in common, held exclusively by at least one side *)
Definition share_lock (r1 r2 : row) : bool :=
  existsb (fun p1 => existsb (fun p2 => (fst p1 =? fst p2) && mode_excl (snd p1) (snd p2)) (r_locks r2)) (r_locks r1).

Definition same_single (r1 r2 : row) : bool :=
  match r_class r1, r_class r2 with COne a, COne b => a =? b | _, _ => false end.

Definition is_setup (r : row) : bool :=
  match r_class r with CSetup => true | _ => false end.

(* r1 happens before the start of the singleton thread that executes r2 *)
Definition before_of (r1 r2 : row) : bool :=
  match r_class r2 with COne k => existsb (Z.eqb k) (r_before r1) | _ => false end.

Definition pair_ok (r1 r2 : row) : bool :=
  negb (conflict r1 r2) || share_lock r1 r2 || same_single r1 r2
  || is_setup r1 || is_setup r2 || before_of r1 r2 || before_of r2 r1.

Definition drf_ok (t : list row) : bool :=
  forallb (fun r1 => forallb (fun r2 => pair_ok r1 r2) t) t.

(* locations of [t] that have an unjustified conflicting pair, by code (for readable failures) *)
Definition bad_codes (t : list row) : list Z :=
  nodup Z.eq_dec
    (flat_map (fun r1 => if forallb (fun r2 => pair_ok r1 r2) t then [] else [r_code r1]) t).

(* a location all of whose writers are increments *)
Definition counter_kind (k : kind) : bool :=
  match k with KRead | KARead | KRmw | KARmw => true | _ => false end.
Definition counter_loc (t : list row) (l : Z) : bool :=
  forallb (fun r => negb (r_loc r =? l) || counter_kind (r_kind r)) t.

(* ---- lock order ---- *)

(* longest-path ranks by |edges|+1 rounds of relaxation; no property of this function is needed:
   the checker verifies its result. *)
Definition rank_of (rk : list (Z * Z)) (l : Z) : Z :=
  match find (fun p => fst p =? l) rk with Some p => snd p | None => 0 end.
Definition set_rank (rk : list (Z * Z)) (l v : Z) : list (Z * Z) :=
  (l, v) :: filter (fun p => negb (fst p =? l)) rk.
Definition relax (edges : list (Z * Z)) (rk : list (Z * Z)) : list (Z * Z) :=
  fold_left (fun rk e => if rank_of rk (snd e) <=? rank_of rk (fst e)
                         then set_rank rk (snd e) (rank_of rk (fst e) + 1) else rk) edges rk.
Fixpoint relax_n (n : nat) (edges : list (Z * Z)) (rk : list (Z * Z)) : list (Z * Z) :=
  match n with O => rk | S n' => relax_n n' edges (relax edges rk) end.
Definition compute_rank (edges : list (Z * Z)) : Z -> Z :=
  rank_of (relax_n (S (length edges)) edges []).

Definition edges_ranked (rank : Z -> Z) (edges : list (Z * Z)) : bool :=
  forallb (fun e => rank (fst e) <? rank (snd e)) edges.
Definition lock_order_acyclic (edges : list (Z * Z)) : bool :=
  edges_ranked (compute_rank edges) edges.

(* ---- calls that leave the scanned code while mutexes are held (round 4; tools/lockscan/reentry.go) ---- *)

(* One call site: (mutexes held at the call, mutexes acquired by the public getters of the object, which the
   foreign code - a user callback, the next element of the chain - is permitted to call).  In the lock-order
   machine the foreign code is the calling thread itself: still holding [fst], it may request any lock of [snd];
   these are the edges fst x snd. *)
Definition site := (list Z * list Z)%type.
Definition callback_edges (s : site) : list (Z * Z) :=
  flat_map (fun h => map (fun p => (h, p)) (snd s)) (fst s).
Definition all_callback_edges (sites : list site) : list (Z * Z) := flat_map callback_edges sites.
(* the foreign code can request a mutex its caller holds: sync.Mutex is not re-entrant *)
Definition site_reentrant (s : site) : bool :=
  existsb (fun h => existsb (Z.eqb h) (snd s)) (fst s).
(* the recorded (held, acquired) edges together with the edges of all sites must be acyclic *)
Definition callbacks_ok (edges : list (Z * Z)) (sites : list site) : bool :=
  lock_order_acyclic (edges ++ all_callback_edges sites).
