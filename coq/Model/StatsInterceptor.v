(* Model of the glue in pkg/stats/interceptor.go: the map of recorders.
   getRecorder (Bind{Local,Remote}Stream) creates a recorder for an SSRC once
   (the first clock rate wins); RTP written/read on a bound stream goes to that
   stream's recorder only (which then filters by header SSRC); every RTCP
   compound, in or out, goes to every recorder; Get(ssrc) reads one recorder.
   The Go map is an association list in creation order (Get never depends on order). *)
From IV Require Import Base.Word Model.StatsRecorder.

Inductive ievent :=
| IBind (s rate : Z)             (* BindLocalStream / BindRemoteStream, after its Start goroutine ran *)
| IRtp (via : Z) (e : event)     (* e = InRTP/OutRTP travelling on the reader/writer of stream via *)
| IRtcp (e : event).             (* e = InRTCP/OutRTCP *)

Section Icp.
  Variable F : Type.
  Variable fzero : F.
  Variable k_units : Z -> Z -> Z.
  Variable k_jitter : Z -> F -> Z -> F.
  Variable k_rjitter : Z -> Z -> F.
  Variable k_frac : Z -> F.
  Variable k_delay : Z -> Z.
  Variable k_ntpfrac : Z -> Z.

  Definition recs := list (Z * (Z * st F)).   (* ssrc |-> (clock rate, recorder state) *)

  Fixpoint lookup (s : Z) (m : recs) : option (Z * st F) :=
    match m with
    | [] => None
    | (k, v) :: tl => if k =? s then Some v else lookup s tl
    end.

  Definition feed (k : Z) (v : Z * st F) (e : event) : Z * st F :=
    (fst v, step k_units k_jitter k_rjitter k_frac k_delay k_ntpfrac k (fst v) (snd v) e).

  Definition istep (m : recs) (ie : ievent) : recs :=
    match ie with
    | IBind s rate => match lookup s m with Some _ => m | None => m ++ [(s, (rate, st0 fzero))] end
    | IRtp via e => map (fun kv => if fst kv =? via then (fst kv, feed (fst kv) (snd kv) e) else kv) m
    | IRtcp e => map (fun kv => (fst kv, feed (fst kv) (snd kv) e)) m
    end.

  Definition irun (h : list ievent) : recs := fold_left istep h [].
  (* Interceptor.Get *)
  Definition iget (s : Z) (h : list ievent) : option (st F) := option_map snd (lookup s (irun h)).
End Icp.
Arguments lookup {F}. Arguments feed {F}. Arguments istep {F}. Arguments irun {F}. Arguments iget {F}.

(* what the recorder of stream s observes of an interceptor history: the events
   after s was first bound - all RTCP, and the RTP that travels on stream s *)
Definition is_bind (s : Z) (ie : ievent) : bool := match ie with IBind s' _ => s' =? s | _ => false end.
Definition seen (s : Z) (bound : bool) (ie : ievent) : list event :=
  match ie with
  | IBind _ _ => []
  | IRtp via e => if bound && (via =? s) then [e] else []
  | IRtcp e => if bound then [e] else []
  end.
Fixpoint project (s : Z) (bound : bool) (h : list ievent) : list event :=
  match h with
  | [] => []
  | ie :: tl => seen s bound ie ++ project s (bound || is_bind s ie) tl
  end.
Fixpoint first_rate (s : Z) (h : list ievent) : option Z :=
  match h with
  | [] => None
  | IBind s' r :: tl => if s' =? s then Some r else first_rate s tl
  | _ :: tl => first_rate s tl
  end.
