(* Model of packetdump's default logger as far as C01 is concerned: what
   defaultPacketLogger.writeDumpedRTCP does to the []rtcp.Packet slice it was handed.
   The slice is shared: on the sender side it is the application's batch (the one the next
   RTCPWriter is handed as well), on the receiver side it is the slice cached in the
   Attributes.  A slice is modelled by the content of its backing array.  No proofs here. *)
From Coq Require Import List Bool ZArith.
Import ListNotations.

Section Dump.
  Variable P : Type.                      (* one rtcp.Packet *)
  Variable batch_ok : list P -> bool.     (* rtcpFilter *)
  Variable pkt_ok : P -> bool.            (* rtcpPerPacketFilter *)

  (* the loop
       for _, pkt := range dump.packets { if !d.rtcpPerPacketFilter(pkt) { continue }; format(pkt) }
     reads the elements and formats the accepted ones; it returns (what was dumped, the
     backing array afterwards).  Nothing is stored into the array. *)
  Fixpoint dump_loop (arr : list P) (i : nat) (rest : list P) (out : list P) : list P * list P :=
    match rest with
    | [] => (out, arr)
    | p :: tl => if pkt_ok p then dump_loop arr (S i) tl (out ++ [p]) else dump_loop arr (S i) tl out
    end.

  (* writeDumpedRTCP: (dumped packets, backing array afterwards) *)
  Definition write_dumped_rtcp (arr : list P) : list P * list P :=
    if negb (batch_ok arr) then ([], arr) else dump_loop arr 0 arr [].

  (* the variant that filters in place,
       accepted := dump.packets[:0]
       for _, pkt := range dump.packets { if filter(pkt) { accepted = append(accepted, pkt) } }
     stores the k-th accepted packet into arr[k] while iterating.  Kept here only to show
     what the aliasing oracle is for. *)
  Fixpoint set_nth (l : list P) (k : nat) (x : P) : list P :=
    match l, k with
    | [], _ => []
    | _ :: tl, O => x :: tl
    | y :: tl, S k' => y :: set_nth tl k' x
    end.
  (* iteration i reads arr[i] from the (live) backing array *)
  Fixpoint compact_loop (fuel : nat) (arr : list P) (i k : nat) : list P * nat :=
    match fuel with
    | O => (arr, k)
    | S f => match nth_error arr i with
             | None => (arr, k)
             | Some p => if pkt_ok p then compact_loop f (set_nth arr k p) (S i) (S k)
                         else compact_loop f arr (S i) k
             end
    end.
  Definition write_dumped_rtcp_inplace (arr : list P) : list P * list P :=
    if negb (batch_ok arr) then ([], arr)
    else let '(arr', k) := compact_loop (length arr) arr 0 0 in (firstn k arr', arr').
End Dump.

Arguments dump_loop {P}. Arguments write_dumped_rtcp {P}. Arguments set_nth {P}.
Arguments compact_loop {P}. Arguments write_dumped_rtcp_inplace {P}.
