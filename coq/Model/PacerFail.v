(* C17, round-4 strengthening: the pacers when a stream's NEXT WRITER RETURNS AN ERROR.

   pkg/gcc/leaky_bucket_pacer.go Run():
       n, err := writer.Write(next.header, ...)
       if err != nil { p.log.Errorf("failed to write packet: %v", err) }
       lastSent = now; budget -= n; p.pool.Put(next.payload); p.qLock.Lock()
   pkg/pacing/interceptor.go loop():
       next, queue = queue[0], queue[1:]
       if _, err := next.writer.Write(...); err != nil { slog.Warn(...) }
   In both pacers the packet has left the queue BEFORE the next writer is called and the error is only logged: the
   hand-off counts, whatever the next writer returns.  The property says "handed to its stream's next writer exactly
   once"; a pacer that keeps the packet and hands it over again is outside it (the next writer may well have consumed
   the packet and failed afterwards).

   The models make the outcome of every next-writer call an input of the history (the environment chooses it) and
   what the pacer does with an error a policy:
     MoveOn    = the code as it is (log, go on with the next packet);
     RetryHead = the alternative design "put the packet back at the head of the queue, stop draining for this tick,
                 try again with the next pacing interval" - kept only to state what goes wrong with it and on which
                 histories the two cannot be told apart. *)
From IV Require Import Base.Word Model.PacerQueue.

Inductive epol := MoveOn | RetryHead.

(* what happened to a packet taken off the queue: its next writer returned nil / returned an error / there was no
   writer for its SSRC (leaky bucket only: dropped with a warning) *)
Inductive hres := HOk | HErr | HNoWriter.

Definition hcalled (r : hres) : bool := match r with HNoWriter => false | _ => true end.
Definition hres_of (ok : bool) : hres := if ok then HOk else HErr.

(* ---------------- leaky bucket (pkg/gcc/leaky_bucket_pacer.go) ---------------- *)
Record est := mkES {
  es_queue : list pkt;
  es_inflight : option pkt;        (* popped, lock released, writer.Write not yet returned *)
  es_budget : Z;
  es_known : list Z;
  es_accepted : list pkt;          (* history: accepted packets in acceptance order *)
  es_done : list (pkt * hres)      (* history: every time a packet was taken off the queue, in order, with the outcome *)
}.

Inductive eop :=
| EWrite (p : pkt)
| EAddStream (ssrc : Z)
| ETickStart (budget : Z)
| EPop
| ESend (n : Z) (ok : bool).      (* writer.Write returned (n, nil) [ok] or (n, err) [not ok] *)

Definition estep (pol : epol) (s : est) (o : eop) : est :=
  match o with
  | EWrite p => mkES (es_queue s ++ [p]) (es_inflight s) (es_budget s) (es_known s) (es_accepted s ++ [p]) (es_done s)
  | EAddStream x => mkES (es_queue s) (es_inflight s) (es_budget s) (x :: es_known s) (es_accepted s) (es_done s)
  | ETickStart b =>
      match es_inflight s with
      | None => mkES (es_queue s) None b (es_known s) (es_accepted s) (es_done s)
      | Some _ => s
      end
  | EPop =>
      match es_inflight s, es_queue s with
      | None, p :: tl => if 0 <? es_budget s
                         then mkES tl (Some p) (es_budget s) (es_known s) (es_accepted s) (es_done s)
                         else s
      | _, _ => s
      end
  | ESend n ok =>
      match es_inflight s with
      | Some p =>
          if negb (knownb (es_known s) (p_stream p))
          then mkES (es_queue s) None (es_budget s) (es_known s) (es_accepted s) (es_done s ++ [(p, HNoWriter)])
          else match pol, ok with
               | RetryHead, false =>
                   (* qLock.Lock(); queue.PushFront(next); break  - the drain loop of this tick ends *)
                   mkES (p :: es_queue s) None 0 (es_known s) (es_accepted s) (es_done s ++ [(p, HErr)])
               | _, _ =>
                   mkES (es_queue s) None (es_budget s - n) (es_known s) (es_accepted s) (es_done s ++ [(p, hres_of ok)])
               end
      | None => s
      end
  end.

Definition erun (pol : epol) (s : est) (ops : list eop) : est := fold_left (estep pol) ops s.
Definition einit (known : list Z) : est := mkES [] None 0 known [] [].

(* the calls the next writers received, in order, with their outcome *)
Definition es_calls (s : est) : list (pkt * hres) := filter (fun e => hcalled (snd e)) (es_done s).

(* projection onto the first-round LTS (PacerQueue.lst): the outcome of the call is invisible there *)
Definition eop_lop (o : eop) : lop :=
  match o with
  | EWrite p => LWrite p
  | EAddStream x => LAddStream x
  | ETickStart b => LTickStart b
  | EPop => LPop
  | ESend n _ => LSend n
  end.

Definition eproj (s : est) : lst :=
  mkLS (es_queue s) (es_inflight s) (es_budget s) (es_known s) (es_accepted s)
       (map (fun e => (fst e, hcalled (snd e))) (es_done s)).

(* every next-writer call of the history returned nil *)
Definition eop_ok (o : eop) : Prop := match o with ESend _ ok => ok = true | _ => True end.

(* packets are written on streams added before (as in PacerProofs.ops_ok) *)
Fixpoint eops_known (k : list Z) (ops : list eop) : Prop :=
  match ops with
  | [] => True
  | EWrite p :: tl => knownb k (p_stream p) = true /\ eops_known k tl
  | EAddStream x :: tl => eops_known (x :: k) tl
  | _ :: tl => eops_known k tl
  end.

(* ---------------- pacing interceptor (pkg/pacing/interceptor.go) ---------------- *)
Record gst := mkGS {
  g_chan : list pkt;
  g_local : list pkt;
  g_tb : tb;
  g_accepted : list pkt;
  g_done : list (pkt * bool);      (* history: every next.writer.Write call, in order; true = it returned nil *)
  g_bits : Z
}.

Inductive gop :=
| GWrite (p : pkt)
| GRecv
| GTick (now : Z) (outs : list bool)   (* outs: what the next-writer calls of this tick return, in order (nil = no error;
                                          calls beyond the list return nil) *)
| GSetRate (t rate burst : Z).

(* the for-loop of one tick (PacerQueue.release) with the outcome of every call recorded *)
Fixpoint grelease (pol : epol) (fuel : nat) (now : Z) (q : list pkt) (b : tb) (done : list (pkt * bool)) (bits : Z)
                  (outs : list bool) : list pkt * tb * list (pkt * bool) * Z :=
  match fuel, q with
  | S f, p :: q' =>
      if 8 * plen p * NS <? tb_budget b now then
        let '(b', _) := tb_allow b now (8 * plen p) in
        let ok := hd true outs in
        match pol, ok with
        | RetryHead, false => (q, b', done ++ [(p, false)], bits + 8 * plen p)   (* keep the head, leave the loop *)
        | _, _ => grelease pol f now q' b' (done ++ [(p, ok)]) (bits + 8 * plen p) (tl outs)
        end
      else (q, b, done, bits)
  | _, _ => (q, b, done, bits)
  end.

Definition gstep (pol : epol) (s : gst) (o : gop) : gst :=
  match o with
  | GWrite p =>
      if QUEUE_CAP <=? Z.of_nat (length (g_chan s)) then s
      else mkGS (g_chan s ++ [p]) (g_local s) (g_tb s) (g_accepted s ++ [p]) (g_done s) (g_bits s)
  | GRecv =>
      match g_chan s with
      | [] => s
      | p :: tl => mkGS tl (g_local s ++ [p]) (g_tb s) (g_accepted s) (g_done s) (g_bits s)
      end
  | GTick now outs =>
      let '(q, b, done, bits) := grelease pol (length (g_local s)) now (g_local s) (g_tb s) (g_done s) (g_bits s) outs in
      mkGS (g_chan s) q b (g_accepted s) done bits
  | GSetRate t r bu => mkGS (g_chan s) (g_local s) (tb_set (g_tb s) t r bu) (g_accepted s) (g_done s) (g_bits s)
  end.

Definition grun (pol : epol) (s : gst) (ops : list gop) : gst := fold_left (gstep pol) ops s.
Definition ginit (rate burst t0 : Z) : gst := mkGS [] [] (mkTB rate burst (burst * NS) t0) [] [] 0.

Definition gop_pop (o : gop) : pop :=
  match o with
  | GWrite p => PWrite p
  | GRecv => PRecv
  | GTick now _ => PTick now
  | GSetRate t r bu => PSetRate t r bu
  end.

Definition gproj (s : gst) : pst :=
  mkPS (g_chan s) (g_local s) (g_tb s) false (g_accepted s) (map fst (g_done s)) (g_bits s).

Definition gop_ok (o : gop) : Prop := match o with GTick _ outs => Forall (fun b => b = true) outs | _ => True end.
