(* Model of pkg/stats/stats_recorder.go (one recorder = one SSRC) as it is AFTER
   the fix: commits of C19 (XR no longer ends the compound; DLRR lookup stops at
   the first match; incoming FIR is addressed by its FCI entries).

   Numbers are Z.  uint32 counters wrap with an explicit [mod 2^32]; uint64
   counters and int64 durations are unbounded Z (2^63 bytes / ns are out of
   reach).  time.Time is Z nanoseconds since the Unix epoch, the zero Time is
   [None] where the field can be unset.  The float64 code is isolated in six
   kernels, Section variables here, instantiated with primitive floats in
   Model/StatsKernels.v.

   The state is split into four groups because each record* function writes
   exactly one of them:
     inb  : recordIncomingRTP      outb : recordOutgoingRTP
     fbk  : recordOutgoingRTCP     rem  : recordIncomingRTCP (+RR, +XR)
   The two "last N" slices are kept NEWEST FIRST ([x :: l] for append,
   [firstn 5] for the trim), so the Go loops "for i := len-1; i >= 0; i--"
   are left-to-right traversals here. *)
From IV Require Import Base.Word Model.Unwrapper Model.Ntp.

(* ---- RTCP packets as the recorder sees them (after pion/rtcp parsing) ---- *)
Inductive report := Rep (rssrc frac lost lastseq jitter lsr delay : Z).
Inductive dlrr := Dl (dssrc lastrr dl : Z).
Inductive xrblock :=
| XDlrr (l : list dlrr)
| XRrtr (ntp : Z)
| XOther (ossrc : Z).          (* any other block type: one destination SSRC, no effect *)
Inductive rtcp :=
| PSR (sender ntp rtpts pcount ocount : Z) (reps : list report)
| PRR (sender : Z) (reps : list report)
| PXR (sender : Z) (blocks : list xrblock)
| PNack (sender media : Z)
| PPli (sender media : Z)
| PFir (sender media : Z) (entries : list Z)     (* entries: FCI SSRCs *)
| POther (dests : list Z).                       (* SDES, BYE, REMB, ...: no effect *)

Inductive event :=
| InRTP (ts ss seq rtpts hdr pay : Z)      (* hdr = header.MarshalSize(), pay = payloadLen *)
| OutRTP (ts ss seq hdr pay : Z)
| InRTCP (ts : Z) (pkts : list rtcp)
| OutRTCP (ts : Z) (pkts : list rtcp).

Definition rep_ssrc (r : report) : Z := match r with Rep s _ _ _ _ _ _ => s end.
Definition dl_ssrc (d : dlrr) : Z := match d with Dl s _ _ => s end.

(* pion/rtcp DestinationSSRC() *)
Definition xr_dest (b : xrblock) : list Z :=
  match b with
  | XDlrr l => map dl_ssrc l
  | XRrtr _ => []
  | XOther s => [s]
  end.
Definition dest (p : rtcp) : list Z :=
  match p with
  | PSR s _ _ _ _ reps => map rep_ssrc reps ++ [s]
  | PRR _ reps => map rep_ssrc reps
  | PXR s blocks => s :: flat_map xr_dest blocks
  | PNack _ m => [m]
  | PPli _ m => [m]
  | PFir _ _ es => es
  | POther d => d
  end.

(* contains(ls, e) *)
Definition mem (e : Z) (ls : list Z) : bool := existsb (Z.eqb e) ls.

(* (x & 0x0000FFFFFFFF0000) >> 16 *)
Definition mid32 (x : Z) : Z := (x / 65536) mod 4294967296.

(* ---- state groups ---- *)
Section Recorder.
  Variable F : Type.
  Variable fzero : F.
  Variable k_units : Z -> Z -> Z.        (* rate, ns  |-> uint32(Seconds()*clockRate) *)
  Variable k_jitter : Z -> F -> Z -> F.  (* rate, J, d |-> J + (1/16)*(d/rate - J) *)
  Variable k_rjitter : Z -> Z -> F.      (* rate, j   |-> float64(j)/clockRate *)
  Variable k_frac : Z -> F.              (* fl        |-> float64(fl)/256.0 *)
  Variable k_delay : Z -> Z.             (* d         |-> Duration(float64(d)/65536.0*1e9) *)
  Variable k_ntpfrac : Z -> Z.           (* ntp.ToTime's fraction kernel *)
  Variable ssrc rate : Z.

  Record inb := mkInb {
    uw : option Z;                 (* inboundSequencerNumber *)
    in_init : bool; in_first : Z; in_high : Z;
    arr_init : bool; arr_last : Z; arr_rtp : Z; arr_transit : Z;
    i_recv : Z; i_lost : Z; i_jit : F; i_last : option Z; i_hdr : Z; i_bytes : Z }.

  Record outb := mkOutb {
    o_sent : Z; o_bytes : Z; o_hdr : Z;
    rf_init : bool; rf : Z }.      (* remoteInboundFirstSequenceNumber *)

  Record fbk := mkFbk {
    i_fir : Z; i_pli : Z; i_nack : Z;
    srs : list Z;                  (* lastSenderReports, newest first *)
    rrtrs : list Z }.              (* lastReceiverReferenceTimes, newest first *)

  Record rem := mkRem {
    o_nack : Z; o_fir : Z; o_pli : Z;
    ri_recv : Z; ri_lost : Z; ri_jit : F; ri_rtt : Z; ri_total : Z; ri_frac : F; ri_meas : Z;
    ro_sent : Z; ro_bytes : Z; ro_ts : option Z; ro_reports : Z;
    ro_rtt : Z; ro_total : Z; ro_meas : Z }.

  Record st := mkSt { sa : inb; sb : outb; sc : fbk; sd : rem }.

  Definition inb0 := mkInb None false 0 0 false 0 0 0 0 0 fzero None 0 0.
  Definition outb0 := mkOutb 0 0 0 false 0.
  Definition fbk0 := mkFbk 0 0 0 [] [].
  Definition rem0 := mkRem 0 0 0 0 0 fzero 0 0 fzero 0 0 0 None 0 0 0 0.
  Definition st0 := mkSt inb0 outb0 fbk0 rem0.

  (* recordIncomingRTP *)
  Definition rec_in_rtp (a : inb) (ts ss seq rtpts hdr pay : Z) : inb :=
    if negb (ss =? ssrc) then a else
    let '(uw', sn) := unwrap (uw a) seq in
    let first := if in_init a then in_first a else sn in
    let high := if sn >? in_high a then sn else in_high a in
    let recv := i_recv a + 1 in
    let lost := high - first + 1 - recv in
    if arr_init a then
      let units := k_units rate (ts - arr_last a) in
      let arrival := add32 (arr_rtp a) units in
      let transit := arrival - rtpts in
      let d := Z.abs (transit - arr_transit a) in
      mkInb uw' true first high true ts rtpts transit
            recv lost (k_jitter rate (i_jit a) d) (Some ts) (i_hdr a + hdr) (i_bytes a + (hdr + pay))
    else
      mkInb uw' true first high true ts rtpts (arr_transit a)
            recv lost (i_jit a) (Some ts) (i_hdr a + hdr) (i_bytes a + (hdr + pay)).

  (* recordOutgoingRTP *)
  Definition rec_out_rtp (b : outb) (ts ss seq hdr pay : Z) : outb :=
    if negb (ss =? ssrc) then b else
    mkOutb (o_sent b + 1) (o_bytes b + (hdr + pay)) (o_hdr b + hdr)
           true (if rf_init b then rf b else seq).

  (* recordOutgoingRTCP, one packet of the compound *)
  Definition rec_rrtr (c : fbk) (blk : xrblock) : fbk :=
    match blk with
    | XRrtr ntp => mkFbk (i_fir c) (i_pli c) (i_nack c) (srs c) (firstn 5 (ntp :: rrtrs c))
    | _ => c
    end.

  Definition rec_out_rtcp1 (c : fbk) (p : rtcp) : fbk :=
    match p with
    | PFir _ _ _ =>
        if negb (mem ssrc (dest p)) then c
        else mkFbk (u32 (i_fir c + 1)) (i_pli c) (i_nack c) (srs c) (rrtrs c)
    | PPli _ _ =>
        if negb (mem ssrc (dest p)) then c
        else mkFbk (i_fir c) (u32 (i_pli c + 1)) (i_nack c) (srs c) (rrtrs c)
    | PNack _ _ =>
        if negb (mem ssrc (dest p)) then c
        else mkFbk (i_fir c) (i_pli c) (u32 (i_nack c + 1)) (srs c) (rrtrs c)
    | PSR _ ntp _ _ _ _ =>
        if negb (mem ssrc (dest p)) then c
        else mkFbk (i_fir c) (i_pli c) (i_nack c) (firstn 5 (ntp :: srs c)) (rrtrs c)
    | PXR _ blocks => fold_left rec_rrtr blocks c
    | _ => c
    end.

  (* one RTT sample: (ts.Add(-d)).Sub(ntp.ToTime(n)) *)
  Definition rtt_of (ts dly n : Z) : Z := ts - k_delay dly - to_time k_ntpfrac n.

  (* recordIncomingRR, one reception report; [b], [c] are read only *)
  Definition rec_rr1 (b : outb) (c : fbk) (ts : Z) (d : rem) (r : report) : rem :=
    match r with
    | Rep rs fr lost ls jit lsr dly =>
      if negb (rs =? ssrc) then d else
      let recv :=
        if rf_init b then
          let highest := (ls / 65536) * 65536 + ls mod 65536 in
          Z.max (highest - rf b + 1 - lost) 0
        else ri_recv d in
      let hit := if negb (dly =? 0) && negb (lsr =? 0)
                 then find (fun n => mid32 n =? lsr) (srs c) else None in
      match hit with
      | Some n =>
          let rtt := rtt_of ts dly n in
          mkRem (o_nack d) (o_fir d) (o_pli d)
                recv lost (k_rjitter rate jit) rtt (ri_total d + rtt) (k_frac fr) (ri_meas d + 1)
                (ro_sent d) (ro_bytes d) (ro_ts d) (ro_reports d) (ro_rtt d) (ro_total d) (ro_meas d)
      | None =>
          mkRem (o_nack d) (o_fir d) (o_pli d)
                recv lost (k_rjitter rate jit) (ri_rtt d) (ri_total d) (k_frac fr) (ri_meas d)
                (ro_sent d) (ro_bytes d) (ro_ts d) (ro_reports d) (ro_rtt d) (ro_total d) (ro_meas d)
      end
    end.

  (* recordIncomingXR: one DLRR sub-report *)
  Definition rec_dlrr1 (c : fbk) (ts : Z) (d : rem) (x : dlrr) : rem :=
    match x with
    | Dl xs lrr dl =>
      if negb (lrr =? 0) && negb (dl =? 0) && (xs =? ssrc) then
        match find (fun n => mid32 n =? lrr) (rrtrs c) with
        | Some n =>
            let rtt := rtt_of ts dl n in
            mkRem (o_nack d) (o_fir d) (o_pli d)
                  (ri_recv d) (ri_lost d) (ri_jit d) (ri_rtt d) (ri_total d) (ri_frac d) (ri_meas d)
                  (ro_sent d) (ro_bytes d) (ro_ts d) (ro_reports d) rtt (ro_total d + rtt) (ro_meas d + 1)
        | None => d
        end
      else d
    end.

  Definition rec_xrblock (c : fbk) (ts : Z) (d : rem) (blk : xrblock) : rem :=
    match blk with
    | XDlrr l => fold_left (rec_dlrr1 c ts) l d
    | _ => d
    end.

  (* recordIncomingRTCP, one packet of the compound *)
  Definition rec_in_rtcp1 (b : outb) (c : fbk) (ts : Z) (d : rem) (p : rtcp) : rem :=
    if negb (mem ssrc (dest p)) then d else
    match p with
    | PNack _ m =>
        if m =? ssrc then
          mkRem (u32 (o_nack d + 1)) (o_fir d) (o_pli d)
                (ri_recv d) (ri_lost d) (ri_jit d) (ri_rtt d) (ri_total d) (ri_frac d) (ri_meas d)
                (ro_sent d) (ro_bytes d) (ro_ts d) (ro_reports d) (ro_rtt d) (ro_total d) (ro_meas d)
        else d
    | PFir _ _ _ =>
          mkRem (o_nack d) (u32 (o_fir d + 1)) (o_pli d)
                (ri_recv d) (ri_lost d) (ri_jit d) (ri_rtt d) (ri_total d) (ri_frac d) (ri_meas d)
                (ro_sent d) (ro_bytes d) (ro_ts d) (ro_reports d) (ro_rtt d) (ro_total d) (ro_meas d)
    | PPli _ m =>
        if m =? ssrc then
          mkRem (o_nack d) (o_fir d) (u32 (o_pli d + 1))
                (ri_recv d) (ri_lost d) (ri_jit d) (ri_rtt d) (ri_total d) (ri_frac d) (ri_meas d)
                (ro_sent d) (ro_bytes d) (ro_ts d) (ro_reports d) (ro_rtt d) (ro_total d) (ro_meas d)
        else d
    | PRR _ reps => fold_left (rec_rr1 b c ts) reps d
    | PSR _ ntp _ pc oc reps =>
        let d1 :=
          mkRem (o_nack d) (o_fir d) (o_pli d)
                (ri_recv d) (ri_lost d) (ri_jit d) (ri_rtt d) (ri_total d) (ri_frac d) (ri_meas d)
                pc oc (Some (to_time k_ntpfrac ntp)) (ro_reports d + 1) (ro_rtt d) (ro_total d) (ro_meas d) in
        fold_left (rec_rr1 b c ts) reps d1
    | PXR _ blocks => fold_left (rec_xrblock c ts) blocks d
    | POther _ => d
    end.

  Definition step (s : st) (e : event) : st :=
    match e with
    | InRTP ts ss seq rtpts hdr pay => mkSt (rec_in_rtp (sa s) ts ss seq rtpts hdr pay) (sb s) (sc s) (sd s)
    | OutRTP ts ss seq hdr pay => mkSt (sa s) (rec_out_rtp (sb s) ts ss seq hdr pay) (sc s) (sd s)
    | OutRTCP _ pkts => mkSt (sa s) (sb s) (fold_left rec_out_rtcp1 pkts (sc s)) (sd s)
    | InRTCP ts pkts => mkSt (sa s) (sb s) (sc s) (fold_left (rec_in_rtcp1 (sb s) (sc s) ts) pkts (sd s))
    end.

  (* state after a whole history; GetStats() reads the four groups *)
  Definition run (evs : list event) : st := fold_left step evs st0.

  (* states after every event (for the step-by-step correspondence) *)
  Fixpoint run_all (s : st) (evs : list event) : list st :=
    match evs with
    | [] => []
    | e :: tl => let s' := step s e in s' :: run_all s' tl
    end.
End Recorder.

(* the float type is inferred everywhere *)
Arguments mkInb {F}. Arguments uw {F}. Arguments in_init {F}. Arguments in_first {F}. Arguments in_high {F}.
Arguments arr_init {F}. Arguments arr_last {F}. Arguments arr_rtp {F}. Arguments arr_transit {F}.
Arguments i_recv {F}. Arguments i_lost {F}. Arguments i_jit {F}. Arguments i_last {F}. Arguments i_hdr {F}. Arguments i_bytes {F}.
Arguments mkRem {F}. Arguments o_nack {F}. Arguments o_fir {F}. Arguments o_pli {F}.
Arguments ri_recv {F}. Arguments ri_lost {F}. Arguments ri_jit {F}. Arguments ri_rtt {F}. Arguments ri_total {F}.
Arguments ri_frac {F}. Arguments ri_meas {F}. Arguments ro_sent {F}. Arguments ro_bytes {F}. Arguments ro_ts {F}.
Arguments ro_reports {F}. Arguments ro_rtt {F}. Arguments ro_total {F}. Arguments ro_meas {F}.
Arguments mkSt {F}. Arguments sa {F}. Arguments sb {F}. Arguments sc {F}. Arguments sd {F}.
Arguments inb0 {F}. Arguments rem0 {F}. Arguments st0 {F}.
Arguments rec_in_rtp {F}. Arguments rec_rr1 {F}. Arguments rec_dlrr1 {F}. Arguments rec_xrblock {F}.
Arguments rec_in_rtcp1 {F}. Arguments step {F}. Arguments run {F}. Arguments run_all {F}.
