(* C12 - size models: for every container an interceptor retains, the entry
   count (plus the cursor state that governs growth) and the effect of each
   operation on it, exactly as the code's add / evict / prune logic determines.
   Entry counts, not heap bytes.  No proofs in this file. *)
From IV Require Import Base.Word Model.Unwrapper.
Open Scope Z_scope.

(* ---------- helpers: lists of Z, association lists keyed by Z ---------- *)
Definition zlen {A} (l : list A) : Z := Z.of_nat (length l).
Definition memZ (x : Z) (l : list Z) : bool := existsb (Z.eqb x) l.
Fixpoint remove1 (x : Z) (l : list Z) : list Z :=
  match l with [] => [] | y :: t => if y =? x then t else y :: remove1 x t end.
Definition addset (x : Z) (l : list Z) : list Z := if memZ x l then l else x :: l.
Definition delset (x : Z) (l : list Z) : list Z := filter (fun y => negb (y =? x)) l.

Fixpoint aget {A} (k : Z) (l : list (Z * A)) : option A :=
  match l with [] => None | (k', v) :: t => if k' =? k then Some v else aget k t end.
Definition adel {A} (k : Z) (l : list (Z * A)) : list (Z * A) :=
  filter (fun p => negb (fst p =? k)) l.
Fixpoint aset {A} (k : Z) (v : A) (l : list (Z * A)) : list (Z * A) :=
  match l with
  | [] => [(k, v)]
  | (k', v') :: t => if k' =? k then (k, v) :: t else (k', v') :: aset k v t
  end.
Definition akeys {A} (l : list (Z * A)) : list Z := map fst l.

(* ====================================================================== *)
(* 1. Fixed-size bitmaps: pkg/nack/receive_log.go (packets = make([]uint64,
   size/64); add/get/missingSeqNumbers only set and clear bits) and
   pkg/report/receiver_stream.go (packets = make([]uint64, 128)). State = the
   slice length; every operation leaves it unchanged. *)
Definition rl_init (size : Z) : Z := size / 64.
Definition rl_step (words : Z) (_sq : Z) : Z := words.
Definition rs_init : Z := 128.
Definition rs_step (words : Z) (_sq : Z) : Z := words.

(* ====================================================================== *)
(* 2. internal/rtpbuffer/rtpbuffer.go RTPBuffer.Add: ring of `size` slots;
   rb_occ = the slots holding a packet. *)
Record rb := { rb_size : Z; rb_started : bool; rb_highest : Z; rb_occ : list Z }.
Definition rb_init (size : Z) : rb := {| rb_size := size; rb_started := false; rb_highest := 0; rb_occ := [] |}.
Definition rb_add (st : rb) (sq : Z) : rb :=
  let size := rb_size st in
  if negb (rb_started st) then
    {| rb_size := size; rb_started := true; rb_highest := sq; rb_occ := addset (sq mod size) (rb_occ st) |}
  else
    let diff := sub16 sq (rb_highest st) in
    if diff =? 0 then st
    else if diff <? 32768 then
      (* for i := highestAdded+1; i != seq; i++ { packets[i%size] = nil }: pointwise closed form of the
         loop (size divides 2^16, NewRTPBuffer): slot q is cleared iff q = (highest + k) mod size for
         some 1 <= k <= diff - 1 *)
      let occ1 := if diff =? 1 then rb_occ st
                  else filter (fun q => negb ((q - rb_highest st - 1) mod size <? diff - 1)) (rb_occ st) in
      {| rb_size := size; rb_started := true; rb_highest := sq; rb_occ := addset (sq mod size) occ1 |}
    else if sub16 (rb_highest st) sq >=? size then st  (* older than the window: released, not stored *)
    else {| rb_size := size; rb_started := true; rb_highest := rb_highest st;
            rb_occ := addset (sq mod size) (rb_occ st) |}.
Definition rb_sizes (st : rb) : list Z := [rb_size st; zlen (rb_occ st)].

(* ====================================================================== *)
(* 3. pkg/nack/generator_interceptor.go: receiveLogs (one per bound remote
   stream) and nackCountLogs (ssrc -> seq -> count). The tick body of loop()
   for one stream; `missing` is what receiveLog.missingSeqNumbers returned. *)
Inductive ng_op := NgBind (ssrc : Z) | NgUnbind (ssrc : Z) | NgTick (ssrc : Z) (missing : list Z).
Record ng := { ng_bound : list Z; ng_logs : list (Z * list (Z * Z)) }.
Definition ng_init : ng := {| ng_bound := []; ng_logs := [] |}.
Definition cnt (s : Z) (m : list (Z * Z)) : Z := match aget s m with Some v => v | None => 0 end.
Definition ng_count_step (max : Z) (acc : list (Z * Z) * Z) (s : Z) : list (Z * Z) * Z :=
  let '(m, c) := acc in
  let v := cnt s m in
  (aset s ((v + 1) mod 65536) m, if v <? max then c + 1 else c).
Definition ng_tick (max : Z) (st : ng) (ssrc : Z) (missing : list Z) : ng :=
  if negb (memZ ssrc (ng_bound st)) then st else
  let m0 := match aget ssrc (ng_logs st) with
            | Some m => match missing with [] => [] | _ => m end
            | None => [] end in
  match missing with
  | [] => {| ng_bound := ng_bound st; ng_logs := aset ssrc [] (ng_logs st) |}
  | _ =>
    let '(m1, c) := if max >? 0 then fold_left (ng_count_step max) missing (m0, 0) else (m0, 1) in
    if c =? 0 then {| ng_bound := ng_bound st; ng_logs := aset ssrc m1 (ng_logs st) |}   (* continue: no pruning *)
    else
      let m2 := filter (fun p => memZ (fst p) missing) m1 in
      match m2 with
      | [] => {| ng_bound := ng_bound st; ng_logs := adel ssrc (ng_logs st) |}
      | _ => {| ng_bound := ng_bound st; ng_logs := aset ssrc m2 (ng_logs st) |}
      end
  end.
Definition ng_step (max : Z) (st : ng) (o : ng_op) : ng :=
  match o with
  | NgBind s => {| ng_bound := addset s (ng_bound st); ng_logs := ng_logs st |}
  | NgUnbind s => {| ng_bound := delset s (ng_bound st); ng_logs := adel s (ng_logs st) |}
  | NgTick s missing => ng_tick max st s missing
  end.
Definition ng_inner (st : ng) : Z := fold_right (fun p a => zlen (snd p) + a) 0 (ng_logs st).
Definition ng_sizes (st : ng) : list Z := [zlen (ng_bound st); zlen (ng_logs st); ng_inner st].

(* ====================================================================== *)
(* 4. pkg/twcc/arrival_time_map.go: capacity of the ring (0 = not allocated),
   begin/end, and the received entries (needed by RemoveOldPackets). *)
Inductive am_op := AmAdd (sq t : Z) | AmErase (sq : Z) | AmRemoveOld (sq limit : Z).
Record am := { am_cap : Z; am_begin : Z; am_end : Z; am_times : list (Z * Z) }.
Definition am_init : am := {| am_cap := 0; am_begin := 0; am_end := 0; am_times := [] |}.
Fixpoint am_grow (fuel : nat) (c n : Z) : Z :=
  match fuel with O => c | S f => if c <? n then am_grow f (2 * c) n else c end.
Fixpoint am_shrink (fuel : nat) (c n : Z) : Z :=
  match fuel with O => c | S f => if c >=? 2 * Z.max n 128 then am_shrink f (c / 2) n else c end.
(* adjustToSize *)
Definition am_adjust (cap n : Z) : Z :=
  let c1 := if n >? cap then am_grow 64 cap n else cap in
  if c1 >? Z.max 128 (4 * n) then am_shrink 64 c1 n else c1.
Definition am_get (st : am) (s : Z) : Z :=
  if (s <? am_begin st) || (s >=? am_end st) then -1
  else match aget s (am_times st) with Some t => t | None => -1 end.
Definition am_norm (cap b e : Z) (times : list (Z * Z)) : am :=
  {| am_cap := cap; am_begin := b; am_end := e;
     am_times := filter (fun p => (b <=? fst p) && (fst p <? e)) times |}.
(* the same when begin is unchanged and every key is below e *)
Definition am_keep (cap b e : Z) (times : list (Z * Z)) : am :=
  {| am_cap := cap; am_begin := b; am_end := e; am_times := times |}.
Definition am_add (st : am) (s t : Z) : am :=
  let b := am_begin st in let e := am_end st in
  if am_cap st =? 0 then am_norm 128 s (s + 1) [(s, t)]
  else if (b <=? s) && (s <? e) then am_keep (am_cap st) b e (aset s t (am_times st))
  else if s <? b then
    let n := e - s in
    if n >? 32768 then st
    else am_norm (am_adjust (am_cap st) n) s e (aset s t (am_times st))
  else
    let ne := s + 1 in
    if ne >=? e + 32768 then am_norm (am_cap st) s ne [(s, t)]
    else
      if b <? ne - 32768 then
        let b' := ne - 32768 in am_norm (am_adjust (am_cap st) (ne - b')) b' ne (aset s t (am_times st))
      else am_keep (am_adjust (am_cap st) (ne - b)) b ne (aset s t (am_times st)).
Definition am_erase (st : am) (s : Z) : am :=
  if s <? am_begin st then st
  else if s >=? am_end st then am_norm (am_cap st) (am_end st) (am_end st) []
  else am_norm (am_adjust (am_cap st) (am_end st - s)) s (am_end st) (am_times st).
Fixpoint am_skip (fuel : nat) (st : am) (b checkTo limit : Z) : Z :=
  match fuel with
  | O => b
  | S f => if (b <? checkTo) &&
              ((match aget b (am_times st) with Some t => t | None => -1 end) <=? limit)
           then am_skip f st (b + 1) checkTo limit else b
  end.
Definition am_remove_old (st : am) (s limit : Z) : am :=
  let checkTo := Z.min s (am_end st) in
  let b' := am_skip (Z.to_nat (checkTo - am_begin st)) st (am_begin st) checkTo limit in
  am_norm (am_adjust (am_cap st) (am_end st - b')) b' (am_end st) (am_times st).
Definition am_step (st : am) (o : am_op) : am :=
  match o with
  | AmAdd s t => am_add st s t
  | AmErase s => am_erase st s
  | AmRemoveOld s l => am_remove_old st s l
  end.
Definition am_sizes (st : am) : list Z := [am_cap st; am_begin st; am_end st].

(* ====================================================================== *)
(* 5. internal/cc/feedback_adapter.go feedbackHistory.add: LRU of `cap` keys
   (evictList and items hold the same keys); key = ssrc * 65536 + seq. *)
Definition lru_add (cap : Z) (l : list Z) (key : Z) : list Z :=
  if memZ key l then key :: remove1 key l          (* MoveToFront *)
  else let l' := key :: l in                       (* PushFront *)
       if zlen l' >? cap then removelast l' else l'. (* removeOldest *)
Definition lru_sizes (l : list Z) : list Z := [zlen l; zlen l].

(* ====================================================================== *)
(* 6. pkg/rfc8888/stream_log.go: log map keys, report cursor, highest. *)
Inductive sl_op := SlAdd (sq : Z) | SlReport (maxBlocks : Z).
Record sl := { sl_uw : option Z; sl_init : bool; sl_next : Z; sl_last : Z; sl_keys : list Z }.
Definition sl_init_st : sl := {| sl_uw := None; sl_init := false; sl_next := 0; sl_last := 0; sl_keys := [] |}.
Definition sl_add (st : sl) (sq : Z) : sl :=
  let '(uw, u) := unwrap (sl_uw st) sq in
  let next := if sl_init st then sl_next st else u in
  if u <? next then {| sl_uw := uw; sl_init := true; sl_next := next; sl_last := sl_last st; sl_keys := sl_keys st |}
  else {| sl_uw := uw; sl_init := true; sl_next := next;
          sl_last := if sl_last st <? u then u else sl_last st; sl_keys := addset u (sl_keys st) |}.
(* the reporting loop deletes the contiguous received run starting at the cursor *)
Fixpoint sl_advance (fuel : nat) (next : Z) (keys : list Z) : Z * list Z :=
  match fuel with
  | O => (next, keys)
  | S f => if memZ next keys then sl_advance f (next + 1) (delset next keys) else (next, keys)
  end.
Definition sl_report (st : sl) (maxBlocks : Z) : sl :=
  match sl_keys st with
  | [] => st
  | _ =>
    let num := sl_last st - sl_next st + 1 in
    let '(next1, keys1) :=
      if num >? maxBlocks then
        let nn := sl_last st - maxBlocks + 1 in (nn, filter (fun k => negb (k <? nn)) (sl_keys st))
      else (sl_next st, sl_keys st) in
    let '(next2, keys2) := sl_advance (S (length keys1)) next1 keys1 in
    {| sl_uw := sl_uw st; sl_init := sl_init st; sl_next := next2; sl_last := sl_last st; sl_keys := keys2 |}
  end.
Definition sl_step (st : sl) (o : sl_op) : sl :=
  match o with SlAdd s => sl_add st s | SlReport m => sl_report st m end.
Definition sl_sizes (st : sl) : list Z := [zlen (sl_keys st)].

(* ====================================================================== *)
(* 7. pkg/stats/stats_recorder.go recordOutgoingRTCP: lastSenderReports and
   lastReceiverReferenceTimes keep the last `maxLast` (5) values; and
   pkg/stats/interceptor.go: recorders map (getRecorder adds; Unbind{Local,Remote}Stream ->
   releaseRecorder deletes the entry, fix 0d520bf). si_step_prefix is the code before that
   fix (NoOp.Unbind*Stream: the recorder stayed, F38). *)
Inductive sr_op := SrSenderReport | SrXR (rrtrBlocks : Z).
Definition sr_push (maxLast n : Z) : Z := if n + 1 >? maxLast then maxLast else n + 1.
Definition sr_step (maxLast : Z) (st : Z * Z) (o : sr_op) : Z * Z :=
  match o with
  | SrSenderReport => (sr_push maxLast (fst st), snd st)
  | SrXR k => (fst st, fold_left (fun n _ => sr_push maxLast n) (seq 0 (Z.to_nat k)) (snd st))
  end.
Definition sr_sizes (st : Z * Z) : list Z := [fst st; snd st].

Inductive si_op := SiBind (ssrc : Z) | SiUnbind (ssrc : Z).
Record si := { si_bound : list Z; si_recorders : list Z }.
Definition si_init : si := {| si_bound := []; si_recorders := [] |}.
Definition si_step (st : si) (o : si_op) : si :=
  match o with
  | SiBind s => {| si_bound := addset s (si_bound st); si_recorders := addset s (si_recorders st) |}
  | SiUnbind s => {| si_bound := delset s (si_bound st);
                     si_recorders := delset s (si_recorders st) |} (* releaseRecorder: delete(r.recorders, ssrc) *)
  end.
Definition si_step_prefix (st : si) (o : si_op) : si :=
  match o with
  | SiBind s => {| si_bound := addset s (si_bound st); si_recorders := addset s (si_recorders st) |}
  | SiUnbind s => {| si_bound := delset s (si_bound st); si_recorders := si_recorders st |} (* NoOp.Unbind*Stream *)
  end.
Definition si_sizes (st : si) : list Z := [zlen (si_recorders st)].

(* ====================================================================== *)
(* 8. pkg/jitterbuffer/receiver_interceptor.go: the reader pushes every
   packet and, once emitting, pops at the playout head. jb_q = priorities of
   the nodes linked into the queue. *)
Inductive jb_op := JbRead (sq : Z) | JbUnbind.
Record jb := { jb_q : list Z; jb_emitting : bool; jb_ready : bool; jb_head : Z; jb_min : Z }.
Definition jb_init : jb := {| jb_q := []; jb_emitting := false; jb_ready := false; jb_head := 0; jb_min := 50 |}.
Definition jb_read (st : jb) (s : Z) : jb :=
  (* JitterBuffer.Push *)
  let head := if negb (jb_ready st) && (zlen (jb_q st) =? 0) then s else jb_head st in
  let q1 := s :: jb_q st in
  let start := (zlen q1 >=? jb_min st) && negb (jb_emitting st) in   (* updateState *)
  let em := jb_emitting st || start in
  let ready := jb_ready st || start in
  if em then
    (* JitterBuffer.Pop: PopAt(playoutHead); on ErrNotFound nothing changes *)
    if memZ head q1 then {| jb_q := remove1 head q1; jb_emitting := em; jb_ready := ready;
                            jb_head := add16 head 1; jb_min := jb_min st |}
    else {| jb_q := q1; jb_emitting := em; jb_ready := ready; jb_head := head; jb_min := jb_min st |}
  else {| jb_q := q1; jb_emitting := em; jb_ready := ready; jb_head := head; jb_min := jb_min st |}.
Definition jb_step (st : jb) (o : jb_op) : jb :=
  match o with
  | JbRead s => jb_read st s
  | JbUnbind => {| jb_q := []; jb_emitting := false; jb_ready := false; jb_head := jb_head st; jb_min := 50 |}
  end.
Definition jb_sizes (st : jb) : list Z := [zlen (jb_q st)].

(* ====================================================================== *)
(* 9. pkg/flexfec/encoder_interceptor.go: streams map, packetBuffer per stream. *)
Inductive ff_op := FfBind (ssrc : Z) | FfUnbind (ssrc : Z) | FfWrite (ssrc : Z).
Definition ff_step (numMedia : Z) (st : list (Z * Z)) (o : ff_op) : list (Z * Z) :=
  match o with
  | FfBind s => aset s 0 st
  | FfUnbind s => adel s st
  | FfWrite s => match aget s st with
                 | Some b => aset s (if b + 1 =? numMedia then 0 else b + 1) st
                 | None => st
                 end
  end.
Definition ff_sizes (st : list (Z * Z)) : list Z := [zlen st; fold_right (fun p a => snd p + a) 0 st].

(* ====================================================================== *)
(* 10. pkg/gcc/rate_calculator.go run(): history of arrival times (loop-local). *)
Fixpoint rc_drop (deadline : Z) (h : list Z) : list Z :=
  match h with [] => [] | a :: t => if a <? deadline then rc_drop deadline t else h end.
Definition rc_step (window : Z) (st : bool * list Z) (arrival : Z) : bool * list Z :=
  let '(init, h) := st in
  let h1 := h ++ [arrival] in
  if negb init then (true, h1) else (true, rc_drop (arrival - window) h1).
Definition rc_sizes (st : bool * list Z) : list Z := [zlen (snd st)].

(* ====================================================================== *)
(* 11. FIFO queues without an admission limit: pkg/gcc/leaky_bucket_pacer.go
   (queue list) and pkg/pacing/interceptor.go (hand-off channel + loop-local
   slice). Enq always succeeds; a tick releases what the budget allows. *)
Inductive fq_op := FqEnq | FqRelease (k : Z).
Definition fq_step (n : Z) (o : fq_op) : Z :=
  match o with FqEnq => n + 1 | FqRelease k => n - Z.min n (Z.max k 0) end.

(* ====================================================================== *)
(* 12. pkg/rtpfb/history.go: packets (counter -> record), twccToCounter,
   ssrcSeqNrToCounter, with delete() removing the packet record as well; an
   index entry is dropped only while it still points to the deleted packet
   (fix 36b0b1f: a sequence number re-used by a later packet keeps its entry);
   h_acked = history.acked (highestAcked is valid). *)
Inductive h_op := HAdd (ssrc sq : Z) (isTw : bool) (tw : Z)
                | HAckTw (tw : Z) (arrived : bool) | HAckSs (ssrc sq : Z) (arrived : bool) | HReport.
Record hpkt := { hp_key : Z; hp_tw : Z; hp_isTw : bool }.
Record hist := { h_counter : Z; h_packets : list (Z * hpkt); h_tw : list (Z * Z); h_ss : list (Z * Z);
                 h_hi : Z; h_acked : bool; h_next : Z; h_clean : Z }.
Definition h_init : hist := {| h_counter := 0; h_packets := []; h_tw := []; h_ss := []; h_hi := 0; h_acked := false;
                               h_next := 0; h_clean := 0 |}.
Definition sskey (ssrc sq : Z) : Z := ssrc * 65536 + sq.
Definition h_add (recordIsTw : bool) (st : hist) (ssrc sq : Z) (isTw : bool) (tw : Z) : hist :=
  let c := h_counter st in
  {| h_counter := c + 1;
     h_packets := aset c {| hp_key := sskey ssrc sq; hp_tw := tw; hp_isTw := recordIsTw && isTw |} (h_packets st);
     h_tw := if isTw then aset tw c (h_tw st) else h_tw st;
     h_ss := if isTw then h_ss st else aset (sskey ssrc sq) c (h_ss st);
     h_hi := h_hi st; h_acked := h_acked st; h_next := h_next st; h_clean := h_clean st |}.
Definition h_on_feedback (st : hist) (c : Z) (arrived : bool) : hist :=
  match aget c (h_packets st) with
  | None => st
  | Some _ => if arrived && (negb (h_acked st) || (h_hi st <? c)) then
      {| h_counter := h_counter st; h_packets := h_packets st; h_tw := h_tw st; h_ss := h_ss st;
         h_hi := c; h_acked := true; h_next := h_next st; h_clean := h_clean st |} else st
  end.
(* the index entry of key k is dropped iff it points to counter c *)
Definition idx_del (k c : Z) (idx : list (Z * Z)) : list (Z * Z) :=
  match aget k idx with Some c' => if c' =? c then adel k idx else idx | None => idx end.
(* delete(p) *)
Definition h_delete (st : hist) (c : Z) (p : hpkt) : hist :=
  {| h_counter := h_counter st; h_packets := adel c (h_packets st);
     h_tw := if hp_isTw p then idx_del (hp_tw p) c (h_tw st) else h_tw st;
     h_ss := idx_del (hp_key p) c (h_ss st);
     h_hi := h_hi st; h_acked := h_acked st; h_next := h_next st; h_clean := h_clean st |}.
Definition h_set_next (st : hist) (n : Z) : hist :=
  {| h_counter := h_counter st; h_packets := h_packets st; h_tw := h_tw st; h_ss := h_ss st;
     h_hi := h_hi st; h_acked := h_acked st; h_next := n; h_clean := h_clean st |}.
Definition h_set_clean (st : hist) (n : Z) : hist :=
  {| h_counter := h_counter st; h_packets := h_packets st; h_tw := h_tw st; h_ss := h_ss st;
     h_hi := h_hi st; h_acked := h_acked st; h_next := h_next st; h_clean := n |}.
Definition h_report_one (st : hist) (i : Z) : hist :=
  match aget i (h_packets st) with
  | None => st
  | Some p => let st1 := h_delete st i p in if i >=? h_next st1 then h_set_next st1 (i + 1) else st1
  end.
Definition h_clean_one (st : hist) (i : Z) : hist :=
  match aget i (h_packets st) with None => st | Some p => h_delete st i p end.
Definition h_report (st : hist) : hist :=
  if negb (h_acked st) || (h_next st >? h_hi st) then st else
  let st1 := fold_left h_report_one (zrange (h_next st) (Z.to_nat (h_hi st - h_next st + 1))) st in
  let st2 := fold_left h_clean_one (zrange (h_clean st1) (Z.to_nat (h_next st1 - h_clean st1))) st1 in
  h_set_clean st2 ((h_next st2 - 1) mod 18446744073709551616).
Definition h_step (recordIsTw : bool) (st : hist) (o : h_op) : hist :=
  match o with
  | HAdd ssrc sq isTw tw => h_add recordIsTw st ssrc sq isTw tw
  | HAckTw tw arrived => match aget tw (h_tw st) with Some c => h_on_feedback st c arrived | None => st end
  | HAckSs ssrc sq arrived => match aget (sskey ssrc sq) (h_ss st) with Some c => h_on_feedback st c arrived | None => st end
  | HReport => h_report st
  end.
Definition h_sizes (st : hist) : list Z := [zlen (h_packets st); zlen (h_tw st); zlen (h_ss st)].
