(* C16, round-5 strengthening: construction of the estimator (NewSendSideBWE, pkg/gcc/send_side_bwe.go)
   and the bookkeeping of the leaky bucket pacer's rate (pkg/gcc/leaky_bucket_pacer.go).

     Go                                                         here
     send := &SendSideBWE{latestBitrate: latestBitrate (10_000),
        minBitrate: minBitrate (5_000), maxBitrate: 50_000_000,
        pacer: nil}                                              cdefault
     for _, opt := range opts { opt(send) }                      cbuild = fold_left capply
        SendSideBWEInitialBitrate(r): e.latestBitrate = r        OInit r
        SendSideBWEMinBitrate(r):     e.minBitrate = r           OMin r
        SendSideBWEMaxBitrate(r):     e.maxBitrate = r           OMax r
        SendSideBWEPacer(p):          e.pacer = p                OPacer  (p itself is the caller's)
        WithLoggerFactory(f):         e.loggerFactory = f        OLogger (no effect on the rates)
     if send.pacer == nil {
        send.pacer = newLeakyBucketPacer(send.latestBitrate, _)} n_pacer_told = Some (c_latest c)
     send.lossController = newLossBasedBWE(send.latestBitrate)   n_loss
     send.delayController = newDelayController{initialBitrate:
        send.latestBitrate, minBitrate, maxBitrate}              n_delay, n_min, n_max
     GetTargetBitrate() right after construction                 n_getter

   [src] says which value the default pacer is constructed with: the field the options wrote
   (the code) or the package constant of the same name (the other reading of the identifier). *)
From IV Require Import Base.Word Model.GccDecision.

Inductive copt :=
| OInit (r : Z)
| OMin (r : Z)
| OMax (r : Z)
| OPacer
| OLogger.

Record ccfg := mkC { c_latest : Z; c_min : Z; c_max : Z; c_user_pacer : bool }.

Definition DEFAULT_LATEST : Z := 10000.
Definition DEFAULT_MIN : Z := 5000.
Definition DEFAULT_MAX : Z := 50000000.

Definition cdefault : ccfg := mkC DEFAULT_LATEST DEFAULT_MIN DEFAULT_MAX false.

Definition capply (c : ccfg) (o : copt) : ccfg :=
  match o with
  | OInit r => mkC r (c_min c) (c_max c) (c_user_pacer c)
  | OMin r => mkC (c_latest c) r (c_max c) (c_user_pacer c)
  | OMax r => mkC (c_latest c) (c_min c) r (c_user_pacer c)
  | OPacer => mkC (c_latest c) (c_min c) (c_max c) true
  | OLogger => c
  end.

Definition cbuild (opts : list copt) : ccfg := fold_left capply opts cdefault.

Inductive ctor_src := FromField | FromConst.

Record cnew := mkN {
  n_getter : Z;                (* GetTargetBitrate() *)
  n_pacer_told : option Z;     (* rate the default pacer is constructed with; None: the caller's pacer is used *)
  n_loss : Z;                  (* lossController.bitrate *)
  n_delay : Z;                 (* rateController.target *)
  n_min : Z; n_max : Z         (* bounds handed to the delay controller *)
}.

Definition cnew_of (src : ctor_src) (opts : list copt) : cnew :=
  let c := cbuild opts in
  mkN (c_latest c)
      (if c_user_pacer c then None
       else Some (match src with FromField => c_latest c | FromConst => DEFAULT_LATEST end))
      (c_latest c) (c_latest c) (c_min c) (c_max c).

(* LeakyBucketPacer: newLeakyBucketPacer(initialBitrate) stores targetBitrate = initialBitrate;
   SetTargetBitrate(rate) stores int(p.f * float64(rate)) with p.f = 1.5 (exact for 0 <= rate < 2^51). *)
Definition lb_set (r : Z) : Z := (3 * r) / 2.

(* targetBitrate of a leaky bucket pacer constructed with [told0] after the SetTargetBitrate calls [log] *)
Definition lb_target (told0 : Z) (log : list Z) : Z :=
  match rev log with
  | [] => told0
  | r :: _ => lb_set r
  end.

(* the rate the pacer was last told: at construction, then by every SetTargetBitrate *)
Definition told_last (told0 : Z) (log : list Z) : Z := last log told0.

(* the estimator built from [opts], driven by [ops] (the decision layer of Model/GccDecision.v) *)
Definition crun (opts : list copt) (ops : list gop) : gst :=
  let c := cbuild opts in grun (c_min c) (c_max c) true (ginit (c_latest c)) ops.

(* per-step (getter, leaky bucket targetBitrate) for a pacer constructed with [told0] *)
Fixpoint ctrace (cmin cmax : Z) (told0 : Z) (s : gst) (ops : list gop) : list (Z * Z) :=
  match ops with
  | [] => []
  | o :: tl => let s' := gstep cmin cmax true s o in
               (g_latest s', lb_target told0 (g_pacer s')) :: ctrace cmin cmax told0 s' tl
  end.
