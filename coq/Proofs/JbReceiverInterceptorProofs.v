(* C18, deepening round, part 3: the receiver interceptor on top of the jitter
   buffer.  What the interceptor hands to the application is the pushed packets
   in sequence order, each at most once. *)
From IV Require Import Base.Word Model.PriorityQueue Model.JitterBuffer Model.JbReceiverInterceptor
  Proofs.PriorityQueueProofs Proofs.JitterBufferProofs Proofs.JitterBufferMore
  Check.C18Check Check.C18bCheck.
From Coq Require Import ZifyBool PeanoNat.
Ltac Zify.zify_post_hook ::= Z.div_mod_to_equations.

(* ---- what the interceptor oracle means ---- *)
(* the specification of one reader / unbind call, in terms of the jitter-buffer
   specification [spec_step] *)
Inductive ri_spec (t : sp) : rin -> rout -> sp -> Prop :=
(* errors of the upstream reader and of the parser are handed through; nothing is buffered *)
| RS_err : ri_spec t IErr DUpErr t
| RS_bad : ri_spec t IBad DBad t
(* Unbind/Close is Clear(true) *)
| RS_unbind t' : spec_step t (OClear true) RUnit t' -> ri_spec t IUnbind DUnit t'
(* a parsed packet is pushed; while playback has not started the answer is ErrPopWhileBuffering *)
| RS_buffering sq ts t1 : spec_step t (OPush sq ts) RUnit t1 -> sstarted t1 = false ->
    ri_spec t (IPkt sq ts) (DErr ErrPopWhileBuffering) t1
(* once started, the answer is the answer of Pop(): the packet at the head ... *)
| RS_deliver sq ts t1 id sq' ts' t2 : spec_step t (OPush sq ts) RUnit t1 -> sstarted t1 = true ->
    spec_step t1 OPop (RPkt id sq' ts') t2 -> ri_spec t (IPkt sq ts) (DPkt id sq' ts') t2
(* ... or its error *)
| RS_miss sq ts t1 e t2 : spec_step t (OPush sq ts) RUnit t1 -> sstarted t1 = true ->
    spec_step t1 OPop (RErr e) t2 -> ri_spec t (IPkt sq ts) (DErr e) t2.

Theorem ri_spec_step_iff t i d t' : ri_spec_step t i d = inl t' <-> ri_spec t i d t'.
Proof.
  split.
  - destruct i.
    + (* packet *)
      destruct (sp_step t (OPush sq ts) RUnit) as [t1|c] eqn:E1;
        [|destruct d; cbn [ri_spec_step]; rewrite ?E1; discriminate].
      apply sp_step_iff in E1 as S1. destruct (sstarted t1) eqn:Es.
      * destruct d; cbn [ri_spec_step]; rewrite ?E1, ?Es; try discriminate; intros H; apply sp_step_iff in H.
        -- eapply RS_deliver; eauto.
        -- eapply RS_miss; eauto.
      * destruct d; cbn [ri_spec_step]; rewrite ?E1, ?Es; try discriminate.
        destruct (e =? ErrPopWhileBuffering) eqn:Ee; [|discriminate]. intros H. inversion H; subst.
        assert (e = ErrPopWhileBuffering) as -> by (unfold ErrPopWhileBuffering in *; lia).
        eapply RS_buffering; eauto.
    + destruct d; cbn [ri_spec_step]; try discriminate. intros H. inversion H; subst. constructor.
    + destruct d; cbn [ri_spec_step]; try discriminate. intros H. inversion H; subst. constructor.
    + destruct d; try (cbn [ri_spec_step]; discriminate). intros H.
      change (sp_step t (OClear true) RUnit = inl t') in H. apply sp_step_iff in H. constructor. exact H.
  - intros H. destruct H; try reflexivity.
    + apply sp_step_iff in H. exact H.
    + apply sp_step_iff in H. cbn [ri_spec_step]. rewrite H, H0. reflexivity.
    + apply sp_step_iff in H. apply sp_step_iff in H1. cbn [ri_spec_step]. rewrite H, H0. exact H1.
    + apply sp_step_iff in H. apply sp_step_iff in H1. cbn [ri_spec_step]. rewrite H, H0. exact H1.
Qed.

(* ---- pointer-level interceptor = list-level interceptor ---- *)
Lemma ri_step_sim s a i : RJ s a ->
  snd (fst (ri_step ptr_ops s i)) = snd (fst (ri_step list_ops a i)) /\
  snd (ri_step ptr_ops s i) = snd (ri_step list_ops a i) /\
  RJ (fst (fst (ri_step ptr_ops s i))) (fst (fst (ri_step list_ops a i))).
Proof.
  intros H. destruct i; unfold ri_step; try (cbn [fst snd]; tauto).
  - pose proof (jb_step_sim s a (OPush sq ts) H) as Hs.
    destruct (jb_step ptr_ops s (OPush sq ts)) as [[s1 r1] ev1].
    destruct (jb_step list_ops a (OPush sq ts)) as [[a1 r1'] ev1'].
    destruct Hs as (-> & _ & HR1 & _).
    destruct r1'; try (cbn [fst snd]; tauto).
    assert (He : jemit s1 = jemit a1) by (destruct HR1 as (_ & _ & _ & _ & _ & _ & He & _); exact He).
    rewrite He. destruct (jemit a1); [|cbn [fst snd]; tauto].
    pose proof (jb_step_sim s1 a1 OPop HR1) as Hs2.
    destruct (jb_step ptr_ops s1 OPop) as [[s2 r2] ev2].
    destruct (jb_step list_ops a1 OPop) as [[a2 r2'] ev2'].
    destruct Hs2 as (-> & _ & HR2 & _). cbn [fst snd]. tauto.
  - pose proof (jb_step_sim s a (OClear true) H) as Hs.
    destruct (jb_step ptr_ops s (OClear true)) as [[s1 r1] ev1].
    destruct (jb_step list_ops a (OClear true)) as [[a1 r1'] ev1'].
    destruct Hs as (-> & _ & HR1 & _). cbn [fst snd]. tauto.
Qed.

Lemma ri_steps_sim : forall ins s a, RJ s a -> ri_steps ptr_ops s ins = ri_steps list_ops a ins.
Proof.
  induction ins as [|i ins IH]; intros s a H; [reflexivity|].
  cbn [ri_steps]. destruct (ri_step_sim s a i H) as (Hd & Ht & HR).
  destruct (ri_step ptr_ops s i) as [[s' d] tr]. destruct (ri_step list_ops a i) as [[a' d'] tr'].
  cbn [fst snd] in *. subst. destruct d'; try reflexivity; f_equal; apply IH; exact HR.
Qed.

(* ---- the list-level interceptor meets the specification ---- *)
Definition seq_of (x : Z * Z * Z) : Z := snd (fst x).
Definition id_of (x : Z * Z * Z) : Z := fst (fst x).

Lemma ajb_push_unit a sq ts : snd (fst (jb_step list_ops a (OPush sq ts))) = RUnit.
Proof.
  unfold jb_step. cbn [o_len o_push list_ops].
  destruct (aq_len (jpackets a) >? joverflow a); unfold update_state;
    match goal with |- context [if ?c then _ else _] => destruct c end; reflexivity.
Qed.

Lemma ajb_clear_unit a b : snd (fst (jb_step list_ops a (OClear b))) = RUnit.
Proof. unfold jb_step. cbn [o_clear list_ops]. destruct b; reflexivity. Qed.

Lemma ari_step_spec a t i : Inv a t ->
  exists t', ri_spec_step t i (snd (fst (ri_step list_ops a i))) = inl t' /\
             Inv (fst (fst (ri_step list_ops a i))) t' /\
             Steps t (snd (ri_step list_ops a i)) t' /\
             map seq_of (delivered [snd (fst (ri_step list_ops a i))]) = heads (snd (ri_step list_ops a i)) /\
             map id_of (delivered [snd (fst (ri_step list_ops a i))]) = popids (snd (ri_step list_ops a i)).
Proof.
  intros HI. destruct i; unfold ri_step.
  - (* a packet *)
    destruct (ajb_step_spec a t (OPush sq ts) HI) as (t1 & E1 & HI1).
    pose proof (ajb_push_unit a sq ts) as Hu.
    destruct (jb_step list_ops a (OPush sq ts)) as [[a1 r1] ev1]. cbn [fst snd] in *. subst r1.
    assert (He : jemit a1 = sstarted t1).
    { destruct HI1 as (P & _ & _ & _ & _ & _ & _ & He & _). exact He. }
    rewrite He. destruct (sstarted t1) eqn:Est.
    + destruct (ajb_step_spec a1 t1 OPop HI1) as (t2 & E2 & HI2).
      destruct (jb_step list_ops a1 OPop) as [[a2 r2] ev2]. cbn [fst snd] in *.
      assert (HS : Steps t [(OPush sq ts, RUnit); (OPop, r2)] t2).
      { econstructor; [apply sp_step_iff; exact E1|]. econstructor; [apply sp_step_iff; exact E2|constructor]. }
      destruct r2; try (exfalso; cbn [sp_step] in E2; unfold check_pop in E2; rewrite Est in E2; discriminate).
      * exists t2. cbn [ri_spec_step]. rewrite E1, Est. repeat split; auto.
      * exists t2. cbn [ri_spec_step]. rewrite E1, Est. repeat split; auto.
    + exists t1. cbn [fst snd ri_spec_step]. rewrite E1, Est. cbn. repeat split; auto.
      econstructor; [apply sp_step_iff; exact E1|constructor].
  - exists t. cbn. repeat split; auto. constructor.
  - exists t. cbn. repeat split; auto. constructor.
  - destruct (ajb_step_spec a t (OClear true) HI) as (t1 & E1 & HI1).
    pose proof (ajb_clear_unit a true) as Hu.
    destruct (jb_step list_ops a (OClear true)) as [[a1 r1] ev1]. cbn [fst snd] in *. subst r1.
    exists t1. cbn [ri_spec_step]. repeat split; auto.
    econstructor; [apply sp_step_iff; exact E1|constructor].
Qed.

Lemma ri_spec_step_bad t i :
  (exists c, ri_spec_step t i DPanic = inr c) /\ (exists c, ri_spec_step t i DDiverge = inr c).
Proof. split; eexists; reflexivity. Qed.

Lemma delivered_cons d outs : delivered (d :: outs) = delivered [d] ++ delivered outs.
Proof. destruct d; reflexivity. Qed.

Lemma heads_app a b : heads (a ++ b) = heads a ++ heads b.
Proof.
  induction a as [|[o r] a IH]; [reflexivity|]. cbn [app heads]. destruct o; try exact IH.
  destruct r; try exact IH. cbn [app]. f_equal. exact IH.
Qed.

Lemma popids_app a b : popids (a ++ b) = popids a ++ popids b.
Proof.
  induction a as [|[o r] a IH]; [reflexivity|]. cbn [app popids]. destruct r; try exact IH.
  destruct (is_popb o); [cbn [app]; f_equal|]; exact IH.
Qed.

Theorem ari_steps_spec : forall ins a t, Inv a t ->
  ri_spec_run t ins (ri_run list_ops a ins) = 0%nat /\
  (exists t', Steps t (ri_jbtrace list_ops a ins) t') /\
  map seq_of (delivered (ri_run list_ops a ins)) = heads (ri_jbtrace list_ops a ins) /\
  map id_of (delivered (ri_run list_ops a ins)) = popids (ri_jbtrace list_ops a ins) /\
  Forall (fun d => d <> DPanic /\ d <> DDiverge) (ri_run list_ops a ins).
Proof.
  induction ins as [|i ins IH]; intros a t HI.
  - cbn. repeat split; auto. eexists; constructor.
  - unfold ri_run, ri_jbtrace. cbn [ri_steps].
    destruct (ari_step_spec a t i HI) as (t1 & E & HI1 & HS & Hh & Hp).
    destruct (ri_step list_ops a i) as [[a1 d] tr]. cbn [fst snd] in *.
    destruct (ri_spec_step_bad t i) as [[c1 B1] [c2 B2]].
    destruct (IH a1 t1 HI1) as (R1 & (t2 & R2) & R3 & R4 & R5).
    unfold ri_run, ri_jbtrace in *.
    destruct d; try congruence;
      cbn [map fst snd concat ri_spec_run]; rewrite E;
      (split; [exact R1|]);
      (split; [exists t2; apply Steps_app; eauto|]);
      rewrite delivered_cons, !map_app, heads_app, popids_app, Hh, Hp, R3, R4;
      (split; [reflexivity|]); (split; [reflexivity|]);
      (constructor; [split; discriminate|exact R5]).
Qed.

(* ---- the theorems about the interceptor over the pointer-level queue ---- *)
Lemma Inv_default : Inv (ajb_new default_min) (sp_new default_min).
Proof. apply Inv_new. unfold default_min. lia. Qed.

Lemma cri_steps_eq ins : ri_steps ptr_ops (cjb_new default_min) ins = ri_steps list_ops (ajb_new default_min) ins.
Proof. apply ri_steps_sim. apply RJ_new. Qed.

(* every run of the interceptor satisfies the specification oracle that the
   correspondence check applies to the implementation *)
Theorem cri_meets_spec ins : ri_spec_code (ins, cri_run ins) = 0%nat.
Proof.
  unfold ri_spec_code, cri_run, ri_run. rewrite cri_steps_eq. cbn [fst snd].
  apply (ari_steps_spec ins _ _ Inv_default).
Qed.

(* no read, unbind or close panics or blocks *)
Theorem cri_no_panic ins : Forall (fun d => d <> DPanic /\ d <> DDiverge) (cri_run ins).
Proof.
  unfold cri_run, ri_run. rewrite cri_steps_eq. apply (ari_steps_spec ins _ _ Inv_default).
Qed.

(* the jitter-buffer calls the interceptor makes form an accepted history of
   the jitter buffer: all the history theorems of JitterBufferMore.v apply *)
Theorem cri_trace_accepted ins : exists t', Steps (sp_new default_min) (cri_jbtrace ins) t'.
Proof.
  unfold cri_jbtrace, ri_jbtrace. rewrite cri_steps_eq. apply (ari_steps_spec ins _ _ Inv_default).
Qed.

(* what reaches the application is exactly what the buffer's Pop() returned *)
Theorem cri_delivered_is_popped ins :
  map seq_of (delivered (cri_run ins)) = heads (cri_jbtrace ins) /\
  map id_of (delivered (cri_run ins)) = popids (cri_jbtrace ins).
Proof.
  unfold cri_run, cri_jbtrace, ri_run, ri_jbtrace. rewrite cri_steps_eq.
  destruct (ari_steps_spec ins _ _ Inv_default) as (_ & _ & H1 & H2 & _). split; assumption.
Qed.

(* at most once: no packet object is handed to the application twice *)
Theorem cri_at_most_once ins : NoDup (map id_of (delivered (cri_run ins))).
Proof.
  destruct (cri_delivered_is_popped ins) as [_ ->]. destruct (cri_trace_accepted ins) as (t' & HS).
  eapply hist_at_most_once. exact HS.
Qed.

(* identity: a delivered object is the very packet read earlier with that
   sequence number and timestamp (its id is its position among the parsed
   packets = pushes), with no Unbind/Close in between *)
Theorem cri_delivers_pushed_objects ins tr1 id sq ts tr2 :
  cri_jbtrace ins = tr1 ++ (OPop, RPkt id sq ts) :: tr2 ->
  exists after, pushed_as tr1 id sq ts after /\ none_of is_clearb after /\ ~ popped tr1 id.
Proof.
  intros E. destruct (cri_trace_accepted ins) as (t' & HS). rewrite E in HS. eapply hist_objects. exact HS.
Qed.

(* which jitter-buffer calls the interceptor makes *)
Definition is_unbindb (i : rin) : bool := match i with IUnbind => true | _ => false end.

Lemma ri_step_ops {Q} (O : pq_ops Q) s i : is_unbindb i = false ->
  none_of is_setheadb (snd (ri_step O s i)) /\ none_of is_clearb (snd (ri_step O s i)) /\
  none_of is_popatseqb (snd (ri_step O s i)).
Proof.
  intros Hu. destruct i; try discriminate; unfold ri_step.
  - destruct (jb_step O s (OPush sq ts)) as [[s1 r1] ev1].
    assert (H1 : forall f, f (OPush sq ts) = false -> none_of f [(OPush sq ts, r1)]).
    { intros f Hf. apply none_of_cons. split; [exact Hf|apply none_of_nil]. }
    destruct r1; try (cbn [snd]; repeat split; apply H1; reflexivity).
    destruct (jemit s1); [|cbn [snd]; repeat split; apply H1; reflexivity].
    destruct (jb_step O s1 OPop) as [[s2 r2] ev2]. cbn [snd].
    repeat split; apply none_of_cons; (split; [reflexivity|]); apply none_of_cons; (split; [reflexivity|apply none_of_nil]).
  - cbn [snd]. repeat split; apply none_of_nil.
  - cbn [snd]. repeat split; apply none_of_nil.
Qed.

Lemma ri_trace_ops {Q} (O : pq_ops Q) : forall ins s, Forall (fun i => is_unbindb i = false) ins ->
  none_of is_setheadb (ri_jbtrace O s ins) /\ none_of is_clearb (ri_jbtrace O s ins) /\
  none_of is_popatseqb (ri_jbtrace O s ins).
Proof.
  induction ins as [|i ins IH]; intros s HF.
  - cbn. repeat split; apply none_of_nil.
  - apply Forall_cons_iff in HF as [Hi HF]. unfold ri_jbtrace. cbn [ri_steps].
    pose proof (ri_step_ops O s i Hi) as (A1 & A2 & A3).
    destruct (ri_step O s i) as [[s1 d] tr]. cbn [snd] in *.
    specialize (IH s1 HF). unfold ri_jbtrace in IH. destruct IH as (B1 & B2 & B3).
    destruct d; cbn [map snd concat]; rewrite ?app_nil_r;
      repeat split; try assumption; apply none_of_app; split; assumption.
Qed.

Lemma ri_trace_first {Q} (O : pq_ops Q) s sq ts rest :
  exists r1 X, ri_jbtrace O s (IPkt sq ts :: rest) = (OPush sq ts, r1) :: X.
Proof.
  unfold ri_jbtrace. cbn [ri_steps]. unfold ri_step.
  destruct (jb_step O s (OPush sq ts)) as [[s1 r1] ev1].
  destruct r1; try (eexists; eexists; reflexivity).
  destruct (jemit s1).
  - destruct (jb_step O s1 OPop) as [[s2 r2] ev2].
    destruct r2; eexists; eexists; reflexivity.
  - eexists; eexists; reflexivity.
Qed.

(* ORDER.  A freshly built interceptor whose first parsed packet has sequence
   number sq0, then any stream of packets (any order, duplicates, losses,
   wrap-around), parse errors and upstream errors, no Unbind/Close: the packets
   handed to the application carry sq0, sq0+1, sq0+2, ... modulo 2^16. *)
Theorem cri_delivers_in_order sq0 ts0 rest : 0 <= sq0 < 65536 ->
  Forall (fun i => is_unbindb i = false) rest ->
  let outs := cri_run (IPkt sq0 ts0 :: rest) in
  map seq_of (delivered outs) = consec sq0 (length (delivered outs)).
Proof.
  intros Hr HF outs. unfold outs.
  destruct (cri_delivered_is_popped (IPkt sq0 ts0 :: rest)) as [E _].
  rewrite <- (map_length seq_of). rewrite E.
  destruct (cri_trace_accepted (IPkt sq0 ts0 :: rest)) as (t' & HS).
  assert (HF' : Forall (fun i => is_unbindb i = false) (IPkt sq0 ts0 :: rest)) by (constructor; [reflexivity|exact HF]).
  pose proof (ri_trace_ops ptr_ops _ (cjb_new default_min) HF') as (A1 & A2 & A3).
  unfold cri_jbtrace in *.
  destruct (ri_trace_first ptr_ops (cjb_new default_min) sq0 ts0 rest) as (r1 & X & EX).
  rewrite EX in *. apply none_of_cons in A1 as [_ A1]. apply none_of_cons in A2 as [_ A2].
  apply none_of_cons in A3 as [_ A3]. rewrite heads_push_first.
  eapply hist_consecutive_from_first; try exact HS; try reflexivity; assumption.
Qed.

(* ---- the epoch after an Unbind/Close ---- *)
(* state of the interceptor's buffer after a stream of events (list-level) *)
Fixpoint ri_exec {Q} (O : pq_ops Q) (s : jb Q) (ins : list rin) : jb Q :=
  match ins with [] => s | i :: tl => ri_exec O (fst (fst (ri_step O s i))) tl end.

Lemma ri_exec_snoc {Q} (O : pq_ops Q) : forall pre s i,
  ri_exec O s (pre ++ [i]) = fst (fst (ri_step O (ri_exec O s pre) i)).
Proof. induction pre as [|j pre IH]; intros s i; [reflexivity|]. cbn [app ri_exec]. apply IH. Qed.

Lemma ari_steps_app : forall l1 a t l2, Inv a t ->
  ri_steps list_ops a (l1 ++ l2) = ri_steps list_ops a l1 ++ ri_steps list_ops (ri_exec list_ops a l1) l2 /\
  length (ri_steps list_ops a l1) = length l1 /\
  exists t1, Inv (ri_exec list_ops a l1) t1.
Proof.
  induction l1 as [|i l1 IH]; intros a t l2 HI.
  - cbn. split; [reflexivity|]. split; [reflexivity|]. exists t. exact HI.
  - cbn [app ri_steps ri_exec length].
    destruct (ari_step_spec a t i HI) as (t1 & E & HI1 & _).
    destruct (ri_spec_step_bad t i) as [[c1 B1] [c2 B2]].
    destruct (ri_step list_ops a i) as [[a1 d] tr]. cbn [fst snd] in *.
    destruct (IH a1 t1 l2 HI1) as (R1 & R2 & R3).
    destruct d; try congruence; cbn [app length]; rewrite R1, R2; auto.
Qed.

Lemma ari_unbind_state a t : Inv a t ->
  exists t', Inv (fst (fst (ri_step list_ops a IUnbind))) t' /\ sstarted t' = false /\ sbuf t' = [].
Proof.
  intros HI. destruct (ari_step_spec a t IUnbind HI) as (t' & E & HI' & _).
  exists t'. split; [exact HI'|].
  unfold ri_step in E. pose proof (ajb_clear_unit a true) as Hu.
  destruct (jb_step list_ops a (OClear true)) as [[a1 r1] ev1]. cbn [fst snd] in *. subst r1.
  cbn [ri_spec_step sp_step expect_unit] in E. inversion E; subst. cbn. auto.
Qed.

(* order, from any state of the specification in which playback has not started
   and nothing is buffered *)
Lemma ari_in_order_from a t sq0 ts0 rest : Inv a t -> sstarted t = false -> sbuf t = [] ->
  0 <= sq0 < 65536 -> Forall (fun i => is_unbindb i = false) rest ->
  let outs := ri_run list_ops a (IPkt sq0 ts0 :: rest) in
  map seq_of (delivered outs) = consec sq0 (length (delivered outs)).
Proof.
  intros HI Hst Hb Hr HF outs. unfold outs.
  destruct (ari_steps_spec (IPkt sq0 ts0 :: rest) a t HI) as (_ & (t' & HS) & E & _ & _).
  rewrite <- (map_length seq_of). rewrite E.
  assert (HF' : Forall (fun i => is_unbindb i = false) (IPkt sq0 ts0 :: rest)) by (constructor; [reflexivity|exact HF]).
  pose proof (ri_trace_ops list_ops _ a HF') as (A1 & A2 & A3).
  destruct (ri_trace_first list_ops a sq0 ts0 rest) as (r1 & X & EX).
  rewrite EX in *. apply none_of_cons in A1 as [_ A1]. apply none_of_cons in A2 as [_ A2].
  apply none_of_cons in A3 as [_ A3]. rewrite heads_push_first.
  eapply hist_consecutive_from_first; try exact HS; assumption.
Qed.

(* ORDER after Unbind/Close.  Whatever happened before, after an Unbind/Close the
   first parsed packet sq1 restarts the sequence: with no further Unbind/Close the
   application receives sq1, sq1+1, ... modulo 2^16 from then on. *)
Theorem cri_delivers_in_order_after_unbind pre sq1 ts1 rest : 0 <= sq1 < 65536 ->
  Forall (fun i => is_unbindb i = false) rest ->
  let outs := skipn (S (length pre)) (cri_run (pre ++ IUnbind :: IPkt sq1 ts1 :: rest)) in
  map seq_of (delivered outs) = consec sq1 (length (delivered outs)).
Proof.
  intros Hr HF outs. unfold outs, cri_run, ri_run. rewrite cri_steps_eq.
  replace (pre ++ IUnbind :: IPkt sq1 ts1 :: rest) with ((pre ++ [IUnbind]) ++ IPkt sq1 ts1 :: rest)
    by (rewrite <- app_assoc; reflexivity).
  destruct (ari_steps_app (pre ++ [IUnbind]) _ _ (IPkt sq1 ts1 :: rest) Inv_default) as (E & Hl & _).
  rewrite E, map_app.
  replace (S (length pre)) with (length (map fst (ri_steps list_ops (ajb_new default_min) (pre ++ [IUnbind]))))
    by (rewrite map_length, Hl, app_length; cbn; lia).
  rewrite skipn_app, skipn_all, Nat.sub_diag. cbn [app skipn].
  (* the state after pre ++ [IUnbind] *)
  destruct (ari_steps_app pre _ _ [IUnbind] Inv_default) as (_ & _ & (t1 & HI1)).
  destruct (ari_unbind_state _ _ HI1) as (t2 & HI2 & Hst & Hb).
  rewrite ri_exec_snoc. exact (ari_in_order_from _ t2 sq1 ts1 rest HI2 Hst Hb Hr HF).
Qed.

(* non-vacuity (minimum count 50): 49 refusals, then 100, 101, ... *)
Example cri_example :
  let ins := map (fun k => IPkt (100 + Z.of_nat k) 0) (seq 0 52) in
  delivered (cri_run ins) = [(0, 100, 0); (1, 101, 0); (2, 102, 0)] /\
  nth 48 (cri_run ins) DBad = DErr ErrPopWhileBuffering.
Proof. vm_compute. split; reflexivity. Qed.
