(* C19, float layer: the EXECUTABLE primitive-float kernels of Model/StatsKernels.v
   (pkg/stats/stats_recorder.go) compute the WebRTC-stats formulas, with stated bounds,
   for all integer inputs in the stated ranges.  Link lemmas: Proofs/NtpFloatProofs.v;
   relative error law, Seconds()*clockRate analysis and the integer-quotient lemma:
   Proofs/ReportFloatProofs.v (imported, not copied).

   - sk_delay   Duration(float64(d)/65536.0*1e9)       EXACT: = floor(d*10^9/65536)         (d < 2^32)
   - frac_kernel (ntp.ToTime fraction, 2^32-1 divisor) within (-1.001, +0.234] ns of fr*10^9/2^32
   - rtt_of     (ts.Add(-dlsr)).Sub(ntp.ToTime(n))     within [-0.25, +2.001) ns of the exact formula
                (the same kernel pair serves the LSR/DLSR form and the DLRR form)
   - sk_rjitter float64(jitter)/clockRate              one rounding: relative 2^-53
   - sk_frac    float64(fractionLost)/256.0            EXACT
   - sk_units   uint32(Seconds()*clockRate)            = elapsed_kernel: all C07 bounds carry over
   - sk_jitter  J += (1/16) * (float64(d)/clockRate - J) finite, non-negative, bounded, within
                2^-52 (d/rate + J) + 2^-1072 of the exact rational step *)
From IV Require Import Base.Word Base.F64 Model.Ntp Model.SenderStream Model.StatsRecorder Model.StatsKernels
  Proofs.NtpFloatProofs Proofs.ReportFloatProofs.
From Coq Require Import ZArith Reals Floats Uint63 Lia Lra.
From Flocq Require Import Core.Core IEEE754.BinarySingleNaN.
Require Flocq.IEEE754.PrimFloat.
Ltac Zify.zify_post_hook ::= Z.div_mod_to_equations.
Open Scope R_scope.

Lemma bpow_m16 : bpow radix2 (-16) = / 65536. Proof. bp. Qed.
Lemma bpow_m8 : bpow radix2 (-8) = / 256. Proof. bp. Qed.
Lemma bpow_m7 : bpow radix2 (-7) = / 128. Proof. bp. Qed.
Lemma bpow50 : bpow radix2 50 = 1125899906842624. Proof. bp. Qed.

Lemma FR_c65536 : FR 65536%float = 65536. Proof. fr_const. pow_const. lra. Qed.
Lemma FR_c256 : FR 256%float = 256. Proof. fr_const. pow_const. lra. Qed.
Lemma fin_c65536 : fin 65536%float. Proof. unfold fin. rewrite <- fin_f64. reflexivity. Qed.
Lemma fin_c256 : fin 256%float. Proof. unfold fin. rewrite <- fin_f64. reflexivity. Qed.

Lemma to_i64_link63 f : fin f -> 0 <= FR f < 9223372036854775808 -> f64_to_i64 f = Zfloor (FR f).
Proof.
  intros Hf Hr. unfold f64_to_i64. rewrite trunc_link, fin_f64, Hf, Ztrunc_floor by lra.
  assert (L := Zfloor_lb (FR f)).
  assert (Z0 : (0 <= Zfloor (FR f))%Z) by (rewrite <- (Zfloor_IZR 0); apply Zfloor_le; lra).
  assert (Z1 : (Zfloor (FR f) < 9223372036854775808)%Z) by (apply lt_IZR; lra).
  destruct (Z.ltb_spec (Zfloor (FR f)) (-9223372036854775808)); [lia|].
  destruct (Z.ltb_spec 9223372036854775807 (Zfloor (FR f))); [lia|].
  reflexivity.
Qed.

(* ---------- sk_delay: exact ---------- *)
Lemma delay_link d : (0 <= d < 4294967296)%Z ->
  fin (f64_of_Z d / 65536 * 1000000000)%float /\
  FR (f64_of_Z d / 65536 * 1000000000)%float = IZR (d * 1953125) / 128.
Proof.
  intros Hd.
  assert (D0 : 0 <= IZR d) by (apply IZR_le; lia).
  assert (D1 : IZR d <= 4294967295) by (apply IZR_le; lia).
  destruct (of_Z_link d) as [F0 V0]. { lia. } rewrite rnd64_int in V0 by lia.
  destruct (div_link (f64_of_Z d) 65536%float 40 F0) as [F1 V1].
  { rewrite FR_c65536; lra. } { lia. }
  { rewrite V0, FR_c65536, bpow40, Rabs_pos_eq; lra. }
  rewrite V0, FR_c65536 in V1.
  replace (IZR d / 65536) with (IZR d * bpow radix2 (-16)) in V1 by (rewrite bpow_m16; field).
  rewrite rnd64_scaled in V1 by lia. rewrite bpow_m16 in V1.
  destruct (mul_link (f64_of_Z d / 65536)%float 1000000000%float 50 F1 fin_c9) as [F2 V2].
  { lia. } { rewrite V1, FR_c9, bpow50, Rabs_pos_eq; lra. }
  rewrite V1, FR_c9 in V2.
  replace (IZR d * / 65536 * 1000000000) with (IZR (d * 1953125) * bpow radix2 (-7)) in V2
    by (rewrite bpow_m7, mult_IZR; field).
  rewrite rnd64_scaled in V2 by lia. rewrite bpow_m7 in V2.
  split. exact F2. rewrite V2. reflexivity.
Qed.

Open Scope Z_scope.

Theorem sk_delay_exact d : 0 <= d < 4294967296 -> sk_delay d = d * 1000000000 / 65536.
Proof.
  intros Hd. destruct (delay_link d Hd) as [F V]. unfold sk_delay.
  assert (P : (0 <= IZR (d * 1953125) / 128 < 9223372036854775808)%R).
  { assert (0 <= IZR (d * 1953125))%R by (apply IZR_le; lia).
    assert (IZR (d * 1953125) <= 9007199254740992)%R by (apply IZR_le; lia). lra. }
  rewrite to_i64_link63 by (rewrite ?V; auto).
  rewrite V. rewrite Zfloor_div by lia.
  change 1000000000 with (1953125 * 512). change 65536 with (128 * 512).
  rewrite Z.mul_assoc. rewrite Z.div_mul_cancel_r by lia. reflexivity.
Qed.

(* ---------- ntp.ToTime's fraction kernel: accuracy ---------- *)
(* frac_kernel fr ~ fr * 10^9 / 2^32 ns; the code divides by 2^32 - 1, which adds up to 0.233 ns *)
Theorem frac_kernel_bound fr : 0 <= fr < 4294967296 ->
  - (4294967296 + 1024) <= frac_kernel fr * 4294967296 - fr * 1000000000 <= 1073741824 /\
  0 <= frac_kernel fr <= 1000000000.
Proof.
  intros H. rewrite frac_kernel_link by assumption.
  destruct (frac_range rnd64 rnd64_mono rnd64_err rnd64_int fr H) as (Q & _ & W & RR & WW).
  unfold k2R. assert (KL := Zfloor_lb (wR rnd64 fr)). assert (KU := Zfloor_ub (wR rnd64 fr)).
  set (k := Zfloor (wR rnd64 fr)) in *. rewrite Q in RR.
  assert (H0 : (0 <= IZR fr)%R) by (apply IZR_le; lia).
  assert (H1 : (IZR fr <= 4294967295)%R) by (apply IZR_le; lia).
  split; [split|split].
  - apply le_IZR. rewrite opp_IZR, plus_IZR, minus_IZR, !mult_IZR. lra.
  - apply le_IZR. rewrite minus_IZR, !mult_IZR. lra.
  - apply le_IZR. assert (-1 < IZR k)%R by lra. apply lt_IZR in H2. apply IZR_le. lia.
  - apply le_IZR. lra.
Qed.

(* ---------- round-trip time ---------- *)
(* the WebRTC-stats sample, times 2^32, as an exact integer (same text as Check/C19Check.v rtt_exact_32):
   ts - delay/65536 s - unix(ntp) *)
Definition rtt_exact_x32 (ts dly n : Z) : Z :=
  let sec := (n mod 18446744073709551616) / 4294967296 in
  let fr := n mod 4294967296 in
  (ts + 2208988800 * 1000000000 - sec * 1000000000) * 4294967296
  - dly * 1000000000 * 65536 - fr * 1000000000.

(* the executable sample: (ts.Add(-dlsr)).Sub(ntp.ToTime(n)) with the two float kernels *)
Definition rtt_exec (ts dly n : Z) : Z := rtt_of sk_delay frac_kernel ts dly n.

Theorem rtt_exec_bound ts dly n : 0 <= dly < 4294967296 ->
  - 1073741824 <= rtt_exec ts dly n * 4294967296 - rtt_exact_x32 ts dly n <= 2 * 4294967296 + 1024.
Proof.
  intros Hd. unfold rtt_exec, rtt_of, to_time, rtt_exact_x32. cbv zeta.
  rewrite sk_delay_exact by assumption.
  set (sec := (n mod 18446744073709551616) / 4294967296).
  set (fr := n mod 4294967296).
  assert (Hf : 0 <= fr < 4294967296) by (unfold fr; apply Z.mod_pos_bound; lia).
  destruct (frac_kernel_bound fr Hf) as [[K1 K2] _].
  set (K := frac_kernel fr) in *. clearbody K sec fr.
  set (D := dly * 1000000000 / 65536).
  assert (HD : D * 65536 <= dly * 1000000000 < (D + 1) * 65536) by (unfold D; lia).
  clearbody D. lia.
Qed.

(* the tolerance of the specification oracle (Check/C19Check.v rtt_tol_32 = 3 ns) is a theorem *)
Theorem rtt_exec_within_3ns ts dly n : 0 <= dly < 4294967296 ->
  Z.abs (rtt_exec ts dly n * 4294967296 - rtt_exact_x32 ts dly n) <= 3 * 4294967296.
Proof. intros Hd. assert (B := rtt_exec_bound ts dly n Hd). lia. Qed.

Example rtt_exec_nonvacuous :
  rtt_exec 1700000001500000000 32768 (3908988800 * 4294967296 + 2147483648) = 500000000.
Proof. vm_compute. reflexivity. Qed.

(* ---------- jitter / clockRate and fractionLost / 256 ---------- *)
Open Scope R_scope.

Theorem sk_rjitter_bound rate j : (0 <= j < 9007199254740992)%Z -> (0 < rate < 9007199254740992)%Z ->
  fin (sk_rjitter rate j) /\ FR (sk_rjitter rate j) = rnd64 (IZR j / IZR rate) /\
  Rabs (FR (sk_rjitter rate j) - IZR j / IZR rate) <= / 9007199254740992 * (IZR j / IZR rate).
Proof.
  intros Hj Hr. destruct (quot_link j rate Hj Hr) as [F V]. unfold sk_rjitter.
  split; [exact F|]. split; [exact V|]. rewrite V.
  destruct (div_floor_exact j rate Hj Hr) as (_ & X & _).
  set (x := IZR j / IZR rate) in *.
  assert (OK : x = 0 \/ / 1267650600228229401496703205376 <= x).
  { destruct (Z.eq_dec j 0) as [E|NE].
    - left. unfold x. rewrite E. lra.
    - right. assert (1 <= IZR j) by (apply IZR_le; lia).
      assert (B0 : 0 < IZR rate) by (apply IZR_lt; lia).
      assert (B1 : IZR rate <= 9007199254740992) by (apply IZR_le; lia).
      assert (XB : x * IZR rate = IZR j) by (unfold x; field; lra).
      apply Rmult_le_reg_r with (IZR rate). exact B0. rewrite XB. lra. }
  assert (R := rel_nn x OK). apply Rabs_le. lra.
Qed.

Theorem sk_frac_exact fl : (0 <= fl < 9007199254740992)%Z ->
  fin (sk_frac fl) /\ FR (sk_frac fl) = IZR fl / 256.
Proof.
  intros H. unfold sk_frac.
  assert (D0 : 0 <= IZR fl) by (apply IZR_le; lia).
  assert (D1 : IZR fl <= 9007199254740992) by (apply IZR_le; lia).
  destruct (of_Z_link fl) as [F0 V0]. { lia. } rewrite rnd64_int in V0 by lia.
  destruct (div_link (f64_of_Z fl) 256%float 53 F0) as [F1 V1].
  { rewrite FR_c256; lra. } { lia. }
  { rewrite V0, FR_c256, bpow53, Rabs_pos_eq; lra. }
  rewrite V0, FR_c256 in V1.
  replace (IZR fl / 256) with (IZR fl * bpow radix2 (-8)) in V1 by (rewrite bpow_m8; field).
  rewrite rnd64_scaled in V1 by lia. rewrite bpow_m8 in V1.
  split. exact F1. rewrite V1. field.
Qed.

Open Scope Z_scope.

(* ---------- sk_units is the C07 kernel ---------- *)
Lemma sk_units_is_elapsed rate ns : sk_units rate ns = elapsed_kernel ns rate.
Proof. reflexivity. Qed.

Theorem sk_units_oracle rate ns : 0 <= ns <= MaxDur -> 0 <= rate < 4294967296 ->
  let exact := ns * rate / 1000000000 in
  exact < 4611686018427387904 ->
  Z.abs (s32 (sk_units rate ns - exact)) <= 1 + exact / 1125899906842624.
Proof. intros H1 H2. rewrite sk_units_is_elapsed. exact (elapsed_kernel_oracle ns rate H1 H2). Qed.

Theorem sk_units_within_one_tick rate ns : 0 <= ns <= MaxDur -> 0 <= rate < 4294967296 ->
  let exact := ns * rate / 1000000000 in
  exact < 4294967294 -> Z.abs (sk_units rate ns - exact) <= 1.
Proof.
  intros H1 H2. cbv zeta. intros H3. rewrite sk_units_is_elapsed.
  exact (proj2 (elapsed_kernel_nowrap ns rate H1 H2 H3)).
Qed.

(* ---------- sk_jitter: Jitter += (1.0/16.0) * (float64(d)/clockRate - Jitter) ---------- *)
Open Scope R_scope.

Lemma FR_c16th : FR 0.0625%float = / 16. Proof. fr_const. pow_const. lra. Qed.
Lemma fin_c16th : fin 0.0625%float. Proof. unfold fin. rewrite <- fin_f64. reflexivity. Qed.
Lemma bpow54 : bpow radix2 54 = 18014398509481984. Proof. bp. Qed.
Lemma rnd64_2p54 : rnd64 18014398509481984 = 18014398509481984.
Proof.
  rewrite <- bpow54. replace (bpow radix2 54) with (IZR 1 * bpow radix2 54) by ring.
  apply rnd64_scaled; lia.
Qed.

Lemma quot_rel a b : (0 <= a < 9007199254740992)%Z -> (0 < b < 9007199254740992)%Z ->
  let x := IZR a / IZR b in
  0 <= x < 9007199254740992 /\ x * (1 - / 9007199254740992) <= rnd64 x <= x * (1 + / 9007199254740992).
Proof.
  intros Ha Hb x. destruct (div_floor_exact a b Ha Hb) as (_ & X & _). fold x in X.
  assert (K : IZR (a / b) + 1 <= 9007199254740992).
  { rewrite <- (plus_IZR _ 1). apply IZR_le. assert (a / b <= a)%Z by (apply Z.div_le_upper_bound; nia). lia. }
  split. lra. apply rel_nn.
  destruct (Z.eq_dec a 0) as [E|NE].
  - left. unfold x. rewrite E. lra.
  - right. assert (1 <= IZR a) by (apply IZR_le; lia).
    assert (B0 : 0 < IZR b) by (apply IZR_lt; lia).
    assert (B1 : IZR b <= 9007199254740992) by (apply IZR_le; lia).
    assert (XB : x * IZR b = IZR a) by (unfold x; field; lra).
    apply Rmult_le_reg_r with (IZR b). exact B0. rewrite XB. lra.
Qed.

(* real-number model *)
Definition sjE (j : R) (rate d : Z) : R := rnd64 (rnd64 (IZR d / IZR rate) - j).
Definition sjQ (j : R) (rate d : Z) : R := rnd64 (/ 16 * sjE j rate d).
Definition sjitR (j : R) (rate d : Z) : R := rnd64 (j + sjQ j rate d).

Lemma sjit_analysis j rate d : (0 <= d < 9007199254740992)%Z -> (0 < rate < 9007199254740992)%Z ->
  0 <= j <= 18014398509481984 -> rnd64 j = j ->
  let x := IZR d / IZR rate in
  Rabs (rnd64 x - j) <= 28000000000000000 /\
  Rabs (/ 16 * sjE j rate d) <= 1800000000000000 /\
  Rabs (j + sjQ j rate d) <= 20000000000000000 /\
  0 <= sjitR j rate d <= 18014398509481984 /\
  Rabs (sjitR j rate d - (j + (x - j) / 16)) <= / 4503599627370496 * (x + j) + 4 * eta.
Proof.
  intros Hd Hr Hj Hjr x.
  assert (EP := eta_pos). assert (ES := eta_small).
  destruct (quot_rel d rate Hd Hr) as [X0 DS]. cbv zeta in X0, DS. fold x in X0, DS.
  set (ds := rnd64 x) in *.
  set (M2 := x * (1 + / 9007199254740992) + j).
  assert (X2 : Rabs (ds - j) <= M2) by (apply Rabs_le; unfold M2; lra).
  assert (E := rnd64_relabs (ds - j) M2 X2). change (rnd64 (ds - j)) with (sjE j rate d) in E.
  set (e := sjE j rate d) in *.
  set (M3 := (M2 * (1 + / 9007199254740992) + eta) / 16).
  assert (X3 : Rabs (/ 16 * e) <= M3) by (apply Rabs_le; unfold M3, M2 in *; lra).
  assert (Q := rnd64_relabs (/ 16 * e) M3 X3). change (rnd64 (/ 16 * e)) with (sjQ j rate d) in Q.
  set (q := sjQ j rate d) in *.
  set (M4 := j + M3 * (1 + / 9007199254740992) + eta).
  assert (X4 : Rabs (j + q) <= M4) by (apply Rabs_le; unfold M4, M3, M2 in *; lra).
  assert (J := rnd64_relabs (j + q) M4 X4). change (rnd64 (j + q)) with (sjitR j rate d) in J.
  set (J' := sjitR j rate d) in *.
  split. { apply Rle_trans with (1 := X2). unfold M2. lra. }
  split. { apply Rle_trans with (1 := X3). unfold M3, M2. lra. }
  split. { apply Rle_trans with (1 := X4). unfold M4, M3, M2. lra. }
  split; [split|].
  - assert (Nj : rnd64 (- j) = - j) by (rewrite rnd64_opp, Hjr; reflexivity).
    assert (Ee : - j <= e).
    { rewrite <- Nj. change e with (rnd64 (ds - j)). apply rnd64_mono. lra. }
    assert (Qq : - j <= q).
    { rewrite <- Nj. change q with (rnd64 (/ 16 * e)). apply rnd64_mono. lra. }
    change J' with (rnd64 (j + q)). apply r_nonneg. lra.
  - rewrite <- rnd64_2p54. change J' with (rnd64 (j + q)). apply rnd64_mono.
    destruct (Rle_or_lt ds j) as [C|C].
    + assert (Ee : e <= 0).
      { rewrite <- (rnd64_int 0) by lia. change e with (rnd64 (ds - j)). apply rnd64_mono. lra. }
      assert (Qq : q <= 0).
      { rewrite <- (rnd64_int 0) by lia. change q with (rnd64 (/ 16 * e)). apply rnd64_mono. lra. }
      lra.
    + apply Rle_trans with M4. apply Rabs_le_inv in X4. lra. unfold M4, M3, M2. lra.
  - apply Rabs_le. unfold M4, M3, M2 in *. lra.
Qed.

Lemma sk_jitter_link rate j d : (0 <= d < 9007199254740992)%Z -> (0 < rate < 9007199254740992)%Z ->
  fin j -> 0 <= FR j <= 18014398509481984 ->
  fin (sk_jitter rate j d) /\ FR (sk_jitter rate j d) = sjitR (FR j) rate d.
Proof.
  intros Hd Hr Fj Hj.
  destruct (sjit_analysis (FR j) rate d Hd Hr Hj (rnd64_FR j)) as (B2 & B3 & B4 & _). cbv zeta in B2.
  destruct (quot_link d rate Hd Hr) as [F1 V1].
  unfold sk_jitter. cbv zeta.
  set (ds := (f64_of_Z d / f64_of_Z rate)%float) in *.
  destruct (sub_link ds j 70 F1 Fj) as [F2 V2].
  { lia. } { rewrite V1, bpow70. apply Rle_trans with (1 := B2). lra. }
  rewrite V1 in V2. fold (sjE (FR j) rate d) in V2.
  destruct (mul_link 0.0625%float (ds - j)%float 70 fin_c16th F2) as [F3 V3].
  { lia. } { rewrite V2, FR_c16th, bpow70. apply Rle_trans with (1 := B3). lra. }
  rewrite V2, FR_c16th in V3. fold (sjQ (FR j) rate d) in V3.
  destruct (add_link j (0.0625 * (ds - j))%float 70 Fj F3) as [F4 V4].
  { lia. } { rewrite V3, bpow70. apply Rle_trans with (1 := B4). lra. }
  rewrite V3 in V4. fold (sjitR (FR j) rate d) in V4.
  split; assumption.
Qed.

Theorem sk_jitter_step rate j d : (0 <= d < 9007199254740992)%Z -> (0 < rate < 9007199254740992)%Z ->
  fin j -> 0 <= FR j <= 18014398509481984 ->
  let J' := sk_jitter rate j d in
  fin J' /\ 0 <= FR J' <= 18014398509481984 /\
  Rabs (FR J' - (FR j + (IZR d / IZR rate - FR j) / 16))
    <= / 4503599627370496 * (IZR d / IZR rate + FR j) + bpow radix2 (-1072).
Proof.
  intros Hd Hr Fj Hj. cbv zeta.
  destruct (sk_jitter_link rate j d Hd Hr Fj Hj) as [F V].
  destruct (sjit_analysis (FR j) rate d Hd Hr Hj (rnd64_FR j)) as (_ & _ & _ & I & A).
  cbv zeta in A. rewrite V. split; [exact F|]. split; [exact I|].
  replace (bpow radix2 (-1072)) with (4 * eta). exact A.
  unfold eta. change (-1072)%Z with (2 + -1074)%Z. rewrite bpow_plus. change (bpow radix2 2) with 4. ring.
Qed.
