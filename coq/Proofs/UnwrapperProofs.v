From IV Require Import Base.Word Model.Unwrapper.
From Coq Require Import ZifyBool.
Ltac Zify.zify_post_hook ::= Z.div_mod_to_equations.

Ltac unw := unfold unwrap_next, is_newer, sub16, u16; cbv zeta.
Ltac split_ifs :=
  repeat match goal with
  | |- context [if ?c then _ else _] =>
      match c with context [if _ then _ else _] => fail 1 | _ => destruct c eqn:? end
  | H : context [if ?c then _ else _] |- _ =>
      match c with context [if _ then _ else _] => fail 1 | _ => destruct c eqn:? end
  end.

(* results are congruent to the input *)
Lemma unwrap_next_congr last i : 0 <= i < 65536 -> (unwrap_next last i - i) mod 65536 = 0.
Proof.
  intros Hi. unw.
  split_ifs; lia.
Qed.

Lemma unwrap_next_nonneg last i : 0 <= last -> 0 <= i < 65536 -> 0 <= unwrap_next last i.
Proof.
  intros Hl Hi. unw.
  split_ifs; lia.
Qed.

(* the signed step is within half the range, except that it never goes below zero *)
Lemma unwrap_next_step last i : 0 <= last -> 0 <= i < 65536 ->
  let r := unwrap_next last i in
  (-32768 <= r - last <= 32768) \/ (r - last < 65536 /\ r < 65536 /\ r - 65536 < 0).
Proof.
  intros Hl Hi. unw.
  split_ifs; lia.
Qed.

(* "nearest representative": r is the representative of i closest to last;
   a tie (distance exactly 2^15) goes forward iff the 16-bit input is
   numerically larger than the 16-bit previous value; if the nearest
   representative would be negative the next one up is taken. *)
Definition nearest_spec (last i r : Z) : Prop :=
  (r - i) mod 65536 = 0 /\ 0 <= r /\
  let lw := last mod 65536 in
  let d := (i - lw) mod 65536 in
  let fwd := last + d in               (* in [last, last+65535] *)
  let bwd := last + d - 65536 in       (* in [last-65536, last-1] *)
  if d =? 0 then r = last
  else if d <? 32768 then r = fwd
  else if d =? 32768 then (if i >? lw then r = fwd else if bwd >=? 0 then r = bwd else r = fwd)
  else (if bwd >=? 0 then r = bwd else r = fwd).

Lemma unwrap_next_nearest last i : 0 <= last -> 0 <= i < 65536 ->
  nearest_spec last i (unwrap_next last i).
Proof.
  intros Hl Hi. unfold nearest_spec. split; [apply unwrap_next_congr; auto|].
  split; [apply unwrap_next_nonneg; auto|]. unw.
  split_ifs; lia.
Qed.

(* consequence: when last >= 2^15 the result is within 2^15 of last *)
Lemma unwrap_next_within last i : 32768 <= last -> 0 <= i < 65536 ->
  Z.abs (unwrap_next last i - last) <= 32768.
Proof.
  intros Hl Hi. unw.
  split_ifs; lia.
Qed.

(* exact reconstruction of one step *)
Lemma unwrap_next_exact last v : 0 <= last -> 0 <= v -> Z.abs (v - last) < 32768 ->
  unwrap_next last (v mod 65536) = v.
Proof.
  intros Hl Hv Hd. unw.
  split_ifs; lia.
Qed.

(* ---- whole histories ---- *)

Definition all_u16 (l : list Z) : Prop := Forall (fun i => 0 <= i < 65536) l.

Definition st_nonneg (st : option Z) : Prop := match st with None => True | Some l => 0 <= l end.

Lemma unwrap_all_nonneg st l : st_nonneg st -> all_u16 l -> Forall (fun r => 0 <= r) (unwrap_all st l).
Proof.
  revert st; induction l as [|i tl IH]; intros st Hst Hl; simpl; [constructor|].
  inversion Hl as [|? ? Hi Htl]; subst.
  destruct st as [last|]; simpl in *.
  - constructor; [apply unwrap_next_nonneg; auto|]. apply IH; simpl; auto. apply unwrap_next_nonneg; auto.
  - constructor; [lia|]. apply IH; simpl; auto; lia.
Qed.

Lemma unwrap_all_congr st l : all_u16 l ->
  Forall2 (fun i r => (r - i) mod 65536 = 0) l (unwrap_all st l).
Proof.
  revert st; induction l as [|i tl IH]; intros st Hl; simpl; [constructor|].
  inversion Hl as [|? ? Hi Htl]; subst.
  destruct st as [last|]; simpl.
  - constructor; [apply unwrap_next_congr; auto|]. apply IH; auto.
  - constructor; [replace (i - i) with 0 by lia; reflexivity|]. apply IH; auto.
Qed.

(* every output is the nearest representative w.r.t. the previous output *)
Fixpoint nearest_chain (prev : option Z) (ins outs : list Z) : Prop :=
  match ins, outs with
  | [], [] => True
  | i :: ins', r :: outs' =>
      match prev with
      | None => r = i
      | Some p => nearest_spec p i r
      end /\ nearest_chain (Some r) ins' outs'
  | _, _ => False
  end.

Lemma unwrap_all_nearest st l : st_nonneg st -> all_u16 l -> nearest_chain st l (unwrap_all st l).
Proof.
  revert st; induction l as [|i tl IH]; intros st Hst Hl; simpl; [exact I|].
  inversion Hl as [|? ? Hi Htl]; subst.
  destruct st as [last|]; simpl in *.
  - split; [apply unwrap_next_nearest; auto|]. apply IH; simpl; auto. apply unwrap_next_nonneg; auto.
  - split; [reflexivity|]. apply IH; simpl; auto; lia.
Qed.

(* a true stream with steps < 2^15 *)
Fixpoint small_steps (prev : Z) (vs : list Z) : Prop :=
  match vs with
  | [] => True
  | v :: tl => 0 <= v /\ Z.abs (v - prev) < 32768 /\ small_steps v tl
  end.

Lemma unwrap_all_exact_from last vs : 0 <= last -> small_steps last vs ->
  unwrap_all (Some last) (map (fun v => v mod 65536) vs) = vs.
Proof.
  revert last; induction vs as [|v tl IH]; intros last Hl Hs; simpl; [reflexivity|].
  destruct Hs as (Hv & Hd & Hs).
  rewrite unwrap_next_exact by auto. f_equal. apply IH; auto.
Qed.

Lemma unwrap_all_exact v0 vs : 0 <= v0 < 65536 -> small_steps v0 vs ->
  unwrap_all None (map (fun v => v mod 65536) (v0 :: vs)) = v0 :: vs.
Proof.
  intros H0 Hs. simpl. replace (v0 mod 65536) with v0 by lia. f_equal.
  apply unwrap_all_exact_from; auto; lia.
Qed.

(* The literal reading "within 2^15 of the previous result" cannot be met by
   any function at the zero floor: previous 5, input 65535. *)
Lemma literal_unsat : ~ exists r, 0 <= r /\ (r - 65535) mod 65536 = 0 /\ Z.abs (r - 5) <= 32768.
Proof. intros (r & H1 & H2 & H3). lia. Qed.
